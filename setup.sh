#!/bin/sh
# MANIFEST.setup_cmd: build everything from files on disk, offline.
set -e
cd "$(dirname "$0")"
export CARGO_NET_OFFLINE=true
mkdir -p build evidence replays
(cd harness && cargo build --offline 2>&1 | tail -3)
./harness/target/debug/dzh dump-constants > coq/theories/Generated.v.new && { cmp -s coq/theories/Generated.v.new coq/theories/Generated.v || mv coq/theories/Generated.v.new coq/theories/Generated.v; rm -f coq/theories/Generated.v.new; }
cd coq
{ cat _CoqProject.base; ls theories/*.v; } > _CoqProject
coq_makefile -f _CoqProject -o Makefile > /dev/null
timeout 3000 make -k -j16 2>&1 | tail -5 || true
