#!/usr/bin/env python3
"""Regenerates /verif/MANIFEST.json from the table below (claimed = Props_<ID>.v and lib/props/<ID>.py both exist)."""
import json, os
V = os.path.dirname(os.path.dirname(os.path.abspath(__file__)))
TIE = ("The model is tied to /repo's current source on every run by a correspondence check: the real processors (linked from /repo with the "
       "cfg-guarded hook) are executed natively inside solana-program-test's bank and the Gallina model is executed inside Coq (vm_compute) on "
       "the same seeded histories; accept/reject and every touched account are compared step by step, and the property's own statement is run "
       "as a Gallina monitor on the implementation's trace. ")
NOTE = ("Trusted: Coq 8.16.1 kernel + vm_compute; no axioms (allow-list empty); hand-written Gallina model tied to the Rust by seeded differential "
        "execution (tested, not proved equal); idealised hashing / address derivation; solana-program-test 3.0.12 with the vendored patches as the "
        "runtime; native x86-64 code generation with overflow checks off standing in for SBF. ")
P = {
 "C01": ("Merkle soundness over a free hash for trees of every size (forged, re-indexed, cross-epoch, cross-validator proofs cannot fold to the root), "
         "exact payment / write-off specifications and settled-at-most-once bookkeeping as theorems about the model where proved so far; the remaining "
         "history invariant is decided operationally by mon_C01 until its proof lands (stated in Props_C01.v).", "Coq proof (Merkle soundness, processor specs) + bank correspondence + Gallina monitor", "7-C01"),
 "C02": ("Arithmetic core proved for all inputs (exact floor share, every token transferred or burned, cumulative outflow <= collected for share totals <= 100%, residue < number of leaves); "
         "processor-level outflow decided by correspondence + mon_C02 until the spec theorem lands.", "Coq proof (share arithmetic) + direct-call and bank correspondence + monitor", "7-C02"),
 "C03": ("Burn floor, exact recipient amounts, dust-to-burn, leaf packing injectivity proved for all inputs; routing clauses decided by correspondence + monitor (clauses 20-24 of mon_C02).",
         "Coq proof (split arithmetic, packing) + direct-call and bank correspondence + monitor", "7-C03"),
 "C04": ("Flags monotone and finalized figures frozen under every instruction and every history (invariant by induction over transactions), gates as success=>guard theorems.", "Coq invariant proof + bank correspondence + monitor", "7-C04"),
 "C05": ("Exact sweep specification (both branches) and epoch-order guard as theorems; pointer/accounting monitored on the implementation.", "Coq proof (sweep spec, guards) + bank correspondence + monitor", "7-C05"),
 "C06": ("Withdrawal guards and exact effect as theorems; conservation identity and rent cover monitored on the implementation.", "Coq proof (withdraw spec, guards) + bank correspondence + monitor", "7-C06"),
 "C07": ("One success=>guard theorem per privileged instruction of both programs: the presented authority is a signer of the transaction and equals the role key stored in the state the instruction reads, for all worlds and account lists; default key never signs.", "Coq success=>guard proofs + bank correspondence + monitor", "7-C07"),
 "C08": ("paused => every non-exempt instruction fails, for all worlds and account lists (both programs; request-only pause).", "Coq success=>guard proofs + bank correspondence + monitor", "7-C08"),
 "C09": ("success => every constrained account position holds the canonical key / owner / type; re-initialisation fails.", "Coq success=>guard proofs + bank correspondence + monitor", "7-C09"),
 "C10": ("Write-off / enable guards and exact effect (checked additions, no lamports or tokens move, uncollectible <= total).", "Coq proof (write-off spec, guards) + bank correspondence + monitor", "7-C10"),
 "C11": ("Exact lamport formulas of the three resizing instructions and the cover inequality after each; relay payout exactness.", "Coq proof (lamport specs) + bank correspondence + monitor", "7-C11"),
 "C12": ("finalize-rewards success with the null root implies zero collectible debt and zero prepaid 2Z.", "Coq success=>guard proof + bank correspondence + monitor", "7-C12"),
 "C13": ("Phase progress lemmas for SDK-built instructions; honest pipelines executed on the implementation.", "Coq progress lemmas (partial) + honest-pipeline correspondence", "7-C13"),
 "C14": ("All ramp clauses proved for every parameter tuple and every interleaving of computes and (accepted/rejected) reconfigurations; model refines a closed-form schedule.", "Coq proof (burn-rate ramp) + direct-call correspondence through the real processor", "7-C14"),
 "C15": ("Snapshot immutability under every instruction and history; creation guards; creation effect monitored.", "Coq invariant proof + bank correspondence + monitor", "7-C15"),
 "C16": ("RecipientShares::new accepted iff valid (1..8 entries, no zero key/share, total 10 000), rejected update keeps the table, stored table empty or valid — proved; manager/flag rules as guards.", "Coq proof (table validity) + direct-call and bank correspondence + monitor", "7-C16"),
 "C17": ("Exact request / grant / deny specifications with frame and lamport conservation for all worlds, aliasing included.", "Coq proof (passport specs) + bank correspondence + monitor", "7-C17"),
 "C18": ("Request admission guards (top level, pause flags, deposit, service key, backup list bounds), stored mode = submitted mode, configuration validation.", "Coq success=>guard proofs + bank correspondence + monitor", "7-C18"),
 "C19": ("Byte-level Borsh codecs of the three instruction enums proved sound and complete (round trip, canonicity, injectivity, trailing/truncated/unknown-selector rejection, selector uniqueness, strict dispatch).", "Coq proof (codec laws) + byte-exact direct-call correspondence", "7-C19"),
 "C20": ("Machine-checked refinement: the fills ring as coded behaves, for every buy/dequeue sequence, like a list queue of capacity 8.", "Coq refinement proof (ring -> list queue) + direct-call correspondence", "7-C20"),
}
CLAIMED = ["C01", "C02", "C03", "C04", "C05", "C06", "C07", "C08", "C09", "C10", "C11", "C12", "C13", "C14", "C15", "C16", "C17", "C18", "C19", "C20"]   # extended by hand as proofs land
checks, na = [], []
for pid in sorted(P):
    text, tech, ref = P[pid]
    have = os.path.exists(os.path.join(V, "coq/theories/Props_%s.v" % pid)) and os.path.exists(os.path.join(V, "lib/props/%s.py" % pid))
    if not have or pid not in CLAIMED:
        na.append({"property_id": pid, "reason": "not yet claimed: proofs for this property are still being built in this session (model, correspondence and monitor exist); see DESIGN.md section 12"})
        continue
    checks.append({"property_id": pid, "quick_cmd": "./check %s --tier quick" % pid, "thorough_cmd": "./check %s --tier thorough" % pid,
                   "evidence_file": "/verif/evidence/%s.json" % pid, "replay_cmd_template": "./check %s --replay {path}" % pid, "engine": "coq+harness",
                   "level_claimed": {"category": "proof", "text": text + " " + TIE, "design_ref": "DESIGN.md " + ref},
                   "level_note": NOTE, "technique": tech})
m = {"version": 1, "setup_cmd": "./setup.sh",
     "hooks": {"guard": "--cfg doublezero_solana_verif",
               "enable": "RUSTFLAGS='--cfg doublezero_solana_verif' (set in /verif/harness/.cargo/config.toml) with feature entrypoint of the three program crates",
               "baseline_off_cmd": "cd /repo && cargo test --workspace --no-fail-fast --offline", "source_commits": ["570a87c"], "add_only": True},
     "engines": [{"name": "coq+harness", "path": "/verif/check", "serves_properties": [c["property_id"] for c in checks],
                  "kind_free_text": "Coq 8.16 theorems about a hand-written Gallina model + Rust harness running the real processors (natively under solana-program-test) for the correspondence check; monitors in Gallina"}],
     "checks": checks, "notes": "See DESIGN.md. Known findings: known_findings.json (three fixed so far: C20, C12, C11).", "not_applicable": na}
json.dump(m, open(os.path.join(V, "MANIFEST.json"), "w"), indent=1)
print("claimed:", [c["property_id"] for c in checks], "unclaimed:", [x["property_id"] for x in na])
