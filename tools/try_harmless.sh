#!/bin/bash
# tools/try_harmless.sh [name ...] : behaviour-preserving refactorings (seeded/harmless/<name>.diff) must NOT be reported:
# apply each to /repo, run every property's quick check, undo.  A VIOLATION here is a false alarm of the machinery
# (or the refactoring is not behaviour-preserving after all: look at the replay).
cd /verif
list="$@"; [ -z "$list" ] && list=$(ls seeded/harmless/*.diff | xargs -n1 basename | sed 's/\.diff$//')
props=$(python3 -c "import json; print(' '.join(c['property_id'] for c in json.load(open('MANIFEST.json'))['checks']))")
for m in $list; do
  echo "### harmless $m"
  /verif/tools/try_mutant.sh /verif/seeded/harmless/$m.diff $props 2>&1 | grep -E "^==|what:" | grep -v "rc=0"
  echo "### done $m"
done
