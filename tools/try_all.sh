#!/bin/bash
# tools/try_all.sh <ID:props> ... : for each sub-agent mutant of /tmp/mut/<ID>.out run the named property checks
for spec in "$@"; do
  id="${spec%%:*}"; props="${spec#*:}"; props="${props//,/ }"
  for n in 1 2; do
    p=/tmp/mut/$id.out/patch$n.diff
    [ -f "$p" ] || continue
    echo "### $id/$n"
    /verif/tools/try_mutant.sh "$p" $props 2>&1 | grep -E "^==|what:"
  done
done
