#!/usr/bin/env python3
"""tools/seeded_table.py : reads seeded/trials_*.log (in name order) and seeded/<ID>-<n>/meta.json, writes the per-mutant
outcome into each meta.json ("trials") and prints the DESIGN.md table (section 14)."""
import glob, json, os, re
V = os.path.dirname(os.path.dirname(os.path.abspath(__file__)))
trials = {}   # mutant -> list of (note_at_that_time, {prop: outcome})
notes = []
for f in sorted(glob.glob(os.path.join(V, "seeded", "trials_*.log"))):
    cur = None
    for line in open(f):
        line = line.rstrip("\n")
        m = re.match(r"### NOTE (.*)", line)
        if m: notes.append(m.group(1)); continue
        m = re.match(r"### (C\d+)/(\d)", line)
        if m: cur = "%s-%s" % (m.group(1), m.group(2)); trials.setdefault(cur, []).append((len(notes), {})); continue
        m = re.match(r"== (C\d+) rc=(\d+):\s*(.*)", line)
        if m and cur:
            prop, rc, rest = m.group(1), int(m.group(2)), m.group(3)
            out = "missed" if rc == 0 else ("caught (no failing input: correspondence / proof broken)" if "no-failing-input-found" in rest else "caught with failing input")
            trials[cur][-1][1][prop] = out
rows = []
for d in sorted(glob.glob(os.path.join(V, "seeded", "C*-*"))):
    mid = os.path.basename(d)
    mp = os.path.join(d, "meta.json")
    if not os.path.exists(mp): continue
    meta = json.load(open(mp))
    t = trials.get(mid, [])
    meta["trials"] = [{"after_strengthening_step": n, "outcomes": o} for n, o in t]
    json.dump(meta, open(mp, "w"), indent=1)
    final = t[-1][1] if t else {}
    first = t[0][1] if t else {}
    conf = meta.get("confirmation", {}).get("confirmed")
    def fmt(o): return "; ".join("%s: %s" % (k, v) for k, v in o.items()) or "not run"
    rows.append("| %s | %s | %s | %s | %s | %s |" % (mid, meta.get("summary", "")[:160].replace("|", "/").replace("\n", " "),
                meta.get("needs_to_manifest", "")[:140].replace("|", "/").replace("\n", " "), "yes" if conf else "no" if conf is False else "?",
                fmt(first) if len(t) > 1 else "", fmt(final)))
import sys
lines_out = []
_print = print
def print(*a, **k):
    lines_out.append(" ".join(str(x) for x in a))
print("| mutant | change | needs to manifest | confirmed | first run (before strengthening) | final |")
print("|---|---|---|---|---|---|")
print("\n".join(rows))
print()
for i, n in enumerate(notes, 1): print("%d. %s" % (i, n))

_print("\n".join(lines_out))
if "--design" in sys.argv:
    dp = os.path.join(V, "DESIGN.md"); ds = open(dp).read()
    a = ds.index("<!-- SEEDED-TABLE-BEGIN -->") + len("<!-- SEEDED-TABLE-BEGIN -->"); b = ds.index("<!-- SEEDED-TABLE-END -->")
    open(dp, "w").write(ds[:a] + "\n" + "\n".join(lines_out) + "\n" + ds[b:])
