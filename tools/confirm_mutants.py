#!/usr/bin/env python3
"""tools/confirm_mutants.py <ID> ... : re-confirm sub-agent mutants in their scratch worktrees (/tmp/mut/<ID>) and file them
under /verif/seeded/<ID>-<n>/ (patch.diff, demo/, meta.json). Confirms: patch applies, workspace builds, the 67 unit
tests still pass, the demonstration passes without and fails with the patch."""
import json, os, re, shutil, subprocess, sys, time
ENV = dict(os.environ, CARGO_NET_OFFLINE="true", CARGO_PROFILE_DEV_DEBUG="0", CARGO_PROFILE_TEST_DEBUG="0")
def sh(cmd, cwd=None, timeout=3000):
    p = subprocess.run(cmd, shell=True, cwd=cwd, env=ENV, stdout=subprocess.PIPE, stderr=subprocess.STDOUT, text=True, timeout=timeout, executable="/bin/bash")
    return p.returncode, p.stdout
def unit_tests(wt):
    rc, out = sh("CARGO_TARGET_DIR=%s/target cargo test --workspace --lib --offline 2>&1 | grep -E '^test result' " % wt, cwd=wt)
    passed = sum(int(x) for x in re.findall(r"(\d+) passed", out)); failed = sum(int(x) for x in re.findall(r"(\d+) failed", out))
    return passed, failed
BASE, OFF = "/tmp/mut", 0
args = sys.argv[1:]
if args and args[0] == "--round2": BASE, OFF, args = "/tmp/mut2", 2, args[1:]     # second round: /tmp/mut2/<ID>, filed as <ID>-3 / <ID>-4
if args and args[0] == "--round3": BASE, OFF, args = "/tmp/mut4", 4, args[1:]     # third round: /tmp/mut4/<ID>, filed as <ID>-5 / <ID>-6
if args and args[0] == "--round4": BASE, OFF, args = "/tmp/mut5", 6, args[1:]     # fourth round: /tmp/mut5/<ID>, filed as <ID>-7 / <ID>-8
for mid in args:
    wt = "%s/%s" % (BASE, mid); outd = "%s/%s.out" % (BASE, mid)
    for n in (1, 2):
        mp = os.path.join(outd, "meta%d.json" % n)
        if not os.path.exists(mp): continue
        meta = json.load(open(mp)); patch = os.path.join(outd, "patch%d.diff" % n)
        pre2 = re.search(r"\(demo crate = (\S+) copied to <worktree>/(\S+?)\)", meta["demo_cmd"])
        pre = re.search(r"\(after cp -r (\S+) <repo root>\)", meta["demo_cmd"])
        cmd = re.split(r"\s{2,}\(|\s+#", meta["demo_cmd"])[0].strip()
        if pre: cmd = "cp -r %s %s/ && " % (pre.group(1), wt) + cmd
        if pre2: cmd = "mkdir -p %s/%s && rm -rf %s/%s && cp -r %s %s/%s && " % (wt, os.path.dirname(pre2.group(2)), wt, pre2.group(2), pre2.group(1), wt, pre2.group(2)) + cmd
        cmd = re.sub(r"git apply \S+patch\d\.diff\s*;\s*", "", cmd)
        cmd = re.sub(r";\s*git checkout -- \S+\s*$", "", cmd)
        cmd = re.sub(r"\(cd \$REPO && git apply [^)]*\) && ", "", cmd)   # the script applies / removes the patch itself
        cmd = re.sub(r"cd \S+ && git apply \S+ \(omit for the clean run\); ", "", cmd)
        cmd = cmd.replace("<repo>", wt).replace("<worktree>", wt)
        cmd = re.sub(r"\[git apply \S+patch\d\.diff\s*&&\]\s*", "", cmd)
        cmd = re.sub(r"git apply \S+patch\d\.diff\s*&&\s*", "", cmd); cmd = re.sub(r";\s*git checkout -- \.\s*$", "", cmd)
        m2 = re.match(r"cp (\S+) (\S+/tests/) ", cmd)
        if m2: cmd = "mkdir -p %s; " % m2.group(2) + cmd
        if re.search(r"cp -r \S+ %s/demo/demo\d" % re.escape(wt), cmd): cmd = "mkdir -p %s/demo; " % wt + cmd
        res = {"at": time.strftime("%Y-%m-%d %H:%M:%S")}
        sh("git checkout -- . && git clean -fdq -e target", cwd=wt)
        rc0, out0 = sh(cmd, cwd=wt, timeout=3000)
        res["demo_without_patch_rc"] = rc0; res["demo_without_patch_tail"] = out0[-600:]
        sh("git checkout -- . ; rm -rf demo; git clean -fdq -e target", cwd=wt)
        rca, outa = sh("git apply %s" % patch, cwd=wt); res["patch_applies"] = rca == 0
        rcb, outb = sh("CARGO_TARGET_DIR=%s/target cargo build --workspace --offline 2>&1 | tail -3" % wt, cwd=wt); res["workspace_builds"] = "error" not in outb
        res["unit_tests_passed_failed"] = unit_tests(wt)
        rc1, out1 = sh(cmd, cwd=wt, timeout=3000)
        res["demo_with_patch_rc"] = rc1; res["demo_with_patch_tail"] = out1[-900:]
        sh("git checkout -- . ; rm -rf demo; git clean -fdq -e target", cwd=wt)
        ok = res["patch_applies"] and res["workspace_builds"] and res["unit_tests_passed_failed"] == (67, 0) and rc0 == 0 and rc1 != 0
        res["confirmed"] = ok
        dst = "/verif/seeded/%s-%d" % (mid, n + OFF)
        shutil.rmtree(dst, ignore_errors=True); os.makedirs(dst)
        shutil.copy(patch, os.path.join(dst, "patch.diff"))
        demo = os.path.join(outd, "demo%d" % n)
        if os.path.isdir(demo): shutil.copytree(demo, os.path.join(dst, "demo"), ignore=shutil.ignore_patterns("target", "Cargo.lock"))
        meta["confirmation"] = res
        json.dump(meta, open(os.path.join(dst, "meta.json"), "w"), indent=1)
        print(mid, n + OFF, "CONFIRMED" if ok else "NOT CONFIRMED", res["unit_tests_passed_failed"], rc0, rc1, flush=True)
    shutil.rmtree(os.path.join(wt, "target"), ignore_errors=True)
