#!/bin/bash
# tools/try_all4.sh <ID> ... : fourth round: mutants filed as /verif/seeded/<ID>-7 and <ID>-8
for id in "$@"; do
  for n in 7 8; do
    p=/verif/seeded/$id-$n/patch.diff
    [ -f "$p" ] || continue
    echo "### $id/$n"
    /verif/tools/try_mutant.sh "$p" $id 2>&1 | grep -E "^==|what:"
  done
done
