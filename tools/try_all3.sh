#!/bin/bash
# tools/try_all3.sh <ID> ... : third round: mutants filed as /verif/seeded/<ID>-5 and <ID>-6
for id in "$@"; do
  for n in 5 6; do
    p=/verif/seeded/$id-$n/patch.diff
    [ -f "$p" ] || continue
    echo "### $id/$n"
    /verif/tools/try_mutant.sh "$p" $id 2>&1 | grep -E "^==|what:"
  done
done
