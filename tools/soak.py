#!/usr/bin/env python3
"""tools/soak.py <family> <n> <len> <seed>... : evaluate extra seeds of a family (correspondence + all monitors), print anything that is not clean."""
import sys, os
sys.path.insert(0, os.path.dirname(os.path.dirname(os.path.abspath(__file__))))
from lib import bank
fam, n, ln = sys.argv[1], int(sys.argv[2]), int(sys.argv[3])
for seed in map(int, sys.argv[4:]):
    r = bank.evaluate(fam, seed, n, ln)
    bad = 0
    for i, x in enumerate(r["results"]):
        mons = {k: v for k, v in x["mon"].items() if v and not (k == "C13" and fam != "bank-honest")}
        if x["corr"] or mons:
            bad += 1
            print("SEED", seed, "history", i, "corr", str(x["corr"][:2])[:400], "mon", mons, flush=True)
    print("seed", seed, fam, "histories", len(r["results"]), "not clean", bad, "eval_s", r["eval_s"], r["stats"][:80], flush=True)
