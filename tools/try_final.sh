#!/bin/bash
# tools/try_final.sh [ID-n ...] : final sweep — every filed seeded change against the quick check of the property it was seeded for
cd /verif
list="$@"; [ -z "$list" ] && list=$(ls seeded | grep -E '^C[0-9]+-[0-9]$')
echo "### NOTE final sweep: every seeded change against the machinery as committed ($(git rev-parse --short HEAD))"
for m in $list; do
  id="${m%%-*}"; n="${m##*-}"
  echo "### $id/$n"
  /verif/tools/try_mutant.sh /verif/seeded/$m/patch.diff $id 2>&1 | grep -E "^==|what:"
done
