#!/bin/bash
# tools/try_all2.sh <ID:props> ... : second round: mutants filed as /verif/seeded/<ID>-3 and <ID>-4
for spec in "$@"; do
  id="${spec%%:*}"; props="${spec#*:}"; props="${props//,/ }"
  for n in 3 4; do
    p=/verif/seeded/$id-$n/patch.diff
    [ -f "$p" ] || continue
    echo "### $id/$n"
    /verif/tools/try_mutant.sh "$p" $props 2>&1 | grep -E "^==|what:"
  done
done
