#!/bin/sh
# tools/try_mutant.sh <patch.diff> <PID> [<PID> ...] : apply the patch to /repo, run the quick checks, undo the patch.
patch="$1"; shift
cd /repo || exit 2
git diff --quiet || { echo "/repo is dirty"; exit 2; }
git apply "$patch" || { echo "patch does not apply"; exit 2; }
# evidence written while a seeded change is applied is not evidence about the tree: restore the committed files afterwards
trap 'git -C /repo checkout -- . ; git -C /repo clean -fdq -- programs crates mock 2>/dev/null; git -C /verif checkout -- evidence 2>/dev/null' EXIT
cd /verif
for p in "$@"; do
  out=$(./check "$p" --tier quick 2>&1); rc=$?
  echo "== $p rc=$rc: $(echo "$out" | grep -E 'VIOLATION|KNOWN' | head -2)"
  if [ $rc -ne 0 ]; then f=$(echo "$out" | sed -n 's/.*replay=\([^ ]*\).*/\1/p' | head -1); [ -n "$f" ] && python3 -c "
import json,sys
r=json.load(open('$f')); print('   what:', str(r.get('what') or r.get('no_longer_checks'))[:600])"; fi
done
