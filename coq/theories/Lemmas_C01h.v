(* C01 "SOL leaves a validator's deposit account only through a debt payment", over ARBITRARY instructions, transactions and
   honest histories (any program, any signer, any rogue CPI wrapper).  Built on the `keep` relation of Lemmas_C02h
   (deposit clause: a KRd-owned DDeposit account stays a deposit of the same node and, where protected, does not lose
   lamports; the only processor for which deposits are unprotected is pay-debt) and the pay-debt Spec (Lemmas_RdSpecs2).
   Index at the end. *)
From DZ Require Import Base Keys Merkle BurnRate Shares Recipients Swap_Ring State World SwapDeq RD Passport Swap Exec
  Lemmas_Merkle Lemmas_Shares Lemmas_RdGuards Lemmas_Canon Lemmas_RdSpecs5 Lemmas_Hist Lemmas_Inv3 Lemmas_C16h Lemmas_C02h.

(* ------------------------------------------------------------------ 1. one instruction (any program, any depth of rogue wrappers) *)
Section OneInstruction.
  Variables (d : ixdata) (prog : key) (ms : list meta) (h : N) (sib : option sibling) (W W' : world) (k : key) (dp : deposit).
  Hypothesis Hx : exec_data prog d ms h sib W = Ok W'.
  Hypothesis Hd : dep_at W k = Some dp.

  (* a deposit account is never closed, retyped, re-owned or re-assigned to another node by an instruction *)
  Theorem deposit_persists : exists dp', dep_at W' k = Some dp' /\ dp_node dp' = dp_node dp.
  Proof.
    destruct (exec_data_keep _ _ _ _ _ _ _ Hx k) as (_ & D & _). destruct (D dp Hd) as (dp' & E & Hnode & _). eauto.
  Qed.

  (* GOAL B.  The lamports of a deposit account decrease only if the instruction is (a wrapper around) RPayDebt executed by
     program KRd on this very world and naming this deposit (third account of the RD frame); then exactly the paid amount
     leaves, the same amount is credited to the journal account the instruction names, the deposit stays rent exempt, its
     contents are untouched, and all the guards of the pay-debt Spec (Lemmas_RdSpecs2.pay_debt_facts) hold *)
  Theorem deposit_debit_only_by_pay_debt : lamports (get W' k) < lamports (get W k) ->
    exists amount p cx, rd_frame d = Some (RPayDebt amount p) /\ cx_prog cx = KRd /\
      (forall x, is_signer (cx_metas cx) x = true -> is_signer ms x = true) /\
      rd_pay_debt cx W amount p = Ok W' /\
      exists c dk dd tail jk j idx tail',
        pay_debt_facts cx W amount p W' c dk dd tail k dp jk j idx tail' /\
        amount <> 0 /\ lamports (get W' k) = lamports (get W k) - amount /\ amount <= lamports (get W k) - rent LEN_DEPOSIT /\
        rent LEN_DEPOSIT <= lamports (get W' k) /\ lamports (get W' jk) = lamports (get W jk) + amount /\
        dep_at W' k = Some dp.
  Proof.
    intros Hlt. destruct (exec_data_keep _ _ _ _ _ _ _ Hx k) as (_ & D & _). destruct (D dp Hd) as (dp' & E & Hnode & M).
    unfold PdD in M. destruct (rd_frame d) as [ix|] eqn:F; [|exfalso; specialize (M I); lia].
    destruct (is_pay ix) eqn:P; [|exfalso; specialize (M eq_refl); lia]. destruct ix; try discriminate P.
    destruct (exec_data_rd_frame _ _ _ _ _ _ _ _ Hx F) as (cx & Hp & Hsig & Hr). cbn [rd_process] in Hr.
    exists amount, p, cx. split; [reflexivity|]. split; [exact Hp|]. split; [exact Hsig|]. split; [exact Hr|].
    destruct (rd_pay_debt_spec _ _ _ _ _ Hr) as (c & dk & dd & tail & pk & dp0 & jk & j & idx & tail' & Fa).
    pose proof (pay_debt_lamports _ _ _ _ _ _ _ _ _ _ _ _ _ _ _ Fa k) as L.
    destruct (key_eqb_spec k pk) as [->|Hne].
    - pose proof Hd as Hd'. apply da_some in Hd' as (_ & Hd').
      rewrite (pd_deposit_data _ _ _ _ _ _ _ _ _ _ _ _ _ _ _ Fa) in Hd'. injection Hd' as ->.
      exists c, dk, dd, tail, jk, j, idx, tail'. split; [exact Fa|].
      pose proof (pd_amount _ _ _ _ _ _ _ _ _ _ _ _ _ _ _ Fa) as Ha.
      pose proof (pay_debt_lamports _ _ _ _ _ _ _ _ _ _ _ _ _ _ _ Fa jk) as Lj.
      destruct (pd_distinct _ _ _ _ _ _ _ _ _ _ _ _ _ _ _ Fa) as (_ & _ & Hpj).
      rewrite (key_eqb_neq jk pk), key_eqb_refl in Lj by congruence.
      split; [lia|]. split; [exact L|]. split; [exact Ha|]. split; [lia|]. split; [exact Lj|].
      destruct (pay_debt_deposit_after _ _ _ _ _ _ _ _ _ _ _ _ _ _ _ Fa) as (G & _). unfold dep_at. rewrite G.
      apply da_some. cbn. apply da_some in Hd. exact Hd.
    - exfalso. destruct (key_eqb_spec k jk) as [->|_]; lia.
  Qed.
End OneInstruction.

(* ------------------------------------------------------------------ 2. transactions *)
Lemma lamports_purge_eq W k : lamports (get (purge W) k) = lamports (get W k).
Proof. rewrite get_purge. destruct (N.eqb_spec (lamports (get W k)) 0) as [Z|_]; [rewrite Z; reflexivity|reflexivity]. Qed.

Section TxDeposit.
  Variables (W : world) (t : tx) (W' : world) (ok : bool) (k : key) (dp : deposit).
  Hypothesis Htx : exec_tx W t = (W', ok).
  Hypothesis Hd : dep_at W k = Some dp.

  (* GOAL B, transactions: a transaction of any kind lowers a deposit's balance only if it succeeds and contains (possibly
     under rogue wrappers) a PayDebt instruction; a failed transaction changes nothing *)
  Theorem tx_deposit_debit_only_by_pay_debt : lamports (get W' k) < lamports (get W k) ->
    ok = true /\ exists i amount p, In i (tx_ixs t) /\ mentions (RPayDebt amount p) (i_data i).
  Proof.
    intros Hlt. destruct ok; [|apply exec_tx_fail in Htx; subst W'; lia]. split; [reflexivity|].
    apply exec_tx_ok_inv in Htx as (_ & W1 & E & ->). rewrite lamports_purge_eq in Hlt.
    pose proof (exec_ixs_keep t _ _ _ _ (incl_refl _) E k) as (_ & D & _). destruct (D dp Hd) as (dp' & _ & _ & M).
    assert (X : ~ PdT t k) by (intros A; specialize (M A); lia). clear - X. unfold PdT in X.
    induction (tx_ixs t) as [|i tl IH]; [exfalso; apply X; intros i ix []|].
    destruct (rd_frame (i_data i)) as [ix|] eqn:F.
    - destruct (is_pay ix) eqn:P.
      + destruct ix; try discriminate P. exists i, amount, p. split; [left; reflexivity|]. apply rd_frame_mentions, F.
      + destruct IH as (i' & a' & p' & Hin & Hm).
        { intros A. apply X. intros i0 ix0 [<-|Hin] F0; [rewrite F in F0; injection F0 as <-; exact P|eapply A; eassumption]. }
        exists i', a', p'. split; [right; exact Hin|exact Hm].
    - destruct IH as (i' & a' & p' & Hin & Hm).
      { intros A. apply X. intros i0 ix0 [<-|Hin] F0; [congruence|eapply A; eassumption]. }
      exists i', a', p'. split; [right; exact Hin|exact Hm].
  Qed.
  (* a deposit holding lamports survives every transaction (and keeps its node) *)
  Theorem tx_deposit_persists : lamports (get W k) <> 0 ->
    exists dp', dep_at W' k = Some dp' /\ dp_node dp' = dp_node dp /\ lamports (get W' k) <> 0.
  Proof.
    intros Hl. destruct ok; [|apply exec_tx_fail in Htx; subst W'; eauto].
    pose proof Htx as Htx'. apply exec_tx_ok_inv in Htx' as (_ & W1 & E & ->).
    destruct (N.lt_ge_cases (lamports (get (purge W1) k)) (lamports (get W k))) as [Hlt|Hge].
    - (* lowered: by a pay-debt somewhere; the deposit stays rent exempt at that step and never loses lamports otherwise.
         Simplest: the end-of-transaction rent rule is not needed - follow the instructions *)
      rewrite lamports_purge_eq in Hlt |- *.
      assert (G : forall ixs prev Wa Wb dpa, exec_ixs t ixs prev Wa = Ok Wb -> dep_at Wa k = Some dpa -> lamports (get Wa k) <> 0 ->
                exists dpb, dep_at Wb k = Some dpb /\ dp_node dpb = dp_node dpa /\ lamports (get Wb k) <> 0).
      { induction ixs as [|i tl IH]; intros prev Wa Wb dpa H Ha Hla; cbn [exec_ixs] in H.
        - injection H as <-. eauto.
        - apply bind_ok in H as (Wm & Ex & H). destruct (deposit_persists _ _ _ _ _ _ _ _ _ Ex Ha) as (dpm & Em & Nm).
          assert (Hlm : lamports (get Wm k) <> 0).
          { destruct (N.lt_ge_cases (lamports (get Wm k)) (lamports (get Wa k))) as [Hd1|Hd1]; [|lia].
            destruct (deposit_debit_only_by_pay_debt _ _ _ _ _ _ _ _ _ Ex Ha Hd1)
              as (am & p & cx & _ & _ & _ & _ & c & dk & dd & tail & jk & j & idx & tail' & _ & _ & _ & _ & Hr & _).
            unfold LEN_DEPOSIT, rent in Hr. lia. }
          destruct (IH _ _ _ _ H Em Hlm) as (dpb & Eb & Nb & Lb). exists dpb. split; [exact Eb|]. split; [congruence|exact Lb]. }
      destruct (G _ _ _ _ _ E Hd Hl) as (dpb & Eb & Nb & Lb). exists dpb. unfold dep_at. rewrite get_purge.
      destruct (N.eqb_spec (lamports (get W1 k)) 0) as [Z|_]; [contradiction|]. auto.
    - rewrite lamports_purge_eq in Hge |- *.
      pose proof (exec_ixs_keep t _ _ _ _ (incl_refl _) E k) as (_ & D & _). destruct (D dp Hd) as (dp' & E' & Hn' & _).
      exists dp'. unfold dep_at. rewrite get_purge. destruct (N.eqb_spec (lamports (get W1 k)) 0) as [Z|_]; [lia|].
      split; [exact E'|]. split; [exact Hn'|lia].
  Qed.
End TxDeposit.

(* the first instruction of a list at which the balance goes down: until then it never went below the initial balance *)
Lemma exec_ixs_first_deposit_debit t k : forall ixs prev W W' dp, exec_ixs t ixs prev W = Ok W' ->
  dep_at W k = Some dp -> lamports (get W' k) < lamports (get W k) ->
  exists i prev' Wa Wb dpa, In i ixs /\ exec_data (i_prog i) (i_data i) (effective t (i_metas i)) 1 prev' Wa = Ok Wb /\
    dep_at Wa k = Some dpa /\ dp_node dpa = dp_node dp /\ lamports (get W k) <= lamports (get Wa k) /\
    lamports (get Wb k) < lamports (get Wa k).
Proof.
  induction ixs as [|i tl IH]; intros prev W W' dp H Hd Hlt; cbn [exec_ixs] in H.
  - injection H as <-. lia.
  - apply bind_ok in H as (W1 & E & H). destruct (deposit_persists _ _ _ _ _ _ _ _ _ E Hd) as (dp1 & E1 & N1).
    destruct (N.lt_ge_cases (lamports (get W1 k)) (lamports (get W k))) as [Hd1|Hd1].
    + exists i, prev, W, W1, dp. split; [left; reflexivity|]. split; [exact E|]. split; [exact Hd|]. split; [reflexivity|]. split; [lia|exact Hd1].
    + destruct (IH _ _ _ _ H E1) as (i' & p' & Wa & Wb & dpa & Hin & Hx & Ha & Na & Hle & Hb); [lia|].
      exists i', p', Wa, Wb, dpa. split; [right; exact Hin|]. split; [exact Hx|]. split; [exact Ha|]. split; [congruence|]. split; [lia|exact Hb].
Qed.
(* ... so inside a successful transaction every debit of a deposit is a step to which deposit_debit_only_by_pay_debt applies
   (exact amount, journal credit, rent exemption, the Spec's guards): here the first one *)
Theorem tx_deposit_first_debit W t W' k dp :
  exec_tx W t = (W', true) -> dep_at W k = Some dp -> lamports (get W' k) < lamports (get W k) ->
  exists i prev Wa Wb dpa, In i (tx_ixs t) /\ exec_data (i_prog i) (i_data i) (effective t (i_metas i)) 1 prev Wa = Ok Wb /\
    dep_at Wa k = Some dpa /\ dp_node dpa = dp_node dp /\ lamports (get W k) <= lamports (get Wa k) /\
    lamports (get Wb k) < lamports (get Wa k).
Proof.
  intros Htx Hd Hlt. apply exec_tx_ok_inv in Htx as (_ & W1 & E & ->). rewrite lamports_purge_eq in Hlt.
  exact (exec_ixs_first_deposit_debit t k _ _ _ _ _ E Hd Hlt).
Qed.
(* a transaction made of a single instruction (wrappers allowed): everything, read against the world before it *)
Theorem tx_single_deposit_debit W t W' i k dp :
  exec_tx W t = (W', true) -> tx_ixs t = [i] -> dep_at W k = Some dp -> lamports (get W' k) < lamports (get W k) ->
  exists amount p jk, mentions (RPayDebt amount p) (i_data i) /\ amount <> 0 /\
    lamports (get W' k) = lamports (get W k) - amount /\ amount <= lamports (get W k) - rent LEN_DEPOSIT /\
    rent LEN_DEPOSIT <= lamports (get W' k) /\ lamports (get W' jk) = lamports (get W jk) + amount /\ dep_at W' k = Some dp.
Proof.
  intros Htx Hi Hd Hlt. apply exec_tx_ok_inv in Htx as (_ & W1 & E & ->). rewrite Hi in E. cbn [exec_ixs] in E.
  apply bind_ok in E as (Wb & Ex & E). injection E as <-. rewrite lamports_purge_eq in Hlt.
  destruct (deposit_debit_only_by_pay_debt _ _ _ _ _ _ _ _ _ Ex Hd Hlt)
    as (am & p & cx & F & _ & _ & _ & c & dk & dd & tail & jk & j & idx & tail' & _ & H1 & H2 & H3 & H4 & H5 & H6).
  exists am, p, jk. rewrite !lamports_purge_eq. split; [apply rd_frame_mentions, F|]. split; [exact H1|]. split; [exact H2|].
  split; [exact H3|]. split; [exact H4|]. split; [exact H5|]. unfold dep_at. rewrite get_purge.
  destruct (N.eqb_spec (lamports (get Wb k)) 0) as [Z|_]; [unfold LEN_DEPOSIT, rent in H4; lia|exact H6].
Qed.

(* ------------------------------------------------------------------ 3. histories of honest operations *)
Lemma step_deposit W o k dp : honest_op o -> wallet_pays o -> (forall n, k <> KUser n) ->
  dep_at W k = Some dp -> lamports (get W k) <> 0 ->
  exists dp', dep_at (step W o) k = Some dp' /\ dp_node dp' = dp_node dp /\ lamports (get (step W o) k) <> 0 /\
    (lamports (get (step W o) k) < lamports (get W k) ->
       exists t i amount p, o = OTx t /\ In i (tx_ixs t) /\ mentions (RPayDebt amount p) (i_data i)).
Proof.
  intros Ho Hw Hk Hd Hl. pose proof Hd as Hd0. apply da_some in Hd0 as (Hown & Hdat).
  assert (Same : forall W2, get W2 k = get W k ->
            exists dp', dep_at W2 k = Some dp' /\ dp_node dp' = dp_node dp /\ lamports (get W2 k) <> 0 /\
              (lamports (get W2 k) < lamports (get W k) -> exists t i amount p, o = OTx t /\ In i (tx_ixs t) /\ mentions (RPayDebt amount p) (i_data i))).
  { intros W2 E. exists dp. unfold dep_at. rewrite E. split; [exact Hd|]. split; [reflexivity|]. split; [exact Hl|lia]. }
  destruct o as [t|ts|ak lam|fk fa|mk_ amt|payer o_]; unfold step; cbn [exec_op].
  - destruct (exec_tx W t) as [W2 ok] eqn:E. cbn [fst].
    destruct (tx_deposit_persists _ _ _ _ _ _ E Hd Hl) as (dp' & E' & N' & L'). exists dp'. split; [exact E'|]. split; [exact N'|]. split; [exact L'|].
    intros Hlt. destruct (tx_deposit_debit_only_by_pay_debt _ _ _ _ _ _ E Hd Hlt) as (_ & i & am & p & Hin & Hm). exists t, i, am, p. auto.
  - cbn [fst]. apply Same. reflexivity.
  - cbn [fst]. destruct (key_eq_dec ak k) as [->|Hne].
    + exists dp. unfold dep_at. rewrite Lemmas_RdSpecs.get_put_same. split; [apply da_some; cbn; auto|]. split; [reflexivity|]. cbn. split; lia.
    + apply Same. apply Lemmas_RdSpecs.get_put_other. exact Hne.
  - destruct Ho.
  - destruct (as_token W mk_) as [t1|] eqn:E1; [|apply Same; reflexivity].
    destruct (as_mint W KMint) as [m|] eqn:E2; [|apply Same; reflexivity]. cbn [fst].
    apply Lemmas_RdSpecs.as_mint_ok in E2 as (Hmd & Hmo). apply Lemmas_RdSpecs.as_token_ok in E1 as (Htd & Hto).
    assert (Hkm : k <> KMint) by (intros ->; congruence). assert (Hkt : k <> mk_) by (intros ->; congruence).
    apply Same. rewrite Lemmas_RdSpecs.get_put_other by congruence. rewrite get_put_token, (key_eqb_neq mk_ k) by congruence. reflexivity.
  - destruct (_ && _) eqn:Ec; [|apply Same; reflexivity]. cbn [fst].
    apply andb_true_iff in Ec as (Ec & _). apply andb_true_iff in Ec as (_ & Eo). apply key_eqb_eq in Eo.
    destruct Hw as (n & ->).
    assert (Hka : k <> KAta o_ KMint) by (intros ->; congruence).
    apply Same. rewrite !Lemmas_RdSpecs.get_put_other by (try congruence; apply not_eq_sym, Hk). reflexivity.
Qed.

(* GOAL B, histories: along any history of honest operations a (funded, non-wallet-address) deposit account stays a deposit
   of the same node, and if its balance at the end is lower than at the start then some transaction of the history contains
   (possibly wrapped) RPayDebt *)
Theorem deposit_history k : (forall n, k <> KUser n) -> forall ops W dp,
  Forall honest_op ops -> Forall wallet_pays ops -> dep_at W k = Some dp -> lamports (get W k) <> 0 ->
  exists dp', dep_at (run W ops) k = Some dp' /\ dp_node dp' = dp_node dp /\ lamports (get (run W ops) k) <> 0 /\
    (lamports (get (run W ops) k) < lamports (get W k) ->
       exists t i amount p, In (OTx t) ops /\ In i (tx_ixs t) /\ mentions (RPayDebt amount p) (i_data i)).
Proof.
  intros Hk ops. induction ops as [|o tl IH]; intros W dp Hh Hw Hd Hl.
  - cbn. exists dp. split; [exact Hd|]. split; [reflexivity|]. split; [exact Hl|lia].
  - rewrite run_cons. inversion Hh as [|? ? Hho Hh']; inversion Hw as [|? ? Hwo Hw']; subst.
    destruct (step_deposit W o k dp Hho Hwo Hk Hd Hl) as (dp1 & E1 & N1 & L1 & M1).
    destruct (IH (step W o) dp1 Hh' Hw' E1 L1) as (dp' & E' & N' & L' & M').
    exists dp'. split; [exact E'|]. split; [congruence|]. split; [exact L'|]. intros Hlt.
    destruct (N.lt_ge_cases (lamports (get (step W o) k)) (lamports (get W k))) as [Hd1|Hd1].
    + destruct (M1 Hd1) as (t & i & am & p & -> & Hin & Hm). exists t, i, am, p. split; [left; reflexivity|auto].
    + destruct M' as (t & i & am & p & Hin & R); [lia|]. exists t, i, am, p. split; [right; exact Hin|exact R].
Qed.
(* with the canonical-address invariant (every world reachable without OForge): the deposit sits at KRdDeposit (node) *)
Corollary deposit_history_canonical ops W k dp :
  typed_canonical W -> Forall honest_op ops -> Forall wallet_pays ops -> dep_at W k = Some dp -> lamports (get W k) <> 0 ->
  k = KRdDeposit (dp_node dp) /\
  exists dp', dep_at (run W ops) k = Some dp' /\ dp_node dp' = dp_node dp /\
    (lamports (get (run W ops) k) < lamports (get W k) ->
       exists t i amount p, In (OTx t) ops /\ In i (tx_ixs t) /\ mentions (RPayDebt amount p) (i_data i)).
Proof.
  intros HT Hh Hw Hd Hl. pose proof Hd as Hd'. apply dep_at_rd_acct in Hd'. pose proof (rd_deposit_canonical _ _ _ HT Hd') as Hk.
  split; [exact Hk|]. destruct (deposit_history k ltac:(rewrite Hk; discriminate) ops W dp Hh Hw Hd Hl) as (dp' & E & N & _ & M). eauto.
Qed.

(* under the canonical-address invariant the accounts named by that PayDebt are THE journal, the distribution of the epoch
   stored in it, and the deposit of the node stored in it *)
Theorem deposit_debit_canonical d prog ms h sib W W' k dp :
  typed_canonical W -> exec_data prog d ms h sib W = Ok W' -> dep_at W k = Some dp -> lamports (get W' k) < lamports (get W k) ->
  k = KRdDeposit (dp_node dp) /\
  exists amount p, mentions (RPayDebt amount p) d /\ amount <> 0 /\ lamports (get W' k) = lamports (get W k) - amount /\
    rent LEN_DEPOSIT <= lamports (get W' k) /\ lamports (get W' KRdJournal) = lamports (get W KRdJournal) + amount /\
    exists dd tail, rd_acct W (KRdDist (d_epoch dd)) (DDist dd tail) /\ d_debt_final dd = true /\
      root_from_leaf p PRE_DEBT (LDebt (dp_node dp) amount) = d_debt_root dd.
Proof.
  intros HT Hx Hd Hlt. pose proof Hd as Hd'. apply dep_at_rd_acct in Hd'. split; [eapply rd_deposit_canonical; eassumption|].
  destruct (deposit_debit_only_by_pay_debt _ _ _ _ _ _ _ _ _ Hx Hd Hlt)
    as (am & p & cx & F & _ & _ & _ & c & dk & dd & tail & jk & j & idx & tail' & Fa & H1 & H2 & _ & H4 & H5 & _).
  exists am, p. split; [apply rd_frame_mentions, F|]. split; [exact H1|]. split; [exact H2|]. split; [exact H4|].
  assert (Ej : jk = KRdJournal).
  { eapply rd_journal_canonical; [exact HT|]. split; [apply (pd_journal_owner _ _ _ _ _ _ _ _ _ _ _ _ _ _ _ Fa)|apply (pd_journal_data _ _ _ _ _ _ _ _ _ _ _ _ _ _ _ Fa)]. }
  rewrite Ej in H5. split; [exact H5|]. exists dd, tail.
  assert (Rd : rd_acct W dk (DDist dd tail)).
  { split; [apply (pd_dist_owner _ _ _ _ _ _ _ _ _ _ _ _ _ _ _ Fa)|apply (pd_dist_data _ _ _ _ _ _ _ _ _ _ _ _ _ _ _ Fa)]. }
  rewrite <- (rd_dist_canonical _ _ _ _ HT Rd). split; [exact Rd|]. split; [apply (pd_debt_final _ _ _ _ _ _ _ _ _ _ _ _ _ _ _ Fa)|].
  apply (pd_root _ _ _ _ _ _ _ _ _ _ _ _ _ _ _ Fa).
Qed.

(* ------------------------------------------------------------------ 4. non-vacuity *)
Definition x01_W : world := ex_world ((KUser 9, ex_wallet 1000000) :: accts ex_pay_world).
Definition x01_dep : key := KRdDeposit (KUser 12).
Definition x01_ix (amount : N) : rd_ix := RPayDebt amount (proof_for PRE_DEBT ex_debts 1).
Definition x01_tx (amount : N) : tx :=
  {| tx_signers := [KUser 9]; tx_ixs := [ {| i_prog := KRd; i_data := IxRd (x01_ix amount); i_metas := cx_metas ex_pay_cx |} ] |}.
Definition x01_tx_rogue (amount : N) : tx :=
  {| tx_signers := [KUser 9];
     tx_ixs := [ {| i_prog := KRogue 0; i_data := IxRogueCpi (IxRd (x01_ix amount)); i_metas := mk KRd false false :: cx_metas ex_pay_cx |} ] |}.
(* attempts to take lamports out of the deposit by other means *)
Definition x01_tx_sys (dep_signs : bool) : tx :=
  {| tx_signers := [KUser 9];
     tx_ixs := [ {| i_prog := KSystem; i_data := IxSysTransfer 100; i_metas := [mk x01_dep dep_signs true; mk (KUser 9) false true] |} ] |}.
Definition x01_tx_sys_rogue (dep_signs : bool) : tx :=
  {| tx_signers := [KUser 9];
     tx_ixs := [ {| i_prog := KRogue 0; i_data := IxRogueCpi (IxSysTransfer 100);
                    i_metas := [mk KSystem false false; mk x01_dep dep_signs true; mk (KUser 9) false true] |} ] |}.
(* WithdrawSol re-issued by a rogue program with the deposit in the journal's position *)
Definition x01_tx_withdraw_rogue : tx :=
  {| tx_signers := [KUser 9];
     tx_ixs := [ {| i_prog := KRogue 0; i_data := IxRogueCpi (IxRd (RWithdrawSol 100));
                    i_metas := [mk KRd false false; mk KRdConfig false false; mk (KWithdrawAuth KSwapMock) false false;
                                mk x01_dep false true; mk (KUser 9) false true] |} ] |}.

(* the debit does happen through PayDebt, directly and under a rogue wrapper: exactly 500 lamports move from the deposit
   (which stays rent exempt) to the journal *)
Example deposit_debit_nonvacuous :
  dep_at x01_W x01_dep = Some {| dp_node := KUser 12; dp_written_off := 0 |} /\
  lamports (get x01_W x01_dep) = rent LEN_DEPOSIT + 700 /\
  (exists W', exec_tx x01_W (x01_tx 500) = (W', true) /\ lamports (get W' x01_dep) = rent LEN_DEPOSIT + 200 /\
     lamports (get W' KRdJournal) = lamports (get x01_W KRdJournal) + 500) /\
  (exists W', exec_tx x01_W (x01_tx_rogue 500) = (W', true) /\ lamports (get W' x01_dep) = rent LEN_DEPOSIT + 200 /\
     lamports (get W' KRdJournal) = lamports (get x01_W KRdJournal) + 500).
Proof.
  split; [vm_compute; reflexivity|]. split; [vm_compute; reflexivity|].
  split; eexists; (split; [vm_compute; reflexivity|split; vm_compute; reflexivity]).
Qed.
(* a System transfer out of the deposit (top level or through a rogue CPI, with or without claiming the PDA's signature), a
   wrapped WithdrawSol naming the deposit as the journal, and a PayDebt of a forged amount: all fail and change nothing *)
Example deposit_attempts_fail :
  exec_tx x01_W (x01_tx_sys false) = (x01_W, false) /\
  exec_tx x01_W (x01_tx_sys true) = (x01_W, false) /\
  exec_tx x01_W (x01_tx_sys_rogue false) = (x01_W, false) /\
  exec_tx x01_W (x01_tx_sys_rogue true) = (x01_W, false) /\
  exec_tx x01_W x01_tx_withdraw_rogue = (x01_W, false) /\
  exec_tx x01_W (x01_tx 501) = (x01_W, false) /\
  exec_tx x01_W (x01_tx_rogue 701) = (x01_W, false).
Proof. repeat split; vm_compute; reflexivity. Qed.
(* the transaction-level theorem applied to the example *)
Example tx_deposit_theorem_nonvacuous :
  exists W' amount p jk, exec_tx x01_W (x01_tx_rogue 500) = (W', true) /\
    lamports (get W' x01_dep) < lamports (get x01_W x01_dep) /\
    mentions (RPayDebt amount p) (IxRogueCpi (IxRd (x01_ix 500))) /\ amount = 500 /\
    lamports (get W' x01_dep) = lamports (get x01_W x01_dep) - amount /\ rent LEN_DEPOSIT <= lamports (get W' x01_dep) /\
    lamports (get W' jk) = lamports (get x01_W jk) + amount.
Proof.
  destruct (exec_tx x01_W (x01_tx_rogue 500)) as [W' ok] eqn:E.
  assert (Hok : ok = true) by (vm_compute in E; injection E as _ <-; reflexivity). subst ok.
  assert (Hlt : lamports (get W' x01_dep) < lamports (get x01_W x01_dep)).
  { vm_compute in E. injection E as <-. vm_compute. reflexivity. }
  destruct (tx_single_deposit_debit _ _ _ _ x01_dep _ E eq_refl ltac:(vm_compute; reflexivity) Hlt)
    as (am & p & jk & Hm & _ & H2 & _ & H4 & H5 & _).
  exists W', am, p, jk. split; [reflexivity|]. split; [exact Hlt|]. split; [exact Hm|]. split; [|auto].
  cbn in Hm. injection Hm as <- _. reflexivity.
Qed.

(* ==================================================================================================================
   INDEX of Lemmas_C01h.v  (the relation `keep`, exec_data_keep, exec_data_rd_frame, exec_ixs_keep are in Lemmas_C02h.v)
   1  one instruction: deposit_persists, deposit_debit_only_by_pay_debt (GOAL B)
   2  transactions: lamports_purge_eq, tx_deposit_debit_only_by_pay_debt, tx_deposit_persists, exec_ixs_first_deposit_debit,
      tx_deposit_first_debit, tx_single_deposit_debit
   3  histories: step_deposit, deposit_history, deposit_history_canonical; deposit_debit_canonical (under typed_canonical)
   4  examples: deposit_debit_nonvacuous, deposit_attempts_fail, tx_deposit_theorem_nonvacuous
   ================================================================================================================== *)
