(* programs/revenue-distribution/src/instruction/account.rs transcribed: one function per `XxxAccounts::new(..)` followed by
   `impl From<XxxAccounts> for Vec<AccountMeta>`, on structured keys.  AccountMeta::new(k, s) = mk k s true,
   AccountMeta::new_readonly(k, s) = mk k s false.  The parameters are exactly the builder's parameters (a DoubleZeroEpoch
   is the epoch number, `find_address` results are the structured PDA keys of Keys.v).
   `sdk_metas_of` re-derives the SDK account list of an instruction from the free parameters read off a presented list by
   position, `builders_agree` compares it with the list the REAL builders produced (harness family `honest`).
   Executable definitions only. *)
From DZ Require Import Base Keys Merkle BurnRate Shares Swap_Ring State World SwapDeq RD Passport Swap Exec Corr.

(* InitializeProgramAccounts::new(payer_key, dz_mint_key) *)
Definition sdk_initialize_program (payer mint : key) : list meta :=
  [mk payer true true; mk KRdConfig false true; mk (KTok2z KRdConfig) false true; mk mint false false;
   mk KToken false false; mk KSystem false false].

(* SetAdminAccounts::new(program_id, upgrade_authority_key)  (also used for MigrateProgramAccounts) *)
Definition sdk_set_admin (program_id authority : key) : list meta :=
  [mk (KProgData program_id) false false; mk authority true false; mk KRdConfig false true].

(* ConfigureProgramAccounts::new(admin_key) *)
Definition sdk_configure_program (admin : key) : list meta :=
  [mk KRdConfig false true; mk admin true false].

(* InitializeJournalAccounts::new(payer_key, dz_mint_key) *)
Definition sdk_initialize_journal (payer mint : key) : list meta :=
  [mk payer true true; mk KRdJournal false true; mk (KTok2z KRdJournal) false true; mk mint false false;
   mk KToken false false; mk KSystem false false].

(* ConfigureJournalAccounts::new(admin_key)  (no instruction of the model uses it; transcribed for completeness) *)
Definition sdk_configure_journal (admin : key) : list meta :=
  [mk KRdConfig false false; mk admin true false; mk KRdJournal false true].

(* InitializeDistributionAccounts::new(debt_accountant_key, payer_key, dz_epoch, dz_mint_key) *)
Definition sdk_initialize_distribution (accountant payer : key) (epoch : N) (mint : key) : list meta :=
  [mk KRdConfig false true; mk accountant true false; mk payer true true; mk (KRdDist epoch) false true;
   mk (KTok2z (KRdDist epoch)) false true; mk mint false false; mk KToken false false; mk KRdJournal false true;
   mk (KTok2z KRdJournal) false true; mk (KAta KRdJournal mint) false true; mk KSystem false false].

(* ConfigureDistributionDebtAccounts::new(debt_accountant_key, dz_epoch) *)
Definition sdk_configure_debt (accountant : key) (epoch : N) : list meta :=
  [mk KRdConfig false false; mk accountant true false; mk (KRdDist epoch) false true].

(* FinalizeDistributionDebtAccounts::new(debt_accountant_key, dz_epoch, payer_key) *)
Definition sdk_finalize_debt (accountant : key) (epoch : N) (payer : key) : list meta :=
  [mk KRdConfig false false; mk accountant true false; mk (KRdDist epoch) false true; mk payer true true;
   mk KSystem false false].

(* ConfigureDistributionRewardsAccounts::new(rewards_accountant_key, dz_epoch) *)
Definition sdk_configure_rewards (accountant : key) (epoch : N) : list meta :=
  [mk KRdConfig false false; mk accountant true false; mk (KRdDist epoch) false true].

(* FinalizeDistributionRewardsAccounts::new(payer_key, dz_epoch) *)
Definition sdk_finalize_rewards (payer : key) (epoch : N) : list meta :=
  [mk KRdConfig false false; mk (KRdDist epoch) false true; mk payer true true; mk KSystem false false].

(* DistributeRewardsAccounts::new(dz_epoch, service_key, dz_mint_key, relayer_key, recipient_keys) *)
Definition sdk_distribute_rewards (epoch : N) (svc mint relayer : key) (recipients : list key) : list meta :=
  [mk KRdConfig false false; mk (KRdDist epoch) false true; mk (KRdContrib svc) false false;
   mk (KTok2z (KRdDist epoch)) false true; mk mint false true; mk relayer false true; mk KToken false false]
  ++ map (fun r => mk (KAta r mint) false true) recipients.

(* InitializeContributorRewardsAccounts::new(payer_key, service_key) *)
Definition sdk_initialize_contributor (payer svc : key) : list meta :=
  [mk payer true true; mk (KRdContrib svc) false true; mk KSystem false false].

(* SetRewardsManagerAccounts::new(contributor_manager_key, service_key) *)
Definition sdk_set_rewards_manager (manager svc : key) : list meta :=
  [mk KRdConfig false false; mk manager true false; mk (KRdContrib svc) false true].

(* ConfigureContributorRewardsAccounts::new(rewards_manager_key, service_key) *)
Definition sdk_configure_contributor (rewards_manager svc : key) : list meta :=
  [mk KRdConfig false false; mk (KRdContrib svc) false true; mk rewards_manager true false].

(* VerifyDistributionMerkleRootAccounts::new(dz_epoch) *)
Definition sdk_verify_root (epoch : N) : list meta := [mk (KRdDist epoch) false false].

(* InitializeSolanaValidatorDepositAccounts::new(payer_key, node_id) *)
Definition sdk_initialize_deposit (payer node : key) : list meta :=
  [mk (KRdDeposit node) false true; mk payer true true; mk KSystem false false].

(* PaySolanaValidatorDebtAccounts::new(dz_epoch, node_id) *)
Definition sdk_pay_debt (epoch : N) (node : key) : list meta :=
  [mk KRdConfig false false; mk (KRdDist epoch) false true; mk (KRdDeposit node) false true; mk KRdJournal false true].

(* EnableSolanaValidatorDebtWriteOffAccounts::new(dz_epoch, payer_key) *)
Definition sdk_enable_write_off (epoch : N) (payer : key) : list meta :=
  [mk KRdConfig false false; mk (KRdDist epoch) false true; mk payer true true; mk KSystem false false].

(* WriteOffSolanaValidatorDebtAccounts::new(debt_accountant_key, dz_epoch, node_id, write_off_dz_epoch) *)
Definition sdk_write_off (accountant : key) (epoch : N) (node : key) (write_off_epoch : N) : list meta :=
  [mk KRdConfig false false; mk accountant true false; mk (KRdDist epoch) false true; mk (KRdDeposit node) false true;
   mk (KRdDist write_off_epoch) false true].

(* InitializeSwapDestinationAccounts::new(payer_key, mint_key) *)
Definition sdk_initialize_swap_destination (payer mint : key) : list meta :=
  [mk KRdConfig false true; mk payer true true; mk KRdSwapAuth false false; mk (KTok2z KRdSwapAuth) false true;
   mk mint false false; mk KToken false false; mk KSystem false false].

(* DequeueFillsCpiAccounts::new(sol_2z_swap_program_id, fills_registry_key): the two addresses derived from the swap
   program id (["system_config"], ["state"]) have structured keys only for the mock swap program (KSwapCfg, KSwapState),
   so they are explicit here *)
Definition sdk_dequeue_fills_cpi (cfg st fills : key) : list meta :=
  [mk cfg false false; mk st false false; mk fills false true; mk KRdJournal true false].

(* SweepDistributionTokensAccounts::new(dz_epoch, sol_2z_swap_program_id, sol_2z_swap_fills_registry_key): the dequeue
   list without its last (journal) entry is spliced in, then the swap program id *)
Definition sdk_sweep_at (epoch : N) (cfg st fills swap : key) : list meta :=
  [mk KRdConfig false false; mk (KRdDist epoch) false true; mk KRdJournal false true]
  ++ removelast (sdk_dequeue_fills_cpi cfg st fills)
  ++ [mk swap false false; mk (KTok2z (KRdDist epoch)) false true; mk KRdSwapAuth false false;
      mk (KTok2z KRdSwapAuth) false true; mk KToken false false].
(* ... with the mock swap program (the deployment the harness drives) *)
Definition sdk_sweep (epoch : N) (fills : key) : list meta := sdk_sweep_at epoch KSwapCfg KSwapState fills KSwapMock.

(* WithdrawSolAccounts::new(sol_2z_swap_program_id, sol_destination_key) *)
Definition sdk_withdraw_sol (swap dest : key) : list meta :=
  [mk KRdConfig false false; mk (KWithdrawAuth swap) true false; mk KRdJournal false true; mk dest false true].

(* ---- re-deriving the SDK list from a presented list ---- *)
Definition epoch_at (ms : list meta) (i : nat) : option N := match nthk ms i with KRdDist e => Some e | _ => None end.
Definition svc_at (ms : list meta) (i : nat) : option key := match nthk ms i with KRdContrib s => Some s | _ => None end.
Definition node_at (ms : list meta) (i : nat) : option key := match nthk ms i with KRdDeposit n => Some n | _ => None end.
Fixpoint ata_owners (ms : list meta) : option (list key) :=
  match ms with
  | [] => Some []
  | m :: tl => match mkey m, ata_owners tl with KAta o _, Some l => Some (o :: l) | _, _ => None end
  end.

Definition sdk_metas_of (ix : rd_ix) (ms : list meta) : option (list meta) :=
  match ix with
  | RInitializeProgram => Some (sdk_initialize_program (nthk ms 0) (nthk ms 3))
  | RMigrate | RSetAdmin _ => Some (sdk_set_admin KRd (nthk ms 1))
  | RConfigureProgram _ => Some (sdk_configure_program (nthk ms 1))
  | RInitializeJournal => Some (sdk_initialize_journal (nthk ms 0) (nthk ms 3))
  | RInitializeDistribution =>
      match epoch_at ms 3 with Some e => Some (sdk_initialize_distribution (nthk ms 1) (nthk ms 2) e (nthk ms 5)) | None => None end
  | RConfigureDebt _ _ _ => match epoch_at ms 2 with Some e => Some (sdk_configure_debt (nthk ms 1) e) | None => None end
  | RFinalizeDebt => match epoch_at ms 2 with Some e => Some (sdk_finalize_debt (nthk ms 1) e (nthk ms 3)) | None => None end
  | RConfigureRewards _ _ => match epoch_at ms 2 with Some e => Some (sdk_configure_rewards (nthk ms 1) e) | None => None end
  | RFinalizeRewards => match epoch_at ms 1 with Some e => Some (sdk_finalize_rewards (nthk ms 2) e) | None => None end
  | RDistributeRewards _ _ _ =>
      match epoch_at ms 1, svc_at ms 2, ata_owners (skipn 7 ms) with
      | Some e, Some s, Some rs => Some (sdk_distribute_rewards e s (nthk ms 4) (nthk ms 5) rs)
      | _, _, _ => None
      end
  | RInitializeContributor _ => match svc_at ms 1 with Some s => Some (sdk_initialize_contributor (nthk ms 0) s) | None => None end
  | RSetRewardsManager _ => match svc_at ms 2 with Some s => Some (sdk_set_rewards_manager (nthk ms 1) s) | None => None end
  | RConfigureContributor _ => match svc_at ms 1 with Some s => Some (sdk_configure_contributor (nthk ms 2) s) | None => None end
  | RVerifyRoot _ _ => match epoch_at ms 0 with Some e => Some (sdk_verify_root e) | None => None end
  | RInitializeDeposit _ => match node_at ms 0 with Some n => Some (sdk_initialize_deposit (nthk ms 1) n) | None => None end
  | RPayDebt _ _ => match epoch_at ms 1, node_at ms 2 with Some e, Some n => Some (sdk_pay_debt e n) | _, _ => None end
  | REnableWriteOff => match epoch_at ms 1 with Some e => Some (sdk_enable_write_off e (nthk ms 2)) | None => None end
  | RWriteOff _ _ =>
      match epoch_at ms 2, node_at ms 3, epoch_at ms 4 with
      | Some e, Some n, Some e' => Some (sdk_write_off (nthk ms 1) e n e')
      | _, _, _ => None
      end
  | RInitializeSwapDestination => Some (sdk_initialize_swap_destination (nthk ms 1) (nthk ms 4))
  | RSweep =>
      match epoch_at ms 1 with
      | Some e =>
          (* the addresses derived from the swap program id are known for the mock only; read off otherwise *)
          match nthk ms 6 with
          | KSwapMock => Some (sdk_sweep e (nthk ms 5))
          | sw => Some (sdk_sweep_at e (nthk ms 3) (nthk ms 4) (nthk ms 5) sw)
          end
      | None => None
      end
  | RWithdrawSol _ => match nthk ms 1 with KWithdrawAuth sw => Some (sdk_withdraw_sol sw (nthk ms 3)) | _ => None end
  end.

Definition meta_eqb (a b : meta) : bool :=
  key_eqb (mkey a) (mkey b) && Bool.eqb (msigner a) (msigner b) && Bool.eqb (mwritable a) (mwritable b).
Definition metas_eqb (a b : list meta) : bool := list_eqb meta_eqb a b.

(* the single RD instruction of a successful single-instruction transaction, if the step is one *)
Definition single_rd_ix (r : robs) : option (rd_ix * list meta) :=
  match r with
  | (OTx t, true, _) =>
      match tx_ixs t with
      | [i] => match i_prog i, i_data i with KRd, IxRd ix => Some (ix, i_metas i) | _, _ => None end
      | _ => None
      end
  | _ => None
  end.

(* first successful single-instruction RD transaction (by position in the trace) whose account list is not the one the
   transcribed builder produces; the payload is the transcribed list ([] when the parameters cannot even be read off) *)
Fixpoint builders_agree_from (tr : list robs) (i : N) : option (N * list meta) :=
  match tr with
  | [] => None
  | r :: tl =>
      match single_rd_ix r with
      | Some (ix, ms) =>
          match sdk_metas_of ix ms with
          | Some sdk => if metas_eqb sdk ms then builders_agree_from tl (i + 1) else Some (i, sdk)
          | None => Some (i, [])
          end
      | None => builders_agree_from tl (i + 1)
      end
  end.
Definition builders_agree (tr : list robs) : option (N * list meta) := builders_agree_from tr 0.

(* how many steps of a trace the comparison covers, per instruction tag (coverage figure for the evidence) *)
Definition builders_covered (tr : list robs) : list N :=
  flat_map (fun r => match single_rd_ix r with Some (ix, _) => [rd_tag ix] | None => [] end) tr.
