(* C13, composition of the rewards side, part 1: distribute-rewards in the pointwise shape, the loop over a whole rewards
   tree (distribute_all_ok), completion from count 0 and the dust bound.  Index at the end of Lemmas_C13k.v. *)
From DZ Require Import Base Keys Merkle BurnRate Shares Swap_Ring State World SwapDeq RD Passport Swap Exec Corr Builders
  Lemmas_Merkle Lemmas_Shares Lemmas_RdSpecs5 Lemmas_C13 Lemmas_C13b Lemmas_C13c.

(* ------------------------------------------------------------------------------------------------------------------ *)
(* the amounts of one reward leaf as functions of the collected total T, the community burn rate and the leaf            *)
Definition leaf_share (T us : N) : N := floor_share US32_MAX us T.
Definition leaf_burn0 (T cbr us ebr : N) : N := floor_share US32_MAX (N.max ebr cbr) (leaf_share T us).
Definition leaf_rem (T cbr us ebr : N) : N := leaf_share T us - leaf_burn0 T cbr us ebr.
Definition leaf_sent (T cbr us ebr : N) (recips : list (key * N)) : N := sumN (amounts_k (leaf_rem T cbr us ebr) recips).
Definition leaf_burn (T cbr us ebr : N) (recips : list (key * N)) : N := leaf_share T us - leaf_sent T cbr us ebr recips.

Definition dist_total (d : dist) : N := d_prepaid_2z d + d_swept_2z d.

(* pointwise post-state of a distribute-rewards transaction (before the purge) *)
Definition distribute_acct (W : world) (e : N) (r : key) (us ebr idx : N) (d : dist) (tail : list N) (cr : contrib)
  (s0 : token_acct) (m : mint_acct) (k : key) : acct :=
  let T := dist_total d in let dk := KRdDist e in let rc := cr_recipients cr in
  (if key_eqb k dk then (get W dk) <| data := DDist (dr_dist d (leaf_sent T (d_cbr d) us ebr rc) (leaf_burn T (d_cbr d) us ebr rc))
                                                     (set_bit_at tail (d_rew_start d) idx) |>
   else if key_eqb k (KTok2z dk) then (get W k) <| data := DToken (s0 <| t_amount := t_amount s0 - leaf_share T us |>) |>
   else if key_eqb k KMint then (get W k) <| data := DMint (m <| m_supply := m_supply m - leaf_burn T (d_cbr d) us ebr rc |>) |>
   else tok_add (get W k) (recv (leaf_rem T (d_cbr d) us ebr) rc k))
    <| lamports := lamports (get W k) + (if key_eqb r k then d_relay d else 0) - (if key_eqb dk k then d_relay d else 0) |>.

Theorem distribute_rewards_progress_pt W f r e svc us ebr p idx c d tail cr s0 m :
  distribute_ready W e svc (KUser r) us ebr p idx c d tail cr s0 m ->
  exists W', exec_tx W (rd_tx [KUser f] (RDistributeRewards us ebr p)
                          (sdk_distribute_rewards e svc KMint (KUser r) (map fst (cr_recipients cr)))) = (W', true) /\
    now W' = now W /\ forall k, get W' k = purge_acct (distribute_acct W e (KUser r) us ebr idx d tail cr s0 m k).
Proof.
  intros R. destruct (distribute_rewards_progress W f r e svc us ebr p idx c d tail cr s0 m R)
    as (W1 & share_amt & burn0 & transferred & burn & Hx & Out).
  exists (purge W1). split; [exact Hx|]. split; [rewrite now_purge; exact (do_now _ _ _ _ _ _ _ _ _ _ _ _ _ _ _ Out)|].
  intros k. rewrite get_purge. fold (purge_acct (get W1 k)). f_equal.
  rewrite (do_effect _ _ _ _ _ _ _ _ _ _ _ _ _ _ _ Out). unfold distribute_acct, leaf_burn, leaf_sent, leaf_rem, leaf_burn0, leaf_share, dist_total.
  cbv zeta.
  rewrite <- (do_share _ _ _ _ _ _ _ _ _ _ _ _ _ _ _ Out), <- (do_burn0 _ _ _ _ _ _ _ _ _ _ _ _ _ _ _ Out),
          <- (do_transferred _ _ _ _ _ _ _ _ _ _ _ _ _ _ _ Out), <- (do_burn _ _ _ _ _ _ _ _ _ _ _ _ _ _ _ Out).
  reflexivity.
Qed.

(* ------------------------------------------------------------------------------------------------------------------ *)
(* distributing every leaf of a rewards tree, one transaction per leaf                                                 *)
Definition rleaf : Type := key * N * N.                      (* contributor's service key, unit share, economic burn rate *)
Fixpoint distribute_txs (f r e : N) (crof : key -> contrib) (L : list rleaf) (pf : N -> proof) (i : N) : list tx :=
  match L with
  | [] => []
  | (svc, us, ebr) :: tl =>
      rd_tx [KUser f] (RDistributeRewards us ebr (pf i))
            (sdk_distribute_rewards e svc KMint (KUser r) (map fst (cr_recipients (crof svc))))
      :: distribute_txs f r e crof tl pf (i + 1)
  end.
(* what the leaves of L draw from the custody account, what of it reaches recipients, what is burned *)
Fixpoint rsum (T : N) (L : list rleaf) : N :=
  match L with [] => 0 | (_, us, _) :: tl => leaf_share T us + rsum T tl end.
Fixpoint sent_sum (T cbr : N) (crof : key -> contrib) (L : list rleaf) : N :=
  match L with [] => 0 | (svc, us, ebr) :: tl => leaf_sent T cbr us ebr (cr_recipients (crof svc)) + sent_sum T cbr crof tl end.
Fixpoint burn_sum (T cbr : N) (crof : key -> contrib) (L : list rleaf) : N :=
  match L with [] => 0 | (svc, us, ebr) :: tl => leaf_burn T cbr us ebr (cr_recipients (crof svc)) + burn_sum T cbr crof tl end.
(* what the token account k receives from the leaves of L *)
Fixpoint recv_all (T cbr : N) (crof : key -> contrib) (L : list rleaf) (k : key) : N :=
  match L with [] => 0 | (svc, us, ebr) :: tl => recv (leaf_rem T cbr us ebr) (cr_recipients (crof svc)) k + recv_all T cbr crof tl k end.

Lemma rsum_map T L : rsum T L = sumN (map (fun s => floor_share US32_MAX s T) (map (fun l : rleaf => snd (fst l)) L)).
Proof. induction L as [|[[svc us] ebr] tl IH]; cbn [rsum map sumN fst snd]; [reflexivity|]. rewrite IH. reflexivity. Qed.

Record distribute_phase (W : world) (e r : N) (root : hash) (pf : N -> proof) (crof : key -> contrib) (i : N) (rest : list rleaf)
  (c : rd_config) (d : dist) (tail : list N) (s : token_acct) (m : mint_acct) : Prop := {
  dph_cfg_owner : owner (get W KRdConfig) = KRd;
  dph_cfg_data : data (get W KRdConfig) = DConfig c;
  dph_cfg_lam : lamports (get W KRdConfig) <> 0;
  dph_unpaused : c_paused c = false;
  dph_dist_owner : owner (get W (KRdDist e)) = KRd;
  dph_dist_data : data (get W (KRdDist e)) = DDist d tail;
  dph_epoch : d_epoch d = e;
  dph_swept : d_swept d = true;
  dph_root : d_rewards_root d = root;
  dph_total : dist_total d < two64;
  dph_cbr : d_cbr d <= US32_MAX;
  dph_count : d_distributed_count d + N.of_nat (length rest) <= d_total_contributors d /\ d_total_contributors d < two32;
  dph_window : d_rew_start d <= d_rew_end d /\ d_rew_end d <= N.of_nat (length tail);
  dph_fits : i + N.of_nat (length rest) <= 8 * (d_rew_end d - d_rew_start d);
  dph_clear : forall idx, i <= idx < i + N.of_nat (length rest) -> range_bit tail (d_rew_start d) idx = false;
  dph_proofs : forall n svc us ebr, nth_error rest n = Some (svc, us, ebr) ->
     leaf_index (pf (i + N.of_nat n)) = Some (i + N.of_nat n) /\
     root_from_leaf (pf (i + N.of_nat n)) PRE_REWARD (LReward svc us ebr) = root /\ us <= US32_MAX /\ ebr <= US32_MAX;
  (* every remaining contributor has an initialised record with a configured recipient table *)
  dph_contribs : forall svc us ebr, In (svc, us, ebr) rest ->
     owner (get W (KRdContrib svc)) = KRd /\ data (get W (KRdContrib svc)) = DContrib (crof svc) /\
     lamports (get W (KRdContrib svc)) <> 0 /\ cr_service (crof svc) = svc /\ cr_recipients (crof svc) <> [] /\
     sumN (map snd (cr_recipients (crof svc))) <= US16_MAX;
  (* the custody account holds what the remaining leaves draw *)
  dph_custody : as_token W (KTok2z (KRdDist e)) = Ok s /\ t_owner s = KRdDist e /\ t_mint s = KMint /\
                rsum (dist_total d) rest <= t_amount s /\ lamports (get W (KTok2z (KRdDist e))) <> 0;
  (* the mint exists and its supply covers what the remaining leaves may burn (SPL Token: supply.checked_sub) *)
  dph_mint : as_mint W KMint = Ok m /\ lamports (get W KMint) <> 0 /\ rsum (dist_total d) rest <= m_supply m;
  (* every remaining recipient's ATA exists (and cannot overflow) *)
  dph_atas : forall svc us ebr x, In (svc, us, ebr) rest -> In x (cr_recipients (crof svc)) ->
     exists t, as_token W (KAta (fst x) KMint) = Ok t /\ t_mint t = KMint /\ t_amount t + rsum (dist_total d) rest < two64 /\
               lamports (get W (KAta (fst x) KMint)) <> 0;
  (* relay lamports for the remaining leaves were prepaid on top of the rent (finalize-rewards, C11) *)
  dph_relay : rent (alen (get W (KRdDist e))) + d_relay d * N.of_nat (length rest) <= lamports (get W (KRdDist e));
  dph_relayer : rent (alen (get W (KUser r))) <= lamports (get W (KUser r)) + d_relay d;
  dph_books : d_distributed_2z d + d_burned_2z d + rsum (dist_total d) rest < two64
}.

Lemma leaf_sent_le T cbr us ebr recips : sumN (map snd recips) <= US16_MAX -> leaf_sent T cbr us ebr recips <= leaf_rem T cbr us ebr.
Proof. intros H. unfold leaf_sent. apply amounts_k_sum_le. exact H. Qed.
Lemma leaf_split T cbr us ebr recips : sumN (map snd recips) <= US16_MAX ->
  leaf_sent T cbr us ebr recips + leaf_burn T cbr us ebr recips = leaf_share T us.
Proof. intros H. pose proof (leaf_sent_le T cbr us ebr recips H). unfold leaf_burn, leaf_rem in *. lia. Qed.

(* accounts the transaction does not touch *)
Lemma distribute_acct_other W e r us ebr idx d tail cr s0 m k :
  k <> KRdDist e -> k <> KTok2z (KRdDist e) -> k <> KMint -> k <> r -> (forall rk, k <> KAta rk KMint) ->
  distribute_acct W e r us ebr idx d tail cr s0 m k = get W k.
Proof.
  intros H1 H2 H3 H4 H5. unfold distribute_acct. cbv zeta.
  rewrite (key_eqb_neq k (KRdDist e)), (key_eqb_neq k (KTok2z (KRdDist e))), (key_eqb_neq k KMint) by assumption.
  rewrite (key_eqb_neq r k), (key_eqb_neq (KRdDist e) k) by congruence.
  rewrite recv_not_ata by assumption. rewrite tok_add_0. rewrite N.add_0_r, N.sub_0_r. apply set_lamports_id.
Qed.
Lemma distribute_acct_ata W e r us ebr idx d tail cr s0 m rk : (forall rk', r <> KAta rk' KMint) ->
  distribute_acct W e r us ebr idx d tail cr s0 m (KAta rk KMint) =
  tok_add (get W (KAta rk KMint)) (recv (leaf_rem (dist_total d) (d_cbr d) us ebr) (cr_recipients cr) (KAta rk KMint)).
Proof.
  intros Hr. unfold distribute_acct. cbv zeta. cbn [key_eqb]. rewrite (key_eqb_neq r (KAta rk KMint)) by apply Hr.
  rewrite N.add_0_r, N.sub_0_r. apply acct_ext; proj_simpl; try reflexivity. symmetry. apply lamports_tok_add.
Qed.
Lemma as_token_tok_add W W' k t n :
  as_token W k = Ok t -> get W' k = tok_add (get W k) n -> as_token W' k = Ok (t <| t_amount := t_amount t + n |>).
Proof.
  intros H G. apply as_token_ok in H. destruct H as (D & O). apply as_token_ok. rewrite G, (tok_add_token _ _ _ D). cbn. auto.
Qed.

Lemma m_supply_set (m : mint_acct) x : m_supply (m <| m_supply := x |>) = x. Proof. reflexivity. Qed.

Lemma dist_dr_fields d a b :
  d_epoch (dr_dist d a b) = d_epoch d /\ d_swept (dr_dist d a b) = d_swept d /\ d_rewards_root (dr_dist d a b) = d_rewards_root d /\
  dist_total (dr_dist d a b) = dist_total d /\ d_cbr (dr_dist d a b) = d_cbr d /\
  d_total_contributors (dr_dist d a b) = d_total_contributors d /\ d_rew_start (dr_dist d a b) = d_rew_start d /\
  d_rew_end (dr_dist d a b) = d_rew_end d /\ d_relay (dr_dist d a b) = d_relay d.
Proof. unfold dr_dist, dist_total. proj_simpl. repeat split; reflexivity. Qed.

Lemma distribute_step f W e r root pf crof i svc us ebr tl c d tail s m :
  distribute_phase W e r root pf crof i ((svc, us, ebr) :: tl) c d tail s m ->
  let T := dist_total d in let rc := cr_recipients (crof svc) in
  let d1 := dr_dist d (leaf_sent T (d_cbr d) us ebr rc) (leaf_burn T (d_cbr d) us ebr rc) in
  let tail1 := set_bit_at tail (d_rew_start d) i in
  let s1 := s <| t_amount := t_amount s - leaf_share T us |> in
  let m1 := m <| m_supply := m_supply m - leaf_burn T (d_cbr d) us ebr rc |> in
  exists W1,
    exec_tx W (rd_tx [KUser f] (RDistributeRewards us ebr (pf i))
                 (sdk_distribute_rewards e svc KMint (KUser r) (map fst rc))) = (W1, true) /\
    now W1 = now W /\
    (forall k, get W1 k = purge_acct (distribute_acct W e (KUser r) us ebr i d tail (crof svc) s m k)) /\
    distribute_phase W1 e r root pf crof (i + 1) tl c d1 tail1 s1 m1.
Proof.
  intros P T rc d1 tail1 s1 m1. destruct P.
  destruct (dph_contribs0 svc us ebr (or_introl eq_refl)) as (Co & Cd & Cl & Cs & Cn & Csum).
  destruct (dph_proofs0 0%nat svc us ebr eq_refl) as (Pi & Pr & Pus & Pebr). cbn [N.of_nat] in Pi, Pr. rewrite N.add_0_r in Pi, Pr.
  destruct dph_custody0 as (Hs & Hso & Hsm & Hsa & Hsl). destruct dph_mint0 as (Hm & Hml & Hms).
  destruct dph_window0 as (Hw1 & Hw2). destruct dph_count0 as (Hc1 & Hc2).
  cbn [length rsum] in *. fold T in Hsa, dph_atas0, dph_books0, dph_total0, Hms.
  rewrite Nat2N.inj_succ, N.mul_succ_r in dph_relay0.
  assert (i / 8 < d_rew_end d - d_rew_start d) as Hin by lia.
  assert (range_bit tail (d_rew_start d) i = false) as Hclr by (apply dph_clear0; lia).
  pose proof (leaf_split T (d_cbr d) us ebr rc Csum) as Hsplit. fold rc in Cn, Csum.
  assert (floor_share US32_MAX us (d_prepaid_2z d + d_swept_2z d) <= m_supply m) as Hsup
    by (unfold T, dist_total, leaf_share in *; lia).
  assert (distribute_ready W e svc (KUser r) us ebr (pf i) i c d tail (crof svc) s m) as R.
  { constructor; try assumption; try lia; try congruence.
    - repeat split; try assumption. unfold T, dist_total, leaf_share in *. lia.
    - intros x Hx. destruct (dph_atas0 svc us ebr x (or_introl eq_refl) Hx) as (t & A1 & A2 & A3 & A4).
      exists t. repeat split; try assumption. unfold T, dist_total, leaf_share in *. lia. }
  destruct (distribute_rewards_progress_pt W f r e svc us ebr (pf i) i c d tail (crof svc) s m R) as (W1 & Hx & Hnow & Hg).
  exists W1. split; [exact Hx|]. split; [exact Hnow|]. split; [exact Hg|].
  destruct (set_bit_at_bits tail _ _ i Hw1 Hw2 Hin Hclr) as (Hlen & Hset & Hoth).
  destruct (dist_dr_fields d (leaf_sent T (d_cbr d) us ebr rc) (leaf_burn T (d_cbr d) us ebr rc)) as (F1 & F2 & F3 & F4 & F5 & F6 & F7 & F8 & F9).
  fold d1 in F1, F2, F3, F4, F5, F6, F7, F8, F9.
  (* the post-state, account by account *)
  assert (forall k, k <> KRdDist e -> k <> KTok2z (KRdDist e) -> k <> KMint -> k <> KUser r -> (forall rk, k <> KAta rk KMint) ->
                    lamports (get W k) <> 0 -> get W1 k = get W k) as Gother.
  { intros k H1 H2 H3 H4 H5 H6. rewrite Hg, distribute_acct_other by assumption. apply purge_acct_id. assumption. }
  assert (get W1 (KRdDist e) = get W (KRdDist e) <| data := DDist d1 tail1 |> <| lamports := lamports (get W (KRdDist e)) - d_relay d |>) as Gd.
  { rewrite Hg. unfold distribute_acct. cbv zeta. cbn [key_eqb]. rewrite N.eqb_refl. rewrite N.add_0_r.
    apply purge_acct_id. proj_simpl. cbn [lamports]. pose proof (rent_pos (alen (get W (KRdDist e)))). lia. }
  assert (get W1 (KTok2z (KRdDist e)) = get W (KTok2z (KRdDist e)) <| data := DToken s1 |>) as Gc.
  { rewrite Hg. unfold distribute_acct. cbv zeta. cbn [key_eqb]. rewrite N.eqb_refl. rewrite N.add_0_r, N.sub_0_r.
    rewrite purge_acct_id by (proj_simpl; cbn [lamports]; assumption).
    apply acct_ext; reflexivity. }
  assert (get W1 KMint = get W KMint <| data := DMint m1 |>) as Gm.
  { rewrite Hg. unfold distribute_acct. cbv zeta. cbn [key_eqb]. rewrite N.add_0_r, N.sub_0_r.
    rewrite purge_acct_id by (proj_simpl; cbn [lamports]; assumption).
    apply acct_ext; reflexivity. }
  assert (lamports (get W1 (KUser r)) = lamports (get W (KUser r)) + d_relay d /\ alen (get W1 (KUser r)) = alen (get W (KUser r))) as (Grl & Gra).
  { rewrite Hg. unfold distribute_acct. cbv zeta. cbn [key_eqb]. rewrite N.eqb_refl, N.sub_0_r.
    rewrite purge_acct_id by (proj_simpl; cbn [lamports]; pose proof (rent_pos (alen (get W (KUser r)))); lia).
    cbn [lamports alen]. split; [reflexivity|]. apply alen_tok_add. }
  assert (forall rk, lamports (get W (KAta rk KMint)) <> 0 ->
            get W1 (KAta rk KMint) = tok_add (get W (KAta rk KMint)) (recv (leaf_rem T (d_cbr d) us ebr) rc (KAta rk KMint))) as Ga.
  { intros rk Hl. rewrite Hg, distribute_acct_ata by (intros; discriminate). apply purge_acct_id. rewrite lamports_tok_add. assumption. }
  constructor; rewrite ?F1, ?F2, ?F3, ?F4, ?F5, ?F6, ?F7, ?F8, ?F9; fold T; try assumption.
  - rewrite Gother by (discriminate || assumption). assumption.
  - rewrite Gother by (discriminate || assumption). assumption.
  - rewrite Gother by (discriminate || assumption). assumption.
  - rewrite Gd. proj_simpl. assumption.
  - rewrite Gd. reflexivity.
  - subst d1. unfold dr_dist. proj_simpl. unfold wadd32. rewrite wadd_small by lia. split; lia.
  - unfold tail1. rewrite Hlen. split; assumption.
  - lia.
  - intros idx Hidx. unfold tail1. rewrite Hoth by lia. apply dph_clear0. lia.
  - intros n svc' us' ebr' Hn. destruct (dph_proofs0 (S n) svc' us' ebr' Hn) as (A & B & C & D).
    replace (i + 1 + N.of_nat n) with (i + N.of_nat (S n)) by lia. auto.
  - intros svc' us' ebr' Hin'. destruct (dph_contribs0 svc' us' ebr' (or_intror Hin')) as (A1 & A2 & A3 & A4 & A5 & A6).
    rewrite Gother by (discriminate || assumption). auto 7.
  - repeat split.
    + apply as_token_ok. apply as_token_ok in Hs. destruct Hs as (D & O). rewrite Gc. proj_simpl. auto.
    + assumption.
    + assumption.
    + unfold s1. proj_simpl. lia.
    + rewrite Gc. proj_simpl. assumption.
  - split; [|split].
    + apply as_mint_ok. apply as_mint_ok in Hm. destruct Hm as (D & O). rewrite Gm. proj_simpl. auto.
    + rewrite Gm. proj_simpl. assumption.
    + unfold m1. rewrite m_supply_set. lia.
  - intros svc' us' ebr' x Hin' Hx'. destruct (dph_atas0 svc' us' ebr' x (or_intror Hin') Hx') as (t & A1 & A2 & A3 & A4).
    exists (t <| t_amount := t_amount t + recv (leaf_rem T (d_cbr d) us ebr) rc (KAta (fst x) KMint) |>).
    split; [eapply as_token_tok_add; [exact A1|apply Ga; exact A4]|]. proj_simpl. split; [assumption|].
    pose proof (recv_sum_le (leaf_rem T (d_cbr d) us ebr) rc (KAta (fst x) KMint)) as Hr.
    pose proof (leaf_sent_le T (d_cbr d) us ebr rc Csum) as Hsl2. unfold leaf_sent in Hsl2. unfold leaf_rem in *.
    split; [lia|]. rewrite Ga by assumption. rewrite lamports_tok_add. assumption.
  - rewrite Gd. proj_simpl. cbn [lamports alen]. lia.
  - rewrite Grl, Gra. lia.
  - subst d1. unfold dr_dist. proj_simpl. unfold wadd64. rewrite !wadd_small by lia. lia.
Qed.

Lemma dist_dr_twice d a b x y z :
  (dr_dist d a b) <| d_distributed_2z := x |> <| d_burned_2z := y |> <| d_distributed_count := z |>
  = d <| d_distributed_2z := x |> <| d_burned_2z := y |> <| d_distributed_count := z |>.
Proof. destruct d; reflexivity. Qed.
Lemma dist_dr_self d : d = d <| d_distributed_2z := d_distributed_2z d |> <| d_burned_2z := d_burned_2z d |> <| d_distributed_count := d_distributed_count d |>.
Proof. destruct d; reflexivity. Qed.
Lemma tok_amount_twice (s : token_acct) a b : s <| t_amount := a |> <| t_amount := b |> = s <| t_amount := b |>.
Proof. destruct s; reflexivity. Qed.
Lemma mint_supply_twice (m : mint_acct) a b : m <| m_supply := a |> <| m_supply := b |> = m <| m_supply := b |>.
Proof. destruct m; reflexivity. Qed.
Lemma set_supply_id (m : mint_acct) : m <| m_supply := m_supply m |> = m.
Proof. destruct m; reflexivity. Qed.

Lemma set_bit_at_low tail s e idx :
  s <= e -> e <= N.of_nat (length tail) -> idx / 8 < e - s -> range_bit tail s idx = false ->
  forall pos b, pos < s -> byte_bit (set_bit_at tail s idx) pos b = byte_bit tail pos b.
Proof.
  intros H1 H2 H3 H4 pos b Hp.
  assert (process_leaf tail s e idx = Ok (set_bit_at tail s idx)) as Hpl by (apply process_leaf_spec; unfold set_bit_at; tauto).
  destruct (process_leaf_bits _ _ _ _ _ Hpl) as (_ & Hb & _). rewrite Hb.
  destruct (N.eqb_spec pos (s + idx / 8)) as [E|_]; [lia|]. cbn [andb]. apply orb_false_r.
Qed.

Theorem distribute_all_ok f e r root pf crof : forall rest W i c d tail s m,
  distribute_phase W e r root pf crof i rest c d tail s m ->
  exists W' d' tail' s' m',
    run_txs W (distribute_txs f r e crof rest pf i) = (W', true) /\
    distribute_phase W' e r root pf crof (i + N.of_nat (length rest)) [] c d' tail' s' m' /\
    d' = d <| d_distributed_2z := d_distributed_2z d' |> <| d_burned_2z := d_burned_2z d' |> <| d_distributed_count := d_distributed_count d' |> /\
    d_distributed_count d' = d_distributed_count d + N.of_nat (length rest) /\
    d_distributed_2z d' = d_distributed_2z d + sent_sum (dist_total d) (d_cbr d) crof rest /\
    d_burned_2z d' = d_burned_2z d + burn_sum (dist_total d) (d_cbr d) crof rest /\
    sent_sum (dist_total d) (d_cbr d) crof rest + burn_sum (dist_total d) (d_cbr d) crof rest = rsum (dist_total d) rest /\
    length tail' = length tail /\
    (forall idx, i <= idx < i + N.of_nat (length rest) -> range_bit tail' (d_rew_start d) idx = true) /\
    (forall idx, idx < i \/ i + N.of_nat (length rest) <= idx -> range_bit tail' (d_rew_start d) idx = range_bit tail (d_rew_start d) idx) /\
    lamports (get W' (KUser r)) = lamports (get W (KUser r)) + d_relay d * N.of_nat (length rest) /\
    lamports (get W' (KRdDist e)) = lamports (get W (KRdDist e)) - d_relay d * N.of_nat (length rest) /\
    s' = s <| t_amount := t_amount s - rsum (dist_total d) rest |> /\
    m' = m <| m_supply := m_supply m - burn_sum (dist_total d) (d_cbr d) crof rest |> /\
    (forall rk t, as_token W (KAta rk KMint) = Ok t -> lamports (get W (KAta rk KMint)) <> 0 ->
       as_token W' (KAta rk KMint) = Ok (t <| t_amount := t_amount t + recv_all (dist_total d) (d_cbr d) crof rest (KAta rk KMint) |>) /\
       lamports (get W' (KAta rk KMint)) <> 0) /\
    (forall k, k <> KRdDist e -> k <> KTok2z (KRdDist e) -> k <> KMint -> k <> KUser r -> (forall rk, k <> KAta rk KMint) ->
               lamports (get W k) <> 0 -> get W' k = get W k) /\
    (forall pos b, pos < d_rew_start d -> byte_bit tail' pos b = byte_bit tail pos b) /\
    now W' = now W.
Proof.
  induction rest as [|[[svc us] ebr] tl IH]; intros W i c d tail s m P.
  - exists W, d, tail, s, m. cbn [distribute_txs run_txs length sent_sum burn_sum rsum recv_all N.of_nat].
    rewrite !N.add_0_r, N.mul_0_r, N.add_0_r, !N.sub_0_r.
    split; [reflexivity|]. split; [exact P|]. split; [apply dist_dr_self|].
    repeat split; try reflexivity; try lia.
    + symmetry. apply set_tamount_id.
    + symmetry. apply set_supply_id.
    + rewrite N.add_0_r, set_tamount_id. assumption.
  - pose proof P as P0. destruct P0.
    destruct (dph_contribs0 svc us ebr (or_introl eq_refl)) as (_ & _ & _ & _ & _ & Csum).
    destruct dph_count0 as (Hc1 & Hc2). cbn [length] in Hc1, dph_relay0.
    destruct (distribute_step f W e r root pf crof i svc us ebr tl c d tail s m P) as (W1 & Hx & Hnow & Hg & P1).
    set (T := dist_total d) in *. set (rc := cr_recipients (crof svc)) in *.
    set (d1 := dr_dist d (leaf_sent T (d_cbr d) us ebr rc) (leaf_burn T (d_cbr d) us ebr rc)) in *.
    set (tail1 := set_bit_at tail (d_rew_start d) i) in *.
    destruct (dist_dr_fields d (leaf_sent T (d_cbr d) us ebr rc) (leaf_burn T (d_cbr d) us ebr rc)) as (F1 & F2 & F3 & F4 & F5 & F6 & F7 & F8 & F9).
    fold d1 in F1, F2, F3, F4, F5, F6, F7, F8, F9. fold T in F4.
    destruct (IH W1 (i + 1) c d1 tail1 _ _ P1)
      as (W' & d' & tail' & s' & m' & Hrun & Pend & Hd' & Hcnt & Hsent & Hburn & Hsb & Hlen' & Hbits & Hkeep & Hrl & Hdl & Hs' & Hm' & Hata & Hfr & Hlow & Hnow').
    rewrite F4, F5, F7, F9 in *.
    destruct dph_window0 as (Hw1 & Hw2).
    assert (i / 8 < d_rew_end d - d_rew_start d) as Hin by (cbn [length] in dph_fits0; lia).
    assert (range_bit tail (d_rew_start d) i = false) as Hclr by (apply dph_clear0; cbn [length]; lia).
    destruct (set_bit_at_bits tail _ _ i Hw1 Hw2 Hin Hclr) as (Hlen & Hset & Hoth). fold tail1 in Hlen, Hset, Hoth.
    pose proof (leaf_split T (d_cbr d) us ebr rc Csum) as Hsplit.
    assert (d_distributed_2z d1 = d_distributed_2z d + leaf_sent T (d_cbr d) us ebr rc /\
            d_burned_2z d1 = d_burned_2z d + leaf_burn T (d_cbr d) us ebr rc /\
            d_distributed_count d1 = d_distributed_count d + 1) as (E1 & E2 & E3).
    { cbn [rsum] in dph_books0. fold T in dph_books0. subst d1. unfold dr_dist. proj_simpl. unfold wadd64, wadd32. rewrite !wadd_small by lia. auto. }
    assert (lamports (get W1 (KUser r)) = lamports (get W (KUser r)) + d_relay d) as Grl.
    { rewrite Hg. rewrite lamports_purge_acct. unfold distribute_acct. cbv zeta. proj_simpl. cbn [key_eqb]. rewrite N.eqb_refl. lia. }
    assert (lamports (get W1 (KRdDist e)) = lamports (get W (KRdDist e)) - d_relay d) as Gdl.
    { rewrite Hg. rewrite lamports_purge_acct. unfold distribute_acct. cbv zeta. proj_simpl. cbn [key_eqb]. rewrite N.eqb_refl. lia. }
    exists W', d', tail', s', m'. cbn [distribute_txs run_txs]. fold rc. rewrite Hx.
    cbn [length sent_sum burn_sum rsum recv_all]. fold T. fold rc.
    replace (i + N.of_nat (S (length tl))) with (i + 1 + N.of_nat (length tl)) by (clear; lia).
    split; [exact Hrun|]. split; [exact Pend|].
    split. { rewrite Hd' at 1. subst d1. apply dist_dr_twice. }
    split. { rewrite Hcnt, E3. clear. lia. }
    split. { rewrite Hsent, E1. clear. lia. }
    split. { rewrite Hburn, E2. clear. lia. }
    split. { clear - Hsb Hsplit. lia. }
    split; [congruence|].
    split. { intros idx Hidx. destruct (N.eq_dec idx i) as [->|Hne]; [rewrite Hkeep by (clear; lia); exact Hset|apply Hbits; clear - Hidx Hne; lia]. }
    split. { intros idx Hidx. rewrite Hkeep by (clear - Hidx; lia). apply Hoth. clear - Hidx; lia. }
    split. { rewrite Hrl, Grl. clear. lia. }
    split. { rewrite Hdl, Gdl. clear - dph_relay0. lia. }
    split. { rewrite Hs'. rewrite tok_amount_twice. proj_simpl. rewrite N.sub_add_distr. reflexivity. }
    split. { rewrite Hm'. rewrite mint_supply_twice. proj_simpl. rewrite N.sub_add_distr. reflexivity. }
    split; [|split; [|split; [|congruence]]].
    3:{ intros pos b Hp. rewrite Hlow by exact Hp. apply (set_bit_at_low tail _ _ i Hw1 Hw2 Hin Hclr). exact Hp. }
    2:{ intros k K1 K2 K3 K4 K5 K6.
        assert (get W1 k = get W k) as E by (rewrite Hg, distribute_acct_other by assumption; apply purge_acct_id; assumption).
        rewrite Hfr by (try assumption; rewrite E; assumption). exact E. }
    intros rk t Ht Hl.
    assert (get W1 (KAta rk KMint) = tok_add (get W (KAta rk KMint)) (recv (leaf_rem T (d_cbr d) us ebr) rc (KAta rk KMint))) as Ga.
    { rewrite Hg, distribute_acct_ata by (intros; discriminate). apply purge_acct_id. rewrite lamports_tok_add. assumption. }
    destruct (Hata rk _ (as_token_tok_add _ _ _ _ _ Ht Ga)) as (A & B).
    { rewrite Ga, lamports_tok_add. assumption. }
    split; [|exact B]. rewrite A. rewrite tok_amount_twice. proj_simpl. rewrite N.add_assoc. reflexivity.
Qed.

(* after the last leaf: the counter equals the number of leaves, every leaf bit is set, the relayer was paid once per leaf,
   the custody account lost exactly the sum of the leaves' floors, all of it transferred or burned *)
Corollary distribute_all_complete f e r root pf crof L W c d tail s m :
  distribute_phase W e r root pf crof 0 L c d tail s m -> d_distributed_count d = 0 ->
  exists W' d' tail' s' m',
    run_txs W (distribute_txs f r e crof L pf 0) = (W', true) /\
    data (get W' (KRdDist e)) = DDist d' tail' /\
    d_distributed_count d' = N.of_nat (length L) /\
    (forall idx, idx < N.of_nat (length L) -> range_bit tail' (d_rew_start d') idx = true) /\
    lamports (get W' (KUser r)) = lamports (get W (KUser r)) + d_relay d * N.of_nat (length L) /\
    as_token W' (KTok2z (KRdDist e)) = Ok s' /\ t_amount s' = t_amount s - rsum (dist_total d) L /\
    rsum (dist_total d) L <= t_amount s /\
    as_mint W' KMint = Ok m' /\ m_supply m' = m_supply m - burn_sum (dist_total d) (d_cbr d) crof L /\
    d_distributed_2z d' = d_distributed_2z d + sent_sum (dist_total d) (d_cbr d) crof L /\
    d_burned_2z d' = d_burned_2z d + burn_sum (dist_total d) (d_cbr d) crof L /\
    sent_sum (dist_total d) (d_cbr d) crof L + burn_sum (dist_total d) (d_cbr d) crof L = rsum (dist_total d) L /\
    (forall k, k <> KRdDist e -> k <> KTok2z (KRdDist e) -> k <> KMint -> k <> KUser r -> (forall rk, k <> KAta rk KMint) ->
               lamports (get W k) <> 0 -> get W' k = get W k) /\
    d' = d <| d_distributed_2z := d_distributed_2z d' |> <| d_burned_2z := d_burned_2z d' |> <| d_distributed_count := d_distributed_count d' |> /\
    (forall pos b, pos < d_rew_start d -> byte_bit tail' pos b = byte_bit tail pos b).
Proof.
  intros P H0.
  destruct (distribute_all_ok f e r root pf crof L W 0 c d tail s m P)
    as (W' & d' & tail' & s' & m' & Hrun & Pend & Hd' & Hcnt & Hsent & Hburn & Hsb & _ & Hbits & _ & Hrl & _ & Hs' & Hm' & _ & Hfr & Hlow & _).
  exists W', d', tail', s', m'. split; [exact Hrun|]. split; [exact (dph_dist_data _ _ _ _ _ _ _ _ _ _ _ _ _ Pend)|].
  split; [rewrite Hcnt, H0; apply N.add_0_l|].
  split. { intros idx Hidx. rewrite Hd'. proj_simpl. apply Hbits. lia. }
  split; [exact Hrl|].
  destruct (dph_custody _ _ _ _ _ _ _ _ _ _ _ _ _ Pend) as (A & _). destruct (dph_mint _ _ _ _ _ _ _ _ _ _ _ _ _ Pend) as (B & _).
  destruct (dph_custody _ _ _ _ _ _ _ _ _ _ _ _ _ P) as (_ & _ & _ & C & _).
  split; [exact A|]. split; [rewrite Hs'; reflexivity|]. split; [exact C|]. split; [exact B|]. split; [rewrite Hm'; reflexivity|].
  auto 8.
Qed.

(* dust: when the tree's shares total 100 % and the custody account held exactly the collected total, fewer base units
   than there are leaves stay behind *)
Corollary distribute_dust (L : list rleaf) T :
  sumN (map (fun l : rleaf => snd (fst l)) L) = US32_MAX -> L <> [] -> T - rsum T L < N.of_nat (length L) /\ rsum T L <= T.
Proof.
  intros Hs Hne. rewrite rsum_map. split.
  - rewrite <- (map_length (fun l : rleaf => snd (fst l)) L). apply residue_lt_leaves; [exact Hs|]. destruct L; [contradiction|discriminate].
  - apply outflow_le_collected. rewrite Hs. apply N.le_refl.
Qed.

(* conservation on the recipients' side: over any duplicate-free list of keys that covers the recipients' ATAs the received
   amounts add up to what the books record as distributed *)
Lemma sum_indicator (k : key) (amt : N) ks : NoDup ks -> In k ks -> sumN (map (fun k' => if key_eqb k k' then amt else 0) ks) = amt.
Proof.
  induction 1 as [|x l Hx Hnd IH]; cbn [map sumN In]; [contradiction|]. intros [->|Hin].
  - rewrite key_eqb_refl. assert (sumN (map (fun k' => if key_eqb k k' then amt else 0) l) = 0) as ->; [|lia].
    clear IH Hnd. induction l as [|y l IH]; cbn [map sumN]; [reflexivity|].
    rewrite key_eqb_neq by (intros ->; apply Hx; left; reflexivity). rewrite IH by (intros X; apply Hx; right; exact X). reflexivity.
  - rewrite key_eqb_neq by (intros ->; contradiction). rewrite IH by assumption. lia.
Qed.
Lemma sumN_map_add {A} (g h : A -> N) l : sumN (map (fun x => g x + h x) l) = sumN (map g l) + sumN (map h l).
Proof. induction l; cbn [map sumN]; lia. Qed.
Lemma sumN_map_zero {A} (g : A -> N) l : (forall x, g x = 0) -> sumN (map g l) = 0.
Proof. intros H. induction l; cbn [map sumN]; [reflexivity|]. rewrite H, IHl. reflexivity. Qed.
Lemma recv_cover remaining (recips : list (key * N)) ks : NoDup ks -> (forall x, In x recips -> In (KAta (fst x) KMint) ks) ->
  sumN (map (recv remaining recips) ks) = sumN (amounts_k remaining recips).
Proof.
  intros Hnd. induction recips as [|x tl IH]; intros Hc.
  - cbn [amounts_k map sumN]. apply sumN_map_zero. reflexivity.
  - unfold recv, amounts_k. cbn [map sumN]. fold (amounts_k remaining tl).
    rewrite (sumN_map_add (fun k => if key_eqb (KAta (fst x) KMint) k then floor_share US16_MAX (snd x) remaining else 0)
                          (fun k => sumN (map (fun e0 : key * N => if key_eqb (KAta (fst e0) KMint) k then floor_share US16_MAX (snd e0) remaining else 0) tl)) ks).
    rewrite sum_indicator by (first [assumption | apply Hc; left; reflexivity]).
    fold (recv remaining tl). rewrite IH by (intros y Hy; apply Hc; right; exact Hy). reflexivity.
Qed.
Lemma recv_all_cover T cbr crof (L : list rleaf) ks : NoDup ks ->
  (forall svc us ebr x, In (svc, us, ebr) L -> In x (cr_recipients (crof svc)) -> In (KAta (fst x) KMint) ks) ->
  sumN (map (recv_all T cbr crof L) ks) = sent_sum T cbr crof L.
Proof.
  intros Hnd. induction L as [|[[svc us] ebr] tl IH]; intros Hc; cbn [recv_all sent_sum].
  - apply sumN_map_zero. reflexivity.
  - rewrite (sumN_map_add (recv (leaf_rem T cbr us ebr) (cr_recipients (crof svc))) (recv_all T cbr crof tl) ks).
    rewrite recv_cover by (first [assumption | intros x Hx; eapply Hc; [left; reflexivity|exact Hx]]).
    rewrite IH by (intros svc' us' ebr' x Hin Hx; eapply Hc; [right; exact Hin|exact Hx]). reflexivity.
Qed.

(* ------------------------------------------------------------------------------------------------------------------ *)
(* non-vacuity: the two leaves of ex_rewards (40 % without economic burn, 60 % with 10 %) over 10 000 collected 2Z        *)
Definition ex13_contrib21 : contrib :=
  {| cr_manager := KUser 40; cr_service := KUser 21; cr_blocked := false; cr_recipients := [(KUser 31, 10000)] |}.
Definition ex13_crof (k : key) : contrib := if key_eqb k (KUser 21) then ex13_contrib21 else ex_contrib.
Definition ex13_rleaves : list rleaf := [(KUser 21, 400000000, 0); (KUser 22, 600000000, 100000000)].
Definition ex13_distribute_all_world : world :=
  put ex13_distribute_world (KRdContrib (KUser 21)) (ex_acct (rent LEN_CONTRIB) LEN_CONTRIB (DContrib ex13_contrib21)).

Example distribute_all_ok_nonvacuous :
  let s := {| t_mint := KMint; t_owner := KRdDist 5; t_amount := 10000 |} in
  let m := {| m_supply := 1000000; m_decimals := 8 |} in
  distribute_phase ex13_distribute_all_world 5 7 (tree_root PRE_REWARD ex_rewards) (proof_for PRE_REWARD ex_rewards) ex13_crof 0
                   ex13_rleaves ex_cfg ex_dist5d [0; 0] s m /\
  sumN (map (fun l : rleaf => snd (fst l)) ex13_rleaves) = US32_MAX /\
  let '(W', ok) := run_txs ex13_distribute_all_world
                     (distribute_txs 7 7 5 ex13_crof ex13_rleaves (proof_for PRE_REWARD ex_rewards) 0) in
  ok = true /\
  (exists d', data (get W' (KRdDist 5)) = DDist d' [0; 3] /\ d_distributed_count d' = 2 /\
              d_distributed_2z d' + d_burned_2z d' = 10000 /\ d_burned_2z d' = 200 + 601) /\
  lamports (get W' (KRdDist 5)) = rent (LEN_DIST + 2) /\ lamports (get W' (KUser 7)) = 1012000 /\
  as_token W' (KTok2z (KRdDist 5)) = Ok {| t_mint := KMint; t_owner := KRdDist 5; t_amount := 0 |} /\
  as_mint W' KMint = Ok {| m_supply := 999199; m_decimals := 8 |} /\
  as_token W' (KAta (KUser 31) KMint) = Ok {| t_mint := KMint; t_owner := KUser 31; t_amount := 5 + 3800 + 1799 |} /\
  as_token W' (KAta (KUser 32) KMint) = Ok {| t_mint := KMint; t_owner := KUser 32; t_amount := 3600 |}.
Proof.
  cbv zeta. split; [|split; [reflexivity|vm_compute; split; [reflexivity|]; split; [eexists; repeat split|repeat split]]].
  constructor; try closed.
  - intros idx H. assert (idx = 0 \/ idx = 1) as [->| ->] by (cbn in H; lia); reflexivity.
  - intros [|[|[|n]]] svc us ebr H; cbn in H; try discriminate H; injection H as <- <- <-; vm_compute; repeat split; discriminate.
  - intros svc us ebr H. unfold ex13_rleaves in H. cbn [In] in H. destruct H as [H|[H|[]]]; injection H as <- <- <-; closed.
  - intros svc us ebr x H Hx. unfold ex13_rleaves in H. cbn [In] in H. destruct H as [H|[H|[]]]; injection H as <- <- <-;
      vm_compute in Hx; repeat (destruct Hx as [<-|Hx]; [eexists; closed|]); contradiction.
Qed.
