(* Part 5 of Lemmas_RdSpecs*: distribute-rewards (C02, C03, C11 relay fee). *)
From DZ Require Import Base Keys Merkle BurnRate Shares Swap_Ring State World SwapDeq RD Lemmas_Merkle Lemmas_Shares.
From DZ Require Export Lemmas_RdSpecs Lemmas_RdSpecs2 Lemmas_RdSpecs3 Lemmas_RdSpecs4.

(* ------------------------------------------------------------------------------------------------ token-balance updates *)
Definition tok_add (a : acct) (n : N) : acct :=
  match data a with DToken t => a <| data := DToken (t <| t_amount := t_amount t + n |>) |> | _ => a end.
Definition tok_sub (a : acct) (n : N) : acct :=
  match data a with DToken t => a <| data := DToken (t <| t_amount := t_amount t - n |>) |> | _ => a end.
Lemma tok_add_0 a : tok_add a 0 = a.
Proof. unfold tok_add. destruct (data a) eqn:E; try reflexivity. rewrite N.add_0_r, set_tamount_id. apply set_data_id; assumption. Qed.
Lemma tok_add_add a x y : tok_add (tok_add a x) y = tok_add a (x + y).
Proof. unfold tok_add. destruct a as [l o n dd]; destruct dd; cbn; try reflexivity. rewrite N.add_assoc. reflexivity. Qed.
Lemma tok_sub_sub a x y : tok_sub (tok_sub a x) y = tok_sub a (x + y).
Proof. unfold tok_sub. destruct a as [l o n dd]; destruct dd; cbn; try reflexivity. rewrite N.sub_add_distr. reflexivity. Qed.
Lemma tok_sub_0 a : tok_sub a 0 = a.
Proof. unfold tok_sub. destruct (data a) eqn:E; try reflexivity. rewrite N.sub_0_r, set_tamount_id. apply set_data_id; assumption. Qed.
Lemma tok_add_token a t n : data a = DToken t -> tok_add a n = a <| data := DToken (t <| t_amount := t_amount t + n |>) |>.
Proof. unfold tok_add. intros ->. reflexivity. Qed.
Lemma tok_sub_token a t n : data a = DToken t -> tok_sub a n = a <| data := DToken (t <| t_amount := t_amount t - n |>) |>.
Proof. unfold tok_sub. intros ->. reflexivity. Qed.
Lemma tok_add_fields a n : lamports (tok_add a n) = lamports a /\ owner (tok_add a n) = owner a /\ alen (tok_add a n) = alen a.
Proof. unfold tok_add. destruct (data a); cbn; auto. Qed.
Lemma tok_sub_fields a n : lamports (tok_sub a n) = lamports a /\ owner (tok_sub a n) = owner a /\ alen (tok_sub a n) = alen a.
Proof. unfold tok_sub. destruct (data a); cbn; auto. Qed.

(* ------------------------------------------------------------------------------------------------ the recipient loop *)
Definition amounts_k (remaining : N) (recips : list (key * N)) : list N :=
  map (fun e => floor_share US16_MAX (snd e) remaining) recips.
(* what the token account `k` receives in total (a recipient key may occur several times) *)
Definition recv (remaining : N) (recips : list (key * N)) (k : key) : N :=
  sumN (map (fun e => if key_eqb (KAta (fst e) KMint) k then floor_share US16_MAX (snd e) remaining else 0) recips).

Lemma recv_not_ata remaining recips k : (forall rk, k <> KAta rk KMint) -> recv remaining recips k = 0.
Proof. intros H. unfold recv. induction recips as [|e tl IH]; cbn [map sumN]; [reflexivity|].
  rewrite IH, key_eqb_neq by (intros E; apply (H (fst e)); congruence). reflexivity. Qed.
Lemma recv_sum_le remaining recips k : recv remaining recips k <= sumN (amounts_k remaining recips).
Proof. unfold recv, amounts_k. induction recips as [|e tl IH]; cbn [map sumN]; [lia|].
  destruct (key_eqb (KAta (fst e) KMint) k); lia. Qed.

Lemma wadd64_mod acc a : wadd64 (acc mod two64) a = (acc + a) mod two64.
Proof. unfold wadd64, wadd. rewrite N.add_mod_idemp_l by (unfold two64; lia). reflexivity. Qed.

Lemma distribute_loop_spec cx remaining src auth pdas : remaining < two64 -> (forall rk, src <> KAta rk KMint) ->
  forall recips W ms acc W' tr ms',
  Forall (fun e => snd e < two64) recips ->
  distribute_loop cx W ms recips remaining src auth pdas (acc mod two64) = Ok (W', tr, ms') ->
  let amts := amounts_k remaining recips in
  (exists atas, ms = atas ++ ms' /\ map mkey atas = map (fun e => KAta (fst e) KMint) recips) /\
  tr = (acc + sumN amts) mod two64 /\
  now W' = now W /\
  (forall e, In e recips -> exists t, as_token W (KAta (fst e) KMint) = Ok t) /\
  (recips <> [] -> exists s0, as_token W src = Ok s0 /\ sumN amts <= t_amount s0 /\ t_owner s0 = auth) /\
  (forall k, get W' k = if key_eqb src k then tok_sub (get W src) (sumN amts) else tok_add (get W k) (recv remaining recips k)).
Proof.
  intros Hrem Hsrc. induction recips as [|[rk share] tl IH]; intros W ms acc W' tr ms' Hall H; cbn [distribute_loop] in H.
  - ok_inj H. cbn. split; [exists []; auto|]. split; [rewrite N.add_0_r; reflexivity|]. split; [reflexivity|].
    split; [intros e []|]. split; [congruence|]. intros k. rewrite tok_sub_0, tok_add_0. destruct (key_eqb_spec src k) as [->|]; reflexivity.
  - inversion Hall as [|? ? Hsh Htl]; subst. cbn [snd] in Hsh.
    inv_all. norm_bool.
    match goal with H : next_any _ _ = Ok _ |- _ => apply next_any_ok in H; subst end.
    match goal with H : us16_mul_scalar _ _ = Some ?a |- _ =>
      unfold us16_mul_scalar in H; rewrite mul_scalar_faithful in H by assumption;
      destruct (N.ltb_spec (floor_share US16_MAX share remaining) two64) as [Hfit|]; [|discriminate H]; injection H as <- end.
    set (amt := floor_share US16_MAX share remaining) in *.
    match goal with H : tok_transfer _ _ _ _ _ _ _ = Ok _ |- _ =>
      apply tok_transfer_spec in H; destruct H as (_ & _ & _ & _ & s & t & Hs & Ht & Hle & _ & Hown & Hn1 & _ & Hdiff) end.
    match goal with Hk : mkey ?m = KAta rk KMint |- _ => rewrite Hk in * end.
    destruct (Hdiff (Hsrc rk)) as (_ & Hg1).
    match type of Hg1 with forall k, get ?X k = _ => rename X into W1 end.
    rewrite wadd64_mod in H.
    specialize (IH _ _ _ _ _ _ Htl H). cbv zeta in IH. destruct IH as ((atas & -> & Hatas) & -> & Hn & Hin & Hs0 & Hg).
    pose proof Hs as Hs'. pose proof Ht as Ht'. apply as_token_ok in Hs', Ht'. destruct Hs' as [Hsd _], Ht' as [Htd _].
    assert (forall k, get W1 k = if key_eqb src k then tok_sub (get W src) amt
                                 else if key_eqb (KAta rk KMint) k then tok_add (get W k) amt else get W k) as Hg1'.
    { intros k. rewrite Hg1. destruct (key_eqb_spec src k) as [<-|]; [rewrite (tok_sub_token _ _ _ Hsd); reflexivity|].
      destruct (key_eqb_spec (KAta rk KMint) k) as [<-|]; [rewrite (tok_add_token _ _ _ Htd); reflexivity|reflexivity]. }
    cbv zeta. cbn [amounts_k map sumN snd fst]. fold (amounts_k remaining tl). fold amt.
    split; [eexists (_ :: atas); split; [reflexivity|cbn [map]; congruence]|].
    split; [f_equal; lia|]. split; [congruence|]. split; [|split].
    + intros e [<-|He]; [eauto|]. destruct (Hin e He) as (t' & Ht2). apply as_token_ok in Ht2. destruct Ht2 as [D O].
      rewrite Hg1' in D, O. rewrite (key_eqb_neq src) in D, O by apply Hsrc.
      destruct (key_eqb_spec (KAta rk KMint) (KAta (fst e) KMint)) as [E|E].
      * rewrite <- E. eauto.
      * exists t'. apply as_token_ok. auto.
    + intros _. exists s. split; [assumption|]. split; [|assumption].
      destruct tl as [|e2 tl2]; [cbn; lia|].
      destruct (Hs0 ltac:(discriminate)) as (s1 & Hs1 & Hle1 & _). apply as_token_ok in Hs1. destruct Hs1 as [D _].
      rewrite Hg1', key_eqb_refl, (tok_sub_token _ _ _ Hsd) in D. cbn in D. injection D as <-. proj_simpl. lia.
    + intros k. rewrite Hg, !Hg1', key_eqb_refl. unfold recv. cbn [map sumN fst snd]. fold (recv remaining tl k). fold amt.
      destruct (key_eqb_spec src k) as [<-|Hk]; [apply tok_sub_sub|].
      destruct (key_eqb_spec (KAta rk KMint) k) as [<-|Hk2]; [apply tok_add_add|]. reflexivity.
Qed.

Lemma distribute_loop_metas cx remaining src auth pdas : forall recips W ms acc W' tr ms',
  distribute_loop cx W ms recips remaining src auth pdas acc = Ok (W', tr, ms') ->
  exists atas, ms = atas ++ ms' /\ map mkey atas = map (fun e => KAta (fst e) KMint) recips.
Proof.
  induction recips as [|[rk share] tl IH]; intros W ms acc W' tr ms' H; cbn [distribute_loop] in H.
  - ok_inj H. exists []. auto.
  - inv_all. norm_bool. match goal with H : next_any _ _ = Ok _ |- _ => apply next_any_ok in H; subst end.
    destruct (IH _ _ _ _ _ _ H) as (atas & -> & E). eexists (_ :: atas). split; [reflexivity|]. cbn [map fst]. congruence.
Qed.

(* ------------------------------------------------------------------------------------------------ the instruction *)
Definition dr_dist (d : dist) (transferred burn : N) : dist :=
  d <| d_distributed_2z := wadd64 (d_distributed_2z d) transferred |> <| d_burned_2z := wadd64 (d_burned_2z d) burn |>
    <| d_distributed_count := wadd32 (d_distributed_count d) 1 |>.

(* (a) guards: hold on every success, no side conditions *)
Record distribute_guards (cx : ctx) (W : world) (us ebr : N) (p : proof)
  (c : rd_config) (dk : key) (d : dist) (tail : list N) (crk : key) (cr : contrib) (relayer : key) (idx : N) (tail' : list N) : Prop := {
  dg_metas : exists mc md mcr mtk mmint mrel mtok atas rest,
      cx_metas cx = mc :: md :: mcr :: mtk :: mmint :: mrel :: mtok :: atas ++ rest /\
      mkey md = dk /\ mwritable md = true /\ mkey mcr = crk /\ mkey mtk = KTok2z dk /\ mkey mmint = KMint /\
      mkey mrel = relayer /\ mwritable mrel = true /\ mkey mtok = KToken /\
      map mkey atas = map (fun e => KAta (fst e) KMint) (cr_recipients cr) /\
      owner (get W (mkey mc)) = KRd /\ data (get W (mkey mc)) = DConfig c;
  dg_unpaused : c_paused c = false;
  dg_dist_owner : owner (get W dk) = KRd;
  dg_dist_data : data (get W dk) = DDist d tail;
  dg_remaining_count : d_distributed_count d < d_total_contributors d;
  dg_swept : d_swept d = true;
  dg_index : leaf_index p = Some idx;
  dg_tail' : process_leaf tail (d_rew_start d) (d_rew_end d) idx = Ok tail';
  dg_contrib_owner : owner (get W crk) = KRd;
  dg_contrib_data : data (get W crk) = DContrib cr;
  dg_us_valid : us <= US32_MAX;
  dg_ebr_valid : ebr <= US32_MAX;
  dg_root : root_from_leaf p PRE_REWARD (LReward (cr_service cr) us ebr) = d_rewards_root d;
  dg_total : d_prepaid_2z d + d_swept_2z d < two64;
  dg_recipients_nonempty : cr_recipients cr <> []
}.

(* (b) amounts and effect, for distributions whose stored community burn rate is a valid UnitShare32 and contributors
   whose recipient shares sum to at most 100 % (both established by the instructions that write these fields) *)
Record distribute_outcome (W W' : world) (us ebr : N) (dk : key) (d : dist) (tail' : list N) (cr : contrib) (relayer : key)
  (share_amt burn0 transferred burn : N) (s0 : token_acct) (m : mint_acct) : Prop := {
  do_share : share_amt = floor_share US32_MAX us (d_prepaid_2z d + d_swept_2z d);
  do_share_le : share_amt <= d_prepaid_2z d + d_swept_2z d;
  do_burn0 : burn0 = floor_share US32_MAX (N.max ebr (d_cbr d)) share_amt;
  do_burn0_le : burn0 <= share_amt;
  do_transferred : transferred = sumN (amounts_k (share_amt - burn0) (cr_recipients cr));
  do_transferred_le : transferred <= share_amt - burn0;
  do_burn : burn = share_amt - transferred;
  do_burn_ge : burn0 <= burn;
  do_conserves : burn + transferred = share_amt;
  do_custody : as_token W (KTok2z dk) = Ok s0 /\ t_owner s0 = dk /\ t_mint s0 = KMint /\ share_amt <= t_amount s0;
  do_mint : as_mint W KMint = Ok m;
  do_recipient_atas : forall e, In e (cr_recipients cr) -> exists t, as_token W (KAta (fst e) KMint) = Ok t;
  do_relay_funds : d_relay d <= lamports (get W dk) + (if key_eqb relayer dk then d_relay d else 0);
  do_distinct : dk <> KTok2z dk /\ dk <> KMint;
  do_now : now W' = now W;
  do_effect : forall k, get W' k =
     (if key_eqb k dk then (get W dk) <| data := DDist (dr_dist d transferred burn) tail' |>
      else if key_eqb k (KTok2z dk) then (get W k) <| data := DToken (s0 <| t_amount := t_amount s0 - share_amt |>) |>
      else if key_eqb k KMint then (get W k) <| data := DMint (m <| m_supply := m_supply m - burn |>) |>
      else tok_add (get W k) (recv (share_amt - burn0) (cr_recipients cr) k))
       <| lamports := lamports (get W k) + (if key_eqb relayer k then d_relay d else 0) - (if key_eqb dk k then d_relay d else 0) |>
}.

Lemma sum_shares_each l : sumN (map snd l) <= US16_MAX -> Forall (fun e : key * N => snd e <= US16_MAX) l.
Proof. induction l as [|e tl IH]; cbn [map sumN]; intros H; constructor; [lia|apply IH; lia]. Qed.
Lemma amounts_k_sum_le remaining (recips : list (key * N)) :
  sumN (map snd recips) <= US16_MAX -> sumN (amounts_k remaining recips) <= remaining.
Proof.
  intros H. unfold amounts_k. rewrite <- (map_map snd (fun s => floor_share US16_MAX s remaining)).
  apply sum_floor_le; [unfold US16_MAX; lia|exact H].
Qed.

Theorem rd_distribute_rewards_spec cx W us ebr p W' : rd_distribute_rewards cx W us ebr p = Ok W' ->
  exists c dk d tail crk cr relayer idx tail',
    distribute_guards cx W us ebr p c dk d tail crk cr relayer idx tail' /\
    (d_cbr d <= US32_MAX -> sumN (map snd (cr_recipients cr)) <= US16_MAX ->
     exists share_amt burn0 transferred burn s0 m,
       distribute_outcome W W' us ebr dk d tail' cr relayer share_amt burn0 transferred burn s0 m).
Proof.
  unfold rd_distribute_rewards, leaf_idx. intros H. inv_all. norm_bool.
  match goal with H : rd_zc_config _ _ _ = Ok _ |- _ => apply rd_zc_config_ok in H; destruct H as (mc & Ems & -> & _ & Hoc & Hdc) end.
  match goal with H : rd_zc_dist _ _ _ = Ok _ |- _ => apply rd_zc_dist_ok in H; destruct H as (md & -> & -> & Hwd & Hod & Hdd) end.
  match goal with H : rd_zc_contrib _ _ _ = Ok _ |- _ => apply rd_zc_contrib_ok in H; destruct H as (mcr & -> & -> & _ & Hocr & Hdcr) end.
  match goal with H : next_2z_token_pda _ _ _ = Ok _ |- _ => apply next_2z_token_pda_ok in H; destruct H as (mtk & -> & Hktk & ->) end.
  match goal with H : next_2z_mint _ _ = Ok _ |- _ => apply next_2z_mint_ok in H; destruct H as (mmint & -> & Hkmint) end.
  match goal with H : next_account _ _ _ _ _ = Ok _ |- _ => apply next_account_ok in H; destruct H as (-> & _ & Hwrel & _) end.
  match goal with H : next_token_program _ _ = Ok _ |- _ => apply next_token_program_ok in H; destruct H as (mtok & -> & Hktok) end.
  specialize (Hwd eq_refl). specialize (Hwrel eq_refl).
  match goal with H : checked_add _ _ _ = Some _ |- _ => apply checked_add_some in H; destruct H as [-> Htot] end.
  match goal with H : Nat.eqb _ 0 = false |- _ => rename H into Hne end.
  proj_simpl.
  set (dk := mkey md) in *. set (total := d_prepaid_2z _ + d_swept_2z _) in *.
  match goal with H : process_leaf _ _ _ _ = Ok ?t |- _ => rename H into Hpl; rename t into tail' end.
  match goal with H : us32_mul_scalar us total = Some ?x |- _ => rename H into Hshare; rename x into share_amt end.
  match goal with H : us32_mul_scalar (N.max _ _) _ = Some ?x |- _ => rename H into Hb0; rename x into burn0 end.
  match goal with H : distribute_loop _ _ _ ?rs _ _ _ _ _ = Ok (?W1, ?tr, _) |- _ =>
    rename H into Hloop; rename W1 into W1_; rename tr into tr_ end.
  match goal with H : put_dist _ _ _ _ _ = Ok ?X |- _ => rename H into Hput; rename X into W2_ end.
  match goal with H : tok_burn _ _ _ _ _ _ _ = Ok ?X |- _ => rename H into Hburn; rename X into W3_ end.
  match goal with H : credit _ _ _ _ = Ok ?X |- _ => rename H into Hcredit; rename X into W4_ end.
  rename H into Hdebit.
  lazymatch goal with
  | _ : data (get W (mkey mc)) = DConfig ?c, _ : data (get W dk) = DDist ?d ?tail, _ : data (get W (mkey mcr)) = DContrib ?cr,
    _ : leaf_index p = Some ?idx, _ : mwritable ?mrel = true, _ : mwritable md = true |- _ =>
    match mrel with md => fail | _ => exists c, dk, d, tail, (mkey mcr), cr, (mkey mrel), idx, tail'; set (relayer := mkey mrel) in * end end.
  assert (share_amt = floor_share US32_MAX us total /\ share_amt <= total /\ share_amt < two64) as (Eshare & Hsl & Hs64).
  { unfold us32_mul_scalar in Hshare. rewrite mul_scalar_faithful in Hshare by (unfold US32_MAX, two64 in *; lia).
    destruct (N.ltb_spec (floor_share US32_MAX us total) two64); [|discriminate]. injection Hshare as <-.
    pose proof (floor_share_le US32_MAX us total ltac:(unfold US32_MAX; lia) ltac:(assumption)). auto. }
  (* the loop, for any recipient list with u64 shares *)
  assert (wsub64 share_amt burn0 < two64) as Hrem64 by (apply wsub_lt; discriminate).
  assert (forall rk, KTok2z dk <> KAta rk KMint) as Hsrc by (intros rk; discriminate).
  assert (cr_recipients c <> []) as Hnonempty by (destruct (cr_recipients c); [discriminate|discriminate]).
  split.
  - (* guards *)
    destruct (distribute_loop_metas _ _ _ _ _ _ _ _ _ _ _ _ Hloop) as (atas & -> & Hatas).
    constructor; try assumption; try lia.
    exists mc, md, mcr, mtk, mmint, m, mtok, atas. eexists. repeat split; eauto.
  - intros Hcbr Hsum.
    assert (burn0 = floor_share US32_MAX (N.max ebr (d_cbr d)) share_amt /\ burn0 <= share_amt) as (Eb0 & Hb0le).
    { destruct (mul_scalar_spec US32_MAX (N.max ebr (d_cbr d)) share_amt) as (E & L & _);
        try (unfold US32_MAX, two64 in *; lia). unfold us32_mul_scalar in Hb0. rewrite E in Hb0. injection Hb0 as <-. auto. }
    assert (wsub64 share_amt burn0 = share_amt - burn0) as Erem by (apply wsub_small; assumption).
    rewrite Erem in *. set (remaining := share_amt - burn0) in *.
    pose proof (amounts_k_sum_le remaining _ Hsum) as Hamts.
    change 0 with (0 mod two64) in Hloop at 1.
    apply distribute_loop_spec in Hloop; try assumption;
      [|eapply Forall_impl; [|apply (sum_shares_each _ Hsum)]; cbn; intros; unfold US16_MAX, two64 in *; lia].
    cbv zeta in Hloop. destruct Hloop as (_ & Etr & Hn1 & Hatas & Hs0 & Hg1).
    destruct (Hs0 Hnonempty) as (s0 & Hs0tok & Hs0le & Hs0own).
    set (amts := amounts_k remaining (cr_recipients c)) in *.
    rewrite N.add_0_l, N.mod_small in Etr by lia. subst tr_.
    assert (wsub64 remaining (sumN amts) = remaining - sumN amts) as E1 by (apply wsub_small; lia).
    assert (wadd64 burn0 (remaining - sumN amts) = share_amt - sumN amts) as E2
      by (unfold wadd64; rewrite wadd_small by lia; lia).
    rewrite E1, E2 in *.
    apply put_dist_spec in Hput. destruct Hput as (_ & _ & Hn2 & Hg2).
    pose proof (tok_burn_fields _ _ _ _ _ _ _ _ Hburn) as Hf3.
    apply tok_burn_spec in Hburn. destruct Hburn as (_ & _ & _ & _ & s2 & m2 & Hs2 & Hm2' & Hble & Hs2mint & Hs2own & _ & Hn3 & Hg3).
    apply credit_spec in Hcredit. destruct Hcredit as (_ & Hn4 & Hg4).
    apply debit_spec in Hdebit. destruct Hdebit as (_ & Hrelay & Hn5 & Hg5).
    (* the custody account and the mint as the burn sees them *)
    apply as_token_ok in Hs2. destruct Hs2 as [Ds2 Os2]. apply as_mint_ok in Hm2'. destruct Hm2' as [Dm2 Om2].
    assert (dk <> KTok2z dk) as Ndt.
    { intros E. rewrite <- E in Ds2. rewrite Hg2, key_eqb_refl in Ds2. cbn in Ds2. discriminate. }
    assert (dk <> KMint) as Ndm.
    { intros E. rewrite <- E in Dm2. rewrite Hg2, key_eqb_refl in Dm2. cbn in Dm2. discriminate. }
    pose proof Hs0tok as Hs0'. apply as_token_ok in Hs0'. destruct Hs0' as [Ds0 Os0].
    rewrite Hg2, (key_eqb_neq dk (KTok2z dk)), Hg1, key_eqb_refl, (tok_sub_token _ _ _ Ds0) in Ds2, Os2 by assumption.
    cbn in Ds2. injection Ds2 as <-. proj_simpl.
    rewrite Hg2, (key_eqb_neq dk KMint), Hg1 in Dm2, Om2 by assumption.
    change (key_eqb (KTok2z dk) KMint) with false in Dm2, Om2. cbv iota in Dm2, Om2.
    rewrite recv_not_ata, tok_add_0 in Dm2, Om2 by (intros rk; discriminate).
    exists share_amt, burn0, (sumN amts), (share_amt - sumN amts), s0, m2.
    constructor; try assumption; try reflexivity; try lia.
    + repeat split; try assumption. lia.
    + apply as_mint_ok. auto.
    + rewrite Hg4, (key_eqb_sym relayer dk) in Hrelay.
      destruct (key_eqb_spec dk relayer) as [Er|Er].
      * rewrite <- Er in Hrelay. cbn in Hrelay. rewrite (proj1 (Hf3 dk)), Hg2, key_eqb_refl in Hrelay. cbn in Hrelay.
        rewrite Hg1, (key_eqb_neq (KTok2z dk) dk), (proj1 (tok_add_fields _ _)) in Hrelay by congruence.
        rewrite <- Er, key_eqb_refl. lia.
      * rewrite (proj1 (Hf3 dk)), Hg2, key_eqb_refl in Hrelay. cbn in Hrelay.
        rewrite Hg1, (key_eqb_neq (KTok2z dk) dk), (proj1 (tok_add_fields _ _)) in Hrelay by congruence.
        rewrite (key_eqb_neq relayer dk) by congruence. lia.
    + auto.
    + assert (HF : forall k0, lamports (get W3_ k0) = lamports (get W k0) /\ owner (get W3_ k0) = owner (get W k0) /\
                              alen (get W3_ k0) = alen (get W k0)).
      { intros k0. destruct (Hf3 k0) as (-> & -> & ->). rewrite Hg2.
        destruct (key_eqb_spec dk k0) as [<-|]; cbn; rewrite Hg1.
        - rewrite (key_eqb_neq (KTok2z dk) dk) by congruence. apply tok_add_fields.
        - destruct (key_eqb_spec (KTok2z dk) k0) as [<-|]; [apply tok_sub_fields|apply tok_add_fields]. }
      assert (HD : forall k0, data (get W3_ k0) =
                if key_eqb k0 dk then DDist (dr_dist d (sumN amts) (share_amt - sumN amts)) tail'
                else if key_eqb k0 (KTok2z dk) then DToken (s0 <| t_amount := t_amount s0 - share_amt |>)
                else if key_eqb k0 KMint then DMint (m2 <| m_supply := m_supply m2 - (share_amt - sumN amts) |>)
                else data (tok_add (get W k0) (recv remaining (cr_recipients c) k0))).
      { intros k0. rewrite Hg3, (key_eqb_sym k0 dk), (key_eqb_sym k0 (KTok2z dk)), (key_eqb_sym k0 KMint).
        destruct (key_eqb_spec (KTok2z dk) k0) as [<-|Nt].
        - rewrite (key_eqb_neq dk (KTok2z dk)) by assumption.
          assert (t_amount s0 - sumN amts - (share_amt - sumN amts) = t_amount s0 - share_amt) as Ea by lia.
          cbn [data RecordSet.set]. proj_simpl. rewrite Ea. destruct s0; reflexivity.
        - destruct (key_eqb_spec KMint k0) as [<-|Nm].
          + rewrite (key_eqb_neq dk KMint) by assumption. reflexivity.
          + rewrite Hg2. destruct (key_eqb_spec dk k0) as [<-|Nd]; [reflexivity|].
            rewrite Hg1, (key_eqb_neq (KTok2z dk) k0) by assumption. reflexivity. }
      clearbody dk relayer. intros k. rewrite Hg5, !Hg4.
      apply acct_ext.
      * destruct (key_eqb_spec dk k) as [<-|Nd].
        -- cbn. destruct (key_eqb_spec relayer dk) as [->|Nr]; cbn; rewrite (proj1 (HF _)); lia.
        -- destruct (key_eqb_spec relayer k) as [<-|Nr]; cbn; rewrite (proj1 (HF _)); lia.
      * transitivity (owner (get W3_ k)).
        { destruct (key_eqb_spec dk k) as [<-|Nd]; cbn; [destruct (key_eqb_spec relayer dk) as [->|]; reflexivity|].
          destruct (key_eqb_spec relayer k) as [<-|Nr]; reflexivity. }
        rewrite (proj1 (proj2 (HF _))). cbn.
        destruct (key_eqb_spec k dk) as [->|]; [reflexivity|]. destruct (key_eqb_spec k (KTok2z dk)) as [->|]; [reflexivity|].
        destruct (key_eqb_spec k KMint) as [->|]; [reflexivity|]. symmetry. apply tok_add_fields.
      * transitivity (alen (get W3_ k)).
        { destruct (key_eqb_spec dk k) as [<-|Nd]; cbn; [destruct (key_eqb_spec relayer dk) as [->|]; reflexivity|].
          destruct (key_eqb_spec relayer k) as [<-|Nr]; reflexivity. }
        rewrite (proj2 (proj2 (HF _))). cbn.
        destruct (key_eqb_spec k dk) as [->|]; [reflexivity|]. destruct (key_eqb_spec k (KTok2z dk)) as [->|]; [reflexivity|].
        destruct (key_eqb_spec k KMint) as [->|]; [reflexivity|]. symmetry. apply tok_add_fields.
      * transitivity (data (get W3_ k)).
        { destruct (key_eqb_spec dk k) as [<-|Nd]; cbn; [destruct (key_eqb_spec relayer dk) as [->|]; reflexivity|].
          destruct (key_eqb_spec relayer k) as [<-|Nr]; reflexivity. }
        rewrite HD. cbn.
        destruct (key_eqb_spec k dk) as [->|]; [reflexivity|]. destruct (key_eqb_spec k (KTok2z dk)) as [->|]; [reflexivity|].
        destruct (key_eqb_spec k KMint) as [->|]; reflexivity.
Qed.

Lemma recv_single remaining (recips : list (key * N)) rk s :
  NoDup (map fst recips) -> In (rk, s) recips -> recv remaining recips (KAta rk KMint) = floor_share US16_MAX s remaining.
Proof.
  unfold recv. induction recips as [|[rk' s'] tl IH]; cbn [map sumN fst snd In]; intros Hnd Hin; [contradiction|].
  inversion Hnd as [|? ? Hni Hnd']; subst. destruct Hin as [E|Hin].
  - injection E as -> ->. rewrite key_eqb_refl.
    assert (sumN (map (fun e : key * N => if key_eqb (KAta (fst e) KMint) (KAta rk KMint) then floor_share US16_MAX (snd e) remaining else 0) tl) = 0) as ->; [|lia].
    clear IH Hnd Hnd'. induction tl as [|e tl IH]; cbn [map sumN]; [reflexivity|].
    rewrite IH by (intros X; apply Hni; right; exact X).
    rewrite key_eqb_neq; [reflexivity|]. intros E. injection E as E. apply Hni. left. exact E.
  - rewrite IH by assumption. rewrite key_eqb_neq; [lia|]. intros E. injection E as ->. apply Hni.
    change rk with (fst (rk, s)). apply in_map. exact Hin.
Qed.
Lemma recv_total remaining (recips : list (key * N)) :
  NoDup (map fst recips) -> sumN (map (fun e => recv remaining recips (KAta (fst e) KMint)) recips) = sumN (amounts_k remaining recips).
Proof.
  intros Hnd. unfold amounts_k. f_equal. apply map_ext_in. intros [rk s] Hin. cbn [fst snd]. apply recv_single; assumption.
Qed.

Lemma recv_zero remaining (recips : list (key * N)) k :
  (forall e, In e recips -> k <> KAta (fst e) KMint) -> recv remaining recips k = 0.
Proof.
  unfold recv. induction recips as [|e tl IH]; cbn [map sumN]; intros H5; [reflexivity|].
  rewrite IH by (intros e' He'; apply H5; right; exact He').
  rewrite key_eqb_neq; [reflexivity|]. intros X. apply (H5 e); [left; reflexivity|congruence].
Qed.

Section DistributeCorollaries.
  Variables (cx : ctx) (W W' : world) (us ebr : N) (p : proof)
    (c : rd_config) (dk : key) (d : dist) (tail : list N) (crk : key) (cr : contrib) (relayer : key) (idx : N) (tail' : list N)
    (share_amt burn0 transferred burn : N) (s0 : token_acct) (m : mint_acct).
  Hypothesis G : distribute_guards cx W us ebr p c dk d tail crk cr relayer idx tail'.
  Hypothesis O : distribute_outcome W W' us ebr dk d tail' cr relayer share_amt burn0 transferred burn s0 m.
  Let E := do_effect _ _ _ _ _ _ _ _ _ _ _ _ _ _ _ O.
  Let remaining := share_amt - burn0.

  (* C11: the relayer is paid exactly the fee snapshotted in the distribution, out of the distribution account *)
  Theorem distribute_lamports k :
    lamports (get W' k) = lamports (get W k) + (if key_eqb relayer k then d_relay d else 0) - (if key_eqb dk k then d_relay d else 0) /\
    owner (get W' k) = owner (get W k) /\ alen (get W' k) = alen (get W k).
  Proof.
    rewrite E. cbn. split; [reflexivity|].
    destruct (key_eqb_spec k dk) as [->|]; [cbn; auto|]. destruct (key_eqb_spec k (KTok2z dk)) as [->|]; [cbn; auto|].
    destruct (key_eqb_spec k KMint) as [->|]; [cbn; auto|]. split; apply tok_add_fields.
  Qed.
  Theorem distribute_relay_paid : relayer <> dk ->
    lamports (get W' relayer) = lamports (get W relayer) + d_relay d /\
    lamports (get W' dk) = lamports (get W dk) - d_relay d /\ d_relay d <= lamports (get W dk).
  Proof.
    intros Hne. rewrite (proj1 (distribute_lamports relayer)), (proj1 (distribute_lamports dk)), !key_eqb_refl,
      (key_eqb_neq relayer dk), (key_eqb_neq dk relayer) by congruence.
    pose proof (do_relay_funds _ _ _ _ _ _ _ _ _ _ _ _ _ _ _ O) as Hf. rewrite (key_eqb_neq relayer dk) in Hf by assumption. lia.
  Qed.

  (* the distribution's books: exactly the transferred and the burned amounts, one more leaf counted *)
  Theorem distribute_dist_after :
    data (get W' dk) = DDist (dr_dist d transferred burn) tail' /\
    d_distributed_2z (dr_dist d transferred burn) = wadd64 (d_distributed_2z d) transferred /\
    d_burned_2z (dr_dist d transferred burn) = wadd64 (d_burned_2z d) burn /\
    d_distributed_count (dr_dist d transferred burn) = wadd32 (d_distributed_count d) 1.
  Proof. rewrite E, key_eqb_refl. cbn. auto. Qed.

  (* the custody account loses exactly floor(unit_share x total / 10^9) *)
  Theorem distribute_custody_after :
    as_token W (KTok2z dk) = Ok s0 /\ as_token W' (KTok2z dk) = Ok (s0 <| t_amount := t_amount s0 - share_amt |>) /\
    share_amt <= t_amount s0 /\ share_amt = floor_share US32_MAX us (d_prepaid_2z d + d_swept_2z d).
  Proof.
    destruct (do_custody _ _ _ _ _ _ _ _ _ _ _ _ _ _ _ O) as (H1 & _ & _ & H4).
    destruct (do_distinct _ _ _ _ _ _ _ _ _ _ _ _ _ _ _ O) as (N1 & N2).
    split; [assumption|]. split; [|split; [assumption|exact (do_share _ _ _ _ _ _ _ _ _ _ _ _ _ _ _ O)]].
    apply as_token_ok in H1. destruct H1 as [D Ow]. apply as_token_ok.
    rewrite E, (key_eqb_neq (KTok2z dk) dk), key_eqb_refl by congruence. cbn. auto.
  Qed.
  (* the mint's supply drops by exactly the burn *)
  Theorem distribute_mint_after :
    as_mint W KMint = Ok m /\ as_mint W' KMint = Ok (m <| m_supply := m_supply m - burn |>) /\
    burn = share_amt - transferred /\ burn + transferred = share_amt /\ burn0 <= burn /\
    burn0 = floor_share US32_MAX (N.max ebr (d_cbr d)) share_amt.
  Proof.
    pose proof (do_mint _ _ _ _ _ _ _ _ _ _ _ _ _ _ _ O) as H1.
    destruct (do_distinct _ _ _ _ _ _ _ _ _ _ _ _ _ _ _ O) as (N1 & N2).
    split; [assumption|]. split.
    { apply as_mint_ok in H1. destruct H1 as [D Ow]. apply as_mint_ok.
      rewrite E, (key_eqb_neq KMint dk) by congruence. change (key_eqb KMint (KTok2z dk)) with false. cbn. auto. }
    split; [exact (do_burn _ _ _ _ _ _ _ _ _ _ _ _ _ _ _ O)|]. split; [exact (do_conserves _ _ _ _ _ _ _ _ _ _ _ _ _ _ _ O)|].
    split; [exact (do_burn_ge _ _ _ _ _ _ _ _ _ _ _ _ _ _ _ O)|exact (do_burn0 _ _ _ _ _ _ _ _ _ _ _ _ _ _ _ O)].
  Qed.
  (* every other account: token accounts gain what the loop sent to them (recipients may repeat), nothing else changes *)
  Theorem distribute_other_after k : k <> dk -> k <> KTok2z dk -> k <> KMint ->
    get W' k = (tok_add (get W k) (recv remaining (cr_recipients cr) k))
                 <| lamports := lamports (get W k) + (if key_eqb relayer k then d_relay d else 0) |>.
  Proof.
    intros H1 H2 H3. rewrite E, (key_eqb_neq k dk), (key_eqb_neq k (KTok2z dk)), (key_eqb_neq k KMint) by assumption.
    apply acct_ext; cbn; try reflexivity.
    rewrite (key_eqb_neq dk k) by congruence. lia.
  Qed.
  Theorem distribute_recipient_after rk : KAta rk KMint <> dk -> forall t, as_token W (KAta rk KMint) = Ok t ->
    as_token W' (KAta rk KMint) = Ok (t <| t_amount := t_amount t + recv remaining (cr_recipients cr) (KAta rk KMint) |>).
  Proof.
    intros Hne t Ht. apply as_token_ok in Ht. destruct Ht as [D Ow]. apply as_token_ok.
    rewrite distribute_other_after by (try assumption; discriminate). rewrite (tok_add_token _ _ _ D). cbn. auto.
  Qed.
  (* with pairwise distinct recipients each one receives exactly floor(share_i x remainder / 10 000) *)
  Theorem distribute_recipient_exact rk s : NoDup (map fst (cr_recipients cr)) -> In (rk, s) (cr_recipients cr) ->
    exists t, as_token W (KAta rk KMint) = Ok t /\
      (KAta rk KMint <> dk -> as_token W' (KAta rk KMint) = Ok (t <| t_amount := t_amount t + floor_share US16_MAX s remaining |>)).
  Proof.
    intros Hnd Hin. destruct (do_recipient_atas _ _ _ _ _ _ _ _ _ _ _ _ _ _ _ O _ Hin) as (t & Ht). cbn [fst] in Ht.
    exists t. split; [assumption|]. intros Hne. rewrite <- (recv_single remaining _ _ _ Hnd Hin). apply distribute_recipient_after; assumption.
  Qed.
  Theorem distribute_frame k : k <> dk -> k <> KTok2z dk -> k <> KMint -> k <> relayer ->
    (forall e, In e (cr_recipients cr) -> k <> KAta (fst e) KMint) -> get W' k = get W k.
  Proof.
    intros H1 H2 H3 H4 H5. rewrite distribute_other_after, (key_eqb_neq relayer k) by congruence.
    rewrite (recv_zero remaining _ k H5).
    rewrite tok_add_0. apply acct_ext; cbn; try reflexivity. lia.
  Qed.
  (* conservation: every token that leaves the custody account is transferred to a recipient or burned *)
  Theorem distribute_conservation :
    transferred = sumN (amounts_k remaining (cr_recipients cr)) /\ burn + transferred = share_amt /\ transferred <= remaining /\
    (NoDup (map fst (cr_recipients cr)) ->
       sumN (map (fun e => recv remaining (cr_recipients cr) (KAta (fst e) KMint)) (cr_recipients cr)) = transferred).
  Proof.
    split; [exact (do_transferred _ _ _ _ _ _ _ _ _ _ _ _ _ _ _ O)|]. split; [exact (do_conserves _ _ _ _ _ _ _ _ _ _ _ _ _ _ _ O)|].
    split; [exact (do_transferred_le _ _ _ _ _ _ _ _ _ _ _ _ _ _ _ O)|].
    intros Hnd. rewrite (do_transferred _ _ _ _ _ _ _ _ _ _ _ _ _ _ _ O). apply recv_total. assumption.
  Qed.
  (* the reward leaf is the one in the tree at the claimed index *)
  Theorem distribute_leaf_in_tree L : L <> [] -> d_rewards_root d = tree_root PRE_REWARD L ->
    nth_error L (N.to_nat idx) = Some (LReward (cr_service cr) us ebr).
  Proof.
    intros HL Hroot. pose proof (dg_root _ _ _ _ _ _ _ _ _ _ _ _ _ _ G) as Hr. rewrite Hroot in Hr.
    destruct (tree_root_sound PRE_REWARD L p _ HL Hr) as (i & Hi & Hn).
    rewrite (dg_index _ _ _ _ _ _ _ _ _ _ _ _ _ _ G) in Hi. injection Hi as <-. exact Hn.
  Qed.
End DistributeCorollaries.

(* non-vacuity *)
Definition ex_dist5d : dist := ex_dist5r <| d_rewards_final := true |> <| d_swept := true |> <| d_prepaid_2z := 4000 |>
  <| d_swept_2z := 6000 |> <| d_cbr := 50000000 |> <| d_rew_start := 1 |> <| d_rew_end := 2 |>.
Definition ex_contrib : contrib := {| cr_manager := KUser 40; cr_service := KUser 22; cr_blocked := false;
                                      cr_recipients := [(KUser 31, 3333); (KUser 32, 6667)] |}.
Definition ex_distribute_world : world := ex_world [
  (KRdConfig, ex_acct (rent LEN_CONFIG_ALLOC) LEN_CONFIG_ALLOC (DConfig ex_cfg));
  (KRdDist 5, ex_acct (rent (LEN_DIST + 2) + 12000) (LEN_DIST + 2) (DDist ex_dist5d [0; 0]));
  (KRdContrib (KUser 22), ex_acct (rent LEN_CONTRIB) LEN_CONTRIB (DContrib ex_contrib));
  (KTok2z (KRdDist 5), ex_tok (KRdDist 5) 10000);
  (KMint, ex_mint 1000000);
  (KAta (KUser 31) KMint, ex_tok (KUser 31) 5);
  (KAta (KUser 32) KMint, ex_tok (KUser 32) 0)].
Definition ex_distribute_cx : ctx := ex_cx KRd [mk KRdConfig false false; mk (KRdDist 5) false true; mk (KRdContrib (KUser 22)) false false;
  mk (KTok2z (KRdDist 5)) false true; mk KMint false true; mk (KUser 7) false true; mk KToken false false;
  mk (KAta (KUser 31) KMint) false true; mk (KAta (KUser 32) KMint) false true].

Example rd_distribute_rewards_nonvacuous :
  d_cbr ex_dist5d <= US32_MAX /\ sumN (map snd (cr_recipients ex_contrib)) <= US16_MAX /\
  exists W', rd_distribute_rewards ex_distribute_cx ex_distribute_world 600000000 100000000 (proof_for PRE_REWARD ex_rewards 1) = Ok W' /\
    data (get W' (KRdDist 5)) = DDist (dr_dist ex_dist5d 5399 601) [0; 2] /\
    lamports (get W' (KRdDist 5)) = rent (LEN_DIST + 2) + 6000 /\ lamports (get W' (KUser 7)) = 6000 /\
    as_token W' (KTok2z (KRdDist 5)) = Ok {| t_mint := KMint; t_owner := KRdDist 5; t_amount := 4000 |} /\
    as_mint W' KMint = Ok {| m_supply := 999399; m_decimals := 8 |} /\
    as_token W' (KAta (KUser 31) KMint) = Ok {| t_mint := KMint; t_owner := KUser 31; t_amount := 1804 |} /\
    as_token W' (KAta (KUser 32) KMint) = Ok {| t_mint := KMint; t_owner := KUser 32; t_amount := 3600 |} /\
    (* the same leaf cannot be distributed twice; a forged share is rejected *)
    is_ok (rd_distribute_rewards ex_distribute_cx W' 600000000 100000000 (proof_for PRE_REWARD ex_rewards 1)) = false /\
    is_ok (rd_distribute_rewards ex_distribute_cx ex_distribute_world 600000001 100000000 (proof_for PRE_REWARD ex_rewards 1)) = false.
Proof. split; [vm_compute; discriminate|]. split; [vm_compute; discriminate|].
  eexists. split; [vm_compute; reflexivity|]. vm_compute. repeat split. Qed.

(* =================================================================================================================
   INDEX of Lemmas_RdSpecs{,2,3,4,5}.v  (Require Import Lemmas_RdSpecs5 gives all of them; all closed under the global context)
   Conventions: `prim .. = Ok W' -> guards /\ now W' = now W /\ forall k, get W' k = <function of W, k>`.
   Instruction specs return a Record `<ix>_facts` (guards + pointwise effect `.._effect`); corollaries live in Sections
   and take the facts record as last argument.

   -- Lemmas_RdSpecs.v (world, primitives) ------------------------------------------------------------------------
   tactics inv_step/inv_all/ok_inj/norm_bool/keys_case/proj_simpl
   get_put, get_put_same, get_put_other, now_put      get (put W k a) k' = if key_eqb k k' then a else get W k'
   acct_ext, set_lamports_id, set_data_id, set_alen_id, set_tamount_id, key_eqb_sym, data_neq_keys, owner_neq_keys
   is_writable_in, is_signer_in, has_key_in            flags of a meta that occurs in the list
   next_account_ok, next_any_ok, rd_zc_{config,dist,journal,deposit,contrib}_ok, rd_verified_ok, require_unpaused_ok,
   next_2z_token_pda_ok, next_2z_mint_ok, next_token_program_ok      success => head meta, flags, KRd owner, typed data
   credit_spec          k gets +amt lamports, everything else identical (amt <> 0 -> writable)
   debit_spec           amt <= lamports; k gets -amt; (amt <> 0 -> writable /\ owned by the executing program)
   write_data_spec, put_dist_spec, resize_spec       writable, program-owned; exactly data / alen of k replaced
   cpi_metas_ok         callee known; every wanted meta known, writable/signer not escalated (or PDA-signed)
   sys_transfer_core_spec, sys_transfer_spec, sys_transfer_fields
                        from: signer, no data, System-owned (or amt = 0), amt <= lamports;
                        forall k, lamports' = lamports - [from = k] amt + [to = k] amt (covers from = to), rest identical
   as_token_ok, as_mint_ok, get_put_token
   tok_transfer_core_spec, tok_transfer_spec, tok_transfer_fields
                        src/dst token accounts of one mint, amt <= src balance, owner = auth; src = dst: world unchanged;
                        else src - amt, dst + amt (< 2^64 when amt <> 0), every other key identical; only `data` changes
   tok_burn_core_spec, tok_burn_spec, tok_burn_fields     account - amt, mint supply - amt (N-truncated), rest identical
   byte_bit, range_bit  bit b of byte pos / bit i of the bitmap starting at byte `start`
   process_leaf_spec    success <-> start <= end <= length /\ idx/8 < end-start /\ bit clear /\ tail' = that byte with the bit set
   process_leaf_fails_iff  fails <-> out of range \/ bit already set
   process_leaf_bits    length kept; byte_bit tail' pos b = byte_bit tail pos b || (pos, b) = (start + idx/8, idx mod 8)
   process_leaf_range_bits  bit idx clear before / set after; other indices of the window and all disjoint windows unchanged
   process_leaf_set_fails, process_leaf_once      a set bit is rejected; a leaf cannot be processed twice
   zeros_length, byte_bit_app_zeros, range_bit_app_zeros, range_bit_beyond, dist_len_app_zeros   appended bitmap is all clear
   dequeue_spec, dequeue_queue     ring dequeue = head slot with matching sol_in; queue reading abs r = f :: abs r'
   sw_dequeue_fills_spec, swap_dequeue_cpi_mock_spec    only the fills registry changes (DFills r'), reply (sol, z_out head, 1)
   swap_dequeue_cpi_rogue_spec, swap_dequeue_cpi_programs   scripted programs change nothing; only KSwapMock / KRogue run
   Examples: credit_debit_nonvacuous, sys_transfer_nonvacuous, tok_nonvacuous, process_leaf_nonvacuous, swap_dequeue_cpi_mock_nonvacuous

   -- Lemmas_RdSpecs2.v (C01, C10) -------------------------------------------------------------------------------
   rd_pay_debt_spec     success -> exists .., pay_debt_facts (fields pd_metas pd_unpaused pd_dist_owner pd_dist_data pd_debt_final
                        pd_deposit_owner pd_deposit_data pd_index pd_in_range pd_bit_clear pd_root pd_amount pd_journal_owner
                        pd_journal_data pd_distinct pd_tail' pd_now pd_effect)
   pay_debt_deposit_after / _journal_after / _dist_after / _frame / _lamports      the four rows of pd_effect
   pay_debt_rent_exempt amount <> 0 \/ rent-exempt before -> rent LEN_DEPOSIT <= lamports after
   pay_debt_bits        debt bit idx clear -> set, other indices and disjoint windows unchanged, length kept
   pay_debt_leaf_in_tree  debt root = tree_root PRE_DEBT L, L <> [] -> nth_error L idx = Some (LDebt (dp_node dp) amount)
   pay_debt_null_root_rejected   d_debt_root d <> null_hash
   rd_write_off_spec    success -> exists .., write_off_facts (wo_metas .. wo_cannot_pay wo_tail1 wo_tail2 wo_root wo_target_read
                        wo_target_epoch wo_target_unswept wo_target_final wo_unc_fits wo_unc_le_total wo_distinct wo_effect)
   write_off_no_lamports   forall k, lamports / owner / alen unchanged
   write_off_non_rd_frame  accounts not owned by KRd (token accounts, mints, wallets) are identical
   write_off_frame, write_off_deposit_after (+amount, < 2^64), write_off_target_after (+amount <= d_total_debt; alias facts),
   write_off_source_after (count + 1, both bitmaps; alias case), write_off_bits (disjoint windows), write_off_leaf_in_tree
   checked_add_some, checked_sub_some
   Examples: rd_pay_debt_nonvacuous (forged amount / re-indexed / other validator / double payment rejected),
             rd_write_off_nonvacuous (target = source and target = later epoch; then neither write-off nor payment again)

   -- Lemmas_RdSpecs3.v (C11; the three resizing instructions) ---------------------------------------------------
   sat_add_exact, sat_add_le, sat_mul_exact, sat_mul_le, sat_mul_mono_r
   grow_and_fund_spec   exists payer amt, grow_facts: amt = sat_add 2^64 more (rent (alen + extra) - lamports); payer signer,
                        System-owned (or amt = 0), amt <= lamports payer; dist: tail ++ zeros extra, alen + extra, + amt
   grow_dist_after, grow_payer_after, grow_frame
   covered a d          rent (alen a) + outstanding_relay d <= lamports a
   rd_finalize_rewards_spec -> finalize_rewards_facts;  finalize_rewards_dist_after (fr_dist, window, all clear),
   finalize_rewards_amount (amt = relay * k + (rent new_len - lamports) when no u64 saturation),
   finalize_rewards_payer_after, finalize_rewards_frame,
   finalize_rewards_cover_after    relay * k + rent new_len < 2^64 -> covered after (unconditional otherwise)
   rd_enable_write_off_spec -> enable_write_off_facts (ew_amt : amt = rent new_len - (lamports - outstanding_relay d));
   enable_write_off_dist_after, _payer_after, _frame,
   enable_write_off_cover_after    outstanding_relay d <= lamports before -> covered after  (exactly what is needed:)
   enable_write_off_cover_preserved, enable_write_off_cover_needs (payer <> dk, lamports < outstanding -> not covered after)
   rd_finalize_debt_spec -> finalize_debt_facts (fd_zero: only the flag; fd_nonzero: grow_facts with more = 0);
   finalize_debt_zero_after, finalize_debt_nonzero_after, finalize_debt_cover_after_zero (cover preserved),
   finalize_debt_cover_after_nonzero  d_rewards_final d = false -> rent new_len < 2^64 -> covered after
   finalize_debt_cover_without_invariant_refuted   WITNESS: rewards final before debt final => cover lost (unreachable state)
   Examples: rd_finalize_rewards_nonvacuous, rd_enable_write_off_nonvacuous, rd_finalize_debt_nonvacuous

   -- Lemmas_RdSpecs4.v (C05, C06) -------------------------------------------------------------------------------
   rd_withdraw_sol_spec -> withdraw_sol_facts (ws_sibling: TransferChecked z of KMint into KTok2z KRdSwapAuth; ws_effect)
   withdraw_sol_lamports (pointwise, dest may alias), withdraw_sol_journal_after (the four field updates),
   withdraw_sol_frame, withdraw_sol_dest_after (dest <> jk)
   rd_sweep_zero_spec   sweep_common guards; zero collectible debt: only d_swept and j_next_sweep change
   rd_sweep_spec        non-zero debt, any swap program: sweep_facts (sf_W2 world shown to the swap program, sf_cpi its answer,
                        sf_src/sf_dst token accounts, sf_tracked z <= tracked balance, sf_effect pointwise over the returned world)
   rd_sweep_full_spec   both branches in one statement
   rd_sweep_mock_spec   c_swap_program = KSwapMock: everything explicit in W (journal, distribution, fills ring, two token accounts)
   rd_sweep_mock_amounts  dk <> KRdSwapAuth: pool - debt, tracked balance - z, swap destination - z, custody + z,
                        j_next_sweep + 1, d_swept, d_swept_2z = z, no lamports move, z = z_out of the oldest fill (sol_in = debt)
   Examples: rd_withdraw_sol_nonvacuous, rd_sweep_nonvacuous (both branches)
   withdraw_sol_to_journal_moves_nothing_refuted, sweep_distribution_at_swap_authority_refuted   WITNESSES for the side conditions

   -- Lemmas_RdSpecs5.v (C02, C03, C11 relay fee) ----------------------------------------------------------------
   tok_add, tok_sub (+ algebra), amounts_k, recv (per-key total of the loop's transfers), recv_not_ata, recv_sum_le,
   recv_single (NoDup recipients: recv = floor(share * remaining / 10000)), recv_total, recv_zero
   distribute_loop_metas, distribute_loop_spec   the loop: consumed ATA metas, transferred = (acc + sum) mod 2^64,
                        custody - sum, every token account + recv, sum <= custody balance
   rd_distribute_rewards_spec  success -> distribute_guards /\ (d_cbr d <= 10^9 -> sum shares <= 10000 -> distribute_outcome):
                        share_amt = floor(us * (prepaid + swept) / 10^9), burn0 = floor(max(ebr, cbr) * share_amt / 10^9),
                        transferred = sum floors, burn = share_amt - transferred >= burn0, do_effect pointwise
   distribute_lamports, distribute_relay_paid, distribute_dist_after, distribute_custody_after (- share_amt),
   distribute_mint_after (supply - burn), distribute_other_after, distribute_recipient_after, distribute_recipient_exact,
   distribute_frame, distribute_conservation, distribute_leaf_in_tree
   Example: rd_distribute_rewards_nonvacuous (hypotheses satisfied; replay and forged share rejected)
   ================================================================================================================= *)
