From DZ Require Import Base Generated Swap_Ring.
Local Open Scope nat_scope.

(* tie to the crate's current constant (Generated.v is rewritten from the compiled crate on every run) *)
Lemma cap_is_generated : CAP = N.to_nat G_FILLS_CAPACITY /\ G_FILLS_REGISTRY_SIZE = (8 + 16 * G_FILLS_CAPACITY)%N.
Proof. split; reflexivity. Qed.

Lemma abs_length r : length (abs r) = count r.
Proof. unfold abs. rewrite map_length, seq_length. reflexivity. Qed.

Lemma ring_init_wf : ring_wf ring_init.
Proof. unfold ring_wf, ring_init, CAP; cbn. lia. Qed.
Lemma abs_init : abs ring_init = [].
Proof. reflexivity. Qed.

Lemma buy_refines r f : ring_wf r ->
  match buy r f, q_buy (abs r) f with
  | Some r', Some q' => ring_wf r' /\ abs r' = q'
  | None, None => True
  | _, _ => False end.
Proof.
  intros (Hl & Hh & Hc). unfold buy, q_buy. rewrite abs_length.
  destruct (Nat.eqb (count r) CAP) eqn:E; [exact I|].
  apply Nat.eqb_neq in E. unfold CAP in *. split.
  - unfold ring_wf, CAP; cbn [slots head count]. rewrite set_nth_length. lia.
  - unfold abs; cbn [slots head count]. rewrite seq_S, map_app. cbn [map]. f_equal.
    + apply map_ext_in. intros i Hi. apply in_seq in Hi.
      apply nth_set_nth_other. unfold CAP in *. intro Heq. lia.
    + f_equal. cbn [seq map]. unfold CAP in *. rewrite Nat.add_0_l. rewrite nth_set_nth_same; auto.
      rewrite Hl. apply Nat.mod_upper_bound. lia.
Qed.

Lemma dequeue_refines r sol : ring_wf r ->
  match dequeue r sol, q_dequeue (abs r) sol with
  | Some (r', z), Some (q', z') => ring_wf r' /\ abs r' = q' /\ z = z'
  | None, None => True
  | _, _ => False end.
Proof.
  intros (Hl & Hh & Hc). unfold dequeue, q_dequeue.
  destruct (Nat.eqb (count r) 0) eqn:E.
  - apply Nat.eqb_eq in E. unfold abs. rewrite E. cbn. exact I.
  - apply Nat.eqb_neq in E.
    assert (exists c, count r = S c) as [c Ec] by (destruct (count r); [lia|eauto]).
    assert (abs r = nth (head r) (slots r) empty_fill ::
                    map (fun i => nth ((head r + i) mod CAP) (slots r) empty_fill) (seq 1 c)) as Habs.
    { unfold abs. rewrite Ec. cbn [seq map]. f_equal. f_equal. unfold CAP in *. rewrite Nat.add_0_r, Nat.mod_small; lia. }
    rewrite Habs.
    destruct (N.eqb (sol_in (nth (head r) (slots r) empty_fill)) sol); [|exact I].
    split; [|split; [|reflexivity]].
    + unfold ring_wf, CAP in *; cbn [slots head count]. pose proof (Nat.mod_upper_bound (head r + 1) 8). lia.
    + unfold abs; cbn [slots head count]. rewrite Ec. replace (S c - 1) with c by lia.
      rewrite <- seq_shift, map_map. apply map_ext. intros i. f_equal.
      unfold CAP in *. rewrite Nat.add_mod_idemp_l by lia. f_equal. lia.
Qed.

(* one step: same observable, abstraction commutes, well-formedness preserved *)
Lemma step_refines r o : ring_wf r ->
  let '(r', res) := ring_step r o in let '(q', res') := queue_step (abs r) o in
  ring_wf r' /\ abs r' = q' /\ res = res'.
Proof.
  intros Hwf. destruct o as [sol z|sol]; cbn [ring_step queue_step].
  - pose proof (buy_refines r {| sol_in := sol; z_out := z |} Hwf) as H.
    destruct (buy r _) as [r'|], (q_buy (abs r) _) as [q'|]; try contradiction; intuition.
  - pose proof (dequeue_refines r sol Hwf) as H.
    destruct (dequeue r sol) as [[r' z]|], (q_dequeue (abs r) sol) as [[q' z']|]; try contradiction; intuition.
    subst; reflexivity.
Qed.

(* every operation sequence: the ring as coded is observably the list queue *)
Lemma run_refines ops : forall r, ring_wf r -> run ring_step r ops = run queue_step (abs r) ops.
Proof.
  induction ops as [|o ops IH]; intros r Hwf; cbn [run]; [reflexivity|].
  pose proof (step_refines r o Hwf) as H.
  destruct (ring_step r o) as [r' res], (queue_step (abs r) o) as [q' res'].
  destruct H as (Hwf' & Habs & Hres). subst. f_equal. apply IH. exact Hwf'.
Qed.

Theorem ring_refines_queue_all ops : run ring_step ring_init ops = run queue_step [] ops.
Proof. rewrite (run_refines ops ring_init ring_init_wf). reflexivity. Qed.

(* the queue specification read out: what the property says in words *)
Lemma queue_buy_refused_iff_full q sol z :
  snd (queue_step q (SBuy sol z)) = RFail <-> length q = CAP.
Proof. cbn. unfold q_buy. destruct (Nat.eqb (length q) CAP) eqn:E; cbn.
  - apply Nat.eqb_eq in E. tauto.
  - apply Nat.eqb_neq in E. split; [discriminate|contradiction]. Qed.
Lemma queue_deq_oldest q sol :
  queue_step q (SDeq sol) =
  match q with
  | f :: tl => if N.eqb (sol_in f) sol then (tl, ROkRet sol (z_out f) 1%N) else (q, RFail)
  | [] => (q, RFail) end.
Proof. destruct q as [|f tl]; cbn; [reflexivity|]. destruct (N.eqb (sol_in f) sol); reflexivity. Qed.
Lemma queue_buy_appends q sol z : length q <> CAP ->
  queue_step q (SBuy sol z) = (q ++ [{| sol_in := sol; z_out := z |}], ROk).
Proof. intros H. cbn. unfold q_buy. apply Nat.eqb_neq in H. rewrite H. reflexivity. Qed.

(* monitor and correspondence agree on the model's own traces *)
Fixpoint zip_trace (ops : list sop) (rs : list sres) : list (sop * sres) :=
  match ops, rs with o :: ot, r :: rt => (o, r) :: zip_trace ot rt | _, _ => [] end.

Lemma sres_eqb_refl a : sres_eqb a a = true.
Proof. destruct a; cbn; rewrite ?N.eqb_refl; reflexivity. Qed.

Lemma first_diff_self {S} (step : S -> sop -> S * sres) ops : forall s i,
  first_diff step s (zip_trace ops (run step s ops)) i = None.
Proof. induction ops as [|o ops IH]; intros s i; cbn; [reflexivity|].
  destruct (step s o) as [s' r] eqn:E. cbn. rewrite E, sres_eqb_refl. apply IH. Qed.

Theorem mon_C20_accepts_model ops :
  mon_C20 (zip_trace ops (run ring_step ring_init ops)) = None.
Proof. unfold mon_C20. rewrite ring_refines_queue_all. apply first_diff_self. Qed.

(* the pinned code (slot = fills_count) loses a fill *)
Definition c20_witness : list sop := [SBuy 1 10; SBuy 2 20; SDeq 1; SBuy 3 30; SDeq 2; SDeq 3]%N.
Lemma ring_pinned_refuted :
  run ring_step_pinned ring_init c20_witness <> run queue_step [] c20_witness /\
  run ring_step_pinned ring_init c20_witness = [ROk; ROk; ROkRet 1 10 1; ROk; RFail; ROkRet 3 30 1]%N /\
  run queue_step [] c20_witness = [ROk; ROk; ROkRet 1 10 1; ROk; ROkRet 2 20 1; ROkRet 3 30 1]%N.
Proof. vm_compute. repeat split; try reflexivity. intro H; discriminate H. Qed.

(* non-vacuity: a wrapped ring (head advanced, then filled up) is well-formed and reachable *)
Example ring_wrap_example :
  let ops := [SBuy 1 1; SBuy 2 2; SDeq 1; SDeq 2; SBuy 3 3; SBuy 4 4; SBuy 5 5; SBuy 6 6; SBuy 7 7; SBuy 8 8; SBuy 9 9; SBuy 10 10; SBuy 11 11]%N in
  run ring_step ring_init ops = [ROk; ROk; ROkRet 1 1 1; ROkRet 2 2 1; ROk; ROk; ROk; ROk; ROk; ROk; ROk; ROk; RFail]%N.
Proof. vm_compute. reflexivity. Qed.
