(* C13, two epochs: the distribute-rewards loops of two different (swept) epochs may be interleaved in ANY order.  They share
   the configuration, the mint, the contributors' records, recipients' token accounts and possibly the relayer.
   INDEX of Lemmas_C13{g,h,i,j,k}.v at the end of this file. *)
From DZ Require Import Base Keys Merkle BurnRate Shares Swap_Ring State World SwapDeq RD Passport Swap Exec Corr Builders
  Lemmas_Merkle Lemmas_Shares Lemmas_RdSpecs5 Lemmas_C13 Lemmas_C13b Lemmas_C13c Lemmas_C13f Lemmas_C13g Lemmas_C13i Lemmas_C13j.

(* joint invariant: each epoch's own loop invariant over the SAME mint state, and no 2Z token account can overflow by what
   BOTH epochs still hand out *)
Record dist2 (W : world) (e r : N) (root : hash) (pf : N -> proof) (crof : key -> contrib) (i : N) (rest : list rleaf)
  (d : dist) (tail : list N) (s : token_acct)
  (e' r' : N) (root' : hash) (pf' : N -> proof) (crof' : key -> contrib) (i' : N) (rest' : list rleaf)
  (d' : dist) (tail' : list N) (s' : token_acct) (c : rd_config) (m : mint_acct) : Prop := {
  d2_left : distribute_phase W e r root pf crof i rest c d tail s m;
  d2_right : distribute_phase W e' r' root' pf' crof' i' rest' c d' tail' s' m;
  d2_ne : e <> e';
  d2_atas : forall rk t, as_token W (KAta rk KMint) = Ok t ->
     t_amount t + rsum (dist_total d) rest + rsum (dist_total d') rest' < two64;
  (* the shared mint's supply covers what BOTH epochs may still burn (SPL Token: supply.checked_sub) *)
  d2_supply : rsum (dist_total d) rest + rsum (dist_total d') rest' <= m_supply m
}.

Lemma dist2_sym W e r root pf crof i rest d tail s e' r' root' pf' crof' i' rest' d' tail' s' c m :
  dist2 W e r root pf crof i rest d tail s e' r' root' pf' crof' i' rest' d' tail' s' c m ->
  dist2 W e' r' root' pf' crof' i' rest' d' tail' s' e r root pf crof i rest d tail s c m.
Proof. intros [A B C D S]. constructor; try assumption; [congruence| |lia]. intros rk t H. specialize (D rk t H). lia. Qed.

Lemma as_token_tok_add_inv W W' k n t1 :
  get W' k = tok_add (get W k) n -> as_token W' k = Ok t1 -> exists t, as_token W k = Ok t /\ t_amount t1 = t_amount t + n.
Proof.
  intros G H. apply as_token_ok in H. destruct H as (D & O). rewrite G in D, O. rewrite owner_tok_add in O.
  unfold tok_add in D. destruct (data (get W k)) eqn:E; try (rewrite E in D; discriminate D).
  cbn in D. injection D as <-. exists t. split; [apply as_token_ok; auto|reflexivity].
Qed.

Lemma t_amount_set (t : token_acct) x : t_amount (t <| t_amount := x |>) = x. Proof. reflexivity. Qed.
Lemma alen_purge_acct_le a : alen (purge_acct a) <= alen a.
Proof. unfold purge_acct. destruct (lamports a =? 0); cbn [alen empty_acct]; lia. Qed.

(* one distribution of epoch e keeps the joint invariant *)
Lemma dist2_step f W e r root pf crof i svc us ebr tl d tail s e' r' root' pf' crof' i' rest' d' tail' s' c m :
  dist2 W e r root pf crof i ((svc, us, ebr) :: tl) d tail s e' r' root' pf' crof' i' rest' d' tail' s' c m ->
  let T := dist_total d in let rc := cr_recipients (crof svc) in
  let d1 := dr_dist d (leaf_sent T (d_cbr d) us ebr rc) (leaf_burn T (d_cbr d) us ebr rc) in
  let tail1 := set_bit_at tail (d_rew_start d) i in
  let s1 := s <| t_amount := t_amount s - leaf_share T us |> in
  let m1 := m <| m_supply := m_supply m - leaf_burn T (d_cbr d) us ebr rc |> in
  exists W1,
    exec_tx W (rd_tx [KUser f] (RDistributeRewards us ebr (pf i)) (sdk_distribute_rewards e svc KMint (KUser r) (map fst rc))) = (W1, true) /\
    now W1 = now W /\
    dist2 W1 e r root pf crof (i + 1) tl d1 tail1 s1 e' r' root' pf' crof' i' rest' d' tail' s' c m1 /\
    (forall x, lamports (get W1 (KUser x)) = lamports (get W (KUser x)) + (if r =? x then d_relay d else 0)).
Proof.
  intros [PL PR Hne HA HS] T rc d1 tail1 s1 m1.
  destruct (distribute_step f W e r root pf crof i svc us ebr tl c d tail s m PL) as (W1 & Hx & Hn1 & Hg & P1).
  fold T rc d1 tail1 s1 m1 in P1.
  exists W1. split; [exact Hx|]. split; [exact Hn1|].
  destruct (dph_contribs _ _ _ _ _ _ _ _ _ _ _ _ _ PL svc us ebr (or_introl eq_refl)) as (_ & _ & _ & _ & _ & Csum). fold rc in Csum.
  pose proof (leaf_sent_le T (d_cbr d) us ebr rc Csum) as Hsl. unfold leaf_sent in Hsl.
  assert (leaf_rem T (d_cbr d) us ebr <= leaf_share T us) as Hrs by (unfold leaf_rem; lia).
  assert (forall k, k <> KRdDist e -> k <> KTok2z (KRdDist e) -> k <> KMint -> k <> KUser r -> (forall rk, k <> KAta rk KMint) ->
                    lamports (get W k) <> 0 -> get W1 k = get W k) as Gother.
  { intros k H1 H2 H3 H4 H5 H6. rewrite Hg, distribute_acct_other by assumption. apply purge_acct_id. assumption. }
  assert (forall x, lamports (get W1 (KUser x)) = lamports (get W (KUser x)) + (if r =? x then d_relay d else 0)) as Gu.
  { intros x. rewrite Hg, lamports_purge_acct. unfold distribute_acct. cbv zeta. rewrite lamports_set_lamports. cbn [key_eqb]. lia. }
  assert (forall x, alen (get W1 (KUser x)) <= alen (get W (KUser x))) as Gua.
  { intros x. rewrite Hg. eapply N.le_trans; [apply alen_purge_acct_le|]. unfold distribute_acct. cbv zeta. rewrite alen_set_lamports.
    cbn [key_eqb]. rewrite alen_tok_add. lia. }
  assert (forall rk, get W1 (KAta rk KMint) = purge_acct (tok_add (get W (KAta rk KMint)) (recv (leaf_rem T (d_cbr d) us ebr) rc (KAta rk KMint)))) as Ga.
  { intros rk. rewrite Hg, distribute_acct_ata by (intros; discriminate). reflexivity. }
  split; [|exact Gu].
  destruct PR as [q_cfg_owner q_cfg_data q_cfg_lam q_unpaused q_dist_owner q_dist_data q_epoch q_swept q_root q_total q_cbr q_count
    q_window q_fits q_clear q_proofs q_contribs q_custody q_mint q_atas q_relay q_relayer q_books].
  destruct q_custody as (Qs & Qo & Qm & Qa & Ql).
  assert (lamports (get W (KRdDist e')) <> 0) as Qdl by (pose proof (rent_pos (alen (get W (KRdDist e')))); lia).
  assert (get W1 (KRdDist e') = get W (KRdDist e')) as Gd'.
  { apply Gother; try discriminate; try assumption. intros X. injection X as X. congruence. }
  assert (get W1 (KTok2z (KRdDist e')) = get W (KTok2z (KRdDist e'))) as Gc'.
  { apply Gother; try discriminate; try assumption. intros X. injection X as X. congruence. }
  constructor; try assumption.
  - constructor; rewrite ?Gd'; try assumption.
    + rewrite Gother by (discriminate || assumption). assumption.
    + rewrite Gother by (discriminate || assumption). assumption.
    + rewrite Gother by (discriminate || assumption). assumption.
    + intros svc' us' ebr' Hin. destruct (q_contribs svc' us' ebr' Hin) as (A1 & A2 & A3 & A4 & A5 & A6).
      rewrite Gother by (discriminate || assumption). auto 7.
    + split; [apply as_token_ok; apply as_token_ok in Qs; rewrite Gc'; assumption|]. rewrite Gc'. auto.
    + destruct (dph_mint _ _ _ _ _ _ _ _ _ _ _ _ _ P1) as (M1 & M2 & _). split; [exact M1|]. split; [exact M2|].
      unfold m1. rewrite m_supply_set. cbn [rsum] in HS. fold T in HS. pose proof (leaf_split T (d_cbr d) us ebr rc Csum) as Hsp. lia.
    + intros svc' us' ebr' x Hin Hxx. destruct (q_atas svc' us' ebr' x Hin Hxx) as (t & A1 & A2 & A3 & A4).
      assert (get W1 (KAta (fst x) KMint) = tok_add (get W (KAta (fst x) KMint)) (recv (leaf_rem T (d_cbr d) us ebr) rc (KAta (fst x) KMint))) as E
        by (rewrite Ga; apply purge_acct_id; rewrite lamports_tok_add; assumption).
      exists (t <| t_amount := t_amount t + recv (leaf_rem T (d_cbr d) us ebr) rc (KAta (fst x) KMint) |>).
      split; [eapply as_token_tok_add; [exact A1|exact E]|]. split; [assumption|].
      pose proof (recv_sum_le (leaf_rem T (d_cbr d) us ebr) rc (KAta (fst x) KMint)) as Hr.
      specialize (HA (fst x) t A1). cbn [rsum] in HA. fold T in HA.
      split; [rewrite t_amount_set; lia|]. rewrite E, lamports_tok_add. assumption.
    + specialize (Gu r'). specialize (Gua r'). unfold rent in *. destruct (r =? r'); lia.
  - intros rk t1 Ht1.
    destruct (N.eqb_spec (lamports (get W (KAta rk KMint))) 0) as [E0|E0].
    { exfalso. apply as_token_ok in Ht1. destruct Ht1 as (D & _). rewrite Ga in D. unfold purge_acct in D.
      rewrite lamports_tok_add, E0 in D. cbn in D. discriminate D. }
    assert (get W1 (KAta rk KMint) = tok_add (get W (KAta rk KMint)) (recv (leaf_rem T (d_cbr d) us ebr) rc (KAta rk KMint))) as E
      by (rewrite Ga; apply purge_acct_id; rewrite lamports_tok_add; assumption).
    destruct (as_token_tok_add_inv _ _ _ _ _ E Ht1) as (t & Ht & Ea).
    pose proof (recv_sum_le (leaf_rem T (d_cbr d) us ebr) rc (KAta rk KMint)) as Hr.
    specialize (HA rk t Ht). cbn [rsum] in HA. fold T in HA.
    destruct (dist_dr_fields d (leaf_sent T (d_cbr d) us ebr rc) (leaf_burn T (d_cbr d) us ebr rc)) as (_ & _ & _ & F4 & _).
    fold d1 in F4. rewrite F4. fold T. lia.
  - destruct (dist_dr_fields d (leaf_sent T (d_cbr d) us ebr rc) (leaf_burn T (d_cbr d) us ebr rc)) as (_ & _ & _ & F4 & _).
    fold d1 in F4. rewrite F4. fold T. unfold m1. rewrite m_supply_set. cbn [rsum] in HS. fold T in HS.
    pose proof (leaf_split T (d_cbr d) us ebr rc Csum) as Hsp. lia.
Qed.

(* what one epoch's loop has achieved *)
Definition rl_done (d d1 : dist) (tail tail1 : list N) (s s1 : token_acct) (i : N) (rest : list rleaf) : Prop :=
  d_distributed_count d1 = d_distributed_count d + N.of_nat (length rest) /\
  d_rew_start d1 = d_rew_start d /\ dist_total d1 = dist_total d /\ d_relay d1 = d_relay d /\
  (forall idx, i <= idx < i + N.of_nat (length rest) -> range_bit tail1 (d_rew_start d) idx = true) /\
  (forall idx, idx < i \/ i + N.of_nat (length rest) <= idx -> range_bit tail1 (d_rew_start d) idx = range_bit tail (d_rew_start d) idx) /\
  t_amount s1 = t_amount s - rsum (dist_total d) rest /\
  d_distributed_2z d1 + d_burned_2z d1 = d_distributed_2z d + d_burned_2z d + rsum (dist_total d) rest.

Lemma rl_done_refl d tail s i : rl_done d d tail tail s s i [].
Proof. unfold rl_done. cbn [length N.of_nat rsum]. rewrite !N.add_0_r, N.sub_0_r. repeat split; try reflexivity. intros idx H. lia. Qed.

Lemma rl_done_step W e r root pf crof i svc us ebr tl c d tail s m dF tailF sF :
  distribute_phase W e r root pf crof i ((svc, us, ebr) :: tl) c d tail s m ->
  let T := dist_total d in let rc := cr_recipients (crof svc) in
  rl_done (dr_dist d (leaf_sent T (d_cbr d) us ebr rc) (leaf_burn T (d_cbr d) us ebr rc)) dF
          (set_bit_at tail (d_rew_start d) i) tailF (s <| t_amount := t_amount s - leaf_share T us |>) sF (i + 1) tl ->
  rl_done d dF tail tailF s sF i ((svc, us, ebr) :: tl).
Proof.
  intros P T rc (L1 & L2 & L3 & L4 & L5 & L6 & L7 & L8).
  destruct (dph_contribs _ _ _ _ _ _ _ _ _ _ _ _ _ P svc us ebr (or_introl eq_refl)) as (_ & _ & _ & _ & _ & Csum). fold rc in Csum.
  pose proof (leaf_split T (d_cbr d) us ebr rc Csum) as Hsplit.
  destruct (dph_window _ _ _ _ _ _ _ _ _ _ _ _ _ P) as (Hw1 & Hw2).
  pose proof (dph_fits _ _ _ _ _ _ _ _ _ _ _ _ _ P) as Hfits. pose proof (dph_clear _ _ _ _ _ _ _ _ _ _ _ _ _ P) as Hclear.
  pose proof (dph_books _ _ _ _ _ _ _ _ _ _ _ _ _ P) as Hbooks. destruct (dph_count _ _ _ _ _ _ _ _ _ _ _ _ _ P) as (Hc1 & Hc2).
  cbn [length rsum] in Hfits, Hclear, Hbooks, Hc1. fold T in Hbooks.
  assert (i / 8 < d_rew_end d - d_rew_start d) as Hin by lia.
  assert (range_bit tail (d_rew_start d) i = false) as Hclr by (apply Hclear; lia).
  destruct (set_bit_at_bits tail _ _ i Hw1 Hw2 Hin Hclr) as (Hlen & Hset & Hoth).
  destruct (dist_dr_fields d (leaf_sent T (d_cbr d) us ebr rc) (leaf_burn T (d_cbr d) us ebr rc)) as (_ & _ & _ & F4 & _ & _ & F7 & _ & F9).
  set (d1 := dr_dist d (leaf_sent T (d_cbr d) us ebr rc) (leaf_burn T (d_cbr d) us ebr rc)) in *.
  assert (d_distributed_2z d1 = d_distributed_2z d + leaf_sent T (d_cbr d) us ebr rc /\
          d_burned_2z d1 = d_burned_2z d + leaf_burn T (d_cbr d) us ebr rc /\
          d_distributed_count d1 = d_distributed_count d + 1) as (E1 & E2 & E3).
  { subst d1. unfold dr_dist. proj_simpl. unfold wadd64, wadd32. rewrite !wadd_small by lia. auto. }
  rewrite F4, F7 in *. fold T in L7, L8. rewrite t_amount_set in L7.
  unfold rl_done. cbn [length rsum]. fold T. rewrite Nat2N.inj_succ.
  split; [rewrite L1, E3; lia|]. split; [exact L2|]. split; [exact L3|]. split; [congruence|].
  split. { intros idx Hidx. destruct (N.eq_dec idx i) as [->|Hne]; [rewrite L6 by lia; exact Hset|apply L5; lia]. }
  split. { intros idx Hidx. rewrite L6 by lia. apply Hoth. lia. }
  split; [rewrite L7; lia|]. rewrite L8, E1, E2. lia.
Qed.

Lemma distribute_txs_cons_inv f r e crof L pf i t tl :
  t :: tl = distribute_txs f r e crof L pf i ->
  exists svc us ebr L', L = (svc, us, ebr) :: L' /\
    t = rd_tx [KUser f] (RDistributeRewards us ebr (pf i)) (sdk_distribute_rewards e svc KMint (KUser r) (map fst (cr_recipients (crof svc)))) /\
    tl = distribute_txs f r e crof L' pf (i + 1).
Proof. destruct L as [|[[svc us] ebr] L']; cbn [distribute_txs]; intros H; [discriminate|]. injection H as -> ->. eauto 8. Qed.
Lemma distribute_txs_nil_inv f r e crof L pf i : [] = distribute_txs f r e crof L pf i -> L = [].
Proof. destruct L as [|[[svc us] ebr] L']; cbn [distribute_txs]; intros H; [reflexivity|discriminate]. Qed.

(* ANY interleaving of the two distribution loops succeeds and completes both *)
Theorem distribute_interleave f f' e r root pf crof e' r' root' pf' crof' c : forall A B ts, merge A B ts ->
  forall rest i rest' i' W d tail s d' tail' s' m,
  A = distribute_txs f r e crof rest pf i -> B = distribute_txs f' r' e' crof' rest' pf' i' ->
  dist2 W e r root pf crof i rest d tail s e' r' root' pf' crof' i' rest' d' tail' s' c m ->
  exists W' d1 tail1 s1 d1' tail1' s1' m',
    run_txs W ts = (W', true) /\
    dist2 W' e r root pf crof (i + N.of_nat (length rest)) [] d1 tail1 s1
          e' r' root' pf' crof' (i' + N.of_nat (length rest')) [] d1' tail1' s1' c m' /\
    rl_done d d1 tail tail1 s s1 i rest /\ rl_done d' d1' tail' tail1' s' s1' i' rest' /\
    (forall x, lamports (get W' (KUser x)) = lamports (get W (KUser x)) + (if r =? x then d_relay d * N.of_nat (length rest) else 0)
                                             + (if r' =? x then d_relay d' * N.of_nat (length rest') else 0)) /\
    now W' = now W.
Proof.
  induction 1 as [|x a b ts Hm IH|x a b ts Hm IH]; intros rest i rest' i' W d tail s d' tail' s' m EA EB P.
  - apply distribute_txs_nil_inv in EA, EB. subst rest rest'. exists W, d, tail, s, d', tail', s', m. cbn [run_txs length N.of_nat].
    rewrite !N.add_0_r, !N.mul_0_r. split; [reflexivity|]. split; [exact P|]. split; [apply rl_done_refl|]. split; [apply rl_done_refl|].
    split; [|reflexivity]. intros x. destruct (r =? x), (r' =? x); lia.
  - apply distribute_txs_cons_inv in EA. destruct EA as (svc & us & ebr & tl & -> & -> & Ea).
    destruct (dist2_step f W e r root pf crof i svc us ebr tl d tail s e' r' root' pf' crof' i' rest' d' tail' s' c m P)
      as (W1 & Hx & Hn1 & P1 & Hu).
    destruct (IH tl (i + 1) rest' i' W1 _ _ _ d' tail' s' _ Ea EB P1)
      as (W' & d1 & tail1 & s1 & d1' & tail1' & s1' & m' & Hrun & Pend & LD & LD' & Hrel & Hn).
    exists W', d1, tail1, s1, d1', tail1', s1', m'. cbn [run_txs]. rewrite Hx.
    cbn [length]. rewrite Nat2N.inj_succ, <- N.add_1_l, (N.add_assoc i 1).
    split; [exact Hrun|]. split; [exact Pend|].
    split; [exact (rl_done_step _ _ _ _ _ _ _ _ _ _ _ _ _ _ _ _ _ _ _ (d2_left _ _ _ _ _ _ _ _ _ _ _ _ _ _ _ _ _ _ _ _ _ _ _ P) LD)|].
    split; [exact LD'|]. split; [|congruence].
    intros x. rewrite Hrel, Hu.
    destruct (dist_dr_fields d (leaf_sent (dist_total d) (d_cbr d) us ebr (cr_recipients (crof svc))) (leaf_burn (dist_total d) (d_cbr d) us ebr (cr_recipients (crof svc))))
      as (_ & _ & _ & _ & _ & _ & _ & _ & F9).
    rewrite F9. destruct (r =? x), (r' =? x); lia.
  - apply distribute_txs_cons_inv in EB. destruct EB as (svc & us & ebr & tl & -> & -> & Eb).
    destruct (dist2_step f' W e' r' root' pf' crof' i' svc us ebr tl d' tail' s' e r root pf crof i rest d tail s c m
                (dist2_sym _ _ _ _ _ _ _ _ _ _ _ _ _ _ _ _ _ _ _ _ _ _ _ P)) as (W1 & Hx & Hn1 & P1 & Hu).
    apply dist2_sym in P1.
    destruct (IH rest i tl (i' + 1) W1 d tail s _ _ _ _ EA Eb P1)
      as (W' & d1 & tail1 & s1 & d1' & tail1' & s1' & m' & Hrun & Pend & LD & LD' & Hrel & Hn).
    exists W', d1, tail1, s1, d1', tail1', s1', m'. cbn [run_txs]. rewrite Hx.
    cbn [length]. rewrite Nat2N.inj_succ, <- N.add_1_l, (N.add_assoc i' 1).
    split; [exact Hrun|]. split; [exact Pend|]. split; [exact LD|].
    split; [exact (rl_done_step _ _ _ _ _ _ _ _ _ _ _ _ _ _ _ _ _ _ _ (d2_right _ _ _ _ _ _ _ _ _ _ _ _ _ _ _ _ _ _ _ _ _ _ _ P) LD')|].
    split; [|congruence].
    intros x. rewrite Hrel, Hu.
    destruct (dist_dr_fields d' (leaf_sent (dist_total d') (d_cbr d') us ebr (cr_recipients (crof' svc))) (leaf_burn (dist_total d') (d_cbr d') us ebr (cr_recipients (crof' svc))))
      as (_ & _ & _ & _ & _ & _ & _ & _ & F9).
    rewrite F9. destruct (r =? x), (r' =? x); lia.
Qed.

(* both loops run to completion (whole trees, from count 0): counters, bits, custody residues, books, relayers *)
Corollary distribute_interleave_complete f f' e r root pf crof e' r' root' pf' crof' c L L' ts W d tail s d' tail' s' m :
  merge (distribute_txs f r e crof L pf 0) (distribute_txs f' r' e' crof' L' pf' 0) ts ->
  dist2 W e r root pf crof 0 L d tail s e' r' root' pf' crof' 0 L' d' tail' s' c m ->
  d_distributed_count d = 0 -> d_distributed_count d' = 0 ->
  exists W' d1 tail1 s1 d1' tail1' s1',
    run_txs W ts = (W', true) /\
    data (get W' (KRdDist e)) = DDist d1 tail1 /\ data (get W' (KRdDist e')) = DDist d1' tail1' /\
    d_distributed_count d1 = N.of_nat (length L) /\ d_distributed_count d1' = N.of_nat (length L') /\
    (forall idx, idx < N.of_nat (length L) -> range_bit tail1 (d_rew_start d1) idx = true) /\
    (forall idx, idx < N.of_nat (length L') -> range_bit tail1' (d_rew_start d1') idx = true) /\
    as_token W' (KTok2z (KRdDist e)) = Ok s1 /\ t_amount s1 = t_amount s - rsum (dist_total d) L /\
    as_token W' (KTok2z (KRdDist e')) = Ok s1' /\ t_amount s1' = t_amount s' - rsum (dist_total d') L' /\
    d_distributed_2z d1 + d_burned_2z d1 = d_distributed_2z d + d_burned_2z d + rsum (dist_total d) L /\
    d_distributed_2z d1' + d_burned_2z d1' = d_distributed_2z d' + d_burned_2z d' + rsum (dist_total d') L' /\
    (forall x, lamports (get W' (KUser x)) = lamports (get W (KUser x)) + (if r =? x then d_relay d * N.of_nat (length L) else 0)
                                             + (if r' =? x then d_relay d' * N.of_nat (length L') else 0)).
Proof.
  intros Hm P H0 H0'.
  destruct (distribute_interleave f f' e r root pf crof e' r' root' pf' crof' c _ _ ts Hm L 0 L' 0 W d tail s d' tail' s' m eq_refl eq_refl P)
    as (W' & d1 & tail1 & s1 & d1' & tail1' & s1' & m' & Hrun & Pend & (C1 & S1 & _ & _ & B1 & _ & A1 & K1) & (C1' & S1' & _ & _ & B1' & _ & A1' & K1') & Hrel & _).
  exists W', d1, tail1, s1, d1', tail1', s1'. split; [exact Hrun|].
  pose proof (d2_left _ _ _ _ _ _ _ _ _ _ _ _ _ _ _ _ _ _ _ _ _ _ _ Pend) as PL. pose proof (d2_right _ _ _ _ _ _ _ _ _ _ _ _ _ _ _ _ _ _ _ _ _ _ _ Pend) as PR.
  split; [exact (dph_dist_data _ _ _ _ _ _ _ _ _ _ _ _ _ PL)|]. split; [exact (dph_dist_data _ _ _ _ _ _ _ _ _ _ _ _ _ PR)|].
  split; [rewrite C1, H0; apply N.add_0_l|]. split; [rewrite C1', H0'; apply N.add_0_l|].
  split; [intros idx Hidx; rewrite S1; apply B1; lia|]. split; [intros idx Hidx; rewrite S1'; apply B1'; lia|].
  split; [exact (proj1 (dph_custody _ _ _ _ _ _ _ _ _ _ _ _ _ PL))|]. split; [exact A1|].
  split; [exact (proj1 (dph_custody _ _ _ _ _ _ _ _ _ _ _ _ _ PR))|]. split; [exact A1'|]. auto.
Qed.

(* a token account that reads back lives in the world's account list *)
Lemma as_token_in W k t : as_token W k = Ok t -> exists a, In (k, a) (accts W) /\ data a = DToken t.
Proof.
  intros H. apply as_token_ok in H. destruct H as (D & _). unfold get in D.
  induction (accts W) as [|[k' a'] tl IH]; cbn [lookup] in D; [discriminate D|].
  destruct (key_eqb_spec k k') as [->|Hne].
  - exists a'. split; [left; reflexivity|exact D].
  - destruct (IH D) as (a & Hin & Ha). exists a. split; [right; exact Hin|exact Ha].
Qed.

(* non-vacuity: epochs 5 and 6 (both swept, 10 000 2Z each, the same two reward leaves, the same contributors, recipients and
   relayer); the four distributions alternate between the epochs *)
Definition ex13_dist6d : dist := ex_dist5d <| d_epoch := 6 |>.
Definition ex13_dist2_world : world :=
  put (put ex13_distribute_all_world
    (KRdDist 6) (ex_acct (rent (LEN_DIST + 2) + 12000) (LEN_DIST + 2) (DDist ex13_dist6d [0; 0])))
    (KTok2z (KRdDist 6)) (ex_tok (KRdDist 6) 10000).
Definition ex13_dist2_txs : list tx :=
  let pf := proof_for PRE_REWARD ex_rewards in
  let t e i svc us ebr := rd_tx [KUser 7] (RDistributeRewards us ebr (pf i))
                            (sdk_distribute_rewards e svc KMint (KUser 7) (map fst (cr_recipients (ex13_crof svc)))) in
  [t 5 0 (KUser 21) 400000000 0; t 6 0 (KUser 21) 400000000 0; t 6 1 (KUser 22) 600000000 100000000; t 5 1 (KUser 22) 600000000 100000000].
Example distribute_interleave_nonvacuous :
  let pf := proof_for PRE_REWARD ex_rewards in let root := tree_root PRE_REWARD ex_rewards in
  let s5 := {| t_mint := KMint; t_owner := KRdDist 5; t_amount := 10000 |} in
  let s6 := {| t_mint := KMint; t_owner := KRdDist 6; t_amount := 10000 |} in
  merge (distribute_txs 7 7 5 ex13_crof ex13_rleaves pf 0) (distribute_txs 7 7 6 ex13_crof ex13_rleaves pf 0) ex13_dist2_txs /\
  dist2 ex13_dist2_world 5 7 root pf ex13_crof 0 ex13_rleaves ex_dist5d [0; 0] s5
                         6 7 root pf ex13_crof 0 ex13_rleaves ex13_dist6d [0; 0] s6 ex_cfg {| m_supply := 1000000; m_decimals := 8 |} /\
  let '(W', ok) := run_txs ex13_dist2_world ex13_dist2_txs in
  ok = true /\
  (exists d5 d6, data (get W' (KRdDist 5)) = DDist d5 [0; 3] /\ data (get W' (KRdDist 6)) = DDist d6 [0; 3] /\
                 d_distributed_count d5 = 2 /\ d_distributed_count d6 = 2) /\
  as_token W' (KTok2z (KRdDist 5)) = Ok {| t_mint := KMint; t_owner := KRdDist 5; t_amount := 0 |} /\
  as_token W' (KTok2z (KRdDist 6)) = Ok {| t_mint := KMint; t_owner := KRdDist 6; t_amount := 0 |} /\
  lamports (get W' (KUser 7)) = 1024000 /\ as_mint W' KMint = Ok {| m_supply := 998398; m_decimals := 8 |}.
Proof.
  cbv zeta. split; [unfold ex13_dist2_txs, ex13_rleaves; cbn [distribute_txs]; repeat constructor|].
  split; [|vm_compute; split; [reflexivity|]; split; [do 2 eexists; repeat split|repeat split]].
  assert (forall e0 d0 s0, (e0 = 5 /\ d0 = ex_dist5d /\ s0 = {| t_mint := KMint; t_owner := KRdDist 5; t_amount := 10000 |}) \/
                           (e0 = 6 /\ d0 = ex13_dist6d /\ s0 = {| t_mint := KMint; t_owner := KRdDist 6; t_amount := 10000 |}) ->
     distribute_phase ex13_dist2_world e0 7 (tree_root PRE_REWARD ex_rewards) (proof_for PRE_REWARD ex_rewards) ex13_crof 0 ex13_rleaves
                      ex_cfg d0 [0; 0] s0 {| m_supply := 1000000; m_decimals := 8 |}) as PP.
  { intros e0 d0 s0 [(-> & -> & ->)|(-> & -> & ->)]; (constructor; try closed;
    [ intros idx H; assert (idx = 0 \/ idx = 1) as [->| ->] by (cbn in H; lia); reflexivity
    | intros [|[|[|n]]] svc us ebr H; cbn in H; try discriminate H; injection H as <- <- <-; vm_compute; repeat split; discriminate
    | intros svc us ebr H; unfold ex13_rleaves in H; cbn [In] in H; destruct H as [H|[H|[]]]; injection H as <- <- <-; closed
    | intros svc us ebr x H Hx; unfold ex13_rleaves in H; cbn [In] in H; destruct H as [H|[H|[]]]; injection H as <- <- <-;
        vm_compute in Hx; repeat (destruct Hx as [<-|Hx]; [eexists; closed|]); contradiction ]). }
  constructor; [apply PP; auto|apply PP; auto|discriminate| |vm_compute; discriminate].
  intros rk t H. apply as_token_in in H. destruct H as (a & Hin & Ha). vm_compute in Hin.
  repeat (destruct Hin as [Hin|Hin]; [injection Hin as ? <-; try discriminate; cbn in Ha; try discriminate Ha; injection Ha as <-; vm_compute; reflexivity|]).
  contradiction.
Qed.

(* ==================================================================================================================
   INDEX of Lemmas_C13{g,h,i,j,k}.v  (all closed under the global context; every theorem has an Example .._nonvacuous)
   rleaf = (contributor's service key, unit share, economic burn rate);  crof : key -> contrib (the contributors' records)
   -- Lemmas_C13g.v  (rewards loop)
       leaf_share / leaf_burn0 / leaf_rem / leaf_sent / leaf_burn   amounts of one leaf as functions of T = prepaid + swept 2Z
       distribute_rewards_progress_pt   distribute_ready -> success, pointwise post-state purge_acct (distribute_acct ..)
       distribute_phase                 loop invariant (Record): swept distribution, window, clear bits, proofs, contributors'
                                        records, custody >= rsum, mint, recipients' ATAs (no overflow), relay lamports covered,
                                        relayer rent exempt after credit, books do not wrap
       distribute_step, distribute_all_ok   one distribute per remaining leaf succeeds: count + n, bits set / others kept,
                                        relayer + relay * n, distribution - relay * n, custody - rsum, mint - burn_sum,
                                        ATAs + recv_all, books + sent_sum / + burn_sum, sent_sum + burn_sum = rsum, frame,
                                        bytes below the rewards window untouched, invariant again for the empty rest
       distribute_all_complete          from count 0: count = #leaves, all bits set
       distribute_dust                  shares total 10^9, L <> []  ->  T - rsum T L < #leaves  and  rsum T L <= T
       recv_cover, recv_all_cover       over a duplicate-free key list covering the ATAs: sum received = sent_sum
   -- Lemmas_C13h.v  (rewards phase of one epoch)
       rewards_plan (Record), rewards_phase_txs = configure-rewards :: finalize-rewards :: sweep :: distribute per leaf
       rewards_prefix, rewards_phase_ready, rewards_finish      the three segments
       honest_rewards_phase_zero        zero collectible debt: everything succeeds; count, bits, custody residue < #leaves,
                                        distributed + burned + residue = prepaid, mint - burned, relayer + relay * #leaves
       swap_plan, honest_rewards_phase_swap   collectible debt swapped, mock swap program, matching registry head: same with T = prepaid + z
   -- Lemmas_C13i.v  (one epoch)
       pay_step, pay_all_frame, honest_debt_phase_frame         the debt phase with exact distribution account, frame, payer, journal
       epoch_key, swap_effect, epoch_plan, epoch_txs = debt phase ++ mid ++ rewards phase
       honest_epoch_completes           every SDK-built transaction of the epoch succeeds; mid (the swap, other epochs' traffic) is
                                        characterised by its effect; all debt bits + counter, all reward bits + counter, dust, relayer
   -- Lemmas_C13j.v  merge (interleavings), pay2 (joint invariant), pay2_step, loop_done,
       pay_interleave, pay_interleave_complete        ANY interleaving of the payment loops of two epochs completes both
   -- Lemmas_C13k.v  dist2 (joint invariant), dist2_step, rl_done,
       distribute_interleave, distribute_interleave_complete   ANY interleaving of the distribution loops of two swept epochs
   -- Lemmas_C13l.v  buy_sol_progress (the mock swap program's BuySol transaction), buyer_plan,
       honest_epoch_completes_mock      the epoch with the swap done through the mock: preconditions on the initial world only
   NOT proved: write-offs inside the loops; interleavings of the non-loop steps of two epochs (configure / finalize / sweep):
   honest_epoch_completes tolerates any traffic between its two phases that satisfies swap_effect, the loops interleave freely.
   ================================================================================================================== *)
