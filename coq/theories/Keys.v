(* Structured account keys.  Constructors are injective and pairwise distinct: this IS the idealisation
   "PDA / ATA derivation is collision-free, domain-separated, and a derived address is not a wallet". *)
From DZ Require Import Base.

Inductive key :=
| KUser (n : N)              (* wallets and arbitrary non-derived addresses (ed25519 keys that can sign) *)
| KSystem                    (* the System program id, which is also the all-zero Pubkey::default() *)
| KToken | KAtaProg | KLoader      (* well-known program ids *)
| KRd | KPassport | KSwapMock | KRogue (n : N)  (* program ids: the three programs and harness-only programs *)
| KMint                      (* DOUBLEZERO_MINT_KEY *)
| KOtherMint (n : N)
| KRdConfig                  (* find_program_address(["program_config"], RD) *)
| KRdJournal                 (* ["journal"] *)
| KRdDist (e : N)            (* ["distribution", epoch_le] *)
| KRdDeposit (node : key)    (* ["solana_validator_deposit", node_id] *)
| KRdContrib (svc : key)     (* ["contributor_rewards", service_key] *)
| KRdSwapAuth                (* ["swap_authority"] *)
| KTok2z (owner : key)       (* ["2z_token", owner] under RD *)
| KWithdrawAuth (swap : key) (* ["withdraw_sol"] under the swap program id `swap` *)
| KAta (owner mint : key)    (* associated token address *)
| KPpConfig                  (* ["program_config"] under passport *)
| KPpRequest (svc : key)     (* ["access_request", service_key] *)
| KProgData (prog : key)     (* [program_id] under the upgradeable loader *)
| KSwapCfg | KSwapState      (* mock swap: ["system_config"], ["state"] *)
| KNonCanon (base : key) (b : N).   (* create_program_address with a non-canonical bump: never equal to the canonical key *)

Fixpoint key_eqb (a b : key) {struct a} : bool :=
  match a, b with
  | KUser x, KUser y => N.eqb x y
  | KSystem, KSystem | KToken, KToken | KAtaProg, KAtaProg | KLoader, KLoader => true
  | KRd, KRd | KPassport, KPassport | KSwapMock, KSwapMock => true
  | KRogue x, KRogue y => N.eqb x y
  | KMint, KMint => true
  | KOtherMint x, KOtherMint y => N.eqb x y
  | KRdConfig, KRdConfig | KRdJournal, KRdJournal => true
  | KRdDist x, KRdDist y => N.eqb x y
  | KRdDeposit x, KRdDeposit y => key_eqb x y
  | KRdContrib x, KRdContrib y => key_eqb x y
  | KRdSwapAuth, KRdSwapAuth => true
  | KTok2z x, KTok2z y => key_eqb x y
  | KWithdrawAuth x, KWithdrawAuth y => key_eqb x y
  | KAta o m, KAta o' m' => key_eqb o o' && key_eqb m m'
  | KPpConfig, KPpConfig => true
  | KPpRequest x, KPpRequest y => key_eqb x y
  | KProgData x, KProgData y => key_eqb x y
  | KSwapCfg, KSwapCfg | KSwapState, KSwapState => true
  | KNonCanon x b, KNonCanon y b' => key_eqb x y && N.eqb b b'
  | _, _ => false
  end.

Lemma key_eqb_refl a : key_eqb a a = true.
Proof. induction a; cbn; rewrite ?N.eqb_refl, ?IHa, ?IHa1, ?IHa2; reflexivity. Qed.

Lemma key_eqb_eq a : forall b, key_eqb a b = true -> a = b.
Proof.
  induction a; intros b' H; destruct b'; cbn in H; try discriminate H; try reflexivity;
  repeat match goal with
  | H : _ && _ = true |- _ => apply andb_true_iff in H; destruct H
  | H : N.eqb _ _ = true |- _ => apply N.eqb_eq in H; subst
  | IH : forall b0, key_eqb ?a b0 = true -> ?a = b0, H : key_eqb ?a _ = true |- _ => apply IH in H; subst
  end; reflexivity.
Qed.

Lemma key_eqb_spec a b : reflect (a = b) (key_eqb a b).
Proof. destruct (key_eqb a b) eqn:E; constructor.
  - apply key_eqb_eq; assumption.
  - intros ->. rewrite key_eqb_refl in E. discriminate. Qed.

Lemma key_eqb_neq a b : a <> b -> key_eqb a b = false.
Proof. intros H. destruct (key_eqb_spec a b); [contradiction|reflexivity]. Qed.
Lemma key_eqb_false a b : key_eqb a b = false -> a <> b.
Proof. intros H ->. rewrite key_eqb_refl in H. discriminate. Qed.
Lemma key_eq_dec (a b : key) : {a = b} + {a <> b}.
Proof. destruct (key_eqb_spec a b); [left|right]; assumption. Qed.

Definition default_key : key := KSystem.
Definition is_default (k : key) : bool := key_eqb k default_key.

(* association-list maps keyed by `key` *)
Section KMap.
Context {A : Type}.
Definition kmap := list (key * A).
Fixpoint lookup (k : key) (w : kmap) : option A :=
  match w with [] => None | (k', a) :: tl => if key_eqb k k' then Some a else lookup k tl end.
Fixpoint upd (k : key) (a : A) (w : kmap) : kmap :=
  match w with
  | [] => [(k, a)]
  | (k', a') :: tl => if key_eqb k k' then (k, a) :: tl else (k', a') :: upd k a tl
  end.
Fixpoint remove (k : key) (w : kmap) : kmap :=
  match w with [] => [] | (k', a') :: tl => if key_eqb k k' then remove k tl else (k', a') :: remove k tl end.

Lemma lookup_upd_same k a w : lookup k (upd k a w) = Some a.
Proof. induction w as [|[k' a'] tl IH]; cbn; [rewrite key_eqb_refl; reflexivity|].
  destruct (key_eqb k k') eqn:E; cbn; [rewrite key_eqb_refl|rewrite E]; auto. Qed.
Lemma lookup_upd_other k k' a w : k <> k' -> lookup k' (upd k a w) = lookup k' w.
Proof. intros Hne. induction w as [|[k2 a2] tl IH]; cbn.
  - rewrite (key_eqb_neq k' k) by congruence. reflexivity.
  - destruct (key_eqb k k2) eqn:E; cbn.
    + apply key_eqb_eq in E; subst k2. rewrite (key_eqb_neq k' k) by congruence. reflexivity.
    + destruct (key_eqb k' k2); auto. Qed.
Lemma lookup_upd k k' a w : lookup k' (upd k a w) = if key_eqb k k' then Some a else lookup k' w.
Proof. destruct (key_eqb_spec k k') as [->|Hne]; [apply lookup_upd_same|apply lookup_upd_other; assumption]. Qed.
Lemma lookup_remove_same k w : lookup k (remove k w) = None.
Proof. induction w as [|[k' a'] tl IH]; cbn; [reflexivity|]. destruct (key_eqb k k') eqn:E; cbn; rewrite ?E; auto. Qed.
Lemma lookup_remove_other k k' w : k <> k' -> lookup k' (remove k w) = lookup k' w.
Proof. intros Hne. induction w as [|[k2 a2] tl IH]; cbn; [reflexivity|].
  destruct (key_eqb k k2) eqn:E; cbn.
  - apply key_eqb_eq in E; subst. rewrite (key_eqb_neq k' k2) by congruence. exact IH.
  - destruct (key_eqb k' k2); auto. Qed.
End KMap.
Arguments kmap A : clear implicits.
