(* Invariants of distribution accounts across ARBITRARY histories (C04, C15 snapshot part, helpers for C05/C10).
   Part 1: the per-distribution step relation `mono`, the world relation `dstep`, the footprint of every runtime
   primitive (System, Token, program-tools recipes) and of the 22 revenue-distribution processors. *)
From DZ Require Import Base Keys Merkle BurnRate Shares Swap_Ring State World SwapDeq RD Passport Swap Exec.

(* ------------------------------------------------------------------ distributions of a world *)
Definition dist_of (a : acct) : option (dist * list N) :=
  if key_eqb (owner a) KRd then match data a with DDist d t => Some (d, t) | _ => None end else None.
Definition dist_at (W : world) (k : key) : option (dist * list N) :=
  let a := get W k in
  if key_eqb (owner a) KRd then match data a with DDist d t => Some (d, t) | _ => None end else None.
Lemma dist_at_of W k : dist_at W k = dist_of (get W k).
Proof. reflexivity. Qed.

(* lifecycle stages; `SCreated` stands for "the account became a distribution" *)
Inductive stage := SCreated | SDebtFinal | SRewardsFinal | SSwept | SWriteOff.
Definition flag_of (s : stage) (d : dist) : bool :=
  match s with
  | SCreated => true
  | SDebtFinal => d_debt_final d
  | SRewardsFinal => d_rewards_final d
  | SSwept => d_swept d
  | SWriteOff => d_writeoff_enabled d
  end.
(* which stages an instruction is allowed to enter *)
Definition perm := stage -> bool.
Definition pnone : perm := fun _ => false.
Definition por (p q : perm) : perm := fun s => p s || q s.
Definition ple (p q : perm) : Prop := forall s, p s = true -> q s = true.

Definition debt_figs (d : dist) := (d_total_validators d, d_total_debt d, d_debt_root d).
Definition rew_figs (d : dist) := (d_total_contributors d, d_rewards_root d).
Definition snapshot (d : dist) := (d_epoch d, d_fees d, d_relay d, d_cbr d, d_calc_allowed_ts d).
(* the calculation grace period of `d` has passed at time `nw` (Distribution::is_calculation_allowed) *)
Definition calc_ok (nw : N) (d : dist) : bool := negb (d_calc_allowed_ts d =? 0) && (d_calc_allowed_ts d <=? nw).
(* the inductive form of "uncollectible debt never exceeds the total debt" *)
Definition good (d : dist) : Prop :=
  d_uncollectible d <= d_total_debt d /\ (d_debt_final d = false -> d_uncollectible d = 0).

(* one distribution before (d) and after (d') any piece of execution at clock `nw` that may enter the stages `p` *)
Record mono (p : perm) (nw : N) (d d' : dist) : Prop := {
  m_flags : forall s, implb (flag_of s d) (flag_of s d') = true;
  m_perm : forall s, p s = false -> flag_of s d' = flag_of s d;
  m_snap : snapshot d' = snapshot d;
  m_debt : (d_debt_final d = false /\ calc_ok nw d = true) \/ debt_figs d' = debt_figs d;
  m_rew : (d_rewards_final d = false /\ calc_ok nw d = true) \/ rew_figs d' = rew_figs d;
  m_fin_debt : d_debt_final d = false -> d_debt_final d' = true -> calc_ok nw d = true;
  m_fin_rew : d_rewards_final d = false -> d_rewards_final d' = true -> calc_ok nw d = true /\ d_debt_final d' = true;
  m_sweep : d_swept d = false -> d_swept d' = true -> d_rewards_final d' = true;
  m_wo : d_writeoff_enabled d = false -> d_writeoff_enabled d' = true -> d_debt_final d' = true;
  m_unc : d_swept d = true -> d_uncollectible d' = d_uncollectible d;
  m_unc_mono : d_uncollectible d <= d_uncollectible d';
  m_distr : d_distributed_count d' = d_distributed_count d \/ d_swept d' = true;
  m_pay : d_payments_count d' = d_payments_count d \/ d_debt_final d' = true;
  m_good : good d -> good d'
}.

Lemma implb_false_r x y : implb x y = true -> y = false -> x = false.
Proof. destruct x, y; cbn; congruence. Qed.
Lemma implb_true_l x y : implb x y = true -> x = true -> y = true.
Proof. destruct x, y; cbn; congruence. Qed.
Lemma bool_cases (b : bool) : b = true \/ b = false.
Proof. destruct b; auto. Qed.

Lemma mono_refl p nw d : mono p nw d d.
Proof. constructor; auto; try lia; try congruence. intros s; destruct (flag_of s d); reflexivity. Qed.

Lemma snapshot_calc_ok nw a b : snapshot b = snapshot a -> calc_ok nw b = calc_ok nw a.
Proof. unfold snapshot, calc_ok. intros H. injection H as _ _ _ _ H. rewrite H. reflexivity. Qed.

Lemma mono_trans p nw a b c : mono p nw a b -> mono p nw b c -> mono p nw a c.
Proof.
  intros [F1 P1 S1 D1 R1 FD1 FR1 SW1 WO1 U1 UM1 DI1 PA1 G1] [F2 P2 S2 D2 R2 FD2 FR2 SW2 WO2 U2 UM2 DI2 PA2 G2].
  pose proof (snapshot_calc_ok nw a b S1) as Hc.
  pose proof (F1 SDebtFinal) as Fd1; pose proof (F2 SDebtFinal) as Fd2.
  pose proof (F1 SRewardsFinal) as Fr1; pose proof (F2 SRewardsFinal) as Fr2.
  pose proof (F1 SSwept) as Fs1; pose proof (F2 SSwept) as Fs2.
  pose proof (F1 SWriteOff) as Fw1; pose proof (F2 SWriteOff) as Fw2.
  cbn [flag_of] in Fd1, Fd2, Fr1, Fr2, Fs1, Fs2, Fw1, Fw2.
  constructor.
  - intros s. specialize (F1 s); specialize (F2 s).
    destruct (flag_of s a), (flag_of s b), (flag_of s c); cbn in *; congruence.
  - intros s Hs. rewrite (P2 s Hs). apply P1, Hs.
  - congruence.
  - destruct D1 as [D1|D1]; [left; exact D1|].
    destruct D2 as [[D2 D2']|D2]; [left; split; [eapply implb_false_r; eassumption|congruence]|right; congruence].
  - destruct R1 as [R1|R1]; [left; exact R1|].
    destruct R2 as [[R2 R2']|R2]; [left; split; [eapply implb_false_r; eassumption|congruence]|right; congruence].
  - intros Ha Hc'. destruct (bool_cases (d_debt_final b)) as [Hb|Hb]; [auto|]. rewrite <- Hc. auto.
  - intros Ha Hc'. destruct (bool_cases (d_rewards_final b)) as [Hb|Hb].
    + destruct (FR1 Ha Hb) as [X Y]. split; [exact X|]. eapply implb_true_l; eassumption.
    + destruct (FR2 Hb Hc') as [X Y]. split; [congruence|exact Y].
  - intros Ha Hc'. destruct (bool_cases (d_swept b)) as [Hb|Hb].
    + eapply implb_true_l; [exact Fr2|]. auto.
    + auto.
  - intros Ha Hc'. destruct (bool_cases (d_writeoff_enabled b)) as [Hb|Hb].
    + eapply implb_true_l; [exact Fd2|]. auto.
    + auto.
  - intros Ha. rewrite U2; [auto|]. eapply implb_true_l; eassumption.
  - lia.
  - destruct (bool_cases (d_swept c)) as [Hs|Hs]; [right; exact Hs|].
    destruct DI2 as [DI2|DI2]; [|congruence].
    destruct DI1 as [DI1|DI1]; [left; congruence|]. right. eapply implb_true_l; eassumption.
  - destruct (bool_cases (d_debt_final c)) as [Hs|Hs]; [right; exact Hs|].
    destruct PA2 as [PA2|PA2]; [|congruence].
    destruct PA1 as [PA1|PA1]; [left; congruence|]. right. eapply implb_true_l; eassumption.
  - auto.
Qed.

Lemma mono_weaken p q nw d d' : ple p q -> mono p nw d d' -> mono q nw d d'.
Proof.
  intros Hpq [F P S D R FD FR SW WO U UM DI PA G]. constructor; auto.
  intros s Hs. apply P. destruct (p s) eqn:E; [|reflexivity]. rewrite (Hpq s E) in Hs. discriminate.
Qed.

(* ------------------------------------------------------------------ worlds *)
Definition krel (p : perm) (nw : N) (o o' : option (dist * list N)) : Prop :=
  match o, o' with
  | Some (d, _), Some (d', _) => mono p nw d d'
  | Some _, None => False
  | None, Some (d', _) => p SCreated = true /\ good d'
  | None, None => True
  end.
(* inside a transaction: every distribution stays one, evolving by `mono`; new ones are `good` *)
Definition dstep (p : perm) (W W' : world) : Prop :=
  now W' = now W /\ forall k, krel p (now W) (dist_at W k) (dist_at W' k).
Definition same_dists (W W' : world) : Prop := now W' = now W /\ forall k, dist_at W' k = dist_at W k.

Lemma krel_refl p nw o : krel p nw o o.
Proof. destruct o as [[d t]|]; cbn; [apply mono_refl|exact I]. Qed.
Lemma krel_trans p nw a b c : krel p nw a b -> krel p nw b c -> krel p nw a c.
Proof.
  destruct a as [[a ta]|], b as [[b tb]|], c as [[c tc]|]; cbn; try tauto.
  - apply mono_trans.
  - intros [Hp Hg] Hm. split; [exact Hp|]. apply (m_good _ _ _ _ Hm), Hg.
Qed.
Lemma krel_weaken p q nw a b : ple p q -> krel p nw a b -> krel q nw a b.
Proof.
  intros Hpq. destruct a as [[a ta]|], b as [[b tb]|]; cbn; try tauto.
  - apply mono_weaken, Hpq.
  - intros [Hp Hg]. split; [apply Hpq, Hp|exact Hg].
Qed.
Lemma dstep_refl p W : dstep p W W.
Proof. split; [reflexivity|]. intros k. apply krel_refl. Qed.
Lemma dstep_trans p W1 W2 W3 : dstep p W1 W2 -> dstep p W2 W3 -> dstep p W1 W3.
Proof. intros [N1 H1] [N2 H2]. split; [congruence|]. intros k. eapply krel_trans; [apply H1|]. rewrite <- N1. apply H2. Qed.
Lemma dstep_weaken p q W W' : ple p q -> dstep p W W' -> dstep q W W'.
Proof. intros Hpq [N1 H1]. split; [exact N1|]. intros k. eapply krel_weaken; [exact Hpq|apply H1]. Qed.
Lemma same_dstep p W W' : same_dists W W' -> dstep p W W'.
Proof. intros [N1 H1]. split; [exact N1|]. intros k. rewrite H1. apply krel_refl. Qed.
Lemma same_refl W : same_dists W W.
Proof. split; reflexivity. Qed.
Lemma same_trans W1 W2 W3 : same_dists W1 W2 -> same_dists W2 W3 -> same_dists W1 W3.
Proof. intros [N1 H1] [N2 H2]. split; [congruence|]. intros k. rewrite H2. apply H1. Qed.
Lemma ple_refl p : ple p p. Proof. intros s H; exact H. Qed.
Lemma ple_none p : ple pnone p. Proof. intros s H; discriminate H. Qed.
Lemma ple_or_l p q : ple p (por p q). Proof. intros s H. unfold por. rewrite H. reflexivity. Qed.
Lemma ple_or_r p q : ple q (por p q). Proof. intros s H. unfold por. rewrite H. apply orb_true_r. Qed.

(* ------------------------------------------------------------------ get / put *)
Lemma get_put W k a k' : get (put W k a) k' = if key_eqb k k' then a else get W k'.
Proof.
  unfold get, put. cbn. rewrite lookup_upd. destruct (key_eqb k k'); reflexivity.
Qed.
Lemma now_put W k a : now (put W k a) = now W.
Proof. reflexivity. Qed.
Lemma dist_at_put W k a k' : dist_at (put W k a) k' = if key_eqb k k' then dist_of a else dist_at W k'.
Proof. rewrite !dist_at_of, get_put. destruct (key_eqb k k'); reflexivity. Qed.

Lemma put_same W k a : dist_of a = dist_at W k -> same_dists W (put W k a).
Proof.
  intros H. split; [reflexivity|]. intros k'. rewrite dist_at_put.
  destruct (key_eqb_spec k k') as [->|Hne]; [exact H|reflexivity].
Qed.

(* ------------------------------------------------------------------ runtime primitives never touch a distribution *)
Ltac inv := repeat first [ inv1 | match goal with u : unit |- _ => destruct u end ]; subst.
Ltac bools := repeat match goal with
  | H : _ && _ = true |- _ => apply andb_true_iff in H; destruct H
  | H : negb _ = true |- _ => apply negb_true_iff in H
  end.
Ltac keqs := repeat match goal with H : key_eqb _ _ = true |- _ => apply key_eqb_eq in H end.

Lemma dist_of_owner a : owner a <> KRd -> dist_of a = None.
Proof. intros H. unfold dist_of. rewrite (key_eqb_neq _ _ H). reflexivity. Qed.
Lemma dist_at_owner W k o : owner (get W k) = o -> o <> KRd -> dist_at W k = None.
Proof. intros H Ho. rewrite dist_at_of. apply dist_of_owner. congruence. Qed.
Lemma dist_at_some_owner W k x : dist_at W k = Some x -> owner (get W k) = KRd.
Proof. rewrite dist_at_of. unfold dist_of. destruct (key_eqb_spec (owner (get W k)) KRd); [auto|discriminate]. Qed.
Lemma dist_at_some_data W k d t : dist_at W k = Some (d, t) -> data (get W k) = DDist d t.
Proof. rewrite dist_at_of. unfold dist_of. destruct (key_eqb (owner (get W k)) KRd); [|discriminate].
  destruct (data (get W k)); try discriminate. congruence. Qed.
Lemma dist_at_data_none W k : (forall d t, data (get W k) <> DDist d t) -> dist_at W k = None.
Proof. intros H. rewrite dist_at_of. unfold dist_of. destruct (key_eqb (owner (get W k)) KRd); [|reflexivity].
  destruct (data (get W k)) eqn:E; try reflexivity. exfalso. eapply H. reflexivity. Qed.

Lemma credit_same cx W k amt W' : credit cx W k amt = Ok W' -> same_dists W W'.
Proof. unfold credit. destruct (amt =? 0); intros H; inv; [apply same_refl|]. apply put_same. reflexivity. Qed.
Lemma debit_same cx W k amt W' : debit cx W k amt = Ok W' -> same_dists W W'.
Proof. unfold debit. destruct (amt =? 0); intros H; inv; [apply same_refl|]. apply put_same. reflexivity. Qed.
Lemma set_lamports_to_zero_same cx W k W' : set_lamports_to_zero cx W k = Ok W' -> same_dists W W'.
Proof. apply debit_same. Qed.
Lemma resize_same cx W k n W' : resize cx W k n = Ok W' -> same_dists W W'.
Proof. unfold resize. intros H; inv. apply put_same. reflexivity. Qed.

Lemma sys_transfer_core_same W ms f t amt W' : sys_transfer_core W ms f t amt = Ok W' -> same_dists W W'.
Proof.
  unfold sys_transfer_core. intros H; inv.
  eapply same_trans; apply put_same; reflexivity.
Qed.
Lemma sys_allocate_core_same W ms k sp W' : sys_allocate_core W ms k sp = Ok W' -> same_dists W W' /\ data (get W' k) = DEmpty.
Proof.
  unfold sys_allocate_core. intros H; inv; bools; keqs.
  match goal with H : owner _ = KSystem |- _ => rename H into Ho end.
  split.
  - apply put_same. rewrite (dist_at_owner _ _ _ Ho) by discriminate. apply dist_of_owner. cbn. rewrite Ho. discriminate.
  - rewrite get_put, key_eqb_refl. reflexivity.
Qed.
Lemma sys_assign_core_empty W ms k o W' : data (get W k) = DEmpty -> sys_assign_core W ms k o = Ok W' -> same_dists W W'.
Proof.
  intros Hd. unfold sys_assign_core. destruct (key_eqb (owner (get W k)) o); intros H; inv; [apply same_refl|].
  apply put_same. rewrite (dist_at_data_none W k) by (intros; rewrite Hd; discriminate).
  unfold dist_of. cbn. rewrite Hd. destruct (key_eqb o KRd); reflexivity.
Qed.
Lemma sys_create_account_core_same W ms f t lam sp o W' :
  sys_create_account_core W ms f t lam sp o = Ok W' -> same_dists W W'.
Proof.
  unfold sys_create_account_core. intros H; inv; bools; keqs.
  match goal with H : owner _ = KSystem |- _ => rename H into Ho end.
  eapply same_trans; [|eapply sys_transfer_core_same; eassumption].
  apply put_same. rewrite (dist_at_owner _ _ _ Ho) by discriminate.
  unfold dist_of. cbn. destruct (key_eqb o KRd); reflexivity.
Qed.

Lemma sys_transfer_same cx W f t amt pdas W' : sys_transfer cx W f t amt pdas = Ok W' -> same_dists W W'.
Proof. unfold sys_transfer. intros H; inv. eapply sys_transfer_core_same; eassumption. Qed.
Lemma sys_create_account_same cx W f t lam sp o pdas W' : sys_create_account cx W f t lam sp o pdas = Ok W' -> same_dists W W'.
Proof. unfold sys_create_account. intros H; inv. eapply sys_create_account_core_same; eassumption. Qed.

Lemma create_account_same cx W payer new_ len o add W' : create_account cx W payer new_ len o add = Ok W' -> same_dists W W'.
Proof.
  unfold create_account. destruct (lamports (get W new_) =? 0); intros H.
  - eapply sys_create_account_same; eassumption.
  - inv. unfold sys_allocate in Hm. unfold sys_assign in Hm0. inv.
    apply sys_allocate_core_same in Hm. destruct Hm as [S1 Hd].
    pose proof (sys_assign_core_empty _ _ _ _ _ Hd Hm0) as S2.
    destruct (_ =? 0) in H; inv.
    + eapply same_trans; eassumption.
    + eapply same_trans; [eassumption|]. eapply same_trans; [eassumption|]. eapply sys_transfer_same; eassumption.
Qed.

Lemma as_token_none W k t : as_token W k = Ok t -> dist_at W k = None.
Proof.
  unfold as_token. destruct (data (get W k)) eqn:E; try discriminate. intros _.
  apply dist_at_data_none. intros; rewrite E; discriminate.
Qed.
Lemma as_mint_none W k t : as_mint W k = Ok t -> dist_at W k = None.
Proof.
  unfold as_mint. destruct (data (get W k)) eqn:E; try discriminate. intros _.
  apply dist_at_data_none. intros; rewrite E; discriminate.
Qed.
Lemma put_token_same W k t : dist_at W k = None -> same_dists W (put_token W k t).
Proof. intros H. unfold put_token. apply put_same. rewrite H. unfold dist_of. cbn. destruct (key_eqb _ KRd); reflexivity. Qed.

Lemma tok_transfer_core_same W ms src dst auth amt chk W' :
  tok_transfer_core W ms src dst auth amt chk = Ok W' -> same_dists W W'.
Proof.
  unfold tok_transfer_core. intros H. inv.
  destruct (key_eqb src dst); [inv; apply same_refl|].
  destruct (amt =? 0); [inv; apply same_refl|]. inv.
  eapply same_trans; apply put_token_same; eapply as_token_none; eassumption.
Qed.
Lemma tok_burn_core_same W ms acc mint auth amt W' : tok_burn_core W ms acc mint auth amt = Ok W' -> same_dists W W'.
Proof.
  unfold tok_burn_core. intros H. inv. destruct (amt =? 0); [inv; apply same_refl|]. inv.
  pose proof (put_token_same W acc (a <| t_amount := t_amount a - amt |>) (as_token_none _ _ _ Hm)) as S1.
  eapply same_trans; [exact S1|]. apply put_same.
  destruct S1 as [_ S1]. rewrite S1. rewrite (as_mint_none _ _ _ Hm0).
  unfold dist_of. cbn. destruct (key_eqb _ KRd); reflexivity.
Qed.
Lemma tok_transfer_same cx W src dst auth amt pdas W' : tok_transfer cx W src dst auth amt pdas = Ok W' -> same_dists W W'.
Proof. unfold tok_transfer. intros H; inv. eapply tok_transfer_core_same; eassumption. Qed.
Lemma tok_transfer_checked_same cx W src mint dst auth amt dec pdas W' :
  tok_transfer_checked cx W src mint dst auth amt dec pdas = Ok W' -> same_dists W W'.
Proof. unfold tok_transfer_checked. intros H; inv. eapply tok_transfer_core_same; eassumption. Qed.
Lemma tok_burn_same cx W acc mint auth amt pdas W' : tok_burn cx W acc mint auth amt pdas = Ok W' -> same_dists W W'.
Proof. unfold tok_burn. intros H; inv. eapply tok_burn_core_same; eassumption. Qed.
Lemma tok_init_account3_same cx W acc mint o W' : tok_init_account3 cx W acc mint o = Ok W' -> same_dists W W'.
Proof.
  unfold tok_init_account3. intros H; inv; keqs.
  match goal with H : owner _ = KToken |- _ => rename H into Ho end.
  apply put_same. rewrite (dist_at_owner _ _ _ Ho) by discriminate. apply dist_of_owner. cbn. rewrite Ho. discriminate.
Qed.
Lemma create_token_account_same cx W payer new_ mint o W' : create_token_account cx W payer new_ mint o = Ok W' -> same_dists W W'.
Proof.
  unfold create_token_account. intros H; inv.
  eapply same_trans; [eapply create_account_same; eassumption|eapply tok_init_account3_same; eassumption].
Qed.

(* ------------------------------------------------------------------ the only writer of account data *)
Definition dd (x : adata) : option (dist * list N) := match x with DDist d t => Some (d, t) | _ => None end.
(* what `write_data cx W k x` leaves at `k` as far as distributions are concerned *)
Definition wr (W : world) (k : key) (x : adata) : option (dist * list N) :=
  match dist_at W k with
  | Some _ => dd x
  | None => if key_eqb (owner (get W k)) KRd then dd x else None
  end.
Lemma write_data_char cx W k x W' : write_data cx W k x = Ok W' ->
  now W' = now W /\ forall k', dist_at W' k' = if key_eqb k k' then wr W k x else dist_at W k'.
Proof.
  unfold write_data. intros H; inv. split; [reflexivity|]. intros k'. rewrite dist_at_put.
  destruct (key_eqb k k'); [|reflexivity]. unfold wr. rewrite dist_at_of. unfold dist_of. cbn.
  destruct (key_eqb (owner (get W k)) KRd); [|reflexivity]. destruct (data (get W k)); reflexivity.
Qed.
Lemma try_initialize_char cx W k len x W' : try_initialize cx W k len x = Ok W' ->
  dist_at W k = None /\ now W' = now W /\ forall k', dist_at W' k' = if key_eqb k k' then wr W k x else dist_at W k'.
Proof.
  unfold try_initialize. intros H; inv. split; [|eapply write_data_char; eassumption].
  destruct (data (get W k)) eqn:E; try discriminate. apply dist_at_data_none. intros; rewrite E; discriminate.
Qed.
(* writing something that is not a distribution over something that is not a distribution *)
Lemma write_nondist_same cx W k x W' : write_data cx W k x = Ok W' -> dd x = None -> dist_at W k = None -> same_dists W W'.
Proof.
  intros H Hx Hk. apply write_data_char in H. destruct H as [Hn H]. split; [exact Hn|]. intros k'. rewrite H.
  destruct (key_eqb_spec k k') as [->|]; [|reflexivity]. unfold wr. rewrite Hk, Hx. destruct (key_eqb _ KRd); reflexivity.
Qed.
