(* Passport (C17, C18; passport rows of C07 authority, C08 pause, C09 identity): world lemmas, characterising lemmas for the
   primitives, success => guards, exact functional specifications with frame, invariants, transaction-level lifts.
   All statements are unbounded: every world W (forged ones included), every context cx, every account list. *)
From DZ Require Import Base Keys Merkle BurnRate Swap_Ring State World Passport Exec.

(* ------------------------------------------------------------------------------------------------------------- *)
(* 0. tactics                                                                                                      *)
(* ------------------------------------------------------------------------------------------------------------- *)
Ltac inv_step :=
  match goal with
  | H : bind ?m _ = Ok _ |- _ =>
      let a := fresh "a" in let Hm := fresh "Hm" in apply bind_ok in H; destruct H as (a & Hm & H)
  | H : (let '(_, _) := ?p in _) = Ok _ |- _ => destruct p; cbv beta iota in H
  | H : require ?b _ = Ok _ |- _ => apply require_ok in H
  | H : Err _ = Ok _ |- _ => discriminate H
  | u : unit |- _ => destruct u
  end.
Ltac inv_all := repeat inv_step.
Ltac ok_inj H := injection H; clear H; intros; subst.

Lemma key_eqb_true_iff a b : key_eqb a b = true <-> a = b.
Proof. split; [apply key_eqb_eq|intros ->; apply key_eqb_refl]. Qed.
Lemma key_eqb_sym a b : key_eqb a b = key_eqb b a.
Proof. destruct (key_eqb_spec a b) as [->|H]; [symmetry; apply key_eqb_refl|symmetry; apply key_eqb_neq; congruence]. Qed.
Ltac keq :=
  repeat match goal with
  | H : key_eqb _ _ = true |- _ => apply key_eqb_eq in H
  | H : negb _ = true |- _ => apply negb_true_iff in H
  | H : _ && _ = true |- _ => apply andb_true_iff in H; destruct H
  | H : (_ =? _) = true |- _ => apply N.eqb_eq in H
  | H : (_ =? _) = false |- _ => apply N.eqb_neq in H
  | H : (_ <=? _) = true |- _ => apply N.leb_le in H
  | H : (_ <? _) = true |- _ => apply N.ltb_lt in H
  end.

Ltac case_key a b :=
  let H := fresh "Hk" in
  destruct (key_eqb_spec a b) as [H|H];
  [ rewrite ?H in *; rewrite ?key_eqb_refl in * | rewrite ?(key_eqb_neq a b H) in * ].

(* ------------------------------------------------------------------------------------------------------------- *)
(* 1. worlds                                                                                                       *)
(* ------------------------------------------------------------------------------------------------------------- *)
Lemma get_put W k a k' : get (put W k a) k' = if key_eqb k k' then a else get W k'.
Proof. unfold get, put. cbn. rewrite lookup_upd. destruct (key_eqb k k'); reflexivity. Qed.
Lemma get_put_same W k a : get (put W k a) k = a.
Proof. rewrite get_put, key_eqb_refl. reflexivity. Qed.
Lemma get_put_other W k k' a : k <> k' -> get (put W k a) k' = get W k'.
Proof. intros. rewrite get_put, key_eqb_neq by assumption. reflexivity. Qed.
Lemma now_put W k a : now (put W k a) = now W.
Proof. reflexivity. Qed.
Lemma get_world0 k : get world0 k = empty_acct.
Proof. reflexivity. Qed.

(* field-wise view of an account update *)
Definition same_meta (a b : acct) : Prop := owner a = owner b /\ alen a = alen b /\ data a = data b.
Lemma same_meta_refl a : same_meta a a.
Proof. repeat split. Qed.
Lemma same_meta_trans a b c : same_meta a b -> same_meta b c -> same_meta a c.
Proof. unfold same_meta. intuition congruence. Qed.
Lemma acct_ext a b : lamports a = lamports b -> same_meta a b -> a = b.
Proof. destruct a, b; unfold same_meta; cbn. intros -> (-> & -> & ->). reflexivity. Qed.
Lemma set_lamports_meta a n : same_meta (a <| lamports := n |>) a.
Proof. destruct a; repeat split. Qed.
Lemma set_lamports_lam a n : lamports (a <| lamports := n |>) = n.
Proof. destruct a; reflexivity. Qed.
Lemma set_data_eq a d : a <| data := d |> = {| lamports := lamports a; owner := owner a; alen := alen a; data := d |}.
Proof. destruct a; reflexivity. Qed.

(* zero-lamport accounts disappear when the transaction ends *)
Lemma get_purge W k : get (purge W) k = if lamports (get W k) =? 0 then empty_acct else get W k.
Proof.
  unfold get, purge. cbn. induction (accts W) as [|[k' a] tl IH]; cbn; [reflexivity|].
  destruct (lamports a =? 0) eqn:E; cbn; destruct (key_eqb k k'); try assumption; rewrite ?E; reflexivity.
Qed.

(* membership helpers for meta lists *)
Lemma is_writable_head m tl : mwritable m = true -> is_writable (m :: tl) (mkey m) = true.
Proof. intros H. unfold is_writable. cbn [existsb]. rewrite key_eqb_refl, H. reflexivity. Qed.
Lemma is_writable_cons m tl k : is_writable tl k = true -> is_writable (m :: tl) k = true.
Proof. unfold is_writable. intros H. cbn [existsb]. rewrite H. apply orb_true_r. Qed.
Lemma is_writable_in ms k : is_writable ms k = true <-> exists m, In m ms /\ mkey m = k /\ mwritable m = true.
Proof. unfold is_writable. rewrite existsb_exists. split; intros (m & Hi & H).
  - apply andb_true_iff in H. destruct H as (H1 & H2). apply key_eqb_eq in H1. eauto.
  - destruct H as (<- & H). exists m. rewrite key_eqb_refl, H. auto. Qed.
Lemma is_signer_in ms k : is_signer ms k = true <-> exists m, In m ms /\ mkey m = k /\ msigner m = true.
Proof. unfold is_signer. rewrite existsb_exists. split; intros (m & Hi & H).
  - apply andb_true_iff in H. destruct H as (H1 & H2). apply key_eqb_eq in H1. eauto.
  - destruct H as (<- & H). exists m. rewrite key_eqb_refl, H. auto. Qed.
Lemma has_key_in ms k : has_key ms k = true <-> exists m, In m ms /\ mkey m = k.
Proof. unfold has_key. rewrite existsb_exists. split; intros (m & Hi & H).
  - apply key_eqb_eq in H. eauto.
  - subst. exists m. rewrite key_eqb_refl. auto. Qed.

(* ------------------------------------------------------------------------------------------------------------- *)
(* 2. characterising lemmas for the primitives                                                                     *)
(* ------------------------------------------------------------------------------------------------------------- *)
Lemma next_account_ok ms s wr own W m tl :
  next_account ms s wr own W = Ok (m, tl) ->
  ms = m :: tl /\ (s = true -> msigner m = true) /\ (wr = true -> mwritable m = true) /\
  (forall p, own = Some p -> owner (get W (mkey m)) = p).
Proof.
  destruct ms as [|m0 tl0]; cbn [next_account]; intros H; [discriminate|]. inv_all. ok_inj H.
  split; [reflexivity|]. split; [|split].
  - intros ->. cbn in Hm. exact Hm.
  - intros ->. cbn in Hm0. exact Hm0.
  - intros p ->. keq. exact Hm1.
Qed.
Lemma next_any_ok ms W m tl : next_any ms W = Ok (m, tl) -> ms = m :: tl.
Proof. intros H. apply next_account_ok in H. tauto. Qed.

(* lamports credited to k; nothing else changes *)
Lemma credit_ok cx W k amt W' :
  credit cx W k amt = Ok W' ->
  (amt = 0 \/ is_writable (cx_metas cx) k = true) /\ now W' = now W /\
  forall k', same_meta (get W' k') (get W k') /\
             lamports (get W' k') = lamports (get W k') + (if key_eqb k' k then amt else 0).
Proof.
  unfold credit. destruct (amt =? 0) eqn:E; intros H.
  - ok_inj H. keq. subst. split; [auto|]. split; [reflexivity|]. intros k'. split; [apply same_meta_refl|].
    destruct (key_eqb k' k); lia.
  - inv_all. ok_inj H. split; [auto|]. split; [reflexivity|]. intros k'. rewrite get_put, (key_eqb_sym k' k).
    destruct (key_eqb_spec k k') as [<-|Hne].
    + split; [apply set_lamports_meta|apply set_lamports_lam].
    + split; [apply same_meta_refl|lia].
Qed.

Lemma debit_ok cx W k amt W' :
  debit cx W k amt = Ok W' ->
  (amt = 0 \/ (is_writable (cx_metas cx) k = true /\ owner (get W k) = cx_prog cx)) /\
  amt <= lamports (get W k) /\ now W' = now W /\
  forall k', same_meta (get W' k') (get W k') /\
             lamports (get W' k') = lamports (get W k') - (if key_eqb k' k then amt else 0).
Proof.
  unfold debit. destruct (amt =? 0) eqn:E; intros H.
  - ok_inj H. keq. subst. split; [auto|]. split; [lia|]. split; [reflexivity|]. intros k'.
    split; [apply same_meta_refl|]. destruct (key_eqb k' k); lia.
  - inv_all. ok_inj H. keq. split; [auto|]. split; [assumption|]. split; [reflexivity|]. intros k'.
    rewrite get_put, (key_eqb_sym k' k). destruct (key_eqb_spec k k') as [<-|Hne].
    + split; [apply set_lamports_meta|apply set_lamports_lam].
    + split; [apply same_meta_refl|lia].
Qed.

Lemma set_lamports_to_zero_ok cx W k W' :
  set_lamports_to_zero cx W k = Ok W' ->
  (lamports (get W k) = 0 \/ (is_writable (cx_metas cx) k = true /\ owner (get W k) = cx_prog cx)) /\ now W' = now W /\
  forall k', same_meta (get W' k') (get W k') /\
             lamports (get W' k') = if key_eqb k' k then 0 else lamports (get W k').
Proof.
  unfold set_lamports_to_zero. intros H. apply debit_ok in H. destruct H as (H1 & _ & H2 & H3).
  split; [exact H1|]. split; [exact H2|]. intros k'. destruct (H3 k') as (Ha & Hb). split; [exact Ha|].
  rewrite Hb. destruct (key_eqb_spec k' k) as [->|]; lia.
Qed.

Lemma write_data_ok cx W k d W' :
  write_data cx W k d = Ok W' ->
  is_writable (cx_metas cx) k = true /\ owner (get W k) = cx_prog cx /\ W' = put W k (get W k <| data := d |>).
Proof. unfold write_data. intros H. inv_all. ok_inj H. keq. auto. Qed.

Lemma try_initialize_ok cx W k n d W' :
  try_initialize cx W k n d = Ok W' ->
  n <= alen (get W k) /\ data (get W k) = DEmpty /\ is_writable (cx_metas cx) k = true /\ owner (get W k) = cx_prog cx /\
  W' = put W k (get W k <| data := d |>).
Proof.
  unfold try_initialize. intros H. inv_all. apply write_data_ok in H. keq.
  destruct (data (get W k)) eqn:E; try discriminate Hm0. tauto.
Qed.
(* re-initialisation: an account that already carries typed data is never initialised again *)
Lemma try_initialize_nonempty_fails cx W k n d :
  data (get W k) <> DEmpty -> exists e, try_initialize cx W k n d = Err e.
Proof.
  intros Hne. destruct (try_initialize cx W k n d) as [W'|e] eqn:E; [|eauto].
  apply try_initialize_ok in E. tauto.
Qed.

Lemma cpi_metas_ok cx callee want pdas ms :
  cpi_metas cx callee want pdas = Ok ms ->
  has_key (cx_metas cx) callee = true /\
  (forall m, In m want -> has_key (cx_metas cx) (mkey m) = true /\
     (mwritable m = true -> is_writable (cx_metas cx) (mkey m) = true) /\
     (msigner m = true -> is_signer (cx_metas cx) (mkey m) = true \/ pda_signs (cx_prog cx) (mkey m) pdas = true)) /\
  ms = map (fun m => {| mkey := mkey m; msigner := is_signer want (mkey m); mwritable := is_writable want (mkey m) |}) want.
Proof.
  unfold cpi_metas. intros H. inv_all. ok_inj H. split; [assumption|]. split; [|reflexivity].
  rewrite forallb_forall in Hm0, Hm1, Hm2. intros m Hi. specialize (Hm0 m Hi). specialize (Hm1 m Hi). specialize (Hm2 m Hi).
  split; [assumption|]. split.
  - intros Hw. rewrite Hw in Hm1. exact Hm1.
  - intros Hs. rewrite Hs in Hm2. cbn in Hm2. apply orb_true_iff in Hm2. exact Hm2.
Qed.

Lemma sys_transfer_core_ok W ms from to amt W' :
  sys_transfer_core W ms from to amt = Ok W' ->
  is_signer ms from = true /\ alen (get W from) = 0 /\ amt <= lamports (get W from) /\
  (owner (get W from) = KSystem \/ amt = 0) /\ is_writable ms from = true /\ is_writable ms to = true /\ now W' = now W /\
  forall k, same_meta (get W' k) (get W k) /\
            lamports (get W' k) = lamports (get W k) - (if key_eqb k from then amt else 0) + (if key_eqb k to then amt else 0).
Proof.
  unfold sys_transfer_core. intros H. inv_all. ok_inj H. apply orb_true_iff in Hm2. keq.
  split; [assumption|]. split; [assumption|]. split; [assumption|].
  split; [destruct Hm2 as [Hm2|Hm2]; keq; auto|]. split; [assumption|]. split; [assumption|]. split; [reflexivity|].
  intros k. rewrite !get_put, (key_eqb_sym k from), (key_eqb_sym k to).
  destruct (key_eqb_spec to k) as [Hto|Hto]; destruct (key_eqb_spec from k) as [Hfrom|Hfrom]; try subst k.
  - subst to. rewrite key_eqb_refl. split; [eapply same_meta_trans; apply set_lamports_meta|]. rewrite !set_lamports_lam. lia.
  - rewrite (key_eqb_neq from to) by assumption. split; [apply set_lamports_meta|]. rewrite set_lamports_lam. lia.
  - split; [apply set_lamports_meta|]. rewrite set_lamports_lam. lia.
  - split; [apply same_meta_refl|lia].
Qed.

Lemma sys_allocate_core_ok W ms k space W' :
  sys_allocate_core W ms k space = Ok W' ->
  is_signer ms k = true /\ alen (get W k) = 0 /\ owner (get W k) = KSystem /\
  W' = put W k (get W k <| alen := space |> <| data := DEmpty |>).
Proof. unfold sys_allocate_core. intros H. inv_all. ok_inj H. keq. auto. Qed.

Lemma sys_assign_core_ok W ms k o W' :
  sys_assign_core W ms k o = Ok W' ->
  now W' = now W /\
  forall k', lamports (get W' k') = lamports (get W k') /\ alen (get W' k') = alen (get W k') /\ data (get W' k') = data (get W k') /\
             owner (get W' k') = if key_eqb k' k then o else owner (get W k').
Proof.
  unfold sys_assign_core. destruct (key_eqb (owner (get W k)) o) eqn:E; intros H.
  - ok_inj H. keq. split; [reflexivity|]. intros k'. destruct (key_eqb_spec k' k) as [->|]; auto.
  - inv_all. ok_inj H. split; [reflexivity|]. intros k'. rewrite get_put, (key_eqb_sym k' k).
    destruct (key_eqb_spec k k') as [<-|]; [destruct (get W k)|]; auto.
Qed.

Lemma sat_add_rent_pos a len : sat_add two64 a (rent len) <> 0.
Proof. unfold sat_add, rent, two64. destruct (_ <? _); lia. Qed.

Definition shortfall (W : world) (new_ : key) (len additional : N) : N :=
  sat_add two64 additional (rent len) - lamports (get W new_).

(* cpi_metas on a literal `want` list: the callee sees exactly the flags asked for *)
Lemma is_signer_mk2 k1 s1 w1 k2 s2 w2 k :
  is_signer [mk k1 s1 w1; mk k2 s2 w2] k = (key_eqb k1 k && s1) || (key_eqb k2 k && s2).
Proof. unfold is_signer, mk. cbn. rewrite orb_false_r. reflexivity. Qed.
Lemma is_writable_mk2 k1 s1 w1 k2 s2 w2 k :
  is_writable [mk k1 s1 w1; mk k2 s2 w2] k = (key_eqb k1 k && w1) || (key_eqb k2 k && w2).
Proof. unfold is_writable, mk. cbn. rewrite orb_false_r. reflexivity. Qed.

Lemma pda_signs_nil p k : pda_signs p k [] = false.
Proof. reflexivity. Qed.

(* try_create_account: the exact resulting account for the new key, the payer debited exactly the shortfall
   max 0 (additional + rent len - current) in both branches, nobody else changes *)
Lemma create_account_ok cx W payer new_ len new_owner additional W' :
  create_account cx W payer new_ len new_owner additional = Ok W' ->
  let short := shortfall W new_ len additional in
  alen (get W new_) = 0 /\ owner (get W new_) = KSystem /\ short <= lamports (get W payer) /\
  (short <> 0 -> is_signer (cx_metas cx) payer = true /\ is_writable (cx_metas cx) payer = true /\
                 (payer = new_ -> new_owner = KSystem)) /\
  has_key (cx_metas cx) KSystem = true /\ is_writable (cx_metas cx) new_ = true /\
  (is_signer (cx_metas cx) new_ = true \/ pda_signs (cx_prog cx) new_ [new_] = true) /\
  now W' = now W /\
  forall k,
    (if key_eqb k new_ then owner (get W' k) = new_owner /\ alen (get W' k) = len /\ data (get W' k) = DEmpty
     else same_meta (get W' k) (get W k)) /\
    lamports (get W' k) = lamports (get W k) - (if key_eqb k payer then short else 0) + (if key_eqb k new_ then short else 0).
Proof.
  unfold create_account, shortfall. set (lam := sat_add two64 additional (rent len)).
  assert (Hlam : lam <> 0) by apply sat_add_rent_pos. clearbody lam.
  destruct (lamports (get W new_) =? 0) eqn:Ecur; intros H; cbn zeta.
  - (* fresh address: one CreateAccount CPI *)
    keq. unfold sys_create_account in H. inv_all. apply cpi_metas_ok in Hm. destruct Hm as (Hsys & Hwant & ->).
    unfold sys_create_account_core in H. inv_all. apply sys_transfer_core_ok in H.
    destruct H as (Hsf & Haf & Hle & Hof & Hwf & Hwt & Hnow & Hpt). keq.
    rewrite get_put in Hle, Haf.
    destruct (key_eqb_spec new_ payer) as [<-|Hne].
    { (* payer = new address: impossible, it holds no lamports *)
      exfalso. destruct (get W new_); cbn in *. lia. }
    destruct (Hwant (mk payer true true)) as (_ & Hpw & Hps); [left; reflexivity|].
    destruct (Hwant (mk new_ true true)) as (_ & Hnw & Hns); [right; left; reflexivity|]. cbn in Hpw, Hps, Hnw, Hns.
    specialize (Hpw eq_refl). specialize (Hnw eq_refl). specialize (Hps eq_refl). specialize (Hns eq_refl).
    rewrite Ecur, N.sub_0_r.
    split; [assumption|]. split; [assumption|]. split; [assumption|]. split.
    { intros _. split; [|split; [assumption|congruence]]. destruct Hps as [Hps|Hps]; [assumption|].
      unfold pda_signs in Hps. cbn in Hps. rewrite orb_false_r in Hps. keq. congruence. }
    split; [assumption|]. split; [assumption|]. split; [assumption|]. split; [rewrite Hnow; reflexivity|].
    intros k. destruct (Hpt k) as (Hmeta & Hl). rewrite get_put in Hmeta, Hl. rewrite (key_eqb_sym new_ k) in Hmeta, Hl.
    case_key k new_.
    + destruct Hmeta as (Ho & Ha & Hd). destruct (get W new_); cbn in *. rewrite Ho, Ha, Hd. repeat split. rewrite Hl. lia.
    + split; [assumption|exact Hl].
  - (* pre-funded address: Allocate, Assign, Transfer of the difference *)
    keq. inv_all. unfold sys_allocate in Hm. inv_all. apply cpi_metas_ok in Hm1. destruct Hm1 as (Hsys & Hwant & ->).
    apply sys_allocate_core_ok in Hm. destruct Hm as (_ & Ha0 & Ho0 & ->).
    unfold sys_assign in Hm0. inv_all. clear Hm. apply sys_assign_core_ok in Hm0. destruct Hm0 as (Hnow1 & Hasg).
    destruct (Hwant (mk new_ true true)) as (_ & Hnw & Hns); [left; reflexivity|]. cbn in Hnw, Hns.
    specialize (Hnw eq_refl). specialize (Hns eq_refl).
    assert (Hmid : forall k, (if key_eqb k new_ then owner (get a0 k) = new_owner /\ alen (get a0 k) = len /\ data (get a0 k) = DEmpty
                              else same_meta (get a0 k) (get W k)) /\ lamports (get a0 k) = lamports (get W k)).
    { intros k. destruct (Hasg k) as (Hl & Hal & Hd & Ho). rewrite get_put in Hl, Hal, Hd, Ho. rewrite (key_eqb_sym new_ k) in *.
      case_key k new_.
      - destruct (get W new_); cbn in *. auto.
      - unfold same_meta. auto. }
    destruct (lam - lamports (get W new_) =? 0) eqn:Ediff.
    + ok_inj H. keq. rewrite Ediff.
      split; [assumption|]. split; [assumption|]. split; [lia|]. split; [intros; congruence|].
      split; [assumption|]. split; [assumption|]. split; [assumption|]. split; [rewrite Hnow1; reflexivity|].
      intros k. destruct (Hmid k) as (Hx & Hy). split; [exact Hx|]. rewrite Hy. destruct (key_eqb k payer), (key_eqb k new_); lia.
    + unfold sys_transfer in H. inv_all. apply cpi_metas_ok in Hm. destruct Hm as (_ & Hwant2 & ->).
      destruct (Hwant2 (mk payer true true)) as (_ & Hpw & Hps); [left; reflexivity|]. cbn [mkey msigner mwritable mk] in Hpw, Hps.
      specialize (Hpw eq_refl). specialize (Hps eq_refl). rewrite pda_signs_nil in Hps. destruct Hps as [Hps|Hps]; [|discriminate].
      apply sys_transfer_core_ok in H. destruct H as (_ & _ & Hle & Hof & _ & _ & Hnow2 & Hpt).
      destruct (Hmid payer) as (Hmp & Hlp). rewrite Hlp in Hle. keq.
      split; [assumption|]. split; [assumption|]. split; [assumption|]. split.
      { intros _. split; [assumption|]. split; [assumption|]. intros ->. rewrite key_eqb_refl in Hmp.
        destruct Hof as [Hof|Hof]; [|contradiction]. destruct Hmp as (<- & _). exact Hof. }
      split; [assumption|]. split; [assumption|]. split; [assumption|]. split; [rewrite Hnow2, Hnow1; reflexivity|].
      intros k. destruct (Hmid k) as (Hx & Hy). destruct (Hpt k) as (Hmeta & Hl). rewrite Hy in Hl. split; [|exact Hl].
      destruct (key_eqb k new_); [|eapply same_meta_trans; eassumption].
      destruct Hmeta as (-> & -> & ->). exact Hx.
Qed.

(* an address that is already allocated or assigned is never created again *)
Lemma create_account_existing_fails cx W payer new_ len new_owner additional :
  alen (get W new_) <> 0 \/ owner (get W new_) <> KSystem ->
  exists e, create_account cx W payer new_ len new_owner additional = Err e.
Proof.
  intros Hex. destruct (create_account cx W payer new_ len new_owner additional) as [W'|e] eqn:E; [|eauto].
  apply create_account_ok in E. cbn zeta in E. tauto.
Qed.

(* ------------------------------------------------------------------------------------------------------------- *)
(* 3. account-shape helpers of the passport processor                                                              *)
(* ------------------------------------------------------------------------------------------------------------- *)
Lemma pp_zc_config_ok ms w W ck c tl :
  pp_zc_config ms w W = Ok (ck, c, tl) ->
  exists m, ms = m :: tl /\ ck = mkey m /\ (w = true -> mwritable m = true) /\
            owner (get W ck) = KPassport /\ data (get W ck) = DPpConfig c.
Proof.
  unfold pp_zc_config. intros H. inv_all. apply next_account_ok in Hm. destruct Hm as (-> & _ & Hw & Ho).
  specialize (Ho _ eq_refl). destruct (data (get W (mkey m))) eqn:E; try discriminate H. ok_inj H. eauto 10.
Qed.
Lemma pp_zc_request_ok ms W rk r tl :
  pp_zc_request ms W = Ok (rk, r, tl) ->
  exists m, ms = m :: tl /\ rk = mkey m /\ owner (get W rk) = KPassport /\ data (get W rk) = DAccessReq r.
Proof.
  unfold pp_zc_request. intros H. inv_all. apply next_account_ok in Hm. destruct Hm as (-> & _ & _ & Ho).
  specialize (Ho _ eq_refl). destruct (data (get W (mkey m))) eqn:E; try discriminate H. ok_inj H. eauto 10.
Qed.
Definition authority_key (who : pp_authority) (c : pp_config) : key :=
  match who with PAAdmin => pc_admin c | PASentinel => pc_sentinel c end.
Lemma pp_verified_ok ms w who W ck c a tl :
  pp_verified ms w who W = Ok (ck, c, a, tl) ->
  exists m0 m1, ms = m0 :: m1 :: tl /\ ck = mkey m0 /\ a = mkey m1 /\ (w = true -> mwritable m0 = true) /\
                owner (get W ck) = KPassport /\ data (get W ck) = DPpConfig c /\
                msigner m1 = true /\ mkey m1 = authority_key who c.
Proof.
  unfold pp_verified. intros H. inv_all. apply pp_zc_config_ok in Hm. destruct Hm as (m0 & -> & -> & Hw & Ho & Hd).
  apply next_account_ok in Hm0. destruct Hm0 as (-> & Hs & _ & _). specialize (Hs eq_refl). ok_inj H. keq.
  exists m0, m. unfold authority_key. destruct who; auto 10.
Qed.
Lemma next_upgrade_authority_ok ms prog W a tl :
  next_upgrade_authority ms prog W = Ok (a, tl) ->
  exists pd ow, ms = pd :: ow :: tl /\ mkey pd = KProgData prog /\ data (get W (KProgData prog)) = DProgData (Some a) /\
                mkey ow = a /\ msigner ow = true.
Proof.
  unfold next_upgrade_authority. intros H. inv_all. apply next_any_ok in Hm. subst ms. keq.
  apply next_account_ok in Hm1. destruct Hm1 as (-> & Hs & _ & _). specialize (Hs eq_refl). rewrite Hm0 in H.
  destruct (data (get W (KProgData prog))) as [| | | | | | | | | | |[auth|]| |] eqn:E; try discriminate H.
  inv_all. ok_inj H. keq. exists m, m0. subst auth. auto 10.
Qed.

(* ------------------------------------------------------------------------------------------------------------- *)
(* 4. the six processors: success => every guard, and the exact resulting world                                    *)
(* ------------------------------------------------------------------------------------------------------------- *)
Definition lam_config : N := sat_add two64 0 (rent LEN_PP_CONFIG).

Lemma pp_initialize_program_ok cx W W' :
  pp_initialize_program cx W = Ok W' ->
  exists m0 m1 rest,
    cx_metas cx = m0 :: m1 :: rest /\ mkey m1 = KPpConfig /\ cx_prog cx = KPassport /\
    alen (get W KPpConfig) = 0 /\ owner (get W KPpConfig) = KSystem /\
    let short := shortfall W KPpConfig LEN_PP_CONFIG 0 in
    short <= lamports (get W (mkey m0)) /\
    (short <> 0 -> is_signer (cx_metas cx) (mkey m0) = true /\ is_writable (cx_metas cx) (mkey m0) = true) /\
    now W' = now W /\
    forall k,
      (if key_eqb k KPpConfig
       then owner (get W' k) = KPassport /\ alen (get W' k) = LEN_PP_CONFIG /\ data (get W' k) = DPpConfig pp_config_default
       else same_meta (get W' k) (get W k)) /\
      lamports (get W' k) = lamports (get W k) - (if key_eqb k (mkey m0) then short else 0)
                            + (if key_eqb k KPpConfig then short else 0).
Proof.
  unfold pp_initialize_program. intros H. inv_all. apply next_any_ok in Hm, Hm0. keq. subst l.
  apply create_account_ok in Hm2. cbn zeta in Hm2. destruct Hm2 as (Ha & Ho & Hle & Hsig & _ & _ & _ & Hnow & Hpt).
  apply try_initialize_ok in H. destruct H as (_ & _ & _ & Hprog & ->).
  destruct (Hpt KPpConfig) as (Hc & _). rewrite key_eqb_refl in Hc. destruct Hc as (Hoc & _). rewrite Hoc in Hprog.
  exists m, m0, l0. cbn zeta. split; [assumption|]. split; [assumption|]. split; [congruence|].
  split; [assumption|]. split; [assumption|]. split; [assumption|]. split; [tauto|]. split; [rewrite now_put; assumption|].
  intros k. rewrite get_put, (key_eqb_sym KPpConfig k). destruct (Hpt k) as (Hx & Hy). case_key k KPpConfig.
  - destruct Hx as (Hx1 & Hx2 & Hx3). rewrite set_data_eq. cbn [owner alen data lamports]. auto.
  - auto.
Qed.

Lemma pp_set_admin_ok cx W admin W' :
  pp_set_admin cx W admin = Ok W' ->
  exists m0 m1 m2 rest auth c,
    cx_metas cx = m0 :: m1 :: m2 :: rest /\
    mkey m0 = KProgData KPassport /\ data (get W (KProgData KPassport)) = DProgData (Some auth) /\
    mkey m1 = auth /\ msigner m1 = true /\
    mwritable m2 = true /\ owner (get W (mkey m2)) = KPassport /\ data (get W (mkey m2)) = DPpConfig c /\
    cx_prog cx = KPassport /\
    W' = put W (mkey m2) (get W (mkey m2) <| data := DPpConfig (c <| pc_admin := admin |>) |>).
Proof.
  unfold pp_set_admin. intros H. inv_all. apply next_upgrade_authority_ok in Hm. destruct Hm as (pd & ow & Hms & Hpd & Hd & How & Hs).
  apply pp_zc_config_ok in Hm0. destruct Hm0 as (m2 & -> & -> & Hw & Ho & Hc). specialize (Hw eq_refl).
  apply write_data_ok in H. destruct H as (_ & Hprog & ->). exists pd, ow, m2. do 3 eexists.
  repeat (split; [first [eassumption|congruence]|]). reflexivity.
Qed.

(* the validation ConfigureProgram applies to a setting, as a pure function *)
Definition apply_setting (c : pp_config) (s : pp_setting) : option pp_config :=
  match s with
  | PSFlag (PFIsPaused b) => Some (c <| pc_paused := b |>)
  | PSFlag (PFIsRequestAccessPaused b) => Some (c <| pc_request_paused := b |>)
  | PSSentinel k => Some (c <| pc_sentinel := k |>)
  | PSAccessRequestDeposit dep fee =>
      if negb (dep =? 0) && (fee <? dep) then Some (c <| pc_deposit := dep |> <| pc_fee := fee |>) else None
  | PSBackupIdsLimit l => if negb (l =? 0) then Some (c <| pc_backup_limit := l |>) else None
  end.

Lemma pp_configure_program_ok cx W s W' :
  pp_configure_program cx W s = Ok W' ->
  exists m0 m1 rest c c',
    cx_metas cx = m0 :: m1 :: rest /\
    mwritable m0 = true /\ owner (get W (mkey m0)) = KPassport /\ data (get W (mkey m0)) = DPpConfig c /\
    msigner m1 = true /\ mkey m1 = pc_admin c /\ cx_prog cx = KPassport /\
    apply_setting c s = Some c' /\
    W' = put W (mkey m0) (get W (mkey m0) <| data := DPpConfig c' |>).
Proof.
  unfold pp_configure_program. intros H. inv_all. apply pp_verified_ok in Hm.
  destruct Hm as (m0 & m1 & Hms & -> & -> & Hw & Ho & Hd & Hs & Hk). specialize (Hw eq_refl). cbn in Hk.
  apply write_data_ok in H. destruct H as (_ & Hprog & ->).
  match goal with |- context [DPpConfig ?c'] => exists m0, m1; do 2 eexists; exists c' end.
  repeat (split; [first [eassumption|congruence]|]). split; [|reflexivity].
  destruct s as [[b|b]|k|dep fee|lim]; cbn [apply_setting]; try (ok_inj Hm0; reflexivity).
  - inv_all. ok_inj Hm0. rewrite Hm, Hm1. reflexivity.
  - inv_all. ok_inj Hm0. rewrite Hm. reflexivity.
Qed.

Definition mode_ok (c : pp_config) (mode : access_mode) : Prop :=
  match mode with
  | AMValidator _ => True
  | AMValidatorWithBackups _ b => b <> [] /\ N.of_nat (length b) <= pc_backup_limit c
  end.

Lemma pp_request_access_ok cx W mode W' :
  pp_request_access cx W mode = Ok W' ->
  let svc := access_mode_service mode in
  let rk := KPpRequest svc in
  exists m0 m1 m2 rest c,
    cx_metas cx = m0 :: m1 :: m2 :: rest /\ cx_height cx = 1 /\ cx_prog cx = KPassport /\
    owner (get W (mkey m0)) = KPassport /\ data (get W (mkey m0)) = DPpConfig c /\
    pc_paused c = false /\ pc_request_paused c = false /\ mode_ok c mode /\
    svc <> default_key /\ pc_deposit c <> 0 /\ mkey m2 = rk /\ access_mode_len mode <= ACCESS_MODE_MAX /\
    alen (get W rk) = 0 /\ owner (get W rk) = KSystem /\
    let short := shortfall W rk LEN_ACCESS_REQ (pc_deposit c) in
    short <= lamports (get W (mkey m1)) /\
    (short <> 0 -> is_signer (cx_metas cx) (mkey m1) = true /\ is_writable (cx_metas cx) (mkey m1) = true /\ mkey m1 <> rk) /\
    now W' = now W /\
    forall k,
      (if key_eqb k rk
       then owner (get W' k) = KPassport /\ alen (get W' k) = LEN_ACCESS_REQ /\
            data (get W' k) = DAccessReq {| ar_service := svc; ar_beneficiary := mkey m1; ar_fee := pc_fee c; ar_mode := mode |}
       else same_meta (get W' k) (get W k)) /\
      lamports (get W' k) = lamports (get W k) - (if key_eqb k (mkey m1) then short else 0) + (if key_eqb k rk then short else 0).
Proof.
  unfold pp_request_access. intros H. inv_all. cbn zeta.
  match goal with H : pp_zc_config _ _ _ = Ok _ |- _ =>
    apply pp_zc_config_ok in H; destruct H as (mcfg & Hms & Hck & _ & Ho & Hd) end.
  repeat match goal with H : next_any _ _ = Ok _ |- _ => apply next_any_ok in H end.
  match goal with H : create_account _ _ _ _ _ _ _ = Ok _ |- _ =>
    apply create_account_ok in H; cbn zeta in H; destruct H as (Ha & Hos & Hle & Hsig & _ & _ & _ & Hnow & Hpt) end.
  apply try_initialize_ok in H. destruct H as (_ & _ & _ & Hprog & ->).
  subst. keq.
  set (rk := KPpRequest (access_mode_service mode)) in *.
  destruct (Hpt rk) as (Hc & _). rewrite key_eqb_refl in Hc. destruct Hc as (Hoc & _). rewrite Hoc in Hprog. symmetry in Hprog.
  exists mcfg. do 4 eexists. split; [eassumption|]. split; [assumption|]. split; [assumption|].
  split; [assumption|]. split; [eassumption|]. split; [assumption|]. split; [assumption|]. split.
  { destruct mode as [a|a b]; cbn [mode_ok]; [exact I|].
    match goal with Hmode : bind _ _ = Ok _ |- _ => rename Hmode into Hmode' end. inv_all. keq.
    split; [|assumption]. intros ->. cbn in *. lia. }
  split. { intros E. match goal with Hdef : is_default _ = false |- _ => unfold is_default in Hdef; rewrite E, key_eqb_refl in Hdef; discriminate end. }
  split; [assumption|]. split; [assumption|]. split; [assumption|]. split; [assumption|]. split; [assumption|].
  split; [assumption|]. split.
  { intros Hs. destruct (Hsig Hs) as (H1 & H2 & H3). split; [assumption|]. split; [assumption|]. intros E. specialize (H3 E). discriminate. }
  split; [rewrite now_put; assumption|].
  intros k. rewrite get_put, (key_eqb_sym rk k). destruct (Hpt k) as (Hx & Hy). case_key k rk.
  - destruct Hx as (Hx1 & Hx2 & Hx3). rewrite set_data_eq. cbn [owner alen data lamports]. auto.
  - auto.
Qed.

Lemma pp_grant_access_ok cx W W' :
  pp_grant_access cx W = Ok W' ->
  exists m0 m1 m2 m3 rest c r,
    cx_metas cx = m0 :: m1 :: m2 :: m3 :: rest /\
    owner (get W (mkey m0)) = KPassport /\ data (get W (mkey m0)) = DPpConfig c /\
    msigner m1 = true /\ mkey m1 = pc_sentinel c /\ pc_paused c = false /\
    owner (get W (mkey m2)) = KPassport /\ data (get W (mkey m2)) = DAccessReq r /\
    mkey m3 = ar_beneficiary r /\
    mkey m1 <> mkey m2 /\ mkey m3 <> mkey m2 /\
    let bal := lamports (get W (mkey m2)) in
    (bal = 0 \/ (is_writable (cx_metas cx) (mkey m2) = true /\ cx_prog cx = KPassport)) /\
    (ar_fee r = 0 \/ is_writable (cx_metas cx) (mkey m1) = true) /\
    (bal - ar_fee r = 0 \/ is_writable (cx_metas cx) (mkey m3) = true) /\
    now W' = now W /\
    forall k, same_meta (get W' k) (get W k) /\
      lamports (get W' k) = (if key_eqb k (mkey m2) then 0 else lamports (get W k))
                            + (if key_eqb k (mkey m1) then ar_fee r else 0)
                            + (if key_eqb k (mkey m3) then bal - ar_fee r else 0).
Proof.
  unfold pp_grant_access. intros H. inv_all.
  match goal with H : pp_verified _ _ _ _ = Ok _ |- _ =>
    apply pp_verified_ok in H; destruct H as (m0 & m1 & Hms & ? & ? & _ & Ho & Hd & Hs & Hk) end. cbn in Hk.
  match goal with H : pp_zc_request _ _ = Ok _ |- _ =>
    apply pp_zc_request_ok in H; destruct H as (m2 & ? & ? & Hor & Hdr) end.
  match goal with H : next_any _ _ = Ok (?mb, _) |- _ => apply next_any_ok in H; rename mb into m3 end.
  match goal with H : set_lamports_to_zero _ _ _ = Ok _ |- _ =>
    apply set_lamports_to_zero_ok in H; destruct H as (Hz & Hn1 & Hp1) end.
  match goal with H : credit _ _ _ (ar_fee _) = Ok _ |- _ => apply credit_ok in H; destruct H as (Hc1 & Hn2 & Hp2) end.
  apply credit_ok in H. destruct H as (Hc2 & Hn3 & Hp3).
  subst. keq.
  exists m0, m1, m2, m3. do 3 eexists. cbn zeta.
  split; [eassumption|]. split; [assumption|]. split; [eassumption|]. split; [assumption|]. split; [assumption|].
  split; [assumption|]. split; [assumption|]. split; [eassumption|]. split; [assumption|].
  split. { intros E. match goal with Hne : key_eqb (mkey m1) (mkey m2) = false |- _ => rewrite E, key_eqb_refl in Hne; discriminate end. }
  split. { intros E. match goal with Hne : key_eqb (mkey m3) (mkey m2) = false |- _ => rewrite E, key_eqb_refl in Hne; discriminate end. }
  split. { destruct Hz as [Hz|(Hz1 & Hz2)]; [left; assumption|right; split; [assumption|congruence]]. }
  split; [assumption|]. split; [assumption|]. split; [congruence|].
  intros k. destruct (Hp1 k) as (Ha1 & Hb1), (Hp2 k) as (Ha2 & Hb2), (Hp3 k) as (Ha3 & Hb3).
  split; [eapply same_meta_trans; [eassumption|eapply same_meta_trans; eassumption]|].
  rewrite Hb3, Hb2, Hb1. reflexivity.
Qed.

Lemma pp_deny_access_ok cx W W' :
  pp_deny_access cx W = Ok W' ->
  exists m0 m1 m2 rest c r,
    cx_metas cx = m0 :: m1 :: m2 :: rest /\
    owner (get W (mkey m0)) = KPassport /\ data (get W (mkey m0)) = DPpConfig c /\
    msigner m1 = true /\ mkey m1 = pc_sentinel c /\ pc_paused c = false /\
    owner (get W (mkey m2)) = KPassport /\ data (get W (mkey m2)) = DAccessReq r /\
    mkey m1 <> mkey m2 /\
    let bal := lamports (get W (mkey m2)) in
    (bal = 0 \/ (is_writable (cx_metas cx) (mkey m2) = true /\ cx_prog cx = KPassport /\ is_writable (cx_metas cx) (mkey m1) = true)) /\
    now W' = now W /\
    forall k, same_meta (get W' k) (get W k) /\
      lamports (get W' k) = (if key_eqb k (mkey m2) then 0 else lamports (get W k)) + (if key_eqb k (mkey m1) then bal else 0).
Proof.
  unfold pp_deny_access. intros H. inv_all.
  match goal with H : pp_verified _ _ _ _ = Ok _ |- _ =>
    apply pp_verified_ok in H; destruct H as (m0 & m1 & Hms & ? & ? & _ & Ho & Hd & Hs & Hk) end. cbn in Hk.
  match goal with H : pp_zc_request _ _ = Ok _ |- _ =>
    apply pp_zc_request_ok in H; destruct H as (m2 & ? & ? & Hor & Hdr) end.
  match goal with H : set_lamports_to_zero _ _ _ = Ok _ |- _ =>
    apply set_lamports_to_zero_ok in H; destruct H as (Hz & Hn1 & Hp1) end.
  apply credit_ok in H. destruct H as (Hc1 & Hn2 & Hp2).
  subst. keq.
  exists m0, m1, m2. do 3 eexists. cbn zeta.
  split; [eassumption|]. split; [assumption|]. split; [eassumption|]. split; [assumption|]. split; [assumption|].
  split; [assumption|]. split; [assumption|]. split; [eassumption|].
  split. { intros E. match goal with Hne : key_eqb (mkey m1) (mkey m2) = false |- _ => rewrite E, key_eqb_refl in Hne; discriminate end. }
  split. { destruct Hz as [Hz|(Hz1 & Hz2)]; [left; assumption|]. destruct Hc1 as [Hc1|Hc1]; [left; assumption|].
           right. split; [assumption|]. split; [congruence|assumption]. }
  split; [congruence|].
  intros k. destruct (Hp1 k) as (Ha1 & Hb1), (Hp2 k) as (Ha2 & Hb2).
  split; [eapply same_meta_trans; eassumption|]. rewrite Hb2, Hb1. reflexivity.
Qed.

(* ------------------------------------------------------------------------------------------------------------- *)
(* 5. converses (the guards are also sufficient) for the two admin instructions                                    *)
(* ------------------------------------------------------------------------------------------------------------- *)
Lemma not_ok_fails {A} (r : result A) : (forall a, r <> Ok a) -> is_ok r = false.
Proof. destruct r; intros H; [exfalso; eapply H; reflexivity|reflexivity]. Qed.
Lemma is_ok_true {A} (r : result A) : is_ok r = true <-> exists a, r = Ok a.
Proof. destruct r; cbn; split; intros H; eauto; try discriminate. destruct H; discriminate. Qed.
Lemma pp_zc_config_fwd m tl w W c :
  (w = true -> mwritable m = true) -> owner (get W (mkey m)) = KPassport -> data (get W (mkey m)) = DPpConfig c ->
  pp_zc_config (m :: tl) w W = Ok (mkey m, c, tl).
Proof.
  intros Hw Ho Hd. unfold pp_zc_config. cbn [next_account]. rewrite Ho.
  replace (negb w || mwritable m) with true by (destruct w; [rewrite Hw; reflexivity|reflexivity]).
  cbn [negb orb require bind key_eqb]. rewrite Hd. reflexivity.
Qed.
Lemma pp_verified_fwd m0 m1 tl w who W c :
  (w = true -> mwritable m0 = true) -> owner (get W (mkey m0)) = KPassport -> data (get W (mkey m0)) = DPpConfig c ->
  msigner m1 = true -> mkey m1 = authority_key who c ->
  pp_verified (m0 :: m1 :: tl) w who W = Ok (mkey m0, c, mkey m1, tl).
Proof.
  intros Hw Ho Hd Hs Hk. unfold pp_verified. rewrite (pp_zc_config_fwd _ _ _ _ c) by assumption.
  cbn [bind next_account]. rewrite Hs. cbn [negb orb require bind]. rewrite Hk.
  destruct who; cbn [authority_key]; rewrite key_eqb_refl; reflexivity.
Qed.
Lemma write_data_fwd cx W k d :
  is_writable (cx_metas cx) k = true -> owner (get W k) = cx_prog cx ->
  write_data cx W k d = Ok (put W k (get W k <| data := d |>)).
Proof. intros Hw Ho. unfold write_data. rewrite Hw, Ho, key_eqb_refl. reflexivity. Qed.

Lemma pp_configure_program_complete cx W s m0 m1 rest c c' :
  cx_metas cx = m0 :: m1 :: rest ->
  mwritable m0 = true -> owner (get W (mkey m0)) = KPassport -> data (get W (mkey m0)) = DPpConfig c ->
  msigner m1 = true -> mkey m1 = pc_admin c -> cx_prog cx = KPassport -> apply_setting c s = Some c' ->
  pp_configure_program cx W s = Ok (put W (mkey m0) (get W (mkey m0) <| data := DPpConfig c' |>)).
Proof.
  intros Hms Hw Ho Hd Hs Hk Hp Ha.
  unfold pp_configure_program. rewrite Hms, (pp_verified_fwd _ _ _ _ PAAdmin _ c) by auto. cbn [bind].
  assert (Hwd : forall d, write_data cx W (mkey m0) d = Ok (put W (mkey m0) (get W (mkey m0) <| data := d |>))).
  { intros d. apply write_data_fwd; [rewrite Hms; apply is_writable_head; assumption|congruence]. }
  destruct s as [[b|b]|k|dep fee|lim]; cbn [apply_setting] in Ha.
  - ok_inj Ha. cbn [bind]. apply Hwd.
  - ok_inj Ha. cbn [bind]. apply Hwd.
  - ok_inj Ha. cbn [bind]. apply Hwd.
  - destruct (negb (dep =? 0)) eqn:E1; [|discriminate]. destruct (fee <? dep) eqn:E2; [|discriminate].
    cbn [andb] in Ha. ok_inj Ha. cbn [bind require]. apply Hwd.
  - destruct (negb (lim =? 0)) eqn:E1; [|discriminate]. ok_inj Ha. cbn [bind require]. apply Hwd.
Qed.

Lemma pp_set_admin_complete cx W admin m0 m1 m2 rest auth c :
  cx_metas cx = m0 :: m1 :: m2 :: rest ->
  mkey m0 = KProgData KPassport -> data (get W (KProgData KPassport)) = DProgData (Some auth) ->
  mkey m1 = auth -> msigner m1 = true ->
  mwritable m2 = true -> owner (get W (mkey m2)) = KPassport -> data (get W (mkey m2)) = DPpConfig c ->
  cx_prog cx = KPassport ->
  pp_set_admin cx W admin = Ok (put W (mkey m2) (get W (mkey m2) <| data := DPpConfig (c <| pc_admin := admin |>) |>)).
Proof.
  intros Hms H0 Hd H1 Hs Hw Ho Hc Hp.
  unfold pp_set_admin, next_upgrade_authority, next_any. rewrite Hms. cbn [next_account negb orb require bind].
  rewrite H0, key_eqb_refl, Hs. cbn [negb orb require bind]. rewrite Hd, H1, key_eqb_refl. cbn [require bind].
  rewrite (pp_zc_config_fwd _ _ _ _ c) by auto. cbn [bind].
  apply write_data_fwd; [rewrite Hms; apply is_writable_cons, is_writable_cons, is_writable_head; assumption|congruence].
Qed.

(* ------------------------------------------------------------------------------------------------------------- *)
(* 6. passport rows of C07 (authority), C08 (pause), C09 (identity)                                                *)
(* ------------------------------------------------------------------------------------------------------------- *)
Lemma nthk_0 m tl : nthk (m :: tl) 0 = mkey m. Proof. reflexivity. Qed.
Lemma nthk_1 m0 m tl : nthk (m0 :: m :: tl) 1 = mkey m. Proof. reflexivity. Qed.
Lemma nthk_2 m0 m1 m tl : nthk (m0 :: m1 :: m :: tl) 2 = mkey m. Proof. reflexivity. Qed.
Lemma nthk_3 m0 m1 m2 m tl : nthk (m0 :: m1 :: m2 :: m :: tl) 3 = mkey m. Proof. reflexivity. Qed.
Lemma is_signer_1 m0 m1 tl : msigner m1 = true -> is_signer (m0 :: m1 :: tl) (mkey m1) = true.
Proof. intros H. unfold is_signer. cbn [existsb]. rewrite key_eqb_refl, H. cbn. apply orb_true_r. Qed.

(* a KPassport-owned account carrying a ProgramConfig / an AccessRequest *)
Definition is_pp_config (W : world) (k : key) (c : pp_config) : Prop := owner (get W k) = KPassport /\ data (get W k) = DPpConfig c.
Definition is_pp_request (W : world) (k : key) (r : access_request) : Prop := owner (get W k) = KPassport /\ data (get W k) = DAccessReq r.

(* ---- C07: authority ---- *)
(* SetAdmin: account 0 is the program's ProgramData account and account 1 is its upgrade authority, who signed *)
Lemma pp_set_admin_authority cx W admin W' :
  pp_set_admin cx W admin = Ok W' ->
  exists auth, nthk (cx_metas cx) 0 = KProgData KPassport /\ data (get W (KProgData KPassport)) = DProgData (Some auth) /\
               nthk (cx_metas cx) 1 = auth /\ is_signer (cx_metas cx) auth = true.
Proof.
  intros H. apply pp_set_admin_ok in H. destruct H as (m0 & m1 & m2 & rest & auth & c & Hms & H0 & Hd & H1 & Hs & _).
  exists auth. rewrite Hms. rewrite nthk_0, nthk_1. subst auth. auto using is_signer_1.
Qed.
(* ConfigureProgram: account 1 is the admin recorded in the config at account 0, and signed *)
Lemma pp_configure_program_authority cx W s W' :
  pp_configure_program cx W s = Ok W' ->
  exists c, is_pp_config W (nthk (cx_metas cx) 0) c /\ nthk (cx_metas cx) 1 = pc_admin c /\ is_signer (cx_metas cx) (pc_admin c) = true.
Proof.
  intros H. apply pp_configure_program_ok in H. destruct H as (m0 & m1 & rest & c & c' & Hms & _ & Ho & Hd & Hs & Hk & _).
  exists c. rewrite Hms, nthk_0, nthk_1. unfold is_pp_config. rewrite <- Hk. auto using is_signer_1.
Qed.
(* GrantAccess / DenyAccess: account 1 is the sentinel recorded in the config at account 0, and signed *)
Lemma pp_grant_access_authority cx W W' :
  pp_grant_access cx W = Ok W' ->
  exists c, is_pp_config W (nthk (cx_metas cx) 0) c /\ nthk (cx_metas cx) 1 = pc_sentinel c /\ is_signer (cx_metas cx) (pc_sentinel c) = true.
Proof.
  intros H. apply pp_grant_access_ok in H. destruct H as (m0 & m1 & m2 & m3 & rest & c & r & Hms & Ho & Hd & Hs & Hk & _).
  exists c. rewrite Hms, nthk_0, nthk_1. unfold is_pp_config. rewrite <- Hk. auto using is_signer_1.
Qed.
Lemma pp_deny_access_authority cx W W' :
  pp_deny_access cx W = Ok W' ->
  exists c, is_pp_config W (nthk (cx_metas cx) 0) c /\ nthk (cx_metas cx) 1 = pc_sentinel c /\ is_signer (cx_metas cx) (pc_sentinel c) = true.
Proof.
  intros H. apply pp_deny_access_ok in H. destruct H as (m0 & m1 & m2 & rest & c & r & Hms & Ho & Hd & Hs & Hk & _).
  exists c. rewrite Hms, nthk_0, nthk_1. unfold is_pp_config. rewrite <- Hk. auto using is_signer_1.
Qed.
(* without the authority's signature the instruction fails *)
Lemma pp_configure_program_unsigned_fails cx W s c :
  data (get W (nthk (cx_metas cx) 0)) = DPpConfig c -> is_signer (cx_metas cx) (pc_admin c) = false ->
  is_ok (pp_configure_program cx W s) = false.
Proof.
  intros Hd Hs. apply not_ok_fails. intros W' H. apply pp_configure_program_authority in H.
  destruct H as (c0 & (_ & Hd0) & _ & Hs0). congruence.
Qed.
Lemma pp_grant_access_unsigned_fails cx W c :
  data (get W (nthk (cx_metas cx) 0)) = DPpConfig c -> is_signer (cx_metas cx) (pc_sentinel c) = false ->
  is_ok (pp_grant_access cx W) = false.
Proof.
  intros Hd Hs. apply not_ok_fails. intros W' H. apply pp_grant_access_authority in H.
  destruct H as (c0 & (_ & Hd0) & _ & Hs0). congruence.
Qed.
Lemma pp_deny_access_unsigned_fails cx W c :
  data (get W (nthk (cx_metas cx) 0)) = DPpConfig c -> is_signer (cx_metas cx) (pc_sentinel c) = false ->
  is_ok (pp_deny_access cx W) = false.
Proof.
  intros Hd Hs. apply not_ok_fails. intros W' H. apply pp_deny_access_authority in H.
  destruct H as (c0 & (_ & Hd0) & _ & Hs0). congruence.
Qed.
Lemma pp_set_admin_unsigned_fails cx W admin auth :
  data (get W (KProgData KPassport)) = DProgData auth ->
  match auth with Some a => is_signer (cx_metas cx) a = false | None => True end ->
  is_ok (pp_set_admin cx W admin) = false.
Proof.
  intros Hd Hs. apply not_ok_fails. intros W' H. apply pp_set_admin_authority in H.
  destruct H as (a & _ & Hd0 & _ & Hs0). rewrite Hd in Hd0. ok_inj Hd0. congruence.
Qed.

(* ---- C08: pause ---- *)
Lemma pp_request_access_paused_fails cx W mode c :
  data (get W (nthk (cx_metas cx) 0)) = DPpConfig c -> pc_paused c = true \/ pc_request_paused c = true ->
  is_ok (pp_request_access cx W mode) = false.
Proof.
  intros Hd Hp. apply not_ok_fails. intros W' H. apply pp_request_access_ok in H. cbn zeta in H.
  destruct H as (m0 & m1 & m2 & rest & c0 & Hms & _ & _ & _ & Hd0 & Hp1 & Hp2 & _).
  rewrite Hms, nthk_0 in Hd. destruct Hp; congruence.
Qed.
Lemma pp_grant_access_paused_fails cx W c :
  data (get W (nthk (cx_metas cx) 0)) = DPpConfig c -> pc_paused c = true -> is_ok (pp_grant_access cx W) = false.
Proof.
  intros Hd Hp. apply not_ok_fails. intros W' H. apply pp_grant_access_ok in H.
  destruct H as (m0 & m1 & m2 & m3 & rest & c0 & r & Hms & _ & Hd0 & _ & _ & Hp0 & _).
  rewrite Hms, nthk_0 in Hd. congruence.
Qed.
Lemma pp_deny_access_paused_fails cx W c :
  data (get W (nthk (cx_metas cx) 0)) = DPpConfig c -> pc_paused c = true -> is_ok (pp_deny_access cx W) = false.
Proof.
  intros Hd Hp. apply not_ok_fails. intros W' H. apply pp_deny_access_ok in H.
  destruct H as (m0 & m1 & m2 & rest & c0 & r & Hms & _ & Hd0 & _ & _ & Hp0 & _).
  rewrite Hms, nthk_0 in Hd. congruence.
Qed.
(* the admin instructions do not look at the pause flags: changing both flags of the config (the account at position 0
   for ConfigureProgram, at position 2 for SetAdmin) changes neither acceptance nor, flags aside, the result *)
Definition with_flags (c : pp_config) (b1 b2 : bool) : pp_config := c <| pc_paused := b1 |> <| pc_request_paused := b2 |>.
Definition set_flags (W : world) (k : key) (c : pp_config) (b1 b2 : bool) : world :=
  put W k (get W k <| data := DPpConfig (with_flags c b1 b2) |>).
Lemma get_set_flags_meta W k c b1 b2 k' : lamports (get (set_flags W k c b1 b2) k') = lamports (get W k') /\
  owner (get (set_flags W k c b1 b2) k') = owner (get W k') /\ alen (get (set_flags W k c b1 b2) k') = alen (get W k').
Proof. unfold set_flags. rewrite get_put. case_key k k'; [rewrite set_data_eq; cbn|]; auto. Qed.
Lemma pp_configure_program_ignores_pause cx W s c b1 b2 :
  data (get W (nthk (cx_metas cx) 0)) = DPpConfig c ->
  is_ok (pp_configure_program cx (set_flags W (nthk (cx_metas cx) 0) c b1 b2) s) = is_ok (pp_configure_program cx W s).
Proof.
  intros Hd. set (ck := nthk (cx_metas cx) 0) in *. set (W2 := set_flags W ck c b1 b2).
  assert (Hd2 : data (get W2 ck) = DPpConfig (with_flags c b1 b2)).
  { unfold W2, set_flags. rewrite get_put_same, set_data_eq. reflexivity. }
  assert (Hap : forall c0 b1 b2, (exists c', apply_setting c0 s = Some c') -> exists c', apply_setting (with_flags c0 b1 b2) s = Some c').
  { intros c0 x y (c' & Ha). destruct s as [[b|b]|k|dep fee|lim]; cbn [apply_setting] in *; eauto.
    - destruct (negb (dep =? 0) && (fee <? dep)); [eauto|discriminate].
    - destruct (negb (lim =? 0)); [eauto|discriminate]. }
  destruct (pp_configure_program cx W s) as [W'|e] eqn:E; cbn [is_ok].
  - apply pp_configure_program_ok in E. destruct E as (m0 & m1 & rest & c0 & c' & Hms & Hw & Ho & Hd0 & Hs & Hk & Hp & Ha & _).
    assert (ck = mkey m0) as Hck by (unfold ck; rewrite Hms; reflexivity). rewrite <- Hck in *.
    assert (c0 = c) by congruence. subst c0.
    destruct (Hap c b1 b2 (ex_intro _ c' Ha)) as (c2 & Ha2).
    rewrite (pp_configure_program_complete cx W2 s m0 m1 rest (with_flags c b1 b2) c2); [reflexivity|..]; try assumption.
    + rewrite <- Hck. unfold W2. rewrite (proj1 (proj2 (get_set_flags_meta W ck c b1 b2 ck))). exact Ho.
    + rewrite <- Hck. exact Hd2.
  - apply not_ok_fails. intros W' E2. apply pp_configure_program_ok in E2.
    destruct E2 as (m0 & m1 & rest & c0 & c' & Hms & Hw & Ho & Hd0 & Hs & Hk & Hp & Ha & _).
    assert (ck = mkey m0) as Hck by (unfold ck; rewrite Hms; reflexivity). rewrite <- Hck in *.
    assert (c0 = with_flags c b1 b2) by congruence. subst c0.
    destruct (Hap _ (pc_paused c) (pc_request_paused c) (ex_intro _ c' Ha)) as (c2 & Ha2).
    replace (with_flags (with_flags c b1 b2) (pc_paused c) (pc_request_paused c)) with c in Ha2 by (destruct c; reflexivity).
    rewrite (pp_configure_program_complete cx W s m0 m1 rest c c2) in E; [discriminate|..]; try assumption.
    + rewrite <- Hck. rewrite <- (proj1 (proj2 (get_set_flags_meta W ck c b1 b2 ck))). exact Ho.
    + rewrite <- Hck. exact Hd.
Qed.
Lemma pp_set_admin_ignores_pause cx W admin c b1 b2 :
  data (get W (nthk (cx_metas cx) 2)) = DPpConfig c -> nthk (cx_metas cx) 2 <> KProgData KPassport ->
  is_ok (pp_set_admin cx (set_flags W (nthk (cx_metas cx) 2) c b1 b2) admin) = is_ok (pp_set_admin cx W admin).
Proof.
  intros Hd Hne. set (ck := nthk (cx_metas cx) 2) in *. set (W2 := set_flags W ck c b1 b2).
  assert (Hd2 : data (get W2 ck) = DPpConfig (with_flags c b1 b2)).
  { unfold W2, set_flags. rewrite get_put_same, set_data_eq. reflexivity. }
  assert (Hpd : get W2 (KProgData KPassport) = get W (KProgData KPassport)).
  { unfold W2, set_flags. apply get_put_other. assumption. }
  destruct (pp_set_admin cx W admin) as [W'|e] eqn:E; cbn [is_ok].
  - apply pp_set_admin_ok in E. destruct E as (m0 & m1 & m2 & rest & auth & c0 & Hms & H0 & Hda & H1 & Hs & Hw & Ho & Hd0 & Hp & _).
    assert (ck = mkey m2) as Hck by (unfold ck; rewrite Hms; reflexivity). rewrite <- Hck in *.
    rewrite (pp_set_admin_complete cx W2 admin m0 m1 m2 rest auth (with_flags c b1 b2)); [reflexivity|..]; try assumption.
    + rewrite Hpd. assumption.
    + rewrite <- Hck. unfold W2. rewrite (proj1 (proj2 (get_set_flags_meta W ck c b1 b2 ck))). exact Ho.
    + rewrite <- Hck. exact Hd2.
  - apply not_ok_fails. intros W' E2. apply pp_set_admin_ok in E2.
    destruct E2 as (m0 & m1 & m2 & rest & auth & c0 & Hms & H0 & Hda & H1 & Hs & Hw & Ho & Hd0 & Hp & _).
    assert (ck = mkey m2) as Hck by (unfold ck; rewrite Hms; reflexivity). rewrite <- Hck in *.
    rewrite (pp_set_admin_complete cx W admin m0 m1 m2 rest auth c) in E; [discriminate|..]; try assumption.
    + rewrite <- Hpd. assumption.
    + rewrite <- Hck. rewrite <- (proj1 (proj2 (get_set_flags_meta W ck c b1 b2 ck))). exact Ho.
    + rewrite <- Hck. exact Hd.
Qed.
(* InitializeProgram never reads a ProgramConfig: it succeeds only where none exists yet (see pp_reinit_fails) *)

(* ---- C09: identity ---- *)
(* the config read by every instruction is a KPassport-owned ProgramConfig; look-alikes are refused *)
Lemma pp_configure_program_identity cx W s W' :
  pp_configure_program cx W s = Ok W' -> exists c, is_pp_config W (nthk (cx_metas cx) 0) c /\ cx_prog cx = KPassport.
Proof.
  intros H. apply pp_configure_program_ok in H. destruct H as (m0 & m1 & rest & c & c' & Hms & _ & Ho & Hd & _ & _ & Hp & _).
  exists c. rewrite Hms, nthk_0. unfold is_pp_config. auto.
Qed.
Lemma pp_set_admin_identity cx W admin W' :
  pp_set_admin cx W admin = Ok W' ->
  nthk (cx_metas cx) 0 = KProgData KPassport /\ (exists c, is_pp_config W (nthk (cx_metas cx) 2) c) /\ cx_prog cx = KPassport.
Proof.
  intros H. apply pp_set_admin_ok in H. destruct H as (m0 & m1 & m2 & rest & auth & c & Hms & H0 & _ & _ & _ & _ & Ho & Hd & Hp & _).
  rewrite Hms, nthk_0, nthk_2. unfold is_pp_config. eauto.
Qed.
Lemma pp_initialize_program_identity cx W W' :
  pp_initialize_program cx W = Ok W' ->
  nthk (cx_metas cx) 1 = KPpConfig /\ cx_prog cx = KPassport /\ is_pp_config W' KPpConfig pp_config_default /\
  alen (get W' KPpConfig) = LEN_PP_CONFIG /\
  forall k, k <> KPpConfig -> same_meta (get W' k) (get W k).
Proof.
  intros H. apply pp_initialize_program_ok in H. destruct H as (m0 & m1 & rest & Hms & H1 & Hp & _ & _ & H). cbn zeta in H.
  destruct H as (_ & _ & _ & Hpt). rewrite Hms, nthk_1. split; [assumption|]. split; [assumption|].
  destruct (Hpt KPpConfig) as (Hc & _). rewrite key_eqb_refl in Hc. unfold is_pp_config. split; [tauto|]. split; [tauto|].
  intros k Hk. destruct (Hpt k) as (Hx & _). rewrite (key_eqb_neq _ _ Hk) in Hx. exact Hx.
Qed.
Lemma pp_request_access_identity cx W mode W' :
  pp_request_access cx W mode = Ok W' ->
  (exists c, is_pp_config W (nthk (cx_metas cx) 0) c) /\
  nthk (cx_metas cx) 2 = KPpRequest (access_mode_service mode) /\ cx_prog cx = KPassport /\
  (exists r, is_pp_request W' (KPpRequest (access_mode_service mode)) r /\ ar_service r = access_mode_service mode) /\
  forall k, k <> KPpRequest (access_mode_service mode) -> same_meta (get W' k) (get W k).
Proof.
  intros H. apply pp_request_access_ok in H. cbn zeta in H.
  destruct H as (m0 & m1 & m2 & rest & c & Hms & _ & Hp & Ho & Hd & _ & _ & _ & _ & _ & H2 & _ & _ & _ & _ & _ & _ & Hpt).
  rewrite Hms, nthk_0, nthk_2. unfold is_pp_config, is_pp_request. split; [eauto|]. split; [assumption|]. split; [assumption|].
  split.
  - destruct (Hpt (KPpRequest (access_mode_service mode))) as (Hc & _). rewrite key_eqb_refl in Hc. destruct Hc as (Hc1 & _ & Hc3).
    eexists. split; [split; eassumption|reflexivity].
  - intros k Hk. destruct (Hpt k) as (Hx & _). rewrite (key_eqb_neq _ _ Hk) in Hx. exact Hx.
Qed.
Lemma pp_grant_access_identity cx W W' :
  pp_grant_access cx W = Ok W' ->
  (exists c, is_pp_config W (nthk (cx_metas cx) 0) c) /\ (exists r, is_pp_request W (nthk (cx_metas cx) 2) r /\ nthk (cx_metas cx) 3 = ar_beneficiary r).
Proof.
  intros H. apply pp_grant_access_ok in H. destruct H as (m0 & m1 & m2 & m3 & rest & c & r & Hms & Ho & Hd & _ & _ & _ & Hor & Hdr & Hb & _).
  rewrite Hms, nthk_0, nthk_2, nthk_3. unfold is_pp_config, is_pp_request. eauto 10.
Qed.
Lemma pp_deny_access_identity cx W W' :
  pp_deny_access cx W = Ok W' ->
  (exists c, is_pp_config W (nthk (cx_metas cx) 0) c) /\ (exists r, is_pp_request W (nthk (cx_metas cx) 2) r).
Proof.
  intros H. apply pp_deny_access_ok in H. destruct H as (m0 & m1 & m2 & rest & c & r & Hms & Ho & Hd & _ & _ & _ & Hor & Hdr & _).
  rewrite Hms, nthk_0, nthk_2. unfold is_pp_config, is_pp_request. eauto 10.
Qed.
(* a look-alike at the config position (foreign owner, or anything that is not a ProgramConfig) is refused by all four readers *)
Lemma pp_config_lookalike_fails cx W :
  (owner (get W (nthk (cx_metas cx) 0)) <> KPassport \/ forall c, data (get W (nthk (cx_metas cx) 0)) <> DPpConfig c) ->
  (forall s, is_ok (pp_configure_program cx W s) = false) /\ (forall m, is_ok (pp_request_access cx W m) = false) /\
  is_ok (pp_grant_access cx W) = false /\ is_ok (pp_deny_access cx W) = false.
Proof.
  intros Hbad. repeat split; intros; apply not_ok_fails; intros W' H.
  - apply pp_configure_program_identity in H. destruct H as (c & (Ho & Hd) & _). destruct Hbad as [Hb|Hb]; [|apply (Hb c)]; auto.
  - apply pp_request_access_identity in H. destruct H as ((c & Ho & Hd) & _). destruct Hbad as [Hb|Hb]; [|apply (Hb c)]; auto.
  - apply pp_grant_access_identity in H. destruct H as ((c & Ho & Hd) & _). destruct Hbad as [Hb|Hb]; [|apply (Hb c)]; auto.
  - apply pp_deny_access_identity in H. destruct H as ((c & Ho & Hd) & _). destruct Hbad as [Hb|Hb]; [|apply (Hb c)]; auto.
Qed.
Lemma pp_request_lookalike_fails cx W :
  (owner (get W (nthk (cx_metas cx) 2)) <> KPassport \/ forall r, data (get W (nthk (cx_metas cx) 2)) <> DAccessReq r) ->
  is_ok (pp_grant_access cx W) = false /\ is_ok (pp_deny_access cx W) = false.
Proof.
  intros Hbad. split; apply not_ok_fails; intros W' H.
  - apply pp_grant_access_identity in H. destruct H as (_ & r & (Ho & Hd) & _). destruct Hbad as [Hb|Hb]; [|apply (Hb r)]; auto.
  - apply pp_deny_access_identity in H. destruct H as (_ & r & Ho & Hd). destruct Hbad as [Hb|Hb]; [|apply (Hb r)]; auto.
Qed.
(* re-initialisation fails: once the config address is allocated or assigned (in particular once it is a ProgramConfig),
   InitializeProgram fails; the same for an access-request address (at most one pending request per service key) *)
Lemma pp_reinit_fails cx W :
  alen (get W KPpConfig) <> 0 \/ owner (get W KPpConfig) <> KSystem -> is_ok (pp_initialize_program cx W) = false.
Proof.
  intros Hex. apply not_ok_fails. intros W' H. apply pp_initialize_program_ok in H.
  destruct H as (m0 & m1 & rest & _ & _ & _ & Ha & Ho & _). tauto.
Qed.
Lemma pp_reinit_fails_config cx W c : is_pp_config W KPpConfig c -> is_ok (pp_initialize_program cx W) = false.
Proof. intros (Ho & _). apply pp_reinit_fails. right. rewrite Ho. discriminate. Qed.
Lemma one_pending_per_service_key cx W mode :
  alen (get W (KPpRequest (access_mode_service mode))) <> 0 \/ owner (get W (KPpRequest (access_mode_service mode))) <> KSystem ->
  is_ok (pp_request_access cx W mode) = false.
Proof.
  intros Hex. apply not_ok_fails. intros W' H. apply pp_request_access_ok in H. cbn zeta in H.
  destruct H as (m0 & m1 & m2 & rest & c & _ & _ & _ & _ & _ & _ & _ & _ & _ & _ & _ & _ & Ha & Ho & _). tauto.
Qed.
Lemma one_pending_per_service_key_request cx W mode r :
  is_pp_request W (KPpRequest (access_mode_service mode)) r -> is_ok (pp_request_access cx W mode) = false.
Proof. intros (Ho & _). apply one_pending_per_service_key. right. rewrite Ho. discriminate. Qed.
(* the request address is a function of the service key alone, and distinct service keys have distinct addresses *)
Lemma request_address_injective s1 s2 : KPpRequest s1 = KPpRequest s2 -> s1 = s2.
Proof. intros H. injection H. auto. Qed.

Lemma nthk_eq ms ms' i : ms = ms' -> nthk ms i = nthk ms' i.
Proof. intros ->. reflexivity. Qed.
Ltac nthk_norm Hms := rewrite !(nthk_eq _ _ _ Hms); rewrite ?nthk_0, ?nthk_1, ?nthk_2, ?nthk_3.

(* ------------------------------------------------------------------------------------------------------------- *)
(* 7. exact functional specifications with frame (C17)                                                             *)
(* ------------------------------------------------------------------------------------------------------------- *)
Definition lam_request (c : pp_config) : N := sat_add two64 (pc_deposit c) (rent LEN_ACCESS_REQ).

(* RequestAccess.  The request account ends up with max(current, rent + deposit) lamports, owned by the program, of the
   AccessRequest size, remembering service key, payer and the fee in force; the payer (account 1) loses exactly the
   shortfall; every other account is untouched. *)
Lemma pp_request_access_spec cx W mode W' :
  pp_request_access cx W mode = Ok W' ->
  let svc := access_mode_service mode in
  let rk := KPpRequest svc in
  let payer := nthk (cx_metas cx) 1 in
  exists c, is_pp_config W (nthk (cx_metas cx) 0) c /\
    let short := lam_request c - lamports (get W rk) in
    short <= lamports (get W payer) /\ (short <> 0 -> payer <> rk /\ is_signer (cx_metas cx) payer = true) /\
    now W' = now W /\
    forall k, get W' k =
      if key_eqb k rk then
        {| lamports := N.max (lamports (get W rk)) (lam_request c); owner := KPassport; alen := LEN_ACCESS_REQ;
           data := DAccessReq {| ar_service := svc; ar_beneficiary := payer; ar_fee := pc_fee c; ar_mode := mode |} |}
      else if key_eqb k payer then get W k <| lamports := lamports (get W k) - short |>
      else get W k.
Proof.
  intros H. apply pp_request_access_ok in H. cbn zeta in *.
  destruct H as (m0 & m1 & m2 & rest & c & Hms & _ & _ & Ho & Hd & _ & _ & _ & _ & _ & _ & _ & _ & _ & Hle & Hsig & Hnow & Hpt).
  nthk_norm Hms. exists c. unfold is_pp_config, lam_request, shortfall in *. split; [auto|].
  remember (KPpRequest (access_mode_service mode)) as rk eqn:Erk.
  remember (sat_add two64 (pc_deposit c) (rent LEN_ACCESS_REQ)) as lam eqn:Elam.
  split; [assumption|]. split; [intros Hs; destruct (Hsig Hs) as (? & ? & ?); auto|]. split; [assumption|].
  intros k. destruct (Hpt k) as (Hx & Hy). case_key k rk.
  - destruct Hx as (Hx1 & Hx2 & Hx3). apply acct_ext; [|repeat split; assumption]. cbn [lamports]. rewrite Hy.
    case_key rk (mkey m1).
    + assert (lam - lamports (get W (mkey m1)) = 0)
        by (destruct (N.eq_dec (lam - lamports (get W (mkey m1))) 0) as [|Hs]; [assumption|destruct (Hsig Hs) as (_ & _ & Hc); congruence]).
      lia.
    + lia.
  - case_key k (mkey m1).
    + apply acct_ext; [rewrite set_lamports_lam, Hy; lia|]. eapply same_meta_trans; [exact Hx|]. destruct (get W (mkey m1)); repeat split.
    + apply acct_ext; [rewrite Hy; lia|assumption].
Qed.

(* GrantAccess.  Request account (2) zeroed, sentinel (1) + remembered fee, remembered beneficiary (3) + (balance - fee),
   additively, so every aliasing between the three is covered; every other account, and all owners / data, untouched. *)
Lemma pp_grant_access_spec cx W W' :
  pp_grant_access cx W = Ok W' ->
  let rk := nthk (cx_metas cx) 2 in
  exists c r, is_pp_config W (nthk (cx_metas cx) 0) c /\ is_pp_request W rk r /\
    nthk (cx_metas cx) 1 = pc_sentinel c /\ nthk (cx_metas cx) 3 = ar_beneficiary r /\
    pc_sentinel c <> rk /\ ar_beneficiary r <> rk /\
    let bal := lamports (get W rk) in
    now W' = now W /\
    forall k, get W' k = get W k <| lamports :=
        (if key_eqb k rk then 0 else lamports (get W k)) + (if key_eqb k (pc_sentinel c) then ar_fee r else 0)
        + (if key_eqb k (ar_beneficiary r) then bal - ar_fee r else 0) |>.
Proof.
  intros H. apply pp_grant_access_ok in H. cbn zeta in *.
  destruct H as (m0 & m1 & m2 & m3 & rest & c & r & Hms & Ho & Hd & _ & Hk & _ & Hor & Hdr & Hb & Hne1 & Hne3 & _ & _ & _ & Hnow & Hpt).
  nthk_norm Hms. exists c, r. unfold is_pp_config, is_pp_request. cbn zeta.
  repeat (split; [solve [auto | congruence]|]). intros k. destruct (Hpt k) as (Hx & Hy). rewrite <- Hk, <- Hb.
  apply acct_ext; [rewrite set_lamports_lam; exact Hy|]. eapply same_meta_trans; [exact Hx|]. destruct (get W k); repeat split.
Qed.

(* DenyAccess.  Request account zeroed, sentinel + the entire balance. *)
Lemma pp_deny_access_spec cx W W' :
  pp_deny_access cx W = Ok W' ->
  let rk := nthk (cx_metas cx) 2 in
  exists c r, is_pp_config W (nthk (cx_metas cx) 0) c /\ is_pp_request W rk r /\ nthk (cx_metas cx) 1 = pc_sentinel c /\
    pc_sentinel c <> rk /\ now W' = now W /\
    forall k, get W' k = get W k <| lamports :=
        (if key_eqb k rk then 0 else lamports (get W k)) + (if key_eqb k (pc_sentinel c) then lamports (get W rk) else 0) |>.
Proof.
  intros H. apply pp_deny_access_ok in H. cbn zeta in *.
  destruct H as (m0 & m1 & m2 & rest & c & r & Hms & Ho & Hd & _ & Hk & _ & Hor & Hdr & Hne1 & _ & Hnow & Hpt).
  nthk_norm Hms. exists c, r. unfold is_pp_config, is_pp_request. cbn zeta.
  repeat (split; [solve [auto | congruence]|]). intros k. destruct (Hpt k) as (Hx & Hy). rewrite <- Hk.
  apply acct_ext; [rewrite set_lamports_lam; exact Hy|]. eapply same_meta_trans; [exact Hx|]. destruct (get W k); repeat split.
Qed.

(* readable consequences: the request account always ends at zero (it can alias neither party); the sentinel and the
   beneficiary may be the same account *)
Lemma pp_grant_access_amounts cx W W' :
  pp_grant_access cx W = Ok W' ->
  exists c r, is_pp_config W (nthk (cx_metas cx) 0) c /\ is_pp_request W (nthk (cx_metas cx) 2) r /\
    let rk := nthk (cx_metas cx) 2 in let s := pc_sentinel c in let b := ar_beneficiary r in
    let bal := lamports (get W rk) in let fee := ar_fee r in
    s <> rk /\ b <> rk /\
    lamports (get W' rk) = 0 /\
    (s <> b -> lamports (get W' s) = lamports (get W s) + fee) /\
    (s <> b -> lamports (get W' b) = lamports (get W b) + (bal - fee)) /\
    (s = b -> lamports (get W' s) = lamports (get W s) + fee + (bal - fee)) /\
    (forall k, k <> rk -> k <> s -> k <> b -> get W' k = get W k) /\
    (forall k, owner (get W' k) = owner (get W k) /\ alen (get W' k) = alen (get W k) /\ data (get W' k) = data (get W k)).
Proof.
  intros H. apply pp_grant_access_spec in H. cbn zeta in *. destruct H as (c & r & Hc & Hr & _ & _ & Hn1 & Hn3 & _ & Hpt).
  exists c, r. split; [assumption|]. split; [assumption|].
  remember (nthk (cx_metas cx) 2) as rk. remember (pc_sentinel c) as s. remember (ar_beneficiary r) as b.
  assert (Hl : forall k, lamports (get W' k) = (if key_eqb k rk then 0 else lamports (get W k)) + (if key_eqb k s then ar_fee r else 0)
               + (if key_eqb k b then lamports (get W rk) - ar_fee r else 0)) by (intros k; rewrite Hpt; apply set_lamports_lam).
  split; [assumption|]. split; [assumption|].
  split. { rewrite Hl, key_eqb_refl, (key_eqb_neq rk s), (key_eqb_neq rk b) by congruence. lia. }
  split. { intros H2. rewrite Hl, key_eqb_refl, (key_eqb_neq s rk), (key_eqb_neq s b) by congruence. lia. }
  split. { intros H2. rewrite Hl, key_eqb_refl, (key_eqb_neq b rk), (key_eqb_neq b s) by congruence. lia. }
  split. { intros H2. rewrite Hl, <- H2, key_eqb_refl, (key_eqb_neq s rk) by congruence. lia. }
  split. { intros k H1 H2 H3. rewrite Hpt, !key_eqb_neq by assumption. apply acct_ext; [rewrite set_lamports_lam; lia|apply set_lamports_meta]. }
  intros k. rewrite Hpt. destruct (get W k); auto.
Qed.
Lemma pp_deny_access_amounts cx W W' :
  pp_deny_access cx W = Ok W' ->
  exists c r, is_pp_config W (nthk (cx_metas cx) 0) c /\ is_pp_request W (nthk (cx_metas cx) 2) r /\
    let rk := nthk (cx_metas cx) 2 in let s := pc_sentinel c in
    s <> rk /\ lamports (get W' rk) = 0 /\ lamports (get W' s) = lamports (get W s) + lamports (get W rk) /\
    (forall k, k <> rk -> k <> s -> get W' k = get W k) /\
    (forall k, owner (get W' k) = owner (get W k) /\ alen (get W' k) = alen (get W k) /\ data (get W' k) = data (get W k)).
Proof.
  intros H. apply pp_deny_access_spec in H. cbn zeta in *. destruct H as (c & r & Hc & Hr & _ & Hn1 & _ & Hpt).
  exists c, r. split; [assumption|]. split; [assumption|].
  remember (nthk (cx_metas cx) 2) as rk. remember (pc_sentinel c) as s.
  split; [assumption|].
  split. { rewrite Hpt, set_lamports_lam, key_eqb_refl, (key_eqb_neq rk s) by congruence. lia. }
  split. { rewrite Hpt, set_lamports_lam, key_eqb_refl, (key_eqb_neq s rk) by congruence. lia. }
  split. { intros k H1 H2. rewrite Hpt, !key_eqb_neq by assumption. apply acct_ext; [rewrite set_lamports_lam; lia|apply set_lamports_meta]. }
  intros k. rewrite Hpt. destruct (get W k); auto.
Qed.

(* ------------------------------------------------------------------------------------------------------------- *)
(* 8. conservation of lamports over any duplicate-free key set containing the accounts involved                    *)
(* ------------------------------------------------------------------------------------------------------------- *)
Definition total (W : world) (ks : list key) : N := sumN (map (fun k => lamports (get W k)) ks).

Lemma sum_ind_notin ks a x : ~ In a ks -> sumN (map (fun k => if key_eqb k a then x else 0) ks) = 0.
Proof. induction ks as [|k tl IH]; cbn [map sumN]; intros H; [reflexivity|].
  rewrite key_eqb_neq by (intros ->; apply H; left; reflexivity). rewrite IH; [lia|]. intros Hi. apply H. right. assumption. Qed.
Lemma sum_ind ks a x : NoDup ks -> In a ks -> sumN (map (fun k => if key_eqb k a then x else 0) ks) = x.
Proof.
  induction ks as [|k tl IH]; cbn [map sumN]; intros Hnd Hi; [destruct Hi|]. inversion Hnd; subst.
  destruct Hi as [->|Hi].
  - rewrite key_eqb_refl, sum_ind_notin by assumption. lia.
  - rewrite key_eqb_neq by (intros ->; contradiction). rewrite IH by assumption. lia.
Qed.
Lemma sum_balance ks (g f o i : key -> N) :
  (forall k, In k ks -> g k + o k = f k + i k) ->
  sumN (map g ks) + sumN (map o ks) = sumN (map f ks) + sumN (map i ks).
Proof.
  induction ks as [|k tl IH]; cbn [map sumN]; intros H; [reflexivity|].
  pose proof (H k (or_introl eq_refl)). assert (IH' := IH (fun k' Hk => H k' (or_intror Hk))). lia.
Qed.
Lemma sumN_map_add ks (f g : key -> N) : sumN (map (fun k => f k + g k) ks) = sumN (map f ks) + sumN (map g ks).
Proof. induction ks; cbn [map sumN]; lia. Qed.

(* RequestAccess only moves lamports between the payer and the request account *)
Lemma pp_request_access_conserves cx W mode W' ks :
  pp_request_access cx W mode = Ok W' -> NoDup ks ->
  In (nthk (cx_metas cx) 1) ks -> In (KPpRequest (access_mode_service mode)) ks -> total W' ks = total W ks.
Proof.
  intros H Hnd Hp Hr. apply pp_request_access_ok in H. cbn zeta in H.
  destruct H as (m0 & m1 & m2 & rest & c & Hms & _ & _ & _ & _ & _ & _ & _ & _ & _ & _ & _ & _ & _ & Hle & _ & _ & Hpt).
  rewrite (nthk_eq _ _ _ Hms), nthk_1 in Hp. remember (KPpRequest (access_mode_service mode)) as rk.
  remember (shortfall W rk LEN_ACCESS_REQ (pc_deposit c)) as short. unfold total.
  pose proof (sum_balance ks (fun k => lamports (get W' k)) (fun k => lamports (get W k))
                (fun k => if key_eqb k (mkey m1) then short else 0) (fun k => if key_eqb k rk then short else 0)) as Hb.
  cbv beta in Hb. rewrite !sum_ind in Hb by assumption. enough (HH : forall k, In k ks ->
     lamports (get W' k) + (if key_eqb k (mkey m1) then short else 0) = lamports (get W k) + (if key_eqb k rk then short else 0)).
  { specialize (Hb HH). lia. }
  intros k _. destruct (Hpt k) as (_ & ->). case_key k (mkey m1); destruct (key_eqb _ rk); lia.
Qed.

(* GrantAccess: exact accounting; conservation whenever the remembered fee does not exceed the request account's balance *)
Lemma pp_grant_access_accounting cx W W' ks :
  pp_grant_access cx W = Ok W' -> NoDup ks ->
  exists c r, is_pp_config W (nthk (cx_metas cx) 0) c /\ is_pp_request W (nthk (cx_metas cx) 2) r /\
    (In (nthk (cx_metas cx) 2) ks -> In (pc_sentinel c) ks -> In (ar_beneficiary r) ks ->
     total W' ks + lamports (get W (nthk (cx_metas cx) 2)) =
     total W ks + ar_fee r + (lamports (get W (nthk (cx_metas cx) 2)) - ar_fee r)).
Proof.
  intros H Hnd. apply pp_grant_access_spec in H. cbn zeta in H. destruct H as (c & r & Hc & Hr & _ & _ & _ & _ & _ & Hpt).
  exists c, r. split; [assumption|]. split; [assumption|]. intros H2 Hs Hb. remember (nthk (cx_metas cx) 2) as rk.
  remember (lamports (get W rk)) as bal. unfold total.
  pose proof (sum_balance ks (fun k => lamports (get W' k)) (fun k => lamports (get W k))
                (fun k => if key_eqb k rk then bal else 0)
                (fun k => (if key_eqb k (pc_sentinel c) then ar_fee r else 0) + (if key_eqb k (ar_beneficiary r) then bal - ar_fee r else 0))) as Hbal.
  cbv beta in Hbal. rewrite sumN_map_add, !sum_ind in Hbal by assumption.
  enough (HH : forall k, In k ks -> lamports (get W' k) + (if key_eqb k rk then bal else 0) = lamports (get W k) +
     ((if key_eqb k (pc_sentinel c) then ar_fee r else 0) + (if key_eqb k (ar_beneficiary r) then bal - ar_fee r else 0))).
  { specialize (Hbal HH). lia. }
  intros k _. rewrite Hpt, set_lamports_lam. case_key k rk; [subst bal|]; lia.
Qed.
Lemma pp_grant_access_conserves cx W W' ks :
  pp_grant_access cx W = Ok W' -> NoDup ks ->
  exists c r, is_pp_config W (nthk (cx_metas cx) 0) c /\ is_pp_request W (nthk (cx_metas cx) 2) r /\
    (In (nthk (cx_metas cx) 2) ks -> In (pc_sentinel c) ks -> In (ar_beneficiary r) ks ->
     ar_fee r <= lamports (get W (nthk (cx_metas cx) 2)) -> total W' ks = total W ks).
Proof.
  intros H Hnd. destruct (pp_grant_access_accounting cx W W' ks H Hnd) as (c & r & Hc & Hr & Hacc).
  exists c, r. split; [assumption|]. split; [assumption|]. intros H2 Hs Hb Hle. specialize (Hacc H2 Hs Hb). lia.
Qed.
Lemma pp_deny_access_conserves cx W W' ks :
  pp_deny_access cx W = Ok W' -> NoDup ks ->
  exists c, is_pp_config W (nthk (cx_metas cx) 0) c /\
    (In (nthk (cx_metas cx) 2) ks -> In (pc_sentinel c) ks -> total W' ks = total W ks).
Proof.
  intros H Hnd. apply pp_deny_access_spec in H. cbn zeta in H. destruct H as (c & r & Hc & Hr & _ & _ & _ & Hpt).
  exists c. split; [assumption|]. intros H2 Hs. remember (nthk (cx_metas cx) 2) as rk.
  remember (lamports (get W rk)) as bal. unfold total.
  pose proof (sum_balance ks (fun k => lamports (get W' k)) (fun k => lamports (get W k))
                (fun k => if key_eqb k rk then bal else 0) (fun k => if key_eqb k (pc_sentinel c) then bal else 0)) as Hbal.
  cbv beta in Hbal. rewrite !sum_ind in Hbal by assumption.
  enough (HH : forall k, In k ks -> lamports (get W' k) + (if key_eqb k rk then bal else 0) = lamports (get W k) +
     (if key_eqb k (pc_sentinel c) then bal else 0)).
  { specialize (Hbal HH). lia. }
  intros k _. rewrite Hpt, set_lamports_lam. case_key k rk; [subst bal|]; lia.
Qed.
(* the configuration instructions do not move lamports at all *)
Lemma pp_configure_program_lamports cx W s W' k : pp_configure_program cx W s = Ok W' -> lamports (get W' k) = lamports (get W k).
Proof.
  intros H. apply pp_configure_program_ok in H. destruct H as (m0 & m1 & rest & c & c' & _ & _ & _ & _ & _ & _ & _ & _ & ->).
  rewrite get_put. case_key (mkey m0) k; [rewrite set_data_eq|]; reflexivity.
Qed.

(* ------------------------------------------------------------------------------------------------------------- *)
(* 9. C17 / C18 invariants                                                                                         *)
(* ------------------------------------------------------------------------------------------------------------- *)
(* what ConfigureProgram maintains: either no deposit has been configured yet, or the fee is strictly below it *)
Definition cfg_ok (c : pp_config) : Prop := pc_deposit c = 0 \/ pc_fee c < pc_deposit c.

Lemma cfg_ok_default : cfg_ok pp_config_default.
Proof. left. reflexivity. Qed.

(* ---- C18: validation of settings ---- *)
Lemma apply_setting_deposit_iff c dep fee :
  (exists c', apply_setting c (PSAccessRequestDeposit dep fee) = Some c') <-> (dep <> 0 /\ fee < dep).
Proof.
  cbn [apply_setting]. destruct (dep =? 0) eqn:E1, (fee <? dep) eqn:E2; cbn [negb andb]; keq; split;
    try (intros (c' & H); discriminate H); try (intros (H1 & H2); lia); eauto.
Qed.
Lemma apply_setting_limit_iff c l : (exists c', apply_setting c (PSBackupIdsLimit l) = Some c') <-> l <> 0.
Proof.
  cbn [apply_setting]. destruct (l =? 0) eqn:E1; cbn [negb]; keq; split; try (intros (c' & H); discriminate H); eauto; try lia.
Qed.
Lemma apply_setting_deposit_result c dep fee c' :
  apply_setting c (PSAccessRequestDeposit dep fee) = Some c' ->
  pc_deposit c' = dep /\ pc_fee c' = fee /\ dep <> 0 /\ fee < dep /\ pc_backup_limit c' = pc_backup_limit c /\
  pc_admin c' = pc_admin c /\ pc_sentinel c' = pc_sentinel c /\ pc_paused c' = pc_paused c /\ pc_request_paused c' = pc_request_paused c.
Proof.
  intros H. pose proof (proj1 (apply_setting_deposit_iff c dep fee) (ex_intro _ c' H)) as (H1 & H2).
  cbn [apply_setting] in H. destruct (negb (dep =? 0) && (fee <? dep)); [|discriminate]. ok_inj H. destruct c; cbn. auto 10.
Qed.
Lemma apply_setting_limit_result c l c' :
  apply_setting c (PSBackupIdsLimit l) = Some c' -> pc_backup_limit c' = l /\ l <> 0 /\ pc_deposit c' = pc_deposit c /\ pc_fee c' = pc_fee c.
Proof.
  intros H. pose proof (proj1 (apply_setting_limit_iff c l) (ex_intro _ c' H)) as H1.
  cbn [apply_setting] in H. destruct (negb (l =? 0)); [|discriminate]. ok_inj H. destruct c; cbn. auto.
Qed.
Lemma apply_setting_cfg_ok c s c' : apply_setting c s = Some c' -> cfg_ok c -> cfg_ok c'.
Proof.
  unfold cfg_ok. destruct s as [[b|b]|k|dep fee|lim]; intros H Hc.
  - cbn in H. ok_inj H. destruct c; exact Hc.
  - cbn in H. ok_inj H. destruct c; exact Hc.
  - cbn in H. ok_inj H. destruct c; exact Hc.
  - apply apply_setting_deposit_result in H. destruct H as (-> & -> & _ & H & _). right. exact H.
  - apply apply_setting_limit_result in H. destruct H as (_ & _ & -> & ->). exact Hc.
Qed.

(* ConfigureProgram with a deposit (resp. limit) setting is accepted iff the values are valid, given that the account and
   authority checks pass; and a rejected instruction is an error, so by atomicity nothing changes (tx_failed_unchanged) *)
Lemma pp_configure_validation cx W m0 m1 rest c :
  cx_metas cx = m0 :: m1 :: rest -> mwritable m0 = true -> is_pp_config W (mkey m0) c ->
  msigner m1 = true -> mkey m1 = pc_admin c -> cx_prog cx = KPassport ->
  (forall dep fee, is_ok (pp_configure_program cx W (PSAccessRequestDeposit dep fee)) = true <-> (dep <> 0 /\ fee < dep)) /\
  (forall l, is_ok (pp_configure_program cx W (PSBackupIdsLimit l)) = true <-> l <> 0).
Proof.
  intros Hms Hw (Ho & Hd) Hs Hk Hp. split; [intros dep fee|intros l]; rewrite is_ok_true.
  - rewrite <- (apply_setting_deposit_iff c). split.
    + intros (W' & H). apply pp_configure_program_ok in H.
      destruct H as (m0' & m1' & rest' & c0 & c' & Hms' & _ & _ & Hd' & _ & _ & _ & Ha & _).
      rewrite Hms in Hms'. ok_inj Hms'. assert (c0 = c) by congruence. subst. eauto.
    + intros (c' & Ha). eexists. eapply pp_configure_program_complete; eassumption.
  - rewrite <- (apply_setting_limit_iff c). split.
    + intros (W' & H). apply pp_configure_program_ok in H.
      destruct H as (m0' & m1' & rest' & c0 & c' & Hms' & _ & _ & Hd' & _ & _ & _ & Ha & _).
      rewrite Hms in Hms'. ok_inj Hms'. assert (c0 = c) by congruence. subst. eauto.
    + intros (c' & Ha). eexists. eapply pp_configure_program_complete; eassumption.
Qed.
(* unconditional direction: an accepted deposit / limit setting is valid and is what the config holds afterwards *)
Lemma pp_configure_deposit_accepted cx W dep fee W' :
  pp_configure_program cx W (PSAccessRequestDeposit dep fee) = Ok W' ->
  dep <> 0 /\ fee < dep /\ exists c', is_pp_config W' (nthk (cx_metas cx) 0) c' /\ pc_deposit c' = dep /\ pc_fee c' = fee.
Proof.
  intros H. apply pp_configure_program_ok in H. destruct H as (m0 & m1 & rest & c & c' & Hms & _ & Ho & _ & _ & _ & _ & Ha & ->).
  apply apply_setting_deposit_result in Ha. destruct Ha as (H1 & H2 & H3 & H4 & _). split; [assumption|]. split; [assumption|].
  exists c'. nthk_norm Hms. unfold is_pp_config. rewrite get_put_same, set_data_eq. cbn. auto.
Qed.
Lemma pp_configure_limit_accepted cx W l W' :
  pp_configure_program cx W (PSBackupIdsLimit l) = Ok W' ->
  l <> 0 /\ exists c', is_pp_config W' (nthk (cx_metas cx) 0) c' /\ pc_backup_limit c' = l.
Proof.
  intros H. apply pp_configure_program_ok in H. destruct H as (m0 & m1 & rest & c & c' & Hms & _ & Ho & _ & _ & _ & _ & Ha & ->).
  apply apply_setting_limit_result in Ha. destruct Ha as (H1 & H2 & _). split; [assumption|].
  exists c'. nthk_norm Hms. unfold is_pp_config. rewrite get_put_same, set_data_eq. cbn. auto.
Qed.

(* ---- C17: fee < deposit persists; reconfiguration touches only the config account ---- *)
Lemma pp_configure_program_frame cx W s W' :
  pp_configure_program cx W s = Ok W' ->
  exists c c', is_pp_config W (nthk (cx_metas cx) 0) c /\ apply_setting c s = Some c' /\
    get W' (nthk (cx_metas cx) 0) = get W (nthk (cx_metas cx) 0) <| data := DPpConfig c' |> /\
    (forall k, k <> nthk (cx_metas cx) 0 -> get W' k = get W k) /\ now W' = now W.
Proof.
  intros H. apply pp_configure_program_ok in H. destruct H as (m0 & m1 & rest & c & c' & Hms & _ & Ho & Hd & _ & _ & _ & Ha & ->).
  exists c, c'. nthk_norm Hms. unfold is_pp_config. split; [auto|]. split; [assumption|]. split; [apply get_put_same|].
  split; [|reflexivity]. intros k Hk. apply get_put_other. congruence.
Qed.
Lemma fee_lt_deposit cx W s W' c :
  pp_configure_program cx W s = Ok W' -> is_pp_config W (nthk (cx_metas cx) 0) c -> cfg_ok c ->
  exists c', is_pp_config W' (nthk (cx_metas cx) 0) c' /\ cfg_ok c'.
Proof.
  intros H (Ho & Hd) Hok. apply pp_configure_program_frame in H. destruct H as (c0 & c' & (_ & Hd0) & Ha & Hg & _).
  assert (c0 = c) by congruence. subst c0. exists c'. split; [|eapply apply_setting_cfg_ok; eassumption].
  unfold is_pp_config. rewrite Hg, set_data_eq. cbn. auto.
Qed.
Lemma reconfigure_does_not_touch_pending cx W s W' k r :
  pp_configure_program cx W s = Ok W' -> data (get W k) = DAccessReq r -> get W' k = get W k.
Proof.
  intros H Hr. apply pp_configure_program_frame in H. destruct H as (c & c' & (_ & Hd) & _ & _ & Hfr & _).
  apply Hfr. intros ->. congruence.
Qed.
Lemma set_admin_does_not_touch_pending cx W a W' k r :
  pp_set_admin cx W a = Ok W' -> data (get W k) = DAccessReq r -> get W' k = get W k.
Proof.
  intros H Hr. apply pp_set_admin_ok in H. destruct H as (m0 & m1 & m2 & rest & auth & c & _ & _ & _ & _ & _ & _ & _ & Hd & _ & ->).
  apply get_put_other. intros <-. congruence.
Qed.

(* the invariant over whole worlds: every KPassport-owned ProgramConfig satisfies cfg_ok; every passport instruction keeps it *)
Definition pp_cfg_inv (W : world) : Prop := forall k c, is_pp_config W k c -> cfg_ok c.
Lemma pp_cfg_inv_same_meta W W' :
  pp_cfg_inv W -> (forall k, same_meta (get W' k) (get W k) \/ (forall c, data (get W' k) = DPpConfig c -> cfg_ok c)) -> pp_cfg_inv W'.
Proof.
  intros Hinv H k c (Ho & Hd). destruct (H k) as [(Hso & _ & Hsd)|Hc]; [|eauto]. apply (Hinv k). split; congruence.
Qed.
Lemma pp_process_preserves_cfg_inv cx W ix W' : pp_cfg_inv W -> pp_process cx W ix = Ok W' -> pp_cfg_inv W'.
Proof.
  intros Hinv H. destruct ix as [|a|s|m| |]; cbn [pp_process] in H.
  - apply pp_initialize_program_ok in H. destruct H as (m0 & m1 & rest & _ & _ & _ & _ & _ & H). cbn zeta in H.
    destruct H as (_ & _ & _ & Hpt). apply (pp_cfg_inv_same_meta W); [assumption|]. intros k. destruct (Hpt k) as (Hx & _).
    case_key k KPpConfig; [right|left; assumption]. destruct Hx as (_ & _ & ->). intros c Hc. ok_inj Hc. apply cfg_ok_default.
  - apply pp_set_admin_ok in H. destruct H as (m0 & m1 & m2 & rest & auth & c & _ & _ & _ & _ & _ & _ & Ho & Hd & _ & ->).
    apply (pp_cfg_inv_same_meta W); [assumption|]. intros k. rewrite get_put. case_key (mkey m2) k; [right|left; apply same_meta_refl].
    rewrite set_data_eq. cbn. intros c0 Hc. ok_inj Hc. assert (Hok := Hinv _ _ (conj Ho Hd)). destruct c; exact Hok.
  - apply pp_configure_program_ok in H. destruct H as (m0 & m1 & rest & c & c' & _ & _ & Ho & Hd & _ & _ & _ & Ha & ->).
    apply (pp_cfg_inv_same_meta W); [assumption|]. intros k. rewrite get_put. case_key (mkey m0) k; [right|left; apply same_meta_refl].
    rewrite set_data_eq. cbn. intros c0 Hc. ok_inj Hc. eapply apply_setting_cfg_ok; [eassumption|]. exact (Hinv _ _ (conj Ho Hd)).
  - apply pp_request_access_ok in H. cbn zeta in H.
    destruct H as (m0 & m1 & m2 & rest & c & _ & _ & _ & _ & _ & _ & _ & _ & _ & _ & _ & _ & _ & _ & _ & _ & _ & Hpt).
    apply (pp_cfg_inv_same_meta W); [assumption|]. intros k. destruct (Hpt k) as (Hx & _).
    destruct (key_eqb k (KPpRequest (access_mode_service m))); [right|left; assumption]. destruct Hx as (_ & _ & ->). discriminate.
  - apply pp_grant_access_ok in H. destruct H as (m0 & m1 & m2 & m3 & rest & c & r & _ & _ & _ & _ & _ & _ & _ & _ & _ & _ & _ & _ & _ & _ & _ & Hpt).
    apply (pp_cfg_inv_same_meta W); [assumption|]. intros k. left. apply Hpt.
  - apply pp_deny_access_ok in H. destruct H as (m0 & m1 & m2 & rest & c & r & _ & _ & _ & _ & _ & _ & _ & _ & _ & _ & _ & Hpt).
    apply (pp_cfg_inv_same_meta W); [assumption|]. intros k. left. apply Hpt.
Qed.

(* ---- C18: guards of RequestAccess, stored mode, and the request can pay its fee ---- *)
Lemma pp_request_access_guards cx W mode W' :
  pp_request_access cx W mode = Ok W' ->
  cx_height cx = 1 /\
  exists c, is_pp_config W (nthk (cx_metas cx) 0) c /\
    pc_paused c = false /\ pc_request_paused c = false /\ pc_deposit c <> 0 /\
    access_mode_service mode <> default_key /\
    match mode with
    | AMValidator _ => True
    | AMValidatorWithBackups _ b => b <> [] /\ N.of_nat (length b) <= pc_backup_limit c
    end /\
    access_mode_len mode <= ACCESS_MODE_MAX.
Proof.
  intros H. apply pp_request_access_ok in H. cbn zeta in H.
  destruct H as (m0 & m1 & m2 & rest & c & Hms & Hh & _ & Ho & Hd & Hp1 & Hp2 & Hmode & Hsvc & Hdep & _ & Hlen & _).
  split; [assumption|]. exists c. nthk_norm Hms. unfold is_pp_config, mode_ok in *. auto 10.
Qed.
Lemma pp_request_access_not_top_level_fails cx W mode : cx_height cx <> 1 -> is_ok (pp_request_access cx W mode) = false.
Proof. intros Hh. apply not_ok_fails. intros W' H. apply pp_request_access_guards in H. tauto. Qed.
Lemma stored_mode_is_submitted cx W mode W' :
  pp_request_access cx W mode = Ok W' ->
  exists r, is_pp_request W' (KPpRequest (access_mode_service mode)) r /\ ar_mode r = mode /\
            ar_service r = access_mode_service mode /\ ar_beneficiary r = nthk (cx_metas cx) 1.
Proof.
  intros H. apply pp_request_access_spec in H. cbn zeta in H. destruct H as (c & _ & _ & _ & _ & Hpt).
  eexists. unfold is_pp_request. rewrite Hpt, key_eqb_refl. cbn. auto.
Qed.
Lemma lam_request_ge c : pc_deposit c < two64 -> pc_deposit c <= lam_request c /\
  (pc_deposit c + rent LEN_ACCESS_REQ < two64 -> lam_request c = pc_deposit c + rent LEN_ACCESS_REQ).
Proof. unfold lam_request, sat_add, two64. intros H. destruct (_ <? _) eqn:E; keq; lia. Qed.
(* a request accepted under a config with fee < deposit holds more than the fee it remembers: saturating_sub in
   GrantAccess does not saturate for it, and (no u64 overflow) the remainder still covers the rent minimum plus deposit - fee *)
Lemma accepted_request_can_pay_fee cx W mode W' c :
  pp_request_access cx W mode = Ok W' -> is_pp_config W (nthk (cx_metas cx) 0) c -> cfg_ok c -> pc_deposit c < two64 ->
  let rk := KPpRequest (access_mode_service mode) in
  exists r, is_pp_request W' rk r /\ ar_fee r = pc_fee c /\ ar_fee r < pc_deposit c /\ ar_fee r < lamports (get W' rk) /\
    lam_request c <= lamports (get W' rk) /\
    (pc_deposit c + rent LEN_ACCESS_REQ < two64 -> rent LEN_ACCESS_REQ + pc_deposit c <= lamports (get W' rk)).
Proof.
  intros H (_ & Hd) Hok Hu. assert (Hg := pp_request_access_guards _ _ _ _ H). destruct Hg as (_ & c1 & (_ & Hd1) & _ & _ & Hdep & _).
  apply pp_request_access_spec in H. cbn zeta in *. destruct H as (c0 & (_ & Hd0) & _ & _ & _ & Hpt).
  assert (c0 = c) by congruence. assert (c1 = c) by congruence. subst c0 c1.
  destruct Hok as [Hz|Hlt]; [contradiction|]. destruct (lam_request_ge c Hu) as (Hge & Hex).
  eexists. unfold is_pp_request. rewrite Hpt, key_eqb_refl. cbn [owner data lamports ar_fee]. repeat split; cbn [ar_fee lamports]; lia.
Qed.

(* ------------------------------------------------------------------------------------------------------------- *)
(* 10. instruction frames and transactions (Exec.v)                                                                *)
(* ------------------------------------------------------------------------------------------------------------- *)
Definition pp_cx (ms : list meta) (h : N) (sib : option sibling) : ctx :=
  {| cx_prog := KPassport; cx_metas := ms; cx_height := h; cx_sibling := sib |}.

Lemma total_is_lamports_sum W ks : total W ks = lamports_sum W ks.
Proof. reflexivity. Qed.
Lemma existsb_key_in k l : existsb (key_eqb k) l = true <-> In k l.
Proof. rewrite existsb_exists. split; [intros (x & Hi & He); apply key_eqb_eq in He; subst; assumption|].
  intros Hi. exists k. rewrite key_eqb_refl. auto. Qed.
Lemma dedup_keys_in l k : In k (dedup_keys l) <-> In k l.
Proof.
  induction l as [|a tl IH]; cbn [dedup_keys]; [tauto|]. destruct (existsb (key_eqb a) tl) eqn:E.
  - rewrite IH. cbn. apply (proj1 (existsb_key_in _ _)) in E. split; [auto|]. intros [<-|H]; assumption.
  - cbn. rewrite IH. tauto.
Qed.
Lemma dedup_keys_nodup l : NoDup (dedup_keys l).
Proof.
  induction l as [|a tl IH]; cbn [dedup_keys]; [constructor|]. destruct (existsb (key_eqb a) tl) eqn:E; [assumption|].
  constructor; [|assumption]. rewrite dedup_keys_in. intros Hi. apply (proj2 (existsb_key_in _ _)) in Hi. congruence.
Qed.
Lemma nthk_in ms i : (i < length ms)%nat -> In (nthk ms i) (dedup_keys (keys_of ms)).
Proof. intros H. apply dedup_keys_in. unfold nthk. apply nth_In. unfold keys_of. rewrite map_length. assumption. Qed.

(* a passport instruction frame = the processor + the runtime's balance check over the instruction's accounts *)
Lemma exec_data_passport ix ms h sib W W' :
  exec_data KPassport (IxPassport ix) ms h sib W = Ok W' ->
  pp_process (pp_cx ms h sib) W ix = Ok W' /\
  total W' (dedup_keys (keys_of ms)) = total W (dedup_keys (keys_of ms)).
Proof.
  cbn [exec_data]. intros H. inv_all. ok_inj H. split; [exact Hm|]. unfold balanced in Hm0. cbn zeta in Hm0. keq.
  symmetry. exact Hm0.
Qed.
Lemma exec_data_passport_only prog ix ms h sib W W' :
  exec_data prog (IxPassport ix) ms h sib W = Ok W' -> prog = KPassport.
Proof. destruct prog; cbn [exec_data bind]; intros H; try discriminate H. reflexivity. Qed.

(* GrantAccess as an instruction frame: no saturation, exact amounts, conservation, request account emptied *)
Lemma exec_grant_access ms h sib W W' :
  exec_data KPassport (IxPassport PGrantAccess) ms h sib W = Ok W' ->
  exists c r, is_pp_config W (nthk ms 0) c /\ is_pp_request W (nthk ms 2) r /\
    let rk := nthk ms 2 in let s := pc_sentinel c in let b := ar_beneficiary r in
    let bal := lamports (get W rk) in let fee := ar_fee r in
    nthk ms 1 = s /\ nthk ms 3 = b /\ is_signer ms s = true /\ pc_paused c = false /\
    fee <= bal /\ s <> rk /\ b <> rk /\
    lamports (get W' rk) = 0 /\
    (s <> b -> lamports (get W' s) = lamports (get W s) + fee /\ lamports (get W' b) = lamports (get W b) + (bal - fee)) /\
    (s = b -> lamports (get W' s) = lamports (get W s) + bal) /\
    (forall k, k <> rk -> k <> s -> k <> b -> get W' k = get W k) /\
    (forall k, owner (get W' k) = owner (get W k) /\ alen (get W' k) = alen (get W k) /\ data (get W' k) = data (get W k)).
Proof.
  intros H. apply exec_data_passport in H. destruct H as (H & Hbal). cbn [pp_process] in H.
  assert (Hok := pp_grant_access_ok _ _ _ H). assert (Hauth := pp_grant_access_authority _ _ _ H).
  assert (Hacc := pp_grant_access_accounting _ _ _ _ H (dedup_keys_nodup (keys_of ms))).
  apply pp_grant_access_amounts in H. cbn [pp_cx cx_metas] in *. cbn zeta in *.
  destruct H as (c & r & Hc & Hr & Hn1 & Hn3 & Hz & Hs & Hb & Hsb & Hfr & Hmeta).
  destruct Hok as (m0 & m1 & m2 & m3 & rest & c0 & r0 & Hms & _ & Hd0 & _ & Hk0 & Hp0 & _ & Hdr0 & Hb0 & _).
  destruct Hauth as (c1 & (_ & Hd1) & _ & Hsig). destruct Hacc as (c2 & r2 & (_ & Hd2) & (_ & Hdr2) & Hacc).
  destruct Hc as (Hco & Hcd). destruct Hr as (Hro & Hrd).
  assert (c0 = c) by (rewrite Hms, nthk_0 in Hcd; congruence). assert (c1 = c) by congruence. assert (c2 = c) by congruence.
  assert (r0 = r) by (rewrite Hms, nthk_2 in Hrd; congruence). assert (r2 = r) by congruence. subst c0 c1 c2 r0 r2.
  assert (H1 : nthk ms 1 = pc_sentinel c) by (rewrite Hms, nthk_1; assumption).
  assert (H3 : nthk ms 3 = ar_beneficiary r) by (rewrite Hms, nthk_3; assumption).
  assert (Hlen : (4 <= length ms)%nat) by (rewrite Hms; cbn; lia).
  assert (Hfee : ar_fee r <= lamports (get W (nthk ms 2))).
  { specialize (Hacc (nthk_in ms 2 ltac:(lia))). rewrite <- H1, <- H3 in Hacc.
    specialize (Hacc (nthk_in ms 1 ltac:(lia)) (nthk_in ms 3 ltac:(lia))). lia. }
  exists c, r. split; [split; assumption|]. split; [split; assumption|].
  repeat (split; [assumption|]). split; [auto|]. split; [|split; assumption].
  intros E. rewrite (Hsb E). lia.
Qed.

Lemma exec_deny_access ms h sib W W' :
  exec_data KPassport (IxPassport PDenyAccess) ms h sib W = Ok W' ->
  exists c r, is_pp_config W (nthk ms 0) c /\ is_pp_request W (nthk ms 2) r /\
    let rk := nthk ms 2 in let s := pc_sentinel c in
    nthk ms 1 = s /\ is_signer ms s = true /\ pc_paused c = false /\ s <> rk /\
    lamports (get W' rk) = 0 /\ lamports (get W' s) = lamports (get W s) + lamports (get W rk) /\
    (forall k, k <> rk -> k <> s -> get W' k = get W k) /\
    (forall k, owner (get W' k) = owner (get W k) /\ alen (get W' k) = alen (get W k) /\ data (get W' k) = data (get W k)).
Proof.
  intros H. apply exec_data_passport in H. destruct H as (H & _). cbn [pp_process] in H.
  assert (Hok := pp_deny_access_ok _ _ _ H). assert (Hauth := pp_deny_access_authority _ _ _ H).
  apply pp_deny_access_amounts in H. cbn [pp_cx cx_metas] in *. cbn zeta in *.
  destruct H as (c & r & Hc & Hr & Hn1 & Hz & Hs & Hfr & Hmeta).
  destruct Hok as (m0 & m1 & m2 & rest & c0 & r0 & Hms & _ & Hd0 & _ & Hk0 & Hp0 & _).
  destruct Hauth as (c1 & (_ & Hd1) & _ & Hsig). destruct Hc as (Hco & Hcd).
  assert (c0 = c) by (rewrite Hms, nthk_0 in Hcd; congruence). assert (c1 = c) by congruence. subst c0 c1.
  assert (H1 : nthk ms 1 = pc_sentinel c) by (rewrite Hms, nthk_1; assumption).
  exists c, r. split; [split; assumption|]. split; [assumption|]. auto 10.
Qed.

(* ---- transactions ---- *)
Lemma tx_failed_unchanged W t W' : exec_tx W t = (W', false) -> W' = W.
Proof.
  unfold exec_tx. destruct (negb (tx_wf t)); [intros H; ok_inj H; reflexivity|].
  destruct (exec_ixs t (tx_ixs t) None W); [destruct (rent_ok t W a)|]; intros H; try discriminate H; ok_inj H; reflexivity.
Qed.
Lemma tx_success_inv W t W' :
  exec_tx W t = (W', true) ->
  tx_wf t = true /\ exists W1, exec_ixs t (tx_ixs t) None W = Ok W1 /\ rent_ok t W W1 = true /\ W' = purge W1.
Proof.
  unfold exec_tx. destruct (tx_wf t); cbn [negb]; [|discriminate]. destruct (exec_ixs t (tx_ixs t) None W) as [W1|]; [|discriminate].
  destruct (rent_ok t W W1) eqn:E; [|discriminate]. intros H. ok_inj H. eauto.
Qed.
Lemma tx_single_inv W t W' i :
  exec_tx W t = (W', true) -> tx_ixs t = [i] ->
  tx_wf t = true /\ exists W1, exec_data (i_prog i) (i_data i) (effective t (i_metas i)) 1 None W = Ok W1 /\ W' = purge W1.
Proof.
  intros H Hi. apply tx_success_inv in H. destruct H as (Hwf & W1 & He & _ & ->). rewrite Hi in He. cbn [exec_ixs] in He.
  inv_all. ok_inj He. eauto.
Qed.
Lemma lamports_purge W k : lamports (get (purge W) k) = lamports (get W k).
Proof. rewrite get_purge. destruct (lamports (get W k) =? 0) eqn:E; [keq; rewrite E|]; reflexivity. Qed.

(* message-level privileges *)
Lemma nthk_effective t ms i : nthk (effective t ms) i = nthk ms i.
Proof. unfold nthk, keys_of, effective. rewrite map_map. reflexivity. Qed.
Lemma is_signer_effective t ms k : is_signer (effective t ms) k = true -> In k (tx_signers t).
Proof.
  intros H. apply is_signer_in in H. destruct H as (m & Hi & Hk & Hs). unfold effective in Hi. apply in_map_iff in Hi.
  destruct Hi as (m' & <- & _). cbn in Hk, Hs. subst k. unfold msg_signer in Hs. apply (proj1 (existsb_key_in _ _)) in Hs. exact Hs.
Qed.

(* C07 at instruction-frame level inside any transaction (any position, any world reached so far): a passport
   instruction that needs an authority succeeds only if that authority's key signed the transaction *)
Lemma exec_passport_authority t ms h sib W W' ix :
  exec_data KPassport (IxPassport ix) (effective t ms) h sib W = Ok W' ->
  match ix with
  | PGrantAccess | PDenyAccess => exists c, is_pp_config W (nthk ms 0) c /\ In (pc_sentinel c) (tx_signers t)
  | PConfigureProgram _ => exists c, is_pp_config W (nthk ms 0) c /\ In (pc_admin c) (tx_signers t)
  | PSetAdmin _ => exists auth, data (get W (KProgData KPassport)) = DProgData (Some auth) /\ In auth (tx_signers t)
  | PInitializeProgram | PRequestAccess _ => True
  end.
Proof.
  intros H. apply exec_data_passport in H. destruct H as (H & _). destruct ix; cbn [pp_process] in H; try exact I.
  - apply pp_set_admin_authority in H. destruct H as (auth & _ & Hd & _ & Hs). cbn [pp_cx cx_metas] in Hs. eauto using is_signer_effective.
  - apply pp_configure_program_authority in H. destruct H as (c & Hc & _ & Hs). cbn [pp_cx cx_metas] in Hc, Hs. rewrite nthk_effective in Hc.
    eauto using is_signer_effective.
  - apply pp_grant_access_authority in H. destruct H as (c & Hc & _ & Hs). cbn [pp_cx cx_metas] in Hc, Hs. rewrite nthk_effective in Hc.
    eauto using is_signer_effective.
  - apply pp_deny_access_authority in H. destruct H as (c & Hc & _ & Hs). cbn [pp_cx cx_metas] in Hc, Hs. rewrite nthk_effective in Hc.
    eauto using is_signer_effective.
Qed.

(* a transaction consisting of one passport instruction *)
Definition pp_tx (t : tx) (ix : pp_ix) (ms : list meta) : Prop :=
  tx_ixs t = [{| i_prog := KPassport; i_data := IxPassport ix; i_metas := ms |}].

Lemma pp_tx_inv W t W' ix ms :
  exec_tx W t = (W', true) -> pp_tx t ix ms ->
  tx_wf t = true /\ exists W1, exec_data KPassport (IxPassport ix) (effective t ms) 1 None W = Ok W1 /\ W' = purge W1.
Proof. intros H Hi. apply (tx_single_inv _ _ _ _ H) in Hi. exact Hi. Qed.

(* C07, transaction level: no signature of the authority in the transaction, no effect *)
Lemma tx_grant_needs_sentinel W t W' ms :
  exec_tx W t = (W', true) -> pp_tx t PGrantAccess ms ->
  exists c, is_pp_config W (nthk ms 0) c /\ In (pc_sentinel c) (tx_signers t).
Proof. intros H Hi. destruct (pp_tx_inv _ _ _ _ _ H Hi) as (_ & W1 & He & _). exact (exec_passport_authority _ _ _ _ _ _ _ He). Qed.
Lemma tx_deny_needs_sentinel W t W' ms :
  exec_tx W t = (W', true) -> pp_tx t PDenyAccess ms ->
  exists c, is_pp_config W (nthk ms 0) c /\ In (pc_sentinel c) (tx_signers t).
Proof. intros H Hi. destruct (pp_tx_inv _ _ _ _ _ H Hi) as (_ & W1 & He & _). exact (exec_passport_authority _ _ _ _ _ _ _ He). Qed.
Lemma tx_configure_needs_admin W t W' s ms :
  exec_tx W t = (W', true) -> pp_tx t (PConfigureProgram s) ms ->
  exists c, is_pp_config W (nthk ms 0) c /\ In (pc_admin c) (tx_signers t).
Proof. intros H Hi. destruct (pp_tx_inv _ _ _ _ _ H Hi) as (_ & W1 & He & _). exact (exec_passport_authority _ _ _ _ _ _ _ He). Qed.
Lemma tx_set_admin_needs_upgrade_authority W t W' a ms :
  exec_tx W t = (W', true) -> pp_tx t (PSetAdmin a) ms ->
  exists auth, data (get W (KProgData KPassport)) = DProgData (Some auth) /\ In auth (tx_signers t).
Proof. intros H Hi. destruct (pp_tx_inv _ _ _ _ _ H Hi) as (_ & W1 & He & _). exact (exec_passport_authority _ _ _ _ _ _ _ He). Qed.
Lemma tx_grant_unsigned_fails W t ms c :
  pp_tx t PGrantAccess ms -> data (get W (nthk ms 0)) = DPpConfig c -> ~ In (pc_sentinel c) (tx_signers t) -> exec_tx W t = (W, false).
Proof.
  intros Hi Hd Hn. destruct (exec_tx W t) as (W', [|]) eqn:E; [exfalso|apply tx_failed_unchanged in E; subst; reflexivity].
  destruct (tx_grant_needs_sentinel _ _ _ _ E Hi) as (c0 & (_ & Hd0) & Hs). assert (c0 = c) by congruence. subst. contradiction.
Qed.

(* C08, transaction level *)
Lemma tx_paused_fails W t ix ms c :
  pp_tx t ix ms -> data (get W (nthk ms 0)) = DPpConfig c ->
  match ix with
  | PRequestAccess _ => pc_paused c = true \/ pc_request_paused c = true
  | PGrantAccess | PDenyAccess => pc_paused c = true
  | _ => False
  end -> exec_tx W t = (W, false).
Proof.
  intros Hi Hd Hp. destruct (exec_tx W t) as (W', [|]) eqn:E; [exfalso|apply tx_failed_unchanged in E; subst; reflexivity].
  destruct (pp_tx_inv _ _ _ _ _ E Hi) as (_ & W1 & He & _). apply exec_data_passport in He. destruct He as (He & _).
  rewrite <- (nthk_effective t) in Hd.
  destruct ix; try contradiction; cbn [pp_process] in He.
  - pose proof (pp_request_access_paused_fails (pp_cx (effective t ms) 1 None) W m c Hd Hp) as Hf. rewrite He in Hf. discriminate.
  - pose proof (pp_grant_access_paused_fails (pp_cx (effective t ms) 1 None) W c Hd Hp) as Hf. rewrite He in Hf. discriminate.
  - pose proof (pp_deny_access_paused_fails (pp_cx (effective t ms) 1 None) W c Hd Hp) as Hf. rewrite He in Hf. discriminate.
Qed.

(* C18, top level only: RequestAccess succeeds only at stack height 1; re-issued by another program (any nesting depth of
   the harness' CPI relay) it always fails *)
Lemma exec_request_height prog m ms h sib W W' :
  exec_data prog (IxPassport (PRequestAccess m)) ms h sib W = Ok W' -> h = 1.
Proof.
  intros H. assert (prog = KPassport) by (eapply exec_data_passport_only; eassumption). subst.
  apply exec_data_passport in H. destruct H as (H & _). cbn [pp_process] in H. apply pp_request_access_guards in H.
  destruct H as (H & _). exact H.
Qed.
Lemma exec_rogue_cpi_inv prog inner ms h sib W W' :
  exec_data prog (IxRogueCpi inner) ms h sib W = Ok W' ->
  exists callee ms', exec_data callee inner ms' (h + 1) None W = Ok W'.
Proof.
  destruct prog; cbn [exec_data bind]; intros H; try discriminate H. inv_all. destruct ms as [|callee rest]; [discriminate|].
  inv_all. ok_inj H. eauto.
Qed.
Fixpoint rogue_wrap (n : nat) (d : ixdata) : ixdata := match n with O => d | S n' => IxRogueCpi (rogue_wrap n' d) end.
Lemma exec_wrapped_request_height n : forall prog m ms h sib W W',
  exec_data prog (rogue_wrap n (IxPassport (PRequestAccess m))) ms h sib W = Ok W' -> h + N.of_nat n = 1.
Proof.
  induction n as [|n IH]; intros prog m ms h sib W W' H; cbn [rogue_wrap] in H.
  - apply exec_request_height in H. lia.
  - apply exec_rogue_cpi_inv in H. destruct H as (callee & ms' & H). apply IH in H. lia.
Qed.
Lemma request_via_cpi_fails n prog m ms h sib W :
  h <> 0 -> is_ok (exec_data prog (rogue_wrap (S n) (IxPassport (PRequestAccess m))) ms h sib W) = false.
Proof. intros Hh. apply not_ok_fails. intros W' H. apply exec_wrapped_request_height in H. lia. Qed.
Lemma tx_request_via_cpi_fails W t n prog m ms :
  tx_ixs t = [{| i_prog := prog; i_data := rogue_wrap (S n) (IxPassport (PRequestAccess m)); i_metas := ms |}] ->
  exec_tx W t = (W, false).
Proof.
  intros Hi. destruct (exec_tx W t) as (W', [|]) eqn:E; [exfalso|apply tx_failed_unchanged in E; subst; reflexivity].
  destruct (tx_single_inv _ _ _ _ E Hi) as (_ & W1 & He & _). cbn [i_prog i_data i_metas] in He.
  apply exec_wrapped_request_height in He. lia.
Qed.

(* C17, transaction level: a successful GrantAccess transaction pays the sentinel exactly the remembered fee, returns the
   entire remainder to the remembered requester, removes the request account, changes nobody else, conserves lamports *)
Lemma tx_grant_access W t W' ms :
  exec_tx W t = (W', true) -> pp_tx t PGrantAccess ms ->
  exists c r, is_pp_config W (nthk ms 0) c /\ is_pp_request W (nthk ms 2) r /\
    let rk := nthk ms 2 in let s := pc_sentinel c in let b := ar_beneficiary r in
    let bal := lamports (get W rk) in let fee := ar_fee r in
    nthk ms 1 = s /\ nthk ms 3 = b /\ In s (tx_signers t) /\ pc_paused c = false /\ fee <= bal /\ s <> rk /\ b <> rk /\
    get W' rk = empty_acct /\
    (s <> b -> lamports (get W' s) = lamports (get W s) + fee /\ lamports (get W' b) = lamports (get W b) + (bal - fee)) /\
    (s = b -> lamports (get W' s) = lamports (get W s) + bal) /\
    (forall k, k <> rk -> k <> s -> k <> b -> lamports (get W k) <> 0 -> get W' k = get W k) /\
    (forall ks, NoDup ks -> In rk ks -> In s ks -> In b ks -> total W' ks = total W ks).
Proof.
  intros H Hi. destruct (pp_tx_inv _ _ _ _ _ H Hi) as (_ & W1 & He & ->).
  assert (Hex := exec_grant_access _ _ _ _ _ He). cbn zeta in *. rewrite !nthk_effective in Hex.
  destruct Hex as (c & r & Hc & Hr & H1 & H3 & Hsig & Hp & Hfee & Hn1 & Hn3 & Hz & Hsb & Hss & Hfr & Hmeta).
  exists c, r. split; [assumption|]. split; [assumption|]. split; [assumption|]. split; [assumption|].
  split; [eapply is_signer_effective; eassumption|]. split; [assumption|]. split; [assumption|]. split; [assumption|].
  split; [assumption|]. split. { rewrite get_purge, Hz. reflexivity. }
  split. { intros Hne. rewrite !lamports_purge. auto. } split. { intros E. rewrite lamports_purge. auto. }
  split. { intros k Hk1 Hk2 Hk3 Hnz. rewrite get_purge, (Hfr k Hk1 Hk2 Hk3). destruct (lamports (get W k) =? 0) eqn:E; [keq; contradiction|reflexivity]. }
  intros ks Hnd Hi1 Hi2 Hi3. apply exec_data_passport in He. destruct He as (He & _). cbn [pp_process] in He.
  destruct (pp_grant_access_conserves _ _ _ ks He Hnd) as (c0 & r0 & (_ & Hd0) & (_ & Hdr0) & Hcons).
  cbn [pp_cx cx_metas] in *. rewrite !nthk_effective in *. destruct Hc as (_ & Hcd). destruct Hr as (_ & Hrd).
  assert (c0 = c) by congruence. assert (r0 = r) by congruence. subst c0 r0.
  unfold total in *. erewrite map_ext; [apply Hcons; assumption|]. intros k. apply lamports_purge.
Qed.
Lemma tx_deny_access W t W' ms :
  exec_tx W t = (W', true) -> pp_tx t PDenyAccess ms ->
  exists c r, is_pp_config W (nthk ms 0) c /\ is_pp_request W (nthk ms 2) r /\
    let rk := nthk ms 2 in let s := pc_sentinel c in
    nthk ms 1 = s /\ In s (tx_signers t) /\ pc_paused c = false /\ s <> rk /\
    get W' rk = empty_acct /\ lamports (get W' s) = lamports (get W s) + lamports (get W rk) /\
    (forall k, k <> rk -> k <> s -> lamports (get W k) <> 0 -> get W' k = get W k).
Proof.
  intros H Hi. destruct (pp_tx_inv _ _ _ _ _ H Hi) as (_ & W1 & He & ->).
  assert (Hex := exec_deny_access _ _ _ _ _ He). cbn zeta in *. rewrite !nthk_effective in Hex.
  destruct Hex as (c & r & Hc & Hr & H1 & Hsig & Hp & Hn1 & Hz & Hs & Hfr & Hmeta).
  exists c, r. split; [assumption|]. split; [assumption|]. split; [assumption|].
  split; [eapply is_signer_effective; eassumption|]. split; [assumption|]. split; [assumption|].
  split. { rewrite get_purge, Hz. reflexivity. } split. { rewrite lamports_purge. assumption. }
  intros k Hk1 Hk2 Hnz. rewrite get_purge, (Hfr k Hk1 Hk2). destruct (lamports (get W k) =? 0) eqn:E; [keq; contradiction|reflexivity].
Qed.
(* C17/C18, transaction level: a successful RequestAccess transaction *)
Lemma tx_request_access W t W' mode ms :
  exec_tx W t = (W', true) -> pp_tx t (PRequestAccess mode) ms ->
  let svc := access_mode_service mode in let rk := KPpRequest svc in let payer := nthk ms 1 in
  exists c, is_pp_config W (nthk ms 0) c /\ nthk ms 2 = rk /\
    pc_paused c = false /\ pc_request_paused c = false /\ pc_deposit c <> 0 /\ svc <> default_key /\
    match mode with AMValidator _ => True | AMValidatorWithBackups _ b => b <> [] /\ N.of_nat (length b) <= pc_backup_limit c end /\
    alen (get W rk) = 0 /\ owner (get W rk) = KSystem /\
    let short := lam_request c - lamports (get W rk) in
    (short <> 0 -> In payer (tx_signers t) /\ payer <> rk) /\
    get W' rk = {| lamports := N.max (lamports (get W rk)) (lam_request c); owner := KPassport; alen := LEN_ACCESS_REQ;
                   data := DAccessReq {| ar_service := svc; ar_beneficiary := payer; ar_fee := pc_fee c; ar_mode := mode |} |} /\
    (payer <> rk -> lamports (get W' payer) = lamports (get W payer) - short /\ short <= lamports (get W payer)) /\
    (forall k, k <> rk -> k <> payer -> lamports (get W k) <> 0 -> get W' k = get W k).
Proof.
  intros H Hi. destruct (pp_tx_inv _ _ _ _ _ H Hi) as (_ & W1 & He & ->). cbn zeta.
  apply exec_data_passport in He. destruct He as (He & _). cbn [pp_process] in He.
  assert (Hg := pp_request_access_guards _ _ _ _ He). assert (Hid := pp_request_access_identity _ _ _ _ He).
  assert (Hok := pp_request_access_ok _ _ _ _ He).
  apply pp_request_access_spec in He. cbn [pp_cx cx_metas] in *. cbn zeta in *. rewrite !nthk_effective in *.
  destruct He as (c & Hc & Hle & Hsig & _ & Hpt). destruct Hg as (_ & c1 & (_ & Hd1) & Hp1 & Hp2 & Hdep & Hsvc & Hmode & _).
  destruct Hid as (_ & H2 & _). destruct Hok as (m0 & m1 & m2 & rest & c2 & _ & _ & _ & _ & _ & _ & _ & _ & _ & _ & _ & _ & Ha & Ho & _).
  destruct Hc as (Hco & Hcd). assert (c1 = c) by congruence. subst c1.
  exists c. split; [split; assumption|]. repeat (split; [assumption|]).
  remember (KPpRequest (access_mode_service mode)) as rk. remember (nthk ms 1) as payer.
  split. { intros Hs. destruct (Hsig Hs) as (Hne & Hsg). split; [eapply is_signer_effective; eassumption|assumption]. }
  split. { rewrite get_purge, Hpt, key_eqb_refl. cbn [lamports].
           destruct (_ =? 0) eqn:E; [|reflexivity]. keq. exfalso. pose proof (sat_add_rent_pos (pc_deposit c) LEN_ACCESS_REQ). unfold lam_request in E. lia. }
  split. { intros Hne. split; [|assumption]. rewrite lamports_purge, Hpt, (key_eqb_neq payer rk), key_eqb_refl by assumption. apply set_lamports_lam. }
  intros k Hk1 Hk2 Hnz. rewrite get_purge, Hpt, !key_eqb_neq by assumption. destruct (lamports (get W k) =? 0) eqn:E; [keq; contradiction|reflexivity].
Qed.

(* ---- C17 life cycle: request, any number of reconfigurations, grant ---- *)
Lemma tx_configure_frame W t W' s ms :
  exec_tx W t = (W', true) -> pp_tx t (PConfigureProgram s) ms ->
  forall k, k <> nthk ms 0 -> lamports (get W k) <> 0 -> get W' k = get W k.
Proof.
  intros H Hi k Hk Hnz. destruct (pp_tx_inv _ _ _ _ _ H Hi) as (_ & W1 & He & ->).
  apply exec_data_passport in He. destruct He as (He & _). cbn [pp_process] in He.
  apply pp_configure_program_frame in He. cbn [pp_cx cx_metas] in He. rewrite !nthk_effective in He.
  destruct He as (c & c' & _ & _ & _ & Hfr & _). rewrite get_purge, (Hfr k Hk).
  destruct (lamports (get W k) =? 0) eqn:E; [keq; contradiction|reflexivity].
Qed.
Inductive reconfigured : world -> world -> Prop :=
| rc_refl W : reconfigured W W
| rc_step W t W1 s ms W2 :
    exec_tx W t = (W1, true) -> pp_tx t (PConfigureProgram s) ms -> reconfigured W1 W2 -> reconfigured W W2.
Lemma reconfigured_keeps_pending W W' k r :
  reconfigured W W' -> data (get W k) = DAccessReq r -> lamports (get W k) <> 0 -> get W' k = get W k.
Proof.
  induction 1 as [|W t W1 s ms W2 He Hi _ IH]; intros Hd Hnz; [reflexivity|].
  assert (Hk : k <> nthk ms 0).
  { intros ->. destruct (tx_configure_needs_admin _ _ _ _ _ He Hi) as (c & (_ & Hc) & _). congruence. }
  pose proof (tx_configure_frame _ _ _ _ _ He Hi k Hk Hnz) as E. rewrite IH; rewrite E; auto.
Qed.

Lemma request_reconfigure_grant W0 tr W1 mode msr c0 W2 tg W3 msg :
  exec_tx W0 tr = (W1, true) -> pp_tx tr (PRequestAccess mode) msr ->
  is_pp_config W0 (nthk msr 0) c0 -> cfg_ok c0 -> pc_deposit c0 < two64 ->
  reconfigured W1 W2 ->
  exec_tx W2 tg = (W3, true) -> pp_tx tg PGrantAccess msg -> nthk msg 2 = KPpRequest (access_mode_service mode) ->
  let rk := KPpRequest (access_mode_service mode) in let payer := nthk msr 1 in let bal := lamports (get W1 rk) in
  exists c2, is_pp_config W2 (nthk msg 0) c2 /\
    let s := pc_sentinel c2 in
    lam_request c0 <= bal /\ pc_fee c0 < pc_deposit c0 /\ pc_deposit c0 <= bal /\ nthk msg 3 = payer /\ In s (tx_signers tg) /\
    get W3 rk = empty_acct /\
    (s <> payer -> lamports (get W3 s) = lamports (get W2 s) + pc_fee c0 /\
                   lamports (get W3 payer) = lamports (get W2 payer) + (bal - pc_fee c0)) /\
    (s = payer -> lamports (get W3 s) = lamports (get W2 s) + bal).
Proof.
  intros Hr Hir (_ & Hc0) Hok Hu Hrc Hg Hig H2. cbn zeta.
  pose proof (tx_request_access _ _ _ _ _ Hr Hir) as Hreq. cbn zeta in Hreq.
  destruct Hreq as (c & (_ & Hcd) & _ & _ & _ & Hdep & _ & _ & _ & _ & _ & Hget & _). assert (c = c0) by congruence. subst c.
  destruct Hok as [Hz|Hlt]; [contradiction|]. destruct (lam_request_ge c0 Hu) as (Hge & _).
  remember (KPpRequest (access_mode_service mode)) as rk.
  assert (Hbal : lam_request c0 <= lamports (get W1 rk)) by (rewrite Hget; cbn [lamports]; lia).
  assert (Hkeep : get W2 rk = get W1 rk).
  { eapply reconfigured_keeps_pending; [eassumption|rewrite Hget; reflexivity|]. pose proof (sat_add_rent_pos (pc_deposit c0) LEN_ACCESS_REQ).
    unfold lam_request in Hbal. lia. }
  pose proof (tx_grant_access _ _ _ _ Hg Hig) as Hgr. cbn zeta in Hgr. rewrite H2 in Hgr.
  destruct Hgr as (c2 & r & Hc2 & (_ & Hrd) & _ & H3 & Hsig & _ & _ & _ & _ & Hz' & Hne & Heq & _).
  rewrite Hkeep in Hrd, Hne, Heq. rewrite Hget in Hrd. cbn [data] in Hrd. ok_inj Hrd. cbn [ar_fee ar_beneficiary] in *.
  exists c2. split; [assumption|]. repeat (split; [first [assumption|lia]|]). assumption.
Qed.

(* ------------------------------------------------------------------------------------------------------------- *)
(* 11. non-vacuity: concrete worlds built by running exec_op on literal histories                                  *)
(* ------------------------------------------------------------------------------------------------------------- *)
Definition run_ops (W : world) (ops : list op) : world * list bool :=
  fold_left (fun '(W, rs) o => let '(W', b) := exec_op W o in (W', rs ++ [b])) ops (W, []).
Definition tx1 (signers : list key) (ix : pp_ix) (ms : list meta) : tx :=
  {| tx_signers := signers; tx_ixs := [{| i_prog := KPassport; i_data := IxPassport ix; i_metas := ms |}] |}.
Lemma pp_tx_tx1 signers ix ms : pp_tx (tx1 signers ix ms) ix ms.
Proof. reflexivity. Qed.

Definition uA := KUser 1.  (* upgrade authority, then admin *)
Definition uS := KUser 2.  (* sentinel *)
Definition uP := KUser 3.  (* requester *)
Definition svc1 := KUser 77.
Definition rk1 := KPpRequest svc1.
Definition att1 := {| at_validator := KUser 50; at_service := svc1; at_sig := 5 |}.
Definition mode1 := AMValidatorWithBackups att1 [KUser 60; KUser 61].
Definition pd_acct := {| lamports := 1141440; owner := KLoader; alen := 36; data := DProgData (Some uA) |}.
Definition init_metas := [mk uA true true; mk KPpConfig false true; mk KSystem false false].
Definition set_admin_metas := [mk (KProgData KPassport) false false; mk uA true false; mk KPpConfig false true].
Definition conf_metas := [mk KPpConfig false true; mk uA true false].
Definition request_metas (payer svc : key) := [mk KPpConfig false false; mk payer true true; mk (KPpRequest svc) false true; mk KSystem false false].
Definition grant_metas (svc ben : key) := [mk KPpConfig false false; mk uS true true; mk (KPpRequest svc) false true; mk ben false true].
Definition deny_metas (svc : key) := [mk KPpConfig false false; mk uS true true; mk (KPpRequest svc) false true].
Definition t_init := tx1 [uA] PInitializeProgram init_metas.
Definition t_set_admin := tx1 [uA] (PSetAdmin uA) set_admin_metas.
Definition t_conf (s : pp_setting) := tx1 [uA] (PConfigureProgram s) conf_metas.
Definition t_request := tx1 [uP] (PRequestAccess mode1) (request_metas uP svc1).
Definition t_grant := tx1 [uS] PGrantAccess (grant_metas svc1 uP).
Definition t_deny := tx1 [uS] PDenyAccess (deny_metas svc1).
Definition funding : list op :=
  [OAirdrop uA 1000000000000; OAirdrop uS 1000000000; OAirdrop uP 1000000000000; OForge (KProgData KPassport) pd_acct].
Definition setup : list op :=
  funding ++ [OTx t_init; OTx t_set_admin; OTx (t_conf (PSSentinel uS)); OTx (t_conf (PSAccessRequestDeposit 10000000 5000));
              OTx (t_conf (PSBackupIdsLimit 2))].
Definition W_funded : world := Eval vm_compute in fst (run_ops world0 funding).
Definition W_inited : world := Eval vm_compute in fst (run_ops W_funded [OTx t_init]).
Definition W_setup : world := Eval vm_compute in fst (run_ops world0 setup).
Definition W_req : world := Eval vm_compute in fst (run_ops W_setup [OTx t_request]).
Definition W_req_reconf : world := Eval vm_compute in fst (run_ops W_req [OTx (t_conf (PSAccessRequestDeposit 20 7))]).
Definition W_paused : world := Eval vm_compute in fst (run_ops W_req [OTx (t_conf (PSFlag (PFIsPaused true)))]).
Definition cfg_setup : pp_config :=
  {| pc_paused := false; pc_request_paused := false; pc_admin := uA; pc_sentinel := uS;
     pc_deposit := 10000000; pc_fee := 5000; pc_backup_limit := 2 |}.
Definition top (ms : list meta) : ctx := pp_cx ms 1 None.

(* the whole life cycle runs: initialise, set admin, configure x3, request, reconfigure deposit/fee, grant *)
Example history_nonvacuous :
  snd (run_ops world0 (setup ++ [OTx t_request; OTx (t_conf (PSAccessRequestDeposit 20 7)); OTx t_grant])) = repeat true 12.
Proof. vm_compute. reflexivity. Qed.
Example W_setup_config_nonvacuous : is_pp_config W_setup KPpConfig cfg_setup /\ cfg_ok cfg_setup /\ pc_deposit cfg_setup < two64.
Proof. split; [split; reflexivity|]. split; [right|]; vm_compute; reflexivity. Qed.

(* processor level: each success hypothesis is satisfiable *)
Example pp_initialize_program_nonvacuous : is_ok (pp_initialize_program (top init_metas) W_funded) = true.
Proof. vm_compute. reflexivity. Qed.
Example pp_set_admin_nonvacuous : is_ok (pp_set_admin (top set_admin_metas) W_inited (KUser 9)) = true.
Proof. vm_compute. reflexivity. Qed.
Example pp_configure_program_nonvacuous :
  is_ok (pp_configure_program (top conf_metas) W_setup (PSAccessRequestDeposit 20 7)) = true /\
  is_ok (pp_configure_program (top conf_metas) W_setup (PSBackupIdsLimit 3)) = true /\
  is_ok (pp_configure_program (top conf_metas) W_setup (PSAccessRequestDeposit 0 0)) = false /\
  is_ok (pp_configure_program (top conf_metas) W_setup (PSAccessRequestDeposit 5 5)) = false /\
  is_ok (pp_configure_program (top conf_metas) W_setup (PSBackupIdsLimit 0)) = false.
Proof. vm_compute. repeat split. Qed.
Example pp_request_access_nonvacuous : is_ok (pp_request_access (top (request_metas uP svc1)) W_setup mode1) = true.
Proof. vm_compute. reflexivity. Qed.
Example pp_grant_access_nonvacuous : is_ok (pp_grant_access (top (grant_metas svc1 uP)) W_req_reconf) = true.
Proof. vm_compute. reflexivity. Qed.
Example pp_deny_access_nonvacuous : is_ok (pp_deny_access (top (deny_metas svc1)) W_req) = true.
Proof. vm_compute. reflexivity. Qed.
(* sentinel = requester is allowed *)
Example pp_grant_access_sentinel_is_beneficiary_nonvacuous :
  let W := fst (run_ops W_setup [OTx (tx1 [uS] (PRequestAccess mode1) (request_metas uS svc1))]) in
  exists W', pp_grant_access (top (grant_metas svc1 uS)) W = Ok W' /\
             lamports (get W' uS) = lamports (get W uS) + lamports (get W rk1) /\ lamports (get W' rk1) = 0.
Proof. vm_compute. eexists. split; [reflexivity|]. split; reflexivity. Qed.

(* transaction level *)
Example tx_request_access_nonvacuous : snd (exec_tx W_setup t_request) = true.
Proof. vm_compute. reflexivity. Qed.
Example tx_grant_access_nonvacuous : snd (exec_tx W_req_reconf t_grant) = true.
Proof. vm_compute. reflexivity. Qed.
Example tx_deny_access_nonvacuous : snd (exec_tx W_req t_deny) = true.
Proof. vm_compute. reflexivity. Qed.
(* the fee paid is the one remembered at request time (5000), not the reconfigured one (7); the requester gets everything else *)
Example remembered_fee_nonvacuous :
  let W' := fst (exec_tx W_req_reconf t_grant) in
  lamports (get W' uS) = lamports (get W_req_reconf uS) + 5000 /\
  lamports (get W' uP) = lamports (get W_req_reconf uP) + (lamports (get W_req_reconf rk1) - 5000) /\
  lamports (get W_setup uP) = lamports (get W' uP) + 5000 /\
  get W' rk1 = empty_acct.
Proof. vm_compute. repeat split. Qed.
(* hypotheses of the negative lemmas are satisfiable *)
Example paused_nonvacuous :
  (exists c, data (get W_paused KPpConfig) = DPpConfig c /\ pc_paused c = true) /\
  snd (exec_tx W_paused t_grant) = false /\ snd (exec_tx W_paused t_deny) = false /\
  snd (exec_tx W_paused (tx1 [uP] (PRequestAccess (AMValidator {| at_validator := KUser 50; at_service := KUser 78; at_sig := 1 |}))
                           (request_metas uP (KUser 78)))) = false /\
  snd (exec_tx W_paused (t_conf (PSFlag (PFIsPaused false)))) = true /\ snd (exec_tx W_paused t_set_admin) = true.
Proof. split; [eexists; split; reflexivity|]. vm_compute. repeat split. Qed.
Example one_pending_per_service_key_nonvacuous :
  (exists r, is_pp_request W_req rk1 r) /\ snd (exec_tx W_req t_request) = false.
Proof. split; [eexists; split; reflexivity|]. vm_compute. reflexivity. Qed.
Example pp_reinit_fails_nonvacuous : (exists c, is_pp_config W_setup KPpConfig c) /\ snd (exec_tx W_setup t_init) = false.
Proof. split; [eexists; split; reflexivity|]. vm_compute. reflexivity. Qed.
Example unsigned_grant_nonvacuous :
  snd (exec_tx W_req (tx1 [uP] PGrantAccess [mk KPpConfig false false; mk uS false true; mk rk1 false true; mk uP false true])) = false /\
  snd (exec_tx W_req (tx1 [uP] PGrantAccess [mk KPpConfig false false; mk uP true true; mk rk1 false true; mk uP false true])) = false.
Proof. vm_compute. split; reflexivity. Qed.
Example request_via_cpi_nonvacuous :
  let inner_ms := request_metas uP (KUser 78) in
  let m := AMValidator {| at_validator := KUser 50; at_service := KUser 78; at_sig := 1 |} in
  snd (exec_tx W_setup (tx1 [uP] (PRequestAccess m) inner_ms)) = true /\
  snd (exec_tx W_setup {| tx_signers := [uP]; tx_ixs := [{| i_prog := KRogue 0; i_data := IxRogueCpi (IxPassport (PRequestAccess m));
                                                            i_metas := mk KPassport false false :: inner_ms |}] |}) = false.
Proof. vm_compute. split; reflexivity. Qed.

(* ---- what is NOT true at processor level, and how the transaction level repairs it ---- *)
(* the processor alone (no runtime balance check) mints lamports when a forged request remembers a fee above its balance:
   the hypothesis `ar_fee r <= balance` of pp_grant_access_conserves cannot be dropped ... *)
Definition forged_req : acct :=
  {| lamports := 10; owner := KPassport; alen := LEN_ACCESS_REQ;
     data := DAccessReq {| ar_service := KUser 88; ar_beneficiary := uP; ar_fee := 100; ar_mode := AMValidator att1 |} |}.
Definition W_forged : world := Eval vm_compute in fst (run_ops W_setup [OForge (KPpRequest (KUser 88)) forged_req]).
Example pp_grant_access_conservation_without_fee_le_balance_refuted :
  exists W', pp_grant_access (top (grant_metas (KUser 88) uP)) W_forged = Ok W' /\
    total W' [KPpRequest (KUser 88); uS; uP] = total W_forged [KPpRequest (KUser 88); uS; uP] + 90.
Proof. vm_compute. eexists. split; reflexivity. Qed.
(* ... but the instruction frame (runtime balance check) rejects it, and rejects a second grant of the same request inside
   one transaction (balance 0 < remembered fee) *)
Example forged_fee_rejected_by_runtime : snd (exec_tx W_forged (tx1 [uS] PGrantAccess (grant_metas (KUser 88) uP))) = false.
Proof. vm_compute. reflexivity. Qed.
Example double_grant_rejected_by_runtime :
  snd (exec_tx W_req {| tx_signers := [uS];
                        tx_ixs := [{| i_prog := KPassport; i_data := IxPassport PGrantAccess; i_metas := grant_metas svc1 uP |};
                                   {| i_prog := KPassport; i_data := IxPassport PGrantAccess; i_metas := grant_metas svc1 uP |}] |}) = false.
Proof. vm_compute. reflexivity. Qed.
(* a request whose payer account was the (pre-funded) request address itself remembers that address as beneficiary; it can
   never be granted (the refund would alias the request account), only denied *)
Example self_beneficiary_request_only_deniable :
  let W := fst (run_ops W_setup [OAirdrop rk1 50000000; OTx (tx1 [uP] (PRequestAccess mode1)
                                   [mk KPpConfig false false; mk rk1 false true; mk rk1 false true; mk KSystem false false])]) in
  (exists r, is_pp_request W rk1 r /\ ar_beneficiary r = rk1) /\
  snd (exec_tx W (tx1 [uS] PGrantAccess (grant_metas svc1 rk1))) = false /\
  snd (exec_tx W t_deny) = true.
Proof. vm_compute. split; [eexists; split; [split|]; reflexivity|]. split; reflexivity. Qed.

Example request_reconfigure_grant_nonvacuous :
  exec_tx W_setup t_request = (W_req, true) /\ pp_tx t_request (PRequestAccess mode1) (request_metas uP svc1) /\
  is_pp_config W_setup (nthk (request_metas uP svc1) 0) cfg_setup /\ reconfigured W_req W_req_reconf /\
  snd (exec_tx W_req_reconf t_grant) = true /\ pp_tx t_grant PGrantAccess (grant_metas svc1 uP) /\
  nthk (grant_metas svc1 uP) 2 = KPpRequest (access_mode_service mode1).
Proof.
  split; [vm_compute; reflexivity|]. split; [reflexivity|]. split; [split; reflexivity|]. split.
  - eapply rc_step with (t := t_conf (PSAccessRequestDeposit 20 7)); [vm_compute; reflexivity|reflexivity|apply rc_refl].
  - split; [vm_compute; reflexivity|]. split; reflexivity.
Qed.
