(* Part 2 of Lemmas_RdSpecs*: exact specifications of pay-debt and write-off (C01, C10). *)
From DZ Require Import Base Keys Merkle BurnRate Shares Swap_Ring State World SwapDeq RD Lemmas_Merkle Lemmas_RdSpecs.

(* ================================================================================================ pay debt *)
Definition pay_debt_dist (d : dist) (amount : N) : dist :=
  d <| d_collected_sol := wadd64 (d_collected_sol d) amount |> <| d_payments_count := wadd32 (d_payments_count d) 1 |>.

Record pay_debt_facts (cx : ctx) (W : world) (amount : N) (p : proof) (W' : world)
  (c : rd_config) (dk : key) (d : dist) (tail : list N) (pk : key) (dp : deposit) (jk : key) (j : journal)
  (idx : N) (tail' : list N) : Prop := {
  (* (a) guards *)
  pd_metas : exists mc md mp mj rest, cx_metas cx = mc :: md :: mp :: mj :: rest /\ mkey md = dk /\ mkey mp = pk /\ mkey mj = jk /\
             mwritable md = true /\ mwritable mp = true /\ mwritable mj = true /\
             owner (get W (mkey mc)) = KRd /\ data (get W (mkey mc)) = DConfig c;
  pd_unpaused : c_paused c = false;
  pd_dist_owner : owner (get W dk) = KRd;
  pd_dist_data : data (get W dk) = DDist d tail;
  pd_debt_final : d_debt_final d = true;
  pd_deposit_owner : owner (get W pk) = KRd;
  pd_deposit_data : data (get W pk) = DDeposit dp;
  pd_index : leaf_index p = Some idx;
  pd_in_range : d_debt_start d <= d_debt_end d /\ d_debt_end d <= N.of_nat (length tail) /\ idx / 8 < d_debt_end d - d_debt_start d;
  pd_bit_clear : range_bit tail (d_debt_start d) idx = false;
  pd_root : root_from_leaf p PRE_DEBT (LDebt (dp_node dp) amount) = d_debt_root d;
  pd_amount : amount <= lamports (get W pk) - rent LEN_DEPOSIT;
  pd_journal_owner : owner (get W jk) = KRd;
  pd_journal_data : data (get W jk) = DJournal j;
  pd_distinct : dk <> pk /\ dk <> jk /\ pk <> jk;
  (* (b) effect, pointwise on the whole world *)
  pd_tail' : process_leaf tail (d_debt_start d) (d_debt_end d) idx = Ok tail';
  pd_now : now W' = now W;
  pd_effect : forall k, get W' k =
      if key_eqb k pk then (get W pk) <| lamports := lamports (get W pk) - amount |>
      else if key_eqb k jk then (get W jk) <| lamports := lamports (get W jk) + amount |>
                                           <| data := DJournal (j <| j_total_sol := wadd64 (j_total_sol j) amount |>) |>
      else if key_eqb k dk then (get W dk) <| data := DDist (pay_debt_dist d amount) tail' |>
      else get W k
}.

Theorem rd_pay_debt_spec cx W amount p W' : rd_pay_debt cx W amount p = Ok W' ->
  exists c dk d tail pk dp jk j idx tail', pay_debt_facts cx W amount p W' c dk d tail pk dp jk j idx tail'.
Proof.
  unfold rd_pay_debt, leaf_idx. intros H. inv_all. norm_bool.
  match goal with H : rd_zc_config _ _ _ = Ok _ |- _ => apply rd_zc_config_ok in H; destruct H as (mc & Ems & -> & _ & Hoc & Hdc) end.
  match goal with H : rd_zc_dist _ _ _ = Ok _ |- _ => apply rd_zc_dist_ok in H; destruct H as (md & -> & -> & Hwd & Hod & Hdd) end.
  match goal with H : rd_zc_deposit _ _ _ = Ok _ |- _ => apply rd_zc_deposit_ok in H; destruct H as (mp & -> & -> & Hwp & Hop & Hdp) end.
  match goal with H : rd_zc_journal _ _ _ = Ok _ |- _ => apply rd_zc_journal_ok in H; destruct H as (mj & -> & -> & Hwj & Hoj & Hdj) end.
  specialize (Hwd eq_refl). specialize (Hwp eq_refl). specialize (Hwj eq_refl).
  match goal with H : put_dist _ _ _ _ _ = Ok _ |- _ => apply put_dist_spec in H; destruct H as (_ & _ & Hn1 & Hg1) end.
  match goal with H : debit _ _ _ _ = Ok _ |- _ => apply debit_spec in H; destruct H as (_ & _ & Hn2 & Hg2) end.
  match goal with H : credit _ _ _ _ = Ok _ |- _ => apply credit_spec in H; destruct H as (_ & Hn3 & Hg3) end.
  apply write_data_spec in H. destruct H as (_ & _ & Hn4 & Hg4).
  set (dk := mkey md) in *. set (pk := mkey mp) in *. set (jk := mkey mj) in *.
  assert (dk <> pk) as Hdp' by (intros E; rewrite E in *; congruence).
  rewrite Hg1 in Hoj, Hdj.
  assert (dk <> jk) as Hdj'.
  { intros E. rewrite E, key_eqb_refl in Hdj. cbn in Hdj. discriminate. }
  rewrite (key_eqb_neq dk jk) in Hoj, Hdj by assumption.
  assert (pk <> jk) as Hpj by (intros E; rewrite E in *; congruence).
  match goal with H : process_leaf _ _ _ _ = Ok ?t |- _ => rename H into Hpl; rename t into tail' end.
  pose proof Hpl as Hpl'. apply process_leaf_spec in Hpl'. destruct Hpl' as (R1 & R2 & R3 & R4 & _).
  proj_simpl.
  lazymatch goal with
  | _ : data (get W (mkey mc)) = DConfig ?c, _ : data (get W dk) = DDist ?d ?tail, _ : data (get W pk) = DDeposit ?dp,
    _ : data (get W jk) = DJournal ?j, _ : leaf_index p = Some ?idx |- _ =>
    exists c, dk, d, tail, pk, dp, jk, j, idx, tail' end.
  constructor; try assumption.
  - exists mc, md, mp, mj. eexists. repeat split; eauto.
  - repeat split; assumption.
  - repeat split; assumption.
  - congruence.
  - intros k. rewrite Hg4, !Hg3, !Hg2, !Hg1. unfold pay_debt_dist.
    rewrite (key_eqb_sym k pk), (key_eqb_sym k jk), (key_eqb_sym k dk).
    keys_case; try reflexivity; apply acct_ext; reflexivity.
Qed.

(* (c) corollaries *)
Section PayDebtCorollaries.
  Variables (cx : ctx) (W : world) (amount : N) (p : proof) (W' : world)
    (c : rd_config) (dk : key) (d : dist) (tail : list N) (pk : key) (dp : deposit) (jk : key) (j : journal) (idx : N) (tail' : list N).
  Hypothesis F : pay_debt_facts cx W amount p W' c dk d tail pk dp jk j idx tail'.

  Lemma pay_debt_deposit_after : get W' pk = (get W pk) <| lamports := lamports (get W pk) - amount |> /\ amount <= lamports (get W pk).
  Proof. split; [rewrite (pd_effect _ _ _ _ _ _ _ _ _ _ _ _ _ _ _ F), key_eqb_refl; reflexivity|].
    pose proof (pd_amount _ _ _ _ _ _ _ _ _ _ _ _ _ _ _ F). lia. Qed.
  Lemma pay_debt_journal_after :
    get W' jk = (get W jk) <| lamports := lamports (get W jk) + amount |>
                           <| data := DJournal (j <| j_total_sol := wadd64 (j_total_sol j) amount |>) |>.
  Proof. destruct (pd_distinct _ _ _ _ _ _ _ _ _ _ _ _ _ _ _ F) as (_ & _ & Hpj).
    rewrite (pd_effect _ _ _ _ _ _ _ _ _ _ _ _ _ _ _ F), (key_eqb_neq jk pk), key_eqb_refl by congruence. reflexivity. Qed.
  Lemma pay_debt_dist_after : get W' dk = (get W dk) <| data := DDist (pay_debt_dist d amount) tail' |>.
  Proof. destruct (pd_distinct _ _ _ _ _ _ _ _ _ _ _ _ _ _ _ F) as (H1 & H2 & _).
    rewrite (pd_effect _ _ _ _ _ _ _ _ _ _ _ _ _ _ _ F), (key_eqb_neq dk pk), (key_eqb_neq dk jk), key_eqb_refl by congruence.
    reflexivity. Qed.
  Lemma pay_debt_frame k : k <> pk -> k <> jk -> k <> dk -> get W' k = get W k.
  Proof. intros. rewrite (pd_effect _ _ _ _ _ _ _ _ _ _ _ _ _ _ _ F), !key_eqb_neq by assumption. reflexivity. Qed.

  (* lamports are conserved: exactly `amount` moves from the deposit to the journal, nobody else's lamports change *)
  Lemma pay_debt_lamports k :
    lamports (get W' k) = if key_eqb k pk then lamports (get W pk) - amount
                          else if key_eqb k jk then lamports (get W jk) + amount else lamports (get W k).
  Proof. rewrite (pd_effect _ _ _ _ _ _ _ _ _ _ _ _ _ _ _ F).
    destruct (key_eqb k pk); [reflexivity|]. destruct (key_eqb k jk); [reflexivity|]. destruct (key_eqb_spec k dk) as [->|]; reflexivity. Qed.

  (* the deposit stays rent exempt: a positive payment leaves at least rent(LEN_DEPOSIT); a zero payment changes nothing *)
  Lemma pay_debt_rent_exempt : amount <> 0 \/ rent LEN_DEPOSIT <= lamports (get W pk) -> rent LEN_DEPOSIT <= lamports (get W' pk).
  Proof. destruct pay_debt_deposit_after as [-> Hle]. cbn.
    pose proof (pd_amount _ _ _ _ _ _ _ _ _ _ _ _ _ _ _ F). lia. Qed.

  (* the processed bit: clear before, set after, every other bit of the debt bitmap and every disjoint bitmap unchanged *)
  Lemma pay_debt_bits :
    range_bit tail (d_debt_start d) idx = false /\ range_bit tail' (d_debt_start d) idx = true /\ length tail' = length tail /\
    (forall i, i <> idx -> range_bit tail' (d_debt_start d) i = range_bit tail (d_debt_start d) i) /\
    (forall s e i, i / 8 < e - s -> (e <= d_debt_start d \/ d_debt_end d <= s) -> range_bit tail' s i = range_bit tail s i).
  Proof. pose proof (pd_tail' _ _ _ _ _ _ _ _ _ _ _ _ _ _ _ F) as H.
    destruct (process_leaf_range_bits _ _ _ _ _ H) as (H1 & H2 & H3 & H4).
    destruct (process_leaf_bits _ _ _ _ _ H) as (H5 & _). auto. Qed.

  (* forged / re-indexed / cross-validator / cross-epoch proofs are rejected: against an honestly built debt tree over the
     leaf list L, the proof's index names exactly the leaf (this validator's node id, this amount) *)
  Theorem pay_debt_leaf_in_tree L : L <> [] -> d_debt_root d = tree_root PRE_DEBT L ->
    nth_error L (N.to_nat idx) = Some (LDebt (dp_node dp) amount).
  Proof.
    intros HL Hroot. pose proof (pd_root _ _ _ _ _ _ _ _ _ _ _ _ _ _ _ F) as Hr. rewrite Hroot in Hr.
    destruct (tree_root_sound PRE_DEBT L p _ HL Hr) as (i & Hi & Hn).
    rewrite (pd_index _ _ _ _ _ _ _ _ _ _ _ _ _ _ _ F) in Hi. injection Hi as <-. exact Hn.
  Qed.
  (* an empty tree has the null root: nothing can be paid against it *)
  Theorem pay_debt_null_root_rejected : d_debt_root d <> null_hash.
  Proof. rewrite <- (pd_root _ _ _ _ _ _ _ _ _ _ _ _ _ _ _ F). apply root_from_leaf_not_null. Qed.
End PayDebtCorollaries.

(* non-vacuity: a two-leaf debt tree, the second validator pays its 500 lamports of debt *)
Definition ex_debts : list leafdata := [LDebt (KUser 11) 300; LDebt (KUser 12) 500].
Definition ex_cfg : rd_config := rd_config_default <| c_next_epoch := 8 |> <| c_debt_accountant := KUser 2 |> <| c_relay := 6000 |>
  <| c_min_epochs := 1 |> <| c_writeoff_activation := 1 |> <| c_swap_program := KSwapMock |> <| c_has_swap_auth_bump := true |>
  <| c_has_swap_dest_bump := true |> <| c_has_withdraw_bump := true |>.
Definition ex_dist5 : dist := dist_default <| d_epoch := 5 |> <| d_debt_final := true |> <| d_debt_root := tree_root PRE_DEBT ex_debts |>
  <| d_total_validators := 2 |> <| d_total_debt := 800 |> <| d_debt_start := 0 |> <| d_debt_end := 1 |> <| d_relay := 6000 |>
  <| d_calc_allowed_ts := 10 |>.
Definition ex_acct (l : N) (len : N) (d : adata) : acct := {| lamports := l; owner := KRd; alen := len; data := d |}.
Definition ex_pay_world : world := ex_world [
  (KRdConfig, ex_acct (rent LEN_CONFIG_ALLOC) LEN_CONFIG_ALLOC (DConfig ex_cfg));
  (KRdDist 5, ex_acct (rent (LEN_DIST + 1)) (LEN_DIST + 1) (DDist ex_dist5 [0]));
  (KRdDeposit (KUser 12), ex_acct (rent LEN_DEPOSIT + 700) LEN_DEPOSIT (DDeposit {| dp_node := KUser 12; dp_written_off := 0 |}));
  (KRdJournal, ex_acct (rent LEN_CONFIG_ALLOC) LEN_CONFIG_ALLOC (DJournal journal_default))].
Definition ex_pay_cx : ctx := ex_cx KRd [mk KRdConfig false false; mk (KRdDist 5) false true; mk (KRdDeposit (KUser 12)) false true;
                                         mk KRdJournal false true].

Example rd_pay_debt_nonvacuous :
  exists W', rd_pay_debt ex_pay_cx ex_pay_world 500 (proof_for PRE_DEBT ex_debts 1) = Ok W' /\
    lamports (get W' (KRdDeposit (KUser 12))) = rent LEN_DEPOSIT + 200 /\
    lamports (get W' KRdJournal) = rent LEN_CONFIG_ALLOC + 500 /\
    data (get W' (KRdDist 5)) = DDist (pay_debt_dist ex_dist5 500) [2] /\
    (* forged amount, re-indexed proof, other validator's deposit (no such account), double payment: all rejected *)
    is_ok (rd_pay_debt ex_pay_cx ex_pay_world 501 (proof_for PRE_DEBT ex_debts 1)) = false /\
    is_ok (rd_pay_debt ex_pay_cx ex_pay_world 500 (pf_set_index (Some 0) (proof_for PRE_DEBT ex_debts 1))) = false /\
    is_ok (rd_pay_debt ex_pay_cx ex_pay_world 300 (proof_for PRE_DEBT ex_debts 0)) = false /\
    is_ok (rd_pay_debt ex_pay_cx W' 500 (proof_for PRE_DEBT ex_debts 1)) = false.
Proof. eexists. split; [vm_compute; reflexivity|]. vm_compute. repeat split. Qed.

(* ================================================================================================ write off *)
Definition wo_src (d : dist) : dist := d <| d_writeoff_count := wadd32 (d_writeoff_count d) 1 |>.
Definition wo_tgt (t : dist) (amount : N) : dist := t <| d_uncollectible := d_uncollectible t + amount |>.

Record write_off_facts (cx : ctx) (W : world) (amount : N) (p : proof) (W' : world)
  (c : rd_config) (dk : key) (d : dist) (tail : list N) (pk : key) (dp : deposit) (idx : N) (tail1 tail2 : list N)
  (tk : key) (t : dist) (ttail : list N) : Prop := {
  wo_metas : exists mc ma md mp mt rest, cx_metas cx = mc :: ma :: md :: mp :: mt :: rest /\ mkey md = dk /\ mkey mp = pk /\ mkey mt = tk /\
             mwritable md = true /\ mwritable mp = true /\ mwritable mt = true /\
             owner (get W (mkey mc)) = KRd /\ data (get W (mkey mc)) = DConfig c /\
             msigner ma = true /\ mkey ma = c_debt_accountant c;
  wo_unpaused : c_paused c = false;
  wo_dist_owner : owner (get W dk) = KRd;
  wo_dist_data : data (get W dk) = DDist d tail;
  wo_deposit_owner : owner (get W pk) = KRd;
  wo_deposit_data : data (get W pk) = DDeposit dp;
  wo_enabled : d_writeoff_enabled d = true;
  wo_index : leaf_index p = Some idx;
  wo_written_off_fits : dp_written_off dp + amount < two64;
  (* the validator cannot pay: the amount exceeds what the deposit holds above rent *)
  wo_cannot_pay : lamports (get W pk) - rent (alen (get W pk)) < amount;
  wo_tail1 : process_leaf tail (d_wo_start d) (d_wo_end d) idx = Ok tail1;
  wo_tail2 : process_leaf tail1 (d_debt_start d) (d_debt_end d) idx = Ok tail2;
  wo_root : root_from_leaf p PRE_DEBT (LDebt (dp_node dp) amount) = d_debt_root d;
  (* the target distribution as the processor reads it: the already updated source when they alias *)
  wo_target_owner : owner (get W tk) = KRd;
  wo_target_read : if key_eqb tk dk then t = wo_src d /\ ttail = tail2 else data (get W tk) = DDist t ttail;
  wo_target_epoch : d_epoch d <= d_epoch t;
  wo_target_unswept : d_swept t = false;
  wo_target_final : d_debt_final t = true;
  wo_unc_fits : d_uncollectible t + amount < two64;
  wo_unc_le_total : d_uncollectible t + amount <= d_total_debt t;
  wo_distinct : pk <> dk /\ pk <> tk;
  wo_now : now W' = now W;
  wo_effect : forall k, get W' k =
      if key_eqb k pk then (get W pk) <| data := DDeposit (dp <| dp_written_off := dp_written_off dp + amount |>) |>
      else if key_eqb k tk then (get W tk) <| data := DDist (wo_tgt t amount) ttail |>
      else if key_eqb k dk then (get W dk) <| data := DDist (wo_src d) tail2 |>
      else get W k
}.

Lemma checked_add_some m a b r : checked_add m a b = Some r -> r = a + b /\ a + b < m.
Proof. unfold checked_add. destruct (N.ltb_spec (a + b) m) as [Hlt|]; [|discriminate]. intros E; injection E; intros; subst; auto. Qed.
Lemma checked_sub_some a b r : checked_sub a b = Some r -> r = a - b /\ b <= a.
Proof. unfold checked_sub. destruct (N.leb_spec b a) as [Hle|]; [|discriminate]. intros E; injection E; intros; subst; auto. Qed.

Theorem rd_write_off_spec cx W amount p W' : rd_write_off cx W amount p = Ok W' ->
  exists c dk d tail pk dp idx tail1 tail2 tk t ttail,
    write_off_facts cx W amount p W' c dk d tail pk dp idx tail1 tail2 tk t ttail.
Proof.
  unfold rd_write_off, leaf_idx. intros H. inv_all. norm_bool.
  match goal with H : rd_verified _ _ _ _ = Ok _ |- _ =>
    apply rd_verified_ok in H; destruct H as (mc & ma & Ems & -> & _ & Hoc & Hdc & Hsa & Hka) end.
  match goal with H : rd_zc_dist _ _ W = Ok _ |- _ => apply rd_zc_dist_ok in H; destruct H as (md & -> & -> & Hwd & Hod & Hdd) end.
  match goal with H : rd_zc_deposit _ _ _ = Ok _ |- _ => apply rd_zc_deposit_ok in H; destruct H as (mp & -> & -> & Hwp & Hop & Hdp) end.
  match goal with H : rd_zc_dist _ _ _ = Ok _ |- _ => apply rd_zc_dist_ok in H; destruct H as (mt & -> & -> & Hwt & Hot & Hdt) end.
  specialize (Hwd eq_refl). specialize (Hwp eq_refl). specialize (Hwt eq_refl).
  match goal with H : write_data _ _ _ _ = Ok _ |- _ => apply write_data_spec in H; destruct H as (_ & _ & Hn1 & Hg1) end.
  match goal with H : put_dist _ ?X _ _ _ = Ok W' |- _ => apply put_dist_spec in H; destruct H as (_ & _ & Hn3 & Hg3) end.
  match goal with H : put_dist _ _ _ _ _ = Ok _ |- _ => apply put_dist_spec in H; destruct H as (_ & _ & Hn2 & Hg2) end.
  repeat match goal with H : checked_add _ _ _ = Some _ |- _ => apply checked_add_some in H; destruct H as [-> ?] end.
  match goal with H : total_sol_debt _ = Some _ |- _ => unfold total_sol_debt in H; apply checked_sub_some in H; destruct H as [_ Hle] end.
  set (dk := mkey md) in *. set (pk := mkey mp) in *. set (tk := mkey mt) in *.
  match goal with H : process_leaf _ _ _ _ = Ok ?t2, H' : process_leaf ?tl _ _ _ = Ok ?t1 |- _ =>
    match H with H' => fail 1 | _ => idtac end;
    match type of H with context [t1] => rename H into Hpl2; rename H' into Hpl1; rename t1 into tail1; rename t2 into tail2 end end.
  proj_simpl.
  rewrite Hg2, Hg1 in Hot, Hdt.
  rewrite Hg1, key_eqb_refl in *. proj_simpl. cbn [lamports alen] in *.
  rewrite (key_eqb_neq pk dk) in Hot, Hdt by assumption.
  assert (pk <> tk) as Hpt.
  { intros E. destruct (key_eqb_spec dk tk) as [E2|E2]; [congruence|].
    rewrite E, key_eqb_refl in Hdt. cbn in Hdt; discriminate. }
  rewrite (key_eqb_neq pk tk) in Hot, Hdt by assumption.
  lazymatch goal with
  | _ : data (get W (mkey mc)) = DConfig ?c, _ : data (get W dk) = DDist ?d ?tail, _ : data (get W pk) = DDeposit ?dp,
    _ : leaf_index p = Some ?idx, _ : context [DDist ?t ?ttail] , _ : d_swept ?t = false |- _ =>
    exists c, dk, d, tail, pk, dp, idx, tail1, tail2, tk, t, ttail end.
  constructor; try assumption; try lia.
  - exists mc, ma, md, mp, mt. eexists. repeat split; eauto.
  - destruct (key_eqb_spec dk tk) as [E|E]; [rewrite <- E; assumption|exact Hot].
  - rewrite (key_eqb_sym tk dk). destruct (key_eqb_spec dk tk) as [E|E]; [|exact Hdt].
    cbn in Hdt. injection Hdt as <- <-. auto.
  - split; congruence.
  - clearbody dk pk tk. intros k. rewrite Hg3, !Hg2, !Hg1. unfold wo_src, wo_tgt.
    rewrite (key_eqb_sym k pk), (key_eqb_sym k tk), (key_eqb_sym k dk).
    keys_case; try reflexivity; apply acct_ext; reflexivity.
Qed.

Section WriteOffCorollaries.
  Variables (cx : ctx) (W : world) (amount : N) (p : proof) (W' : world)
    (c : rd_config) (dk : key) (d : dist) (tail : list N) (pk : key) (dp : deposit) (idx : N) (tail1 tail2 : list N)
    (tk : key) (t : dist) (ttail : list N).
  Hypothesis F : write_off_facts cx W amount p W' c dk d tail pk dp idx tail1 tail2 tk t ttail.
  Let E := wo_effect _ _ _ _ _ _ _ _ _ _ _ _ _ _ _ _ _ F.

  (* no lamports move, no owner or size changes, anywhere *)
  Theorem write_off_no_lamports k :
    lamports (get W' k) = lamports (get W k) /\ owner (get W' k) = owner (get W k) /\ alen (get W' k) = alen (get W k).
  Proof. rewrite E. destruct (key_eqb_spec k pk) as [->|]; [cbn; auto|].
    destruct (key_eqb_spec k tk) as [->|]; [cbn; auto|]. destruct (key_eqb_spec k dk) as [->|]; cbn; auto. Qed.
  (* no token account, mint or any other account that revenue-distribution does not own is touched *)
  Theorem write_off_non_rd_frame k : owner (get W k) <> KRd -> get W' k = get W k.
  Proof. intros Ho. rewrite E.
    destruct (key_eqb_spec k pk) as [->|]; [destruct Ho; apply (wo_deposit_owner _ _ _ _ _ _ _ _ _ _ _ _ _ _ _ _ _ F)|].
    destruct (key_eqb_spec k tk) as [->|]; [destruct Ho; apply (wo_target_owner _ _ _ _ _ _ _ _ _ _ _ _ _ _ _ _ _ F)|].
    destruct (key_eqb_spec k dk) as [->|]; [destruct Ho; apply (wo_dist_owner _ _ _ _ _ _ _ _ _ _ _ _ _ _ _ _ _ F)|reflexivity]. Qed.
  Theorem write_off_frame k : k <> pk -> k <> tk -> k <> dk -> get W' k = get W k.
  Proof. intros. rewrite E, !key_eqb_neq by assumption. reflexivity. Qed.

  (* the validator's lifetime written-off total rises by exactly the amount (no wrap) *)
  Theorem write_off_deposit_after :
    data (get W' pk) = DDeposit (dp <| dp_written_off := dp_written_off dp + amount |>) /\ dp_written_off dp + amount < two64.
  Proof. split; [rewrite E, key_eqb_refl; reflexivity|apply (wo_written_off_fits _ _ _ _ _ _ _ _ _ _ _ _ _ _ _ _ _ F)]. Qed.

  (* the target's uncollectible debt rises by exactly the amount and stays within its total debt *)
  Theorem write_off_target_after :
    data (get W' tk) = DDist (wo_tgt t amount) ttail /\
    d_uncollectible (wo_tgt t amount) = d_uncollectible t + amount /\
    d_uncollectible (wo_tgt t amount) <= d_total_debt (wo_tgt t amount) /\
    (tk <> dk -> data (get W tk) = DDist t ttail) /\
    (tk = dk -> d_uncollectible t = d_uncollectible d /\ d_total_debt t = d_total_debt d /\ d_writeoff_count t = wadd32 (d_writeoff_count d) 1 /\ ttail = tail2).
  Proof.
    destruct (wo_distinct _ _ _ _ _ _ _ _ _ _ _ _ _ _ _ _ _ F) as (H1 & H2).
    pose proof (wo_target_read _ _ _ _ _ _ _ _ _ _ _ _ _ _ _ _ _ F) as R.
    split; [rewrite E, (key_eqb_neq tk pk), key_eqb_refl by congruence; reflexivity|].
    split; [reflexivity|]. split; [exact (wo_unc_le_total _ _ _ _ _ _ _ _ _ _ _ _ _ _ _ _ _ F)|]. split.
    - intros Hne. rewrite (key_eqb_neq tk dk) in R by assumption. exact R.
    - intros ->. rewrite key_eqb_refl in R. destruct R as [-> ->]. auto.
  Qed.
  (* the source's write-off count rises by one and both bitmaps get bit idx *)
  Theorem write_off_source_after :
    (tk <> dk -> data (get W' dk) = DDist (wo_src d) tail2) /\
    (tk = dk -> data (get W' dk) = DDist (wo_tgt (wo_src d) amount) tail2).
  Proof.
    destruct (wo_distinct _ _ _ _ _ _ _ _ _ _ _ _ _ _ _ _ _ F) as (H1 & H2).
    pose proof (wo_target_read _ _ _ _ _ _ _ _ _ _ _ _ _ _ _ _ _ F) as R. split.
    - intros Hne. rewrite E, (key_eqb_neq dk pk), (key_eqb_neq dk tk), key_eqb_refl by congruence. reflexivity.
    - intros ->. rewrite key_eqb_refl in R. destruct R as [-> ->]. rewrite E, (key_eqb_neq dk pk), key_eqb_refl by congruence. reflexivity.
  Qed.

  (* bits: with the two bitmaps in disjoint byte ranges, both bits were clear and are now set; nothing else changed *)
  Theorem write_off_bits :
    d_wo_end d <= d_debt_start d \/ d_debt_end d <= d_wo_start d ->
    range_bit tail (d_wo_start d) idx = false /\ range_bit tail (d_debt_start d) idx = false /\
    range_bit tail2 (d_wo_start d) idx = true /\ range_bit tail2 (d_debt_start d) idx = true /\ length tail2 = length tail /\
    (forall i, i <> idx -> i / 8 < d_wo_end d - d_wo_start d -> range_bit tail2 (d_wo_start d) i = range_bit tail (d_wo_start d) i) /\
    (forall i, i <> idx -> i / 8 < d_debt_end d - d_debt_start d -> range_bit tail2 (d_debt_start d) i = range_bit tail (d_debt_start d) i) /\
    (forall s e i, i / 8 < e - s -> (e <= d_debt_start d \/ d_debt_end d <= s) -> (e <= d_wo_start d \/ d_wo_end d <= s) ->
                   range_bit tail2 s i = range_bit tail s i).
  Proof.
    intros Hdis.
    pose proof (wo_tail1 _ _ _ _ _ _ _ _ _ _ _ _ _ _ _ _ _ F) as P1. pose proof (wo_tail2 _ _ _ _ _ _ _ _ _ _ _ _ _ _ _ _ _ F) as P2.
    destruct (process_leaf_range_bits _ _ _ _ _ P1) as (A1 & A2 & A3 & A4).
    destruct (process_leaf_range_bits _ _ _ _ _ P2) as (B1 & B2 & B3 & B4).
    destruct (process_leaf_bits _ _ _ _ _ P1) as (L1 & _). destruct (process_leaf_bits _ _ _ _ _ P2) as (L2 & _).
    pose proof P1 as Q1. apply process_leaf_spec in Q1. destruct Q1 as (Q11 & Q12 & Q13 & _).
    pose proof P2 as Q2. apply process_leaf_spec in Q2. destruct Q2 as (Q21 & Q22 & Q23 & _).
    assert (forall i, i / 8 < d_debt_end d - d_debt_start d -> range_bit tail1 (d_debt_start d) i = range_bit tail (d_debt_start d) i) as X1
      by (intros i Hi; apply (A4 _ (d_debt_end d)); [assumption|lia]).
    assert (forall i, i / 8 < d_wo_end d - d_wo_start d -> range_bit tail2 (d_wo_start d) i = range_bit tail1 (d_wo_start d) i) as X2
      by (intros i Hi; apply (B4 _ (d_wo_end d)); [assumption|lia]).
    split; [assumption|]. split; [rewrite <- X1 by assumption; assumption|].
    split; [rewrite X2 by assumption; assumption|]. split; [assumption|]. split; [congruence|]. split; [|split].
    - intros i Hi Hin. rewrite X2 by assumption. apply A3; assumption.
    - intros i Hi Hin. rewrite B3 by assumption. apply X1; assumption.
    - intros s e i Hi H1 H2. rewrite (B4 s e i Hi H1). apply (A4 s e i Hi H2).
  Qed.

  Theorem write_off_leaf_in_tree L : L <> [] -> d_debt_root d = tree_root PRE_DEBT L ->
    nth_error L (N.to_nat idx) = Some (LDebt (dp_node dp) amount).
  Proof.
    intros HL Hroot. pose proof (wo_root _ _ _ _ _ _ _ _ _ _ _ _ _ _ _ _ _ F) as Hr. rewrite Hroot in Hr.
    destruct (tree_root_sound PRE_DEBT L p _ HL Hr) as (i & Hi & Hn).
    rewrite (wo_index _ _ _ _ _ _ _ _ _ _ _ _ _ _ _ _ _ F) in Hi. injection Hi as <-. exact Hn.
  Qed.
End WriteOffCorollaries.

(* non-vacuity: validator 11 (300 lamports of debt, deposit holds only rent + 100) is written off, once into its own
   distribution (aliasing case) and once into a later one *)
Definition ex_dist5w : dist := ex_dist5 <| d_writeoff_enabled := true |> <| d_wo_start := 1 |> <| d_wo_end := 2 |>.
Definition ex_dist6 : dist := dist_default <| d_epoch := 6 |> <| d_debt_final := true |> <| d_total_debt := 1000 |> <| d_relay := 6000 |>.
Definition ex_wo_world : world := ex_world [
  (KRdConfig, ex_acct (rent LEN_CONFIG_ALLOC) LEN_CONFIG_ALLOC (DConfig ex_cfg));
  (KRdDist 5, ex_acct (rent (LEN_DIST + 2)) (LEN_DIST + 2) (DDist ex_dist5w [0; 0]));
  (KRdDist 6, ex_acct (rent LEN_DIST) LEN_DIST (DDist ex_dist6 []));
  (KRdDeposit (KUser 11), ex_acct (rent LEN_DEPOSIT + 100) LEN_DEPOSIT (DDeposit {| dp_node := KUser 11; dp_written_off := 7 |}))].
Definition ex_wo_cx (target : key) : ctx := ex_cx KRd [mk KRdConfig false false; mk (KUser 2) true false; mk (KRdDist 5) false true;
                                         mk (KRdDeposit (KUser 11)) false true; mk target false true].
Example rd_write_off_nonvacuous :
  (exists W', rd_write_off (ex_wo_cx (KRdDist 5)) ex_wo_world 300 (proof_for PRE_DEBT ex_debts 0) = Ok W' /\
     data (get W' (KRdDist 5)) = DDist (wo_tgt (wo_src ex_dist5w) 300) [1; 1] /\
     data (get W' (KRdDeposit (KUser 11))) = DDeposit {| dp_node := KUser 11; dp_written_off := 307 |} /\
     (* the same leaf can be neither written off again nor paid afterwards *)
     is_ok (rd_write_off (ex_wo_cx (KRdDist 5)) W' 300 (proof_for PRE_DEBT ex_debts 0)) = false /\
     is_ok (rd_pay_debt (ex_cx KRd [mk KRdConfig false false; mk (KRdDist 5) false true; mk (KRdDeposit (KUser 11)) false true;
                                    mk KRdJournal false true]) W' 300 (proof_for PRE_DEBT ex_debts 0)) = false) /\
  (exists W', rd_write_off (ex_wo_cx (KRdDist 6)) ex_wo_world 300 (proof_for PRE_DEBT ex_debts 0) = Ok W' /\
     data (get W' (KRdDist 5)) = DDist (wo_src ex_dist5w) [1; 1] /\ data (get W' (KRdDist 6)) = DDist (wo_tgt ex_dist6 300) []).
Proof. split; eexists; (split; [vm_compute; reflexivity|]); vm_compute; repeat split. Qed.
