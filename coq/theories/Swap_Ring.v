(* mock/swap-sol-2z: the fills registry (state/fills_registry.rs) and the registry part of
   try_buy_sol / try_dequeue_fills (processor.rs), transcribed as coded. *)
From DZ Require Import Base.

Definition CAP : nat := 8.                       (* FILLS_CAPACITY; checked against the crate by dump-constants *)
Record fill := { sol_in : N; z_out : N }.
Record ring := { slots : list fill; head : nat; count : nat }.
Definition empty_fill := {| sol_in := 0; z_out := 0 |}.
Definition ring_init : ring := {| slots := repeat empty_fill CAP; head := 0; count := 0 |}.

(* try_buy_sol after the repair (fix: commit): slot = (head + fills_count) % FILLS_CAPACITY *)
Definition buy (r : ring) (f : fill) : option ring :=
  if Nat.eqb (count r) CAP then None
  else Some {| slots := set_nth (slots r) ((head r + count r) mod CAP) f; head := head r; count := S (count r) |}.

(* try_buy_sol as pinned (cef2780): slot = fills_count.  Kept for the refutation witness only. *)
Definition buy_pinned (r : ring) (f : fill) : option ring :=
  if Nat.eqb (count r) CAP then None
  else Some {| slots := set_nth (slots r) (count r) f; head := head r; count := S (count r) |}.

(* try_dequeue_fills: returns (sol, 2Z of the head fill, 1) iff count <> 0 and the head's SOL amount matches *)
Definition dequeue (r : ring) (sol : N) : option (ring * N) :=
  if Nat.eqb (count r) 0 then None else
  let f := nth (head r) (slots r) empty_fill in
  if N.eqb (sol_in f) sol
  then Some ({| slots := slots r; head := (head r + 1) mod CAP; count := count r - 1 |}, z_out f)
  else None.

(* abstract specification: a list queue of capacity 8 *)
Definition q_buy (q : list fill) (f : fill) : option (list fill) :=
  if Nat.eqb (length q) CAP then None else Some (q ++ [f]).
Definition q_dequeue (q : list fill) (sol : N) : option (list fill * N) :=
  match q with [] => None | f :: tl => if N.eqb (sol_in f) sol then Some (tl, z_out f) else None end.

Definition abs (r : ring) : list fill :=
  map (fun i => nth ((head r + i) mod CAP) (slots r) empty_fill) (seq 0 (count r)).
Definition ring_wf (r : ring) := length (slots r) = CAP /\ (head r < CAP)%nat /\ (count r <= CAP)%nat.

(* operations and observable results shared by the model run, the monitor and the harness *)
Inductive sop := SBuy (sol z : N) | SDeq (sol : N).
Inductive sres := RFail | ROk | ROkRet (sol z n : N).
Definition sres_eqb (a b : sres) : bool :=
  match a, b with
  | RFail, RFail | ROk, ROk => true
  | ROkRet a1 a2 a3, ROkRet b1 b2 b3 => N.eqb a1 b1 && N.eqb a2 b2 && N.eqb a3 b3
  | _, _ => false end.

Definition ring_step (r : ring) (o : sop) : ring * sres :=
  match o with
  | SBuy sol z => match buy r {| sol_in := sol; z_out := z |} with Some r' => (r', ROk) | None => (r, RFail) end
  | SDeq sol => match dequeue r sol with Some (r', z) => (r', ROkRet sol z 1) | None => (r, RFail) end
  end.
Definition ring_step_pinned (r : ring) (o : sop) : ring * sres :=
  match o with
  | SBuy sol z => match buy_pinned r {| sol_in := sol; z_out := z |} with Some r' => (r', ROk) | None => (r, RFail) end
  | SDeq sol => match dequeue r sol with Some (r', z) => (r', ROkRet sol z 1) | None => (r, RFail) end
  end.
Definition queue_step (q : list fill) (o : sop) : list fill * sres :=
  match o with
  | SBuy sol z => match q_buy q {| sol_in := sol; z_out := z |} with Some q' => (q', ROk) | None => (q, RFail) end
  | SDeq sol => match q_dequeue q sol with Some (q', z) => (q', ROkRet sol z 1) | None => (q, RFail) end
  end.

Fixpoint run {S} (step : S -> sop -> S * sres) (s : S) (ops : list sop) : list sres :=
  match ops with [] => [] | o :: tl => let '(s', r) := step s o in r :: run step s' tl end.

(* correspondence: the model (ring as coded) predicts every observable of the implementation's trace *)
Fixpoint first_diff {S} (step : S -> sop -> S * sres) (s : S) (tr : list (sop * sres)) (i : N) : option (N * sres) :=
  match tr with
  | [] => None
  | (o, r) :: tl => let '(s', r') := step s o in
                    if sres_eqb r r' then first_diff step s' tl (i + 1) else Some (i, r')
  end.
Definition corr_C20 (tr : list (sop * sres)) : option (N * sres) := first_diff ring_step ring_init tr 0.
(* monitor: the property itself (lossless FIFO of capacity 8), run on the implementation's trace alone *)
Definition mon_C20 (tr : list (sop * sres)) : option (N * sres) := first_diff queue_step [] tr 0.
