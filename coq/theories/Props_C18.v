(* C18 - passport requests are admitted only when well-formed, top-level and unpaused.  Property theorems only. *)
From DZ Require Import Base Keys Merkle BurnRate Swap_Ring State World Passport Exec Lemmas_Passport.

(* RequestAccess is accepted only at stack height 1, with both pause flags clear, a configured (non-zero) deposit, a non-zero
   service key, for the backup mode a non-empty backup list within the configured limit, and an encoding that fits. *)
Theorem C18_request_access_guards :
  forall cx W mode W',
  pp_request_access cx W mode = Ok W' ->
  cx_height cx = 1 /\
  exists c, is_pp_config W (nthk (cx_metas cx) 0) c /\
    pc_paused c = false /\ pc_request_paused c = false /\ pc_deposit c <> 0 /\
    access_mode_service mode <> default_key /\
    match mode with
    | AMValidator _ => True
    | AMValidatorWithBackups _ b => b <> [] /\ N.of_nat (length b) <= pc_backup_limit c
    end /\
    access_mode_len mode <= ACCESS_MODE_MAX.
Proof. exact pp_request_access_guards. Qed.
Check C18_request_access_guards :
  forall cx W mode W',
  pp_request_access cx W mode = Ok W' ->
  cx_height cx = 1 /\
  exists c, is_pp_config W (nthk (cx_metas cx) 0) c /\
    pc_paused c = false /\ pc_request_paused c = false /\ pc_deposit c <> 0 /\
    access_mode_service mode <> default_key /\
    match mode with
    | AMValidator _ => True
    | AMValidatorWithBackups _ b => b <> [] /\ N.of_nat (length b) <= pc_backup_limit c
    end /\
    access_mode_len mode <= ACCESS_MODE_MAX.
Print Assumptions C18_request_access_guards.

(* Never through a cross-program call: at any other stack height the processor fails; re-issued through any nesting depth of
   the harness' CPI relay the instruction frame fails; such a transaction fails and changes nothing. *)
Theorem C18_not_top_level_fails :
  forall cx W mode,
 cx_height cx <> 1 -> is_ok (pp_request_access cx W mode) = false.
Proof. exact pp_request_access_not_top_level_fails. Qed.
Check C18_not_top_level_fails :
  forall cx W mode,
 cx_height cx <> 1 -> is_ok (pp_request_access cx W mode) = false.
Print Assumptions C18_not_top_level_fails.


Theorem C18_request_via_cpi_fails :
  forall n prog m ms h sib W,
  h <> 0 -> is_ok (exec_data prog (rogue_wrap (S n) (IxPassport (PRequestAccess m))) ms h sib W) = false.
Proof. exact request_via_cpi_fails. Qed.
Check C18_request_via_cpi_fails :
  forall n prog m ms h sib W,
  h <> 0 -> is_ok (exec_data prog (rogue_wrap (S n) (IxPassport (PRequestAccess m))) ms h sib W) = false.
Print Assumptions C18_request_via_cpi_fails.


Theorem C18_tx_request_via_cpi_fails :
  forall W t n prog m ms,
  tx_ixs t = [{| i_prog := prog; i_data := rogue_wrap (S n) (IxPassport (PRequestAccess m)); i_metas := ms |}] ->
  exec_tx W t = (W, false).
Proof. exact tx_request_via_cpi_fails. Qed.
Check C18_tx_request_via_cpi_fails :
  forall W t n prog m ms,
  tx_ixs t = [{| i_prog := prog; i_data := rogue_wrap (S n) (IxPassport (PRequestAccess m)); i_metas := ms |}] ->
  exec_tx W t = (W, false).
Print Assumptions C18_tx_request_via_cpi_fails.

(* Either pause flag set: RequestAccess fails (processor level and transaction level; the latter also for grant / deny). *)
Theorem C18_request_access_paused_fails :
  forall cx W mode c,
  data (get W (nthk (cx_metas cx) 0)) = DPpConfig c -> pc_paused c = true \/ pc_request_paused c = true ->
  is_ok (pp_request_access cx W mode) = false.
Proof. exact pp_request_access_paused_fails. Qed.
Check C18_request_access_paused_fails :
  forall cx W mode c,
  data (get W (nthk (cx_metas cx) 0)) = DPpConfig c -> pc_paused c = true \/ pc_request_paused c = true ->
  is_ok (pp_request_access cx W mode) = false.
Print Assumptions C18_request_access_paused_fails.


Theorem C18_tx_paused_fails :
  forall W t ix ms c,
  pp_tx t ix ms -> data (get W (nthk ms 0)) = DPpConfig c ->
  match ix with
  | PRequestAccess _ => pc_paused c = true \/ pc_request_paused c = true
  | PGrantAccess | PDenyAccess => pc_paused c = true
  | _ => False
  end -> exec_tx W t = (W, false).
Proof. exact tx_paused_fails. Qed.
Check C18_tx_paused_fails :
  forall W t ix ms c,
  pp_tx t ix ms -> data (get W (nthk ms 0)) = DPpConfig c ->
  match ix with
  | PRequestAccess _ => pc_paused c = true \/ pc_request_paused c = true
  | PGrantAccess | PDenyAccess => pc_paused c = true
  | _ => False
  end -> exec_tx W t = (W, false).
Print Assumptions C18_tx_paused_fails.

(* The stored request decodes back to exactly the submitted access mode (and service key, and requester). *)
Theorem C18_stored_mode_is_submitted :
  forall cx W mode W',
  pp_request_access cx W mode = Ok W' ->
  exists r, is_pp_request W' (KPpRequest (access_mode_service mode)) r /\ ar_mode r = mode /\
            ar_service r = access_mode_service mode /\ ar_beneficiary r = nthk (cx_metas cx) 1.
Proof. exact stored_mode_is_submitted. Qed.
Check C18_stored_mode_is_submitted :
  forall cx W mode W',
  pp_request_access cx W mode = Ok W' ->
  exists r, is_pp_request W' (KPpRequest (access_mode_service mode)) r /\ ar_mode r = mode /\
            ar_service r = access_mode_service mode /\ ar_beneficiary r = nthk (cx_metas cx) 1.
Print Assumptions C18_stored_mode_is_submitted.

(* Configuration never admits a zero deposit, a fee not strictly below the deposit, or a zero backup-ID limit: with the account
   and authority checks passing, acceptance is equivalent to validity; and whatever was accepted is valid and stored. *)
Theorem C18_configure_validation :
  forall cx W m0 m1 rest c,
  cx_metas cx = m0 :: m1 :: rest -> mwritable m0 = true -> is_pp_config W (mkey m0) c ->
  msigner m1 = true -> mkey m1 = pc_admin c -> cx_prog cx = KPassport ->
  (forall dep fee, is_ok (pp_configure_program cx W (PSAccessRequestDeposit dep fee)) = true <-> (dep <> 0 /\ fee < dep)) /\
  (forall l, is_ok (pp_configure_program cx W (PSBackupIdsLimit l)) = true <-> l <> 0).
Proof. exact pp_configure_validation. Qed.
Check C18_configure_validation :
  forall cx W m0 m1 rest c,
  cx_metas cx = m0 :: m1 :: rest -> mwritable m0 = true -> is_pp_config W (mkey m0) c ->
  msigner m1 = true -> mkey m1 = pc_admin c -> cx_prog cx = KPassport ->
  (forall dep fee, is_ok (pp_configure_program cx W (PSAccessRequestDeposit dep fee)) = true <-> (dep <> 0 /\ fee < dep)) /\
  (forall l, is_ok (pp_configure_program cx W (PSBackupIdsLimit l)) = true <-> l <> 0).
Print Assumptions C18_configure_validation.


Theorem C18_configure_deposit_accepted :
  forall cx W dep fee W',
  pp_configure_program cx W (PSAccessRequestDeposit dep fee) = Ok W' ->
  dep <> 0 /\ fee < dep /\ exists c', is_pp_config W' (nthk (cx_metas cx) 0) c' /\ pc_deposit c' = dep /\ pc_fee c' = fee.
Proof. exact pp_configure_deposit_accepted. Qed.
Check C18_configure_deposit_accepted :
  forall cx W dep fee W',
  pp_configure_program cx W (PSAccessRequestDeposit dep fee) = Ok W' ->
  dep <> 0 /\ fee < dep /\ exists c', is_pp_config W' (nthk (cx_metas cx) 0) c' /\ pc_deposit c' = dep /\ pc_fee c' = fee.
Print Assumptions C18_configure_deposit_accepted.


Theorem C18_configure_limit_accepted :
  forall cx W l W',
  pp_configure_program cx W (PSBackupIdsLimit l) = Ok W' ->
  l <> 0 /\ exists c', is_pp_config W' (nthk (cx_metas cx) 0) c' /\ pc_backup_limit c' = l.
Proof. exact pp_configure_limit_accepted. Qed.
Check C18_configure_limit_accepted :
  forall cx W l W',
  pp_configure_program cx W (PSBackupIdsLimit l) = Ok W' ->
  l <> 0 /\ exists c', is_pp_config W' (nthk (cx_metas cx) 0) c' /\ pc_backup_limit c' = l.
Print Assumptions C18_configure_limit_accepted.

(* Hence every config reachable through passport instructions keeps fee < deposit (or no deposit yet) ... *)
Theorem C18_cfg_inv_preserved :
  forall cx W ix W',
 pp_cfg_inv W -> pp_process cx W ix = Ok W' -> pp_cfg_inv W'.
Proof. exact pp_process_preserves_cfg_inv. Qed.
Check C18_cfg_inv_preserved :
  forall cx W ix W',
 pp_cfg_inv W -> pp_process cx W ix = Ok W' -> pp_cfg_inv W'.
Print Assumptions C18_cfg_inv_preserved.

(* ... and an accepted request can always pay its fee. *)
Theorem C18_accepted_request_can_pay_fee :
  forall cx W mode W' c,
  pp_request_access cx W mode = Ok W' -> is_pp_config W (nthk (cx_metas cx) 0) c -> cfg_ok c -> pc_deposit c < two64 ->
  let rk := KPpRequest (access_mode_service mode) in
  exists r, is_pp_request W' rk r /\ ar_fee r = pc_fee c /\ ar_fee r < pc_deposit c /\ ar_fee r < lamports (get W' rk) /\
    lam_request c <= lamports (get W' rk) /\
    (pc_deposit c + rent LEN_ACCESS_REQ < two64 -> rent LEN_ACCESS_REQ + pc_deposit c <= lamports (get W' rk)).
Proof. exact accepted_request_can_pay_fee. Qed.
Check C18_accepted_request_can_pay_fee :
  forall cx W mode W' c,
  pp_request_access cx W mode = Ok W' -> is_pp_config W (nthk (cx_metas cx) 0) c -> cfg_ok c -> pc_deposit c < two64 ->
  let rk := KPpRequest (access_mode_service mode) in
  exists r, is_pp_request W' rk r /\ ar_fee r = pc_fee c /\ ar_fee r < pc_deposit c /\ ar_fee r < lamports (get W' rk) /\
    lam_request c <= lamports (get W' rk) /\
    (pc_deposit c + rent LEN_ACCESS_REQ < two64 -> rent LEN_ACCESS_REQ + pc_deposit c <= lamports (get W' rk)).
Print Assumptions C18_accepted_request_can_pay_fee.

(* The whole statement for a successful RequestAccess transaction. *)
Theorem C18_request_access_tx :
  forall W t W' mode ms,
  exec_tx W t = (W', true) -> pp_tx t (PRequestAccess mode) ms ->
  let svc := access_mode_service mode in let rk := KPpRequest svc in let payer := nthk ms 1 in
  exists c, is_pp_config W (nthk ms 0) c /\ nthk ms 2 = rk /\
    pc_paused c = false /\ pc_request_paused c = false /\ pc_deposit c <> 0 /\ svc <> default_key /\
    match mode with AMValidator _ => True | AMValidatorWithBackups _ b => b <> [] /\ N.of_nat (length b) <= pc_backup_limit c end /\
    alen (get W rk) = 0 /\ owner (get W rk) = KSystem /\
    let short := lam_request c - lamports (get W rk) in
    (short <> 0 -> In payer (tx_signers t) /\ payer <> rk) /\
    get W' rk = {| lamports := N.max (lamports (get W rk)) (lam_request c); owner := KPassport; alen := LEN_ACCESS_REQ;
                   data := DAccessReq {| ar_service := svc; ar_beneficiary := payer; ar_fee := pc_fee c; ar_mode := mode |} |} /\
    (payer <> rk -> lamports (get W' payer) = lamports (get W payer) - short /\ short <= lamports (get W payer)) /\
    (forall k, k <> rk -> k <> payer -> lamports (get W k) <> 0 -> get W' k = get W k).
Proof. exact tx_request_access. Qed.
Check C18_request_access_tx :
  forall W t W' mode ms,
  exec_tx W t = (W', true) -> pp_tx t (PRequestAccess mode) ms ->
  let svc := access_mode_service mode in let rk := KPpRequest svc in let payer := nthk ms 1 in
  exists c, is_pp_config W (nthk ms 0) c /\ nthk ms 2 = rk /\
    pc_paused c = false /\ pc_request_paused c = false /\ pc_deposit c <> 0 /\ svc <> default_key /\
    match mode with AMValidator _ => True | AMValidatorWithBackups _ b => b <> [] /\ N.of_nat (length b) <= pc_backup_limit c end /\
    alen (get W rk) = 0 /\ owner (get W rk) = KSystem /\
    let short := lam_request c - lamports (get W rk) in
    (short <> 0 -> In payer (tx_signers t) /\ payer <> rk) /\
    get W' rk = {| lamports := N.max (lamports (get W rk)) (lam_request c); owner := KPassport; alen := LEN_ACCESS_REQ;
                   data := DAccessReq {| ar_service := svc; ar_beneficiary := payer; ar_fee := pc_fee c; ar_mode := mode |} |} /\
    (payer <> rk -> lamports (get W' payer) = lamports (get W payer) - short /\ short <= lamports (get W payer)) /\
    (forall k, k <> rk -> k <> payer -> lamports (get W k) <> 0 -> get W' k = get W k).
Print Assumptions C18_request_access_tx.
