(* Part 3: instructions, transactions, operations and arbitrary histories. *)
From DZ Require Import Base Keys Merkle BurnRate Shares Swap_Ring State World SwapDeq RD Passport Swap Exec Lemmas_Inv Lemmas_Inv2.

(* ------------------------------------------------------------------ one instruction frame (incl. rogue CPI wrappers) *)
Fixpoint perm_of_ix (d : ixdata) : perm :=
  match d with
  | IxRd i => perm_of_rd i
  | IxRogueCpi inner => perm_of_ix inner
  | _ => pnone
  end.

Lemma exec_data_step : forall d prog ms h sib W W',
  exec_data prog d ms h sib W = Ok W' -> dstep (perm_of_ix d) W W'.
Proof.
  induction d; intros prog ms h sib W W' H; destruct prog; cbn [exec_data] in H; invp; cbn [perm_of_ix].
  all: try solve [ eapply rd_process_step; eassumption
                 | apply same_dstep;
                   first [ eapply pp_process_same; eassumption
                         | eapply sw_process_same; eassumption
                         | eapply sys_transfer_core_same; eassumption
                         | eapply sys_create_account_core_same; eassumption
                         | eapply tok_transfer_core_same; eassumption
                         | eapply tok_burn_core_same; eassumption
                         | apply same_refl
                         | eapply same_trans; [eapply tok_transfer_checked_same; eassumption|eapply withdraw_sol_cpi_same; eassumption] ] ].
  - destruct ms; invp. eapply IHd; eassumption.
  - apply same_dstep.
    match goal with Hb : (if ?b then _ else _) = Ok _ |- _ => destruct b; revert Hb end.
    + intros H; invp. eapply same_trans; [eapply tok_transfer_checked_same; eassumption|eapply withdraw_sol_cpi_same; eassumption].
    + destruct (nthk ms 8); intros H; invp. eapply withdraw_sol_cpi_same; eassumption.
Qed.

(* ------------------------------------------------------------------ instruction lists and transactions *)
Definition perm_ixs (ixs : list instr) : perm := fun s => existsb (fun i => perm_of_ix (i_data i) s) ixs.
Definition perm_tx (t : tx) : perm := perm_ixs (tx_ixs t).

Lemma exec_ixs_step t : forall ixs prev W W', exec_ixs t ixs prev W = Ok W' -> dstep (perm_ixs ixs) W W'.
Proof.
  induction ixs as [|i tl IH]; intros prev W W' H; cbn [exec_ixs] in H; invp; [apply dstep_refl|].
  eapply dstep_trans.
  - eapply dstep_weaken; [|eapply exec_data_step; eassumption].
    intros s Hs. unfold perm_ixs. cbn [existsb]. rewrite Hs. reflexivity.
  - eapply dstep_weaken; [|eapply IH; eassumption].
    intros s Hs. unfold perm_ixs in *. cbn [existsb]. rewrite Hs. apply orb_true_r.
Qed.

Lemma lookup_map_val {A} (f : A -> A) k (l : kmap A) :
  lookup k (map (fun '(k', a) => (k', f a)) l) = option_map f (lookup k l).
Proof. induction l as [|[k' a] tl IH]; cbn; [reflexivity|]. destruct (key_eqb k k'); [reflexivity|exact IH]. Qed.
Lemma get_purge W k : get (purge W) k = if lamports (get W k) =? 0 then empty_acct else get W k.
Proof.
  unfold get, purge. cbn.
  replace (map (fun '(k0, a) => if lamports a =? 0 then (k0, empty_acct) else (k0, a)) (accts W))
    with (map (fun '(k0, a) => (k0, if lamports a =? 0 then empty_acct else a)) (accts W)).
  - rewrite lookup_map_val. destruct (lookup k (accts W)) as [a|]; cbn; [reflexivity|].
    destruct (_ =? 0); reflexivity.
  - apply map_ext. intros [k0 a]. destruct (_ =? 0); reflexivity.
Qed.
Lemma now_purge W : now (purge W) = now W.
Proof. reflexivity. Qed.
Lemma dist_at_purge W k : dist_at (purge W) k = if lamports (get W k) =? 0 then None else dist_at W k.
Proof. rewrite !dist_at_of, get_purge. destruct (_ =? 0); reflexivity. Qed.

(* a transaction as seen from one key: like `krel`, but a distribution whose lamports reached zero is purged *)
Definition trel (p : perm) (W W' : world) (k : key) : Prop :=
  match dist_at W k, dist_at W' k with
  | Some (d, _), Some (d', _) => mono p (now W) d d'
  | Some _, None => get W' k = empty_acct
  | None, Some (d', _) => p SCreated = true /\ good d'
  | None, None => True
  end.

Lemma exec_tx_trel W t W' ok : exec_tx W t = (W', ok) -> now W' = now W /\ forall k, trel (perm_tx t) W W' k.
Proof.
  assert (R : now W = now W /\ forall k, trel (perm_tx t) W W k).
  { split; [reflexivity|]. intros k. unfold trel. destruct (dist_at W k) as [[d tl]|]; [apply mono_refl|exact I]. }
  unfold exec_tx. destruct (negb (tx_wf t)); [intros H; injection H as <- <-; exact R|].
  destruct (exec_ixs t (tx_ixs t) None W) as [W1|e] eqn:E; [|intros H; injection H as <- <-; exact R].
  destruct (rent_ok t W W1); [|intros H; injection H as <- <-; exact R].
  intros H; injection H as <- <-. apply exec_ixs_step in E. destruct E as [Hn Hk].
  split; [rewrite now_purge; exact Hn|]. intros k. specialize (Hk k). unfold trel. rewrite dist_at_purge, get_purge.
  fold (perm_tx t) in Hk. destruct (lamports (get W1 k) =? 0).
  - destruct (dist_at W k) as [[d tl]|]; [reflexivity|exact I].
  - unfold krel in Hk. destruct (dist_at W k) as [[d tl]|], (dist_at W1 k) as [[d' tl']|]; try exact Hk. contradiction.
Qed.

(* ------------------------------------------------------------------ T1 - T6, transaction level *)
Theorem dist_persists W t W' ok k d tl :
  dist_at W k = Some (d, tl) -> exec_tx W t = (W', ok) ->
  (exists d' tl', dist_at W' k = Some (d', tl') /\ mono (perm_tx t) (now W) d d') \/
  (dist_at W' k = None /\ get W' k = empty_acct).
Proof.
  intros Hd H. apply exec_tx_trel in H. destruct H as [_ H]. specialize (H k). unfold trel in H. rewrite Hd in H.
  destruct (dist_at W' k) as [[d' tl']|]; [left; eauto|right; auto].
Qed.

Theorem exec_tx_mono W t W' ok k d tl d' tl' :
  exec_tx W t = (W', ok) -> dist_at W k = Some (d, tl) -> dist_at W' k = Some (d', tl') -> mono (perm_tx t) (now W) d d'.
Proof.
  intros H Hd Hd'. apply exec_tx_trel in H. destruct H as [_ H]. specialize (H k). unfold trel in H.
  rewrite Hd, Hd' in H. exact H.
Qed.

Theorem exec_tx_now W t W' ok : exec_tx W t = (W', ok) -> now W' = now W.
Proof. intros H. apply exec_tx_trel in H. apply H. Qed.

Theorem flags_monotone W t W' ok k d tl d' tl' :
  exec_tx W t = (W', ok) -> dist_at W k = Some (d, tl) -> dist_at W' k = Some (d', tl') ->
  implb (d_debt_final d) (d_debt_final d') = true /\ implb (d_rewards_final d) (d_rewards_final d') = true /\
  implb (d_swept d) (d_swept d') = true /\ implb (d_writeoff_enabled d) (d_writeoff_enabled d') = true /\
  d_epoch d' = d_epoch d.
Proof.
  intros H Hd Hd'. pose proof (exec_tx_mono _ _ _ _ _ _ _ _ _ H Hd Hd') as M.
  pose proof (m_flags _ _ _ _ M) as F. pose proof (m_snap _ _ _ _ M) as S. unfold snapshot in S.
  repeat split; [apply (F SDebtFinal)|apply (F SRewardsFinal)|apply (F SSwept)|apply (F SWriteOff)|congruence].
Qed.

Lemma mono_debt_frozen p nw d d' : mono p nw d d' -> d_debt_final d = true ->
  d_total_validators d' = d_total_validators d /\ d_total_debt d' = d_total_debt d /\ d_debt_root d' = d_debt_root d.
Proof. intros M Hf. destruct (m_debt _ _ _ _ M) as [[X _]|X]; [congruence|]. unfold debt_figs in X. repeat split; congruence. Qed.
Lemma mono_rewards_frozen p nw d d' : mono p nw d d' -> d_rewards_final d = true ->
  d_total_contributors d' = d_total_contributors d /\ d_rewards_root d' = d_rewards_root d.
Proof. intros M Hf. destruct (m_rew _ _ _ _ M) as [[X _]|X]; [congruence|]. unfold rew_figs in X. split; congruence. Qed.
Lemma mono_snapshot p nw d d' : mono p nw d d' ->
  d_epoch d' = d_epoch d /\ d_fees d' = d_fees d /\ d_relay d' = d_relay d /\ d_cbr d' = d_cbr d /\
  d_calc_allowed_ts d' = d_calc_allowed_ts d.
Proof. intros M. pose proof (m_snap _ _ _ _ M) as S. unfold snapshot in S. repeat split; congruence. Qed.

Theorem debt_figures_frozen W t W' ok k d tl d' tl' :
  exec_tx W t = (W', ok) -> dist_at W k = Some (d, tl) -> dist_at W' k = Some (d', tl') -> d_debt_final d = true ->
  d_total_validators d' = d_total_validators d /\ d_total_debt d' = d_total_debt d /\ d_debt_root d' = d_debt_root d.
Proof. intros H Hd Hd'. eapply mono_debt_frozen, exec_tx_mono; eassumption. Qed.
Theorem rewards_figures_frozen W t W' ok k d tl d' tl' :
  exec_tx W t = (W', ok) -> dist_at W k = Some (d, tl) -> dist_at W' k = Some (d', tl') -> d_rewards_final d = true ->
  d_total_contributors d' = d_total_contributors d /\ d_rewards_root d' = d_rewards_root d.
Proof. intros H Hd Hd'. eapply mono_rewards_frozen, exec_tx_mono; eassumption. Qed.
Theorem snapshot_immutable W t W' ok k d tl d' tl' :
  exec_tx W t = (W', ok) -> dist_at W k = Some (d, tl) -> dist_at W' k = Some (d', tl') ->
  d_epoch d' = d_epoch d /\ d_fees d' = d_fees d /\ d_relay d' = d_relay d /\ d_cbr d' = d_cbr d /\
  d_calc_allowed_ts d' = d_calc_allowed_ts d.
Proof. intros H Hd Hd'. eapply mono_snapshot, exec_tx_mono; eassumption. Qed.
Theorem uncollectible_frozen_after_sweep W t W' ok k d tl d' tl' :
  exec_tx W t = (W', ok) -> dist_at W k = Some (d, tl) -> dist_at W' k = Some (d', tl') -> d_swept d = true ->
  d_uncollectible d' = d_uncollectible d.
Proof. intros H Hd Hd'. eapply m_unc, exec_tx_mono; eassumption. Qed.

Definition all_good (W : world) : Prop := forall k d tl, dist_at W k = Some (d, tl) -> good d.
Theorem all_good_tx W t W' ok : all_good W -> exec_tx W t = (W', ok) -> all_good W'.
Proof.
  intros G H k d' tl' Hd'. apply exec_tx_trel in H. destruct H as [_ H]. specialize (H k). unfold trel in H. rewrite Hd' in H.
  destruct (dist_at W k) as [[d tl]|] eqn:Hd; [|apply H]. apply (m_good _ _ _ _ H). eapply G; eassumption.
Qed.
Theorem uncollectible_le_total W t W' ok : all_good W -> exec_tx W t = (W', ok) ->
  forall k d tl, dist_at W' k = Some (d, tl) -> d_uncollectible d <= d_total_debt d.
Proof. intros G H k d tl Hd. eapply (all_good_tx _ _ _ _ G H); eassumption. Qed.

(* C04 gates: when the figures may be written and when the stages may be entered *)
Theorem debt_figures_gate W t W' ok k d tl d' tl' :
  exec_tx W t = (W', ok) -> dist_at W k = Some (d, tl) -> dist_at W' k = Some (d', tl') ->
  (d_debt_final d = false /\ calc_ok (now W) d = true) \/
  (d_total_validators d' = d_total_validators d /\ d_total_debt d' = d_total_debt d /\ d_debt_root d' = d_debt_root d).
Proof.
  intros H Hd Hd'. destruct (m_debt _ _ _ _ (exec_tx_mono _ _ _ _ _ _ _ _ _ H Hd Hd')) as [X|X]; [left; exact X|right].
  unfold debt_figs in X. repeat split; congruence.
Qed.
Theorem rewards_figures_gate W t W' ok k d tl d' tl' :
  exec_tx W t = (W', ok) -> dist_at W k = Some (d, tl) -> dist_at W' k = Some (d', tl') ->
  (d_rewards_final d = false /\ calc_ok (now W) d = true) \/
  (d_total_contributors d' = d_total_contributors d /\ d_rewards_root d' = d_rewards_root d).
Proof.
  intros H Hd Hd'. destruct (m_rew _ _ _ _ (exec_tx_mono _ _ _ _ _ _ _ _ _ H Hd Hd')) as [X|X]; [left; exact X|right].
  unfold rew_figs in X. split; congruence.
Qed.
Theorem stage_order W t W' ok k d tl d' tl' :
  exec_tx W t = (W', ok) -> dist_at W k = Some (d, tl) -> dist_at W' k = Some (d', tl') ->
  (d_debt_final d = false -> d_debt_final d' = true -> calc_ok (now W) d = true) /\
  (d_rewards_final d = false -> d_rewards_final d' = true -> calc_ok (now W) d = true /\ d_debt_final d' = true) /\
  (d_swept d = false -> d_swept d' = true -> d_rewards_final d' = true) /\
  (d_writeoff_enabled d = false -> d_writeoff_enabled d' = true -> d_debt_final d' = true) /\
  (d_distributed_count d' = d_distributed_count d \/ d_swept d' = true) /\
  (d_payments_count d' = d_payments_count d \/ d_debt_final d' = true).
Proof.
  intros H Hd Hd'. pose proof (exec_tx_mono _ _ _ _ _ _ _ _ _ H Hd Hd') as M.
  destruct M as [F P S D R FD FR SW WO U UM DI PA G].
  split; [exact FD|]. split; [exact FR|]. split; [exact SW|]. split; [exact WO|]. split; [exact DI|exact PA].
Qed.

(* ------------------------------------------------------------------ T8: a stage is entered only by its own instruction *)
Fixpoint mentions (r : rd_ix) (d : ixdata) : Prop :=
  match d with
  | IxRd i => i = r
  | IxRogueCpi inner => mentions r inner
  | _ => False
  end.
Definition stage_ix (s : stage) : rd_ix :=
  match s with
  | SCreated => RInitializeDistribution
  | SDebtFinal => RFinalizeDebt
  | SRewardsFinal => RFinalizeRewards
  | SSwept => RSweep
  | SWriteOff => REnableWriteOff
  end.
Lemma perm_of_rd_stage i s : perm_of_rd i s = true -> i = stage_ix s.
Proof. destruct i, s; cbn; intros H; try discriminate H; reflexivity. Qed.
Lemma perm_of_ix_mentions d s : perm_of_ix d s = true -> mentions (stage_ix s) d.
Proof. induction d; cbn; intros H; try discriminate H; auto using perm_of_rd_stage. Qed.
Lemma perm_tx_mentions t s : perm_tx t s = true -> exists i, In i (tx_ixs t) /\ mentions (stage_ix s) (i_data i).
Proof.
  unfold perm_tx, perm_ixs. intros H. apply existsb_exists in H. destruct H as (i & Hi & H).
  exists i. split; [exact Hi|]. apply perm_of_ix_mentions, H.
Qed.

Theorem flag_set_only_by W t W' ok k d tl d' tl' s :
  exec_tx W t = (W', ok) -> dist_at W k = Some (d, tl) -> dist_at W' k = Some (d', tl') ->
  flag_of s d = false -> flag_of s d' = true ->
  exists i, In i (tx_ixs t) /\ mentions (stage_ix s) (i_data i).
Proof.
  intros H Hd Hd' F0 F1. pose proof (exec_tx_mono _ _ _ _ _ _ _ _ _ H Hd Hd') as M.
  apply perm_tx_mentions. destruct (perm_tx t s) eqn:E; [reflexivity|].
  rewrite (m_perm _ _ _ _ M s E) in F1. congruence.
Qed.
Theorem created_only_by W t W' ok k d' tl' :
  exec_tx W t = (W', ok) -> dist_at W k = None -> dist_at W' k = Some (d', tl') ->
  (exists i, In i (tx_ixs t) /\ mentions RInitializeDistribution (i_data i)) /\ good d'.
Proof.
  intros H Hd Hd'. apply exec_tx_trel in H. destruct H as [_ H]. specialize (H k). unfold trel in H. rewrite Hd, Hd' in H.
  destruct H as [Hp Hg]. split; [|exact Hg]. apply (perm_tx_mentions t SCreated Hp).
Qed.

(* ------------------------------------------------------------------ operations and histories *)
Definition honest_op (o : op) : Prop := match o with OForge _ _ => False | _ => True end.
Definition step (W : world) (o : op) : world := fst (exec_op W o).
Definition run (W : world) (ops : list op) : world := fold_left step ops W.

(* the clock-free part of `mono` (the clock changes along a history) *)
Record monoL (d d' : dist) : Prop := {
  l_flags : forall s, implb (flag_of s d) (flag_of s d') = true;
  l_snap : snapshot d' = snapshot d;
  l_debt : d_debt_final d = true -> debt_figs d' = debt_figs d;
  l_rew : d_rewards_final d = true -> rew_figs d' = rew_figs d;
  l_fin_rew : d_rewards_final d = false -> d_rewards_final d' = true -> d_debt_final d' = true;
  l_sweep : d_swept d = false -> d_swept d' = true -> d_rewards_final d' = true;
  l_wo : d_writeoff_enabled d = false -> d_writeoff_enabled d' = true -> d_debt_final d' = true;
  l_unc : d_swept d = true -> d_uncollectible d' = d_uncollectible d;
  l_unc_mono : d_uncollectible d <= d_uncollectible d';
  l_distr : d_distributed_count d' = d_distributed_count d \/ d_swept d' = true;
  l_pay : d_payments_count d' = d_payments_count d \/ d_debt_final d' = true;
  l_good : good d -> good d'
}.
Lemma mono_monoL p nw d d' : mono p nw d d' -> monoL d d'.
Proof.
  intros [F P S D R FD FR SW WO U UM DI PA G]. constructor; auto.
  - intros Hf. destruct D as [[X _]|X]; [congruence|exact X].
  - intros Hf. destruct R as [[X _]|X]; [congruence|exact X].
  - intros A B. apply (FR A B).
Qed.
Lemma monoL_refl d : monoL d d.
Proof. eapply mono_monoL, (mono_refl pnone 0). Qed.
Lemma monoL_trans a b c : monoL a b -> monoL b c -> monoL a c.
Proof.
  intros [F1 S1 D1 R1 FR1 SW1 WO1 U1 UM1 DI1 PA1 G1] [F2 S2 D2 R2 FR2 SW2 WO2 U2 UM2 DI2 PA2 G2].
  pose proof (F1 SDebtFinal) as Fd1; pose proof (F2 SDebtFinal) as Fd2.
  pose proof (F1 SRewardsFinal) as Fr1; pose proof (F2 SRewardsFinal) as Fr2.
  pose proof (F1 SSwept) as Fs1; pose proof (F2 SSwept) as Fs2.
  pose proof (F1 SWriteOff) as Fw1; pose proof (F2 SWriteOff) as Fw2.
  cbn [flag_of] in Fd1, Fd2, Fr1, Fr2, Fs1, Fs2, Fw1, Fw2.
  constructor.
  - intros s. specialize (F1 s); specialize (F2 s).
    destruct (flag_of s a), (flag_of s b), (flag_of s c); cbn in *; congruence.
  - congruence.
  - intros Ha. rewrite D2; [auto|]. eapply implb_true_l; eassumption.
  - intros Ha. rewrite R2; [auto|]. eapply implb_true_l; eassumption.
  - intros Ha Hc'. destruct (bool_cases (d_rewards_final b)) as [Hb|Hb].
    + eapply implb_true_l; [exact Fd2|]. auto.
    + auto.
  - intros Ha Hc'. destruct (bool_cases (d_swept b)) as [Hb|Hb].
    + eapply implb_true_l; [exact Fr2|]. auto.
    + auto.
  - intros Ha Hc'. destruct (bool_cases (d_writeoff_enabled b)) as [Hb|Hb].
    + eapply implb_true_l; [exact Fd2|]. auto.
    + auto.
  - intros Ha. rewrite U2; [auto|]. eapply implb_true_l; eassumption.
  - lia.
  - destruct (bool_cases (d_swept c)) as [Hs|Hs]; [right; exact Hs|].
    destruct DI2 as [DI2|DI2]; [|congruence].
    destruct DI1 as [DI1|DI1]; [left; congruence|]. right. eapply implb_true_l; eassumption.
  - destruct (bool_cases (d_debt_final c)) as [Hs|Hs]; [right; exact Hs|].
    destruct PA2 as [PA2|PA2]; [|congruence].
    destruct PA1 as [PA1|PA1]; [left; congruence|]. right. eapply implb_true_l; eassumption.
  - auto.
Qed.

(* one honest operation seen from one key *)
Definition orel (W W' : world) (k : key) : Prop :=
  match dist_at W k, dist_at W' k with
  | Some (d, _), Some (d', _) => monoL d d'
  | Some _, None => True
  | None, Some (d', _) => good d'
  | None, None => True
  end.
Lemma orel_same W W' k : dist_at W' k = dist_at W k -> orel W W' k.
Proof. intros H. unfold orel. rewrite H. destruct (dist_at W k) as [[d tl]|]; [apply monoL_refl|exact I]. Qed.

Lemma now_upd_dist_at W ts k : dist_at (W <| now := ts |>) k = dist_at W k.
Proof. reflexivity. Qed.

Lemma step_orel W o k : honest_op o -> orel W (step W o) k.
Proof.
  destruct o as [t|ts|ak lam|fk fa|mk_ amt|payer o_]; intros Ho; unfold step; cbn [exec_op].
  - destruct (exec_tx W t) as [W' ok] eqn:E. cbn [fst]. apply exec_tx_trel in E. destruct E as [_ E]. specialize (E k).
    unfold trel in E. unfold orel. destruct (dist_at W k) as [[d tl]|], (dist_at W' k) as [[d' tl']|]; auto.
    + eapply mono_monoL; eassumption.
    + apply E.
  - cbn [fst]. apply orel_same. reflexivity.
  - cbn [fst]. apply orel_same. apply put_same. reflexivity.
  - contradiction.
  - destruct (as_token W mk_) as [tk|] eqn:E1; [|cbn [fst]; apply orel_same; reflexivity].
    destruct (as_mint W KMint) as [m|] eqn:E2; [|cbn [fst]; apply orel_same; reflexivity].
    cbn [fst]. apply orel_same.
    pose proof (put_token_same W mk_ (tk <| t_amount := t_amount tk + amt |>) (as_token_none _ _ _ E1)) as [_ S1].
    rewrite dist_at_put. destruct (key_eqb_spec KMint k) as [<-|Hne]; [|apply S1].
    rewrite (as_mint_none _ _ _ E2). unfold dist_of. cbn. destruct (key_eqb _ KRd); reflexivity.
  - destruct (_ && _) eqn:E; [|cbn [fst]; apply orel_same; reflexivity]. cbn [fst]. apply orel_same.
    apply andb_true_iff in E. destruct E as [E _]. apply andb_true_iff in E. destruct E as [_ E]. apply key_eqb_eq in E.
    rewrite dist_at_put. destruct (key_eqb_spec (KAta o_ KMint) k) as [<-|Hne].
    + rewrite (dist_at_owner _ _ _ E) by discriminate. reflexivity.
    + rewrite dist_at_put. destruct (key_eqb_spec payer k) as [<-|Hne2]; reflexivity.
Qed.

Lemma run_cons W o ops : run W (o :: ops) = run (step W o) ops.
Proof. reflexivity. Qed.

(* "account k is a distribution at every point of the history": the same on-chain incarnation of the account *)
Definition alive (W : world) (ops : list op) (k : key) : Prop := forall n, dist_at (run W (firstn n ops)) k <> None.

Theorem run_monoL : forall ops W k d tl d' tl', Forall honest_op ops -> alive W ops k ->
  dist_at W k = Some (d, tl) -> dist_at (run W ops) k = Some (d', tl') -> monoL d d'.
Proof.
  induction ops as [|o ops IH]; intros W k d tl d' tl' Hh Ha Hd Hd'.
  - cbn in Hd'. rewrite Hd in Hd'. injection Hd' as <- <-. apply monoL_refl.
  - rewrite run_cons in Hd'. inversion Hh as [|o' ops' Ho Hops]; subst.
    pose proof (Ha 1%nat) as H1. cbn [firstn] in H1. change (run W [o]) with (step W o) in H1.
    destruct (dist_at (step W o) k) as [[d1 tl1]|] eqn:E1; [|contradiction].
    pose proof (step_orel W o k Ho) as R. unfold orel in R. rewrite Hd, E1 in R.
    eapply monoL_trans; [exact R|]. eapply (IH (step W o) k d1 tl1 d' tl' Hops); [|exact E1|exact Hd'].
    intros n. specialize (Ha (S n)). cbn [firstn] in Ha. rewrite run_cons in Ha. exact Ha.
Qed.

Theorem run_all_good : forall ops W, Forall honest_op ops -> all_good W -> all_good (run W ops).
Proof.
  induction ops as [|o ops IH]; intros W Hh G; [exact G|]. rewrite run_cons. inversion Hh as [|o' ops' Ho Hops]; subst.
  apply IH; [exact Hops|]. intros k d' tl' Hd'. pose proof (step_orel W o k Ho) as R. unfold orel in R. rewrite Hd' in R.
  destruct (dist_at W k) as [[d tl]|] eqn:Hd; [|exact R]. apply (l_good _ _ R). eapply G; eassumption.
Qed.

(* T7: the statement-level corollaries along any honest history *)
Section Lifted.
  Variables (ops : list op) (W : world) (k : key) (d d' : dist) (tl tl' : list N).
  Hypothesis Hh : Forall honest_op ops.
  Hypothesis Ha : alive W ops k.
  Hypothesis Hd : dist_at W k = Some (d, tl).
  Hypothesis Hd' : dist_at (run W ops) k = Some (d', tl').
  Let M : monoL d d' := run_monoL ops W k d tl d' tl' Hh Ha Hd Hd'.

  Theorem flags_monotone_run :
    implb (d_debt_final d) (d_debt_final d') = true /\ implb (d_rewards_final d) (d_rewards_final d') = true /\
    implb (d_swept d) (d_swept d') = true /\ implb (d_writeoff_enabled d) (d_writeoff_enabled d') = true /\
    d_epoch d' = d_epoch d.
  Proof.
    pose proof (l_flags _ _ M) as F. pose proof (l_snap _ _ M) as S. unfold snapshot in S.
    repeat split; [apply (F SDebtFinal)|apply (F SRewardsFinal)|apply (F SSwept)|apply (F SWriteOff)|congruence].
  Qed.
  Theorem debt_figures_frozen_run : d_debt_final d = true ->
    d_total_validators d' = d_total_validators d /\ d_total_debt d' = d_total_debt d /\ d_debt_root d' = d_debt_root d.
  Proof. intros Hf. pose proof (l_debt _ _ M Hf) as X. unfold debt_figs in X. repeat split; congruence. Qed.
  Theorem rewards_figures_frozen_run : d_rewards_final d = true ->
    d_total_contributors d' = d_total_contributors d /\ d_rewards_root d' = d_rewards_root d.
  Proof. intros Hf. pose proof (l_rew _ _ M Hf) as X. unfold rew_figs in X. split; congruence. Qed.
  Theorem snapshot_immutable_run :
    d_epoch d' = d_epoch d /\ d_fees d' = d_fees d /\ d_relay d' = d_relay d /\ d_cbr d' = d_cbr d /\
    d_calc_allowed_ts d' = d_calc_allowed_ts d.
  Proof. pose proof (l_snap _ _ M) as S. unfold snapshot in S. repeat split; congruence. Qed.
  Theorem uncollectible_frozen_after_sweep_run : d_swept d = true -> d_uncollectible d' = d_uncollectible d.
  Proof. apply (l_unc _ _ M). Qed.
  Theorem stage_order_run :
    (d_rewards_final d = false -> d_rewards_final d' = true -> d_debt_final d' = true) /\
    (d_swept d = false -> d_swept d' = true -> d_rewards_final d' = true) /\
    (d_writeoff_enabled d = false -> d_writeoff_enabled d' = true -> d_debt_final d' = true) /\
    (d_distributed_count d' = d_distributed_count d \/ d_swept d' = true) /\
    (d_payments_count d' = d_payments_count d \/ d_debt_final d' = true).
  Proof. destruct M. repeat split; assumption. Qed.
End Lifted.

Theorem uncollectible_le_total_run ops W : Forall honest_op ops -> all_good W ->
  forall k d tl, dist_at (run W ops) k = Some (d, tl) -> d_uncollectible d <= d_total_debt d.
Proof. intros Hh G k d tl Hd. eapply (run_all_good ops W Hh G); eassumption. Qed.

(* ------------------------------------------------------------------ non-vacuity: a literal world, transactions that change it *)
Definition ex_cfg : rd_config := rd_config_default <| c_debt_accountant := KUser 1 |>.
Definition ex_dist : dist := dist_default <| d_epoch := 7 |> <| d_relay := 6000 |> <| d_calc_allowed_ts := 500 |>.
Definition ex_W : world :=
  {| accts := [ (KRdConfig, {| lamports := rent LEN_CONFIG_ALLOC; owner := KRd; alen := LEN_CONFIG_ALLOC; data := DConfig ex_cfg |});
                (KRdDist 7, {| lamports := rent LEN_DIST; owner := KRd; alen := LEN_DIST; data := DDist ex_dist [] |}) ];
     now := 0 |}.
Definition ex_metas : list meta := [mk KRdConfig false false; mk (KUser 1) true false; mk (KRdDist 7) false true].
Definition ex_tx_configure : tx :=
  {| tx_signers := [KUser 1];
     tx_ixs := [ {| i_prog := KRd; i_data := IxRd (RConfigureDebt 3 0 (HOpaque 9)); i_metas := ex_metas |} ] |}.
(* the same FinalizeDebt issued through a harness-only rogue CPI wrapper *)
Definition ex_tx_finalize : tx :=
  {| tx_signers := [KUser 1];
     tx_ixs := [ {| i_prog := KRogue 0; i_data := IxRogueCpi (IxRd RFinalizeDebt); i_metas := mk KRd false false :: ex_metas |} ] |}.
Definition ex_ops : list op := [OSetClock 1000; OTx ex_tx_configure; OAirdrop (KUser 2) 5; OTx ex_tx_finalize].

Example exec_tx_mono_nonvacuous :
  exists W' d' tl', dist_at (step ex_W (OSetClock 1000)) (KRdDist 7) = Some (ex_dist, []) /\
    exec_tx (step ex_W (OSetClock 1000)) ex_tx_configure = (W', true) /\ dist_at W' (KRdDist 7) = Some (d', tl') /\
    d_total_validators d' = 3 /\ d_debt_root d' = HOpaque 9 /\ d_debt_root ex_dist <> d_debt_root d'.
Proof.
  eexists _, _, _. split; [reflexivity|]. split; [vm_compute; reflexivity|]. split; [vm_compute; reflexivity|].
  split; [reflexivity|]. split; [reflexivity|]. vm_compute. discriminate.
Qed.

Example run_monoL_nonvacuous :
  Forall honest_op ex_ops /\ alive ex_W ex_ops (KRdDist 7) /\
  exists d' tl', dist_at (run ex_W ex_ops) (KRdDist 7) = Some (d', tl') /\
    d_debt_final ex_dist = false /\ d_debt_final d' = true /\ d_total_validators d' = 3 /\ d_epoch d' = 7.
Proof.
  split; [repeat constructor|]. split.
  - intros n. do 5 (destruct n as [|n]; [vm_compute; discriminate|]). vm_compute; discriminate.
  - eexists _, _. split; [vm_compute; reflexivity|]. repeat split; reflexivity.
Qed.

Example flag_set_only_by_nonvacuous :
  exists W W' d tl d' tl', exec_tx W ex_tx_finalize = (W', true) /\ dist_at W (KRdDist 7) = Some (d, tl) /\
    dist_at W' (KRdDist 7) = Some (d', tl') /\ flag_of SDebtFinal d = false /\ flag_of SDebtFinal d' = true /\
    mentions (stage_ix SDebtFinal) (i_data (hd (Build_instr KSystem IxNoop []) (tx_ixs ex_tx_finalize))).
Proof.
  exists (run ex_W (firstn 3 ex_ops)). eexists _, _, _, _, _.
  split; [vm_compute; reflexivity|]. split; [vm_compute; reflexivity|]. split; [vm_compute; reflexivity|].
  split; [reflexivity|]. split; reflexivity.
Qed.

(* `uncollectible <= total debt` alone is not inductive from an arbitrary world: before debt finalization the total can
   still be lowered, which is why `good` also records that nothing is written off before finalization *)
Definition ex_W_bad : world :=
  {| accts := [ (KRdConfig, {| lamports := rent LEN_CONFIG_ALLOC; owner := KRd; alen := LEN_CONFIG_ALLOC; data := DConfig ex_cfg |});
                (KRdDist 7, {| lamports := rent LEN_DIST; owner := KRd; alen := LEN_DIST;
                               data := DDist (ex_dist <| d_total_debt := 10 |> <| d_uncollectible := 5 |>) [] |}) ];
     now := 1000 |}.
Example uncollectible_le_total_alone_not_inductive :
  (forall k d tl, dist_at ex_W_bad k = Some (d, tl) -> d_uncollectible d <= d_total_debt d) /\
  exists W' d' tl', exec_tx ex_W_bad ex_tx_configure = (W', true) /\ dist_at W' (KRdDist 7) = Some (d', tl') /\
    d_total_debt d' < d_uncollectible d'.
Proof.
  split.
  - intros k d tl H. destruct (key_eqb_spec (KRdDist 7) k) as [<-|Hne].
    + vm_compute in H. injection H as <- <-. vm_compute. discriminate.
    + exfalso. revert H. rewrite dist_at_of. unfold get, ex_W_bad. cbn [accts lookup].
      destruct (key_eqb_spec k KRdConfig) as [->|H1]; [vm_compute; discriminate|].
      destruct (key_eqb_spec k (KRdDist 7)) as [->|H2]; [congruence|]. vm_compute. discriminate.
  - eexists _, _, _. split; [vm_compute; reflexivity|]. split; [vm_compute; reflexivity|]. vm_compute. reflexivity.
Qed.
(* before the grace period has passed the same ConfigureDebt is rejected *)
Example calc_gate_nonvacuous : exec_tx ex_W ex_tx_configure = (ex_W, false).
Proof. vm_compute. reflexivity. Qed.

(* ------------------------------------------------------------------ persistence needs lamports: the unconditional form is refuted *)
(* A (forged, under-funded) distribution whose balance is exactly one relay payment is emptied by the last
   DistributeRewards and purged at the end of the transaction.  Hence T1 is stated with the purge alternative and the
   history theorems carry `alive`; no honest instruction sequence creates such an under-funded distribution. *)
Definition w_svc : key := KUser 10.
Definition w_rk : key := KUser 11.
Definition w_relayer : key := KUser 12.
Definition w_proof : proof := {| siblings := []; leaf_index := Some 0 |}.
Definition w_dk : key := KRdDist 7.
Definition w_dist : dist :=
  dist_default <| d_epoch := 7 |> <| d_debt_final := true |> <| d_rewards_final := true |> <| d_swept := true |>
    <| d_relay := 1000000 |> <| d_calc_allowed_ts := 500 |> <| d_total_contributors := 1 |>
    <| d_rewards_root := root_from_leaf w_proof PRE_REWARD (LReward w_svc 0 0) |> <| d_rew_start := 0 |> <| d_rew_end := 1 |>.
Definition w_tok (o : key) : acct :=
  {| lamports := rent LEN_TOKEN; owner := KToken; alen := LEN_TOKEN; data := DToken {| t_mint := KMint; t_owner := o; t_amount := 0 |} |}.
Definition w_W : world :=
  {| accts := [ (KRdConfig, {| lamports := rent LEN_CONFIG_ALLOC; owner := KRd; alen := LEN_CONFIG_ALLOC; data := DConfig ex_cfg |});
                (w_dk, {| lamports := 1000000; owner := KRd; alen := LEN_DIST + 1; data := DDist w_dist [0] |});
                (KRdContrib w_svc, {| lamports := rent LEN_CONTRIB; owner := KRd; alen := LEN_CONTRIB;
                    data := DContrib {| cr_manager := KUser 13; cr_service := w_svc; cr_blocked := false; cr_recipients := [(w_rk, 10000)] |} |});
                (KTok2z w_dk, w_tok w_dk);
                (KMint, {| lamports := rent LEN_MINT; owner := KToken; alen := LEN_MINT; data := DMint {| m_supply := 0; m_decimals := 8 |} |});
                (KAta w_rk KMint, w_tok w_rk) ];
     now := 1000 |}.
Definition w_tx : tx :=
  {| tx_signers := [KUser 12];
     tx_ixs := [ {| i_prog := KRd; i_data := IxRd (RDistributeRewards 0 0 w_proof);
                    i_metas := [mk KRdConfig false false; mk w_dk false true; mk (KRdContrib w_svc) false false; mk (KTok2z w_dk) false true;
                                mk KMint false true; mk w_relayer true true; mk KToken false false; mk (KAta w_rk KMint) false true] |} ] |}.
Example dist_persists_unconditional_refuted :
  ~ (forall W t W' ok k d tl, dist_at W k = Some (d, tl) -> exec_tx W t = (W', ok) -> exists d' tl', dist_at W' k = Some (d', tl')).
Proof.
  intros H. destruct (H w_W w_tx (fst (exec_tx w_W w_tx)) true w_dk w_dist [0]) as (d' & tl' & E).
  - vm_compute. reflexivity.
  - vm_compute. reflexivity.
  - vm_compute in E. discriminate E.
Qed.

(* the disjunctive form of the history theorem: either the account was purged at some point or the relation holds *)
Theorem run_monoL_or_purged : forall ops W k d tl d' tl', Forall honest_op ops ->
  dist_at W k = Some (d, tl) -> dist_at (run W ops) k = Some (d', tl') ->
  (exists n, dist_at (run W (firstn n ops)) k = None) \/ monoL d d'.
Proof.
  induction ops as [|o ops IH]; intros W k d tl d' tl' Hh Hd Hd'.
  - right. cbn in Hd'. rewrite Hd in Hd'. injection Hd' as <- <-. apply monoL_refl.
  - rewrite run_cons in Hd'. inversion Hh as [|o' ops' Ho Hops]; subst.
    destruct (dist_at (step W o) k) as [[d1 tl1]|] eqn:E1; [|left; exists 1%nat; exact E1].
    pose proof (step_orel W o k Ho) as R. unfold orel in R. rewrite Hd, E1 in R.
    destruct (IH (step W o) k d1 tl1 d' tl' Hops E1 Hd') as [[n Hn]|M].
    + left. exists (S n). cbn [firstn]. rewrite run_cons. exact Hn.
    + right. eapply monoL_trans; eassumption.
Qed.

(* Without `alive` the history theorems are refuted from a forged world: the under-funded distribution above is purged
   together with its (forged, zero-lamport) 2Z token account, and a program config whose next epoch equals the purged
   distribution's epoch lets InitializeDistribution create a NEW distribution at the same address: every flag is
   false again and the snapshot is the new configuration's.  (None of the three ingredients is reachable by honest
   operations from an honestly initialised program: distributions are funded by FinalizeRewards, zero-lamport accounts
   do not exist between transactions, and the next epoch only grows.) *)
Definition r_cfg : rd_config :=
  rd_config_default <| c_debt_accountant := KUser 1 |> <| c_next_epoch := 7 |> <| c_init_grace_min := 1 |> <| c_calc_grace_min := 1 |>
    <| c_fees := {| fp_base := 1; fp_priority := 0; fp_inflation := 0; fp_jito := 0; fp_fixed := 0 |} |>
    <| c_burn := mkP 500000000 2 5 400000000 4 100000000 |> <| c_relay := 6000 |>.
Definition r_payer : key := KUser 20.
Definition r_W : world :=
  {| accts := [ (KRdConfig, {| lamports := rent LEN_CONFIG_ALLOC; owner := KRd; alen := LEN_CONFIG_ALLOC; data := DConfig r_cfg |});
                (w_dk, {| lamports := 1000000; owner := KRd; alen := LEN_DIST + 1; data := DDist w_dist [0] |});
                (KRdContrib w_svc, {| lamports := rent LEN_CONTRIB; owner := KRd; alen := LEN_CONTRIB;
                    data := DContrib {| cr_manager := KUser 13; cr_service := w_svc; cr_blocked := false; cr_recipients := [(w_rk, 10000)] |} |});
                (KTok2z w_dk, w_tok w_dk <| lamports := 0 |>);
                (KMint, {| lamports := rent LEN_MINT; owner := KToken; alen := LEN_MINT; data := DMint {| m_supply := 0; m_decimals := 8 |} |});
                (KAta w_rk KMint, w_tok w_rk);
                (KRdJournal, {| lamports := rent LEN_CONFIG_ALLOC; owner := KRd; alen := LEN_CONFIG_ALLOC; data := DJournal journal_default |});
                (r_payer, {| lamports := 1000000000; owner := KSystem; alen := 0; data := DEmpty |}) ];
     now := 1000 |}.
Definition r_tx_init : tx :=
  {| tx_signers := [KUser 1; r_payer];
     tx_ixs := [ {| i_prog := KRd; i_data := IxRd RInitializeDistribution;
                    i_metas := [mk KRdConfig false true; mk (KUser 1) true false; mk r_payer true true; mk w_dk false true;
                                mk (KTok2z w_dk) false true; mk KMint false false; mk KToken false false;
                                mk KRdJournal false true; mk (KTok2z KRdJournal) false false; mk (KAta KRdJournal KMint) false false;
                                mk KSystem false false] |} ] |}.
Definition r_ops : list op := [OTx w_tx; OTx r_tx_init].
Example run_unconditional_refuted :
  ~ (forall ops W k d tl d' tl', Forall honest_op ops ->
       dist_at W k = Some (d, tl) -> dist_at (run W ops) k = Some (d', tl') ->
       implb (d_debt_final d) (d_debt_final d') = true /\ d_relay d' = d_relay d).
Proof.
  intros H.
  assert (E : exists d' tl', dist_at (run r_W r_ops) w_dk = Some (d', tl') /\ d_debt_final d' = false /\ d_relay d' = 6000)
    by (eexists _, _; split; [vm_compute; reflexivity|split; reflexivity]).
  destruct E as (d' & tl' & E & F & G).
  destruct (H r_ops r_W w_dk w_dist [0] d' tl') as [A B]; [repeat constructor|vm_compute; reflexivity|exact E|].
  rewrite G in B. vm_compute in B. discriminate B.
Qed.
