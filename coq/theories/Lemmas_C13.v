(* C13, progress direction ("guards => success"): a transaction made of ONE instruction whose account list is the SDK
   builder's (Builders.v), signed by the right wallets, SUCCEEDS in every world that satisfies an explicit phase
   precondition, under the whole transaction semantics of Exec.v (tx_wf, message-level flags, per-instruction lamport
   balance, rent-state rule, purge), and establishes the stated post-state.
   Part 1 (this file): infrastructure, pay-debt, the loop over a whole debt tree.  Index at the end of Lemmas_C13f.v. *)
From DZ Require Import Base Keys Merkle BurnRate Shares Swap_Ring State World SwapDeq RD Passport Swap Exec Corr Builders
  Lemmas_Merkle Lemmas_RdSpecs5.

Definition rd_tx (signers : list key) (ix : rd_ix) (ms : list meta) : tx :=
  {| tx_signers := signers; tx_ixs := [{| i_prog := KRd; i_data := IxRd ix; i_metas := ms |}] |}.
Definition rd_cx (ms : list meta) : ctx := {| cx_prog := KRd; cx_metas := ms; cx_height := 1; cx_sibling := None |}.
Definition eff1 (signers : list key) (ms : list meta) : list meta :=
  map (fun m => {| mkey := mkey m; msigner := existsb (key_eqb (mkey m)) signers; mwritable := is_writable ms (mkey m) |}) ms.

Lemma effective_single signers ix ms : effective (rd_tx signers ix ms) ms = eff1 signers ms.
Proof.
  unfold effective, eff1. apply map_ext. intros m. unfold msg_signer, msg_writable, rd_tx. cbn [tx_signers tx_ixs existsb i_metas].
  rewrite orb_false_r. reflexivity.
Qed.
Lemma keys_of_eff1 signers ms : keys_of (eff1 signers ms) = keys_of ms.
Proof. unfold keys_of, eff1. rewrite map_map. reflexivity. Qed.

Lemma get_purge W k : get (purge W) k = if lamports (get W k) =? 0 then empty_acct else get W k.
Proof.
  unfold get, purge. cbn. induction (accts W) as [|[k' a] tl IH]; cbn [map lookup]; [reflexivity|].
  destruct (lamports a =? 0) eqn:E; cbn [lookup]; destruct (key_eqb k k'); auto; rewrite ?E; reflexivity.
Qed.
Lemma now_purge W : now (purge W) = now W. Proof. reflexivity. Qed.

Lemma exec_tx_rd_go W signers ix ms W1 :
  tx_wf (rd_tx signers ix ms) = true ->
  rd_process (rd_cx (eff1 signers ms)) W ix = Ok W1 ->
  balanced ms W W1 = true ->
  (forall k, In k (keys_of ms) -> rent_transition_ok (get W k) (get W1 k) = true) ->
  exec_tx W (rd_tx signers ix ms) = (purge W1, true).
Proof.
  intros Hwf Hrun Hbal Hrent. unfold exec_tx. rewrite Hwf. cbn [negb].
  change (tx_ixs (rd_tx signers ix ms)) with [{| i_prog := KRd; i_data := IxRd ix; i_metas := ms |}].
  cbn [exec_ixs i_prog i_data i_metas]. rewrite effective_single. cbn [exec_data].
  fold (rd_cx (eff1 signers ms)). rewrite Hrun. cbn [bind].
  unfold balanced in *. rewrite keys_of_eff1, Hbal. cbn [require bind].
  assert (rent_ok (rd_tx signers ix ms) W W1 = true) as ->; [|reflexivity].
  unfold rent_ok. apply forallb_forall. intros k Hk. rewrite Hrent; [apply orb_true_r|].
  unfold tx_keys, rd_tx in Hk. cbn in Hk. rewrite app_nil_r in Hk. exact Hk.
Qed.

Lemma rent_transition_same a a' : lamports a' = lamports a -> alen a' = alen a -> rent_transition_ok a a' = true.
Proof.
  intros Hl Ha. unfold rent_transition_ok, rent_state_of. rewrite Hl, Ha.
  destruct (lamports a =? 0); [reflexivity|]. destruct (rent (alen a) <=? lamports a); [reflexivity|].
  rewrite N.eqb_refl, N.leb_refl. reflexivity.
Qed.
Lemma rent_transition_exempt a a' : rent (alen a') <= lamports a' -> rent_transition_ok a a' = true.
Proof.
  intros H. unfold rent_transition_ok, rent_state_of. destruct (lamports a' =? 0); [reflexivity|].
  apply N.leb_le in H. rewrite H. reflexivity.
Qed.
Lemma rent_pos n : 0 < rent n. Proof. unfold rent. lia. Qed.

(* worlds after a lamport move (the processors skip the write when the amount is zero) *)
Definition debit_w (W : world) (k : key) (amt : N) : world :=
  if amt =? 0 then W else put W k (get W k <| lamports := lamports (get W k) - amt |>).
Definition credit_w (W : world) (k : key) (amt : N) : world :=
  if amt =? 0 then W else put W k (get W k <| lamports := lamports (get W k) + amt |>).
Lemma get_debit_w W k amt k' :
  get (debit_w W k amt) k' = if key_eqb k k' then get W k <| lamports := lamports (get W k) - amt |> else get W k'.
Proof.
  unfold debit_w. destruct (N.eqb_spec amt 0) as [->|_]; [|apply get_put].
  destruct (key_eqb_spec k k') as [->|_]; [|reflexivity]. rewrite N.sub_0_r, set_lamports_id. reflexivity.
Qed.
Lemma get_credit_w W k amt k' :
  get (credit_w W k amt) k' = if key_eqb k k' then get W k <| lamports := lamports (get W k) + amt |> else get W k'.
Proof.
  unfold credit_w. destruct (N.eqb_spec amt 0) as [->|_]; [|apply get_put].
  destruct (key_eqb_spec k k') as [->|_]; [|reflexivity]. rewrite N.add_0_r, set_lamports_id. reflexivity.
Qed.
Lemma now_debit_w W k amt : now (debit_w W k amt) = now W. Proof. unfold debit_w. destruct (amt =? 0); reflexivity. Qed.
Lemma now_credit_w W k amt : now (credit_w W k amt) = now W. Proof. unfold credit_w. destruct (amt =? 0); reflexivity. Qed.

Lemma write_data_go cx W k d :
  is_writable (cx_metas cx) k = true -> owner (get W k) = cx_prog cx ->
  write_data cx W k d = Ok (put W k (get W k <| data := d |>)).
Proof. intros Hw Ho. unfold write_data. rewrite Hw, Ho, key_eqb_refl. reflexivity. Qed.
Lemma debit_go cx W k amt :
  is_writable (cx_metas cx) k = true -> owner (get W k) = cx_prog cx -> amt <= lamports (get W k) ->
  debit cx W k amt = Ok (debit_w W k amt).
Proof.
  intros Hw Ho Hle. unfold debit, debit_w. destruct (amt =? 0); [reflexivity|].
  apply N.leb_le in Hle. rewrite Hw, Ho, key_eqb_refl, Hle. reflexivity.
Qed.
Lemma credit_go cx W k amt :
  is_writable (cx_metas cx) k = true -> credit cx W k amt = Ok (credit_w W k amt).
Proof. intros Hw. unfold credit, credit_w. destruct (amt =? 0); [reflexivity|]. rewrite Hw. reflexivity. Qed.

Lemma resize_go cx W k n :
  n <= alen (get W k) + 10240 -> is_writable (cx_metas cx) k = true -> owner (get W k) = cx_prog cx ->
  resize cx W k n = Ok (put W k (get W k <| alen := n |>)).
Proof. intros Hn Hw Ho. unfold resize, MAX_REALLOC. apply N.leb_le in Hn. rewrite Hn, Hw, Ho, key_eqb_refl. reflexivity. Qed.

(* a System transfer CPI from a signing, writable, data-less System-owned wallet to a different writable account *)
Lemma sys_transfer_go cx W from to amt :
  from <> to ->
  has_key (cx_metas cx) KSystem = true -> has_key (cx_metas cx) from = true -> has_key (cx_metas cx) to = true ->
  is_writable (cx_metas cx) from = true -> is_writable (cx_metas cx) to = true -> is_signer (cx_metas cx) from = true ->
  alen (get W from) = 0 -> owner (get W from) = KSystem -> amt <= lamports (get W from) ->
  sys_transfer cx W from to amt [] =
  Ok (put (put W from (get W from <| lamports := lamports (get W from) - amt |>)) to
          (get W to <| lamports := lamports (get W to) + amt |>)).
Proof.
  intros Hne Hs Hf Ht Hwf Hwt Hsf Hl Ho Ha. unfold sys_transfer, cpi_metas.
  cbn [forallb mkey msigner mwritable mk negb orb andb map is_signer is_writable existsb].
  rewrite Hs, Hf, Ht, Hwf, Hwt, Hsf. cbn [require bind andb orb].
  unfold sys_transfer_core. cbn [is_signer is_writable existsb mkey msigner mwritable andb orb].
  rewrite ?key_eqb_refl, ?(key_eqb_neq to from), ?(key_eqb_neq from to) by congruence. cbn [andb orb].
  apply N.leb_le in Ha. rewrite Hl, Ho, Ha, N.eqb_refl. cbn [require bind key_eqb orb].
  rewrite get_put_other by assumption. reflexivity.
Qed.
Lemma sat_add_0_small x : x < two64 -> sat_add two64 0 x = x.
Proof. intros H. unfold sat_add. rewrite N.add_0_l. apply N.ltb_lt in H. rewrite H. reflexivity. Qed.
Lemma sat_add_0_le x : sat_add two64 0 x <= x.
Proof. pose proof (sat_add_le two64 0 x). lia. Qed.

(* rewrite with every hypothesis whose left-hand side occurs in the goal *)
Ltac hyps_rw := repeat match goal with H : ?l = _ |- context [?l] => first [is_var l; fail 1 | rewrite H] end.
Ltac getnorm :=
  repeat (rewrite ?get_put, ?get_debit_w, ?get_credit_w; cbn [key_eqb andb orb];
          rewrite ?N.eqb_refl, ?key_eqb_refl, ?hash_eqb_refl, ?orb_true_r, ?orb_false_r, ?andb_true_r, ?andb_false_r; cbn [andb orb]).
(* forward evaluation of a processor on a literal account list: reads are unfolded, writes go through the _go lemmas *)
Ltac rdread :=
  cbv beta delta [leaf_idx rd_zc_config rd_zc_dist rd_zc_journal rd_zc_deposit rd_zc_contrib rd_verified require_unpaused
    next_any next_account put_dist rd_cx mk total_sol_debt checked_sub grow_and_fund];
  cbn [bind require of_option role_key
    mkey msigner mwritable negb orb andb fst snd cx_metas cx_prog key_eqb existsb is_writable is_signer has_key map eff1].
Ltac rdside := cbn [cx_metas cx_prog is_writable is_signer has_key existsb mkey msigner mwritable key_eqb andb orb];
  getnorm; proj_simpl; hyps_rw; cbn [lamports alen owner];
  first [reflexivity | assumption | discriminate | lia | (eapply N.le_trans; [apply sat_add_0_le|]; lia) | idtac].
Ltac rdwrite :=
  first [ rewrite write_data_go by rdside | rewrite debit_go by rdside | rewrite credit_go by rdside
        | rewrite resize_go by rdside | rewrite sys_transfer_go by rdside ].
Ltac rdgo := repeat (rdread; getnorm; proj_simpl; hyps_rw; try rdwrite).

Definition purge_acct (a : acct) : acct := if lamports a =? 0 then empty_acct else a.
Lemma lamports_purge_acct a : lamports (purge_acct a) = lamports a.
Proof. unfold purge_acct. destruct (N.eqb_spec (lamports a) 0) as [E|_]; [rewrite E|]; reflexivity. Qed.
Lemma purge_acct_id a : lamports a <> 0 -> purge_acct a = a.
Proof. unfold purge_acct. intros H. destruct (N.eqb_spec (lamports a) 0); [contradiction|reflexivity]. Qed.

(* ---- the per-instruction lamport balance from a pointwise description of the lamport changes ---- *)
Lemma dedup_keys_in l k : In k (dedup_keys l) <-> In k l.
Proof.
  induction l as [|x tl IH]; cbn [dedup_keys]; [tauto|].
  destruct (existsb (key_eqb x) tl) eqn:E.
  - rewrite IH. cbn [In]. split; [auto|]. intros [<-|H]; [|exact H].
    apply existsb_exists in E as (y & Hy & Hxy). apply key_eqb_eq in Hxy. subst y. exact Hy.
  - cbn [In]. rewrite IH. tauto.
Qed.
Lemma dedup_keys_nodup l : NoDup (dedup_keys l).
Proof.
  induction l as [|x tl IH]; cbn [dedup_keys]; [constructor|].
  destruct (existsb (key_eqb x) tl) eqn:E; [exact IH|]. constructor; [|exact IH].
  rewrite dedup_keys_in. intros Hin. assert (existsb (key_eqb x) tl = true) as E'; [|congruence].
  apply existsb_exists. exists x. split; [exact Hin|apply key_eqb_refl].
Qed.
Lemma sum_same (f f' : key -> N) l : (forall k, f' k = f k) -> sumN (map f' l) = sumN (map f l).
Proof. intros H. induction l; cbn [map sumN]; [reflexivity|]. rewrite H, IHl. reflexivity. Qed.
Lemma sum_move (f f' : key -> N) from to amt : from <> to -> amt <= f from ->
  (forall k, f' k = if key_eqb k from then f k - amt else if key_eqb k to then f k + amt else f k) ->
  forall l, NoDup l ->
  sumN (map f' l) + (if existsb (key_eqb from) l then amt else 0) = sumN (map f l) + (if existsb (key_eqb to) l then amt else 0).
Proof.
  intros Hne Hle Hf. induction 1 as [|x l Hx Hnd IH]; cbn [map sumN existsb]; [reflexivity|].
  assert (forall y, existsb (key_eqb y) l = true -> In y l) as Hin.
  { intros y Hy. apply existsb_exists in Hy as (z & Hz & Hyz). apply key_eqb_eq in Hyz. subst z. exact Hz. }
  rewrite Hf. destruct (key_eqb_spec x from) as [->|N1].
  - rewrite key_eqb_refl, (key_eqb_neq to from) by congruence. cbn [orb].
    destruct (existsb (key_eqb from) l) eqn:E1; [exfalso; apply Hx, Hin, E1|].
    destruct (existsb (key_eqb to) l); lia.
  - rewrite (key_eqb_neq from x) by congruence. cbn [orb]. destruct (key_eqb_spec x to) as [->|N2].
    + rewrite key_eqb_refl. cbn [orb]. destruct (existsb (key_eqb to) l) eqn:E2; [exfalso; apply Hx, Hin, E2|].
      destruct (existsb (key_eqb from) l); lia.
    + rewrite (key_eqb_neq to x) by congruence. cbn [orb]. lia.
Qed.
Lemma existsb_key_in k l : In k l -> existsb (key_eqb k) l = true.
Proof. intros H. apply existsb_exists. exists k. split; [exact H|apply key_eqb_refl]. Qed.

Lemma balanced_same ms W W' : (forall k, lamports (get W' k) = lamports (get W k)) -> balanced ms W W' = true.
Proof. intros H. unfold balanced, lamports_sum. apply N.eqb_eq. symmetry. apply sum_same. exact H. Qed.
Lemma balanced_move ms W W' from to amt :
  from <> to -> In from (keys_of ms) -> In to (keys_of ms) -> amt <= lamports (get W from) ->
  (forall k, lamports (get W' k) = if key_eqb k from then lamports (get W k) - amt
                                   else if key_eqb k to then lamports (get W k) + amt else lamports (get W k)) ->
  balanced ms W W' = true.
Proof.
  intros Hne Hf Ht Hle H. unfold balanced, lamports_sum. apply N.eqb_eq.
  pose proof (sum_move (fun k => lamports (get W k)) (fun k => lamports (get W' k)) from to amt Hne Hle H
                (dedup_keys (keys_of ms)) (dedup_keys_nodup _)) as S.
  rewrite !existsb_key_in in S by (apply dedup_keys_in; assumption). lia.
Qed.

(* the whole transaction from the processor run and a pointwise description F of the world it returns *)
Lemma rd_tx_progress W signers ix ms W1 (F : key -> acct) :
  tx_wf (rd_tx signers ix ms) = true ->
  rd_process (rd_cx (eff1 signers ms)) W ix = Ok W1 -> now W1 = now W -> (forall k, get W1 k = F k) ->
  balanced ms W W1 = true ->
  (forall k, rent_transition_ok (get W k) (F k) = true) ->
  exists W', exec_tx W (rd_tx signers ix ms) = (W', true) /\ now W' = now W /\ forall k, get W' k = purge_acct (F k).
Proof.
  intros Hwf Hrun Hnow HF Hbal Hrent. exists (purge W1). split; [|split].
  - apply exec_tx_rd_go; try assumption. intros k _. rewrite HF. apply Hrent.
  - rewrite now_purge. exact Hnow.
  - intros k. rewrite get_purge, HF. reflexivity.
Qed.

Record pay_ready (W : world) (e : N) (node : key) (amount : N) (p : proof) (idx : N)
  (c : rd_config) (d : dist) (tail : list N) (dp : deposit) (j : journal) : Prop := {
  pr_cfg_owner : owner (get W KRdConfig) = KRd;
  pr_cfg_data : data (get W KRdConfig) = DConfig c;
  pr_unpaused : c_paused c = false;
  pr_dist_owner : owner (get W (KRdDist e)) = KRd;
  pr_dist_data : data (get W (KRdDist e)) = DDist d tail;
  pr_dist_rent : rent (alen (get W (KRdDist e))) <= lamports (get W (KRdDist e));
  pr_debt_final : d_debt_final d = true;
  pr_dep_owner : owner (get W (KRdDeposit node)) = KRd;
  pr_dep_data : data (get W (KRdDeposit node)) = DDeposit dp;
  pr_dep_node : dp_node dp = node;
  pr_dep_len : alen (get W (KRdDeposit node)) = LEN_DEPOSIT;
  pr_index : leaf_index p = Some idx;
  pr_window : d_debt_start d <= d_debt_end d /\ d_debt_end d <= N.of_nat (length tail);
  pr_in_range : idx / 8 < d_debt_end d - d_debt_start d;
  pr_bit_clear : range_bit tail (d_debt_start d) idx = false;
  pr_proof : root_from_leaf p PRE_DEBT (LDebt node amount) = d_debt_root d;
  pr_funded : rent LEN_DEPOSIT + amount <= lamports (get W (KRdDeposit node));
  pr_j_owner : owner (get W KRdJournal) = KRd;
  pr_j_data : data (get W KRdJournal) = DJournal j;
  pr_j_rent : rent (alen (get W KRdJournal)) <= lamports (get W KRdJournal)
}.

Definition set_bit_at (tail : list N) (start idx : N) : list N :=
  set_nth tail (N.to_nat (start + idx / 8)) (set_bit_byte (nth (N.to_nat (start + idx / 8)) tail 0) (idx mod 8)).


Definition pay_debt_acct (W : world) (e : N) (node : key) (amount idx : N) (d : dist) (tail : list N) (j : journal) (k : key) : acct :=
  if key_eqb k (KRdDist e) then get W k <| data := DDist (pay_debt_dist d amount) (set_bit_at tail (d_debt_start d) idx) |>
  else if key_eqb k (KRdDeposit node) then get W k <| lamports := lamports (get W k) - amount |>
  else if key_eqb k KRdJournal then
    get W k <| lamports := lamports (get W k) + amount |> <| data := DJournal (j <| j_total_sol := wadd64 (j_total_sol j) amount |>) |>
  else purge_acct (get W k).

Theorem pay_debt_progress W f e node amount p idx c d tail dp j :
  pay_ready W e node amount p idx c d tail dp j ->
  exists W', exec_tx W (rd_tx [KUser f] (RPayDebt amount p) (sdk_pay_debt e node)) = (W', true) /\
    now W' = now W /\ forall k, get W' k = pay_debt_acct W e node amount idx d tail j k.
Proof.
  intros R. destruct R. eexists. split; [|split].
  - apply exec_tx_rd_go.
    + reflexivity.
    + unfold sdk_pay_debt. cbn [rd_process]. unfold rd_pay_debt.
      assert (process_leaf tail (d_debt_start d) (d_debt_end d) idx = Ok (set_bit_at tail (d_debt_start d) idx)) as Hpl.
      { apply process_leaf_spec. unfold set_bit_at. tauto. }
      assert (amount <=? lamports (get W (KRdDeposit node)) - rent LEN_DEPOSIT = true) as Hamt by (apply N.leb_le; lia).
      rdgo. reflexivity.
    + unfold balanced, sdk_pay_debt, lamports_sum. cbn [keys_of map mkey mk dedup_keys existsb key_eqb orb sumN]. getnorm. proj_simpl.
      apply N.eqb_eq. lia.
    + unfold sdk_pay_debt. cbn [keys_of map mkey mk]. intros k Hk.
      repeat (destruct Hk as [<-|Hk]; [getnorm; proj_simpl|]); try contradiction.
      * apply rent_transition_same; reflexivity.
      * apply rent_transition_same; proj_simpl; reflexivity.
      * apply rent_transition_exempt. proj_simpl. rewrite pr_dep_len0. cbn [lamports]. lia.
      * apply rent_transition_exempt. proj_simpl. cbn [lamports]. lia.
  - rewrite now_purge. rewrite ?now_put, ?now_credit_w, ?now_debit_w. reflexivity.
  - intros k. rewrite get_purge. unfold pay_debt_acct, pay_debt_dist.
    destruct (key_eqb_spec k (KRdDist e)) as [->|N1].
    { getnorm. proj_simpl. destruct (N.eqb_spec (lamports (get W (KRdDist e))) 0) as [E|_]; [|reflexivity].
      pose proof (rent_pos (alen (get W (KRdDist e)))). lia. }
    destruct (key_eqb_spec k (KRdDeposit node)) as [->|N2].
    { getnorm. proj_simpl. cbn [lamports]. destruct (N.eqb_spec (lamports (get W (KRdDeposit node)) - amount) 0) as [E|_]; [|reflexivity].
      pose proof (rent_pos LEN_DEPOSIT). lia. }
    destruct (key_eqb_spec k KRdJournal) as [->|N3].
    { getnorm. proj_simpl. cbn [lamports]. destruct (N.eqb_spec (lamports (get W KRdJournal) + amount) 0) as [E|_]; [|reflexivity].
      pose proof (rent_pos (alen (get W KRdJournal))). lia. }
    repeat (rewrite get_put || rewrite get_debit_w || rewrite get_credit_w).
    rewrite ?(key_eqb_neq (KRdDist e) k), ?(key_eqb_neq (KRdDeposit node) k), ?(key_eqb_neq KRdJournal k) by congruence.
    reflexivity.
Qed.

(* ------------------------------------------------------------------------------------------------------------------ *)
(* paying every leaf of a debt tree, one transaction per leaf                                                          *)
Fixpoint run_txs (W : world) (ts : list tx) : world * bool :=
  match ts with
  | [] => (W, true)
  | t :: tl => let '(W', ok) := exec_tx W t in if ok then run_txs W' tl else (W', false)
  end.
Fixpoint pay_txs (f e : N) (L : list (key * N)) (pf : N -> proof) (i : N) : list tx :=
  match L with
  | [] => []
  | (node, amt) :: tl => rd_tx [KUser f] (RPayDebt amt (pf i)) (sdk_pay_debt e node) :: pay_txs f e tl pf (i + 1)
  end.
(* lamports the leaves of L draw from the deposit of `node` *)
Fixpoint owed (node : key) (L : list (key * N)) : N :=
  match L with [] => 0 | (n, a) :: tl => (if key_eqb n node then a else 0) + owed node tl end.

Record pay_phase (W : world) (e : N) (root : hash) (pf : N -> proof) (i : N) (rest : list (key * N))
  (c : rd_config) (d : dist) (tail : list N) (j : journal) : Prop := {
  pp_cfg_owner : owner (get W KRdConfig) = KRd;
  pp_cfg_data : data (get W KRdConfig) = DConfig c;
  pp_cfg_lam : lamports (get W KRdConfig) <> 0;
  pp_unpaused : c_paused c = false;
  pp_dist_owner : owner (get W (KRdDist e)) = KRd;
  pp_dist_data : data (get W (KRdDist e)) = DDist d tail;
  pp_dist_rent : rent (alen (get W (KRdDist e))) <= lamports (get W (KRdDist e));
  pp_debt_final : d_debt_final d = true;
  pp_root : d_debt_root d = root;
  pp_window : d_debt_start d <= d_debt_end d /\ d_debt_end d <= N.of_nat (length tail);
  pp_fits : i + N.of_nat (length rest) <= 8 * (d_debt_end d - d_debt_start d);
  pp_clear : forall idx, i <= idx < i + N.of_nat (length rest) -> range_bit tail (d_debt_start d) idx = false;
  pp_proofs : forall n node amt, nth_error rest n = Some (node, amt) ->
     leaf_index (pf (i + N.of_nat n)) = Some (i + N.of_nat n) /\
     root_from_leaf (pf (i + N.of_nat n)) PRE_DEBT (LDebt node amt) = root;
  pp_deposits : forall node amt, In (node, amt) rest ->
     exists dp, owner (get W (KRdDeposit node)) = KRd /\ data (get W (KRdDeposit node)) = DDeposit dp /\ dp_node dp = node /\
                alen (get W (KRdDeposit node)) = LEN_DEPOSIT /\
                rent LEN_DEPOSIT + owed node rest <= lamports (get W (KRdDeposit node));
  pp_j_owner : owner (get W KRdJournal) = KRd;
  pp_j_data : data (get W KRdJournal) = DJournal j;
  pp_j_rent : rent (alen (get W KRdJournal)) <= lamports (get W KRdJournal);
  pp_ranges : d_payments_count d < two32 /\ d_collected_sol d < two64 /\ j_total_sol j < two64
}.

Lemma set_bit_at_bits tail s e idx :
  s <= e -> e <= N.of_nat (length tail) -> idx / 8 < e - s -> range_bit tail s idx = false ->
  length (set_bit_at tail s idx) = length tail /\ range_bit (set_bit_at tail s idx) s idx = true /\
  forall j, j <> idx -> range_bit (set_bit_at tail s idx) s j = range_bit tail s j.
Proof.
  intros H1 H2 H3 H4.
  assert (process_leaf tail s e idx = Ok (set_bit_at tail s idx)) as Hpl by (apply process_leaf_spec; unfold set_bit_at; tauto).
  split; [apply (process_leaf_bits _ _ _ _ _ Hpl)|]. destruct (process_leaf_range_bits _ _ _ _ _ Hpl) as (_ & A & B & _). auto.
Qed.

Lemma dist_pay_twice d a b x y :
  (d <| d_collected_sol := a |> <| d_payments_count := b |>) <| d_collected_sol := x |> <| d_payments_count := y |>
  = d <| d_collected_sol := x |> <| d_payments_count := y |>.
Proof. destruct d; reflexivity. Qed.

Theorem pay_all_ok f e root pf : forall rest W i c d tail j,
  pay_phase W e root pf i rest c d tail j ->
  exists W' d' tail' j',
    run_txs W (pay_txs f e rest pf i) = (W', true) /\
    pay_phase W' e root pf (i + N.of_nat (length rest)) [] c d' tail' j' /\
    d' = d <| d_collected_sol := d_collected_sol d' |> <| d_payments_count := d_payments_count d' |> /\
    d_payments_count d' = (d_payments_count d + N.of_nat (length rest)) mod two32 /\
    d_collected_sol d' = (d_collected_sol d + sumN (map snd rest)) mod two64 /\
    length tail' = length tail /\
    (forall idx, i <= idx < i + N.of_nat (length rest) -> range_bit tail' (d_debt_start d) idx = true) /\
    (forall idx, idx < i \/ i + N.of_nat (length rest) <= idx -> range_bit tail' (d_debt_start d) idx = range_bit tail (d_debt_start d) idx) /\
    lamports (get W' KRdJournal) = lamports (get W KRdJournal) + sumN (map snd rest) /\
    j_total_sol j' = (j_total_sol j + sumN (map snd rest)) mod two64 /\
    (forall node, lamports (get W' (KRdDeposit node)) = lamports (get W (KRdDeposit node)) - owed node rest) /\
    now W' = now W.
Proof.
  induction rest as [|[node amt] tl IH]; intros W i c d tail j P.
  - exists W, d, tail, j. cbn [pay_txs run_txs length map sumN owed N.of_nat]. rewrite !N.add_0_r.
    destruct (pp_ranges _ _ _ _ _ _ _ _ _ _ P) as (R1 & R2 & R3).
    split; [reflexivity|]. split; [exact P|]. split; [destruct d; reflexivity|].
    rewrite !N.mod_small by assumption. repeat split; try reflexivity; try lia.
  - destruct P.
    destruct (pp_deposits0 node amt (or_introl eq_refl)) as (dp & Do & Dd & Dn & Dl & Df).
    destruct (pp_proofs0 0%nat node amt eq_refl) as (Pi & Pr). cbn [N.of_nat] in Pi, Pr. rewrite N.add_0_r in Pi, Pr.
    cbn [length] in pp_fits0, pp_clear0. cbn [owed] in Df. rewrite key_eqb_refl in Df.
    destruct pp_window0 as (Hw1 & Hw2). destruct pp_ranges0 as (R1 & R2 & R3).
    assert (i / 8 < d_debt_end d - d_debt_start d) as Hin by lia.
    assert (range_bit tail (d_debt_start d) i = false) as Hclr by (apply pp_clear0; lia).
    assert (pay_ready W e node amt (pf i) i c d tail dp j) as R.
    { constructor; try assumption; try tauto; try lia. congruence. }
    destruct (pay_debt_progress W f e node amt (pf i) i c d tail dp j R) as (W1 & Hx & Hnow & Hg).
    destruct (set_bit_at_bits tail _ _ i Hw1 Hw2 Hin Hclr) as (Hlen & Hset & Hoth).
    set (d1 := pay_debt_dist d amt) in *. set (tail1 := set_bit_at tail (d_debt_start d) i) in *.
    set (j1 := j <| j_total_sol := wadd64 (j_total_sol j) amt |>) in *.
    assert (get W1 KRdConfig = get W KRdConfig) as G0.
    { rewrite Hg. unfold pay_debt_acct. cbn [key_eqb]. apply purge_acct_id. assumption. }
    assert (get W1 (KRdDist e) = get W (KRdDist e) <| data := DDist d1 tail1 |>) as G1.
    { rewrite Hg. unfold pay_debt_acct. cbn [key_eqb]. rewrite N.eqb_refl. reflexivity. }
    assert (get W1 KRdJournal = get W KRdJournal <| lamports := lamports (get W KRdJournal) + amt |> <| data := DJournal j1 |>) as G2.
    { rewrite Hg. unfold pay_debt_acct. cbn [key_eqb]. reflexivity. }
    assert (forall n, get W1 (KRdDeposit n) = if key_eqb n node then get W (KRdDeposit n) <| lamports := lamports (get W (KRdDeposit n)) - amt |>
                                               else purge_acct (get W (KRdDeposit n))) as G3.
    { intros n. rewrite Hg. unfold pay_debt_acct. cbn [key_eqb]. reflexivity. }
    assert (pay_phase W1 e root pf (i + 1) tl c d1 tail1 j1) as P1.
    { constructor; rewrite ?G0, ?G1, ?G2; proj_simpl; try assumption; try reflexivity.
      - subst d1. unfold pay_debt_dist. proj_simpl. lia.
      - subst d1. unfold pay_debt_dist. proj_simpl. lia.
      - subst d1. unfold pay_debt_dist. proj_simpl. intros idx Hidx. rewrite Hoth by lia. apply pp_clear0. lia.
      - intros n node' amt' Hn. destruct (pp_proofs0 (S n) node' amt' Hn) as (A & B).
        replace (i + 1 + N.of_nat n) with (i + N.of_nat (S n)) by lia. auto.
      - intros node' amt' Hin'. destruct (pp_deposits0 node' amt' (or_intror Hin')) as (dp' & Do' & Dd' & Dn' & Dl' & Df').
        exists dp'. rewrite G3. cbn [owed] in Df'. rewrite (key_eqb_sym node node') in Df'.
        destruct (key_eqb_spec node' node) as [->|Hne].
        + proj_simpl. cbn [lamports]. repeat split; try assumption; try lia.
        + rewrite purge_acct_id by (pose proof (rent_pos LEN_DEPOSIT); lia). repeat split; try assumption; try lia.
      - cbn [lamports]. lia.
      - subst d1 j1. unfold pay_debt_dist. proj_simpl. cbn [j_total_sol]. unfold wadd32, wadd64.
        repeat split; apply wadd_lt; discriminate. }
    destruct (IH W1 (i + 1) c d1 tail1 j1 P1) as (W' & d' & tail' & j' & Hrun & Pend & Hd' & Hcnt & Hcol & Hlen' & Hbits & Hkeep & Hjl & Hjt & Hdep & Hnow').
    exists W', d', tail', j'. cbn [pay_txs run_txs]. rewrite Hx.
    assert (d_debt_start d1 = d_debt_start d) as Es by (subst d1; unfold pay_debt_dist; proj_simpl; reflexivity).
    rewrite Es in *.
    cbn [length map snd sumN owed]. 
    replace (i + N.of_nat (S (length tl))) with (i + 1 + N.of_nat (length tl)) by (clear; lia).
    split; [exact Hrun|]. split; [exact Pend|].
    split. { rewrite Hd' at 1. subst d1. unfold pay_debt_dist. apply dist_pay_twice. }
    split. { rewrite Hcnt. subst d1. unfold pay_debt_dist. proj_simpl. unfold wadd32, wadd.
             rewrite N.add_mod_idemp_l by discriminate. f_equal. clear. lia. }
    split. { rewrite Hcol. subst d1. unfold pay_debt_dist. proj_simpl. unfold wadd64, wadd.
             rewrite N.add_mod_idemp_l by discriminate. f_equal. clear. lia. }
    split; [congruence|].
    split. { intros idx Hidx. destruct (N.eq_dec idx i) as [->|Hne]; [rewrite Hkeep by (clear; lia); exact Hset|apply Hbits; clear - Hidx Hne; lia]. }
    split. { intros idx Hidx. rewrite Hkeep by (clear - Hidx; lia). apply Hoth. clear - Hidx; lia. }
    split. { rewrite Hjl, G2. proj_simpl. cbn [lamports]. clear. lia. }
    split. { rewrite Hjt. subst j1. proj_simpl. unfold wadd64, wadd. rewrite N.add_mod_idemp_l by discriminate. f_equal. clear. lia. }
    split; [|congruence].
    intros n. rewrite Hdep, G3. rewrite (key_eqb_sym node n). destruct (key_eqb n node); [proj_simpl; cbn [lamports]|rewrite lamports_purge_acct]; clear; lia.
Qed.

(* ------------------------------------------------------------------------------------------------------------------ *)
(* non-vacuity                                                                                                         *)
Ltac closed1 := lazymatch goal with
  | |- forall _, _ => fail
  | |- _ => first [reflexivity | (vm_compute; reflexivity) | (vm_compute; discriminate)]
  end.
Ltac closed := repeat split; closed1.

(* two validators owe 300 and 500 lamports; both deposits are funded; the debt bitmap is the byte 0 of the tail *)
Definition ex13_deposit (node : key) (extra : N) : acct :=
  ex_acct (rent LEN_DEPOSIT + extra) LEN_DEPOSIT (DDeposit {| dp_node := node; dp_written_off := 0 |}).
Definition ex13_pay_world : world :=
  put (put (put (put (put world0
    KRdConfig (ex_acct (rent LEN_CONFIG_ALLOC) LEN_CONFIG_ALLOC (DConfig ex_cfg)))
    (KRdDist 5) (ex_acct (rent (LEN_DIST + 1)) (LEN_DIST + 1) (DDist ex_dist5 [0])))
    (KRdDeposit (KUser 11)) (ex13_deposit (KUser 11) 300))
    (KRdDeposit (KUser 12)) (ex13_deposit (KUser 12) 700))
    KRdJournal (ex_acct (rent LEN_CONFIG_ALLOC) LEN_CONFIG_ALLOC (DJournal journal_default)).

Example pay_debt_progress_nonvacuous :
  pay_ready ex13_pay_world 5 (KUser 12) 500 (proof_for PRE_DEBT ex_debts 1) 1 ex_cfg ex_dist5 [0]
            {| dp_node := KUser 12; dp_written_off := 0 |} journal_default /\
  let '(W', ok) := exec_tx ex13_pay_world (rd_tx [KUser 1] (RPayDebt 500 (proof_for PRE_DEBT ex_debts 1)) (sdk_pay_debt 5 (KUser 12))) in
  ok = true /\
  forallb (fun k => acct_eqb (get W' k) (pay_debt_acct ex13_pay_world 5 (KUser 12) 500 1 ex_dist5 [0] journal_default k))
          [KRdConfig; KRdDist 5; KRdDeposit (KUser 11); KRdDeposit (KUser 12); KRdJournal; KUser 1] = true /\
  data (get W' (KRdDist 5)) = DDist (pay_debt_dist ex_dist5 500) [2] /\
  lamports (get W' (KRdDeposit (KUser 12))) = rent LEN_DEPOSIT + 200 /\ lamports (get W' KRdJournal) = rent LEN_CONFIG_ALLOC + 500.
Proof. split; [constructor; closed|]. vm_compute. repeat split. Qed.

(* after the last payment: the counter equals the number of leaves and every leaf bit is set *)
Corollary pay_all_complete f e root pf L W c d tail j :
  pay_phase W e root pf 0 L c d tail j -> d_payments_count d = 0 -> N.of_nat (length L) < two32 ->
  exists W' d' tail',
    run_txs W (pay_txs f e L pf 0) = (W', true) /\
    data (get W' (KRdDist e)) = DDist d' tail' /\
    d_payments_count d' = N.of_nat (length L) /\
    (forall idx, idx < N.of_nat (length L) -> range_bit tail' (d_debt_start d') idx = true) /\
    lamports (get W' KRdJournal) = lamports (get W KRdJournal) + sumN (map snd L).
Proof.
  intros P H0 Hlen.
  destruct (pay_all_ok f e root pf L W 0 c d tail j P) as (W' & d' & tail' & j' & Hrun & Pend & Hd' & Hcnt & _ & _ & Hbits & _ & Hjl & _).
  exists W', d', tail'. split; [exact Hrun|]. split; [exact (pp_dist_data _ _ _ _ _ _ _ _ _ _ Pend)|].
  split; [rewrite Hcnt, H0, N.add_0_l; apply N.mod_small; exact Hlen|].
  split; [|exact Hjl]. intros idx Hidx. rewrite Hd'. proj_simpl. apply Hbits. lia.
Qed.

Definition ex13_leaves : list (key * N) := [(KUser 11, 300); (KUser 12, 500)].
Example pay_all_ok_nonvacuous :
  pay_phase ex13_pay_world 5 (tree_root PRE_DEBT ex_debts) (proof_for PRE_DEBT ex_debts) 0 ex13_leaves ex_cfg ex_dist5 [0] journal_default /\
  let '(W', ok) := run_txs ex13_pay_world (pay_txs 1 5 ex13_leaves (proof_for PRE_DEBT ex_debts) 0) in
  ok = true /\
  data (get W' (KRdDist 5)) = DDist (ex_dist5 <| d_collected_sol := 800 |> <| d_payments_count := 2 |>) [3] /\
  lamports (get W' KRdJournal) = rent LEN_CONFIG_ALLOC + 800 /\
  lamports (get W' (KRdDeposit (KUser 11))) = rent LEN_DEPOSIT /\ lamports (get W' (KRdDeposit (KUser 12))) = rent LEN_DEPOSIT + 200.
Proof.
  split; [|vm_compute; repeat split].
  constructor; try closed.
  - intros idx H. assert (idx = 0 \/ idx = 1) as [->| ->] by (cbn in H; lia); reflexivity.
  - intros [|[|[|n]]] node amt H; cbn in H; try discriminate H; injection H as <- <-; vm_compute; split; reflexivity.
  - intros node amt H. unfold ex13_leaves in H. cbn [In] in H. destruct H as [H|[H|[]]]; injection H as <- <-; eexists; closed.
Qed.
