(* C19 — instruction wire formats are injective, selector-unique and strictly parsed.  Property theorems only.
   Model: Wire.v (encoders arm by arm as the hand-written serialisers, decoders as tag tables in the order of the Rust
   match, selectors / ids / tags from Generated.v).  decode_* is `deserialize_reader`, try_from_slice_* is Borsh
   `try_from_slice`, process_prefix_* is the head of `try_process_instruction` up to the dispatch; it has no account
   parameter, so whatever it answers is decided before any account is read or changed. *)
From DZ Require Import Base Generated Codec Wire Lemmas_C19.

(* ================================================================ revenue distribution (RevenueDistributionInstructionData) *)
(* every instruction value encodes to bytes that decode back to the same value; whatever parses is the unique encoding of what
   came out (no second spelling); hence the encoder is injective *)
Theorem C19_rd_roundtrip_and_canonicity :
  (forall x r, wf_rd x -> decode_rd (encode_rd x ++ r) = Some (x, r)) /\
  (forall bs x r, decode_rd bs = Some (x, r) -> bs = encode_rd x ++ r /\ wf_rd x) /\
  (forall x, wf_rd x -> try_from_slice_rd (encode_rd x) = Some x) /\
  (forall bs x, try_from_slice_rd bs = Some x -> bs = encode_rd x /\ wf_rd x) /\
  (forall x y, wf_rd x -> wf_rd y -> encode_rd x = encode_rd y -> x = y).
Proof. exact (conj rd_decode_encode (conj rd_encode_decode (conj rd_roundtrip (conj rd_canonical rd_encode_inj)))). Qed.
Check C19_rd_roundtrip_and_canonicity :
  (forall x r, wf_rd x -> decode_rd (encode_rd x ++ r) = Some (x, r)) /\
  (forall bs x r, decode_rd bs = Some (x, r) -> bs = encode_rd x ++ r /\ wf_rd x) /\
  (forall x, wf_rd x -> try_from_slice_rd (encode_rd x) = Some x) /\
  (forall bs x, try_from_slice_rd bs = Some x -> bs = encode_rd x /\ wf_rd x) /\
  (forall x y, wf_rd x -> wf_rd y -> encode_rd x = encode_rd y -> x = y).
Print Assumptions C19_rd_roundtrip_and_canonicity.

(* trailing bytes, truncated payloads (no proper prefix of an encoding parses: the encodings form a prefix code), unknown
   selectors and strings shorter than a selector are refused by the parser *)
Theorem C19_rd_strict_parsing :
  (forall x t, wf_rd x -> t <> [] -> try_from_slice_rd (encode_rd x ++ t) = None) /\
  (forall x p s, wf_rd x -> encode_rd x = p ++ s -> s <> [] -> try_from_slice_rd p = None) /\
  (forall sel r, length sel = 8%nat -> ~ In sel selectors_rd -> decode_rd (sel ++ r) = None) /\
  (forall bs, (length bs < 8)%nat -> decode_rd bs = None).
Proof. exact (conj rd_reject_trailing (conj rd_reject_truncated (conj rd_reject_unknown_selector rd_reject_short))). Qed.
Check C19_rd_strict_parsing :
  (forall x t, wf_rd x -> t <> [] -> try_from_slice_rd (encode_rd x ++ t) = None) /\
  (forall x p s, wf_rd x -> encode_rd x = p ++ s -> s <> [] -> try_from_slice_rd p = None) /\
  (forall sel r, length sel = 8%nat -> ~ In sel selectors_rd -> decode_rd (sel ++ r) = None) /\
  (forall bs, (length bs < 8)%nat -> decode_rd bs = None).
Print Assumptions C19_rd_strict_parsing.

(* different instruction kinds never share a selector (a finite fact about the crate's current constants), every encoding
   starts with one, and the table is the crate's *)
Theorem C19_rd_selectors_unique :
  (NoDup selectors_rd) /\
  (forall x, wf_rd x -> In (firstn 8 (encode_rd x)) selectors_rd) /\
  (selectors_rd =
  [ G_RD_SEL_INITIALIZE_PROGRAM; G_RD_SEL_MIGRATE_PROGRAM_ACCOUNTS; G_RD_SEL_SET_ADMIN; G_RD_SEL_CONFIGURE_PROGRAM;
    G_RD_SEL_INITIALIZE_JOURNAL; G_RD_SEL_INITIALIZE_DISTRIBUTION; G_RD_SEL_CONFIGURE_DISTRIBUTION_DEBT;
    G_RD_SEL_FINALIZE_DISTRIBUTION_DEBT; G_RD_SEL_CONFIGURE_DISTRIBUTION_REWARDS; G_RD_SEL_FINALIZE_DISTRIBUTION_REWARDS;
    G_RD_SEL_DISTRIBUTE_REWARDS; G_RD_SEL_INITIALIZE_CONTRIBUTOR_REWARDS; G_RD_SEL_SET_REWARDS_MANAGER;
    G_RD_SEL_CONFIGURE_CONTRIBUTOR_REWARDS; G_RD_SEL_VERIFY_DISTRIBUTION_MERKLE_ROOT;
    G_RD_SEL_INITIALIZE_SOLANA_VALIDATOR_DEPOSIT; G_RD_SEL_PAY_SOLANA_VALIDATOR_DEBT;
    G_RD_SEL_ENABLE_SOLANA_VALIDATOR_DEBT_WRITE_OFF; G_RD_SEL_WRITE_OFF_SOLANA_VALIDATOR_DEBT;
    G_RD_SEL_INITIALIZE_SWAP_DESTINATION; G_RD_SEL_SWEEP_DISTRIBUTION_TOKENS_V1; G_RD_SEL_WITHDRAW_SOL ]).
Proof. exact (conj rd_selectors_nodup (conj rd_encode_selector selectors_rd_are)). Qed.
Check C19_rd_selectors_unique :
  (NoDup selectors_rd) /\
  (forall x, wf_rd x -> In (firstn 8 (encode_rd x)) selectors_rd) /\
  (selectors_rd =
  [ G_RD_SEL_INITIALIZE_PROGRAM; G_RD_SEL_MIGRATE_PROGRAM_ACCOUNTS; G_RD_SEL_SET_ADMIN; G_RD_SEL_CONFIGURE_PROGRAM;
    G_RD_SEL_INITIALIZE_JOURNAL; G_RD_SEL_INITIALIZE_DISTRIBUTION; G_RD_SEL_CONFIGURE_DISTRIBUTION_DEBT;
    G_RD_SEL_FINALIZE_DISTRIBUTION_DEBT; G_RD_SEL_CONFIGURE_DISTRIBUTION_REWARDS; G_RD_SEL_FINALIZE_DISTRIBUTION_REWARDS;
    G_RD_SEL_DISTRIBUTE_REWARDS; G_RD_SEL_INITIALIZE_CONTRIBUTOR_REWARDS; G_RD_SEL_SET_REWARDS_MANAGER;
    G_RD_SEL_CONFIGURE_CONTRIBUTOR_REWARDS; G_RD_SEL_VERIFY_DISTRIBUTION_MERKLE_ROOT;
    G_RD_SEL_INITIALIZE_SOLANA_VALIDATOR_DEPOSIT; G_RD_SEL_PAY_SOLANA_VALIDATOR_DEBT;
    G_RD_SEL_ENABLE_SOLANA_VALIDATOR_DEBT_WRITE_OFF; G_RD_SEL_WRITE_OFF_SOLANA_VALIDATOR_DEBT;
    G_RD_SEL_INITIALIZE_SWAP_DESTINATION; G_RD_SEL_SWEEP_DISTRIBUTION_TOKENS_V1; G_RD_SEL_WITHDRAW_SOL ]).
Print Assumptions C19_rd_selectors_unique.

(* the head of try_process_instruction: another program's id -> IncorrectProgramId whatever the data; data that does not
   parse strictly -> InvalidInstructionData; a handler is reached only with the canonical encoding of a well-formed instruction *)
Theorem C19_rd_dispatch_strict :
  (forall pid data, pid <> G_RD_ID -> process_prefix_rd pid data = Err EIncorrectProgramId) /\
  (forall data, try_from_slice_rd data = None -> process_prefix_rd G_RD_ID data = Err EInvalidInstructionData) /\
  (forall pid data ix, process_prefix_rd pid data = Ok ix -> pid = G_RD_ID /\ data = encode_rd ix /\ wf_rd ix) /\
  (forall x, wf_rd x -> process_prefix_rd G_RD_ID (encode_rd x) = Ok x) /\
  (forall x t, wf_rd x -> t <> [] -> process_prefix_rd G_RD_ID (encode_rd x ++ t) = Err EInvalidInstructionData) /\
  (forall x p s, wf_rd x -> encode_rd x = p ++ s -> s <> [] -> process_prefix_rd G_RD_ID p = Err EInvalidInstructionData) /\
  (forall sel r, length sel = 8%nat -> ~ In sel selectors_rd -> process_prefix_rd G_RD_ID (sel ++ r) = Err EInvalidInstructionData).
Proof. exact (conj rd_wrong_program_id (conj rd_invalid_data (conj rd_dispatch_exact (conj rd_dispatch_valid (conj rd_trailing_refused_by_program (conj rd_truncated_refused_by_program rd_unknown_selector_refused_by_program)))))). Qed.
Check C19_rd_dispatch_strict :
  (forall pid data, pid <> G_RD_ID -> process_prefix_rd pid data = Err EIncorrectProgramId) /\
  (forall data, try_from_slice_rd data = None -> process_prefix_rd G_RD_ID data = Err EInvalidInstructionData) /\
  (forall pid data ix, process_prefix_rd pid data = Ok ix -> pid = G_RD_ID /\ data = encode_rd ix /\ wf_rd ix) /\
  (forall x, wf_rd x -> process_prefix_rd G_RD_ID (encode_rd x) = Ok x) /\
  (forall x t, wf_rd x -> t <> [] -> process_prefix_rd G_RD_ID (encode_rd x ++ t) = Err EInvalidInstructionData) /\
  (forall x p s, wf_rd x -> encode_rd x = p ++ s -> s <> [] -> process_prefix_rd G_RD_ID p = Err EInvalidInstructionData) /\
  (forall sel r, length sel = 8%nat -> ~ In sel selectors_rd -> process_prefix_rd G_RD_ID (sel ++ r) = Err EInvalidInstructionData).
Print Assumptions C19_rd_dispatch_strict.


(* ================================================================ passport (PassportInstructionData) *)
(* every instruction value encodes to bytes that decode back to the same value; whatever parses is the unique encoding of what
   came out (no second spelling); hence the encoder is injective *)
Theorem C19_pp_roundtrip_and_canonicity :
  (forall x r, wf_pp x -> decode_pp (encode_pp x ++ r) = Some (x, r)) /\
  (forall bs x r, decode_pp bs = Some (x, r) -> bs = encode_pp x ++ r /\ wf_pp x) /\
  (forall x, wf_pp x -> try_from_slice_pp (encode_pp x) = Some x) /\
  (forall bs x, try_from_slice_pp bs = Some x -> bs = encode_pp x /\ wf_pp x) /\
  (forall x y, wf_pp x -> wf_pp y -> encode_pp x = encode_pp y -> x = y).
Proof. exact (conj pp_decode_encode (conj pp_encode_decode (conj pp_roundtrip (conj pp_canonical pp_encode_inj)))). Qed.
Check C19_pp_roundtrip_and_canonicity :
  (forall x r, wf_pp x -> decode_pp (encode_pp x ++ r) = Some (x, r)) /\
  (forall bs x r, decode_pp bs = Some (x, r) -> bs = encode_pp x ++ r /\ wf_pp x) /\
  (forall x, wf_pp x -> try_from_slice_pp (encode_pp x) = Some x) /\
  (forall bs x, try_from_slice_pp bs = Some x -> bs = encode_pp x /\ wf_pp x) /\
  (forall x y, wf_pp x -> wf_pp y -> encode_pp x = encode_pp y -> x = y).
Print Assumptions C19_pp_roundtrip_and_canonicity.

(* trailing bytes, truncated payloads (no proper prefix of an encoding parses: the encodings form a prefix code), unknown
   selectors and strings shorter than a selector are refused by the parser *)
Theorem C19_pp_strict_parsing :
  (forall x t, wf_pp x -> t <> [] -> try_from_slice_pp (encode_pp x ++ t) = None) /\
  (forall x p s, wf_pp x -> encode_pp x = p ++ s -> s <> [] -> try_from_slice_pp p = None) /\
  (forall sel r, length sel = 8%nat -> ~ In sel selectors_pp -> decode_pp (sel ++ r) = None) /\
  (forall bs, (length bs < 8)%nat -> decode_pp bs = None).
Proof. exact (conj pp_reject_trailing (conj pp_reject_truncated (conj pp_reject_unknown_selector pp_reject_short))). Qed.
Check C19_pp_strict_parsing :
  (forall x t, wf_pp x -> t <> [] -> try_from_slice_pp (encode_pp x ++ t) = None) /\
  (forall x p s, wf_pp x -> encode_pp x = p ++ s -> s <> [] -> try_from_slice_pp p = None) /\
  (forall sel r, length sel = 8%nat -> ~ In sel selectors_pp -> decode_pp (sel ++ r) = None) /\
  (forall bs, (length bs < 8)%nat -> decode_pp bs = None).
Print Assumptions C19_pp_strict_parsing.

(* different instruction kinds never share a selector (a finite fact about the crate's current constants), every encoding
   starts with one, and the table is the crate's *)
Theorem C19_pp_selectors_unique :
  (NoDup selectors_pp) /\
  (forall x, wf_pp x -> In (firstn 8 (encode_pp x)) selectors_pp) /\
  (selectors_pp =
  [ G_PP_SEL_INITIALIZE_PROGRAM; G_PP_SEL_SET_ADMIN; G_PP_SEL_CONFIGURE_PROGRAM; G_PP_SEL_REQUEST_ACCESS; G_PP_SEL_GRANT_ACCESS; G_PP_SEL_DENY_ACCESS ]).
Proof. exact (conj pp_selectors_nodup (conj pp_encode_selector selectors_pp_are)). Qed.
Check C19_pp_selectors_unique :
  (NoDup selectors_pp) /\
  (forall x, wf_pp x -> In (firstn 8 (encode_pp x)) selectors_pp) /\
  (selectors_pp =
  [ G_PP_SEL_INITIALIZE_PROGRAM; G_PP_SEL_SET_ADMIN; G_PP_SEL_CONFIGURE_PROGRAM; G_PP_SEL_REQUEST_ACCESS; G_PP_SEL_GRANT_ACCESS; G_PP_SEL_DENY_ACCESS ]).
Print Assumptions C19_pp_selectors_unique.

(* the head of try_process_instruction: another program's id -> IncorrectProgramId whatever the data; data that does not
   parse strictly -> InvalidInstructionData; a handler is reached only with the canonical encoding of a well-formed instruction *)
Theorem C19_pp_dispatch_strict :
  (forall pid data, pid <> G_PP_ID -> process_prefix_pp pid data = Err EIncorrectProgramId) /\
  (forall data, try_from_slice_pp data = None -> process_prefix_pp G_PP_ID data = Err EInvalidInstructionData) /\
  (forall pid data ix, process_prefix_pp pid data = Ok ix -> pid = G_PP_ID /\ data = encode_pp ix /\ wf_pp ix) /\
  (forall x, wf_pp x -> process_prefix_pp G_PP_ID (encode_pp x) = Ok x) /\
  (forall x t, wf_pp x -> t <> [] -> process_prefix_pp G_PP_ID (encode_pp x ++ t) = Err EInvalidInstructionData) /\
  (forall x p s, wf_pp x -> encode_pp x = p ++ s -> s <> [] -> process_prefix_pp G_PP_ID p = Err EInvalidInstructionData) /\
  (forall sel r, length sel = 8%nat -> ~ In sel selectors_pp -> process_prefix_pp G_PP_ID (sel ++ r) = Err EInvalidInstructionData).
Proof. exact (conj pp_wrong_program_id (conj pp_invalid_data (conj pp_dispatch_exact (conj pp_dispatch_valid (conj pp_trailing_refused_by_program (conj pp_truncated_refused_by_program pp_unknown_selector_refused_by_program)))))). Qed.
Check C19_pp_dispatch_strict :
  (forall pid data, pid <> G_PP_ID -> process_prefix_pp pid data = Err EIncorrectProgramId) /\
  (forall data, try_from_slice_pp data = None -> process_prefix_pp G_PP_ID data = Err EInvalidInstructionData) /\
  (forall pid data ix, process_prefix_pp pid data = Ok ix -> pid = G_PP_ID /\ data = encode_pp ix /\ wf_pp ix) /\
  (forall x, wf_pp x -> process_prefix_pp G_PP_ID (encode_pp x) = Ok x) /\
  (forall x t, wf_pp x -> t <> [] -> process_prefix_pp G_PP_ID (encode_pp x ++ t) = Err EInvalidInstructionData) /\
  (forall x p s, wf_pp x -> encode_pp x = p ++ s -> s <> [] -> process_prefix_pp G_PP_ID p = Err EInvalidInstructionData) /\
  (forall sel r, length sel = 8%nat -> ~ In sel selectors_pp -> process_prefix_pp G_PP_ID (sel ++ r) = Err EInvalidInstructionData).
Print Assumptions C19_pp_dispatch_strict.


(* ================================================================ mock swap (MockSwapSol2zInstructionData) *)
(* every instruction value encodes to bytes that decode back to the same value; whatever parses is the unique encoding of what
   came out (no second spelling); hence the encoder is injective *)
Theorem C19_sw_roundtrip_and_canonicity :
  (forall x r, wf_sw x -> decode_sw (encode_sw x ++ r) = Some (x, r)) /\
  (forall bs x r, decode_sw bs = Some (x, r) -> bs = encode_sw x ++ r /\ wf_sw x) /\
  (forall x, wf_sw x -> try_from_slice_sw (encode_sw x) = Some x) /\
  (forall bs x, try_from_slice_sw bs = Some x -> bs = encode_sw x /\ wf_sw x) /\
  (forall x y, wf_sw x -> wf_sw y -> encode_sw x = encode_sw y -> x = y).
Proof. exact (conj sw_decode_encode (conj sw_encode_decode (conj sw_roundtrip (conj sw_canonical sw_encode_inj)))). Qed.
Check C19_sw_roundtrip_and_canonicity :
  (forall x r, wf_sw x -> decode_sw (encode_sw x ++ r) = Some (x, r)) /\
  (forall bs x r, decode_sw bs = Some (x, r) -> bs = encode_sw x ++ r /\ wf_sw x) /\
  (forall x, wf_sw x -> try_from_slice_sw (encode_sw x) = Some x) /\
  (forall bs x, try_from_slice_sw bs = Some x -> bs = encode_sw x /\ wf_sw x) /\
  (forall x y, wf_sw x -> wf_sw y -> encode_sw x = encode_sw y -> x = y).
Print Assumptions C19_sw_roundtrip_and_canonicity.

(* trailing bytes, truncated payloads (no proper prefix of an encoding parses: the encodings form a prefix code), unknown
   selectors and strings shorter than a selector are refused by the parser *)
Theorem C19_sw_strict_parsing :
  (forall x t, wf_sw x -> t <> [] -> try_from_slice_sw (encode_sw x ++ t) = None) /\
  (forall x p s, wf_sw x -> encode_sw x = p ++ s -> s <> [] -> try_from_slice_sw p = None) /\
  (forall sel r, length sel = 8%nat -> ~ In sel selectors_sw -> decode_sw (sel ++ r) = None) /\
  (forall bs, (length bs < 8)%nat -> decode_sw bs = None).
Proof. exact (conj sw_reject_trailing (conj sw_reject_truncated (conj sw_reject_unknown_selector sw_reject_short))). Qed.
Check C19_sw_strict_parsing :
  (forall x t, wf_sw x -> t <> [] -> try_from_slice_sw (encode_sw x ++ t) = None) /\
  (forall x p s, wf_sw x -> encode_sw x = p ++ s -> s <> [] -> try_from_slice_sw p = None) /\
  (forall sel r, length sel = 8%nat -> ~ In sel selectors_sw -> decode_sw (sel ++ r) = None) /\
  (forall bs, (length bs < 8)%nat -> decode_sw bs = None).
Print Assumptions C19_sw_strict_parsing.

(* different instruction kinds never share a selector (a finite fact about the crate's current constants), every encoding
   starts with one, and the table is the crate's *)
Theorem C19_sw_selectors_unique :
  (NoDup selectors_sw) /\
  (forall x, wf_sw x -> In (firstn 8 (encode_sw x)) selectors_sw) /\
  (selectors_sw = [ G_SW_SEL_INITIALIZE_FILLS_TRACKER; G_SW_SEL_BUY_SOL; G_SW_SEL_DEQUEUE_FILLS ]).
Proof. exact (conj sw_selectors_nodup (conj sw_encode_selector selectors_sw_are)). Qed.
Check C19_sw_selectors_unique :
  (NoDup selectors_sw) /\
  (forall x, wf_sw x -> In (firstn 8 (encode_sw x)) selectors_sw) /\
  (selectors_sw = [ G_SW_SEL_INITIALIZE_FILLS_TRACKER; G_SW_SEL_BUY_SOL; G_SW_SEL_DEQUEUE_FILLS ]).
Print Assumptions C19_sw_selectors_unique.

(* the head of try_process_instruction: another program's id -> IncorrectProgramId whatever the data; data that does not
   parse strictly -> InvalidInstructionData; a handler is reached only with the canonical encoding of a well-formed instruction *)
Theorem C19_sw_dispatch_strict :
  (forall pid data, pid <> G_SW_ID -> process_prefix_sw pid data = Err EIncorrectProgramId) /\
  (forall data, try_from_slice_sw data = None -> process_prefix_sw G_SW_ID data = Err EInvalidInstructionData) /\
  (forall pid data ix, process_prefix_sw pid data = Ok ix -> pid = G_SW_ID /\ data = encode_sw ix /\ wf_sw ix) /\
  (forall x, wf_sw x -> process_prefix_sw G_SW_ID (encode_sw x) = Ok x) /\
  (forall x t, wf_sw x -> t <> [] -> process_prefix_sw G_SW_ID (encode_sw x ++ t) = Err EInvalidInstructionData) /\
  (forall x p s, wf_sw x -> encode_sw x = p ++ s -> s <> [] -> process_prefix_sw G_SW_ID p = Err EInvalidInstructionData) /\
  (forall sel r, length sel = 8%nat -> ~ In sel selectors_sw -> process_prefix_sw G_SW_ID (sel ++ r) = Err EInvalidInstructionData).
Proof. exact (conj sw_wrong_program_id (conj sw_invalid_data (conj sw_dispatch_exact (conj sw_dispatch_valid (conj sw_trailing_refused_by_program (conj sw_truncated_refused_by_program sw_unknown_selector_refused_by_program)))))). Qed.
Check C19_sw_dispatch_strict :
  (forall pid data, pid <> G_SW_ID -> process_prefix_sw pid data = Err EIncorrectProgramId) /\
  (forall data, try_from_slice_sw data = None -> process_prefix_sw G_SW_ID data = Err EInvalidInstructionData) /\
  (forall pid data ix, process_prefix_sw pid data = Ok ix -> pid = G_SW_ID /\ data = encode_sw ix /\ wf_sw ix) /\
  (forall x, wf_sw x -> process_prefix_sw G_SW_ID (encode_sw x) = Ok x) /\
  (forall x t, wf_sw x -> t <> [] -> process_prefix_sw G_SW_ID (encode_sw x ++ t) = Err EInvalidInstructionData) /\
  (forall x p s, wf_sw x -> encode_sw x = p ++ s -> s <> [] -> process_prefix_sw G_SW_ID p = Err EInvalidInstructionData) /\
  (forall sel r, length sel = 8%nat -> ~ In sel selectors_sw -> process_prefix_sw G_SW_ID (sel ++ r) = Err EInvalidInstructionData).
Print Assumptions C19_sw_dispatch_strict.

(* ================================================================ nested configuration payloads round-trip likewise *)
Theorem C19_rd_program_configuration_roundtrip :
  (forall c r, wf_rd_pcfg c -> dec c_rd_pcfg (enc_rd_pcfg c ++ r) = Some (c, r)) /\
  (forall bs c r, dec c_rd_pcfg bs = Some (c, r) -> bs = enc_rd_pcfg c ++ r /\ wf_rd_pcfg c).
Proof. exact (conj rd_pcfg_decode_encode rd_pcfg_encode_decode). Qed.
Check C19_rd_program_configuration_roundtrip :
  (forall c r, wf_rd_pcfg c -> dec c_rd_pcfg (enc_rd_pcfg c ++ r) = Some (c, r)) /\
  (forall bs c r, dec c_rd_pcfg bs = Some (c, r) -> bs = enc_rd_pcfg c ++ r /\ wf_rd_pcfg c).
Print Assumptions C19_rd_program_configuration_roundtrip.

Theorem C19_contributor_rewards_configuration_roundtrip :
  (forall c r, wf_cr_cfg c -> dec c_cr_cfg (enc_cr_cfg c ++ r) = Some (c, r)) /\
  (forall bs c r, dec c_cr_cfg bs = Some (c, r) -> bs = enc_cr_cfg c ++ r /\ wf_cr_cfg c).
Proof. exact (conj cr_cfg_decode_encode cr_cfg_encode_decode). Qed.
Check C19_contributor_rewards_configuration_roundtrip :
  (forall c r, wf_cr_cfg c -> dec c_cr_cfg (enc_cr_cfg c ++ r) = Some (c, r)) /\
  (forall bs c r, dec c_cr_cfg bs = Some (c, r) -> bs = enc_cr_cfg c ++ r /\ wf_cr_cfg c).
Print Assumptions C19_contributor_rewards_configuration_roundtrip.

Theorem C19_merkle_root_kind_roundtrip :
  (forall k r, wf_root_kind k -> dec c_root_kind (enc_root_kind k ++ r) = Some (k, r)) /\
  (forall bs k r, dec c_root_kind bs = Some (k, r) -> bs = enc_root_kind k ++ r /\ wf_root_kind k).
Proof. exact (conj root_kind_decode_encode root_kind_encode_decode). Qed.
Check C19_merkle_root_kind_roundtrip :
  (forall k r, wf_root_kind k -> dec c_root_kind (enc_root_kind k ++ r) = Some (k, r)) /\
  (forall bs k r, dec c_root_kind bs = Some (k, r) -> bs = enc_root_kind k ++ r /\ wf_root_kind k).
Print Assumptions C19_merkle_root_kind_roundtrip.

Theorem C19_pp_program_configuration_roundtrip :
  (forall c r, wf_pp_pcfg c -> dec c_pp_pcfg (enc_pp_pcfg c ++ r) = Some (c, r)) /\
  (forall bs c r, dec c_pp_pcfg bs = Some (c, r) -> bs = enc_pp_pcfg c ++ r /\ wf_pp_pcfg c).
Proof. exact (conj pp_pcfg_decode_encode pp_pcfg_encode_decode). Qed.
Check C19_pp_program_configuration_roundtrip :
  (forall c r, wf_pp_pcfg c -> dec c_pp_pcfg (enc_pp_pcfg c ++ r) = Some (c, r)) /\
  (forall bs c r, dec c_pp_pcfg bs = Some (c, r) -> bs = enc_pp_pcfg c ++ r /\ wf_pp_pcfg c).
Print Assumptions C19_pp_program_configuration_roundtrip.

Theorem C19_access_mode_roundtrip :
  (forall m r, wf_access_mode m -> dec c_access_mode (enc_access_mode m ++ r) = Some (m, r)) /\
  (forall bs m r, dec c_access_mode bs = Some (m, r) -> bs = enc_access_mode m ++ r /\ wf_access_mode m).
Proof. exact (conj access_mode_decode_encode access_mode_encode_decode). Qed.
Check C19_access_mode_roundtrip :
  (forall m r, wf_access_mode m -> dec c_access_mode (enc_access_mode m ++ r) = Some (m, r)) /\
  (forall bs m r, dec c_access_mode bs = Some (m, r) -> bs = enc_access_mode m ++ r /\ wf_access_mode m).
Print Assumptions C19_access_mode_roundtrip.

(* Merkle proofs of any depth: the sibling count is a u32 (the harness exercises depths 0..32) *)
Theorem C19_merkle_proof_roundtrip :
  (forall p r, wf c_proof p -> dec c_proof (enc c_proof p ++ r) = Some (p, r)) /\
  (forall bs p r, dec c_proof bs = Some (p, r) -> bs = enc c_proof p ++ r /\ wf c_proof p) /\
  (forall p, wf c_proof p <->
     N.of_nat (length (siblings p)) < 4294967296 /\
     Forall (fun s => length (sib_hash s) = 32%nat /\ is_bytes (sib_hash s)) (siblings p) /\
     match leaf_index p with Some i => i < 4294967296 | None => True end).
Proof. exact (conj proof_decode_encode (conj proof_encode_decode proof_wf_iff)). Qed.
Check C19_merkle_proof_roundtrip :
  (forall p r, wf c_proof p -> dec c_proof (enc c_proof p ++ r) = Some (p, r)) /\
  (forall bs p r, dec c_proof bs = Some (p, r) -> bs = enc c_proof p ++ r /\ wf c_proof p) /\
  (forall p, wf c_proof p <->
     N.of_nat (length (siblings p)) < 4294967296 /\
     Forall (fun s => length (sib_hash s) = 32%nat /\ is_bytes (sib_hash s)) (siblings p) /\
     match leaf_index p with Some i => i < 4294967296 | None => True end).
Print Assumptions C19_merkle_proof_roundtrip.

(* ================================================================ the widths of the model are the crates' current ones *)
Theorem C19_widths_are_crate_constants :
  N.of_nat SEL_LEN = G_DISCRIMINATOR_LEN /\
  (forall k, wf c_key k -> N.of_nat (length (enc c_key k)) = G_PUBKEY_LEN) /\
  (forall h, wf c_hash h -> N.of_nat (length (enc c_hash h)) = G_HASH_LEN) /\
  (forall a, wf c_att a -> N.of_nat (length (enc c_att a)) = G_ATTESTATION_LEN) /\
  (forall s, wf c_share s -> N.of_nat (length (enc c_share s)) = G_REWARD_SHARE_LEN) /\
  (forall d, wf c_debt d -> N.of_nat (length (enc c_debt d)) = G_SOLANA_VALIDATOR_DEBT_LEN).
Proof. exact widths_are_crate_constants. Qed.
Check C19_widths_are_crate_constants :
  N.of_nat SEL_LEN = G_DISCRIMINATOR_LEN /\
  (forall k, wf c_key k -> N.of_nat (length (enc c_key k)) = G_PUBKEY_LEN) /\
  (forall h, wf c_hash h -> N.of_nat (length (enc c_hash h)) = G_HASH_LEN) /\
  (forall a, wf c_att a -> N.of_nat (length (enc c_att a)) = G_ATTESTATION_LEN) /\
  (forall s, wf c_share s -> N.of_nat (length (enc c_share s)) = G_REWARD_SHARE_LEN) /\
  (forall d, wf c_debt d -> N.of_nat (length (enc c_debt d)) = G_SOLANA_VALIDATOR_DEBT_LEN).
Print Assumptions C19_widths_are_crate_constants.

(* ================================================================ the executable checks run on the harness's cases *)
(* the value comparison used by corr_C19 / mon_C19 is exact *)
Theorem C19_value_comparison_exact : forall a b, ixv_eqb a b = true <-> a = b.
Proof. exact ixv_eqb_eq. Qed.
Check C19_value_comparison_exact : forall a b, ixv_eqb a b = true <-> a = b.
Print Assumptions C19_value_comparison_exact.
(* the monitor is an executable reading of the theorems: it accepts every case the model itself would produce, for every
   well-formed value, every foreign or own program id and every list of edits (truncate, append, flip, unrelated string) *)
Theorem C19_monitor_accepts_model : forall v pid es, wf_v v -> mon_C19 (model_case v pid es) = None.
Proof. exact mon_accepts_model. Qed.
Check C19_monitor_accepts_model : forall v pid es, wf_v v -> mon_C19 (model_case v pid es) = None.
Print Assumptions C19_monitor_accepts_model.
Theorem C19_correspondence_accepts_model : forall v pid es, corr_C19 (model_case v pid es) = None.
Proof. exact corr_accepts_model. Qed.
Check C19_correspondence_accepts_model : forall v pid es, corr_C19 (model_case v pid es) = None.
Print Assumptions C19_correspondence_accepts_model.

(* ================================================================ the hypotheses above are satisfiable *)
Example C19_hypotheses_nonvacuous :
  wf_rd (RdPaySolanaValidatorDebt 5 proof1) /\ wf_rd_pcfg (RpCommunityBurnRateParameters 1000000000 1 2 (Some 3)) /\
  wf_cr_cfg (CrRecipients [(key0, 10000)]) /\
  wf_pp (PpRequestAccess (AmSolanaValidatorWithBackupIds att0 [key0])) /\ wf_sw (SwBuySol 1 2) /\
  length [0; 0; 0; 0; 0; 0; 0; 0] = 8%nat /\
  ~ In [0; 0; 0; 0; 0; 0; 0; 0] selectors_rd /\ ~ In [0; 0; 0; 0; 0; 0; 0; 0] selectors_pp /\ ~ In [0; 0; 0; 0; 0; 0; 0; 0] selectors_sw.
Proof. exact (conj rd_example_wf (conj rd_example_cfg_wf (conj cr_example_wf (conj pp_example_wf (conj sw_example_wf unknown_selector_example))))). Qed.
Print Assumptions C19_hypotheses_nonvacuous.
