(* svm-hash 0.2 indexed Merkle trees over a symbolic (free) hash.  Executable definitions only.
   Byte layouts (justifying distinct constructors: pairwise different preimage lengths / domain bytes):
     HData pre d      = H(prefix ‖ pod bytes of the leaf)                     (prefix ≥ 12 bytes + 40/44 bytes)
     HLeaf (Some i) x = H(00 ‖ i_le32 ‖ FF ‖ x)   HLeaf None x = H(00 ‖ x)   (38 / 33 bytes)
     HNode l r        = H(01 ‖ l ‖ r)                                         (65 bytes)
     HDummy i l       = H(i_le32 ‖ l)                                         (36 bytes; dummy right leaf)
     HOpaque n        = any 32 bytes not known to be one of the above; HOpaque 0 = Hash::default() *)
From DZ Require Import Base Keys.

Inductive leafdata :=
| LDebt (node : key) (amount : N)                       (* SolanaValidatorDebt { node_id, amount } *)
| LReward (contributor : key) (unit_share packed : N).   (* RewardShare { contributor_key, unit_share, remaining_bytes } *)
Definition PRE_DEBT : N := 0.     (* b"solana_validator_debt" *)
Definition PRE_REWARD : N := 1.   (* b"reward_share" *)

Inductive hash :=
| HOpaque (n : N)
| HData (pre : N) (d : leafdata)
| HLeaf (idx : option N) (inner : hash)
| HNode (l r : hash)
| HDummy (idx : N) (left : hash).
Definition null_hash : hash := HOpaque 0.

Definition leafdata_eqb (a b : leafdata) : bool :=
  match a, b with
  | LDebt n a, LDebt n' a' => key_eqb n n' && N.eqb a a'
  | LReward c u p, LReward c' u' p' => key_eqb c c' && N.eqb u u' && N.eqb p p'
  | _, _ => false end.
Definition optN_eqb (a b : option N) : bool :=
  match a, b with Some x, Some y => N.eqb x y | None, None => true | _, _ => false end.
Fixpoint hash_eqb (a b : hash) : bool :=
  match a, b with
  | HOpaque x, HOpaque y => N.eqb x y
  | HData p d, HData p' d' => N.eqb p p' && leafdata_eqb d d'
  | HLeaf i x, HLeaf i' x' => optN_eqb i i' && hash_eqb x x'
  | HNode l r, HNode l' r' => hash_eqb l l' && hash_eqb r r'
  | HDummy i l, HDummy i' l' => N.eqb i i' && hash_eqb l l'
  | _, _ => false end.

Inductive side := SLeft | SRight.
(* MerkleProof { siblings, leaf_index } *)
Record proof := { siblings : list (hash * side); leaf_index : option N }.

Definition fold_sibs (p : list (hash * side)) (h : hash) : hash :=
  fold_left (fun acc '(s, sd) => match sd with SLeft => HNode s acc | SRight => HNode acc s end) p h.
(* MerkleProof::root_from_pod_leaf(leaf, Some(prefix)) *)
Definition root_from_leaf (p : proof) (pre : N) (d : leafdata) : hash :=
  fold_sibs (siblings p) (HLeaf (leaf_index p) (HData pre d)).

(* root_from_leaf_hashes: one round pairs nodes up; an odd tail gets dummy_right_leaf(right_index, left) *)
Fixpoint level_up_from (pos : N) (l : list hash) : list hash :=
  match l with
  | [] => []
  | [x] => [HNode x (HDummy (pos + 1) x)]
  | x :: y :: tl => HNode x y :: level_up_from (pos + 2) tl
  end.
Definition level_up l := level_up_from 0 l.
Fixpoint root_fuel (fuel : nat) (l : list hash) : option hash :=
  match l with
  | [] => None
  | [x] => Some x
  | _ => match fuel with O => None | S f => root_fuel f (level_up l) end
  end.
Definition root_of (l : list hash) : option hash := root_fuel (length l) l.

Fixpoint indexed_from (pre : N) (i : N) (L : list leafdata) : list hash :=
  match L with [] => [] | d :: tl => HLeaf (Some i) (HData pre d) :: indexed_from pre (i + 1) tl end.
Definition indexed_leaves pre L := indexed_from pre 0 L.
(* merkle_root_from_indexed_pod_leaves; an empty tree has no root: operators then post the null hash *)
Definition tree_root (pre : N) (L : list leafdata) : hash :=
  match root_of (indexed_leaves pre L) with Some r => r | None => null_hash end.

(* MerkleProof::from_indexed_* — the prover, mirrored so that the harness and the model name honest proofs the same way *)
Fixpoint sib_at (pos : N) (l : list hash) (idx : N) : option (hash * side) :=
  match l with
  | [] => None
  | [x] => if N.eqb idx pos then Some (HDummy (pos + 1) x, SRight) else None
  | x :: y :: tl => if N.eqb idx pos then Some (y, SRight)
                    else if N.eqb idx (pos + 1) then Some (x, SLeft)
                    else sib_at (pos + 2) tl idx
  end.
Fixpoint sibs_fuel (fuel : nat) (l : list hash) (idx : N) : list (hash * side) :=
  match l with
  | [] | [_] => []
  | _ => match fuel with
         | O => []
         | S f => match sib_at 0 l idx with
                  | Some s => s :: sibs_fuel f (level_up l) (idx / 2)
                  | None => []
                  end
         end
  end.
Definition proof_for (pre : N) (L : list leafdata) (idx : N) : proof :=
  {| siblings := sibs_fuel (length L) (indexed_leaves pre L) idx; leaf_index := Some idx |}.

(* proof edits used by the scenario generators (forged proofs) *)
Definition pf_set_index (i : option N) (p : proof) : proof := {| siblings := siblings p; leaf_index := i |}.
Definition pf_drop_last (p : proof) : proof := {| siblings := removelast (siblings p); leaf_index := leaf_index p |}.
Definition pf_push (s : hash * side) (p : proof) : proof := {| siblings := siblings p ++ [s]; leaf_index := leaf_index p |}.
