(* Bookkeeping invariants of a distribution account (properties C01 / C02), part 1 of Lemmas_Ledger*.
   Part 1 (this file): bit counting; the "ledger view" of a distribution (flags, the three bitmap windows, the three
   counters); the well-formedness predicate wf_lv; the relation lv_step that over-approximates every update any processor
   makes to a distribution account; lv_step keeps wf_lv and is monotone (lv_le: windows fixed once their flag is set, bits
   never cleared); and a GENERIC preservation theorem (Section Generic): any per-account predicate A that is closed under
   lv_step / fresh initialisation / writes to non-distribution accounts is an invariant of every instruction of every
   modelled program (22 RD + 6 passport + 3 mock swap processors, top-level System / Token instructions, rogue CPI
   wrappers), every instruction list of a transaction, and every non-transaction scenario operation.
   Part 2 (Lemmas_Ledger2.v): the two instances (wf_dist over arbitrary histories; bits_monotone), settled-at-most-once,
   paid / written-off counting, examples.  Index at the end of Lemmas_Ledger2.v (and a short one at the end of this file). *)
From DZ Require Import Base Keys Merkle BurnRate Shares Swap_Ring State World SwapDeq RD Passport Swap Exec
  Lemmas_Merkle Lemmas_RdSpecs Lemmas_RdGuards Lemmas_Canon.

(* ------------------------------------------------------------------------------------------------------------------ *)
(* 1. counting bits                                                                                                   *)

Fixpoint count_bits (f : N -> bool) (n : nat) : N :=
  match n with O => 0 | S m => count_bits f m + (if f (N.of_nat m) then 1 else 0) end.

Lemma count_bits_ext f g n : (forall j, j < N.of_nat n -> f j = g j) -> count_bits f n = count_bits g n.
Proof.
  induction n as [|m IH]; intros H; cbn [count_bits]; [reflexivity|].
  rewrite IH by (intros j Hj; apply H; lia). rewrite (H (N.of_nat m)) by lia. reflexivity.
Qed.
Lemma count_bits_le f n : count_bits f n <= N.of_nat n.
Proof. induction n as [|m IH]; cbn [count_bits]; [lia|]. destruct (f (N.of_nat m)); lia. Qed.
Lemma count_bits_false f n : (forall j, j < N.of_nat n -> f j = false) -> count_bits f n = 0.
Proof.
  induction n as [|m IH]; intros H; cbn [count_bits]; [reflexivity|].
  rewrite IH by (intros j Hj; apply H; lia). rewrite (H (N.of_nat m)) by lia. reflexivity.
Qed.
(* setting one clear bit adds one *)
Lemma count_bits_set f g n i : i < N.of_nat n -> f i = false -> g i = true ->
  (forall j, j < N.of_nat n -> j <> i -> g j = f j) -> count_bits g n = count_bits f n + 1.
Proof.
  induction n as [|m IH]; intros Hi Hf Hg H; [lia|]. cbn [count_bits].
  destruct (N.eq_dec i (N.of_nat m)) as [->|Hne].
  - rewrite (count_bits_ext g f m) by (intros j Hj; apply H; lia). rewrite Hf, Hg. lia.
  - rewrite IH by (try lia; try assumption; intros j Hj Hji; apply H; lia).
    rewrite (H (N.of_nat m)) by lia. lia.
Qed.
Lemma count_bits_split f g n :
  count_bits f n = count_bits (fun j => f j && g j) n + count_bits (fun j => f j && negb (g j)) n.
Proof. induction n as [|m IH]; cbn [count_bits]; [reflexivity|]. rewrite IH. destruct (f (N.of_nat m)), (g (N.of_nat m)); cbn; lia. Qed.
Lemma count_bits_zero_all f n : count_bits f n = 0 -> forall j, j < N.of_nat n -> f j = false.
Proof.
  induction n as [|m IH]; intros H j Hj; [lia|]. cbn [count_bits] in H.
  destruct (N.eq_dec j (N.of_nat m)) as [->|Hne].
  - destruct (f (N.of_nat m)); [lia|reflexivity].
  - apply IH; [|lia]. destruct (f (N.of_nat m)); lia.
Qed.

(* number of set bits among ALL 8 * (e - s) bit positions of the byte window [s, e) of the remaining data *)
Definition popcount (t : list N) (s e : N) : N := count_bits (range_bit t s) (N.to_nat (8 * (e - s))).

Lemma popcount_le t s e : popcount t s e <= 8 * (e - s).
Proof. unfold popcount. pose proof (count_bits_le (range_bit t s) (N.to_nat (8 * (e - s)))). lia. Qed.
Lemma popcount_ext t t' s e :
  (forall j, j / 8 < e - s -> range_bit t' s j = range_bit t s j) -> popcount t' s e = popcount t s e.
Proof. intros H. unfold popcount. apply count_bits_ext. intros j Hj. apply H. lia. Qed.
Lemma popcount_empty t s e : e <= s -> popcount t s e = 0.
Proof. intros H. unfold popcount. replace (8 * (e - s)) with 0 by lia. reflexivity. Qed.
Lemma popcount_zero_all t s e : popcount t s e = 0 -> forall j, j / 8 < e - s -> range_bit t s j = false.
Proof. unfold popcount. intros H j Hj. eapply count_bits_zero_all; [exact H|lia]. Qed.
(* a successful process_leaf adds one to its own window ... *)
Lemma popcount_set t s e idx t' : process_leaf t s e idx = Ok t' -> popcount t' s e = popcount t s e + 1.
Proof.
  intros H. pose proof H as H0. apply process_leaf_spec in H0. destruct H0 as (H1 & H2 & H3 & _).
  destruct (process_leaf_range_bits _ _ _ _ _ H) as (B1 & B2 & B3 & _).
  unfold popcount. apply count_bits_set with (i := idx); [lia|assumption|assumption|]. intros j _ Hj. apply B3; assumption.
Qed.
(* ... and leaves every disjoint window alone *)
Lemma popcount_other t s0 e0 idx t' s e :
  process_leaf t s0 e0 idx = Ok t' -> e <= s0 \/ e0 <= s -> popcount t' s e = popcount t s e.
Proof.
  intros H Hd. destruct (process_leaf_range_bits _ _ _ _ _ H) as (_ & _ & _ & B4).
  apply popcount_ext. intros j Hj. apply (B4 s e j Hj Hd).
Qed.
Lemma popcount_app_zeros t n s e : popcount (t ++ zeros n) s e = popcount t s e.
Proof. apply popcount_ext. intros j _. apply range_bit_app_zeros. Qed.
Lemma popcount_fresh t n e : popcount (t ++ zeros n) (N.of_nat (length t)) e = 0.
Proof. unfold popcount. apply count_bits_false. intros j _. rewrite range_bit_app_zeros. apply range_bit_beyond. lia. Qed.
Lemma process_leaf_length t s e idx t' : process_leaf t s e idx = Ok t' -> length t' = length t.
Proof. intros H. apply (Lemmas_RdSpecs.process_leaf_bits _ _ _ _ _ H). Qed.
Lemma process_leaf_mono t s e idx t' : process_leaf t s e idx = Ok t' ->
  forall pos b, byte_bit t pos b = true -> byte_bit t' pos b = true.
Proof. intros H pos b Hb. destruct (Lemmas_RdSpecs.process_leaf_bits _ _ _ _ _ H) as (_ & Hbb & _). rewrite Hbb, Hb. reflexivity. Qed.
Lemma process_leaf_range_mono t s e idx t' : process_leaf t s e idx = Ok t' ->
  forall s' j, range_bit t s' j = true -> range_bit t' s' j = true.
Proof. intros H s' j. unfold range_bit. apply (process_leaf_mono _ _ _ _ _ H). Qed.

(* ------------------------------------------------------------------------------------------------------------------ *)
(* 2. the ledger view of a distribution and its well-formedness                                                       *)

Record lview := {
  l_df : bool; l_rf : bool; l_wf : bool;       (* debt finalized, rewards finalized, write-off enabled *)
  l_ds : N; l_de : N;                          (* processed-debt bitmap window (bytes of the remaining data) *)
  l_rs : N; l_re : N;                          (* processed-rewards window *)
  l_ws : N; l_we : N;                          (* debt-write-off window *)
  l_pc : N; l_wc : N; l_dc : N                 (* payments count, write-off count, distributed-rewards count *)
}.
#[export] Instance eta_lview : Settable _ := settable! Build_lview
  <l_df; l_rf; l_wf; l_ds; l_de; l_rs; l_re; l_ws; l_we; l_pc; l_wc; l_dc>.
Definition lv (d : dist) : lview := {|
  l_df := d_debt_final d; l_rf := d_rewards_final d; l_wf := d_writeoff_enabled d;
  l_ds := d_debt_start d; l_de := d_debt_end d; l_rs := d_rew_start d; l_re := d_rew_end d;
  l_ws := d_wo_start d; l_we := d_wo_end d;
  l_pc := d_payments_count d; l_wc := d_writeoff_count d; l_dc := d_distributed_count d |}.
Definition lv0 : lview := lv dist_default.

Record wf_lv (v : lview) (t : list N) : Prop := {
  (* the windows tile the remaining data; each is at most one realloc step long *)
  w_len : N.of_nat (length t) = (l_de v - l_ds v) + (l_re v - l_rs v) + (l_we v - l_ws v);
  w_dwin : l_ds v <= l_de v /\ l_de v <= N.of_nat (length t) /\ l_de v - l_ds v <= MAX_REALLOC;
  w_rwin : l_rs v <= l_re v /\ l_re v <= N.of_nat (length t) /\ l_re v - l_rs v <= MAX_REALLOC;
  w_wwin : l_ws v <= l_we v /\ l_we v <= N.of_nat (length t) /\ l_we v - l_ws v <= MAX_REALLOC;
  (* pairwise disjoint *)
  w_dr : l_de v <= l_rs v \/ l_re v <= l_ds v;
  w_dw : l_de v <= l_ws v \/ l_we v <= l_ds v;
  w_rw : l_re v <= l_ws v \/ l_we v <= l_rs v;
  (* a window exists only once its flag is set *)
  w_dflag : l_df v = false -> l_ds v = 0 /\ l_de v = 0;
  w_rflag : l_rf v = false -> l_rs v = 0 /\ l_re v = 0;
  w_wflag : l_wf v = false -> l_ws v = 0 /\ l_we v = 0;
  w_rf_df : l_rf v = true -> l_df v = true;
  w_wf_df : l_wf v = true -> l_df v = true;
  (* the counters are the numbers of set bits (exact, no wrap-around) *)
  w_dcount : popcount t (l_ds v) (l_de v) = l_pc v + l_wc v;
  w_wcount : popcount t (l_ws v) (l_we v) = l_wc v;
  w_rcount : popcount t (l_rs v) (l_re v) = l_dc v;
  (* every written-off leaf is marked processed in the debt bitmap at the same index *)
  w_sub : forall j, j / 8 < l_we v - l_ws v -> range_bit t (l_ws v) j = true ->
            j / 8 < l_de v - l_ds v /\ range_bit t (l_ds v) j = true
}.
Definition wf_dist (d : dist) (t : list N) : Prop := wf_lv (lv d) t.

Lemma wf_lv0 : wf_lv lv0 [].
Proof.
  constructor; cbn; try lia; try (intros; split; reflexivity); try discriminate; try reflexivity.
Qed.
(* consequences: counters below 2^32 (so the u32 additions never wrap), nothing counted before the flag *)
Lemma wf_counts_small v t : wf_lv v t -> l_pc v + l_wc v <= 8 * MAX_REALLOC /\ l_wc v <= 8 * MAX_REALLOC /\ l_dc v <= 8 * MAX_REALLOC.
Proof.
  intros H. pose proof (popcount_le t (l_ds v) (l_de v)). pose proof (popcount_le t (l_ws v) (l_we v)).
  pose proof (popcount_le t (l_rs v) (l_re v)). destruct H. lia.
Qed.
Lemma wf_counts_u32 v t : wf_lv v t -> l_pc v < two32 /\ l_wc v < two32 /\ l_dc v < two32.
Proof. intros H. apply wf_counts_small in H. unfold MAX_REALLOC, two32 in *. lia. Qed.
Lemma wf_unflagged_counts v t : wf_lv v t ->
  (l_df v = false -> l_pc v = 0 /\ l_wc v = 0) /\ (l_rf v = false -> l_dc v = 0) /\ (l_wf v = false -> l_wc v = 0).
Proof.
  intros H. destruct H. split; [intros Hf|split; intros Hf].
  - destruct (w_dflag0 Hf) as [E1 E2]. rewrite E1, E2, popcount_empty in w_dcount0 by lia. lia.
  - destruct (w_rflag0 Hf) as [E1 E2]. rewrite E1, E2, popcount_empty in w_rcount0 by lia; lia.
  - destruct (w_wflag0 Hf) as [E1 E2]. rewrite E1, E2, popcount_empty in w_wcount0 by lia; lia.
Qed.

(* ------------------------------------------------------------------------------------------------------------------ *)
(* 3. every way a processor updates a distribution (over-approximation), on ledger views                              *)

Inductive lv_step (v : lview) (t : list N) : lview -> list N -> Prop :=
| LS_same : lv_step v t v t                                    (* configure, sweep, write-off target, ... *)
| LS_debt_zero : l_df v = false -> lv_step v t (v <| l_df := true |>) t      (* finalize debt, no collectible debt *)
| LS_debt_alloc extra : l_df v = false -> extra <= MAX_REALLOC ->
    lv_step v t (v <| l_df := true |> <| l_ds := N.of_nat (length t) |> <| l_de := sat_add two32 (N.of_nat (length t)) extra |>)
            (t ++ zeros extra)
| LS_rew_alloc extra : l_rf v = false -> l_df v = true -> extra <= MAX_REALLOC ->
    lv_step v t (v <| l_rf := true |> <| l_rs := N.of_nat (length t) |> <| l_re := sat_add two32 (N.of_nat (length t)) extra |>)
            (t ++ zeros extra)
| LS_wo_alloc extra : l_wf v = false -> l_df v = true -> extra <= MAX_REALLOC ->
    lv_step v t (v <| l_wf := true |> <| l_ws := N.of_nat (length t) |> <| l_we := sat_add two32 (N.of_nat (length t)) extra |>)
            (t ++ zeros extra)
| LS_pay idx t' : process_leaf t (l_ds v) (l_de v) idx = Ok t' ->
    lv_step v t (v <| l_pc := wadd32 (l_pc v) 1 |>) t'
| LS_wo idx t1 t2 : process_leaf t (l_ws v) (l_we v) idx = Ok t1 -> process_leaf t1 (l_ds v) (l_de v) idx = Ok t2 ->
    lv_step v t (v <| l_wc := wadd32 (l_wc v) 1 |>) t2
| LS_dist idx t' : process_leaf t (l_rs v) (l_re v) idx = Ok t' ->
    lv_step v t (v <| l_dc := wadd32 (l_dc v) 1 |>) t'.

(* equation-style introduction rules (the new view is given up to conversion) *)
Lemma ls_same v t v' : v' = v -> lv_step v t v' t.
Proof. intros ->. constructor. Qed.
Lemma ls_debt_zero v t v' : l_df v = false -> v' = v <| l_df := true |> -> lv_step v t v' t.
Proof. intros H ->. constructor. exact H. Qed.
Lemma ls_debt_alloc v t v' extra : l_df v = false -> extra <= MAX_REALLOC ->
  v' = v <| l_df := true |> <| l_ds := N.of_nat (length t) |> <| l_de := sat_add two32 (N.of_nat (length t)) extra |> ->
  lv_step v t v' (t ++ zeros extra).
Proof. intros H1 H2 ->. constructor; assumption. Qed.
Lemma ls_rew_alloc v t v' extra : l_rf v = false -> l_df v = true -> extra <= MAX_REALLOC ->
  v' = v <| l_rf := true |> <| l_rs := N.of_nat (length t) |> <| l_re := sat_add two32 (N.of_nat (length t)) extra |> ->
  lv_step v t v' (t ++ zeros extra).
Proof. intros H1 H2 H3 ->. constructor; assumption. Qed.
Lemma ls_wo_alloc v t v' extra : l_wf v = false -> l_df v = true -> extra <= MAX_REALLOC ->
  v' = v <| l_wf := true |> <| l_ws := N.of_nat (length t) |> <| l_we := sat_add two32 (N.of_nat (length t)) extra |> ->
  lv_step v t v' (t ++ zeros extra).
Proof. intros H1 H2 H3 ->. constructor; assumption. Qed.
Lemma ls_pay v t v' idx t' : process_leaf t (l_ds v) (l_de v) idx = Ok t' -> v' = v <| l_pc := wadd32 (l_pc v) 1 |> ->
  lv_step v t v' t'.
Proof. intros H ->. econstructor. exact H. Qed.
Lemma ls_wo v t v' idx t1 t2 :
  process_leaf t (l_ws v) (l_we v) idx = Ok t1 -> process_leaf t1 (l_ds v) (l_de v) idx = Ok t2 ->
  v' = v <| l_wc := wadd32 (l_wc v) 1 |> -> lv_step v t v' t2.
Proof. intros H1 H2 ->. econstructor; eassumption. Qed.
Lemma ls_dist v t v' idx t' : process_leaf t (l_rs v) (l_re v) idx = Ok t' -> v' = v <| l_dc := wadd32 (l_dc v) 1 |> ->
  lv_step v t v' t'.
Proof. intros H ->. econstructor. exact H. Qed.

Lemma sat_add32_small a b : a + b < two32 -> sat_add two32 a b = a + b.
Proof. intros H. unfold sat_add. destruct (N.ltb_spec (a + b) two32); [reflexivity|lia]. Qed.
Lemma wadd32_succ a : a + 1 < two32 -> wadd32 a 1 = a + 1.
Proof. intros H. apply wadd_small. exact H. Qed.
Lemma app_zeros_len t n : N.of_nat (length (t ++ zeros n)) = N.of_nat (length t) + n.
Proof. rewrite app_length, zeros_length. lia. Qed.

(* ------------------------------------------------------------------------------------------------------------------ *)
(* 4. lv_step keeps wf_lv                                                                                             *)

Ltac wf_auto :=
  try solve [ assumption | lia | intros; lia | discriminate | intros; discriminate | tauto | intros; tauto
            | reflexivity | intros; split; reflexivity ].

Ltac lv_consts := cbv [two32 MAX_REALLOC] in *.

Theorem lv_step_wf v t v' t' : wf_lv v t -> lv_step v t v' t' -> wf_lv v' t'.
Proof.
  intros W S.
  destruct S as [ | Hf | extra Hf Hx | extra Hf Hd Hx | extra Hf Hd Hx | idx t' P | idx t1 t2 P1 P2 | idx t' P ].
  - exact W.
  - destruct v; destruct W; cbn in *. constructor; cbn; wf_auto.
  - (* debt window appended *)
    destruct v; destruct W; cbn in *. subst l_df0.
    destruct (w_dflag0 eq_refl) as [-> ->].
    rewrite sat_add32_small by (lv_consts; lia).
    constructor; cbn; rewrite ?app_zeros_len, ?popcount_fresh, ?popcount_app_zeros; wf_auto.
    all: try solve [lv_consts; lia].
    + intros j Hj Hb. destruct l_wf0; [specialize (w_wf_df0 eq_refl); discriminate|].
      destruct (w_wflag0 eq_refl) as [-> ->]. lia.
  - (* rewards window appended *)
    destruct v; destruct W; cbn in *. subst l_rf0.
    destruct (w_rflag0 eq_refl) as [-> ->].
    rewrite sat_add32_small by (lv_consts; lia).
    constructor; cbn; rewrite ?app_zeros_len, ?popcount_fresh, ?popcount_app_zeros; wf_auto.
    all: try solve [lv_consts; lia].
    + intros j Hj. rewrite !range_bit_app_zeros. apply w_sub0. exact Hj.
  - (* write-off window appended *)
    destruct v; destruct W; cbn in *. subst l_wf0.
    destruct (w_wflag0 eq_refl) as [-> ->].
    rewrite sat_add32_small by (lv_consts; lia).
    constructor; cbn; rewrite ?app_zeros_len, ?popcount_fresh, ?popcount_app_zeros; wf_auto.
    all: try solve [lv_consts; lia].
    + intros j Hj. rewrite range_bit_app_zeros, range_bit_beyond by lia. discriminate.
  - (* payment *)
    pose proof (popcount_le t (l_ds v) (l_de v)) as PL.
    pose proof (popcount_set _ _ _ _ _ P) as PS.
    pose proof (process_leaf_length _ _ _ _ _ P) as LN.
    destruct v; destruct W; cbn in *.
    rewrite wadd32_succ by (lv_consts; lia).
    constructor; cbn; rewrite ?LN; wf_auto.
    + rewrite (popcount_other _ _ _ _ _ l_ws0 l_we0 P) by tauto. assumption.
    + rewrite (popcount_other _ _ _ _ _ l_rs0 l_re0 P) by tauto. assumption.
    + intros j Hj Hb. destruct (process_leaf_range_bits _ _ _ _ _ P) as (_ & _ & _ & B4).
      rewrite (B4 l_ws0 l_we0 j Hj) in Hb by tauto. destruct (w_sub0 j Hj Hb) as [X Y]. split; [exact X|].
      eapply process_leaf_range_mono; eassumption.
  - (* write-off *)
    pose proof (popcount_le t (l_ws v) (l_we v)) as PL.
    pose proof (popcount_set _ _ _ _ _ P1) as PS1. pose proof (popcount_set _ _ _ _ _ P2) as PS2.
    pose proof (process_leaf_length _ _ _ _ _ P1) as LN1. pose proof (process_leaf_length _ _ _ _ _ P2) as LN2.
    destruct v; destruct W; cbn in *.
    rewrite wadd32_succ by (lv_consts; lia).
    constructor; cbn; rewrite ?LN2, ?LN1; wf_auto.
    + rewrite PS2, (popcount_other _ _ _ _ _ l_ds0 l_de0 P1) by tauto. lia.
    + rewrite (popcount_other _ _ _ _ _ l_ws0 l_we0 P2) by tauto. lia.
    + rewrite (popcount_other _ _ _ _ _ l_rs0 l_re0 P2), (popcount_other _ _ _ _ _ l_rs0 l_re0 P1) by tauto. assumption.
    + intros j Hj Hb.
      destruct (process_leaf_range_bits _ _ _ _ _ P1) as (_ & A2 & A3 & A4).
      destruct (process_leaf_range_bits _ _ _ _ _ P2) as (_ & B2 & B3 & B4).
      pose proof P2 as Q2. apply process_leaf_spec in Q2. destruct Q2 as (_ & _ & Q23 & _).
      destruct (N.eq_dec j idx) as [->|Hne]; [split; assumption|].
      rewrite (B4 l_ws0 l_we0 j Hj) in Hb by tauto. rewrite (A3 j Hne) in Hb.
      destruct (w_sub0 j Hj Hb) as [X Y]. split; [exact X|].
      rewrite (B3 j Hne). rewrite (A4 l_ds0 l_de0 j X) by tauto. exact Y.
  - (* reward distribution *)
    pose proof (popcount_le t (l_rs v) (l_re v)) as PL.
    pose proof (popcount_set _ _ _ _ _ P) as PS.
    pose proof (process_leaf_length _ _ _ _ _ P) as LN.
    destruct v; destruct W; cbn in *.
    rewrite wadd32_succ by (lv_consts; lia).
    constructor; cbn; rewrite ?LN; wf_auto.
    + rewrite (popcount_other _ _ _ _ _ l_ds0 l_de0 P) by tauto. assumption.
    + rewrite (popcount_other _ _ _ _ _ l_ws0 l_we0 P) by tauto. assumption.
    + intros j Hj Hb. destruct (process_leaf_range_bits _ _ _ _ _ P) as (_ & _ & _ & B4).
      rewrite (B4 l_ws0 l_we0 j Hj) in Hb by tauto. destruct (w_sub0 j Hj Hb) as [X Y]. split; [exact X|].
      rewrite (B4 l_ds0 l_de0 j X) by tauto. exact Y.
Qed.

(* ------------------------------------------------------------------------------------------------------------------ *)
(* 5. lv_step is monotone: a window is fixed once its flag is set, bits are never cleared, the data never shrinks       *)

Definition lv_le (v : lview) (t : list N) (v' : lview) (t' : list N) : Prop :=
  (l_df v = true -> l_df v' = true /\ l_ds v' = l_ds v /\ l_de v' = l_de v) /\
  (l_rf v = true -> l_rf v' = true /\ l_rs v' = l_rs v /\ l_re v' = l_re v) /\
  (l_wf v = true -> l_wf v' = true /\ l_ws v' = l_ws v /\ l_we v' = l_we v) /\
  (forall pos b, byte_bit t pos b = true -> byte_bit t' pos b = true) /\
  (length t <= length t')%nat.
Lemma lv_le_refl v t : lv_le v t v t.
Proof. unfold lv_le. repeat split; auto. Qed.
Lemma lv_le_trans v1 t1 v2 t2 v3 t3 : lv_le v1 t1 v2 t2 -> lv_le v2 t2 v3 t3 -> lv_le v1 t1 v3 t3.
Proof.
  intros (A1 & A2 & A3 & A4 & A5) (B1 & B2 & B3 & B4 & B5). unfold lv_le. repeat split; try (intros; auto; fail); try lia.
  - apply A1 in H. destruct H as (H & _ & _). apply B1 in H. tauto.
  - apply A1 in H. destruct H as (H & E1 & _). apply B1 in H. destruct H as (_ & E2 & _). congruence.
  - apply A1 in H. destruct H as (H & _ & E1). apply B1 in H. destruct H as (_ & _ & E2). congruence.
  - apply A2 in H. destruct H as (H & _ & _). apply B2 in H. tauto.
  - apply A2 in H. destruct H as (H & E1 & _). apply B2 in H. destruct H as (_ & E2 & _). congruence.
  - apply A2 in H. destruct H as (H & _ & E1). apply B2 in H. destruct H as (_ & _ & E2). congruence.
  - apply A3 in H. destruct H as (H & _ & _). apply B3 in H. tauto.
  - apply A3 in H. destruct H as (H & E1 & _). apply B3 in H. destruct H as (_ & E2 & _). congruence.
  - apply A3 in H. destruct H as (H & _ & E1). apply B3 in H. destruct H as (_ & _ & E2). congruence.
Qed.
Theorem lv_step_le v t v' t' : lv_step v t v' t' -> lv_le v t v' t'.
Proof.
  intros S.
  destruct S as [ | Hf | extra Hf Hx | extra Hf Hd Hx | extra Hf Hd Hx | idx t' P | idx t1 t2 P1 P2 | idx t' P ];
    destruct v; cbn in *; unfold lv_le; cbn; repeat split; intros; try congruence; auto;
    rewrite ?byte_bit_app_zeros, ?app_length; try assumption; try lia.
  - eapply process_leaf_mono; eassumption.
  - rewrite (process_leaf_length _ _ _ _ _ P). lia.
  - eapply process_leaf_mono; [exact P2|]. eapply process_leaf_mono; eassumption.
  - rewrite (process_leaf_length _ _ _ _ _ P2), (process_leaf_length _ _ _ _ _ P1). lia.
  - eapply process_leaf_mono; eassumption.
  - rewrite (process_leaf_length _ _ _ _ _ P). lia.
Qed.
(* reading lv_le on window bits *)
Lemma lv_le_range v t v' t' : lv_le v t v' t' -> forall s j, range_bit t s j = true -> range_bit t' s j = true.
Proof. intros (_ & _ & _ & H & _) s j. unfold range_bit. apply H. Qed.

(* ------------------------------------------------------------------------------------------------------------------ *)
(* 6. the generic preservation theorem                                                                                *)

Definition is_dist_data (x : adata) : Prop := exists d t, x = DDist d t.
(* data that may be written at an address that holds no distribution: anything but a non-fresh distribution *)
Definition okw (x : adata) : Prop := match x with DDist d t => t = [] /\ lv d = lv0 | _ => True end.

Lemma sw_zc_fills_ok ms W k r tl :
  sw_zc_fills ms W = Ok (k, r, tl) ->
  exists m, ms = m :: tl /\ k = mkey m /\ owner (get W k) = KSwapMock /\ data (get W k) = DFills r.
Proof.
  unfold sw_zc_fills. intros H. repeat rg_inv H. rg_norm. subst.
  apply next_account_ok in E as (-> & _ & _ & Ho). eexists; repeat split; eauto.
Qed.

Section Generic.
  Variable A : key -> acct -> Prop.
  (* the ledger updates allowed at a distribution address: lv_step, or a sub-relation of it (each introduction rule is a
     separate hypothesis; a processor lemma depends only on the rules it uses) *)
  Variable R : lview -> list N -> lview -> list N -> Prop.
  Definition inv (W : world) : Prop := forall k, A k (get W k).
  (* at a free address any account whose data is okw satisfies A; at a distribution address every lv_step is allowed *)
  Definition free_key (k : key) : Prop := forall a, okw (data a) -> A k a.
  Definition dist_key (k : key) (d : dist) (t : list N) : Prop :=
    forall a d' t', A k a -> R (lv d) t (lv d') t' -> A k (a <| data := DDist d' t' |>).
  Definition wperm (k : key) (x : adata) : Prop := forall a, A k a -> A k (a <| data := x |>).

  Hypothesis A_ext : forall k a a', owner a' = owner a -> data a' = data a -> A k a -> A k a'.
  Hypothesis A_free : forall k a, A k a -> owner a <> KRd \/ ~ is_dist_data (data a) -> free_key k.
  Hypothesis A_dist : forall k a d t, A k a -> owner a = KRd -> data a = DDist d t -> dist_key k d t.
  Hypothesis R_same : forall v t v', v' = v -> R v t v' t.
  Hypothesis R_debt_zero : forall v t v', l_df v = false -> v' = v <| l_df := true |> -> R v t v' t.
  Hypothesis R_debt_alloc : forall v t v' extra, l_df v = false -> extra <= MAX_REALLOC ->
    v' = v <| l_df := true |> <| l_ds := N.of_nat (length t) |> <| l_de := sat_add two32 (N.of_nat (length t)) extra |> ->
    R v t v' (t ++ zeros extra).
  Hypothesis R_rew_alloc : forall v t v' extra, l_rf v = false -> l_df v = true -> extra <= MAX_REALLOC ->
    v' = v <| l_rf := true |> <| l_rs := N.of_nat (length t) |> <| l_re := sat_add two32 (N.of_nat (length t)) extra |> ->
    R v t v' (t ++ zeros extra).
  Hypothesis R_wo_alloc : forall v t v' extra, l_wf v = false -> l_df v = true -> extra <= MAX_REALLOC ->
    v' = v <| l_wf := true |> <| l_ws := N.of_nat (length t) |> <| l_we := sat_add two32 (N.of_nat (length t)) extra |> ->
    R v t v' (t ++ zeros extra).
  Hypothesis R_pay : forall v t v' idx t', process_leaf t (l_ds v) (l_de v) idx = Ok t' -> v' = v <| l_pc := wadd32 (l_pc v) 1 |> ->
    R v t v' t'.
  Hypothesis R_wo : forall v t v' idx t1 t2,
    process_leaf t (l_ws v) (l_we v) idx = Ok t1 -> process_leaf t1 (l_ds v) (l_de v) idx = Ok t2 ->
    v' = v <| l_wc := wadd32 (l_wc v) 1 |> -> R v t v' t2.
  Hypothesis R_dist : forall v t v' idx t', process_leaf t (l_rs v) (l_re v) idx = Ok t' -> v' = v <| l_dc := wadd32 (l_dc v) 1 |> ->
    R v t v' t'.

  Lemma free_wperm k x : free_key k -> okw x -> wperm k x.
  Proof. intros F O a _. apply F. exact O. Qed.
  Lemma dist_wperm k d t d' t' : dist_key k d t -> R (lv d) t (lv d') t' -> wperm k (DDist d' t').
  Proof. intros D S a Ha. apply D; assumption. Qed.

  Lemma inv_hdr W W' : (forall k, hdr (get W' k) = hdr (get W k)) -> inv W -> inv W'.
  Proof. intros H HI k. eapply A_ext; [apply (hdr_owner _ _ (H k))|apply (hdr_data _ _ (H k))|apply HI]. Qed.
  Lemma inv_put W k a : inv W -> A k a -> inv (put W k a).
  Proof.
    intros HI Ha k'. rewrite get_put. destruct (key_eqb k k') eqn:E; [apply key_eqb_eq in E; subst; exact Ha|apply HI].
  Qed.
  Lemma not_dist_free W k : inv W -> ~ is_dist_data (data (get W k)) -> free_key k.
  Proof. intros HI H. eapply A_free; [apply HI|right; exact H]. Qed.
  Lemma not_rd_free W k : inv W -> owner (get W k) <> KRd -> free_key k.
  Proof. intros HI H. eapply A_free; [apply HI|left; exact H]. Qed.

  (* ---- reads ---- *)
  Lemma rd_acct_free W k x : inv W -> rd_acct W k x -> ~ is_dist_data x -> free_key k.
  Proof. intros HI (Ho & Hd) Hx. eapply not_dist_free; [exact HI|]. rewrite Hd. exact Hx. Qed.
  Ltac nd := let d := fresh in let t := fresh in let E := fresh in intros (d & t & E); discriminate E.
  Lemma rd_zc_config_free ms w W k c tl : rd_zc_config ms w W = Ok (k, c, tl) -> inv W -> free_key k.
  Proof. intros H HI. apply rd_zc_config_ok in H as (m & _ & _ & _ & Ha). eapply rd_acct_free; [exact HI|exact Ha|nd]. Qed.
  Lemma rd_zc_journal_free ms w W k c tl : rd_zc_journal ms w W = Ok (k, c, tl) -> inv W -> free_key k.
  Proof. intros H HI. apply rd_zc_journal_ok in H as (m & _ & _ & _ & Ha). eapply rd_acct_free; [exact HI|exact Ha|nd]. Qed.
  Lemma rd_zc_deposit_free ms w W k c tl : rd_zc_deposit ms w W = Ok (k, c, tl) -> inv W -> free_key k.
  Proof. intros H HI. apply rd_zc_deposit_ok in H as (m & _ & _ & _ & Ha). eapply rd_acct_free; [exact HI|exact Ha|nd]. Qed.
  Lemma rd_zc_contrib_free ms w W k c tl : rd_zc_contrib ms w W = Ok (k, c, tl) -> inv W -> free_key k.
  Proof. intros H HI. apply rd_zc_contrib_ok in H as (m & _ & _ & _ & Ha). eapply rd_acct_free; [exact HI|exact Ha|nd]. Qed.
  Lemma rd_verified_free ms w who W k c tl : rd_verified ms w who W = Ok (k, c, tl) -> inv W -> free_key k.
  Proof.
    intros H HI. apply rd_verified_ok in H as (m & a & _ & _ & _ & Ha & _). eapply rd_acct_free; [exact HI|exact Ha|nd].
  Qed.
  Lemma rd_zc_dist_key ms w W k d t tl : rd_zc_dist ms w W = Ok (k, d, t, tl) -> inv W -> dist_key k d t.
  Proof. intros H HI. apply rd_zc_dist_ok in H as (m & _ & _ & _ & (Ho & Hd)). eapply A_dist; [apply HI|exact Ho|exact Hd]. Qed.
  Lemma pp_zc_config_free ms w W k c tl : pp_zc_config ms w W = Ok (k, c, tl) -> inv W -> free_key k.
  Proof.
    intros H HI. apply pp_zc_config_ok in H as (m & _ & _ & Ho & _). eapply not_rd_free; [exact HI|]. rewrite Ho. discriminate.
  Qed.
  Lemma pp_zc_request_free ms W k c tl : pp_zc_request ms W = Ok (k, c, tl) -> inv W -> free_key k.
  Proof.
    intros H HI. apply pp_zc_request_ok in H as (m & _ & _ & Ho & _). eapply not_rd_free; [exact HI|]. rewrite Ho. discriminate.
  Qed.
  Lemma pp_verified_free ms w who W k c a tl : pp_verified ms w who W = Ok (k, c, a, tl) -> inv W -> free_key k.
  Proof.
    intros H HI. apply pp_verified_ok in H as (m0 & m1 & _ & _ & _ & _ & Ho & _). eapply not_rd_free; [exact HI|]. rewrite Ho. discriminate.
  Qed.
  Lemma sw_zc_fills_free ms W k r tl : sw_zc_fills ms W = Ok (k, r, tl) -> inv W -> free_key k.
  Proof.
    intros H HI. apply sw_zc_fills_ok in H as (m & _ & _ & Ho & _). eapply not_rd_free; [exact HI|]. rewrite Ho. discriminate.
  Qed.

  (* ---- primitives ---- *)
  Lemma write_data_inv cx W k x W' : write_data cx W k x = Ok W' -> inv W -> wperm k x -> inv W'.
  Proof. intros H HI P. apply write_data_ok in H as (_ & _ & ->). apply inv_put; [exact HI|]. apply P, HI. Qed.
  Lemma put_dist_inv cx W k d t W' : put_dist cx W k d t = Ok W' -> inv W -> wperm k (DDist d t) -> inv W'.
  Proof. apply write_data_inv. Qed.
  Lemma try_initialize_inv cx W k len x W' :
    try_initialize cx W k len x = Ok W' -> inv W -> okw x -> inv W' /\ free_key k.
  Proof.
    intros H HI O. apply try_initialize_ok in H as (_ & Hd & _ & _ & ->).
    assert (F : free_key k) by (eapply not_dist_free; [exact HI|rewrite Hd; nd]).
    split; [|exact F]. apply inv_put; [exact HI|]. apply F. exact O.
  Qed.
  Lemma credit_inv cx W k amt W' : credit cx W k amt = Ok W' -> inv W -> inv W'.
  Proof. intros H. apply inv_hdr. eapply credit_hdr; eassumption. Qed.
  Lemma debit_inv cx W k amt W' : debit cx W k amt = Ok W' -> inv W -> inv W'.
  Proof. intros H. apply inv_hdr. eapply debit_hdr; eassumption. Qed.
  Lemma set_lamports_to_zero_inv cx W k W' : set_lamports_to_zero cx W k = Ok W' -> inv W -> inv W'.
  Proof. apply debit_inv. Qed.
  Lemma resize_inv cx W k n W' : resize cx W k n = Ok W' -> inv W -> inv W'.
  Proof.
    intros H HI. apply resize_ok in H as (_ & _ & ->). apply inv_put; [exact HI|].
    eapply A_ext; [| |apply HI]; reflexivity.
  Qed.
  Lemma sys_transfer_core_inv W ms from to amt W' : sys_transfer_core W ms from to amt = Ok W' -> inv W -> inv W'.
  Proof. intros H. apply inv_hdr. eapply sys_transfer_core_hdr; eassumption. Qed.
  Lemma sys_transfer_inv cx W from to amt pdas W' : sys_transfer cx W from to amt pdas = Ok W' -> inv W -> inv W'.
  Proof. intros H. apply inv_hdr. eapply sys_transfer_hdr; eassumption. Qed.
  Lemma sys_create_account_core_inv W ms from to lam space own W' :
    sys_create_account_core W ms from to lam space own = Ok W' -> inv W -> inv W'.
  Proof.
    unfold sys_create_account_core. intros H HI. repeat rg_inv H. rg_norm.
    eapply sys_transfer_core_inv; [exact H|]. apply inv_put; [exact HI|].
    assert (F : free_key to) by (eapply not_rd_free; [exact HI|]; match goal with Ho : owner _ = KSystem |- _ => rewrite Ho end; discriminate).
    apply F. exact Logic.I.
  Qed.
  Lemma create_account_inv cx W payer new len own add W' :
    create_account cx W payer new len own add = Ok W' -> inv W -> inv W'.
  Proof.
    intros H HI. apply create_account_ok in H as (Ho & _ & _ & _ & Hn & Hf). intros k.
    destruct (key_eq_dec k new) as [->|Hne].
    - assert (F : free_key new) by (eapply not_rd_free; [exact HI|rewrite Ho; discriminate]).
      apply F. rewrite (hdr_data _ {| lamports := 0; owner := own; alen := len; data := DEmpty |} Hn). exact Logic.I.
    - eapply A_ext; [apply (hdr_owner _ _ (Hf k Hne))|apply (hdr_data _ _ (Hf k Hne))|apply HI].
  Qed.
  Lemma create_token_account_inv cx W payer new mint town W' :
    create_token_account cx W payer new mint town = Ok W' -> inv W -> inv W'.
  Proof.
    intros H HI. apply create_token_account_ok in H as (Ho & _ & _ & _ & _ & _ & Hn & Hf). intros k.
    destruct (key_eq_dec k new) as [->|Hne].
    - assert (F : free_key new) by (eapply not_rd_free; [exact HI|rewrite Ho; discriminate]).
      apply F.
      rewrite (hdr_data _ {| lamports := 0; owner := KToken; alen := LEN_TOKEN;
                             data := DToken {| t_mint := mint; t_owner := town; t_amount := 0 |} |} Hn). exact Logic.I.
    - eapply A_ext; [apply (hdr_owner _ _ (Hf k Hne))|apply (hdr_data _ _ (Hf k Hne))|apply HI].
  Qed.
  Lemma tok_owned_free W k : inv W -> owner (get W k) = KToken -> free_key k.
  Proof. intros HI Ho. eapply not_rd_free; [exact HI|rewrite Ho; discriminate]. Qed.
  Lemma put_token_inv W k t t0 : inv W -> as_token W k = Ok t0 -> inv (put_token W k t).
  Proof.
    intros HI H. apply as_token_ok in H as (Ho & _). unfold put_token. apply inv_put; [exact HI|].
    apply (tok_owned_free _ _ HI Ho). exact Logic.I.
  Qed.
  Lemma tok_transfer_core_inv W ms src dst auth amt chk W' :
    tok_transfer_core W ms src dst auth amt chk = Ok W' -> inv W -> inv W'.
  Proof.
    unfold tok_transfer_core. intros H HI. repeat rg_inv H; rg_norm; subst; try assumption.
    all: eapply put_token_inv; [eapply put_token_inv; [exact HI|eassumption]|eassumption].
  Qed.
  Lemma tok_transfer_inv cx W src dst auth amt pdas W' : tok_transfer cx W src dst auth amt pdas = Ok W' -> inv W -> inv W'.
  Proof. unfold tok_transfer. intros H. rg_inv H. eapply tok_transfer_core_inv; eassumption. Qed.
  Lemma tok_transfer_checked_inv cx W src mint dst auth amt dec pdas W' :
    tok_transfer_checked cx W src mint dst auth amt dec pdas = Ok W' -> inv W -> inv W'.
  Proof. unfold tok_transfer_checked. intros H. rg_inv H. eapply tok_transfer_core_inv; eassumption. Qed.
  Lemma tok_burn_core_inv W ms acc mint auth amt W' : tok_burn_core W ms acc mint auth amt = Ok W' -> inv W -> inv W'.
  Proof.
    unfold tok_burn_core. intros H HI. repeat rg_inv H; rg_norm; subst; try assumption.
    match goal with Hm : as_mint W _ = Ok _ |- _ => apply as_mint_ok in Hm as (Hmo & _) end.
    apply inv_put; [eapply put_token_inv; [exact HI|eassumption]|].
    apply (tok_owned_free _ _ HI Hmo). exact Logic.I.
  Qed.
  Lemma tok_burn_inv cx W acc mint auth amt pdas W' : tok_burn cx W acc mint auth amt pdas = Ok W' -> inv W -> inv W'.
  Proof. unfold tok_burn. intros H. rg_inv H. eapply tok_burn_core_inv; eassumption. Qed.

  (* ---- the inversion tactic (Lemmas_Canon's tc_go, with the invariant and the per-address write permissions) ---- *)
  Ltac okw_tac := first [ exact Logic.I | split; reflexivity ].
  Ltac ls_tac :=
    first [ apply R_same; reflexivity
          | eapply R_pay; [eassumption|reflexivity]
          | eapply R_dist; [eassumption|reflexivity]
          | eapply R_wo; [eassumption|eassumption|reflexivity] ].
  Ltac g_side :=
    solve [ eapply free_wperm; [eassumption|okw_tac]
          | eapply dist_wperm; [eassumption|ls_tac] ].
  Ltac g_read E :=
    first
    [ eapply rd_verified_free in E; [|eassumption]
    | eapply rd_zc_config_free in E; [|eassumption]
    | eapply rd_zc_dist_key in E; [|eassumption]
    | eapply rd_zc_journal_free in E; [|eassumption]
    | eapply rd_zc_deposit_free in E; [|eassumption]
    | eapply rd_zc_contrib_free in E; [|eassumption]
    | eapply pp_verified_free in E; [|eassumption]
    | eapply pp_zc_config_free in E; [|eassumption]
    | eapply pp_zc_request_free in E; [|eassumption]
    | eapply sw_zc_fills_free in E; [|eassumption] ].
  Ltac g_prim E :=
    first
    [ eapply put_dist_inv in E; [|eassumption|g_side]
    | eapply write_data_inv in E; [|eassumption|g_side]
    | eapply try_initialize_inv in E; [destruct E as [? ?]|eassumption|okw_tac]
    | eapply credit_inv in E; [|eassumption]
    | eapply debit_inv in E; [|eassumption]
    | eapply set_lamports_to_zero_inv in E; [|eassumption]
    | eapply resize_inv in E; [|eassumption]
    | eapply sys_transfer_inv in E; [|eassumption]
    | eapply create_account_inv in E; [|eassumption]
    | eapply create_token_account_inv in E; [|eassumption]
    | eapply tok_transfer_inv in E; [|eassumption]
    | eapply tok_transfer_checked_inv in E; [|eassumption]
    | eapply tok_burn_inv in E; [|eassumption] ].
  Ltac g_comp E := fail.
  Ltac g_char E := first [ g_read E | g_prim E | g_comp E | idtac ].
  Ltac g_step H :=
    cbv zeta in H;
    lazymatch type of H with
    | bind ?m _ = Ok _ =>
        let E := fresh "E" in destruct m eqn:E; cbn [bind] in H; [|discriminate H];
        repeat lazymatch type of H with (let '(_, _) := ?p in _) = Ok _ => destruct p end;
        g_char E
    | (if ?b then _ else _) = Ok _ => destruct b eqn:?
    | match ?x with _ => _ end = Ok _ => destruct x eqn:?; try discriminate H
    end.
  Ltac g_final H :=
    first [ assumption
          | injection H as <-; assumption
          | g_char H; first [exact H | destruct H as [H _]; exact H] ].
  Ltac g_go H := repeat g_step H; g_final H.

  (* ---- composite recipes ---- *)
  (* the appended window is bounded by the realloc limit: the resize that follows the write checks it *)
  Lemma grow_and_fund_inv cx W dk d tail extra ms more W' :
    grow_and_fund cx W dk d tail extra ms more = Ok W' -> inv W ->
    (extra <= MAX_REALLOC -> wperm dk (DDist d (tail ++ zeros extra))) -> inv W'.
  Proof.
    unfold grow_and_fund. intros H HI P.
    apply bind_ok in H as (W1 & E1 & H). apply bind_ok in H as (W2 & E2 & H).
    assert (Hx : extra <= MAX_REALLOC) by (clear - E2; apply resize_spec in E2; lia).   (* clear: lia drags section hypotheses in *)
    eapply put_dist_inv in E1; [|exact HI|exact (P Hx)].
    eapply resize_inv in E2; [|exact E1].
    g_go H.
  Qed.
  Lemma distribute_loop_inv cx recips : forall W ms remaining src auth pdas acc W' tot ms',
    distribute_loop cx W ms recips remaining src auth pdas acc = Ok (W', tot, ms') -> inv W -> inv W'.
  Proof.
    induction recips as [|[rk share] tl IH]; intros W ms remaining src auth pdas acc W' tot ms' H HI; cbn [distribute_loop] in H.
    - injection H as <- _ _. exact HI.
    - repeat g_step H. eapply IH; eassumption.
  Qed.
  Lemma sw_dequeue_fills_inv cx W sol W' rep : sw_dequeue_fills cx W sol = Ok (W', rep) -> inv W -> inv W'.
  Proof. unfold sw_dequeue_fills. intros H HI. repeat g_step H. injection H as <- _. assumption. Qed.
  Lemma swap_dequeue_cpi_inv cx W swap cfg st fills jk sol pdas W' rep :
    swap_dequeue_cpi cx W swap cfg st fills jk sol pdas = Ok (W', rep) -> inv W -> inv W'.
  Proof.
    unfold swap_dequeue_cpi. intros H HI. g_step H. destruct swap; try discriminate H.
    - eapply sw_dequeue_fills_inv; eassumption.
    - destruct (data (get W fills)) as [| | | | | | | | | | | |[r|]|]; injection H as <- _; exact HI.
  Qed.
  Ltac g_comp E ::=
    first
    [ eapply distribute_loop_inv in E; [|eassumption]
    | eapply swap_dequeue_cpi_inv in E; [|eassumption]
    | eapply sw_dequeue_fills_inv in E; [|eassumption] ].

  (* ---- the 22 revenue-distribution processors ---- *)
  Lemma rd_initialize_program_inv cx W W' : rd_initialize_program cx W = Ok W' -> inv W -> inv W'.
  Proof. unfold rd_initialize_program. intros H HI. g_go H. Qed.
  Lemma rd_set_admin_inv cx W k W' : rd_set_admin cx W k = Ok W' -> inv W -> inv W'.
  Proof. unfold rd_set_admin. intros H HI. g_go H. Qed.
  Lemma rd_migrate_inv cx W W' : rd_migrate cx W = Ok W' -> inv W -> inv W'.
  Proof. unfold rd_migrate. intros H HI. g_go H. Qed.
  Lemma rd_configure_program_inv cx W s W' : rd_configure_program cx W s = Ok W' -> inv W -> inv W'.
  Proof. unfold rd_configure_program. intros H HI. g_go H. Qed.
  Lemma rd_initialize_journal_inv cx W W' : rd_initialize_journal cx W = Ok W' -> inv W -> inv W'.
  Proof. unfold rd_initialize_journal. intros H HI. g_go H. Qed.
  Lemma rd_initialize_distribution_inv cx W W' : rd_initialize_distribution cx W = Ok W' -> inv W -> inv W'.
  Proof. unfold rd_initialize_distribution. intros H HI. g_go H. Qed.
  Lemma rd_configure_debt_inv cx W n debt root W' : rd_configure_debt cx W n debt root = Ok W' -> inv W -> inv W'.
  Proof. unfold rd_configure_debt. intros H HI. g_go H. Qed.
  Lemma rd_configure_rewards_inv cx W n root W' : rd_configure_rewards cx W n root = Ok W' -> inv W -> inv W'.
  Proof. unfold rd_configure_rewards. intros H HI. g_go H. Qed.
  Lemma rd_initialize_contributor_inv cx W svc W' : rd_initialize_contributor cx W svc = Ok W' -> inv W -> inv W'.
  Proof. unfold rd_initialize_contributor. intros H HI. g_go H. Qed.
  Lemma rd_set_rewards_manager_inv cx W k W' : rd_set_rewards_manager cx W k = Ok W' -> inv W -> inv W'.
  Proof. unfold rd_set_rewards_manager. intros H HI. g_go H. Qed.
  Lemma rd_configure_contributor_inv cx W s W' : rd_configure_contributor cx W s = Ok W' -> inv W -> inv W'.
  Proof. unfold rd_configure_contributor. intros H HI. g_go H. Qed.
  Lemma rd_verify_root_inv cx W kind p W' : rd_verify_root cx W kind p = Ok W' -> inv W -> inv W'.
  Proof. unfold rd_verify_root. intros H HI. g_go H. Qed.
  Lemma rd_initialize_deposit_inv cx W node W' : rd_initialize_deposit cx W node = Ok W' -> inv W -> inv W'.
  Proof. unfold rd_initialize_deposit. intros H HI. g_go H. Qed.
  Lemma rd_initialize_swap_destination_inv cx W W' : rd_initialize_swap_destination cx W = Ok W' -> inv W -> inv W'.
  Proof. unfold rd_initialize_swap_destination. intros H HI. g_go H. Qed.
  Lemma rd_withdraw_sol_inv cx W amount W' : rd_withdraw_sol cx W amount = Ok W' -> inv W -> inv W'.
  Proof. unfold rd_withdraw_sol. intros H HI. g_go H. Qed.
  Lemma rd_sweep_inv cx W W' : rd_sweep cx W = Ok W' -> inv W -> inv W'.
  Proof. unfold rd_sweep. intros H HI. g_go H. Qed.
  (* one bit in the debt window, payments count + 1 *)
  Lemma rd_pay_debt_inv cx W amount p W' : rd_pay_debt cx W amount p = Ok W' -> inv W -> inv W'.
  Proof. unfold rd_pay_debt. intros H HI. g_go H. Qed.
  (* one bit in the rewards window, distributed count + 1 *)
  Lemma rd_distribute_rewards_inv cx W us ebr p W' : rd_distribute_rewards cx W us ebr p = Ok W' -> inv W -> inv W'.
  Proof. unfold rd_distribute_rewards. intros H HI. g_go H. Qed.
  (* the same index in the write-off and the debt window, write-off count + 1; the target (possibly the source itself,
     re-read after the first write) only changes d_uncollectible *)
  Lemma rd_write_off_inv cx W amount p W' : rd_write_off cx W amount p = Ok W' -> inv W -> inv W'.
  Proof. unfold rd_write_off. intros H HI. g_go H. Qed.

  (* the three instructions that append a window *)
  Ltac g_norm :=
    repeat match goal with
    | u : unit |- _ => destruct u
    | H : require _ _ = Ok _ |- _ => apply require_ok in H
    | H : negb _ = true |- _ => apply negb_true_iff in H
    end.
  Lemma rd_finalize_debt_inv cx W W' : rd_finalize_debt cx W = Ok W' -> inv W -> inv W'.
  Proof.
    unfold rd_finalize_debt. intros H HI. do 7 (g_step H).
    - (* no collectible debt: only the flag *)
      eapply put_dist_inv in H; [exact H|eassumption|]. g_norm.
      eapply dist_wperm; [eassumption|]. eapply R_debt_zero; [eassumption|reflexivity].
    - eapply grow_and_fund_inv; [exact H|eassumption|]. intros Hx. g_norm.
      eapply dist_wperm; [eassumption|]. eapply R_debt_alloc; [eassumption|exact Hx|reflexivity].
  Qed.
  Lemma rd_finalize_rewards_inv cx W W' : rd_finalize_rewards cx W = Ok W' -> inv W -> inv W'.
  Proof.
    unfold rd_finalize_rewards. intros H HI. do 10 (g_step H).
    eapply grow_and_fund_inv; [exact H|eassumption|]. intros Hx. g_norm.
    eapply dist_wperm; [eassumption|]. eapply R_rew_alloc; [eassumption|eassumption|exact Hx|reflexivity].
  Qed.
  Lemma rd_enable_write_off_inv cx W W' : rd_enable_write_off cx W = Ok W' -> inv W -> inv W'.
  Proof.
    unfold rd_enable_write_off. intros H HI. do 6 (g_step H). cbv zeta in H.
    apply bind_ok in H as (W1 & Ea & H). apply bind_ok in H as (W2 & Eb & H).
    match type of Eb with resize _ _ _ (_ + ?x) = _ => assert (Hx : x <= MAX_REALLOC) by (clear - Eb; apply resize_spec in Eb; lia) end.
    eapply put_dist_inv in Ea; [|eassumption|].
    2:{ g_norm. eapply dist_wperm; [eassumption|]. eapply R_wo_alloc; [eassumption|eassumption|exact Hx|reflexivity]. }
    eapply resize_inv in Eb; [|exact Ea].
    g_go H.
  Qed.

  Theorem rd_process_inv cx W ix W' : rd_process cx W ix = Ok W' -> inv W -> inv W'.
  Proof.
    destruct ix; cbn [rd_process].
    - apply rd_initialize_program_inv.
    - apply rd_migrate_inv.
    - apply rd_set_admin_inv.
    - apply rd_configure_program_inv.
    - apply rd_initialize_journal_inv.
    - apply rd_initialize_distribution_inv.
    - apply rd_configure_debt_inv.
    - apply rd_finalize_debt_inv.
    - apply rd_configure_rewards_inv.
    - apply rd_finalize_rewards_inv.
    - apply rd_distribute_rewards_inv.
    - apply rd_initialize_contributor_inv.
    - apply rd_set_rewards_manager_inv.
    - apply rd_configure_contributor_inv.
    - apply rd_verify_root_inv.
    - apply rd_initialize_deposit_inv.
    - apply rd_pay_debt_inv.
    - apply rd_enable_write_off_inv.
    - apply rd_write_off_inv.
    - apply rd_initialize_swap_destination_inv.
    - apply rd_sweep_inv.
    - apply rd_withdraw_sol_inv.
  Qed.

  (* the instructions that settle a leaf; every other instruction needs only R_same, R_debt_zero and the three R_*_alloc *)
  Definition quiet_rd (ix : rd_ix) : bool :=
    match ix with RPayDebt _ _ | RWriteOff _ _ | RDistributeRewards _ _ _ => false | _ => true end.
  Theorem rd_process_inv_quiet cx W ix W' : quiet_rd ix = true -> rd_process cx W ix = Ok W' -> inv W -> inv W'.
  Proof.
    destruct ix; cbn [rd_process quiet_rd]; intros Hq; try discriminate Hq.
    - apply rd_initialize_program_inv.
    - apply rd_migrate_inv.
    - apply rd_set_admin_inv.
    - apply rd_configure_program_inv.
    - apply rd_initialize_journal_inv.
    - apply rd_initialize_distribution_inv.
    - apply rd_configure_debt_inv.
    - apply rd_finalize_debt_inv.
    - apply rd_configure_rewards_inv.
    - apply rd_finalize_rewards_inv.
    - apply rd_initialize_contributor_inv.
    - apply rd_set_rewards_manager_inv.
    - apply rd_configure_contributor_inv.
    - apply rd_verify_root_inv.
    - apply rd_initialize_deposit_inv.
    - apply rd_enable_write_off_inv.
    - apply rd_initialize_swap_destination_inv.
    - apply rd_sweep_inv.
    - apply rd_withdraw_sol_inv.
  Qed.

  (* ---- passport and the mock swap program ---- *)
  Lemma pp_initialize_program_inv cx W W' : pp_initialize_program cx W = Ok W' -> inv W -> inv W'.
  Proof. unfold pp_initialize_program. intros H HI. g_go H. Qed.
  Lemma pp_set_admin_inv cx W k W' : pp_set_admin cx W k = Ok W' -> inv W -> inv W'.
  Proof. unfold pp_set_admin. intros H HI. g_go H. Qed.
  Lemma pp_configure_program_inv cx W s W' : pp_configure_program cx W s = Ok W' -> inv W -> inv W'.
  Proof. unfold pp_configure_program. intros H HI. g_go H. Qed.
  Lemma pp_request_access_inv cx W m W' : pp_request_access cx W m = Ok W' -> inv W -> inv W'.
  Proof. unfold pp_request_access. intros H HI. g_go H. Qed.
  Lemma pp_grant_access_inv cx W W' : pp_grant_access cx W = Ok W' -> inv W -> inv W'.
  Proof. unfold pp_grant_access. intros H HI. g_go H. Qed.
  Lemma pp_deny_access_inv cx W W' : pp_deny_access cx W = Ok W' -> inv W -> inv W'.
  Proof. unfold pp_deny_access. intros H HI. g_go H. Qed.
  Theorem pp_process_inv cx W ix W' : pp_process cx W ix = Ok W' -> inv W -> inv W'.
  Proof.
    destruct ix; cbn [pp_process].
    - apply pp_initialize_program_inv.
    - apply pp_set_admin_inv.
    - apply pp_configure_program_inv.
    - apply pp_request_access_inv.
    - apply pp_grant_access_inv.
    - apply pp_deny_access_inv.
  Qed.

  Lemma withdraw_sol_cpi_inv cx W cfg auth jk dest sol sib W' :
    withdraw_sol_cpi cx W cfg auth jk dest sol sib = Ok W' -> inv W -> inv W'.
  Proof. unfold withdraw_sol_cpi. intros H HI. g_step H. eapply rd_withdraw_sol_inv; eassumption. Qed.
  Ltac g_comp E ::=
    first
    [ eapply distribute_loop_inv in E; [|eassumption]
    | eapply swap_dequeue_cpi_inv in E; [|eassumption]
    | eapply sw_dequeue_fills_inv in E; [|eassumption]
    | eapply withdraw_sol_cpi_inv in E; [|eassumption] ].
  Lemma sw_initialize_inv cx W W' : sw_initialize cx W = Ok W' -> inv W -> inv W'.
  Proof. unfold sw_initialize. intros H HI. g_go H. Qed.
  Lemma sw_buy_sol_inv cx W z sol W' : sw_buy_sol cx W z sol = Ok W' -> inv W -> inv W'.
  Proof. unfold sw_buy_sol. intros H HI. g_go H. Qed.
  Theorem sw_process_inv cx W ix W' : sw_process cx W ix = Ok W' -> inv W -> inv W'.
  Proof.
    destruct ix; cbn [sw_process].
    - apply sw_initialize_inv.
    - apply sw_buy_sol_inv.
    - intros H HI. g_go H.
  Qed.

  (* ---- instructions (top-level System / Token instructions and rogue CPI wrappers included), instruction lists ---- *)
  Theorem exec_data_inv d : forall prog ms h sib W W', exec_data prog d ms h sib W = Ok W' -> inv W -> inv W'.
  Proof.
    induction d as [i|i|i|amt|lam space o|amt|amt dec|amt|inner IH|z sol|]; intros prog ms h sib W W' H HI;
      cbn [exec_data] in H; apply bind_ok in H as (W1 & E & H); apply bind_ok in H as (u & _ & H); injection H as <-.
    - destruct prog; try discriminate E. eapply pp_process_inv; eassumption.
    - destruct prog; try discriminate E. eapply rd_process_inv; eassumption.
    - destruct prog; try discriminate E. eapply sw_process_inv; eassumption.
    - destruct prog; try discriminate E. g_step E. eapply sys_transfer_core_inv; eassumption.
    - destruct prog; try discriminate E. g_step E. eapply sys_create_account_core_inv; eassumption.
    - destruct prog; try discriminate E. g_step E. eapply tok_transfer_core_inv; eassumption.
    - destruct prog; try discriminate E. g_step E. eapply tok_transfer_core_inv; eassumption.
    - destruct prog; try discriminate E. g_step E. eapply tok_burn_core_inv; eassumption.
    - destruct prog; try discriminate E. destruct ms as [|callee rest]; [discriminate E|].
      g_step E. eapply IH; eassumption.
    - destruct prog; try discriminate E. g_go E.
    - destruct prog; injection E as <-; exact HI.
  Qed.
  Theorem exec_ixs_inv t ixs : forall prev W W', exec_ixs t ixs prev W = Ok W' -> inv W -> inv W'.
  Proof.
    induction ixs as [|i tl IH]; intros prev W W' H HI; cbn [exec_ixs] in H.
    - injection H as <-. exact HI.
    - apply bind_ok in H as (W1 & E & H). eapply IH; [exact H|]. eapply exec_data_inv; eassumption.
  Qed.

  (* the same for instructions / transactions that contain no PayDebt, WriteOff or DistributeRewards (at any CPI depth) *)
  Fixpoint quiet (d : ixdata) : bool :=
    match d with IxRd i => quiet_rd i | IxRogueCpi inner => quiet inner | _ => true end.
  Definition quiet_ixs (ixs : list instr) : bool := forallb (fun i => quiet (i_data i)) ixs.
  Theorem exec_data_inv_quiet d : forall prog ms h sib W W',
    quiet d = true -> exec_data prog d ms h sib W = Ok W' -> inv W -> inv W'.
  Proof.
    induction d as [i|i|i|amt|lam space o|amt|amt dec|amt|inner IH|z sol|]; intros prog ms h sib W W' Hq H HI;
      cbn [exec_data] in H; apply bind_ok in H as (W1 & E & H); apply bind_ok in H as (u & _ & H); injection H as <-.
    - destruct prog; try discriminate E. eapply pp_process_inv; eassumption.
    - destruct prog; try discriminate E. eapply rd_process_inv_quiet; eassumption.
    - destruct prog; try discriminate E. eapply sw_process_inv; eassumption.
    - destruct prog; try discriminate E. g_step E. eapply sys_transfer_core_inv; eassumption.
    - destruct prog; try discriminate E. g_step E. eapply sys_create_account_core_inv; eassumption.
    - destruct prog; try discriminate E. g_step E. eapply tok_transfer_core_inv; eassumption.
    - destruct prog; try discriminate E. g_step E. eapply tok_transfer_core_inv; eassumption.
    - destruct prog; try discriminate E. g_step E. eapply tok_burn_core_inv; eassumption.
    - destruct prog; try discriminate E. destruct ms as [|callee rest]; [discriminate E|].
      g_step E. eapply IH; eassumption.
    - destruct prog; try discriminate E. g_go E.
    - destruct prog; injection E as <-; exact HI.
  Qed.
  Theorem exec_ixs_inv_quiet t ixs : forall prev W W', quiet_ixs ixs = true -> exec_ixs t ixs prev W = Ok W' -> inv W -> inv W'.
  Proof.
    induction ixs as [|i tl IH]; intros prev W W' Hq H HI; cbn [exec_ixs] in H.
    - injection H as <-. exact HI.
    - cbn [quiet_ixs forallb] in Hq. apply andb_true_iff in Hq as (Hq1 & Hq2).
      apply bind_ok in H as (W1 & E & H). eapply IH; [exact Hq2|exact H|]. eapply exec_data_inv_quiet; eassumption.
  Qed.
  Theorem exec_tx_cases_quiet W t W' ok : quiet_ixs (tx_ixs t) = true -> exec_tx W t = (W', ok) -> inv W ->
    W' = W \/ exists W1, inv W1 /\ W' = purge W1.
  Proof.
    unfold exec_tx. intros Hq H HI. destruct (negb (tx_wf t)); [injection H as <- _; left; reflexivity|].
    destruct (exec_ixs t (tx_ixs t) None W) as [W1|e] eqn:E; [|injection H as <- _; left; reflexivity].
    destruct (rent_ok t W W1); injection H as <- _; [|left; reflexivity].
    right. exists W1. split; [|reflexivity]. eapply exec_ixs_inv_quiet; eassumption.
  Qed.

  (* ---- the scenario operations that are not transactions (OForge excluded) ---- *)
  Definition nontx_op (o : op) : Prop := match o with OTx _ | OForge _ _ => False | _ => True end.
  Theorem exec_op_nontx_inv W o : nontx_op o -> inv W -> inv (fst (exec_op W o)).
  Proof.
    intros Ho HI. destruct o as [t|ts|k lam|k a|k amt|payer o_]; cbn [exec_op]; try destruct Ho.
    - exact HI.
    - cbn [fst]. apply inv_put; [exact HI|]. eapply A_ext; [| |apply HI]; reflexivity.
    - destruct (as_token W k) as [t|] eqn:Et; [|exact HI]. destruct (as_mint W KMint) as [m|] eqn:Em; [|exact HI]. cbn [fst].
      apply as_mint_ok in Em as (Hmo & _).
      apply inv_put; [eapply put_token_inv; [exact HI|exact Et]|].
      apply (tok_owned_free _ _ HI Hmo). exact Logic.I.
    - destruct (_ && _) eqn:Ec; [|exact HI]. cbn [fst]. rg_norm.
      apply inv_put.
      + apply inv_put; [exact HI|]. eapply A_ext; [| |apply HI]; reflexivity.
      + assert (F : free_key (KAta o_ KMint)).
        { eapply not_rd_free; [exact HI|]. match goal with Hs : owner _ = KSystem |- _ => rewrite Hs end. discriminate. }
        apply F. exact Logic.I.
  Qed.
  (* a transaction: the world after its instruction list, before the end-of-transaction purge *)
  Theorem exec_tx_cases W t W' ok : exec_tx W t = (W', ok) -> inv W ->
    W' = W \/ exists W1, inv W1 /\ W' = purge W1.
  Proof.
    unfold exec_tx. intros H HI. destruct (negb (tx_wf t)); [injection H as <- _; left; reflexivity|].
    destruct (exec_ixs t (tx_ixs t) None W) as [W1|e] eqn:E; [|injection H as <- _; left; reflexivity].
    destruct (rent_ok t W W1); injection H as <- _; [|left; reflexivity].
    right. exists W1. split; [|reflexivity]. eapply exec_ixs_inv; eassumption.
  Qed.
End Generic.

(* ==================================================================================================================
   INDEX of Lemmas_Ledger.v (part 1; the instances and the user-level theorems are in Lemmas_Ledger2.v)
   bit counting
     count_bits f n            number of j < n with f j = true;  count_bits_ext / _le / _false / _set (+1) / _split / _zero_all
     popcount t s e            set bits among ALL 8 * (e - s) positions of byte window [s, e) of the remaining data `t`
     popcount_le, popcount_ext, popcount_empty, popcount_zero_all, popcount_app_zeros, popcount_fresh (appended window = 0)
     popcount_set              process_leaf t s e idx = Ok t' -> popcount t' s e = popcount t s e + 1
     popcount_other            process_leaf t s0 e0 idx = Ok t' -> e <= s0 \/ e0 <= s -> popcount t' s e = popcount t s e
     process_leaf_length / _mono / _range_mono     length kept; no bit is ever cleared
   ledger view
     lview, lv d               flags (l_df l_rf l_wf), windows (l_ds l_de | l_rs l_re | l_ws l_we), counters (l_pc l_wc l_dc) of a dist
     wf_lv v t (Record)        w_len (windows tile the data), w_dwin / w_rwin / w_wwin (start <= end <= length, size <= MAX_REALLOC),
                               w_dr / w_dw / w_rw (pairwise disjoint), w_dflag / w_rflag / w_wflag (flag false -> window 0..0),
                               w_rf_df / w_wf_df (rewards-final / write-off-enabled -> debt-final),
                               w_dcount: popcount debt = l_pc + l_wc;  w_wcount: popcount write-off = l_wc;  w_rcount: popcount rewards = l_dc
                               (equalities in N: no u32 wrap-around);  w_sub: write-off bit j set -> j inside the debt window and debt bit j set
     wf_dist d t := wf_lv (lv d) t;   wf_lv0 : wf_lv lv0 [];   wf_counts_small / wf_counts_u32 (counters <= 81 920 < 2^32);
     wf_unflagged_counts       flag false -> the corresponding counters are 0
   updates
     lv_step v t v' t'         the 8 ways a processor changes a distribution's ledger (LS_same, LS_debt_zero, LS_debt_alloc, LS_rew_alloc,
                               LS_wo_alloc, LS_pay, LS_wo, LS_dist); ls_* = the same with the new view given by an equation
     lv_step_wf                wf_lv v t -> lv_step v t v' t' -> wf_lv v' t'
     lv_le v t v' t'           windows fixed once their flag is set, flags stay set, every bit of t still set in t', length t <= length t'
     lv_le_refl, lv_le_trans, lv_step_le (lv_step v t v' t' -> lv_le v t v' t'), lv_le_range
   generic preservation (Section Generic; A : key -> acct -> Prop with A_ext, A_free, A_dist; R : the ledger updates allowed at a
   distribution address, with one introduction hypothesis per lv_step rule: R_same, R_debt_zero, R_debt_alloc, R_rew_alloc, R_wo_alloc,
   R_pay, R_wo, R_dist -- every lemma is generalised only over the rules its proof uses; instantiate R := lv_step with the ls_ lemmas)
     inv A W := forall k, A k (get W k);  free_key A k, dist_key A R k d t, wperm A k x;  okw x (data that may be written where no
     distribution lives)
     <primitive>_inv           write_data / put_dist (need wperm), try_initialize (okw; also yields free_key), credit, debit, resize,
                               sys_transfer(_core), sys_create_account_core, create_account, create_token_account, put_token,
                               tok_transfer(_core|_checked), tok_burn(_core), grow_and_fund (the realloc bound is handed to the side
                               condition), distribute_loop, sw_dequeue_fills, swap_dequeue_cpi, withdraw_sol_cpi
     rd_<name>_inv (all 22), rd_process_inv, pp_<name>_inv (6), pp_process_inv, sw_initialize_inv, sw_buy_sol_inv, sw_process_inv
     exec_data_inv             any program id, any ixdata (top-level System / Token, rogue CPI, rogue buy), any stack height
     exec_ixs_inv              instruction lists of a transaction
     quiet_rd ix / quiet d / quiet_ixs ixs     no PayDebt, WriteOff, DistributeRewards (at any CPI depth)
     rd_process_inv_quiet, exec_data_inv_quiet, exec_ixs_inv_quiet, exec_tx_cases_quiet     the same theorems for quiet instructions:
                               they need only R_same, R_debt_zero and the three R_*_alloc (no R_pay / R_wo / R_dist)
     exec_op_nontx_inv         OSetClock / OAirdrop / OMintTo / OCreateAta
     exec_tx_cases             exec_tx W t = (W', ok) -> inv A W -> W' = W \/ exists W1, inv A W1 /\ W' = purge W1
   ================================================================================================================== *)
