(* The sizes, limits and rent parameters the model uses are the ones of the crates linked from /repo right now
   (Generated.v is rewritten by `dzh dump-constants` on every run): a changed constant breaks these equalities. *)
From DZ Require Import Base Generated Keys Merkle BurnRate Shares Swap_Ring State World SwapDeq RD Passport Swap.

Lemma model_constants_are_crate_constants :
  LEN_CONFIG_ALLOC = G_MAX_PERMITTED_DATA_INCREASE /\ MAX_REALLOC = G_MAX_PERMITTED_DATA_INCREASE /\
  G_LEN_RD_CONFIG = 608 /\ G_LEN_JOURNAL = 72 /\
  LEN_DIST = G_LEN_DIST /\ LEN_DEPOSIT = G_LEN_DEPOSIT /\ LEN_CONTRIB = G_LEN_CONTRIB /\
  LEN_PP_CONFIG = G_LEN_PP_CONFIG /\ LEN_ACCESS_REQ = G_LEN_ACCESS_REQ /\ ACCESS_MODE_MAX = G_ACCESS_MODE_MAX /\
  LEN_FILLS = G_LEN_FILLS /\ LEN_TOKEN = G_LEN_TOKEN /\ LEN_MINT = G_LEN_MINT /\
  rent 0 = G_RENT_0 /\ rent 1000 = G_RENT_1000 /\ MINT_DECIMALS = G_MINT_DECIMALS /\ G_RELAY_MIN_LAMPORTS = 5001 /\
  G_DIST_FLAG_BITS = [1; 2; 3; 4].
Proof. repeat split; reflexivity. Qed.

(* the flag bits the harness decodes the state accounts with ([rd paused; rd migrated; contributor blocked; passport paused;
   passport request-access paused]) are the documented ones *)
Lemma state_flag_bits_are_crate_constants : G_STATE_FLAG_BITS = [0; 1; 0; 0; 1].
Proof. reflexivity. Qed.
