(* Exact functional specifications (effect + frame) of the world primitives used by the fund-moving
   revenue-distribution processors.  Part 1 of Lemmas_RdSpecs*: world lemmas, primitives, helpers.
   Every statement is of the form   prim .. = Ok W' -> guards /\ now W' = now W /\ forall k, get W' k = <function of W, k>.
   Parts: Lemmas_RdSpecs2 (pay-debt, write-off), 3 (finalize-debt / finalize-rewards / enable-write-off), 4 (withdraw-sol,
   sweep), 5 (distribute-rewards; umbrella import).  The index of all lemma names is at the end of Lemmas_RdSpecs5.v. *)
From DZ Require Import Base Keys Merkle BurnRate Shares Swap_Ring State World SwapDeq RD Lemmas_Merkle Lemmas_C20.

(* ------------------------------------------------------------------------------------------------ tactics *)
Ltac inv_step :=
  match goal with
  | H : bind ?m _ = Ok _ |- _ =>
      let a := fresh "a" in let Hm := fresh "Hm" in apply bind_ok in H; destruct H as (a & Hm & H)
  | H : require _ _ = Ok _ |- _ => apply require_ok in H
  | H : Err _ = Ok _ |- _ => discriminate H
  | H : of_option ?o _ = Ok _ |- _ =>
      let E := fresh "Eo" in destruct o eqn:E; cbn [of_option] in H; [injection H as H; try (match type of H with ?x = ?y => first [is_var y; subst y | is_var x; subst x] end)|discriminate H]
  | H : match ?x with (_, _) => _ end = Ok _ |- _ => destruct x
  | H : (let _ := _ in _) = Ok _ |- _ => cbv zeta in H
  | u : unit |- _ => destruct u
  end.
Ltac inv_all := repeat inv_step.
Ltac ok_inj_go :=
  lazymatch goal with
  | |- _ = _ -> _ =>
      let E := fresh "E" in intro E;
      try (match type of E with ?x = ?y => first [is_var y; subst y | is_var x; subst x] end); ok_inj_go
  | _ => idtac
  end.
Ltac ok_inj H := injection H; clear H; ok_inj_go.

(* ------------------------------------------------------------------------------------------------ world *)
Lemma get_put W k k' a : get (put W k a) k' = if key_eqb k k' then a else get W k'.
Proof. unfold get, put. cbn. rewrite lookup_upd. destruct (key_eqb k k'); reflexivity. Qed.
Lemma get_put_same W k a : get (put W k a) k = a.
Proof. rewrite get_put, key_eqb_refl. reflexivity. Qed.
Lemma get_put_other W k k' a : k <> k' -> get (put W k a) k' = get W k'.
Proof. intros H. rewrite get_put, key_eqb_neq by assumption. reflexivity. Qed.
Lemma now_put W k a : now (put W k a) = now W.
Proof. reflexivity. Qed.
Lemma key_eqb_sym a b : key_eqb a b = key_eqb b a.
Proof. destruct (key_eqb_spec a b) as [->|H]; [rewrite key_eqb_refl; reflexivity|].
  symmetry. apply key_eqb_neq. congruence. Qed.

Lemma acct_ext a b : lamports a = lamports b -> owner a = owner b -> alen a = alen b -> data a = data b -> a = b.
Proof. destruct a, b; cbn; intros; subst; reflexivity. Qed.
Lemma set_lamports_id a : a <| lamports := lamports a |> = a.
Proof. destruct a; reflexivity. Qed.
Lemma set_data_id a d : data a = d -> a <| data := d |> = a.
Proof. destruct a; cbn; intros <-; reflexivity. Qed.
Lemma set_alen_id a : a <| alen := alen a |> = a.
Proof. destruct a; reflexivity. Qed.
Lemma set_tamount_id t : t <| t_amount := t_amount t |> = t.
Proof. destruct t; reflexivity. Qed.

(* data of different shape => different keys *)
Lemma data_neq_keys W a b : data (get W a) <> data (get W b) -> a <> b.
Proof. intros H ->. apply H. reflexivity. Qed.
Lemma owner_neq_keys W a b : owner (get W a) <> owner (get W b) -> a <> b.
Proof. intros H ->. apply H. reflexivity. Qed.

(* ------------------------------------------------------------------------------------------------ metas *)
Lemma is_writable_in ms m : In m ms -> mwritable m = true -> is_writable ms (mkey m) = true.
Proof. intros Hin Hw. unfold is_writable. apply existsb_exists. exists m. rewrite key_eqb_refl, Hw. auto. Qed.
Lemma is_signer_in ms m : In m ms -> msigner m = true -> is_signer ms (mkey m) = true.
Proof. intros Hin Hw. unfold is_signer. apply existsb_exists. exists m. rewrite key_eqb_refl, Hw. auto. Qed.
Lemma has_key_in ms m : In m ms -> has_key ms (mkey m) = true.
Proof. intros Hin. unfold has_key. apply existsb_exists. exists m. rewrite key_eqb_refl. auto. Qed.

Lemma next_account_ok ms s w own W m tl :
  next_account ms s w own W = Ok (m, tl) ->
  ms = m :: tl /\ (s = true -> msigner m = true) /\ (w = true -> mwritable m = true) /\
  (forall p, own = Some p -> owner (get W (mkey m)) = p).
Proof.
  unfold next_account. destruct ms as [|m0 tl0]; [discriminate|]. intros H. inv_all. ok_inj H.
  repeat split.
  - intros ->. cbn in Hm. exact Hm.
  - intros ->. cbn in Hm0. exact Hm0.
  - intros p ->. apply key_eqb_eq in Hm1. exact Hm1.
Qed.
Lemma next_any_ok ms W m tl : next_any ms W = Ok (m, tl) -> ms = m :: tl.
Proof. intros H. apply next_account_ok in H. tauto. Qed.

Ltac zc_tac :=
  let H := fresh "H" in
  intros H; inv_all;
  match goal with Hm : next_account _ _ _ _ _ = Ok _ |- _ => apply next_account_ok in Hm; destruct Hm as (-> & _ & ? & Ho) end;
  match goal with H : match data ?a with _ => _ end = Ok _ |- _ => destruct (data a) eqn:?; try discriminate H; ok_inj H end;
  eexists; repeat split; eauto.

Lemma rd_zc_config_ok ms w W k c tl : rd_zc_config ms w W = Ok (k, c, tl) ->
  exists m, ms = m :: tl /\ k = mkey m /\ (w = true -> mwritable m = true) /\ owner (get W k) = KRd /\ data (get W k) = DConfig c.
Proof. unfold rd_zc_config. zc_tac. Qed.
Lemma rd_zc_dist_ok ms w W k d t tl : rd_zc_dist ms w W = Ok (k, d, t, tl) ->
  exists m, ms = m :: tl /\ k = mkey m /\ (w = true -> mwritable m = true) /\ owner (get W k) = KRd /\ data (get W k) = DDist d t.
Proof. unfold rd_zc_dist. zc_tac. Qed.
Lemma rd_zc_journal_ok ms w W k j tl : rd_zc_journal ms w W = Ok (k, j, tl) ->
  exists m, ms = m :: tl /\ k = mkey m /\ (w = true -> mwritable m = true) /\ owner (get W k) = KRd /\ data (get W k) = DJournal j.
Proof. unfold rd_zc_journal. zc_tac. Qed.
Lemma rd_zc_deposit_ok ms w W k d tl : rd_zc_deposit ms w W = Ok (k, d, tl) ->
  exists m, ms = m :: tl /\ k = mkey m /\ (w = true -> mwritable m = true) /\ owner (get W k) = KRd /\ data (get W k) = DDeposit d.
Proof. unfold rd_zc_deposit. zc_tac. Qed.
Lemma rd_zc_contrib_ok ms w W k c tl : rd_zc_contrib ms w W = Ok (k, c, tl) ->
  exists m, ms = m :: tl /\ k = mkey m /\ (w = true -> mwritable m = true) /\ owner (get W k) = KRd /\ data (get W k) = DContrib c.
Proof. unfold rd_zc_contrib. zc_tac. Qed.

Lemma rd_verified_ok ms w who W k c tl : rd_verified ms w who W = Ok (k, c, tl) ->
  exists m a, ms = m :: a :: tl /\ k = mkey m /\ (w = true -> mwritable m = true) /\ owner (get W k) = KRd /\
              data (get W k) = DConfig c /\ msigner a = true /\ mkey a = role_key c who.
Proof.
  unfold rd_verified. intros H. inv_all. ok_inj H.
  apply rd_zc_config_ok in Hm. destruct Hm as (mc & -> & -> & Hw & Ho & Hd).
  apply next_account_ok in Hm0. destruct Hm0 as (-> & Hs & _ & _).
  apply key_eqb_eq in Hm1. eexists; eexists. repeat split; eauto.
Qed.
Lemma require_unpaused_ok c : require_unpaused c = Ok tt -> c_paused c = false.
Proof. unfold require_unpaused. intros H. inv_all. destruct (c_paused c); [discriminate|reflexivity]. Qed.

Lemma next_2z_token_pda_ok ms o W k tl : next_2z_token_pda ms o W = Ok (k, tl) ->
  exists m, ms = m :: tl /\ mkey m = KTok2z o /\ k = KTok2z o.
Proof. unfold next_2z_token_pda. intros H. inv_all. ok_inj H. apply next_any_ok in Hm. apply key_eqb_eq in Hm0.
  exists m. rewrite Hm0. auto. Qed.
Lemma next_2z_mint_ok ms W tl : next_2z_mint ms W = Ok tl -> exists m, ms = m :: tl /\ mkey m = KMint.
Proof. unfold next_2z_mint. intros H. inv_all. ok_inj H. apply next_any_ok in Hm. apply key_eqb_eq in Hm0. eauto. Qed.
Lemma next_token_program_ok ms W tl : next_token_program ms W = Ok tl -> exists m, ms = m :: tl /\ mkey m = KToken.
Proof. unfold next_token_program. intros H. inv_all. ok_inj H. apply next_any_ok in Hm. apply key_eqb_eq in Hm0. eauto. Qed.

(* ------------------------------------------------------------------------------------------------ direct modifications *)
Lemma credit_spec cx W k amt W' : credit cx W k amt = Ok W' ->
  (amt <> 0 -> is_writable (cx_metas cx) k = true) /\ now W' = now W /\
  forall k', get W' k' = if key_eqb k k' then (get W k) <| lamports := lamports (get W k) + amt |> else get W k'.
Proof.
  unfold credit. destruct (N.eqb_spec amt 0) as [->|Hne]; intros H.
  - ok_inj H. split; [congruence|]. split; [reflexivity|]. intros k'.
    destruct (key_eqb_spec k k') as [->|]; [|reflexivity]. rewrite N.add_0_r, set_lamports_id. reflexivity.
  - inv_all. ok_inj H. split; [auto|]. split; [reflexivity|]. intros k'. apply get_put.
Qed.

Lemma debit_spec cx W k amt W' : debit cx W k amt = Ok W' ->
  (amt <> 0 -> is_writable (cx_metas cx) k = true /\ owner (get W k) = cx_prog cx) /\ amt <= lamports (get W k) /\
  now W' = now W /\
  forall k', get W' k' = if key_eqb k k' then (get W k) <| lamports := lamports (get W k) - amt |> else get W k'.
Proof.
  unfold debit. destruct (N.eqb_spec amt 0) as [->|Hne]; intros H.
  - ok_inj H. split; [congruence|]. split; [lia|]. split; [reflexivity|]. intros k'.
    destruct (key_eqb_spec k k') as [->|]; [|reflexivity]. rewrite N.sub_0_r, set_lamports_id. reflexivity.
  - inv_all. ok_inj H. apply key_eqb_eq in Hm0. apply N.leb_le in Hm1.
    split; [auto|]. split; [assumption|]. split; [reflexivity|]. intros k'. apply get_put.
Qed.

Lemma write_data_spec cx W k d W' : write_data cx W k d = Ok W' ->
  is_writable (cx_metas cx) k = true /\ owner (get W k) = cx_prog cx /\ now W' = now W /\
  forall k', get W' k' = if key_eqb k k' then (get W k) <| data := d |> else get W k'.
Proof.
  unfold write_data. intros H. inv_all. ok_inj H. apply key_eqb_eq in Hm0.
  repeat split; auto. intros k'. apply get_put.
Qed.
Lemma put_dist_spec cx W k d t W' : put_dist cx W k d t = Ok W' ->
  is_writable (cx_metas cx) k = true /\ owner (get W k) = cx_prog cx /\ now W' = now W /\
  forall k', get W' k' = if key_eqb k k' then (get W k) <| data := DDist d t |> else get W k'.
Proof. apply write_data_spec. Qed.

Lemma resize_spec cx W k n W' : resize cx W k n = Ok W' ->
  n <= alen (get W k) + MAX_REALLOC /\ is_writable (cx_metas cx) k = true /\ owner (get W k) = cx_prog cx /\ now W' = now W /\
  forall k', get W' k' = if key_eqb k k' then (get W k) <| alen := n |> else get W k'.
Proof.
  unfold resize. intros H. inv_all. ok_inj H. apply key_eqb_eq in Hm1. apply N.leb_le in Hm.
  repeat split; auto. intros k'. apply get_put.
Qed.

(* ------------------------------------------------------------------------------------------------ CPI metas *)
Definition cpi_meta_ok (cx : ctx) (pdas : list key) (m : meta) : Prop :=
  has_key (cx_metas cx) (mkey m) = true /\
  (mwritable m = true -> is_writable (cx_metas cx) (mkey m) = true) /\
  (msigner m = true -> is_signer (cx_metas cx) (mkey m) = true \/ pda_signs (cx_prog cx) (mkey m) pdas = true).

Lemma cpi_metas_ok cx callee want pdas ms : cpi_metas cx callee want pdas = Ok ms ->
  has_key (cx_metas cx) callee = true /\ Forall (cpi_meta_ok cx pdas) want /\
  ms = map (fun m => {| mkey := mkey m; msigner := is_signer want (mkey m); mwritable := is_writable want (mkey m) |}) want.
Proof.
  unfold cpi_metas. intros H. inv_all. ok_inj H. split; [assumption|]. split; [|reflexivity].
  apply Forall_forall. intros m Hin.
  rewrite forallb_forall in Hm0, Hm1, Hm2. specialize (Hm0 m Hin). specialize (Hm1 m Hin). specialize (Hm2 m Hin).
  unfold cpi_meta_ok. split; [assumption|]. split.
  - intros Hw. rewrite Hw in Hm1. exact Hm1.
  - intros Hs. rewrite Hs in Hm2. cbn in Hm2. apply orb_true_iff in Hm2. exact Hm2.
Qed.

(* ------------------------------------------------------------------------------------------------ System transfer *)
Lemma sys_transfer_core_spec W ms from to amt W' : sys_transfer_core W ms from to amt = Ok W' ->
  is_signer ms from = true /\ alen (get W from) = 0 /\ amt <= lamports (get W from) /\
  (owner (get W from) = KSystem \/ amt = 0) /\ now W' = now W /\
  forall k, get W' k = (get W k) <| lamports := lamports (get W k) - (if key_eqb from k then amt else 0)
                                                                  + (if key_eqb to k then amt else 0) |>.
Proof.
  unfold sys_transfer_core. intros H. inv_all. ok_inj H.
  apply N.eqb_eq in Hm0. apply N.leb_le in Hm1. apply orb_true_iff in Hm2.
  split; [assumption|]. split; [assumption|]. split; [assumption|]. split.
  { destruct Hm2 as [E|E]; [left; apply key_eqb_eq in E; exact E|right; apply N.eqb_eq in E; exact E]. }
  split; [reflexivity|]. intros k.
  rewrite !get_put.
  destruct (key_eqb_spec to k) as [->|Hto]; destruct (key_eqb_spec from k) as [->|Hfrom];
    try (rewrite key_eqb_refl); try (rewrite (key_eqb_neq from k) by assumption);
    apply acct_ext; cbn; try reflexivity; lia.
Qed.

Lemma sys_transfer_spec cx W from to amt pdas W' : sys_transfer cx W from to amt pdas = Ok W' ->
  has_key (cx_metas cx) KSystem = true /\
  is_writable (cx_metas cx) from = true /\ is_writable (cx_metas cx) to = true /\
  (is_signer (cx_metas cx) from = true \/ pda_signs (cx_prog cx) from pdas = true) /\
  alen (get W from) = 0 /\ amt <= lamports (get W from) /\ (owner (get W from) = KSystem \/ amt = 0) /\
  now W' = now W /\
  forall k, get W' k = (get W k) <| lamports := lamports (get W k) - (if key_eqb from k then amt else 0)
                                                                  + (if key_eqb to k then amt else 0) |>.
Proof.
  unfold sys_transfer. intros H. inv_all.
  apply cpi_metas_ok in Hm. destruct Hm as (Hk & Hall & _).
  inversion Hall as [|? ? (_ & Hw1 & Hs1) Hall2]; subst. inversion Hall2 as [|? ? (_ & Hw2 & _) _]; subst.
  apply sys_transfer_core_spec in H. destruct H as (_ & Ha & Hl & Ho & Hn & Hg).
  cbn in Hw1, Hs1, Hw2. repeat split; auto.
Qed.

(* lamport-only reading of a transfer: handy when from/to may alias other accounts *)
Lemma sys_transfer_fields cx W from to amt pdas W' : sys_transfer cx W from to amt pdas = Ok W' ->
  forall k, owner (get W' k) = owner (get W k) /\ alen (get W' k) = alen (get W k) /\ data (get W' k) = data (get W k) /\
            lamports (get W' k) = lamports (get W k) - (if key_eqb from k then amt else 0) + (if key_eqb to k then amt else 0).
Proof. intros H k. apply sys_transfer_spec in H. destruct H as (_ & _ & _ & _ & _ & _ & _ & _ & Hg).
  rewrite Hg. cbn. auto. Qed.

(* ------------------------------------------------------------------------------------------------ SPL Token *)
Lemma as_token_ok W k t : as_token W k = Ok t <-> data (get W k) = DToken t /\ owner (get W k) = KToken.
Proof.
  unfold as_token. split.
  - destruct (data (get W k)) eqn:E; try discriminate. destruct (key_eqb_spec (owner (get W k)) KToken); [|discriminate].
    intros H; ok_inj H. auto.
  - intros [-> ->]. reflexivity.
Qed.
Lemma as_mint_ok W k m : as_mint W k = Ok m <-> data (get W k) = DMint m /\ owner (get W k) = KToken.
Proof.
  unfold as_mint. split.
  - destruct (data (get W k)) eqn:E; try discriminate. destruct (key_eqb_spec (owner (get W k)) KToken); [|discriminate].
    intros H; ok_inj H. auto.
  - intros [-> ->]. reflexivity.
Qed.

Lemma get_put_token W k t k' : get (put_token W k t) k' = if key_eqb k k' then (get W k) <| data := DToken t |> else get W k'.
Proof. unfold put_token. apply get_put. Qed.

Lemma tok_transfer_core_spec W ms src dst auth amt chk W' : tok_transfer_core W ms src dst auth amt chk = Ok W' ->
  exists s d, as_token W src = Ok s /\ as_token W dst = Ok d /\ amt <= t_amount s /\ t_mint s = t_mint d /\
    t_owner s = auth /\ is_signer ms auth = true /\
    (forall mk_ dec, chk = Some (mk_, dec) -> t_mint s = mk_ /\ exists m, as_mint W mk_ = Ok m /\ dec = m_decimals m) /\
    now W' = now W /\
    (src = dst -> forall k, get W' k = get W k) /\
    (src <> dst -> (amt <> 0 -> t_amount d + amt < two64) /\
       forall k, get W' k =
         if key_eqb src k then (get W src) <| data := DToken (s <| t_amount := t_amount s - amt |>) |>
         else if key_eqb dst k then (get W dst) <| data := DToken (d <| t_amount := t_amount d + amt |>) |>
         else get W k).
Proof.
  unfold tok_transfer_core. intros H. inv_all.
  rename a into s, a0 into d.
  apply N.leb_le in Hm1. apply key_eqb_eq in Hm2. apply key_eqb_eq in Hm4.
  exists s, d. split; [assumption|]. split; [assumption|]. split; [assumption|]. split; [assumption|].
  split; [assumption|]. split; [assumption|]. split.
  { intros mk_ dec ->. inv_all. apply key_eqb_eq in Hm6. apply N.eqb_eq in Hm3. eauto. }
  clear Hm3.
  destruct (key_eqb_spec src dst) as [->|Hne].
  { ok_inj H. split; [reflexivity|]. split; [reflexivity|]. congruence. }
  destruct (N.eqb_spec amt 0) as [->|Hamt].
  { ok_inj H. split; [reflexivity|]. split; [congruence|]. intros _. split; [congruence|]. intros k.
    apply as_token_ok in Hm, Hm0. destruct Hm as [Hs _], Hm0 as [Hd _].
    rewrite N.sub_0_r, N.add_0_r, !set_tamount_id, !set_data_id by assumption.
    destruct (key_eqb_spec src k) as [->|]; [reflexivity|]. destruct (key_eqb_spec dst k) as [->|]; reflexivity. }
  inv_all. ok_inj H.
  match goal with Hd' : as_token (put_token _ _ _) dst = Ok ?x |- _ =>
    assert (x = d) as ->;
    [ apply as_token_ok in Hm0, Hd'; destruct Hm0 as [Hd _], Hd' as [Hd' _];
      rewrite get_put_token, key_eqb_neq in Hd' by assumption; congruence | ] end.
  match goal with Hlt : (_ <? two64) = true |- _ => apply N.ltb_lt in Hlt end.
  split; [reflexivity|]. split; [congruence|]. intros _. split; [auto|]. intros k.
  rewrite !get_put_token. rewrite (key_eqb_neq src dst) by assumption.
  destruct (key_eqb_spec dst k) as [->|Hd]; [rewrite (key_eqb_neq src k) by assumption; reflexivity|].
  reflexivity.
Qed.

Lemma tok_transfer_spec cx W src dst auth amt pdas W' : tok_transfer cx W src dst auth amt pdas = Ok W' ->
  has_key (cx_metas cx) KToken = true /\
  (is_signer (cx_metas cx) auth = true \/ pda_signs (cx_prog cx) auth pdas = true) /\
  is_writable (cx_metas cx) src = true /\ is_writable (cx_metas cx) dst = true /\
  exists s d, as_token W src = Ok s /\ as_token W dst = Ok d /\ amt <= t_amount s /\ t_mint s = t_mint d /\
    t_owner s = auth /\ now W' = now W /\
    (src = dst -> forall k, get W' k = get W k) /\
    (src <> dst -> (amt <> 0 -> t_amount d + amt < two64) /\
       forall k, get W' k =
         if key_eqb src k then (get W src) <| data := DToken (s <| t_amount := t_amount s - amt |>) |>
         else if key_eqb dst k then (get W dst) <| data := DToken (d <| t_amount := t_amount d + amt |>) |>
         else get W k).
Proof.
  unfold tok_transfer. intros H. inv_all.
  apply cpi_metas_ok in Hm. destruct Hm as (Hk & Hall & _).
  inversion Hall as [|? ? (_ & Hw1 & _) Hall2]; subst. inversion Hall2 as [|? ? (_ & Hw2 & _) Hall3]; subst.
  inversion Hall3 as [|? ? (_ & _ & Hs3) _]; subst. cbn in Hw1, Hw2, Hs3.
  apply tok_transfer_core_spec in H. destruct H as (s & d & H1 & H2 & H3 & H4 & H5 & _ & _ & H6 & H7 & H8).
  repeat split; auto. exists s, d. repeat split; auto; apply H8; assumption.
Qed.

Lemma tok_burn_core_spec W ms acc mint auth amt W' : tok_burn_core W ms acc mint auth amt = Ok W' ->
  exists s m, as_token W acc = Ok s /\ as_mint W mint = Ok m /\ amt <= t_amount s /\ t_mint s = mint /\ t_owner s = auth /\
    is_signer ms auth = true /\ acc <> mint /\ now W' = now W /\
    forall k, get W' k =
      if key_eqb acc k then (get W acc) <| data := DToken (s <| t_amount := t_amount s - amt |>) |>
      else if key_eqb mint k then (get W mint) <| data := DMint (m <| m_supply := m_supply m - amt |>) |>
      else get W k.
Proof.
  unfold tok_burn_core. intros H. inv_all. rename a into s, a0 into m.
  apply N.leb_le in Hm1. apply key_eqb_eq in Hm2, Hm3.
  assert (acc <> mint) as Hne.
  { apply as_token_ok in Hm. apply as_mint_ok in Hm0. destruct Hm as [E1 _], Hm0 as [E2 _]. intros ->. congruence. }
  exists s, m. repeat (split; [assumption|]).
  destruct (N.eqb_spec amt 0) as [->|Hamt].
  { ok_inj H. split; [reflexivity|]. intros k.
    apply as_token_ok in Hm. apply as_mint_ok in Hm0. destruct Hm as [Hs _], Hm0 as [Hd _].
    assert (m <| m_supply := m_supply m - 0 |> = m) as -> by (rewrite N.sub_0_r; destruct m; reflexivity).
    rewrite N.sub_0_r, set_tamount_id, !set_data_id by assumption.
    destruct (key_eqb_spec acc k) as [->|]; [reflexivity|]. destruct (key_eqb_spec mint k) as [->|]; reflexivity. }
  inv_all. ok_inj H. split; [reflexivity|]. intros k.
  rewrite get_put, !get_put_token, (key_eqb_neq acc mint) by assumption.
  destruct (key_eqb_spec mint k) as [->|]; [rewrite (key_eqb_neq acc k) by assumption; reflexivity|reflexivity].
Qed.

Lemma tok_burn_spec cx W acc mint auth amt pdas W' : tok_burn cx W acc mint auth amt pdas = Ok W' ->
  has_key (cx_metas cx) KToken = true /\
  (is_signer (cx_metas cx) auth = true \/ pda_signs (cx_prog cx) auth pdas = true) /\
  is_writable (cx_metas cx) acc = true /\ is_writable (cx_metas cx) mint = true /\
  exists s m, as_token W acc = Ok s /\ as_mint W mint = Ok m /\ amt <= t_amount s /\ t_mint s = mint /\ t_owner s = auth /\
    acc <> mint /\ now W' = now W /\
    forall k, get W' k =
      if key_eqb acc k then (get W acc) <| data := DToken (s <| t_amount := t_amount s - amt |>) |>
      else if key_eqb mint k then (get W mint) <| data := DMint (m <| m_supply := m_supply m - amt |>) |>
      else get W k.
Proof.
  unfold tok_burn. intros H. inv_all.
  apply cpi_metas_ok in Hm. destruct Hm as (Hk & Hall & _).
  inversion Hall as [|? ? (_ & Hw1 & _) Hall2]; subst. inversion Hall2 as [|? ? (_ & Hw2 & _) Hall3]; subst.
  inversion Hall3 as [|? ? (_ & _ & Hs3) _]; subst. cbn in Hw1, Hw2, Hs3.
  apply tok_burn_core_spec in H. destruct H as (s & m & H1 & H2 & H3 & H4 & H5 & _ & H6 & H7 & H8).
  repeat split; auto. exists s, m. repeat split; auto.
Qed.

(* token instructions touch nothing but `data` *)
Lemma tok_transfer_fields cx W src dst auth amt pdas W' : tok_transfer cx W src dst auth amt pdas = Ok W' ->
  forall k, lamports (get W' k) = lamports (get W k) /\ owner (get W' k) = owner (get W k) /\ alen (get W' k) = alen (get W k).
Proof.
  intros H k. apply tok_transfer_spec in H. destruct H as (_ & _ & _ & _ & s & d & _ & _ & _ & _ & _ & _ & Hsame & Hdiff).
  destruct (key_eq_dec src dst) as [E|E]; [rewrite (Hsame E); auto|].
  destruct (Hdiff E) as (_ & Hg). rewrite Hg.
  destruct (key_eqb_spec src k) as [->|]; [cbn; auto|]. destruct (key_eqb_spec dst k) as [->|]; cbn; auto.
Qed.
Lemma tok_burn_fields cx W acc mint auth amt pdas W' : tok_burn cx W acc mint auth amt pdas = Ok W' ->
  forall k, lamports (get W' k) = lamports (get W k) /\ owner (get W' k) = owner (get W k) /\ alen (get W' k) = alen (get W k).
Proof.
  intros H k. apply tok_burn_spec in H. destruct H as (_ & _ & _ & _ & s & m & _ & _ & _ & _ & _ & _ & _ & Hg).
  rewrite Hg. destruct (key_eqb_spec acc k) as [->|]; [cbn; auto|]. destruct (key_eqb_spec mint k) as [->|]; cbn; auto.
Qed.

(* ------------------------------------------------------------------------------------------------ bitmaps *)
(* bit `b` of byte `pos` of the remaining data; bit `i` of the bitmap that starts at byte `start` *)
Definition byte_bit (tail : list N) (pos b : N) : bool := N.testbit (nth (N.to_nat pos) tail 0) b.
Definition range_bit (tail : list N) (start i : N) : bool := byte_bit tail (start + i / 8) (i mod 8).

Lemma set_bit_byte_spec b i n : N.testbit (set_bit_byte b i) n = N.testbit b n || (n =? i).
Proof. unfold set_bit_byte. rewrite N.lor_spec, N.shiftl_1_l, N.pow2_bits_eqb, (N.eqb_sym i n). reflexivity. Qed.

(* success <-> in range and bit clear; the result is the input with exactly that byte's bit set *)
Theorem process_leaf_spec tail start end_ idx tail' :
  process_leaf tail start end_ idx = Ok tail' <->
  start <= end_ /\ end_ <= N.of_nat (length tail) /\ idx / 8 < end_ - start /\ range_bit tail start idx = false /\
  tail' = set_nth tail (N.to_nat (start + idx / 8)) (set_bit_byte (nth (N.to_nat (start + idx / 8)) tail 0) (idx mod 8)).
Proof.
  unfold process_leaf, range_bit, byte_bit. split.
  - intros H. inv_all. ok_inj H. apply andb_true_iff in Hm. destruct Hm as [H1 H2].
    apply N.leb_le in H1, H2. apply N.ltb_lt in Hm0. apply negb_true_iff in Hm1. auto.
  - intros (H1 & H2 & H3 & H4 & ->). apply N.leb_le in H1, H2. apply N.ltb_lt in H3.
    rewrite H1, H2, H3, H4. reflexivity.
Qed.

Theorem process_leaf_fails_iff tail start end_ idx :
  (exists e, process_leaf tail start end_ idx = Err e) <->
  ~ (start <= end_ /\ end_ <= N.of_nat (length tail) /\ idx / 8 < end_ - start) \/ range_bit tail start idx = true.
Proof.
  split.
  - intros [e He]. destruct (range_bit tail start idx) eqn:Hb; [right; reflexivity|left].
    intros (H1 & H2 & H3).
    assert (process_leaf tail start end_ idx = Ok (set_nth tail (N.to_nat (start + idx / 8))
              (set_bit_byte (nth (N.to_nat (start + idx / 8)) tail 0) (idx mod 8)))) as Hok
      by (apply process_leaf_spec; auto).
    congruence.
  - intros H. destruct (process_leaf tail start end_ idx) as [t|e] eqn:E; [|eauto].
    apply process_leaf_spec in E. destruct E as (H1 & H2 & H3 & H4 & _).
    destruct H as [H|H]; [exfalso; apply H; auto|congruence].
Qed.

(* pointwise effect on all bytes / bits: only bit idx of this range changes (to true); the length is unchanged *)
Theorem process_leaf_bits tail start end_ idx tail' :
  process_leaf tail start end_ idx = Ok tail' ->
  length tail' = length tail /\
  (forall pos b, byte_bit tail' pos b = byte_bit tail pos b || ((pos =? start + idx / 8) && (b =? idx mod 8))) /\
  (forall pos, pos <> start + idx / 8 -> nth (N.to_nat pos) tail' 0 = nth (N.to_nat pos) tail 0).
Proof.
  intros H. apply process_leaf_spec in H. destruct H as (H1 & H2 & H3 & H4 & ->).
  split; [apply set_nth_length|]. split.
  - intros pos b. unfold byte_bit. destruct (N.eqb_spec pos (start + idx / 8)) as [->|Hne].
    + rewrite nth_set_nth_same by lia. rewrite set_bit_byte_spec. reflexivity.
    + rewrite nth_set_nth_other by lia. cbn. rewrite orb_false_r. reflexivity.
  - intros pos Hne. apply nth_set_nth_other. lia.
Qed.

(* a processed leaf can never be processed again (in any window that addresses the same bit) *)
Corollary process_leaf_set_fails tail start end_ idx : range_bit tail start idx = true ->
  exists e, process_leaf tail start end_ idx = Err e.
Proof. intros H. apply process_leaf_fails_iff. right. exact H. Qed.

(* the same in terms of bitmap indices: bit j of a bitmap starting at byte s *)
Lemma bit_index_inj s s' i j : s + i / 8 = s' + j / 8 -> i mod 8 = j mod 8 -> s = s' -> i = j.
Proof. intros. subst. lia. Qed.

Theorem process_leaf_range_bits tail start end_ idx tail' :
  process_leaf tail start end_ idx = Ok tail' ->
  range_bit tail start idx = false /\ range_bit tail' start idx = true /\
  (forall j, j <> idx -> range_bit tail' start j = range_bit tail start j) /\
  (* any other bitmap located in a disjoint byte range is untouched *)
  (forall s e j, j / 8 < e - s -> (e <= start \/ end_ <= s) -> range_bit tail' s j = range_bit tail s j).
Proof.
  intros H. pose proof H as H0. apply process_leaf_spec in H0. destruct H0 as (H1 & H2 & H3 & H4 & _).
  apply process_leaf_bits in H. destruct H as (_ & Hb & _).
  split; [assumption|]. split; [|split].
  - unfold range_bit. rewrite Hb, !N.eqb_refl. apply orb_true_r.
  - intros j Hj. unfold range_bit. rewrite Hb.
    destruct (N.eqb_spec (start + j / 8) (start + idx / 8)); destruct (N.eqb_spec (j mod 8) (idx mod 8)); cbn;
      rewrite ?orb_false_r; try reflexivity. exfalso. apply Hj. lia.
  - intros s e j Hj Hd. unfold range_bit. rewrite Hb.
    destruct (N.eqb_spec (s + j / 8) (start + idx / 8)); cbn; rewrite ?orb_false_r; try reflexivity. exfalso. lia.
Qed.

(* each leaf is processed at most once: after a success the same index is rejected *)
Corollary process_leaf_once tail start end_ idx tail' e' : process_leaf tail start end_ idx = Ok tail' ->
  exists err, process_leaf tail' start e' idx = Err err.
Proof. intros H. apply process_leaf_set_fails. apply (process_leaf_range_bits _ _ _ _ _ H). Qed.

(* appending zero bytes: old bytes unchanged, new bitmap all clear *)
Lemma zeros_length n : length (zeros n) = N.to_nat n.
Proof. unfold zeros. apply repeat_length. Qed.
Lemma byte_bit_app_zeros tail n pos b :
  byte_bit (tail ++ zeros n) pos b = byte_bit tail pos b.
Proof.
  unfold byte_bit. destruct (Nat.lt_ge_cases (N.to_nat pos) (length tail)) as [Hlt|Hge].
  - rewrite app_nth1 by assumption. reflexivity.
  - rewrite app_nth2 by assumption. rewrite (nth_overflow tail) by assumption.
    unfold zeros. destruct (Nat.lt_ge_cases (N.to_nat pos - length tail) (N.to_nat n)) as [H|H].
    + rewrite nth_repeat. reflexivity.
    + rewrite nth_overflow by (rewrite repeat_length; assumption). reflexivity.
Qed.
Lemma range_bit_app_zeros tail n s i : range_bit (tail ++ zeros n) s i = range_bit tail s i.
Proof. apply byte_bit_app_zeros. Qed.
Lemma range_bit_beyond tail s i : N.of_nat (length tail) <= s -> range_bit tail s i = false.
Proof. intros H. unfold range_bit, byte_bit. rewrite nth_overflow by lia. reflexivity. Qed.
Lemma dist_len_app_zeros tail n : dist_len (tail ++ zeros n) = dist_len tail + n.
Proof. unfold dist_len. rewrite app_length, zeros_length. lia. Qed.

(* ------------------------------------------------------------------------------------------------ swap CPI *)
Lemma dequeue_spec r sol r' z : dequeue r sol = Some (r', z) <->
  count r <> 0%nat /\ sol_in (nth (head r) (slots r) empty_fill) = sol /\ z = z_out (nth (head r) (slots r) empty_fill) /\
  r' = {| slots := slots r; head := (head r + 1) mod CAP; count := count r - 1 |}.
Proof.
  unfold dequeue. split.
  - destruct (Nat.eqb_spec (count r) 0); [discriminate|].
    destruct (N.eqb_spec (sol_in (nth (head r) (slots r) empty_fill)) sol); [|discriminate].
    intros H. injection H as <- <-. auto.
  - intros (H1 & H2 & -> & ->). destruct (Nat.eqb_spec (count r) 0); [contradiction|].
    rewrite H2, N.eqb_refl. reflexivity.
Qed.
(* queue reading (for well-formed rings): the oldest fill is consumed, and it must carry exactly `sol` *)
Lemma dequeue_queue r sol r' z : ring_wf r -> dequeue r sol = Some (r', z) ->
  exists f, abs r = f :: abs r' /\ sol_in f = sol /\ z = z_out f /\ ring_wf r'.
Proof.
  intros Hwf H. pose proof (dequeue_refines r sol Hwf) as R. rewrite H in R.
  unfold q_dequeue in R. destruct (abs r) as [|f tl]; [contradiction|].
  destruct (N.eqb_spec (sol_in f) sol); [|contradiction]. destruct R as (Hwf' & -> & ->). eauto.
Qed.

(* the mock swap program: ring dequeue on the fills registry, nothing else changes; reply (sol, z, 1) *)
Lemma sw_dequeue_fills_spec cx' W sol W' rep : sw_dequeue_fills cx' W sol = Ok (W', rep) ->
  exists mc ms mf mj rest, cx_metas cx' = mc :: ms :: mf :: mj :: rest /\ mkey mc = KSwapCfg /\ mkey ms = KSwapState /\
    mwritable mf = true /\ msigner mj = true /\ owner (get W (mkey mf)) = KSwapMock /\
    exists r r' z, data (get W (mkey mf)) = DFills r /\ dequeue r sol = Some (r', z) /\
      rep = Some (KSwapMock, RTriple sol z 1) /\ now W' = now W /\
      forall k, get W' k = if key_eqb (mkey mf) k then (get W (mkey mf)) <| data := DFills r' |> else get W k.
Proof.
  unfold sw_dequeue_fills, sw_zc_fills. intros H. inv_all.
  repeat match goal with
  | H : next_any _ _ = Ok _ |- _ => apply next_any_ok in H
  | H : next_account _ _ _ _ _ = Ok _ |- _ => apply next_account_ok in H; destruct H as (? & ? & ? & ?)
  | H : key_eqb _ _ = true |- _ => apply key_eqb_eq in H
  end.
  match goal with H : match data ?a with _ => _ end = Ok _ |- _ => destruct (data a) eqn:Hd; try discriminate H; ok_inj H end.
  match goal with H : match dequeue ?r ?s with _ => _ end = Ok _ |- _ =>
    destruct (dequeue r s) as [[r' z]|] eqn:Hdq; [|discriminate H] end.
  inv_all. ok_inj H.
  match goal with H : write_data _ _ _ _ = Ok _ |- _ => apply write_data_spec in H; destruct H as (_ & _ & Hn & Hg) end.
  subst. do 5 eexists. split; [eassumption|]. repeat split; auto. do 3 eexists. repeat split; eauto.
Qed.

Theorem swap_dequeue_cpi_mock_spec cx W cfg st fills jk sol pdas W' rep :
  swap_dequeue_cpi cx W KSwapMock cfg st fills jk sol pdas = Ok (W', rep) ->
  has_key (cx_metas cx) KSwapMock = true /\ cfg = KSwapCfg /\ st = KSwapState /\
  is_writable (cx_metas cx) fills = true /\
  (is_signer (cx_metas cx) jk = true \/ pda_signs (cx_prog cx) jk pdas = true) /\
  owner (get W fills) = KSwapMock /\
  exists r r' z, data (get W fills) = DFills r /\ dequeue r sol = Some (r', z) /\
    rep = Some (KSwapMock, RTriple sol z 1) /\ now W' = now W /\
    forall k, get W' k = if key_eqb fills k then (get W fills) <| data := DFills r' |> else get W k.
Proof.
  unfold swap_dequeue_cpi. intros H. inv_all.
  apply cpi_metas_ok in Hm. destruct Hm as (Hk & Hall & ->).
  inversion Hall as [|? ? _ Hall2]; subst. inversion Hall2 as [|? ? _ Hall3]; subst.
  inversion Hall3 as [|? ? (_ & Hw3 & _) Hall4]; subst. inversion Hall4 as [|? ? (_ & _ & Hs4) _]; subst.
  cbn in Hw3, Hs4.
  apply sw_dequeue_fills_spec in H.
  destruct H as (mc & ms & mf & mj & rest & Hms & Hc & Hs & Hwf & Hsj & Ho & r & r' & z & Hd & Hdq & Hrep & Hn & Hg).
  cbn [cx_metas map] in Hms. injection Hms as <- <- <- <- _. cbn [mkey mk] in *.
  repeat split; auto. exists r, r', z. repeat split; auto.
Qed.

(* scripted swap programs of the harness do not touch any account *)
Lemma swap_dequeue_cpi_rogue_spec cx W n cfg st fills jk sol pdas W' rep :
  swap_dequeue_cpi cx W (KRogue n) cfg st fills jk sol pdas = Ok (W', rep) -> W' = W.
Proof.
  unfold swap_dequeue_cpi. intros H. inv_all.
  destruct (data (get W fills)) as [| | | | | | | | | | | |[r|]|]; ok_inj H; reflexivity.
Qed.
Lemma swap_dequeue_cpi_programs cx W sw cfg st fills jk sol pdas W' rep :
  swap_dequeue_cpi cx W sw cfg st fills jk sol pdas = Ok (W', rep) -> sw = KSwapMock \/ exists n, sw = KRogue n.
Proof. unfold swap_dequeue_cpi. intros H. inv_all. destruct sw; try discriminate H; eauto. Qed.

(* ------------------------------------------------------------------------------------------------ normalisation *)
Ltac norm_bool :=
  repeat match goal with
  | H : key_eqb _ _ = true |- _ => apply key_eqb_eq in H
  | H : key_eqb _ _ = false |- _ => apply key_eqb_false in H
  | H : hash_eqb _ _ = true |- _ => apply hash_eqb_eq in H
  | H : negb _ = true |- _ => apply negb_true_iff in H
  | H : negb _ = false |- _ => apply negb_false_iff in H
  | H : _ && _ = true |- _ => apply andb_true_iff in H; destruct H
  | H : N.leb _ _ = true |- _ => apply N.leb_le in H
  | H : N.ltb _ _ = true |- _ => apply N.ltb_lt in H
  | H : N.eqb _ _ = true |- _ => apply N.eqb_eq in H
  | H : N.eqb _ _ = false |- _ => apply N.eqb_neq in H
  | H : N.leb _ _ = false |- _ => apply N.leb_gt in H
  | H : N.ltb _ _ = false |- _ => apply N.ltb_ge in H
  | H : require_unpaused _ = Ok _ |- _ => apply require_unpaused_ok in H
  end.
(* split every key test in the goal *)
Ltac keys_case :=
  repeat match goal with
  | |- context [key_eqb ?a ?b] => destruct (key_eqb_spec a b); subst; try congruence
  end.

(* projections of record updates: f (r <| g := v |>) ~> f r (or v when f = g), everywhere *)
Ltac proj_simpl :=
  repeat match goal with
  | H : context [?f (RecordSet.set ?g ?v ?r)] |- _ =>
      first [ progress change (f (RecordSet.set g v r)) with (f r) in H
            | progress change (f (RecordSet.set f v r)) with (v (f r)) in H; cbv beta in H ]
  | |- context [?f (RecordSet.set ?g ?v ?r)] =>
      first [ progress change (f (RecordSet.set g v r)) with (f r)
            | progress change (f (RecordSet.set f v r)) with (v (f r)); cbv beta ]
  end.

(* ------------------------------------------------------------------------------------------------ non-vacuity *)
Definition ex_cx (prog : key) (ms : list meta) : ctx := {| cx_prog := prog; cx_metas := ms; cx_height := 1; cx_sibling := None |}.
Definition ex_world (l : list (key * acct)) : world := {| accts := l; now := 1000 |}.
Definition ex_tok (own : key) (amt : N) : acct :=
  {| lamports := rent LEN_TOKEN; owner := KToken; alen := LEN_TOKEN; data := DToken {| t_mint := KMint; t_owner := own; t_amount := amt |} |}.
Definition ex_mint (supply : N) : acct :=
  {| lamports := rent LEN_MINT; owner := KToken; alen := LEN_MINT; data := DMint {| m_supply := supply; m_decimals := 8 |} |}.
Definition ex_wallet (l : N) : acct := {| lamports := l; owner := KSystem; alen := 0; data := DEmpty |}.

Example credit_debit_nonvacuous :
  let cx := ex_cx KRd [mk KRdJournal false true; mk (KUser 1) false true] in
  let W := ex_world [(KRdJournal, {| lamports := 100; owner := KRd; alen := 72; data := DJournal journal_default |})] in
  is_ok (W1 <- debit cx W KRdJournal 40 ;; credit cx W1 (KUser 1) 40) = true /\
  is_ok (debit cx W KRdJournal 101) = false /\ is_ok (debit cx W (KUser 1) 1) = false.
Proof. vm_compute. auto. Qed.
Example sys_transfer_nonvacuous :
  let cx := ex_cx KRd [mk (KUser 1) true true; mk (KUser 2) false true; mk KSystem false false] in
  let W := ex_world [(KUser 1, ex_wallet 100)] in
  (exists W', sys_transfer cx W (KUser 1) (KUser 2) 30 [] = Ok W' /\ lamports (get W' (KUser 1)) = 70 /\ lamports (get W' (KUser 2)) = 30) /\
  (exists W', sys_transfer cx W (KUser 1) (KUser 1) 30 [] = Ok W' /\ lamports (get W' (KUser 1)) = 100).
Proof. split; eexists; (split; [vm_compute; reflexivity|vm_compute; auto]). Qed.
Example tok_nonvacuous :
  let cx := ex_cx KRd [mk (KTok2z (KRdDist 1)) false true; mk (KAta (KUser 5) KMint) false true; mk (KRdDist 1) false true;
                       mk KMint false true; mk KToken false false] in
  let W := ex_world [(KTok2z (KRdDist 1), ex_tok (KRdDist 1) 50); (KAta (KUser 5) KMint, ex_tok (KUser 5) 1); (KMint, ex_mint 1000)] in
  (exists W', tok_transfer cx W (KTok2z (KRdDist 1)) (KAta (KUser 5) KMint) (KRdDist 1) 20 [KRdDist 1] = Ok W' /\
     as_token W' (KTok2z (KRdDist 1)) = Ok {| t_mint := KMint; t_owner := KRdDist 1; t_amount := 30 |} /\
     as_token W' (KAta (KUser 5) KMint) = Ok {| t_mint := KMint; t_owner := KUser 5; t_amount := 21 |}) /\
  (exists W', tok_burn cx W (KTok2z (KRdDist 1)) KMint (KRdDist 1) 20 [KRdDist 1] = Ok W' /\
     as_mint W' KMint = Ok {| m_supply := 980; m_decimals := 8 |}).
Proof. split; eexists; (split; [vm_compute; reflexivity|vm_compute; auto]). Qed.
Example process_leaf_nonvacuous :
  process_leaf [0; 0; 0] 1 3 9 = Ok [0; 0; 2] /\ is_ok (process_leaf [0; 0; 2] 1 3 9) = false /\
  is_ok (process_leaf [0; 0; 0] 1 3 16) = false /\ is_ok (process_leaf [0; 0] 1 3 0) = false.
Proof. vm_compute. auto. Qed.
Example swap_dequeue_cpi_mock_nonvacuous :
  let cx := ex_cx KRd [mk KSwapCfg false false; mk KSwapState false false; mk (KUser 9) false true; mk KRdJournal false true;
                       mk KSwapMock false false] in
  let r := {| slots := {| sol_in := 7; z_out := 70 |} :: repeat empty_fill 7; head := 0; count := 1 |} in
  let W := ex_world [(KUser 9, {| lamports := 1; owner := KSwapMock; alen := LEN_FILLS; data := DFills r |})] in
  exists W', swap_dequeue_cpi cx W KSwapMock KSwapCfg KSwapState (KUser 9) KRdJournal 7 [KRdJournal]
             = Ok (W', Some (KSwapMock, RTriple 7 70 1)).
Proof. eexists. vm_compute. reflexivity. Qed.
