(* revenue-distribution: unit shares (types.rs, macro impl_unit_share), RewardShare bit packing (types.rs),
   Distribution::split_2z_amount (state/distribution.rs) and the amount computation of try_distribute_rewards
   (processor.rs), transcribed as coded.  Executable definitions only.
   `None` stands for "returns None" as well as for a Rust panic (`expect`, `unwrap`): both abort the instruction. *)
From DZ Require Import Base.

(* constants of the crate; tied to Generated.v in Lemmas_Shares.shares_constants_generated *)
Definition US16_MAX : N := 10000.                   (* UnitShare16::MAX.0 *)
Definition US32_MAX : N := 1000000000.              (* UnitShare32::MAX.0 *)
Definition FLAG_IS_BLOCKED_BIT : N := 31.           (* RewardShare::FLAG_IS_BLOCKED_BIT *)
Definition FLAG_IS_BLOCKED_MASK : N := N.shiftl 1 FLAG_IS_BLOCKED_BIT.   (* 1 << 31 *)
Definition ECONOMIC_BURN_RATE_MASK : N := 1073741823.                    (* 0x3FFFFFFF *)

(* ---- impl_unit_share!($name, $inner_type, $max_value): `m` = MAX.0, `w` = 2^bits of the inner type ---- *)

(* new: if value <= Self::MAX.0 { Some } else { None } *)
Definition us_new (m v : N) : option N := if v <=? m then Some v else None.

(* mul_scalar::<u64>: u128::from(self.0).saturating_mul(x.into()).saturating_div(Self::MAX.0.into())
   then try_into::<u64>().expect(..)  (None = the expect panics) *)
Definition us_mul_scalar (m s x : N) : option N :=
  let r := sat_mul two128 s x / m in
  if r <? two64 then Some r else None.

(* checked_add: self.0.checked_add(other.0)? then <= MAX *)
Definition us_checked_add (w m a b : N) : option N :=
  match checked_add w a b with
  | Some v => if v <=? m then Some v else None
  | None => None
  end.
Definition us_checked_sub (a b : N) : option N := checked_sub a b.
(* saturating_add: Self(self.0.saturating_add(other.0)).min(Self::MAX) *)
Definition us_saturating_add (w m a b : N) : N := N.min (sat_add w a b) m.
Definition us_saturating_sub (a b : N) : N := sat_sub a b.

Definition us32_new := us_new US32_MAX.
Definition us16_new := us_new US16_MAX.
Definition us32_mul_scalar := us_mul_scalar US32_MAX.
Definition us16_mul_scalar := us_mul_scalar US16_MAX.
Definition us32_checked_add := us_checked_add two32 US32_MAX.
Definition us16_checked_add := us_checked_add two16 US16_MAX.

(* the specification the property texts use: floor(s * x / m) *)
Definition floor_share (m s x : N) : N := s * x / m.

(* ---- RewardShare { contributor_key, unit_share: u32, remaining_bytes: [u8; 4] } ----
   remaining_bytes is carried as the u32 it encodes (to_le_bytes / from_le_bytes are inverse bijections). *)
Notation rkey := N (only parsing).   (* type alias: a 32-byte key read as a 256-bit number; 0 = Pubkey::default() *)
Record reward_share := { rs_key : rkey; rs_unit_share : N; rs_remaining : N }.

Definition reward_share_new (key : rkey) (unit_share : N) (should_block : bool) (ebr : N) : option reward_share :=
  match us32_new unit_share with
  | None => None
  | Some us =>
    match us32_new ebr with
    | None => None
    | Some e =>
      let combined := if should_block then N.lor e FLAG_IS_BLOCKED_MASK else e in
      Some {| rs_key := key; rs_unit_share := us; rs_remaining := combined |}
    end
  end.

Definition rs_checked_unit_share (r : reward_share) : option N := us32_new (rs_unit_share r).
Definition rs_is_blocked (r : reward_share) : bool := negb (N.land (rs_remaining r) FLAG_IS_BLOCKED_MASK =? 0).
Definition rs_economic_burn_rate (r : reward_share) : N := N.land (rs_remaining r) ECONOMIC_BURN_RATE_MASK.
Definition rs_checked_economic_burn_rate (r : reward_share) : option N := us32_new (rs_economic_burn_rate r).
(* `x &= !MASK` on u32 is ldiff (and-not); bits of x above 31 do not exist *)
Definition rs_set_is_blocked (r : reward_share) (b : bool) : reward_share :=
  {| rs_key := rs_key r; rs_unit_share := rs_unit_share r;
     rs_remaining := if b then N.lor (rs_remaining r) FLAG_IS_BLOCKED_MASK
                     else N.ldiff (rs_remaining r) FLAG_IS_BLOCKED_MASK |}.
Definition rs_set_economic_burn_rate (r : reward_share) (e : N) : reward_share :=
  {| rs_key := rs_key r; rs_unit_share := rs_unit_share r;
     rs_remaining := N.lor (N.ldiff (rs_remaining r) ECONOMIC_BURN_RATE_MASK) e |}.

(* ---- Distribution ---- *)
(* total_collected_2z_tokens: collected_prepaid_2z_payments.checked_add(collected_2z_converted_from_sol).unwrap() *)
Definition total_collected_2z (prepaid converted : N) : option N := checked_add two64 prepaid converted.
(* burn_rate: economic_burn_rate.max(self.community_burn_rate) *)
Definition burn_rate (cbr ebr : N) : N := N.max ebr cbr.

(* split_2z_amount(&self, reward_share) -> Option<(burn_share_amount, share_amount - burn_share_amount)>;
   `cbr` is the stored community_burn_rate (a Pod u32, not re-validated here), `total` = total_collected_2z_tokens() *)
Definition split_2z_amount (cbr total : N) (r : reward_share) : option (N * N) :=
  match rs_checked_unit_share r with
  | None => None
  | Some us =>
    match rs_checked_economic_burn_rate r with
    | None => None
    | Some ebr =>
      let rate := burn_rate cbr ebr in
      match us32_mul_scalar us total with
      | None => None
      | Some share_amount =>
        match us32_mul_scalar rate share_amount with
        | None => None
        | Some burn_share_amount => Some (burn_share_amount, wsub64 share_amount burn_share_amount)
        end
      end
    end
  end.

(* try_distribute_rewards, the loop over recipient_shares.active_iter():
     recipient_share_amount = share.mul_scalar(remaining_share_amount);
     total_transferred_share_amount += recipient_share_amount;         (u64, overflow checks off)
   returns (total_transferred_share_amount, amounts in iteration order) *)
Fixpoint transfer_loop (remaining : N) (recips : list (rkey * N)) (acc : N) : option (N * list N) :=
  match recips with
  | [] => Some (acc, [])
  | (_, s) :: tl =>
    match us16_mul_scalar s remaining with
    | None => None
    | Some a =>
      match transfer_loop remaining tl (wadd64 acc a) with
      | Some (t, l) => Some (t, a :: l)
      | None => None
      end
    end
  end.

(* the pure amount computation of try_distribute_rewards in the code's order:
   RewardShare::new(.., unit_share, false, economic_burn_rate)?; split_2z_amount(..).unwrap(); the recipient loop;
   `if transfer_count == 0 { Err }`; burn_share_amount += remaining_share_amount - total_transferred_share_amount.
   Result: (burn_share_amount, total_transferred_share_amount, per-recipient transfer amounts). *)
Definition distribute_amounts_full (unit_share ebr cbr : N) (total : N) (recips : list (rkey * N))
  : option (N * N * list N) :=
  match reward_share_new 0 unit_share false ebr with
  | None => None
  | Some rs =>
    match split_2z_amount cbr total rs with
    | None => None
    | Some (burn0, remaining) =>
      match transfer_loop remaining recips 0 with
      | None => None
      | Some (transferred, amounts) =>
        match recips with
        | [] => None
        | _ :: _ => Some (wadd64 burn0 (wsub64 remaining transferred), transferred, amounts)
        end
      end
    end
  end.

Definition distribute_amounts (unit_share ebr cbr : N) (total : N) (recips : list (rkey * N)) : option (N * list N) :=
  match distribute_amounts_full unit_share ebr cbr total recips with
  | Some (burn, _, amounts) => Some (burn, amounts)
  | None => None
  end.
