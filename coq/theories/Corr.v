(* Correspondence check: structural equality of observed and predicted accounts, and the trace checker evaluated
   (vm_compute) on the cases the harness writes.  Executable definitions only. *)
From DZ Require Import Base Keys Merkle BurnRate Shares Swap_Ring State World SwapDeq RD Passport Swap Exec.

Definition bool_eqb := Bool.eqb.
Fixpoint list_eqb {A} (eq : A -> A -> bool) (a b : list A) : bool :=
  match a, b with [], [] => true | x :: xs, y :: ys => eq x y && list_eqb eq xs ys | _, _ => false end.
Definition opt_eqb {A} (eq : A -> A -> bool) (a b : option A) : bool :=
  match a, b with Some x, Some y => eq x y | None, None => true | _, _ => false end.

Definition rd_config_eqb (a b : rd_config) : bool :=
  bool_eqb (c_paused a) (c_paused b) && bool_eqb (c_migrated a) (c_migrated b) && N.eqb (c_next_epoch a) (c_next_epoch b) &&
  bool_eqb (c_has_swap_auth_bump a) (c_has_swap_auth_bump b) && bool_eqb (c_has_swap_dest_bump a) (c_has_swap_dest_bump b) &&
  bool_eqb (c_has_withdraw_bump a) (c_has_withdraw_bump b) && key_eqb (c_admin a) (c_admin b) &&
  key_eqb (c_debt_accountant a) (c_debt_accountant b) && key_eqb (c_rewards_accountant a) (c_rewards_accountant b) &&
  key_eqb (c_contributor_manager a) (c_contributor_manager b) && key_eqb (c_swap_program a) (c_swap_program b) &&
  N.eqb (c_calc_grace_min a) (c_calc_grace_min b) && N.eqb (c_init_grace_min a) (c_init_grace_min b) &&
  N.eqb (c_min_epochs a) (c_min_epochs b) && params_eqb (c_burn a) (c_burn b) && fee_eqb (c_fees a) (c_fees b) &&
  N.eqb (c_relay a) (c_relay b) && N.eqb (c_last_init_ts a) (c_last_init_ts b) &&
  N.eqb (c_writeoff_activation a) (c_writeoff_activation b).
Definition journal_eqb (a b : journal) : bool :=
  N.eqb (j_total_sol a) (j_total_sol b) && N.eqb (j_total_2z a) (j_total_2z b) &&
  N.eqb (j_swap_dest_balance a) (j_swap_dest_balance b) && N.eqb (j_swapped_sol a) (j_swapped_sol b) &&
  N.eqb (j_next_sweep a) (j_next_sweep b) && N.eqb (j_lifetime_2z a) (j_lifetime_2z b).
Definition dist_eqb (a b : dist) : bool :=
  N.eqb (d_epoch a) (d_epoch b) && bool_eqb (d_debt_final a) (d_debt_final b) && bool_eqb (d_rewards_final a) (d_rewards_final b) &&
  bool_eqb (d_swept a) (d_swept b) && bool_eqb (d_writeoff_enabled a) (d_writeoff_enabled b) && N.eqb (d_cbr a) (d_cbr b) &&
  fee_eqb (d_fees a) (d_fees b) && hash_eqb (d_debt_root a) (d_debt_root b) &&
  N.eqb (d_total_validators a) (d_total_validators b) && N.eqb (d_payments_count a) (d_payments_count b) &&
  N.eqb (d_total_debt a) (d_total_debt b) && N.eqb (d_collected_sol a) (d_collected_sol b) &&
  hash_eqb (d_rewards_root a) (d_rewards_root b) && N.eqb (d_total_contributors a) (d_total_contributors b) &&
  N.eqb (d_distributed_count a) (d_distributed_count b) && N.eqb (d_prepaid_2z a) (d_prepaid_2z b) &&
  N.eqb (d_swept_2z a) (d_swept_2z b) && N.eqb (d_uncollectible a) (d_uncollectible b) &&
  N.eqb (d_debt_start a) (d_debt_start b) && N.eqb (d_debt_end a) (d_debt_end b) &&
  N.eqb (d_rew_start a) (d_rew_start b) && N.eqb (d_rew_end a) (d_rew_end b) && N.eqb (d_relay a) (d_relay b) &&
  N.eqb (d_calc_allowed_ts a) (d_calc_allowed_ts b) && N.eqb (d_distributed_2z a) (d_distributed_2z b) &&
  N.eqb (d_burned_2z a) (d_burned_2z b) && N.eqb (d_wo_start a) (d_wo_start b) && N.eqb (d_wo_end a) (d_wo_end b) &&
  N.eqb (d_writeoff_count a) (d_writeoff_count b).
Definition deposit_eqb (a b : deposit) : bool := key_eqb (dp_node a) (dp_node b) && N.eqb (dp_written_off a) (dp_written_off b).
Definition keyN_eqb (a b : key * N) : bool := key_eqb (fst a) (fst b) && N.eqb (snd a) (snd b).
Definition contrib_eqb (a b : contrib) : bool :=
  key_eqb (cr_manager a) (cr_manager b) && key_eqb (cr_service a) (cr_service b) && bool_eqb (cr_blocked a) (cr_blocked b) &&
  list_eqb keyN_eqb (cr_recipients a) (cr_recipients b).
Definition pp_config_eqb (a b : pp_config) : bool :=
  bool_eqb (pc_paused a) (pc_paused b) && bool_eqb (pc_request_paused a) (pc_request_paused b) &&
  key_eqb (pc_admin a) (pc_admin b) && key_eqb (pc_sentinel a) (pc_sentinel b) && N.eqb (pc_deposit a) (pc_deposit b) &&
  N.eqb (pc_fee a) (pc_fee b) && N.eqb (pc_backup_limit a) (pc_backup_limit b).
Definition attestation_eqb (a b : attestation) : bool :=
  key_eqb (at_validator a) (at_validator b) && key_eqb (at_service a) (at_service b) && N.eqb (at_sig a) (at_sig b).
Definition access_mode_eqb (a b : access_mode) : bool :=
  match a, b with
  | AMValidator x, AMValidator y => attestation_eqb x y
  | AMValidatorWithBackups x l, AMValidatorWithBackups y l' => attestation_eqb x y && list_eqb key_eqb l l'
  | _, _ => false end.
Definition access_request_eqb (a b : access_request) : bool :=
  key_eqb (ar_service a) (ar_service b) && key_eqb (ar_beneficiary a) (ar_beneficiary b) && N.eqb (ar_fee a) (ar_fee b) &&
  access_mode_eqb (ar_mode a) (ar_mode b).
Definition fill_eqb (a b : fill) : bool := N.eqb (sol_in a) (sol_in b) && N.eqb (z_out a) (z_out b).
Definition ring_eqb (a b : ring) : bool :=
  list_eqb fill_eqb (slots a) (slots b) && Nat.eqb (head a) (head b) && Nat.eqb (count a) (count b).
(* the registry is compared through its abstraction: the queue of outstanding fills (slots outside it are garbage) *)
Definition ring_abs_eqb (a b : ring) : bool := list_eqb fill_eqb (abs a) (abs b).
Definition token_eqb (a b : token_acct) : bool :=
  key_eqb (t_mint a) (t_mint b) && key_eqb (t_owner a) (t_owner b) && N.eqb (t_amount a) (t_amount b).
Definition mint_eqb (a b : mint_acct) : bool := N.eqb (m_supply a) (m_supply b) && N.eqb (m_decimals a) (m_decimals b).
Definition retdata_eqb (a b : retdata) : bool :=
  match a, b with
  | RTriple x y z, RTriple x' y' z' => N.eqb x x' && N.eqb y y' && N.eqb z z'
  | RMalformed l, RMalformed l' => N.eqb l l'
  | _, _ => false end.
Definition adata_eqb (a b : adata) : bool :=
  match a, b with
  | DEmpty, DEmpty => true
  | DConfig x, DConfig y => rd_config_eqb x y
  | DJournal x, DJournal y => journal_eqb x y
  | DDist x t, DDist y t' => dist_eqb x y && list_eqb N.eqb t t'
  | DDeposit x, DDeposit y => deposit_eqb x y
  | DContrib x, DContrib y => contrib_eqb x y
  | DPpConfig x, DPpConfig y => pp_config_eqb x y
  | DAccessReq x, DAccessReq y => access_request_eqb x y
  | DFills x, DFills y => ring_abs_eqb x y
  | DToken x, DToken y => token_eqb x y
  | DMint x, DMint y => mint_eqb x y
  | DProgData x, DProgData y => opt_eqb key_eqb x y
  | DScript x, DScript y => opt_eqb retdata_eqb x y
  | DRaw x, DRaw y => N.eqb x y
  | _, _ => false end.
Definition acct_eqb (a b : acct) : bool :=
  N.eqb (lamports a) (lamports b) && key_eqb (owner a) (owner b) && N.eqb (alen a) (alen b) && adata_eqb (data a) (data b).

(* one observed step: the operation, whether the implementation accepted it, and the accounts it left behind.
   `Same` abbreviates "exactly as last observed" (the harness remembers what it printed; the checker keeps the same view). *)
Inductive oacct := Same | Now (a : acct).
Definition robs := (op * bool * list (key * oacct))%type.
Definition obs := (op * bool * list (key * acct))%type.
Inductive diff := DiffOutcome (model_ok : bool) | DiffAcct (k : key) (model : acct).

Definition view := kmap acct.
Definition vget (V : view) (k : key) : acct := match lookup k V with Some a => a | None => empty_acct end.
Fixpoint vupd (V : view) (post : list (key * acct)) : view :=
  match post with [] => V | (k, a) :: tl => vupd (upd k a V) tl end.
(* expand the abbreviations against the view *)
Definition expand1 (V : view) (p : key * oacct) : key * acct :=
  match snd p with Same => (fst p, vget V (fst p)) | Now a => (fst p, a) end.
Fixpoint expand (V : view) (tr : list robs) : list obs :=
  match tr with
  | [] => []
  | (o, ok, post) :: tl => let post' := map (expand1 V) post in (o, ok, post') :: expand (vupd V post') tl
  end.

Fixpoint first_acct_diff (W : world) (l : list (key * acct)) : option diff :=
  match l with
  | [] => None
  | (k, a) :: tl => if acct_eqb (get W k) a then first_acct_diff W tl else Some (DiffAcct k (get W k))
  end.
Fixpoint check_trace (W : world) (tr : list obs) (i : N) : option (N * diff) :=
  match tr with
  | [] => None
  | (o, ok, post) :: tl =>
      let '(W', ok') := exec_op W o in
      if negb (bool_eqb ok ok') then Some (i, DiffOutcome ok') else
      match first_acct_diff W' post with
      | Some d => Some (i, d)
      | None => check_trace W' tl (i + 1)
      end
  end.
(* all disagreements, re-synchronising the model on the implementation's observation after each one, so that one
   diverging instruction does not hide the rest of the history *)
Definition rd_tag (i : rd_ix) : N :=
  match i with
  | RInitializeProgram => 1 | RMigrate => 2 | RSetAdmin _ => 3 | RConfigureProgram _ => 4 | RInitializeJournal => 5
  | RInitializeDistribution => 6 | RConfigureDebt _ _ _ => 7 | RFinalizeDebt => 8 | RConfigureRewards _ _ => 9
  | RFinalizeRewards => 10 | RDistributeRewards _ _ _ => 11 | RInitializeContributor _ => 12 | RSetRewardsManager _ => 13
  | RConfigureContributor _ => 14 | RVerifyRoot _ _ => 15 | RInitializeDeposit _ => 16 | RPayDebt _ _ => 17
  | REnableWriteOff => 18 | RWriteOff _ _ => 19 | RInitializeSwapDestination => 20 | RSweep => 21 | RWithdrawSol _ => 22 end.
Definition pp_tag (i : pp_ix) : N :=
  match i with PInitializeProgram => 31 | PSetAdmin _ => 32 | PConfigureProgram _ => 33 | PRequestAccess _ => 34
             | PGrantAccess => 35 | PDenyAccess => 36 end.
Definition sw_tag (i : sw_ix) : N := match i with SInitializeFillsRegistry => 41 | SBuySol _ _ => 42 | SDequeueFills _ => 43 end.
Fixpoint ix_tag (d : ixdata) : N :=
  match d with
  | IxRd i => rd_tag i | IxPassport i => pp_tag i | IxSwap i => sw_tag i
  | IxSysTransfer _ => 51 | IxSysCreate _ _ _ => 52 | IxTokTransfer _ => 53 | IxTokTransferChecked _ _ => 54 | IxTokBurn _ => 55
  | IxRogueCpi inner => 1000 + ix_tag inner | IxRogueBuy _ _ => 61 | IxNoop => 0 end.
Definition op_tags (o : op) : list N :=
  match o with
  | OTx t => map (fun i => ix_tag (i_data i)) (tx_ixs t)
  | OSetClock _ => [71] | OAirdrop _ _ => [72] | OForge _ _ => [73] | OMintTo _ _ => [74] | OCreateAta _ _ => [75] end.
Fixpoint resync (W : world) (post : list (key * acct)) : world :=
  match post with [] => W | (k, a) :: tl => resync (put W k a) tl end.
Fixpoint check_trace_all (W : world) (tr : list obs) (i : N) : list (N * list N * diff) :=
  match tr with
  | [] => []
  | (o, ok, post) :: tl =>
      let '(W', ok') := exec_op W o in
      if negb (bool_eqb ok ok') then (i, op_tags o, DiffOutcome ok') :: check_trace_all (resync W post) tl (i + 1) else
      match first_acct_diff W' post with
      | Some d => (i, op_tags o, d) :: check_trace_all (resync W' post) tl (i + 1)
      | None => check_trace_all W' tl (i + 1)
      end
  end.
Definition corr_all (tr : list robs) : list (N * list N * diff) := check_trace_all world0 (expand [] tr) 0.
Definition corr_obs (tr : list obs) : option (N * diff) := check_trace world0 tr 0.
Definition corr_trace (tr : list robs) : option (N * diff) := corr_obs (expand [] tr).
(* model run alone (for debugging and for monitors that need the model's states) *)
Fixpoint run_ops (W : world) (ops : list op) : list bool :=
  match ops with [] => [] | o :: tl => let '(W', ok) := exec_op W o in ok :: run_ops W' tl end.
