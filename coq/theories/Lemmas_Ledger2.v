(* Bookkeeping invariants of a distribution account (properties C01 / C02), part 2 of Lemmas_Ledger*.
   Instances of the generic preservation theorem of Lemmas_Ledger.v:
     (1) ledger_ok: every KRd-owned distribution account satisfies wf_dist, over every transaction of every modelled
         program and every history without OForge;
     (2) bits_monotone: windows never move once allocated and a set bit is never cleared, as long as the account lives;
   then "settled at most once" (debt leaves: paid or written off; reward leaves: distributed), what the account says about
   paid vs written-off leaves, and a literal reachable world with non-trivial bitmaps.  INDEX at the end of the file. *)
From DZ Require Import Base Keys Merkle BurnRate Shares Swap_Ring State World SwapDeq RD Passport Swap Exec
  Lemmas_Merkle Lemmas_RdSpecs5 Lemmas_RdGuards Lemmas_Canon Lemmas_Ledger.

(* ------------------------------------------------------------------------------------------------------------------ *)
(* 1. instance: well-formed ledgers                                                                                   *)

Definition dist_ok (k : key) (a : acct) : Prop := owner a = KRd -> forall d t, data a = DDist d t -> wf_dist d t.
(* the state invariant: every distribution account owned by the revenue-distribution program is well-formed *)
Definition ledger_ok (W : world) : Prop :=
  forall k d t, owner (get W k) = KRd -> data (get W k) = DDist d t -> wf_dist d t.

Lemma ledger_ok_inv W : ledger_ok W <-> inv dist_ok W.
Proof. split; intros H k; [intros Ho d t Hd; eapply H; eassumption|intros d t Ho Hd; exact (H k Ho d t Hd)]. Qed.

Lemma dist_ok_ext k a a' : owner a' = owner a -> data a' = data a -> dist_ok k a -> dist_ok k a'.
Proof. unfold dist_ok. intros -> ->. auto. Qed.
Lemma dist_ok_free k a : dist_ok k a -> owner a <> KRd \/ ~ is_dist_data (data a) -> free_key dist_ok k.
Proof.
  intros _ _ a' O _ d t E. rewrite E in O. destruct O as [-> O]. unfold wf_dist. rewrite O. exact wf_lv0.
Qed.
Lemma dist_ok_dist k a d t : dist_ok k a -> owner a = KRd -> data a = DDist d t -> dist_key dist_ok lv_step k d t.
Proof.
  intros Ha Ho Hd a' d' t' _ S _ d'' t'' E. cbn in E. injection E as <- <-.
  eapply lv_step_wf; [exact (Ha Ho d t Hd)|exact S].
Qed.
Ltac ls_hyps :=
  first [exact ls_same|exact ls_debt_zero|exact ls_debt_alloc|exact ls_rew_alloc|exact ls_wo_alloc|exact ls_pay|exact ls_wo|exact ls_dist].
Lemma dist_ok_empty k : dist_ok k empty_acct.
Proof. intros Ho. discriminate Ho. Qed.

(* every instruction of every program, at any stack height, with any account list *)
Theorem ledger_ok_exec_data prog d ms h sib W W' : exec_data prog d ms h sib W = Ok W' -> ledger_ok W -> ledger_ok W'.
Proof.
  intros H HI. apply ledger_ok_inv. apply ledger_ok_inv in HI.
  eapply (exec_data_inv dist_ok lv_step); [exact dist_ok_ext|exact dist_ok_free|exact dist_ok_dist|ls_hyps ..|exact H|exact HI].
Qed.
Theorem ledger_ok_rd_process cx W ix W' : rd_process cx W ix = Ok W' -> ledger_ok W -> ledger_ok W'.
Proof.
  intros H HI. apply ledger_ok_inv. apply ledger_ok_inv in HI.
  eapply (rd_process_inv dist_ok lv_step); [exact dist_ok_ext|exact dist_ok_free|exact dist_ok_dist|ls_hyps ..|exact H|exact HI].
Qed.
Theorem ledger_ok_exec_ixs t ixs prev W W' : exec_ixs t ixs prev W = Ok W' -> ledger_ok W -> ledger_ok W'.
Proof.
  intros H HI. apply ledger_ok_inv. apply ledger_ok_inv in HI.
  eapply (exec_ixs_inv dist_ok lv_step); [exact dist_ok_ext|exact dist_ok_free|exact dist_ok_dist|ls_hyps ..|exact H|exact HI].
Qed.
Lemma ledger_ok_purge W : ledger_ok W -> ledger_ok (purge W).
Proof.
  intros HI k d t. rewrite get_purge. destruct (lamports (get W k) =? 0); [intros Ho; discriminate Ho|apply HI].
Qed.

(* THEOREM 1: every transaction keeps the invariant (in the form asked for: hypothesis and conclusion spelled out) *)
Theorem wf_dist_tx W t W' ok :
  (forall k d tl, owner (get W k) = KRd -> data (get W k) = DDist d tl -> wf_dist d tl) ->
  exec_tx W t = (W', ok) ->
  (forall k d tl, owner (get W' k) = KRd -> data (get W' k) = DDist d tl -> wf_dist d tl).
Proof.
  intros HI H. change (ledger_ok W'). change (ledger_ok W) in HI. apply ledger_ok_inv in HI.
  assert (C : W' = W \/ exists W1, inv dist_ok W1 /\ W' = purge W1)
    by (eapply (exec_tx_cases dist_ok lv_step); [exact dist_ok_ext|exact dist_ok_free|exact dist_ok_dist|ls_hyps ..|exact H|exact HI]).
  destruct C as [->|(W1 & H1 & ->)].
  - apply ledger_ok_inv. exact HI.
  - apply ledger_ok_purge. apply ledger_ok_inv. exact H1.
Qed.
Theorem ledger_ok_tx W t W' ok : ledger_ok W -> exec_tx W t = (W', ok) -> ledger_ok W'.
Proof. exact (wf_dist_tx W t W' ok). Qed.

Lemma honest_nontx o : honest_op o -> (exists t, o = OTx t) \/ nontx_op o.
Proof. destruct o; cbn; intros H; try (right; exact Logic.I); [left; eauto|destruct H]. Qed.

Theorem ledger_ok_op W o : honest_op o -> ledger_ok W -> ledger_ok (fst (exec_op W o)).
Proof.
  intros Ho HI. destruct (honest_nontx o Ho) as [(t & ->)|Hn].
  - cbn [exec_op]. destruct (exec_tx W t) as [W' ok] eqn:E. cbn [fst]. eapply ledger_ok_tx; eassumption.
  - apply ledger_ok_inv. apply ledger_ok_inv in HI. exact (exec_op_nontx_inv dist_ok dist_ok_ext dist_ok_free W o Hn HI).
Qed.
Theorem ledger_ok_history ops : forall W,
  Forall honest_op ops -> ledger_ok W -> ledger_ok (fold_left (fun W o => fst (exec_op W o)) ops W).
Proof.
  induction ops as [|o tl IH]; intros W Hf HI; cbn [fold_left]; [exact HI|].
  inversion Hf as [|? ? Ho Htl]; subst. apply IH; [exact Htl|]. apply ledger_ok_op; assumption.
Qed.
(* initial worlds: no distribution accounts (in particular the empty world) *)
Theorem wf_dist_init W : (forall k d t, owner (get W k) = KRd -> data (get W k) <> DDist d t) -> ledger_ok W.
Proof. intros H k d t Ho Hd. destruct (H k d t Ho Hd). Qed.
Theorem ledger_ok_world0 : ledger_ok world0.
Proof. apply wf_dist_init. intros k d t Ho. rewrite get_world0 in Ho. discriminate Ho. Qed.
Corollary ledger_ok_reachable ops : Forall honest_op ops -> ledger_ok (run_ops world0 ops).
Proof. intros Hf. apply ledger_ok_history; [exact Hf|exact ledger_ok_world0]. Qed.
Corollary ledger_ok_reachable' W : reachable W -> ledger_ok W.
Proof.
  intros (W0 & ops & H0 & Hf & ->). apply ledger_ok_history; [exact Hf|]. apply wf_dist_init.
  intros k d t Ho Hd. rewrite (H0 k (or_introl Ho)) in Hd. discriminate Hd.
Qed.

(* rd_initialize_distribution creates a well-formed (all-empty) ledger at the address of the next epoch *)
Theorem rd_initialize_distribution_creates cx W W' :
  cx_prog cx = KRd -> rd_initialize_distribution cx W = Ok W' ->
  exists e d, owner (get W' (KRdDist e)) = KRd /\ data (get W' (KRdDist e)) = DDist d [] /\ d_epoch d = e /\
              lv d = lv0 /\ wf_dist d [].
Proof.
  unfold rd_initialize_distribution. intros Hp H.
  repeat (cbv zeta in H;
    lazymatch type of H with
    | bind ?m _ = Ok _ => let E := fresh "E" in destruct m eqn:E; cbn [bind] in H; [|discriminate H];
        repeat lazymatch type of H with (let '(_, _) := ?p in _) = Ok _ => destruct p end
    end).
  lazymatch goal with Hi : try_initialize _ _ (KRdDist ?e) _ (DDist ?d []) = Ok ?W5 |- _ =>
    apply try_initialize_ok in Hi as (_ & _ & _ & Ho5 & EW5);
    assert (H5 : owner (get W5 (KRdDist e)) = KRd /\ data (get W5 (KRdDist e)) = DDist d [])
      by (rewrite EW5, get_put_same; cbn; split; [congruence|reflexivity]);
    exists e end.
  lazymatch type of H with match ?x with _ => _ end = Ok _ => destruct x eqn:Ed end; try (injection H as <-; eexists; (split; [apply H5|split; [apply H5|split; [reflexivity|split; [reflexivity|exact wf_lv0]]]])).
  lazymatch type of H with (if ?b then _ else _) = Ok _ => destruct b end; [injection H as <-; eexists; (split; [apply H5|split; [apply H5|split; [reflexivity|split; [reflexivity|exact wf_lv0]]]])|].
  apply bind_ok in H as (W6 & EW6 & H). apply put_dist_ok in H as (_ & Ho6 & ->).
  eexists. rewrite get_put_same. cbn. split; [congruence|split; [reflexivity|split; [reflexivity|split; [reflexivity|exact wf_lv0]]]].
Qed.

(* ------------------------------------------------------------------------------------------------------------------ *)
(* 2. instance: bits are never cleared, windows never move once allocated                                              *)

(* "the account at k0 is a live distribution whose ledger extends (v0, t0)" *)
Definition mono_at (k0 : key) (v0 : lview) (t0 : list N) (k : key) (a : acct) : Prop :=
  k = k0 -> owner a = KRd /\ exists d t, data a = DDist d t /\ lv_le v0 t0 (lv d) t.

Lemma mono_at_ext k0 v0 t0 k a a' : owner a' = owner a -> data a' = data a -> mono_at k0 v0 t0 k a -> mono_at k0 v0 t0 k a'.
Proof. unfold mono_at. intros -> ->. auto. Qed.
Lemma mono_at_free k0 v0 t0 k a :
  mono_at k0 v0 t0 k a -> owner a <> KRd \/ ~ is_dist_data (data a) -> free_key (mono_at k0 v0 t0) k.
Proof.
  intros Ha Hn a' _ ->. destruct (Ha eq_refl) as (Ho & d & t & Hd & _). exfalso.
  destruct Hn as [Hn|Hn]; [exact (Hn Ho)|apply Hn; rewrite Hd; do 2 eexists; reflexivity].
Qed.
Lemma mono_at_dist k0 v0 t0 k a d t :
  mono_at k0 v0 t0 k a -> owner a = KRd -> data a = DDist d t -> dist_key (mono_at k0 v0 t0) lv_step k d t.
Proof.
  intros Ha Ho Hd a' d' t' Ha' S ->. destruct (Ha eq_refl) as (_ & d1 & t1 & Hd1 & Hle). destruct (Ha' eq_refl) as (Ho' & _).
  rewrite Hd in Hd1. injection Hd1 as <- <-. split; [exact Ho'|]. exists d', t'. split; [reflexivity|].
  eapply lv_le_trans; [exact Hle|]. apply lv_step_le. exact S.
Qed.
Lemma mono_at_start W k d t : owner (get W k) = KRd -> data (get W k) = DDist d t -> inv (mono_at k (lv d) t) W.
Proof. intros Ho Hd k' ->. split; [exact Ho|]. exists d, t. split; [exact Hd|apply lv_le_refl]. Qed.

(* "k holds a live distribution that extends (d, t)" *)
Definition extends (W' : world) (k : key) (d : dist) (t : list N) : Prop :=
  owner (get W' k) = KRd /\ exists d' t', data (get W' k) = DDist d' t' /\ lv_le (lv d) t (lv d') t'.

(* within a transaction an account cannot disappear: the distribution is still there, with an extended ledger *)
Theorem bits_monotone_exec_data prog i ms h sib W W' k d t :
  exec_data prog i ms h sib W = Ok W' -> owner (get W k) = KRd -> data (get W k) = DDist d t -> extends W' k d t.
Proof.
  intros H Ho Hd.
  assert (I' : inv (mono_at k (lv d) t) W')
    by (eapply (exec_data_inv (mono_at k (lv d) t) lv_step);
        [exact (mono_at_ext k (lv d) t)|exact (mono_at_free k (lv d) t)|exact (mono_at_dist k (lv d) t)|ls_hyps ..|exact H
        |exact (mono_at_start W k d t Ho Hd)]).
  exact (I' k eq_refl).
Qed.
Theorem bits_monotone_rd_process cx W ix W' k d t :
  rd_process cx W ix = Ok W' -> owner (get W k) = KRd -> data (get W k) = DDist d t -> extends W' k d t.
Proof.
  intros H Ho Hd.
  assert (I' : inv (mono_at k (lv d) t) W')
    by (eapply (rd_process_inv (mono_at k (lv d) t) lv_step);
        [exact (mono_at_ext k (lv d) t)|exact (mono_at_free k (lv d) t)|exact (mono_at_dist k (lv d) t)|ls_hyps ..|exact H
        |exact (mono_at_start W k d t Ho Hd)]).
  exact (I' k eq_refl).
Qed.
Theorem bits_monotone_exec_ixs tx ixs prev W W' k d t :
  exec_ixs tx ixs prev W = Ok W' -> owner (get W k) = KRd -> data (get W k) = DDist d t -> extends W' k d t.
Proof.
  intros H Ho Hd.
  assert (I' : inv (mono_at k (lv d) t) W')
    by (eapply (exec_ixs_inv (mono_at k (lv d) t) lv_step);
        [exact (mono_at_ext k (lv d) t)|exact (mono_at_free k (lv d) t)|exact (mono_at_dist k (lv d) t)|ls_hyps ..|exact H
        |exact (mono_at_start W k d t Ho Hd)]).
  exact (I' k eq_refl).
Qed.
Lemma extends_refl W k d t : owner (get W k) = KRd -> data (get W k) = DDist d t -> extends W k d t.
Proof. intros Ho Hd. split; [exact Ho|]. exists d, t. split; [exact Hd|apply lv_le_refl]. Qed.
Lemma extends_trans W' k d t d1 t1 : lv_le (lv d) t (lv d1) t1 -> extends W' k d1 t1 -> extends W' k d t.
Proof. intros Hle (Ho & d' & t' & Hd & Hle'). split; [exact Ho|]. exists d', t'. split; [exact Hd|eapply lv_le_trans; eassumption]. Qed.

(* a transaction ends with the purge of zero-lamport accounts: the distribution is closed, or it is extended *)
Theorem bits_monotone_tx W tx W' ok k d t :
  exec_tx W tx = (W', ok) -> owner (get W k) = KRd -> data (get W k) = DDist d t ->
  get W' k = empty_acct \/ extends W' k d t.
Proof.
  intros H Ho Hd.
  assert (C : W' = W \/ exists W1, inv (mono_at k (lv d) t) W1 /\ W' = purge W1)
    by (eapply (exec_tx_cases (mono_at k (lv d) t) lv_step);
        [exact (mono_at_ext k (lv d) t)|exact (mono_at_free k (lv d) t)|exact (mono_at_dist k (lv d) t)|ls_hyps ..|exact H
        |exact (mono_at_start W k d t Ho Hd)]).
  destruct C as [->|(W1 & H1 & ->)].
  - right. apply extends_refl; assumption.
  - unfold extends. rewrite get_purge. destruct (lamports (get W1 k) =? 0); [left; reflexivity|right; exact (H1 k eq_refl)].
Qed.
Theorem bits_monotone_op W o k d t :
  honest_op o -> owner (get W k) = KRd -> data (get W k) = DDist d t ->
  get (fst (exec_op W o)) k = empty_acct \/ extends (fst (exec_op W o)) k d t.
Proof.
  intros Hh Ho Hd. destruct (honest_nontx o Hh) as [(tx & ->)|Hn].
  - cbn [exec_op]. destruct (exec_tx W tx) as [W' ok] eqn:E. cbn [fst]. eapply bits_monotone_tx; eassumption.
  - right. exact (exec_op_nontx_inv _ (mono_at_ext k (lv d) t) (mono_at_free k (lv d) t) W o Hn (mono_at_start W k d t Ho Hd) k eq_refl).
Qed.
(* THEOREM 2a (bits_monotone over arbitrary histories): unless the account is closed at the end of some transaction on
   the way, the distribution is still there, its allocated windows are where they were and every set bit is still set *)
Theorem bits_monotone ops : forall W k d t,
  Forall honest_op ops -> owner (get W k) = KRd -> data (get W k) = DDist d t ->
  (exists n, get (run_ops W (firstn n ops)) k = empty_acct) \/ extends (run_ops W ops) k d t.
Proof.
  induction ops as [|o tl IH]; intros W k d t Hf Ho Hd.
  - right. apply extends_refl; assumption.
  - inversion Hf as [|? ? Hh Htl]; subst.
    destruct (bits_monotone_op W o k d t Hh Ho Hd) as [Hc|(Ho1 & d1 & t1 & Hd1 & Hle)].
    + left. exists 1%nat. exact Hc.
    + destruct (IH (fst (exec_op W o)) k d1 t1 Htl Ho1 Hd1) as [(n & Hn)|He].
      * left. exists (S n). exact Hn.
      * right. eapply extends_trans; eassumption.
Qed.

(* ------------------------------------------------------------------------------------------------------------------ *)
(* 3. each leaf is settled at most once                                                                               *)

(* (a) a settling instruction demands a clear bit ... *)
Lemma nthk_1 m0 m1 rest : nthk (m0 :: m1 :: rest) 1 = mkey m1. Proof. reflexivity. Qed.
Lemma nthk_2 m0 m1 m2 rest : nthk (m0 :: m1 :: m2 :: rest) 2 = mkey m2. Proof. reflexivity. Qed.

(* PayDebt: the distribution is account 1 *)
Theorem pay_debt_needs_clear_bit cx W amount p W' d t idx :
  rd_pay_debt cx W amount p = Ok W' -> data (get W (nthk (cx_metas cx) 1)) = DDist d t -> leaf_index p = Some idx ->
  range_bit t (d_debt_start d) idx = false.
Proof.
  intros H Hd Hi. apply rd_pay_debt_spec in H as (c & dk & d0 & tail & pk & dp & jk & j & idx0 & tail' & F). destruct F.
  destruct pd_metas as (mc & md & mp & mj & rest & Hms & Hk & _). rewrite Hms, nthk_1, Hk in Hd.
  rewrite pd_dist_data in Hd. injection Hd as <- <-. rewrite pd_index in Hi. injection Hi as <-. exact pd_bit_clear.
Qed.
(* WriteOff: the (source) distribution is account 2; both its write-off bit and its debt bit must be clear *)
Theorem write_off_needs_clear_bits cx W amount p W' d t idx :
  rd_write_off cx W amount p = Ok W' -> data (get W (nthk (cx_metas cx) 2)) = DDist d t -> leaf_index p = Some idx ->
  range_bit t (d_wo_start d) idx = false /\ range_bit t (d_debt_start d) idx = false.
Proof.
  intros H Hd Hi. apply rd_write_off_spec in H as (c & dk & d0 & tail & pk & dp & idx0 & tail1 & tail2 & tk & t0 & ttail & F).
  destruct F. destruct wo_metas as (mc & ma & md & mp & mt & rest & Hms & Hk & _). rewrite Hms, nthk_2, Hk in Hd.
  rewrite wo_dist_data in Hd. injection Hd as <- <-. rewrite wo_index in Hi. injection Hi as <-.
  destruct (process_leaf_range_bits _ _ _ _ _ wo_tail1) as (A1 & _). destruct (process_leaf_range_bits _ _ _ _ _ wo_tail2) as (B1 & _).
  split; [exact A1|]. destruct (range_bit tail (d_debt_start d0) idx0) eqn:E; [|reflexivity].
  rewrite (process_leaf_range_mono _ _ _ _ _ wo_tail1 _ _ E) in B1. discriminate B1.
Qed.
(* DistributeRewards: the distribution is account 1 *)
Theorem distribute_needs_clear_bit cx W us ebr p W' d t idx :
  rd_distribute_rewards cx W us ebr p = Ok W' -> data (get W (nthk (cx_metas cx) 1)) = DDist d t -> leaf_index p = Some idx ->
  range_bit t (d_rew_start d) idx = false.
Proof.
  intros H Hd Hi. apply rd_distribute_rewards_spec in H as (c & dk & d0 & tail & crk & cr & relayer & idx0 & tail' & G & _).
  destruct G. destruct dg_metas as (mc & md & mcr & mtk & mmint & mrel & mtok & atas & rest & Hms & Hk & _).
  rewrite Hms, nthk_1, Hk in Hd. rewrite dg_dist_data in Hd. injection Hd as <- <-. rewrite dg_index in Hi. injection Hi as <-.
  exact (proj1 (process_leaf_range_bits _ _ _ _ _ dg_tail')).
Qed.

(* (b) ... and sets it *)
Theorem pay_debt_sets_bit cx W amount p W' :
  rd_pay_debt cx W amount p = Ok W' ->
  exists idx d' t', leaf_index p = Some idx /\
    owner (get W' (nthk (cx_metas cx) 1)) = KRd /\ data (get W' (nthk (cx_metas cx) 1)) = DDist d' t' /\
    d_debt_final d' = true /\ range_bit t' (d_debt_start d') idx = true.
Proof.
  intros H. apply rd_pay_debt_spec in H as (c & dk & d & tail & pk & dp & jk & j & idx & tail' & F).
  pose proof (pay_debt_dist_after _ _ _ _ _ _ _ _ _ _ _ _ _ _ _ F) as Hafter. destruct F.
  destruct pd_metas as (mc & md & mp & mj & rest & Hms & Hk & _). rewrite Hms, nthk_1, Hk.
  exists idx, (pay_debt_dist d amount), tail'. rewrite Hafter. cbn.
  split; [exact pd_index|]. split; [exact pd_dist_owner|]. split; [reflexivity|]. split; [exact pd_debt_final|].
  apply (process_leaf_range_bits _ _ _ _ _ pd_tail').
Qed.
Theorem write_off_sets_bits cx W amount p W' :
  rd_write_off cx W amount p = Ok W' ->
  exists idx d' t', leaf_index p = Some idx /\
    owner (get W' (nthk (cx_metas cx) 2)) = KRd /\ data (get W' (nthk (cx_metas cx) 2)) = DDist d' t' /\
    d_writeoff_enabled d' = true /\ d_debt_end d' - d_debt_start d' <> 0 /\
    range_bit t' (d_wo_start d') idx = true /\ range_bit t' (d_debt_start d') idx = true.
Proof.
  intros H. apply rd_write_off_spec in H as (c & dk & d & tail & pk & dp & idx & tail1 & tail2 & tk & t0 & ttail & F).
  pose proof (write_off_source_after _ _ _ _ _ _ _ _ _ _ _ _ _ _ _ _ _ F) as (Hne & Heq).
  pose proof (write_off_no_lamports _ _ _ _ _ _ _ _ _ _ _ _ _ _ _ _ _ F dk) as (_ & Hown & _). destruct F.
  destruct wo_metas as (mc & ma & md & mp & mt & rest & Hms & Hk & _). rewrite Hms, nthk_2, Hk.
  destruct (process_leaf_range_bits _ _ _ _ _ wo_tail1) as (_ & A2 & _). destruct (process_leaf_range_bits _ _ _ _ _ wo_tail2) as (_ & B2 & _).
  pose proof wo_tail2 as Q. apply process_leaf_spec in Q. destruct Q as (_ & _ & Q3 & _).
  pose proof (process_leaf_range_mono _ _ _ _ _ wo_tail2 _ _ A2) as A3.
  destruct (key_eq_dec tk dk) as [E|E].
  - exists idx, (wo_tgt (wo_src d) amount), tail2. rewrite (Heq E), Hown. cbn. repeat split; try assumption. lia.
  - exists idx, (wo_src d), tail2. rewrite (Hne E), Hown. cbn. repeat split; try assumption. lia.
Qed.
Theorem distribute_sets_bit cx W us ebr p W' :
  rd_distribute_rewards cx W us ebr p = Ok W' ->
  exists idx d' t', leaf_index p = Some idx /\
    owner (get W' (nthk (cx_metas cx) 1)) = KRd /\ data (get W' (nthk (cx_metas cx) 1)) = DDist d' t' /\
    d_rew_end d' - d_rew_start d' <> 0 /\ range_bit t' (d_rew_start d') idx = true.
Proof.
  intros H.
  assert (Hown : forall k d t, owner (get W k) = KRd -> data (get W k) = DDist d t -> owner (get W' k) = KRd)
    by (intros k d t Ho Hd; exact (proj1 (bits_monotone_rd_process _ W (RDistributeRewards us ebr p) W' k d t H Ho Hd))).
  unfold rd_distribute_rewards, leaf_idx in H. inv_all.
  lazymatch goal with
    Hz1 : rd_zc_config _ _ W = Ok _, Hz2 : rd_zc_dist _ _ W = Ok (?k, ?d, ?t, _), Hpl : process_leaf ?t _ _ ?idx = Ok ?t',
    Hp : put_dist _ _ ?k ?d' ?t' = Ok ?W2, Hb : tok_burn _ ?W2 ?tk _ _ _ _ = Ok ?W3, Hc : credit _ ?W3 _ _ = Ok ?W4 |- _ =>
    apply rd_zc_config_ok in Hz1 as (mz1 & Ez1 & _); apply rd_zc_dist_ok in Hz2 as (mz2 & Ez2 & Ek & _ & (Hzo & Hzd));
    apply put_dist_ok in Hp as (_ & _ & EW2);
    assert (Hd2 : data (get W2 k) = DDist d' t') by (rewrite EW2, get_put_same; reflexivity);
    apply tok_burn_spec in Hb as (_ & _ & _ & _ & s_ & m_ & Hzs & Hzm & _ & _ & _ & _ & _ & Hg3);
    apply as_token_ok in Hzs as (_ & Hzs); apply as_mint_ok in Hzm as (_ & Hzm);
    assert (Hd3 : data (get W3 k) = DDist d' t')
      by (rewrite Hg3; destruct (key_eqb_spec tk k) as [->|]; [congruence|]; destruct (key_eqb_spec KMint k) as [<-|]; [congruence|exact Hd2]);
    pose proof (hdr_data _ _ (credit_hdr _ _ _ _ _ Hc k)) as Hd4;
    pose proof (hdr_data _ _ (debit_hdr _ _ _ _ _ H k)) as Hd5;
    pose proof Hpl as Q; apply process_leaf_spec in Q; destruct Q as (_ & _ & Q3 & _);
    exists idx, d', t'; rewrite Ez1, Ez2, nthk_1, <- Ek;
    split; [first [assumption|reflexivity]|]; split; [exact (Hown k d t Hzo Hzd)|]; split; [congruence|]; split; [cbn in *; lia|];
    exact (proj1 (proj2 (process_leaf_range_bits _ _ _ _ _ Hpl)))
  end.
Qed.

(* (c) a set bit of an allocated window stays set in every extension *)
Lemma wf_window_flag d t : wf_dist d t ->
  (d_debt_end d - d_debt_start d <> 0 -> d_debt_final d = true) /\
  (d_rew_end d - d_rew_start d <> 0 -> d_rewards_final d = true) /\
  (d_wo_end d - d_wo_start d <> 0 -> d_writeoff_enabled d = true).
Proof.
  intros H. destruct H. cbn in *. repeat split; intros Hn.
  - destruct (d_debt_final d); [reflexivity|]. destruct (w_dflag eq_refl). lia.
  - destruct (d_rewards_final d); [reflexivity|]. destruct (w_rflag eq_refl). lia.
  - destruct (d_writeoff_enabled d); [reflexivity|]. destruct (w_wflag eq_refl). lia.
Qed.
Lemma extends_debt_bit W' k d t idx :
  extends W' k d t -> d_debt_final d = true -> range_bit t (d_debt_start d) idx = true ->
  exists d' t', data (get W' k) = DDist d' t' /\ d_debt_final d' = true /\ d_debt_start d' = d_debt_start d /\
                d_debt_end d' = d_debt_end d /\ range_bit t' (d_debt_start d') idx = true.
Proof.
  intros (Ho & d' & t' & Hd & Hle) Hf Hb. exists d', t'. split; [exact Hd|].
  pose proof (lv_le_range _ _ _ _ Hle _ _ Hb) as Hb'. destruct Hle as (L1 & _). destruct (L1 Hf) as (E0 & E1 & E2). cbn in E0, E1, E2.
  rewrite E1. auto.
Qed.
Lemma extends_rew_bit W' k d t idx :
  extends W' k d t -> d_rewards_final d = true -> range_bit t (d_rew_start d) idx = true ->
  exists d' t', data (get W' k) = DDist d' t' /\ d_rewards_final d' = true /\ d_rew_start d' = d_rew_start d /\
                d_rew_end d' = d_rew_end d /\ range_bit t' (d_rew_start d') idx = true.
Proof.
  intros (Ho & d' & t' & Hd & Hle) Hf Hb. exists d', t'. split; [exact Hd|].
  pose proof (lv_le_range _ _ _ _ Hle _ _ Hb) as Hb'. destruct Hle as (_ & L2 & _). destruct (L2 Hf) as (E0 & E1 & E2). cbn in E0, E1, E2.
  rewrite E1. auto.
Qed.
Lemma extends_wo_bit W' k d t idx :
  extends W' k d t -> d_writeoff_enabled d = true -> range_bit t (d_wo_start d) idx = true ->
  exists d' t', data (get W' k) = DDist d' t' /\ d_writeoff_enabled d' = true /\ d_wo_start d' = d_wo_start d /\
                d_wo_end d' = d_wo_end d /\ range_bit t' (d_wo_start d') idx = true.
Proof.
  intros (Ho & d' & t' & Hd & Hle) Hf Hb. exists d', t'. split; [exact Hd|].
  pose proof (lv_le_range _ _ _ _ Hle _ _ Hb) as Hb'. destruct Hle as (_ & _ & L3 & _). destruct (L3 Hf) as (E0 & E1 & E2). cbn in E0, E1, E2.
  rewrite E1. auto.
Qed.

(* "no PayDebt and no WriteOff for leaf idx of distribution k can succeed in W" *)
Definition debt_leaf_closed (W : world) (k : key) (idx : N) : Prop :=
  forall cx amount p W2, leaf_index p = Some idx ->
    (nthk (cx_metas cx) 1 = k -> rd_pay_debt cx W amount p <> Ok W2) /\
    (nthk (cx_metas cx) 2 = k -> rd_write_off cx W amount p <> Ok W2).
Definition reward_leaf_closed (W : world) (k : key) (idx : N) : Prop :=
  forall cx us ebr p W2, leaf_index p = Some idx -> nthk (cx_metas cx) 1 = k -> rd_distribute_rewards cx W us ebr p <> Ok W2.

Lemma debt_bit_closes W k d t idx :
  data (get W k) = DDist d t -> range_bit t (d_debt_start d) idx = true -> debt_leaf_closed W k idx.
Proof.
  intros Hd Hb cx amount p W2 Hi. split; intros <- H.
  - rewrite (pay_debt_needs_clear_bit _ _ _ _ _ _ _ _ H Hd Hi) in Hb. discriminate Hb.
  - rewrite (proj2 (write_off_needs_clear_bits _ _ _ _ _ _ _ _ H Hd Hi)) in Hb. discriminate Hb.
Qed.
Lemma rew_bit_closes W k d t idx :
  data (get W k) = DDist d t -> range_bit t (d_rew_start d) idx = true -> reward_leaf_closed W k idx.
Proof.
  intros Hd Hb cx us ebr p W2 Hi <- H. rewrite (distribute_needs_clear_bit _ _ _ _ _ _ _ _ _ H Hd Hi) in Hb. discriminate Hb.
Qed.

(* THEOREM 2b: a settled debt leaf stays settled -- later in the same transaction ... *)
Theorem debt_leaf_settled_once_ixs tx ixs prev W W' k d t idx :
  owner (get W k) = KRd -> data (get W k) = DDist d t -> d_debt_final d = true -> range_bit t (d_debt_start d) idx = true ->
  exec_ixs tx ixs prev W = Ok W' -> debt_leaf_closed W' k idx.
Proof.
  intros Ho Hd Hf Hb H. pose proof (bits_monotone_exec_ixs _ _ _ _ _ _ _ _ H Ho Hd) as He.
  destruct (extends_debt_bit _ _ _ _ _ He Hf Hb) as (d' & t' & Hd' & _ & _ & _ & Hb'). eapply debt_bit_closes; eassumption.
Qed.
(* ... and in every later world of every history, as long as the distribution account is not closed *)
Theorem debt_leaf_settled_once W k d t idx ops :
  owner (get W k) = KRd -> data (get W k) = DDist d t -> d_debt_final d = true -> range_bit t (d_debt_start d) idx = true ->
  Forall honest_op ops ->
  (exists n, get (run_ops W (firstn n ops)) k = empty_acct) \/ debt_leaf_closed (run_ops W ops) k idx.
Proof.
  intros Ho Hd Hf Hb Hops. destruct (bits_monotone ops W k d t Hops Ho Hd) as [Hc|He]; [left; exact Hc|right].
  destruct (extends_debt_bit _ _ _ _ _ He Hf Hb) as (d' & t' & Hd' & _ & _ & _ & Hb'). eapply debt_bit_closes; eassumption.
Qed.
Theorem reward_leaf_distributed_once_ixs tx ixs prev W W' k d t idx :
  owner (get W k) = KRd -> data (get W k) = DDist d t -> d_rewards_final d = true -> range_bit t (d_rew_start d) idx = true ->
  exec_ixs tx ixs prev W = Ok W' -> reward_leaf_closed W' k idx.
Proof.
  intros Ho Hd Hf Hb H. pose proof (bits_monotone_exec_ixs _ _ _ _ _ _ _ _ H Ho Hd) as He.
  destruct (extends_rew_bit _ _ _ _ _ He Hf Hb) as (d' & t' & Hd' & _ & _ & _ & Hb'). eapply rew_bit_closes; eassumption.
Qed.
Theorem reward_leaf_distributed_once W k d t idx ops :
  owner (get W k) = KRd -> data (get W k) = DDist d t -> d_rewards_final d = true -> range_bit t (d_rew_start d) idx = true ->
  Forall honest_op ops ->
  (exists n, get (run_ops W (firstn n ops)) k = empty_acct) \/ reward_leaf_closed (run_ops W ops) k idx.
Proof.
  intros Ho Hd Hf Hb Hops. destruct (bits_monotone ops W k d t Hops Ho Hd) as [Hc|He]; [left; exact Hc|right].
  destruct (extends_rew_bit _ _ _ _ _ He Hf Hb) as (d' & t' & Hd' & _ & _ & _ & Hb'). eapply rew_bit_closes; eassumption.
Qed.

(* end to end: after a successful PayDebt / WriteOff / DistributeRewards the leaf can never be settled again
   (W1 is the world right after the instruction; `ixs` the rest of its transaction, `ops` any later history) *)
Corollary pay_debt_then_never_again cx W amount p W1 :
  rd_pay_debt cx W amount p = Ok W1 ->
  exists idx, leaf_index p = Some idx /\ let k := nthk (cx_metas cx) 1 in
    debt_leaf_closed W1 k idx /\
    (forall tx ixs prev W2, exec_ixs tx ixs prev W1 = Ok W2 -> debt_leaf_closed W2 k idx) /\
    (forall ops, Forall honest_op ops ->
       (exists n, get (run_ops W1 (firstn n ops)) k = empty_acct) \/ debt_leaf_closed (run_ops W1 ops) k idx).
Proof.
  intros H. destruct (pay_debt_sets_bit _ _ _ _ _ H) as (idx & d' & t' & Hi & Ho & Hd & Hf & Hb).
  exists idx. split; [exact Hi|]. cbv zeta. split; [eapply debt_bit_closes; eassumption|]. split.
  - intros tx ixs prev W2 H2. eapply debt_leaf_settled_once_ixs; eassumption.
  - intros ops Hops. eapply debt_leaf_settled_once; eassumption.
Qed.
Corollary write_off_then_never_again cx W amount p W1 :
  ledger_ok W -> rd_write_off cx W amount p = Ok W1 ->
  exists idx, leaf_index p = Some idx /\ let k := nthk (cx_metas cx) 2 in
    debt_leaf_closed W1 k idx /\
    (forall tx ixs prev W2, exec_ixs tx ixs prev W1 = Ok W2 -> debt_leaf_closed W2 k idx) /\
    (forall ops, Forall honest_op ops ->
       (exists n, get (run_ops W1 (firstn n ops)) k = empty_acct) \/ debt_leaf_closed (run_ops W1 ops) k idx).
Proof.
  intros HI H. destruct (write_off_sets_bits _ _ _ _ _ H) as (idx & d' & t' & Hi & Ho & Hd & _ & Hn & _ & Hb).
  assert (HI1 : ledger_ok W1) by (eapply (ledger_ok_rd_process cx W (RWriteOff amount p)); eassumption).
  pose proof (proj1 (wf_window_flag _ _ (HI1 _ _ _ Ho Hd)) Hn) as Hf.
  exists idx. split; [exact Hi|]. cbv zeta. split; [eapply debt_bit_closes; eassumption|]. split.
  - intros tx ixs prev W2 H2. eapply debt_leaf_settled_once_ixs; eassumption.
  - intros ops Hops. eapply debt_leaf_settled_once; eassumption.
Qed.
Corollary distribute_then_never_again cx W us ebr p W1 :
  ledger_ok W -> rd_distribute_rewards cx W us ebr p = Ok W1 ->
  exists idx, leaf_index p = Some idx /\ let k := nthk (cx_metas cx) 1 in
    reward_leaf_closed W1 k idx /\
    (forall tx ixs prev W2, exec_ixs tx ixs prev W1 = Ok W2 -> reward_leaf_closed W2 k idx) /\
    (forall ops, Forall honest_op ops ->
       (exists n, get (run_ops W1 (firstn n ops)) k = empty_acct) \/ reward_leaf_closed (run_ops W1 ops) k idx).
Proof.
  intros HI H. destruct (distribute_sets_bit _ _ _ _ _ _ H) as (idx & d' & t' & Hi & Ho & Hd & Hn & Hb).
  assert (HI1 : ledger_ok W1) by (eapply (ledger_ok_rd_process cx W (RDistributeRewards us ebr p)); eassumption).
  pose proof (proj1 (proj2 (wf_window_flag _ _ (HI1 _ _ _ Ho Hd))) Hn) as Hf.
  exists idx. split; [exact Hi|]. cbv zeta. split; [eapply rew_bit_closes; eassumption|]. split.
  - intros tx ixs prev W2 H2. eapply reward_leaf_distributed_once_ixs; eassumption.
  - intros ops Hops. eapply reward_leaf_distributed_once; eassumption.
Qed.

(* ------------------------------------------------------------------------------------------------------------------ *)
(* 4. paid vs written off, as far as the account can tell                                                             *)
(* Payments are not marked separately, so "paid XOR written off" per leaf is not a statement about the account alone.  *)
(* What the account does say: the written-off leaves are a subset of the processed leaves (w_sub); a leaf is in at     *)
(* most one of {written off, processed-but-not-written-off}; and the two sets have exactly d_writeoff_count and        *)
(* d_payments_count elements.                                                                                          *)

Lemma count_bits_more f n m :
  (n <= m)%nat -> (forall j, N.of_nat n <= j < N.of_nat m -> f j = false) -> count_bits f m = count_bits f n.
Proof.
  induction m as [|m IH]; intros Hle H.
  - replace n with 0%nat by lia. reflexivity.
  - destruct (Nat.eq_dec n (S m)) as [->|Hne]; [reflexivity|]. cbn [count_bits].
    rewrite IH by (try lia; intros j Hj; apply H; lia). rewrite (H (N.of_nat m)) by lia. lia.
Qed.

Definition wo_bit (v : lview) (t : list N) (j : N) : bool := (j / 8 <? l_we v - l_ws v) && range_bit t (l_ws v) j.
Definition processed_bit (v : lview) (t : list N) (j : N) : bool := range_bit t (l_ds v) j.
Definition paid_bit (v : lview) (t : list N) (j : N) : bool := processed_bit v t j && negb (wo_bit v t j).

Theorem paid_written_off_counts v t : wf_lv v t ->
  let n := N.to_nat (8 * (l_de v - l_ds v)) in
  (forall j, wo_bit v t j = true -> N.of_nat n > j /\ processed_bit v t j = true /\ paid_bit v t j = false) /\
  count_bits (wo_bit v t) n = l_wc v /\
  count_bits (paid_bit v t) n = l_pc v.
Proof.
  intros H n. destruct H.
  assert (Hsub : forall j, wo_bit v t j = true -> j / 8 < l_de v - l_ds v /\ processed_bit v t j = true).
  { intros j Hj. unfold wo_bit in Hj. apply andb_true_iff in Hj as (Hj1 & Hj2). apply N.ltb_lt in Hj1. exact (w_sub j Hj1 Hj2). }
  assert (Hwo : count_bits (wo_bit v t) n = l_wc v).
  { rewrite <- w_wcount. unfold popcount. set (m := N.to_nat (8 * (l_we v - l_ws v))).
    destruct (Nat.le_gt_cases m n) as [Hmn|Hmn].
    - rewrite (count_bits_more (wo_bit v t) m n Hmn).
      + apply count_bits_ext. intros j Hj. unfold wo_bit. replace (j / 8 <? l_we v - l_ws v) with true by (symmetry; apply N.ltb_lt; lia).
        reflexivity.
      + intros j Hj. unfold wo_bit. replace (j / 8 <? l_we v - l_ws v) with false by (symmetry; apply N.ltb_ge; lia). reflexivity.
    - rewrite (count_bits_more (range_bit t (l_ws v)) n m);
        [|lia|intros j Hj; destruct (range_bit t (l_ws v) j) eqn:E; [|reflexivity];
              assert (Hjw : j / 8 < l_we v - l_ws v) by lia; destruct (w_sub j Hjw E); lia].
      apply count_bits_ext. intros j Hj. unfold wo_bit. replace (j / 8 <? l_we v - l_ws v) with true by (symmetry; apply N.ltb_lt; lia).
      reflexivity. }
  split; [|split; [exact Hwo|]].
  - intros j Hj. destruct (Hsub j Hj) as (H1 & H2). unfold paid_bit. rewrite H2, Hj. repeat split; try reflexivity. lia.
  - pose proof (count_bits_split (processed_bit v t) (wo_bit v t) n) as S.
    assert (E : count_bits (fun j => processed_bit v t j && wo_bit v t j) n = count_bits (wo_bit v t) n).
    { apply count_bits_ext. intros j _. destruct (wo_bit v t j) eqn:Ej; [|apply andb_false_r].
      rewrite (proj2 (Hsub j Ej)). reflexivity. }
    assert (D : count_bits (processed_bit v t) n = l_pc v + l_wc v) by exact w_dcount.
    change (count_bits (paid_bit v t) n) with (count_bits (fun j => processed_bit v t j && negb (wo_bit v t j)) n).
    lia.
Qed.
Corollary dist_paid_written_off_counts d t : wf_dist d t ->
  let n := N.to_nat (8 * (d_debt_end d - d_debt_start d)) in
  count_bits (wo_bit (lv d) t) n = d_writeoff_count d /\ count_bits (paid_bit (lv d) t) n = d_payments_count d /\
  (forall j, wo_bit (lv d) t j && paid_bit (lv d) t j = false).
Proof.
  intros H. destruct (paid_written_off_counts _ _ H) as (H1 & H2 & H3). cbn in *. split; [exact H2|]. split; [exact H3|].
  intros j. destruct (wo_bit (lv d) t j) eqn:E; [|reflexivity]. destruct (H1 j E) as (_ & _ & ->). reflexivity.
Qed.

(* ------------------------------------------------------------------------------------------------------------------ *)
(* 4b. bitmaps and counters change ONLY in PayDebt / WriteOff / DistributeRewards                                      *)
(* Every other instruction of every program (at any CPI depth) leaves every bit of the remaining data and all three     *)
(* counters of every distribution exactly as they were (it may set a flag and append an all-zero window).  Together     *)
(* with the exact effects of the three settling instructions (Lemmas_RdSpecs2 / 5: one leaf each) this is the step form  *)
(* of "counts and bitmaps describe exactly the leaves that were really settled".                                        *)

Definition frozen (v : lview) (t : list N) (v' : lview) (t' : list N) : Prop :=
  l_pc v' = l_pc v /\ l_wc v' = l_wc v /\ l_dc v' = l_dc v /\
  (forall pos b, byte_bit t' pos b = byte_bit t pos b) /\ lv_le v t v' t'.
Lemma frozen_refl v t : frozen v t v t.
Proof. unfold frozen. split; [reflexivity|]. split; [reflexivity|]. split; [reflexivity|]. split; [reflexivity|apply lv_le_refl]. Qed.
Lemma frozen_trans v1 t1 v2 t2 v3 t3 : frozen v1 t1 v2 t2 -> frozen v2 t2 v3 t3 -> frozen v1 t1 v3 t3.
Proof.
  intros (A1 & A2 & A3 & A4 & A5) (B1 & B2 & B3 & B4 & B5). unfold frozen.
  split; [congruence|]. split; [congruence|]. split; [congruence|]. split; [intros; rewrite B4; apply A4|eapply lv_le_trans; eassumption].
Qed.
Lemma frozen_same v t v' : v' = v -> frozen v t v' t.
Proof. intros ->. apply frozen_refl. Qed.
Lemma frozen_debt_zero v t v' : l_df v = false -> v' = v <| l_df := true |> -> frozen v t v' t.
Proof.
  intros H E. pose proof (lv_step_le _ _ _ _ (ls_debt_zero v t v' H E)) as L. subst v'. destruct v; unfold frozen; cbn.
  repeat split; auto; apply L.
Qed.
Lemma frozen_debt_alloc v t v' extra : l_df v = false -> extra <= MAX_REALLOC ->
  v' = v <| l_df := true |> <| l_ds := N.of_nat (length t) |> <| l_de := sat_add two32 (N.of_nat (length t)) extra |> ->
  frozen v t v' (t ++ zeros extra).
Proof.
  intros H Hx E. pose proof (lv_step_le _ _ _ _ (ls_debt_alloc v t v' extra H Hx E)) as L. subst v'. destruct v; unfold frozen; cbn.
  split; [reflexivity|]. split; [reflexivity|]. split; [reflexivity|]. split; [intros; apply byte_bit_app_zeros|exact L].
Qed.
Lemma frozen_rew_alloc v t v' extra : l_rf v = false -> l_df v = true -> extra <= MAX_REALLOC ->
  v' = v <| l_rf := true |> <| l_rs := N.of_nat (length t) |> <| l_re := sat_add two32 (N.of_nat (length t)) extra |> ->
  frozen v t v' (t ++ zeros extra).
Proof.
  intros H Hd Hx E. pose proof (lv_step_le _ _ _ _ (ls_rew_alloc v t v' extra H Hd Hx E)) as L. subst v'. destruct v; unfold frozen; cbn.
  split; [reflexivity|]. split; [reflexivity|]. split; [reflexivity|]. split; [intros; apply byte_bit_app_zeros|exact L].
Qed.
Lemma frozen_wo_alloc v t v' extra : l_wf v = false -> l_df v = true -> extra <= MAX_REALLOC ->
  v' = v <| l_wf := true |> <| l_ws := N.of_nat (length t) |> <| l_we := sat_add two32 (N.of_nat (length t)) extra |> ->
  frozen v t v' (t ++ zeros extra).
Proof.
  intros H Hd Hx E. pose proof (lv_step_le _ _ _ _ (ls_wo_alloc v t v' extra H Hd Hx E)) as L. subst v'. destruct v; unfold frozen; cbn.
  split; [reflexivity|]. split; [reflexivity|]. split; [reflexivity|]. split; [intros; apply byte_bit_app_zeros|exact L].
Qed.
Ltac fr_hyps := first [exact frozen_same|exact frozen_debt_zero|exact frozen_debt_alloc|exact frozen_rew_alloc|exact frozen_wo_alloc].

Definition frozen_at (k0 : key) (v0 : lview) (t0 : list N) (k : key) (a : acct) : Prop :=
  k = k0 -> owner a = KRd /\ exists d t, data a = DDist d t /\ frozen v0 t0 (lv d) t.
Lemma frozen_at_ext k0 v0 t0 k a a' : owner a' = owner a -> data a' = data a -> frozen_at k0 v0 t0 k a -> frozen_at k0 v0 t0 k a'.
Proof. unfold frozen_at. intros -> ->. auto. Qed.
Lemma frozen_at_free k0 v0 t0 k a :
  frozen_at k0 v0 t0 k a -> owner a <> KRd \/ ~ is_dist_data (data a) -> free_key (frozen_at k0 v0 t0) k.
Proof.
  intros Ha Hn a' _ ->. destruct (Ha eq_refl) as (Ho & d & t & Hd & _). exfalso.
  destruct Hn as [Hn|Hn]; [exact (Hn Ho)|apply Hn; rewrite Hd; do 2 eexists; reflexivity].
Qed.
Lemma frozen_at_dist k0 v0 t0 k a d t :
  frozen_at k0 v0 t0 k a -> owner a = KRd -> data a = DDist d t -> dist_key (frozen_at k0 v0 t0) frozen k d t.
Proof.
  intros Ha Ho Hd a' d' t' Ha' S ->. destruct (Ha eq_refl) as (_ & d1 & t1 & Hd1 & Hle). destruct (Ha' eq_refl) as (Ho' & _).
  rewrite Hd in Hd1. injection Hd1 as <- <-. split; [exact Ho'|]. exists d', t'. split; [reflexivity|].
  eapply frozen_trans; eassumption.
Qed.
Lemma frozen_at_start W k d t : owner (get W k) = KRd -> data (get W k) = DDist d t -> inv (frozen_at k (lv d) t) W.
Proof. intros Ho Hd k' ->. split; [exact Ho|]. exists d, t. split; [exact Hd|apply frozen_refl]. Qed.

Definition stays_frozen (W' : world) (k : key) (d : dist) (t : list N) : Prop :=
  owner (get W' k) = KRd /\ exists d' t', data (get W' k) = DDist d' t' /\ frozen (lv d) t (lv d') t'.

Theorem ledger_frozen_exec_data prog i ms h sib W W' k d t :
  quiet i = true -> exec_data prog i ms h sib W = Ok W' -> owner (get W k) = KRd -> data (get W k) = DDist d t ->
  stays_frozen W' k d t.
Proof.
  intros Hq H Ho Hd.
  assert (I' : inv (frozen_at k (lv d) t) W')
    by (eapply (exec_data_inv_quiet (frozen_at k (lv d) t) frozen);
        [exact (frozen_at_ext k (lv d) t)|exact (frozen_at_free k (lv d) t)|exact (frozen_at_dist k (lv d) t)|fr_hyps ..|exact Hq|exact H
        |exact (frozen_at_start W k d t Ho Hd)]).
  exact (I' k eq_refl).
Qed.
Theorem ledger_frozen_exec_ixs tx ixs prev W W' k d t :
  quiet_ixs ixs = true -> exec_ixs tx ixs prev W = Ok W' -> owner (get W k) = KRd -> data (get W k) = DDist d t ->
  stays_frozen W' k d t.
Proof.
  intros Hq H Ho Hd.
  assert (I' : inv (frozen_at k (lv d) t) W')
    by (eapply (exec_ixs_inv_quiet (frozen_at k (lv d) t) frozen);
        [exact (frozen_at_ext k (lv d) t)|exact (frozen_at_free k (lv d) t)|exact (frozen_at_dist k (lv d) t)|fr_hyps ..|exact Hq|exact H
        |exact (frozen_at_start W k d t Ho Hd)]).
  exact (I' k eq_refl).
Qed.
(* a transaction without settling instructions: the account is closed by the final purge, or nothing of its ledger moved *)
Theorem ledger_frozen_tx W tx W' ok k d t :
  quiet_ixs (tx_ixs tx) = true -> exec_tx W tx = (W', ok) -> owner (get W k) = KRd -> data (get W k) = DDist d t ->
  get W' k = empty_acct \/ stays_frozen W' k d t.
Proof.
  intros Hq H Ho Hd.
  assert (C : W' = W \/ exists W1, inv (frozen_at k (lv d) t) W1 /\ W' = purge W1)
    by (eapply (exec_tx_cases_quiet (frozen_at k (lv d) t) frozen);
        [exact (frozen_at_ext k (lv d) t)|exact (frozen_at_free k (lv d) t)|exact (frozen_at_dist k (lv d) t)|fr_hyps ..|exact Hq|exact H
        |exact (frozen_at_start W k d t Ho Hd)]).
  destruct C as [->|(W1 & H1 & ->)].
  - right. split; [exact Ho|]. exists d, t. split; [exact Hd|apply frozen_refl].
  - unfold stays_frozen. rewrite get_purge. destruct (lamports (get W1 k) =? 0); [left; reflexivity|right; exact (H1 k eq_refl)].
Qed.
(* clock, airdrop, mint-to, create-ATA *)
Theorem ledger_frozen_nontx_op W o k d t :
  nontx_op o -> owner (get W k) = KRd -> data (get W k) = DDist d t -> stays_frozen (fst (exec_op W o)) k d t.
Proof.
  intros Hn Ho Hd.
  exact (exec_op_nontx_inv _ (frozen_at_ext k (lv d) t) (frozen_at_free k (lv d) t) W o Hn (frozen_at_start W k d t Ho Hd) k eq_refl).
Qed.

(* ------------------------------------------------------------------------------------------------------------------ *)
(* 5. a literal reachable world with non-trivial bitmaps                                                              *)

Module LedgerEx.
Import CanonEx.
Definition lx_debts : list leafdata := [LDebt (KUser 11) 300; LDebt (KUser 12) 500; LDebt (KUser 13) 200].
Definition m_dist := [ro KRdConfig; sg (KUser 2); wr (KRdDist 0)].
(* on top of Lemmas_Canon's bootstrap history (program, journal, settings, distribution 0, ...): write-off feature
   activation, three validator deposits, the debt tree of distribution 0 (3 leaves), debt finalization (allocates the
   debt window), validator 12 pays, write-offs are enabled (allocates the write-off window), validator 11 is written
   off into the same distribution *)
Definition lx_ops : list op := ex_ops ++ [
  otx [KUser 1] [rdi (RConfigureProgram (RSFeatureActivation 1)) m_cfg];
  otx [KUser 100] [rdi (RInitializeDeposit (KUser 11)) [wr (KRdDeposit (KUser 11)); sw (KUser 100); ro KSystem];
                   rdi (RInitializeDeposit (KUser 12)) [wr (KRdDeposit (KUser 12)); sw (KUser 100); ro KSystem]];
  OAirdrop (KRdDeposit (KUser 12)) 700;
  OSetClock 1000;
  otx [KUser 2] [rdi (RConfigureDebt 3 1000 (tree_root PRE_DEBT lx_debts)) m_dist];
  otx [KUser 2; KUser 100] [rdi RFinalizeDebt [ro KRdConfig; sg (KUser 2); wr (KRdDist 0); sw (KUser 100); ro KSystem]];
  otx [KUser 100] [rdi (RPayDebt 500 (proof_for PRE_DEBT lx_debts 1))
                       [ro KRdConfig; wr (KRdDist 0); wr (KRdDeposit (KUser 12)); wr KRdJournal]];
  otx [KUser 100] [rdi REnableWriteOff [ro KRdConfig; wr (KRdDist 0); sw (KUser 100); ro KSystem]];
  otx [KUser 2] [rdi (RWriteOff 300 (proof_for PRE_DEBT lx_debts 0))
                     [ro KRdConfig; sg (KUser 2); wr (KRdDist 0); wr (KRdDeposit (KUser 11)); wr (KRdDist 0)]]
].
Definition lx_W : world := run_ops ex_fix lx_ops.
Fixpoint ok_flags (W : world) (ops : list op) : list bool :=
  match ops with [] => [] | o :: tl => let '(W', ok) := exec_op W o in ok :: ok_flags W' tl end.
End LedgerEx.
Import LedgerEx.
Import CanonEx.

Lemma lx_ops_honest : Forall honest_op lx_ops.
Proof.
  apply Forall_forall. intros o Ho. apply honest_opb_spec. revert o Ho. apply forallb_forall. vm_compute. reflexivity.
Qed.
Lemma lx_W_reachable : reachable lx_W.
Proof.
  exists ex_fix, lx_ops. split; [|split; [exact lx_ops_honest|reflexivity]]. apply untyped_world_check. vm_compute. reflexivity.
Qed.
(* all 22 operations succeed; distribution 0 ends with debt window [0,1) = 0b011 (leaf 1 paid, leaf 0 written off),
   write-off window [1,2) = 0b001, one payment, one write-off; the invariant holds by theorems 1 (and by computation);
   leaves 0 and 1 can be neither paid nor written off any more, now or after any honest history that keeps the account *)
Example wf_dist_nonvacuous :
  all_ok ex_fix lx_ops = true /\ ledger_ok lx_W /\
  exists d, owner (get lx_W (KRdDist 0)) = KRd /\ data (get lx_W (KRdDist 0)) = DDist d [3; 1] /\ wf_dist d [3; 1] /\
    (d_debt_final d, d_writeoff_enabled d, d_rewards_final d) = (true, true, false) /\
    (d_debt_start d, d_debt_end d, d_wo_start d, d_wo_end d, d_rew_start d, d_rew_end d) = (0, 1, 1, 2, 0, 0) /\
    (d_payments_count d, d_writeoff_count d, d_distributed_count d, d_collected_sol d, d_uncollectible d) = (1, 1, 0, 500, 300) /\
    popcount [3; 1] 0 1 = 2 /\ popcount [3; 1] 1 2 = 1 /\
    map (paid_bit (lv d) [3; 1]) [0; 1; 2] = [false; true; false] /\ map (wo_bit (lv d) [3; 1]) [0; 1; 2] = [true; false; false] /\
    debt_leaf_closed lx_W (KRdDist 0) 0 /\ debt_leaf_closed lx_W (KRdDist 0) 1 /\
    (forall ops, Forall honest_op ops ->
       (exists n, get (run_ops lx_W (firstn n ops)) (KRdDist 0) = empty_acct) \/ debt_leaf_closed (run_ops lx_W ops) (KRdDist 0) 1).
Proof.
  split; [vm_compute; reflexivity|]. pose proof (ledger_ok_reachable' _ lx_W_reachable) as HL. split; [exact HL|].
  eexists. split; [vm_compute; reflexivity|]. split; [vm_compute; reflexivity|].
  split; [apply (HL (KRdDist 0)); vm_compute; reflexivity|].
  do 7 (split; [vm_compute; reflexivity|]).
  split; [eapply debt_bit_closes; vm_compute; reflexivity|]. split; [eapply debt_bit_closes; vm_compute; reflexivity|].
  intros ops Hops. eapply debt_leaf_settled_once; try exact Hops; vm_compute; reflexivity.
Qed.
(* the replays fail by computation as well; the still open leaf 2 is rejected only for lack of a funded deposit *)
Example settled_once_nonvacuous :
  let cxp := {| cx_prog := KRd; cx_metas := [ro KRdConfig; wr (KRdDist 0); wr (KRdDeposit (KUser 12)); wr KRdJournal];
                cx_height := 1; cx_sibling := None |} in
  let cxw := {| cx_prog := KRd; cx_metas := [ro KRdConfig; sg (KUser 2); wr (KRdDist 0); wr (KRdDeposit (KUser 11)); wr (KRdDist 0)];
                cx_height := 1; cx_sibling := None |} in
  is_ok (rd_pay_debt cxp lx_W 500 (proof_for PRE_DEBT lx_debts 1)) = false /\
  is_ok (rd_write_off cxw lx_W 300 (proof_for PRE_DEBT lx_debts 0)) = false /\
  is_ok (rd_write_off {| cx_prog := KRd; cx_height := 1; cx_sibling := None;
                         cx_metas := [ro KRdConfig; sg (KUser 2); wr (KRdDist 0); wr (KRdDeposit (KUser 12)); wr (KRdDist 0)] |}
           lx_W 500 (proof_for PRE_DEBT lx_debts 1)) = false.
Proof. vm_compute. repeat split. Qed.

(* why bits_monotone / settled-once carry the alternative "the account was closed": an under-funded distribution account
   (here: exactly one relay fee of lamports; such a state violates the rent-cover invariant of C11 and is not known to be
   reachable) is drained by the relay payment of DistributeRewards and purged at the end of the transaction *)
Definition lx_close_world : world := ex_world [
  (KRdConfig, ex_acct (rent LEN_CONFIG_ALLOC) LEN_CONFIG_ALLOC (DConfig ex_cfg));
  (KRdDist 5, ex_acct 6000 (LEN_DIST + 2) (DDist ex_dist5d [0; 0]));
  (KRdContrib (KUser 22), ex_acct (rent LEN_CONTRIB) LEN_CONTRIB (DContrib ex_contrib));
  (KTok2z (KRdDist 5), ex_tok (KRdDist 5) 10000);
  (KMint, ex_mint 1000000);
  (KUser 7, ex_wallet 1000000);
  (KAta (KUser 31) KMint, ex_tok (KUser 31) 5);
  (KAta (KUser 32) KMint, ex_tok (KUser 32) 0)].
Definition lx_close_tx : tx := {| tx_signers := [KUser 7]; tx_ixs := [
  {| i_prog := KRd; i_data := IxRd (RDistributeRewards 600000000 100000000 (proof_for PRE_REWARD ex_rewards 1));
     i_metas := cx_metas ex_distribute_cx |}] |}.
Example dist_account_can_be_closed_witness :
  owner (get lx_close_world (KRdDist 5)) = KRd /\ data (get lx_close_world (KRdDist 5)) = DDist ex_dist5d [0; 0] /\
  honest_op (OTx lx_close_tx) /\
  snd (exec_tx lx_close_world lx_close_tx) = true /\ get (fst (exec_tx lx_close_world lx_close_tx)) (KRdDist 5) = empty_acct.
Proof. vm_compute. repeat split. Qed.

(* the history form of theorem 1 with hypothesis and conclusion spelled out *)
Theorem wf_dist_history ops W :
  Forall honest_op ops ->
  (forall k d tl, owner (get W k) = KRd -> data (get W k) = DDist d tl -> wf_dist d tl) ->
  (forall k d tl, owner (get (fold_left (fun W o => fst (exec_op W o)) ops W) k) = KRd ->
                  data (get (fold_left (fun W o => fst (exec_op W o)) ops W) k) = DDist d tl -> wf_dist d tl).
Proof. intros Hf HI. exact (ledger_ok_history ops W Hf HI). Qed.

(* ==================================================================================================================
   INDEX of Lemmas_Ledger2.v   (definitions of wf_dist / wf_lv / lv_le / popcount: Lemmas_Ledger.v)
   wf_dist d t  (d : dist, t : remaining data) says: the three bitmap windows tile t, are pairwise disjoint, each <= 10 240 bytes and
   allocated only once its flag is set; popcount(debt window) = d_payments_count + d_writeoff_count; popcount(write-off window) =
   d_writeoff_count; popcount(rewards window) = d_distributed_count (exact, hence all < 2^32); write-off bit j => debt bit j.
   THEOREM 1 (invariant)
     ledger_ok W               forall k d t, owner (get W k) = KRd -> data (get W k) = DDist d t -> wf_dist d t
     wf_dist_tx                ledger_ok W (spelled out) -> exec_tx W t = (W', ok) -> ledger_ok W' (spelled out)     EVERY transaction
     ledger_ok_tx, ledger_ok_exec_data, ledger_ok_exec_ixs, ledger_ok_rd_process, ledger_ok_purge       the same at the other levels
     ledger_ok_op              honest_op o -> ledger_ok W -> ledger_ok (fst (exec_op W o))
     ledger_ok_history / wf_dist_history      Forall honest_op ops -> ledger_ok W -> ledger_ok (fold_left .. ops W)
     wf_dist_init              no KRd-owned distribution account in W -> ledger_ok W;   ledger_ok_world0
     ledger_ok_reachable(')    histories from world0 / Lemmas_Canon.reachable worlds
     rd_initialize_distribution_creates   cx_prog cx = KRd -> success -> exists e d, KRd-owned DDist d [] at KRdDist e with d_epoch d = e,
                               lv d = lv0 and wf_dist d []
   THEOREM 2 (bits never cleared, windows never move; settled at most once)
     extends W' k d t          k holds a KRd-owned DDist d' t' in W' with lv_le (lv d) t (lv d') t'
     bits_monotone_exec_data / _rd_process / _exec_ixs     dist (d, t) at k in W, success -> extends W' k d t     (inside a transaction)
     bits_monotone_tx / _op    ... -> get W' k = empty_acct \/ extends W' k d t            (the purge may close a drained account)
     bits_monotone             Forall honest_op ops -> (exists n, get (run_ops W (firstn n ops)) k = empty_acct) \/ extends (run_ops W ops) k d t
     extends_debt_bit / _rew_bit / _wo_bit     flag set and bit set in (d, t) -> same window, bit still set in the extension
     pay_debt_needs_clear_bit, write_off_needs_clear_bits, distribute_needs_clear_bit      success -> the bit(s) of (account 1 | 2 | 1, leaf_index p) were clear
     pay_debt_sets_bit, write_off_sets_bits, distribute_sets_bit                           success -> the bit(s) are set afterwards
     debt_leaf_closed W k idx      no rd_pay_debt (account 1 = k) and no rd_write_off (account 2 = k) with leaf_index p = Some idx succeeds in W
     reward_leaf_closed W k idx    no rd_distribute_rewards (account 1 = k) with leaf_index p = Some idx succeeds in W
     debt_bit_closes, rew_bit_closes                       a set bit closes the leaf
     debt_leaf_settled_once_ixs / reward_leaf_distributed_once_ixs      bit set -> closed after any further instructions of the transaction
     debt_leaf_settled_once / reward_leaf_distributed_once              bit set -> (account closed on the way) \/ closed after any honest history
     pay_debt_then_never_again, write_off_then_never_again (ledger_ok W), distribute_then_never_again (ledger_ok W)      end to end
   THEOREM 3 (what the account says about paid vs written off)
     wo_bit / processed_bit / paid_bit v t j               write-off bit (inside its window) / debt bit / debt bit and not write-off bit
     paid_written_off_counts   wf_lv v t -> written-off leaves are processed and not "paid"; #wo_bit = l_wc; #paid_bit = l_pc (over the debt window)
     dist_paid_written_off_counts   the same for a dist; wo_bit && paid_bit = false
     (wf_lv's w_sub: write-off bit => debt bit.)  NOT DONE: the ghost ledger of a history (NoDup of settled (distribution, leaf) pairs,
     count paid = d_payments_count, d_collected_sol = sum of paid amounts) -- these need an instrumented history and, because an
     account can be closed and its address re-used in the model, the "never closed" side condition.
   THEOREM 4 (bitmaps and counters change only when a leaf is settled)
     frozen v t v' t'          the three counters equal, every byte_bit of the remaining data equal (appended bytes are zero), lv_le
     stays_frozen W' k d t     k still holds a KRd-owned DDist d' t' with frozen (lv d) t (lv d') t'
     ledger_frozen_exec_data / _exec_ixs     quiet instruction(s) (no PayDebt / WriteOff / DistributeRewards at any CPI depth, any program):
                               every distribution stays_frozen
     ledger_frozen_tx          quiet transaction: closed by the final purge \/ stays_frozen;   ledger_frozen_nontx_op (clock, airdrop, mint, ATA)
     (the exact one-leaf effects of the three settling instructions: Lemmas_RdSpecs2.pay_debt_facts / write_off_facts, Lemmas_RdSpecs5)
   EXAMPLES
     wf_dist_nonvacuous        22-operation honest history from Lemmas_Canon's fixture (3-leaf debt tree, finalize, pay leaf 1, enable
                               write-off, write off leaf 0): all succeed, tail = [3; 1], counts (1, 1, 0), ledger_ok via theorem 1, leaves 0 / 1 closed
     settled_once_nonvacuous   the replays fail by computation
     dist_account_can_be_closed_witness   an under-funded distribution (one relay fee of lamports) is drained by DistributeRewards and purged:
                               the reason for the "closed" alternative in bits_monotone / settled-once (state not known to be reachable)
   NOT IN THE INVARIANT: alen (get W k) = LEN_DIST + length t.  The generic theorem threads per-account facts that depend on owner and data
   only (the put_dist-then-resize sequences break a length clause in between); no other clause needs it: the 10 240-byte bound on an
   appended window comes from the realloc guard of `resize` itself.
   Nothing refuted: no instruction order makes windows overlap or a counter disagree with its bitmap.
   ================================================================================================================== *)
