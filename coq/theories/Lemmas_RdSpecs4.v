(* Part 4 of Lemmas_RdSpecs*: sweep (C05) and withdraw-sol (C06). *)
From DZ Require Import Base Keys Merkle BurnRate Shares Swap_Ring State World SwapDeq RD Lemmas_Merkle Lemmas_C20
  Lemmas_RdSpecs Lemmas_RdSpecs2.

(* ================================================================================================ withdraw SOL *)
Definition ws_journal (j : journal) (amount z : N) : journal :=
  j <| j_total_sol := j_total_sol j - amount |> <| j_swapped_sol := wadd64 (j_swapped_sol j) amount |>
    <| j_swap_dest_balance := wadd64 (j_swap_dest_balance j) z |> <| j_lifetime_2z := wadd two128 (j_lifetime_2z j) z |>.

Record withdraw_sol_facts (cx : ctx) (W : world) (amount : N) (W' : world)
  (c : rd_config) (jk : key) (j : journal) (dest : key) (z : N) : Prop := {
  ws_metas : exists mc ma mj md rest, cx_metas cx = mc :: ma :: mj :: md :: rest /\ mkey mj = jk /\ mkey md = dest /\
             mwritable mj = true /\ mwritable md = true /\ msigner ma = true /\ mkey ma = KWithdrawAuth (c_swap_program c) /\
             owner (get W (mkey mc)) = KRd /\ data (get W (mkey mc)) = DConfig c;
  ws_unpaused : c_paused c = false;
  ws_withdraw_bump : c_has_withdraw_bump c = true;
  ws_swap_auth_bump : c_has_swap_auth_bump c = true;
  ws_swap_program_set : c_swap_program c <> default_key;
  (* the preceding sibling instruction is a Token TransferChecked of z of the 2Z mint into the swap destination *)
  ws_sibling : exists sib, cx_sibling cx = Some sib /\ sb_prog sib = KToken /\ sb_kind sib = SibTransferChecked z /\
               nth 1 (sb_accounts sib) default_key = KMint /\ nth 2 (sb_accounts sib) default_key = KTok2z KRdSwapAuth;
  ws_journal_owner : owner (get W jk) = KRd;
  ws_journal_data : data (get W jk) = DJournal j;
  ws_amount_tracked : amount <= j_total_sol j;
  ws_amount_lamports : amount <= lamports (get W jk);
  ws_now : now W' = now W;
  ws_effect : forall k, get W' k =
     (if key_eqb jk k then (get W jk) <| data := DJournal (ws_journal j amount z) |> else get W k)
       <| lamports := lamports (get W k) - (if key_eqb jk k then amount else 0) + (if key_eqb dest k then amount else 0) |>
}.

Theorem rd_withdraw_sol_spec cx W amount W' : rd_withdraw_sol cx W amount = Ok W' ->
  exists c jk j dest z, withdraw_sol_facts cx W amount W' c jk j dest z.
Proof.
  unfold rd_withdraw_sol. intros H. inv_all.
  match goal with H : match sb_kind ?s with _ => _ end = Ok _ |- _ => destruct (sb_kind s) eqn:Hkind; [|discriminate H]; ok_inj H end.
  norm_bool.
  match goal with H : rd_zc_config _ _ _ = Ok _ |- _ => apply rd_zc_config_ok in H; destruct H as (mc & Ems & -> & _ & Hoc & Hdc) end.
  match goal with H : rd_zc_journal _ _ _ = Ok _ |- _ => apply rd_zc_journal_ok in H; destruct H as (mj & -> & -> & Hwj & Hoj & Hdj) end.
  match goal with H : next_account _ true _ _ _ = Ok _ |- _ => apply next_account_ok in H; destruct H as (-> & Hsa & _ & _) end.
  match goal with H : next_account _ _ _ _ _ = Ok _ |- _ => apply next_account_ok in H; destruct H as (-> & _ & Hwd & _) end.
  specialize (Hwj eq_refl). specialize (Hsa eq_refl). specialize (Hwd eq_refl).
  match goal with H : write_data _ _ _ _ = Ok _ |- _ => apply write_data_spec in H; destruct H as (_ & _ & Hn1 & Hg1) end.
  match goal with H : debit _ _ _ _ = Ok _ |- _ => apply debit_spec in H; destruct H as (_ & Hle & Hn2 & Hg2) end.
  apply credit_spec in H. destruct H as (_ & Hn3 & Hg3).
  rewrite Hg1, key_eqb_refl in Hle. cbn [lamports RecordSet.set] in Hle. proj_simpl.
  lazymatch goal with
  | _ : data (get W (mkey mc)) = DConfig ?c, _ : data (get W (mkey mj)) = DJournal ?j, _ : sb_kind _ = SibTransferChecked ?z,
    _ : mwritable ?md = true, _ : mwritable mj = true |- _ =>
    match md with mj => fail | _ => exists c, (mkey mj), j, (mkey md), z end end.
  constructor; try assumption; try lia.
  - do 4 eexists. eexists. repeat split; eauto.
  - unfold is_default in *. intros E. rewrite E, key_eqb_refl in *. discriminate.
  - eexists. repeat split; eauto.
  - intros k. rewrite Hg3, !Hg2, !Hg1, !key_eqb_refl. unfold ws_journal.
    match goal with |- context [key_eqb (mkey ?md) k] =>
      destruct (key_eqb_spec (mkey md) k) as [<-|Hd]; destruct (key_eqb_spec (mkey mj) (mkey md)) as [Ej|Ej] end;
    try (rewrite <- Ej); rewrite ?key_eqb_refl;
    try (destruct (key_eqb_spec (mkey mj) k) as [<-|Hj]); try congruence; apply acct_ext; cbn; try reflexivity; lia.
Qed.

Section WithdrawSolCorollaries.
  Variables (cx : ctx) (W : world) (amount : N) (W' : world) (c : rd_config) (jk : key) (j : journal) (dest : key) (z : N).
  Hypothesis F : withdraw_sol_facts cx W amount W' c jk j dest z.
  Let E := ws_effect _ _ _ _ _ _ _ _ _ F.

  (* lamports: exactly `amount` leaves the journal and arrives at the destination (which may be any writable account) *)
  Theorem withdraw_sol_lamports k :
    lamports (get W' k) = lamports (get W k) - (if key_eqb jk k then amount else 0) + (if key_eqb dest k then amount else 0) /\
    owner (get W' k) = owner (get W k) /\ alen (get W' k) = alen (get W k) /\
    (k <> jk -> data (get W' k) = data (get W k)).
  Proof. rewrite E. cbn. destruct (key_eqb_spec jk k) as [->|]; cbn; repeat split; congruence. Qed.
  Theorem withdraw_sol_journal_after :
    data (get W' jk) = DJournal (ws_journal j amount z) /\
    j_total_sol (ws_journal j amount z) = j_total_sol j - amount /\ amount <= j_total_sol j /\
    j_swapped_sol (ws_journal j amount z) = wadd64 (j_swapped_sol j) amount /\
    j_swap_dest_balance (ws_journal j amount z) = wadd64 (j_swap_dest_balance j) z /\
    j_lifetime_2z (ws_journal j amount z) = wadd two128 (j_lifetime_2z j) z /\
    j_next_sweep (ws_journal j amount z) = j_next_sweep j /\ j_total_2z (ws_journal j amount z) = j_total_2z j.
  Proof. rewrite E, key_eqb_refl. cbn. repeat split. exact (ws_amount_tracked _ _ _ _ _ _ _ _ _ F). Qed.
  Theorem withdraw_sol_frame k : k <> jk -> k <> dest -> get W' k = get W k.
  Proof. intros H1 H2. rewrite E, (key_eqb_neq jk k), (key_eqb_neq dest k) by congruence. apply acct_ext; cbn; try reflexivity. lia. Qed.
  Theorem withdraw_sol_dest_after : dest <> jk ->
    get W' dest = (get W dest) <| lamports := lamports (get W dest) + amount |> /\
    lamports (get W' jk) = lamports (get W jk) - amount /\ amount <= lamports (get W jk).
  Proof. intros Hne. rewrite !E, !key_eqb_refl, (key_eqb_neq jk dest), (key_eqb_neq dest jk) by congruence. cbn.
    split; [apply acct_ext; cbn; try reflexivity; lia|]. split; [lia|]. exact (ws_amount_lamports _ _ _ _ _ _ _ _ _ F). Qed.
End WithdrawSolCorollaries.

Definition ex_journal : journal := journal_default <| j_total_sol := 900 |> <| j_swapped_sol := 40 |> <| j_next_sweep := 5 |>
  <| j_swap_dest_balance := 70 |>.
Example rd_withdraw_sol_nonvacuous :
  let cx := {| cx_prog := KRd; cx_height := 2;
               cx_metas := [mk KRdConfig false false; mk (KWithdrawAuth KSwapMock) true false; mk KRdJournal false true; mk (KUser 3) false true];
               cx_sibling := Some {| sb_prog := KToken; sb_kind := SibTransferChecked 55;
                                     sb_accounts := [KUser 4; KMint; KTok2z KRdSwapAuth; KUser 4] |} |} in
  let W := ex_world [(KRdConfig, ex_acct (rent LEN_CONFIG_ALLOC) LEN_CONFIG_ALLOC (DConfig ex_cfg));
                     (KRdJournal, ex_acct (rent LEN_CONFIG_ALLOC + 900) LEN_CONFIG_ALLOC (DJournal ex_journal))] in
  exists W', rd_withdraw_sol cx W 300 = Ok W' /\
    get W' KRdJournal = ex_acct (rent LEN_CONFIG_ALLOC + 600) LEN_CONFIG_ALLOC (DJournal (ws_journal ex_journal 300 55)) /\
    lamports (get W' (KUser 3)) = 300 /\ j_swapped_sol (ws_journal ex_journal 300 55) = 340 /\
    j_swap_dest_balance (ws_journal ex_journal 300 55) = 125 /\ is_ok (rd_withdraw_sol cx W 901) = false.
Proof. eexists. split; [vm_compute; reflexivity|]. vm_compute. repeat split. Qed.

