(* Part 4 of Lemmas_RdSpecs*: sweep (C05) and withdraw-sol (C06). *)
From DZ Require Import Base Keys Merkle BurnRate Shares Swap_Ring State World SwapDeq RD Lemmas_Merkle Lemmas_C20
  Lemmas_RdSpecs Lemmas_RdSpecs2.

(* ================================================================================================ withdraw SOL *)
Definition ws_journal (j : journal) (amount z : N) : journal :=
  j <| j_total_sol := j_total_sol j - amount |> <| j_swapped_sol := wadd64 (j_swapped_sol j) amount |>
    <| j_swap_dest_balance := wadd64 (j_swap_dest_balance j) z |> <| j_lifetime_2z := wadd two128 (j_lifetime_2z j) z |>.

Record withdraw_sol_facts (cx : ctx) (W : world) (amount : N) (W' : world)
  (c : rd_config) (jk : key) (j : journal) (dest : key) (z : N) : Prop := {
  ws_metas : exists mc ma mj md rest, cx_metas cx = mc :: ma :: mj :: md :: rest /\ mkey mj = jk /\ mkey md = dest /\
             mwritable mj = true /\ mwritable md = true /\ msigner ma = true /\ mkey ma = KWithdrawAuth (c_swap_program c) /\
             owner (get W (mkey mc)) = KRd /\ data (get W (mkey mc)) = DConfig c;
  ws_unpaused : c_paused c = false;
  ws_withdraw_bump : c_has_withdraw_bump c = true;
  ws_swap_auth_bump : c_has_swap_auth_bump c = true;
  ws_swap_program_set : c_swap_program c <> default_key;
  (* the preceding sibling instruction is a Token TransferChecked of z of the 2Z mint into the swap destination *)
  ws_sibling : exists sib, cx_sibling cx = Some sib /\ sb_prog sib = KToken /\ sb_kind sib = SibTransferChecked z /\
               nth 1 (sb_accounts sib) default_key = KMint /\ nth 2 (sb_accounts sib) default_key = KTok2z KRdSwapAuth;
  ws_journal_owner : owner (get W jk) = KRd;
  ws_journal_data : data (get W jk) = DJournal j;
  ws_amount_tracked : amount <= j_total_sol j;
  ws_amount_lamports : amount <= lamports (get W jk);
  ws_now : now W' = now W;
  ws_effect : forall k, get W' k =
     (if key_eqb jk k then (get W jk) <| data := DJournal (ws_journal j amount z) |> else get W k)
       <| lamports := lamports (get W k) - (if key_eqb jk k then amount else 0) + (if key_eqb dest k then amount else 0) |>
}.

Theorem rd_withdraw_sol_spec cx W amount W' : rd_withdraw_sol cx W amount = Ok W' ->
  exists c jk j dest z, withdraw_sol_facts cx W amount W' c jk j dest z.
Proof.
  unfold rd_withdraw_sol. intros H. inv_all.
  match goal with H : match sb_kind ?s with _ => _ end = Ok _ |- _ => destruct (sb_kind s) eqn:Hkind; [|discriminate H]; ok_inj H end.
  norm_bool.
  match goal with H : rd_zc_config _ _ _ = Ok _ |- _ => apply rd_zc_config_ok in H; destruct H as (mc & Ems & -> & _ & Hoc & Hdc) end.
  match goal with H : rd_zc_journal _ _ _ = Ok _ |- _ => apply rd_zc_journal_ok in H; destruct H as (mj & -> & -> & Hwj & Hoj & Hdj) end.
  match goal with H : next_account _ true _ _ _ = Ok _ |- _ => apply next_account_ok in H; destruct H as (-> & Hsa & _ & _) end.
  match goal with H : next_account _ _ _ _ _ = Ok _ |- _ => apply next_account_ok in H; destruct H as (-> & _ & Hwd & _) end.
  specialize (Hwj eq_refl). specialize (Hsa eq_refl). specialize (Hwd eq_refl).
  match goal with H : write_data _ _ _ _ = Ok _ |- _ => apply write_data_spec in H; destruct H as (_ & _ & Hn1 & Hg1) end.
  match goal with H : debit _ _ _ _ = Ok _ |- _ => apply debit_spec in H; destruct H as (_ & Hle & Hn2 & Hg2) end.
  apply credit_spec in H. destruct H as (_ & Hn3 & Hg3).
  rewrite Hg1, key_eqb_refl in Hle. cbn [lamports RecordSet.set] in Hle. proj_simpl.
  lazymatch goal with
  | _ : data (get W (mkey mc)) = DConfig ?c, _ : data (get W (mkey mj)) = DJournal ?j, _ : sb_kind _ = SibTransferChecked ?z,
    _ : mwritable ?md = true, _ : mwritable mj = true |- _ =>
    match md with mj => fail | _ => exists c, (mkey mj), j, (mkey md), z end end.
  constructor; try assumption; try lia.
  - do 4 eexists. eexists. repeat split; eauto.
  - unfold is_default in *. intros E. rewrite E, key_eqb_refl in *. discriminate.
  - eexists. repeat split; eauto.
  - intros k. rewrite Hg3, !Hg2, !Hg1, !key_eqb_refl. unfold ws_journal.
    match goal with |- context [key_eqb (mkey ?md) k] =>
      destruct (key_eqb_spec (mkey md) k) as [<-|Hd]; destruct (key_eqb_spec (mkey mj) (mkey md)) as [Ej|Ej] end;
    try (rewrite <- Ej); rewrite ?key_eqb_refl;
    try (destruct (key_eqb_spec (mkey mj) k) as [<-|Hj]); try congruence; apply acct_ext; cbn; try reflexivity; lia.
Qed.

Section WithdrawSolCorollaries.
  Variables (cx : ctx) (W : world) (amount : N) (W' : world) (c : rd_config) (jk : key) (j : journal) (dest : key) (z : N).
  Hypothesis F : withdraw_sol_facts cx W amount W' c jk j dest z.
  Let E := ws_effect _ _ _ _ _ _ _ _ _ F.

  (* lamports: exactly `amount` leaves the journal and arrives at the destination (which may be any writable account) *)
  Theorem withdraw_sol_lamports k :
    lamports (get W' k) = lamports (get W k) - (if key_eqb jk k then amount else 0) + (if key_eqb dest k then amount else 0) /\
    owner (get W' k) = owner (get W k) /\ alen (get W' k) = alen (get W k) /\
    (k <> jk -> data (get W' k) = data (get W k)).
  Proof. rewrite E. cbn. destruct (key_eqb_spec jk k) as [->|]; cbn; repeat split; congruence. Qed.
  Theorem withdraw_sol_journal_after :
    data (get W' jk) = DJournal (ws_journal j amount z) /\
    j_total_sol (ws_journal j amount z) = j_total_sol j - amount /\ amount <= j_total_sol j /\
    j_swapped_sol (ws_journal j amount z) = wadd64 (j_swapped_sol j) amount /\
    j_swap_dest_balance (ws_journal j amount z) = wadd64 (j_swap_dest_balance j) z /\
    j_lifetime_2z (ws_journal j amount z) = wadd two128 (j_lifetime_2z j) z /\
    j_next_sweep (ws_journal j amount z) = j_next_sweep j /\ j_total_2z (ws_journal j amount z) = j_total_2z j.
  Proof. rewrite E, key_eqb_refl. cbn. repeat split. exact (ws_amount_tracked _ _ _ _ _ _ _ _ _ F). Qed.
  Theorem withdraw_sol_frame k : k <> jk -> k <> dest -> get W' k = get W k.
  Proof. intros H1 H2. rewrite E, (key_eqb_neq jk k), (key_eqb_neq dest k) by congruence. apply acct_ext; cbn; try reflexivity. lia. Qed.
  Theorem withdraw_sol_dest_after : dest <> jk ->
    get W' dest = (get W dest) <| lamports := lamports (get W dest) + amount |> /\
    lamports (get W' jk) = lamports (get W jk) - amount /\ amount <= lamports (get W jk).
  Proof. intros Hne. rewrite !E, !key_eqb_refl, (key_eqb_neq jk dest), (key_eqb_neq dest jk) by congruence. cbn.
    split; [apply acct_ext; cbn; try reflexivity; lia|]. split; [lia|]. exact (ws_amount_lamports _ _ _ _ _ _ _ _ _ F). Qed.
End WithdrawSolCorollaries.

Definition ex_journal : journal := journal_default <| j_total_sol := 900 |> <| j_swapped_sol := 40 |> <| j_next_sweep := 5 |>
  <| j_swap_dest_balance := 70 |>.
Example rd_withdraw_sol_nonvacuous :
  let cx := {| cx_prog := KRd; cx_height := 2;
               cx_metas := [mk KRdConfig false false; mk (KWithdrawAuth KSwapMock) true false; mk KRdJournal false true; mk (KUser 3) false true];
               cx_sibling := Some {| sb_prog := KToken; sb_kind := SibTransferChecked 55;
                                     sb_accounts := [KUser 4; KMint; KTok2z KRdSwapAuth; KUser 4] |} |} in
  let W := ex_world [(KRdConfig, ex_acct (rent LEN_CONFIG_ALLOC) LEN_CONFIG_ALLOC (DConfig ex_cfg));
                     (KRdJournal, ex_acct (rent LEN_CONFIG_ALLOC + 900) LEN_CONFIG_ALLOC (DJournal ex_journal))] in
  exists W', rd_withdraw_sol cx W 300 = Ok W' /\
    get W' KRdJournal = ex_acct (rent LEN_CONFIG_ALLOC + 600) LEN_CONFIG_ALLOC (DJournal (ws_journal ex_journal 300 55)) /\
    lamports (get W' (KUser 3)) = 300 /\ j_swapped_sol (ws_journal ex_journal 300 55) = 340 /\
    j_swap_dest_balance (ws_journal ex_journal 300 55) = 125 /\ is_ok (rd_withdraw_sol cx W 901) = false.
Proof. eexists. split; [vm_compute; reflexivity|]. vm_compute. repeat split. Qed.

(* ================================================================================================ sweep *)
Definition sw_journal0 (j : journal) : journal := j <| j_next_sweep := sat_add two64 (j_next_sweep j) 1 |>.
Definition sw_journal1 (j : journal) (debt : N) : journal := sw_journal0 j <| j_swapped_sol := j_swapped_sol j - debt |>.
Definition sw_journal2 (j : journal) (debt z : N) : journal :=
  sw_journal1 j debt <| j_swap_dest_balance := j_swap_dest_balance j - z |>.
Definition sw_dist1 (d : dist) : dist := d <| d_swept := true |>.
Definition sw_dist2 (d : dist) (z : N) : dist := sw_dist1 d <| d_swept_2z := z |>.

(* guards common to both branches *)
Record sweep_common (cx : ctx) (W : world) (c : rd_config) (dk : key) (d : dist) (tail : list N) (jk : key) (j : journal)
  (rest : list meta) : Prop := {
  sc_metas : exists mc md mj, cx_metas cx = mc :: md :: mj :: rest /\ mkey md = dk /\ mkey mj = jk /\
             mwritable md = true /\ mwritable mj = true /\ owner (get W (mkey mc)) = KRd /\ data (get W (mkey mc)) = DConfig c;
  sc_unpaused : c_paused c = false;
  sc_dist_owner : owner (get W dk) = KRd;
  sc_dist_data : data (get W dk) = DDist d tail;
  sc_unswept : d_swept d = false;
  sc_rewards_final : d_rewards_final d = true;
  sc_journal_owner : owner (get W jk) = KRd;
  sc_journal_data : data (get W jk) = DJournal j;
  sc_distinct : jk <> dk;
  sc_in_order : j_next_sweep j = d_epoch d;
  sc_debt_ok : d_uncollectible d <= d_total_debt d
}.

(* zero collectible debt: only the flag and the sweep pointer change *)
Theorem rd_sweep_zero_spec cx W W' : rd_sweep cx W = Ok W' ->
  exists c dk d tail jk j rest, sweep_common cx W c dk d tail jk j rest /\
    (d_total_debt d - d_uncollectible d = 0 ->
       now W' = now W /\
       forall k, get W' k = if key_eqb k jk then (get W jk) <| data := DJournal (sw_journal0 j) |>
                            else if key_eqb k dk then (get W dk) <| data := DDist (sw_dist1 d) tail |> else get W k).
Proof.
  unfold rd_sweep. intros H. inv_all. norm_bool.
  match goal with H : rd_zc_config _ _ _ = Ok _ |- _ => apply rd_zc_config_ok in H; destruct H as (mc & Ems & -> & _ & Hoc & Hdc) end.
  match goal with H : rd_zc_dist _ _ _ = Ok _ |- _ => apply rd_zc_dist_ok in H; destruct H as (md & -> & -> & Hwd & Hod & Hdd) end.
  match goal with H : rd_zc_journal _ _ _ = Ok _ |- _ => apply rd_zc_journal_ok in H; destruct H as (mj & -> & -> & Hwj & Hoj & Hdj) end.
  specialize (Hwd eq_refl). specialize (Hwj eq_refl).
  match goal with H : total_sol_debt _ = Some _ |- _ => unfold total_sol_debt in H; apply checked_sub_some in H; destruct H as [-> Hle] end.
  proj_simpl.
  lazymatch goal with
  | _ : data (get W (mkey mc)) = DConfig ?c, _ : data (get W (mkey md)) = DDist ?d ?tail, _ : data (get W (mkey mj)) = DJournal ?j |- _ =>
    exists c, (mkey md), d, tail, (mkey mj), j end. eexists. split.
  - constructor; try assumption. exists mc, md, mj. repeat split; eauto.
  - intros Ez. rewrite Ez in H. cbn [N.eqb] in H. change (0 =? 0) with true in H. cbv iota in H. inv_all.
    match goal with H : put_dist _ _ _ _ _ = Ok _ |- _ => apply put_dist_spec in H; destruct H as (_ & _ & Hn1 & Hg1) end.
    apply write_data_spec in H. destruct H as (_ & _ & Hn2 & Hg2).
    split; [congruence|]. intros k. rewrite Hg2, !Hg1. unfold sw_journal0, sw_dist1.
    rewrite (key_eqb_sym k (mkey mj)), (key_eqb_sym k (mkey md)).
    match goal with Hne : mkey mj <> mkey md |- _ => rewrite (key_eqb_neq (mkey md) (mkey mj)) by congruence end.
    destruct (key_eqb (mkey mj) k); [reflexivity|]. reflexivity.
Qed.

(* non-zero collectible debt, any swap program: W2 is the world handed to the swap program, W3 the one it returns *)
Record sweep_facts (cx : ctx) (W W' : world) (c : rd_config) (dk : key) (d : dist) (tail : list N) (jk : key) (j : journal)
  (debt z : N) (cfg st fills : key) (W2 W3 : world) (s t : token_acct) : Prop := {
  sf_common : exists mcfg mst mfills mprog mtk msa msd rest,
      sweep_common cx W c dk d tail jk j (mcfg :: mst :: mfills :: mprog :: mtk :: msa :: msd :: rest) /\
      mkey mcfg = cfg /\ mkey mst = st /\ mkey mfills = fills /\ mkey mprog = c_swap_program c /\
      mkey mtk = KTok2z dk /\ mkey msa = KRdSwapAuth /\ mkey msd = KTok2z KRdSwapAuth;
  sf_debt : debt = d_total_debt d - d_uncollectible d /\ debt <> 0;
  sf_pool : debt <= j_swapped_sol j;
  sf_swap_auth_bump : c_has_swap_auth_bump c = true;
  (* the state the swap program sees: distribution flagged, journal pointer advanced and pool debited *)
  sf_W2 : now W2 = now W /\
          forall k, get W2 k = if key_eqb k jk then (get W jk) <| data := DJournal (sw_journal1 j debt) |>
                               else if key_eqb k dk then (get W dk) <| data := DDist (sw_dist1 d) tail |> else get W k;
  (* the configured swap program answers (exactly this SOL amount, z, _) under its own program id *)
  sf_cpi : exists n, swap_dequeue_cpi cx W2 (c_swap_program c) cfg st fills jk debt [KRdJournal]
                     = Ok (W3, Some (c_swap_program c, RTriple debt z n));
  sf_src : as_token W3 (KTok2z KRdSwapAuth) = Ok s;
  sf_dst : as_token W3 (KTok2z dk) = Ok t;
  sf_src_funds : z <= t_amount s;
  sf_src_owner : t_owner s = KRdSwapAuth;
  sf_same_mint : t_mint s = t_mint t;
  sf_no_overflow : dk <> KRdSwapAuth -> z <> 0 -> t_amount t + z < two64;
  sf_tracked : z <= j_swap_dest_balance j;
  sf_now : now W' = now W3;
  sf_effect : forall k, get W' k =
      if key_eqb k jk then (get W3 jk) <| data := DJournal (sw_journal2 j debt z) |>
      else if key_eqb k dk then (get W3 dk) <| data := DDist (sw_dist2 d z) tail |>
      else if key_eqb dk KRdSwapAuth then get W3 k
      else if key_eqb k (KTok2z KRdSwapAuth) then (get W3 k) <| data := DToken (s <| t_amount := t_amount s - z |>) |>
      else if key_eqb k (KTok2z dk) then (get W3 k) <| data := DToken (t <| t_amount := t_amount t + z |>) |>
      else get W3 k
}.

Theorem rd_sweep_spec cx W W' : rd_sweep cx W = Ok W' ->
  forall c dk d tail jk j rest, sweep_common cx W c dk d tail jk j rest -> d_total_debt d - d_uncollectible d <> 0 ->
  exists z cfg st fills W2 W3 s t,
    sweep_facts cx W W' c dk d tail jk j (d_total_debt d - d_uncollectible d) z cfg st fills W2 W3 s t.
Proof.
  unfold rd_sweep. intros H c0 dk0 d0 tail0 jk0 j0 rest0 C Hnz. inv_all. norm_bool.
  match goal with H : rd_zc_config _ _ _ = Ok _ |- _ => apply rd_zc_config_ok in H; destruct H as (mc & Ems & -> & _ & Hoc & Hdc) end.
  match goal with H : rd_zc_dist _ _ _ = Ok _ |- _ => apply rd_zc_dist_ok in H; destruct H as (md & -> & -> & Hwd & Hod & Hdd) end.
  match goal with H : rd_zc_journal _ _ _ = Ok _ |- _ => apply rd_zc_journal_ok in H; destruct H as (mj & -> & -> & Hwj & Hoj & Hdj) end.
  match goal with H : total_sol_debt _ = Some _ |- _ => unfold total_sol_debt in H; apply checked_sub_some in H; destruct H as [-> Hle] end.
  proj_simpl.
  (* identify with the given common part *)
  destruct (sc_metas _ _ _ _ _ _ _ _ _ C) as (mc' & md' & mj' & Ems' & Ed & Ej & _ & _ & _ & Hdc').
  rewrite Ems in Ems'. injection Ems' as <- <- <- <-.
  pose proof (sc_dist_data _ _ _ _ _ _ _ _ _ C) as Hdd'. pose proof (sc_journal_data _ _ _ _ _ _ _ _ _ C) as Hdj'.
  rewrite <- Ed in Hdd'. rewrite <- Ej in Hdj'. rewrite Hdc in Hdc'. rewrite Hdd in Hdd'. rewrite Hdj in Hdj'.
  injection Hdc' as <-. injection Hdd' as <- <-. injection Hdj' as <-. subst dk0 jk0.
  match goal with H : (if ?b then _ else _) = Ok _ |- _ => destruct b eqn:Eb; [apply N.eqb_eq in Eb; contradiction|] end.
  inv_all. norm_bool.
  repeat match goal with H : next_any _ _ = Ok _ |- _ => apply next_any_ok in H; subst end.
  repeat match goal with H : next_2z_token_pda _ _ _ = Ok _ |- _ =>
    apply next_2z_token_pda_ok in H; let m := fresh "mt" in destruct H as (m & -> & ? & ->) end.
  match goal with H : match ?r with RTriple _ _ _ => _ | RMalformed _ => _ end = Ok _ |- _ => destruct r; [|discriminate H]; ok_inj H end.
  match goal with H : checked_sub _ _ = Some _ |- _ => apply checked_sub_some in H; destruct H as [-> Hbal] end.
  norm_bool. subst.
  match goal with H : put_dist _ W _ _ _ = Ok _ |- _ => apply put_dist_spec in H; destruct H as (_ & Ho1 & Hn1 & Hg1) end.
  match goal with H : write_data _ _ _ _ = Ok W' |- _ => apply write_data_spec in H; destruct H as (_ & _ & Hn6 & Hg6) end.
  match goal with H : write_data _ _ _ _ = Ok _ |- _ => apply write_data_spec in H; destruct H as (_ & _ & Hn2 & Hg2) end.
  match goal with H : put_dist _ _ _ _ _ = Ok _ |- _ => apply put_dist_spec in H; destruct H as (_ & Ho5 & Hn5 & Hg5) end.
  match goal with H : tok_transfer _ _ _ _ _ _ _ = Ok _ |- _ =>
    pose proof (tok_transfer_fields _ _ _ _ _ _ _ _ H) as Hf4; apply tok_transfer_spec in H; destruct H as (_ & _ & _ & _ & s & t & Hs & Ht & Hz & Hmint & Hown & Hn4 & Hsame & Hdiff) end.
  proj_simpl.
  set (dk := mkey md) in *. set (jk := mkey mj) in *.
  match goal with H : swap_dequeue_cpi _ ?W2 _ ?cfg ?st ?fills _ _ _ = Ok (?W3, Some (_, RTriple _ ?z _)) |- _ =>
    exists z, cfg, st, fills, W2, W3, s, t; rename H into Hcpi; rename W3 into W3_; rename z into z_ end.
  constructor; try assumption.
  - do 7 eexists. eexists. split; [exact C|]. repeat split; auto.
  - split; [reflexivity|assumption].
  - split; [congruence|]. intros k. rewrite Hg2, !Hg1. unfold sw_journal1, sw_journal0, sw_dist1.
    rewrite (key_eqb_sym k jk), (key_eqb_sym k dk), (key_eqb_neq dk jk) by congruence.
    destruct (key_eqb jk k); reflexivity.
  - eexists. exact Hcpi.
  - congruence.
  - intros Hne Hz0. apply Hdiff; [congruence|assumption].
  - congruence.
  - clearbody dk jk. intros k. rewrite Hg6, !Hg5. unfold sw_journal2, sw_journal1, sw_journal0, sw_dist2, sw_dist1.
    rewrite (key_eqb_sym k jk), (key_eqb_sym k dk), (key_eqb_neq dk jk) by congruence.
    destruct (key_eqb_spec jk k) as [<-|Hj].
    { apply acct_ext; cbn; try reflexivity; apply Hf4. }
    destruct (key_eqb_spec dk k) as [<-|Hd].
    { apply acct_ext; cbn; try reflexivity; apply Hf4. }
    destruct (key_eqb_spec dk KRdSwapAuth) as [Ea|Ea].
    { apply Hsame. congruence. }
    destruct (Hdiff ltac:(congruence)) as (_ & Hg4). rewrite Hg4.
    rewrite (key_eqb_sym k (KTok2z KRdSwapAuth)), (key_eqb_sym k (KTok2z dk)).
    destruct (key_eqb_spec (KTok2z KRdSwapAuth) k) as [<-|]; [reflexivity|].
    destruct (key_eqb_spec (KTok2z dk) k) as [<-|]; reflexivity.
Qed.

(* both branches in one statement *)
Theorem rd_sweep_full_spec cx W W' : rd_sweep cx W = Ok W' ->
  exists c dk d tail jk j rest, sweep_common cx W c dk d tail jk j rest /\
    (d_total_debt d - d_uncollectible d = 0 ->
       now W' = now W /\
       forall k, get W' k = if key_eqb k jk then (get W jk) <| data := DJournal (sw_journal0 j) |>
                            else if key_eqb k dk then (get W dk) <| data := DDist (sw_dist1 d) tail |> else get W k) /\
    (d_total_debt d - d_uncollectible d <> 0 ->
       exists z cfg st fills W2 W3 s t,
         sweep_facts cx W W' c dk d tail jk j (d_total_debt d - d_uncollectible d) z cfg st fills W2 W3 s t).
Proof.
  intros H. destruct (rd_sweep_zero_spec _ _ _ H) as (c & dk & d & tail & jk & j & rest & C & Z).
  exists c, dk, d, tail, jk, j, rest. split; [exact C|]. split; [exact Z|]. intros Hnz.
  exact (rd_sweep_spec _ _ _ H _ _ _ _ _ _ _ C Hnz).
Qed.

(* the mock swap program (ring registry): everything explicit in terms of the pre-state *)
Theorem rd_sweep_mock_spec cx W W' c dk d tail jk j debt z cfg st fills W2 W3 s t :
  sweep_facts cx W W' c dk d tail jk j debt z cfg st fills W2 W3 s t -> c_swap_program c = KSwapMock ->
  cfg = KSwapCfg /\ st = KSwapState /\ owner (get W fills) = KSwapMock /\
  exists r r', data (get W fills) = DFills r /\ dequeue r debt = Some (r', z) /\
    as_token W (KTok2z KRdSwapAuth) = Ok s /\ as_token W (KTok2z dk) = Ok t /\
    (fills <> jk /\ fills <> dk /\ fills <> KTok2z KRdSwapAuth /\ fills <> KTok2z dk) /\
    (jk <> KTok2z KRdSwapAuth /\ jk <> KTok2z dk /\ dk <> KTok2z KRdSwapAuth /\ dk <> KTok2z dk) /\
    now W' = now W /\
    forall k, get W' k =
      if key_eqb k jk then (get W jk) <| data := DJournal (sw_journal2 j debt z) |>
      else if key_eqb k dk then (get W dk) <| data := DDist (sw_dist2 d z) tail |>
      else if key_eqb k fills then (get W fills) <| data := DFills r' |>
      else if key_eqb dk KRdSwapAuth then get W k
      else if key_eqb k (KTok2z KRdSwapAuth) then (get W k) <| data := DToken (s <| t_amount := t_amount s - z |>) |>
      else if key_eqb k (KTok2z dk) then (get W k) <| data := DToken (t <| t_amount := t_amount t + z |>) |>
      else get W k.
Proof.
  intros F Hmock.
  destruct (sf_common _ _ _ _ _ _ _ _ _ _ _ _ _ _ _ _ _ _ F) as (m1 & m2 & m3 & m4 & m5 & m6 & m7 & rest & C & _).
  destruct (sf_W2 _ _ _ _ _ _ _ _ _ _ _ _ _ _ _ _ _ _ F) as (Hn2 & Hg2).
  destruct (sf_cpi _ _ _ _ _ _ _ _ _ _ _ _ _ _ _ _ _ _ F) as (n & Hcpi). rewrite Hmock in Hcpi.
  apply swap_dequeue_cpi_mock_spec in Hcpi.
  destruct Hcpi as (_ & -> & -> & _ & _ & Hof & r & r' & z' & Hdf & Hdq & Hrep & Hn3 & Hg3).
  injection Hrep as <- _.
  pose proof (sc_journal_owner _ _ _ _ _ _ _ _ _ C) as Hoj. pose proof (sc_dist_owner _ _ _ _ _ _ _ _ _ C) as Hod.
  pose proof (sc_distinct _ _ _ _ _ _ _ _ _ C) as Hjd.
  assert (fills <> jk) as Nfj.
  { intros ->. rewrite Hg2, key_eqb_refl in Hof. cbn in Hof. congruence. }
  assert (fills <> dk) as Nfd.
  { intros ->. rewrite Hg2, (key_eqb_neq dk jk), key_eqb_refl in Hof by congruence. cbn in Hof. congruence. }
  rewrite Hg2, (key_eqb_neq fills jk), (key_eqb_neq fills dk) in Hof, Hdf by assumption.
  pose proof (sf_src _ _ _ _ _ _ _ _ _ _ _ _ _ _ _ _ _ _ F) as Hs. pose proof (sf_dst _ _ _ _ _ _ _ _ _ _ _ _ _ _ _ _ _ _ F) as Ht.
  apply as_token_ok in Hs, Ht. destruct Hs as [Hs Hso], Ht as [Ht Hto].
  (* owners in W3 / W2 are those of W *)
  assert (forall k, owner (get W3 k) = owner (get W k)) as HO.
  { intros k. rewrite Hg3. destruct (key_eqb_spec fills k) as [<-|]; cbn; rewrite Hg2.
    - rewrite (key_eqb_neq fills jk), (key_eqb_neq fills dk) by assumption. reflexivity.
    - destruct (key_eqb_spec k jk) as [->|]; [reflexivity|]. destruct (key_eqb_spec k dk) as [->|]; reflexivity. }
  rewrite HO in Hso, Hto.
  assert (fills <> KTok2z KRdSwapAuth) as Nfs by (intros E; rewrite E in Hof; congruence).
  assert (fills <> KTok2z dk) as Nft by (intros E; rewrite E in Hof; congruence).
  assert (jk <> KTok2z KRdSwapAuth) as Njs by (intros E; rewrite E in Hoj; congruence).
  assert (jk <> KTok2z dk) as Njt by (intros E; rewrite E in Hoj; congruence).
  assert (dk <> KTok2z KRdSwapAuth) as Nds by (intros E; rewrite E in Hod at 1; congruence).
  assert (dk <> KTok2z dk) as Ndt by (intros E; rewrite E in Hod at 1; congruence).
  assert (forall k, k <> fills -> k <> jk -> k <> dk -> get W3 k = get W k) as HF.
  { intros k H1 H2 H3. rewrite Hg3, (key_eqb_neq fills k) by congruence. rewrite Hg2, !key_eqb_neq by congruence. reflexivity. }
  rewrite HF in Hs, Ht by congruence.
  split; [reflexivity|]. split; [reflexivity|]. split; [assumption|].
  exists r, r'. split; [assumption|]. split; [assumption|].
  split; [apply as_token_ok; auto|]. split; [apply as_token_ok; auto|].
  split; [auto|]. split; [auto|].
  split; [rewrite (sf_now _ _ _ _ _ _ _ _ _ _ _ _ _ _ _ _ _ _ F); congruence|].
  intros k. rewrite (sf_effect _ _ _ _ _ _ _ _ _ _ _ _ _ _ _ _ _ _ F).
  destruct (key_eqb_spec k jk) as [->|Hkj].
  { rewrite Hg3, (key_eqb_neq fills jk) by assumption. rewrite Hg2, key_eqb_refl. apply acct_ext; reflexivity. }
  destruct (key_eqb_spec k dk) as [->|Hkd].
  { rewrite Hg3, (key_eqb_neq fills dk) by assumption. rewrite Hg2, (key_eqb_neq dk jk), key_eqb_refl by congruence. apply acct_ext; reflexivity. }
  destruct (key_eqb_spec k fills) as [->|Hkf].
  { rewrite (key_eqb_neq fills (KTok2z KRdSwapAuth)), (key_eqb_neq fills (KTok2z dk)) by assumption.
    assert (get W3 fills = get W fills <| data := DFills r' |>) as ->.
    { rewrite Hg3, key_eqb_refl. rewrite Hg2, (key_eqb_neq fills jk), (key_eqb_neq fills dk) by assumption. reflexivity. }
    destruct (key_eqb dk KRdSwapAuth); reflexivity. }
  rewrite (HF k) by assumption. reflexivity.
Qed.

(* C05 reading for a real distribution (its key is not the swap-authority PDA): amounts *)
Theorem rd_sweep_mock_amounts cx W W' c dk d tail jk j debt z cfg st fills W2 W3 s t :
  sweep_facts cx W W' c dk d tail jk j debt z cfg st fills W2 W3 s t -> c_swap_program c = KSwapMock -> dk <> KRdSwapAuth ->
  (* books *)
  data (get W' jk) = DJournal (sw_journal2 j debt z) /\ data (get W' dk) = DDist (sw_dist2 d z) tail /\
  j_swapped_sol (sw_journal2 j debt z) = j_swapped_sol j - debt /\ debt <= j_swapped_sol j /\
  j_swap_dest_balance (sw_journal2 j debt z) = j_swap_dest_balance j - z /\ z <= j_swap_dest_balance j /\
  j_next_sweep (sw_journal2 j debt z) = sat_add two64 (j_next_sweep j) 1 /\
  j_total_sol (sw_journal2 j debt z) = j_total_sol j /\ j_lifetime_2z (sw_journal2 j debt z) = j_lifetime_2z j /\
  d_swept (sw_dist2 d z) = true /\ d_swept_2z (sw_dist2 d z) = z /\
  (* real token accounts: the swap destination loses z, the distribution's custody account gains z *)
  as_token W (KTok2z KRdSwapAuth) = Ok s /\ as_token W (KTok2z dk) = Ok t /\
  as_token W' (KTok2z KRdSwapAuth) = Ok (s <| t_amount := t_amount s - z |>) /\ z <= t_amount s /\
  as_token W' (KTok2z dk) = Ok (t <| t_amount := t_amount t + z |>) /\
  (* no lamports move *)
  (forall k, lamports (get W' k) = lamports (get W k)) /\
  (* z is what the registry's oldest fill offers for exactly this SOL amount *)
  exists r r', data (get W fills) = DFills r /\ data (get W' fills) = DFills r' /\ dequeue r debt = Some (r', z) /\
    (ring_wf r -> exists f, abs r = f :: abs r' /\ sol_in f = debt /\ z = z_out f /\ ring_wf r').
Proof.
  intros F Hmock Hne.
  destruct (rd_sweep_mock_spec _ _ _ _ _ _ _ _ _ _ _ _ _ _ _ _ _ _ F Hmock)
    as (_ & _ & Hof & r & r' & Hdf & Hdq & Hs & Ht & (N1 & N2 & N3 & N4) & (M1 & M2 & M3 & M4) & Hn & Hg).
  assert (KTok2z KRdSwapAuth <> KTok2z dk) as Nst by congruence.
  pose proof (sf_common _ _ _ _ _ _ _ _ _ _ _ _ _ _ _ _ _ _ F) as (m1 & m2 & m3 & m4 & m5 & m6 & m7 & rest & C & _).
  pose proof (sc_distinct _ _ _ _ _ _ _ _ _ C) as Hjd.
  split; [rewrite Hg, key_eqb_refl; reflexivity|].
  split; [rewrite Hg, (key_eqb_neq dk jk), key_eqb_refl by congruence; reflexivity|].
  split; [reflexivity|]. split; [exact (sf_pool _ _ _ _ _ _ _ _ _ _ _ _ _ _ _ _ _ _ F)|].
  split; [reflexivity|]. split; [exact (sf_tracked _ _ _ _ _ _ _ _ _ _ _ _ _ _ _ _ _ _ F)|].
  split; [reflexivity|]. split; [reflexivity|]. split; [reflexivity|]. split; [reflexivity|]. split; [reflexivity|].
  split; [assumption|]. split; [assumption|].
  apply as_token_ok in Hs, Ht. destruct Hs as [Hs Hso], Ht as [Ht Hto].
  split.
  { apply as_token_ok. rewrite Hg, (key_eqb_neq (KTok2z KRdSwapAuth) jk), (key_eqb_neq (KTok2z KRdSwapAuth) dk),
      (key_eqb_neq (KTok2z KRdSwapAuth) fills), (key_eqb_neq dk KRdSwapAuth), key_eqb_refl by congruence. cbn. auto. }
  split; [exact (sf_src_funds _ _ _ _ _ _ _ _ _ _ _ _ _ _ _ _ _ _ F)|].
  split.
  { apply as_token_ok. rewrite Hg, (key_eqb_neq (KTok2z dk) jk), (key_eqb_neq (KTok2z dk) dk),
      (key_eqb_neq (KTok2z dk) fills), (key_eqb_neq dk KRdSwapAuth), (key_eqb_neq (KTok2z dk) (KTok2z KRdSwapAuth)), key_eqb_refl by congruence.
    cbn. auto. }
  split.
  { intros k. rewrite Hg. repeat match goal with |- context [key_eqb ?a ?b] => destruct (key_eqb_spec a b); subst; try reflexivity end. }
  exists r, r'. split; [assumption|]. split.
  { rewrite Hg, (key_eqb_neq fills jk), (key_eqb_neq fills dk), key_eqb_refl by assumption. reflexivity. }
  split; [assumption|]. intros Hwf. apply (dequeue_queue _ _ _ _ Hwf Hdq).
Qed.

(* non-vacuity: epoch 5 has 800 lamports of collectible debt; the registry's oldest fill offers 5000 2Z for 800 SOL-lamports *)
Definition ex_ring : ring := {| slots := {| sol_in := 800; z_out := 5000 |} :: {| sol_in := 1; z_out := 2 |} :: repeat empty_fill 6; head := 0; count := 2 |}.
Definition ex_sweep_journal : journal := ex_journal <| j_swapped_sol := 1000 |> <| j_swap_dest_balance := 9000 |>.
Definition ex_sweep_world (d : dist) : world := ex_world [
  (KRdConfig, ex_acct (rent LEN_CONFIG_ALLOC) LEN_CONFIG_ALLOC (DConfig ex_cfg));
  (KRdDist 5, ex_acct (rent (LEN_DIST + 1)) (LEN_DIST + 1) (DDist d [0]));
  (KRdJournal, ex_acct (rent LEN_CONFIG_ALLOC + 900) LEN_CONFIG_ALLOC (DJournal ex_sweep_journal));
  (KUser 9, {| lamports := 1; owner := KSwapMock; alen := LEN_FILLS; data := DFills ex_ring |});
  (KTok2z (KRdDist 5), ex_tok (KRdDist 5) 10);
  (KTok2z KRdSwapAuth, ex_tok KRdSwapAuth 9000)].
Definition ex_sweep_cx : ctx := ex_cx KRd [mk KRdConfig false false; mk (KRdDist 5) false true; mk KRdJournal false true;
  mk KSwapCfg false false; mk KSwapState false false; mk (KUser 9) false true; mk KSwapMock false false;
  mk (KTok2z (KRdDist 5)) false true; mk KRdSwapAuth false false; mk (KTok2z KRdSwapAuth) false true; mk KToken false false].
Definition ex_dist5s : dist := ex_dist5 <| d_rewards_final := true |> <| d_total_contributors := 2 |>
  <| d_rewards_root := tree_root PRE_REWARD [LReward (KUser 21) 400000000 0; LReward (KUser 22) 600000000 100000000] |>
  <| d_rew_start := 1 |> <| d_rew_end := 2 |>.

Example rd_sweep_nonvacuous :
  (exists W', rd_sweep ex_sweep_cx (ex_sweep_world ex_dist5s) = Ok W' /\
     data (get W' (KRdDist 5)) = DDist (sw_dist2 ex_dist5s 5000) [0] /\
     data (get W' KRdJournal) = DJournal (sw_journal2 ex_sweep_journal 800 5000) /\
     j_swapped_sol (sw_journal2 ex_sweep_journal 800 5000) = 200 /\ j_swap_dest_balance (sw_journal2 ex_sweep_journal 800 5000) = 4000 /\
     as_token W' (KTok2z (KRdDist 5)) = Ok {| t_mint := KMint; t_owner := KRdDist 5; t_amount := 5010 |} /\
     as_token W' (KTok2z KRdSwapAuth) = Ok {| t_mint := KMint; t_owner := KRdSwapAuth; t_amount := 4000 |} /\
     is_ok (rd_sweep ex_sweep_cx W') = false) /\
  (* zero collectible debt *)
  (let d0 := ex_dist5s <| d_uncollectible := 800 |> in
   exists W', rd_sweep ex_sweep_cx (ex_sweep_world d0) = Ok W' /\
     data (get W' (KRdDist 5)) = DDist (sw_dist1 d0) [0] /\ data (get W' KRdJournal) = DJournal (sw_journal0 ex_sweep_journal) /\
     get W' (KTok2z (KRdDist 5)) = ex_tok (KRdDist 5) 10 /\ get W' (KUser 9) = get (ex_sweep_world d0) (KUser 9)).
Proof. split; [|cbv zeta]; eexists; (split; [vm_compute; reflexivity|]); vm_compute; repeat split. Qed.

(* ------------------------------------------------------------------------------------------------ aliasing caveats
   Two readings of the property texts are FALSE of the model for degenerate account choices; the pointwise
   specifications above are exact, these witnesses only show that the side conditions in the corollaries are needed. *)

(* C06 "the withdrawal moves exactly the requested lamports": not when the swap program names the journal itself as the
   destination - the books are debited, no lamport moves (withdraw_sol_dest_after needs dest <> jk). *)
Example withdraw_sol_to_journal_moves_nothing_refuted :
  let cx := {| cx_prog := KRd; cx_height := 2;
               cx_metas := [mk KRdConfig false false; mk (KWithdrawAuth KSwapMock) true false; mk KRdJournal false true; mk KRdJournal false true];
               cx_sibling := Some {| sb_prog := KToken; sb_kind := SibTransferChecked 55;
                                     sb_accounts := [KUser 4; KMint; KTok2z KRdSwapAuth; KUser 4] |} |} in
  let W := ex_world [(KRdConfig, ex_acct (rent LEN_CONFIG_ALLOC) LEN_CONFIG_ALLOC (DConfig ex_cfg));
                     (KRdJournal, ex_acct (rent LEN_CONFIG_ALLOC + 900) LEN_CONFIG_ALLOC (DJournal ex_journal))] in
  exists W', rd_withdraw_sol cx W 300 = Ok W' /\
    (forall k, lamports (get W' k) = lamports (get W k)) /\
    data (get W' KRdJournal) = DJournal (ws_journal ex_journal 300 55) /\ j_total_sol (ws_journal ex_journal 300 55) = 600.
Proof.
  eexists. split; [vm_compute; reflexivity|]. split; [|vm_compute; auto].
  intros k. destruct (key_eqb_spec k KRdConfig) as [->|N1]; [reflexivity|].
  destruct (key_eqb_spec k KRdJournal) as [->|N2]; [reflexivity|].
  unfold get. cbn. rewrite (key_eqb_neq k KRdConfig), (key_eqb_neq k KRdJournal) by assumption. reflexivity.
Qed.

(* C05 "debiting the tracked swap-destination balance and the real swap-destination account equally": not in a world
   where a Distribution-typed account sits at the swap-authority PDA (the processor does not re-derive the distribution
   key; no instruction creates such an account): custody account = swap destination, the transfer is a no-op, the books
   still move (rd_sweep_mock_amounts needs dk <> KRdSwapAuth). *)
Example sweep_distribution_at_swap_authority_refuted :
  let d := ex_dist5s in
  let W := ex_world [
    (KRdConfig, ex_acct (rent LEN_CONFIG_ALLOC) LEN_CONFIG_ALLOC (DConfig ex_cfg));
    (KRdSwapAuth, ex_acct (rent (LEN_DIST + 1)) (LEN_DIST + 1) (DDist d [0]));
    (KRdJournal, ex_acct (rent LEN_CONFIG_ALLOC + 900) LEN_CONFIG_ALLOC (DJournal ex_sweep_journal));
    (KUser 9, {| lamports := 1; owner := KSwapMock; alen := LEN_FILLS; data := DFills ex_ring |});
    (KTok2z KRdSwapAuth, ex_tok KRdSwapAuth 9000)] in
  let cx := ex_cx KRd [mk KRdConfig false false; mk KRdSwapAuth false true; mk KRdJournal false true;
    mk KSwapCfg false false; mk KSwapState false false; mk (KUser 9) false true; mk KSwapMock false false;
    mk (KTok2z KRdSwapAuth) false true; mk KRdSwapAuth false false; mk (KTok2z KRdSwapAuth) false true; mk KToken false false] in
  exists W', rd_sweep cx W = Ok W' /\
    data (get W' KRdSwapAuth) = DDist (sw_dist2 d 5000) [0] /\
    data (get W' KRdJournal) = DJournal (sw_journal2 ex_sweep_journal 800 5000) /\
    j_swap_dest_balance (sw_journal2 ex_sweep_journal 800 5000) = 4000 /\
    get W' (KTok2z KRdSwapAuth) = ex_tok KRdSwapAuth 9000.
Proof. eexists. split; [vm_compute; reflexivity|]. vm_compute. repeat split. Qed.
