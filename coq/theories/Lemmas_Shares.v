(* Proofs about the pure shares model (Shares.v, Recipients.v): arithmetic cores of C02, C03, C16. *)
From DZ Require Import Base Generated Shares Recipients.

(* ---------------------------------------------------------------- constants are the crate's current ones *)
Lemma shares_constants_generated :
  US32_MAX = G_UNIT_SHARE32_MAX /\ US16_MAX = G_UNIT_SHARE16_MAX /\ N.of_nat MAX_RECIPIENTS = G_MAX_RECIPIENTS /\
  FLAG_IS_BLOCKED_BIT = G_REWARD_SHARE_FLAG_IS_BLOCKED_BIT /\ FLAG_IS_BLOCKED_MASK = G_REWARD_SHARE_FLAG_IS_BLOCKED_MASK /\
  ECONOMIC_BURN_RATE_MASK = G_REWARD_SHARE_ECONOMIC_BURN_RATE_MASK /\
  G_RECIPIENT_SHARES_SIZE = 34 * G_MAX_RECIPIENTS /\ G_REWARD_SHARE_SIZE = 40.
Proof. repeat split; reflexivity. Qed.

(* ---------------------------------------------------------------- mul_scalar *)
Lemma floor_share_le m s x : 0 < m -> s <= m -> floor_share m s x <= x.
Proof. intros Hm Hs. unfold floor_share. apply N.div_le_upper_bound; [lia|]. nia. Qed.

Lemma floor_share_mono m s s' x : 0 < m -> s <= s' -> floor_share m s x <= floor_share m s' x.
Proof. intros Hm Hs. unfold floor_share. apply N.div_le_mono; [lia|]. nia. Qed.

(* no saturation can occur: a u32 share times a u64 scalar is below 2^128 *)
Lemma sat_mul128_exact s x : s < two64 -> x < two64 -> sat_mul two128 s x = s * x.
Proof.
  intros Hs Hx. unfold sat_mul.
  assert (s * x < two128) as H by (unfold two64, two128 in *; nia).
  apply N.ltb_lt in H. rewrite H. reflexivity.
Qed.

(* the code's u128 computation is floor(share * x / MAX); it panics exactly when that does not fit u64 *)
Lemma mul_scalar_faithful m s x : s < two64 -> x < two64 ->
  us_mul_scalar m s x = if floor_share m s x <? two64 then Some (floor_share m s x) else None.
Proof. intros Hs Hx. unfold us_mul_scalar, floor_share. rewrite sat_mul128_exact by assumption. reflexivity. Qed.

Theorem mul_scalar_spec m s x : 0 < m -> m < two64 -> s <= m -> x < two64 ->
  us_mul_scalar m s x = Some (floor_share m s x) /\ floor_share m s x <= x /\ floor_share m s x < two64.
Proof.
  intros Hm Hm64 Hs Hx.
  pose proof (floor_share_le m s x Hm Hs) as Hle.
  assert (floor_share m s x < two64) as Hlt by lia.
  rewrite mul_scalar_faithful by lia.
  apply N.ltb_lt in Hlt. rewrite Hlt. apply N.ltb_lt in Hlt. auto.
Qed.

Example mul_scalar_spec_nonvacuous :
  us32_mul_scalar 420000069 18446744073709551615 = Some 7747633783783352764 /\
  us16_mul_scalar 10000 18446744073709551615 = Some 18446744073709551615.
Proof. vm_compute. split; reflexivity. Qed.

(* outside the valid range (a stored share above MAX, which no constructor produces) mul_scalar panics *)
Example mul_scalar_above_max_panics : us32_mul_scalar 4294967295 18446744073709551615 = None.
Proof. vm_compute. reflexivity. Qed.

Lemma us_new_spec m v : us_new m v = if v <=? m then Some v else None.
Proof. reflexivity. Qed.
Lemma us_new_some m v r : us_new m v = Some r -> r = v /\ v <= m.
Proof. unfold us_new. destruct (v <=? m) eqn:E; [|discriminate]. intros H; injection H as <-. apply N.leb_le in E. auto. Qed.
Lemma us_new_ok m v : v <= m -> us_new m v = Some v.
Proof. intros H. unfold us_new. apply N.leb_le in H. rewrite H. reflexivity. Qed.

(* the u16 / u32 width never matters for checked_add of two valid shares *)
Lemma us_checked_add_spec w m a b : 2 * m < w -> a <= m -> b <= m ->
  us_checked_add w m a b = if a + b <=? m then Some (a + b) else None.
Proof.
  intros Hw Ha Hb. unfold us_checked_add, checked_add.
  assert (a + b < w) as H by lia. apply N.ltb_lt in H. rewrite H. reflexivity.
Qed.

(* ---------------------------------------------------------------- sums of floors (C02) *)
Lemma sum_floor_le_floor_sum m T (l : list N) : 0 < m ->
  sumN (map (fun s => floor_share m s T) l) <= floor_share m (sumN l) T.
Proof.
  intros Hm. induction l as [|s tl IH]; cbn [map sumN]; unfold floor_share in *.
  - rewrite N.mul_0_l, N.div_0_l by lia. lia.
  - rewrite N.mul_add_distr_r.
    pose proof (N.div_mod' (s * T) m). pose proof (N.div_mod' (sumN tl * T) m).
    pose proof (N.div_mod' (s * T + sumN tl * T) m).
    pose proof (N.mod_lt (s * T) m ltac:(lia)). pose proof (N.mod_lt (sumN tl * T) m ltac:(lia)).
    pose proof (N.mod_lt (s * T + sumN tl * T) m ltac:(lia)).
    nia.
Qed.

Theorem sum_floor_le m T l : 0 < m -> sumN l <= m -> sumN (map (fun s => floor_share m s T) l) <= T.
Proof.
  intros Hm H. etransitivity; [apply sum_floor_le_floor_sum; exact Hm|]. apply floor_share_le; assumption.
Qed.

Theorem outflow_le_collected T l : sumN l <= US32_MAX -> sumN (map (fun s => floor_share US32_MAX s T) l) <= T.
Proof. apply sum_floor_le. unfold US32_MAX. lia. Qed.

Lemma residue_aux m T (l : list N) : 0 < m ->
  sumN l * T <= m * sumN (map (fun s => floor_share m s T) l) + (m - 1) * N.of_nat (length l).
Proof.
  intros Hm. induction l as [|s tl IH]; cbn [map sumN length]; unfold floor_share in *.
  - lia.
  - pose proof (N.div_mod' (s * T) m). pose proof (N.mod_lt (s * T) m ltac:(lia)).
    rewrite Nnat.Nat2N.inj_succ. nia.
Qed.

Theorem residue_lt_leaves T l : sumN l = US32_MAX -> l <> [] ->
  T - sumN (map (fun s => floor_share US32_MAX s T) l) < N.of_nat (length l).
Proof.
  intros Hs Hne. pose proof (residue_aux US32_MAX T l ltac:(unfold US32_MAX; lia)) as H. rewrite Hs in H.
  assert (0 < N.of_nat (length l)) by (destruct l; [congruence|cbn [length]; lia]).
  unfold US32_MAX in *. nia.
Qed.

Example residue_nonvacuous :
  let l := [333333333; 333333333; 333333334] in
  sumN l = US32_MAX /\ 100 - sumN (map (fun s => floor_share US32_MAX s 100) l) = 1.
Proof. vm_compute. split; reflexivity. Qed.

(* ---------------------------------------------------------------- RewardShare bit packing *)
Lemma flag_mask_pow2 : FLAG_IS_BLOCKED_MASK = 2 ^ 31.
Proof. reflexivity. Qed.
Lemma ebr_mask_ones : ECONOMIC_BURN_RATE_MASK = N.ones 30.
Proof. reflexivity. Qed.

Lemma flag_bits n : N.testbit FLAG_IS_BLOCKED_MASK n = (31 =? n).
Proof. rewrite flag_mask_pow2. apply N.pow2_bits_eqb. Qed.
Lemma mask_bits n : N.testbit ECONOMIC_BURN_RATE_MASK n = (n <? 30).
Proof.
  rewrite ebr_mask_ones. destruct (n <? 30) eqn:E.
  - apply N.ltb_lt in E. apply N.ones_spec_low. exact E.
  - apply N.ltb_ge in E. apply N.ones_spec_high. exact E.
Qed.
Lemma small_bits e k n : e < 2 ^ k -> k <= n -> N.testbit e n = false.
Proof. intros He Hn. rewrite <- (N.mod_small e (2 ^ k)) by exact He. apply N.mod_pow2_bits_high. exact Hn. Qed.

Lemma us32_max_lt_pow30 : US32_MAX < 2 ^ 30.
Proof. vm_compute. reflexivity. Qed.

Ltac bits :=
  apply N.bits_inj; intro n;
  rewrite ?N.land_spec, ?N.lor_spec, ?N.ldiff_spec, ?flag_bits, ?mask_bits, ?N.bits_0.

Lemma land_ebr_mask e : e < 2 ^ 30 -> N.land e ECONOMIC_BURN_RATE_MASK = e.
Proof. intros H. rewrite ebr_mask_ones, N.land_ones. apply N.mod_small. exact H. Qed.
Lemma land_flag_small e : e < 2 ^ 31 -> N.land e FLAG_IS_BLOCKED_MASK = 0.
Proof.
  intros H. bits. destruct (31 =? n) eqn:E.
  - apply N.eqb_eq in E. subst n. rewrite (small_bits e 31 31) by (exact H || lia). reflexivity.
  - apply andb_false_r.
Qed.
(* on the valid range the bit-or that sets the flag is the addition of 2^31 *)
Lemma lor_flag_add e : e < 2 ^ 31 -> N.lor e FLAG_IS_BLOCKED_MASK = e + 2 ^ 31.
Proof.
  intros H. pose proof (land_flag_small e H) as H0.
  rewrite <- flag_mask_pow2. rewrite N.add_nocarry_lxor by exact H0. symmetry. apply N.lxor_lor. exact H0.
Qed.

Lemma is_blocked_lor rem : N.land (N.lor rem FLAG_IS_BLOCKED_MASK) FLAG_IS_BLOCKED_MASK = FLAG_IS_BLOCKED_MASK.
Proof. bits. destruct (N.testbit rem n), (31 =? n); reflexivity. Qed.
Lemma is_blocked_ldiff rem : N.land (N.ldiff rem FLAG_IS_BLOCKED_MASK) FLAG_IS_BLOCKED_MASK = 0.
Proof. bits. destruct (N.testbit rem n), (31 =? n); reflexivity. Qed.

(* what RewardShare::new builds, and what the getters read back *)
Theorem pack_unpack key us block ebr : us <= US32_MAX -> ebr <= US32_MAX ->
  exists r, reward_share_new key us block ebr = Some r /\
    rs_key r = key /\ rs_unit_share r = us /\ rs_checked_unit_share r = Some us /\
    rs_is_blocked r = block /\ rs_economic_burn_rate r = ebr /\ rs_checked_economic_burn_rate r = Some ebr /\
    rs_remaining r = ebr + (if block then 2 ^ 31 else 0) /\ rs_remaining r < two32.
Proof.
  intros Hu He. pose proof us32_max_lt_pow30 as HM.
  assert (ebr < 2 ^ 30) as He30 by lia.
  assert (ebr < 2 ^ 31) as He31 by (change (2 ^ 31) with (2 * 2 ^ 30); lia).
  unfold reward_share_new, us32_new. rewrite !us_new_ok by assumption.
  eexists. split; [reflexivity|].
  unfold rs_checked_unit_share, rs_checked_economic_burn_rate, rs_is_blocked, rs_economic_burn_rate, us32_new;
    cbn [rs_key rs_unit_share rs_remaining].
  assert (N.land (if block then N.lor ebr FLAG_IS_BLOCKED_MASK else ebr) ECONOMIC_BURN_RATE_MASK = ebr) as Hget.
  { destruct block; [|apply land_ebr_mask; exact He30].
    rewrite N.land_lor_distr_l, land_ebr_mask by exact He30.
    replace (N.land FLAG_IS_BLOCKED_MASK ECONOMIC_BURN_RATE_MASK) with 0 by reflexivity. apply N.lor_0_r. }
  rewrite Hget, !us_new_ok by assumption.
  repeat split; try reflexivity.
  - destruct block.
    + rewrite is_blocked_lor. reflexivity.
    + rewrite land_flag_small by exact He31. reflexivity.
  - destruct block; [apply lor_flag_add; exact He31|lia].
  - destruct block.
    + rewrite lor_flag_add by exact He31. change (2 ^ 31) with 2147483648 in *. change (2 ^ 30) with 1073741824 in *. unfold two32. lia.
    + change (2 ^ 30) with 1073741824 in *. unfold two32. lia.
Qed.

Theorem pack_accepts_iff key us block ebr :
  (exists r, reward_share_new key us block ebr = Some r) <-> us <= US32_MAX /\ ebr <= US32_MAX.
Proof.
  split.
  - intros [r H]. unfold reward_share_new, us32_new in H.
    destruct (us_new US32_MAX us) eqn:E1; [|discriminate]. destruct (us_new US32_MAX ebr) eqn:E2; [|discriminate].
    apply us_new_some in E1, E2. tauto.
  - intros [Hu He]. destruct (pack_unpack key us block ebr Hu He) as (r & H & _). eauto.
Qed.

Theorem pack_inj k us b e k' us' b' e' r :
  reward_share_new k us b e = Some r -> reward_share_new k' us' b' e' = Some r ->
  k = k' /\ us = us' /\ b = b' /\ e = e'.
Proof.
  intros H1 H2.
  assert (us <= US32_MAX /\ e <= US32_MAX) as [Hu He] by (apply (pack_accepts_iff k us b e); eauto).
  assert (us' <= US32_MAX /\ e' <= US32_MAX) as [Hu' He'] by (apply (pack_accepts_iff k' us' b' e'); eauto).
  destruct (pack_unpack k us b e Hu He) as (r1 & E1 & A1 & A2 & _ & A3 & A4 & _).
  destruct (pack_unpack k' us' b' e' Hu' He') as (r2 & E2 & B1 & B2 & _ & B3 & B4 & _).
  rewrite H1 in E1. rewrite H2 in E2. injection E1 as <-. injection E2 as <-.
  repeat split; congruence.
Qed.

(* the flag and the rate are independent fields of any stored u32 *)
Theorem set_is_blocked_spec r b :
  rs_is_blocked (rs_set_is_blocked r b) = b /\
  rs_economic_burn_rate (rs_set_is_blocked r b) = rs_economic_burn_rate r /\
  rs_unit_share (rs_set_is_blocked r b) = rs_unit_share r.
Proof.
  unfold rs_is_blocked, rs_economic_burn_rate, rs_set_is_blocked; cbn [rs_key rs_unit_share rs_remaining].
  repeat split.
  - destruct b; [rewrite is_blocked_lor|rewrite is_blocked_ldiff]; reflexivity.
  - destruct b; bits; destruct (N.testbit (rs_remaining r) n), (31 =? n) eqn:E1, (n <? 30) eqn:E2; try reflexivity; lia.
Qed.

Theorem set_economic_burn_rate_spec r e : e <= US32_MAX ->
  rs_economic_burn_rate (rs_set_economic_burn_rate r e) = e /\
  rs_is_blocked (rs_set_economic_burn_rate r e) = rs_is_blocked r /\
  rs_unit_share (rs_set_economic_burn_rate r e) = rs_unit_share r.
Proof.
  intros He. pose proof us32_max_lt_pow30 as HM. assert (e < 2 ^ 30) as He30 by lia.
  unfold rs_is_blocked, rs_economic_burn_rate, rs_set_economic_burn_rate; cbn [rs_key rs_unit_share rs_remaining].
  repeat split.
  - bits. destruct (n <? 30) eqn:E.
    + destruct (N.testbit (rs_remaining r) n), (N.testbit e n); reflexivity.
    + apply N.ltb_ge in E. rewrite (small_bits e 30 n) by assumption.
      destruct (N.testbit (rs_remaining r) n); reflexivity.
  - f_equal. f_equal. bits. destruct (31 =? n) eqn:E.
    + apply N.eqb_eq in E. subst n. rewrite (small_bits e 30 31) by (assumption || lia).
      replace (31 <? 30) with false by reflexivity. destruct (N.testbit (rs_remaining r) 31); reflexivity.
    + rewrite !andb_false_r. reflexivity.
Qed.

Example pack_nonvacuous :
  option_map (fun r => (rs_remaining r, rs_is_blocked r, rs_economic_burn_rate r)) (reward_share_new 7 500000000 true 1000000000)
  = Some (3147483648, true, 1000000000).
Proof. vm_compute. reflexivity. Qed.

(* ---------------------------------------------------------------- split_2z_amount and the recipient loop (C02, C03) *)
Definition amounts_of (remaining : N) (recips : list (rkey * N)) : list N :=
  map (fun e => floor_share US16_MAX (snd e) remaining) recips.

Lemma amounts_of_sum_le remaining recips : sumN (map snd recips) <= US16_MAX -> sumN (amounts_of remaining recips) <= remaining.
Proof.
  intros H. unfold amounts_of. rewrite <- (map_map snd (fun s => floor_share US16_MAX s remaining)).
  apply sum_floor_le; [unfold US16_MAX; lia|exact H].
Qed.

Lemma transfer_loop_spec remaining : forall recips acc,
  remaining < two64 -> Forall (fun e => snd e <= US16_MAX) recips ->
  acc + sumN (amounts_of remaining recips) < two64 ->
  transfer_loop remaining recips acc = Some (acc + sumN (amounts_of remaining recips), amounts_of remaining recips).
Proof.
  induction recips as [|[k s] tl IH]; intros acc Hr Hall Hacc; cbn [transfer_loop amounts_of map sumN snd] in *.
  - rewrite N.add_0_r. reflexivity.
  - inversion Hall as [|? ? Hs Htl]; subst. cbn [snd] in Hs.
    unfold us16_mul_scalar.
    destruct (mul_scalar_spec US16_MAX s remaining) as (E & _ & _); try (unfold US16_MAX, two64 in *; lia).
    rewrite E. fold (amounts_of remaining tl) in *.
    unfold wadd64. rewrite wadd_small by lia.
    rewrite IH by (try assumption; lia).
    f_equal. f_equal. lia.
Qed.

Definition d_share (us total : N) : N := floor_share US32_MAX us total.
Definition d_rate_burn (us ebr cbr total : N) : N := floor_share US32_MAX (N.max cbr ebr) (d_share us total).
Definition d_remainder (us ebr cbr total : N) : N := d_share us total - d_rate_burn us ebr cbr total.

Record distribution_outcome (us ebr cbr total : N) (recips : list (rkey * N)) (burn transferred : N) (amounts : list N) : Prop := {
  do_us_valid : us <= US32_MAX;
  do_ebr_valid : ebr <= US32_MAX;
  do_nonempty : recips <> [];
  do_share_le_total : d_share us total <= total;
  do_amounts : amounts = amounts_of (d_remainder us ebr cbr total) recips;
  do_transferred : transferred = sumN amounts;
  do_transferred_le : transferred <= d_remainder us ebr cbr total;
  do_burn : burn = d_rate_burn us ebr cbr total + (d_remainder us ebr cbr total - transferred);
  do_conserves : burn + sumN amounts = d_share us total;
  do_burn_ge : d_rate_burn us ebr cbr total <= burn;
  do_burn_u64 : burn < two64
}.

(* split_2z_amount on any stored leaf whose two rates read back as valid (whatever the other bits are) *)
Lemma split_spec_raw cbr total r :
  rs_unit_share r <= US32_MAX -> rs_economic_burn_rate r <= US32_MAX -> cbr <= US32_MAX -> total < two64 ->
  let share := floor_share US32_MAX (rs_unit_share r) total in
  let rb := floor_share US32_MAX (N.max cbr (rs_economic_burn_rate r)) share in
  split_2z_amount cbr total r = Some (rb, share - rb) /\ rb <= share /\ share <= total.
Proof.
  intros Hu He Hc Ht share rb.
  assert (0 < US32_MAX /\ US32_MAX < two64) as [Hm0 Hm64] by (unfold US32_MAX, two64; lia).
  destruct (mul_scalar_spec US32_MAX (rs_unit_share r) total Hm0 Hm64 Hu Ht) as (E1 & L1 & B1). fold share in E1, L1, B1.
  assert (N.max cbr (rs_economic_burn_rate r) <= US32_MAX) as Hrate by lia.
  destruct (mul_scalar_spec US32_MAX (N.max cbr (rs_economic_burn_rate r)) share Hm0 Hm64 Hrate B1) as (E2 & L2 & B2).
  fold rb in E2, L2, B2.
  unfold split_2z_amount, rs_checked_unit_share, rs_checked_economic_burn_rate, us32_new.
  rewrite !us_new_ok by assumption. unfold burn_rate, us32_mul_scalar.
  rewrite (N.max_comm (rs_economic_burn_rate r) cbr), E1, E2.
  unfold wsub64. rewrite wsub_small by lia. auto.
Qed.

Lemma split_spec cbr total us ebr block key r : us <= US32_MAX -> ebr <= US32_MAX -> cbr <= US32_MAX -> total < two64 ->
  reward_share_new key us block ebr = Some r ->
  let share := floor_share US32_MAX us total in
  let rb := floor_share US32_MAX (N.max cbr ebr) share in
  split_2z_amount cbr total r = Some (rb, share - rb) /\ rb <= share /\ share <= total.
Proof.
  intros Hu He Hc Ht Hr.
  destruct (pack_unpack key us block ebr Hu He) as (r' & Hr' & _ & Hus & _ & _ & Hebr & _).
  rewrite Hr in Hr'. injection Hr' as <-.
  pose proof (split_spec_raw cbr total r) as H. rewrite Hus, Hebr in H. apply H; assumption.
Qed.

(* every distribution the code computes has exactly the shape the properties describe *)
Theorem distribute_spec us ebr cbr total recips burn transferred amounts :
  cbr <= US32_MAX -> total < two64 ->
  Forall (fun e => snd e <= US16_MAX) recips -> sumN (map snd recips) <= US16_MAX ->
  distribute_amounts_full us ebr cbr total recips = Some (burn, transferred, amounts) ->
  distribution_outcome us ebr cbr total recips burn transferred amounts.
Proof.
  intros Hc Ht Hall Hsum H. unfold distribute_amounts_full in H.
  destruct (reward_share_new 0 us false ebr) as [rs|] eqn:Hrs; [|discriminate].
  assert (us <= US32_MAX /\ ebr <= US32_MAX) as [Hu He] by (apply (pack_accepts_iff 0 us false ebr); eauto).
  destruct (split_spec cbr total us ebr false 0 rs Hu He Hc Ht Hrs) as (Hsplit & Hrb & Hshare).
  rewrite Hsplit in H.
  set (share := floor_share US32_MAX us total) in *.
  set (rb := floor_share US32_MAX (N.max cbr ebr) share) in *.
  pose proof (amounts_of_sum_le (share - rb) recips Hsum) as Hle.
  rewrite (transfer_loop_spec (share - rb) recips 0) in H by (try assumption; lia).
  rewrite N.add_0_l in H.
  destruct recips as [|e tl]; [discriminate|].
  remember (amounts_of (share - rb) (e :: tl)) as am eqn:Eam.
  injection H as <- <- <-.
  assert (wsub64 (share - rb) (sumN am) = share - rb - sumN am) as Hw1 by (unfold wsub64; apply wsub_small; lia).
  assert (wadd64 rb (share - rb - sumN am) = rb + (share - rb - sumN am)) as Hw2 by (unfold wadd64; apply wadd_small; lia).
  rewrite Hw1, Hw2.
  constructor; unfold d_remainder, d_rate_burn, d_share; fold share; fold rb; try assumption; try reflexivity; try lia.
  discriminate.
Qed.

(* and on valid inputs the computation never fails or panics *)
Theorem distribute_total us ebr cbr total recips :
  us <= US32_MAX -> ebr <= US32_MAX -> cbr <= US32_MAX -> total < two64 ->
  recips <> [] -> Forall (fun e => snd e <= US16_MAX) recips -> sumN (map snd recips) <= US16_MAX ->
  exists burn transferred amounts, distribute_amounts_full us ebr cbr total recips = Some (burn, transferred, amounts).
Proof.
  intros Hu He Hc Ht Hne Hall Hsum. unfold distribute_amounts_full.
  destruct (pack_unpack 0 us false ebr Hu He) as (rs & Hrs & _). rewrite Hrs.
  destruct (split_spec cbr total us ebr false 0 rs Hu He Hc Ht Hrs) as (Hsplit & Hrb & Hshare).
  rewrite Hsplit.
  set (share := floor_share US32_MAX us total) in *.
  set (rb := floor_share US32_MAX (N.max cbr ebr) share) in *.
  pose proof (amounts_of_sum_le (share - rb) recips Hsum) as Hle.
  rewrite (transfer_loop_spec (share - rb) recips 0) by (try assumption; lia).
  destruct recips; [congruence|]. eauto.
Qed.

Section Clauses.
  Variables us ebr cbr total burn : N.
  Variable recips : list (rkey * N).
  Variable amounts : list N.
  Hypothesis Hc : cbr <= US32_MAX.
  Hypothesis Ht : total < two64.
  Hypothesis Hall : Forall (fun e => snd e <= US16_MAX) recips.
  Hypothesis Hsum : sumN (map snd recips) <= US16_MAX.
  Hypothesis H : distribute_amounts us ebr cbr total recips = Some (burn, amounts).

  Lemma clauses_outcome : exists transferred, distribution_outcome us ebr cbr total recips burn transferred amounts.
  Proof.
    unfold distribute_amounts in H.
    destruct (distribute_amounts_full us ebr cbr total recips) as [[[b t] a]|] eqn:E; [|discriminate].
    injection H as <- <-. exists t. apply distribute_spec; assumption.
  Qed.

  (* C03: the burned amount is at least floor(max(community, economic) x share) *)
  Theorem burn_ge_floor : floor_share US32_MAX (N.max cbr ebr) (floor_share US32_MAX us total) <= burn.
  Proof. destruct clauses_outcome as [t O]. exact (do_burn_ge _ _ _ _ _ _ _ _ O). Qed.

  (* C03: the i-th recipient receives exactly floor(share_i x remainder / 10 000) *)
  Theorem recipient_amount_exact : forall i k s, nth_error recips i = Some (k, s) ->
    nth_error amounts i = Some (floor_share US16_MAX s (d_remainder us ebr cbr total)).
  Proof.
    destruct clauses_outcome as [t O]. intros i k s Hi.
    rewrite (do_amounts _ _ _ _ _ _ _ _ O). unfold amounts_of. rewrite nth_error_map, Hi. reflexivity.
  Qed.
  Theorem amounts_length : length amounts = length recips.
  Proof. destruct clauses_outcome as [t O]. rewrite (do_amounts _ _ _ _ _ _ _ _ O). unfold amounts_of. apply map_length. Qed.

  (* C02/C03: exactly the share amount leaves, every token transferred or burned (all dust burned) *)
  Theorem split_conserves : burn + sumN amounts = floor_share US32_MAX us total.
  Proof. destruct clauses_outcome as [t O]. exact (do_conserves _ _ _ _ _ _ _ _ O). Qed.

  Theorem transfers_le_remainder : sumN amounts <= d_remainder us ebr cbr total.
  Proof.
    destruct clauses_outcome as [t O]. rewrite <- (do_transferred _ _ _ _ _ _ _ _ O).
    exact (do_transferred_le _ _ _ _ _ _ _ _ O).
  Qed.

  Theorem share_le_total : floor_share US32_MAX us total <= total.
  Proof. destruct clauses_outcome as [t O]. exact (do_share_le_total _ _ _ _ _ _ _ _ O). Qed.

  (* the dust is smaller than the number of recipients when their shares total exactly 100% *)
  Theorem dust_lt_recipients : sumN (map snd recips) = US16_MAX ->
    burn - d_rate_burn us ebr cbr total < N.of_nat (length recips).
  Proof.
    intros Hs. destruct clauses_outcome as [t O].
    pose proof (do_burn _ _ _ _ _ _ _ _ O) as Hb. pose proof (do_transferred _ _ _ _ _ _ _ _ O) as Htr.
    pose proof (do_amounts _ _ _ _ _ _ _ _ O) as Ha. pose proof (do_nonempty _ _ _ _ _ _ _ _ O) as Hne.
    pose proof (do_transferred_le _ _ _ _ _ _ _ _ O) as Hle.
    set (remainder := d_remainder us ebr cbr total) in *.
    pose proof (residue_aux US16_MAX remainder (map snd recips) ltac:(unfold US16_MAX; lia)) as R.
    rewrite Hs, map_map, map_length in R. fold (amounts_of remainder recips) in R. rewrite <- Ha in R.
    assert (0 < N.of_nat (length recips)) by (destruct recips; [congruence|cbn [length]; lia]).
    subst t. rewrite Hb. unfold US16_MAX in *. nia.
  Qed.
End Clauses.

Example distribute_nonvacuous :
  distribute_amounts 100000000 50000000 100000000 3001 [(1, 3333); (2, 3333); (1, 3334)] = Some (32, [89; 89; 90]).
Proof. vm_compute. reflexivity. Qed.

(* ---------------------------------------------------------------- RecipientShares (C16) *)
Definition entry_ok (e : rkey * N) : Prop := fst e <> 0 /\ snd e <> 0 /\ snd e <= US16_MAX.

Fixpoint fill (out : table) (i : nat) (l : list (rkey * N)) : table :=
  match l with [] => out | e :: tl => fill (set_nth out i e) (S i) tl end.

Lemma set_nth_app {A} (pre : list A) x rest v : set_nth (pre ++ x :: rest) (length pre) v = pre ++ v :: rest.
Proof. induction pre as [|a pre IH]; cbn [app length set_nth]; [reflexivity|]. rewrite IH. reflexivity. Qed.

Lemma fill_spec d : forall l pre k, (length l <= k)%nat ->
  fill (pre ++ repeat d k) (length pre) l = pre ++ l ++ repeat d (k - length l).
Proof.
  induction l as [|e tl IH]; intros pre k Hk; cbn [fill length app] in *.
  - rewrite Nat.sub_0_r. reflexivity.
  - destruct k as [|k]; [lia|]. cbn [repeat]. rewrite set_nth_app.
    replace (pre ++ e :: repeat d k) with ((pre ++ [e]) ++ repeat d k) by (rewrite <- app_assoc; reflexivity).
    replace (S (length pre)) with (length (pre ++ [e])) by (rewrite app_length; cbn [length]; lia).
    rewrite IH by lia. rewrite <- app_assoc. cbn [app]. replace (S k - S (length tl))%nat with (k - length tl)%nat by lia. reflexivity.
Qed.

Lemma recipients_loop_some : forall l i out total o t,
  recipients_loop l i out total = Some (o, t) ->
  Forall entry_ok l /\ t = total + sumN (map snd l) /\ (l <> [] -> t <= US16_MAX) /\ o = fill out i l.
Proof.
  induction l as [|[k s] tl IH]; intros i out total o t H; cbn [recipients_loop] in H.
  - injection H as <- <-. cbn [map sumN fill]. repeat split; [constructor|lia|congruence].
  - destruct (k =? 0) eqn:Ek; [discriminate|]. apply N.eqb_neq in Ek.
    unfold us16_new in H. destruct (us_new US16_MAX s) as [sh|] eqn:Es; [|discriminate].
    apply us_new_some in Es. destruct Es as [-> Hs].
    destruct (s =? 0) eqn:Ez; [discriminate|]. apply N.eqb_neq in Ez.
    unfold us16_checked_add, us_checked_add, checked_add in H.
    destruct (total + s <? two16); [|discriminate].
    destruct (total + s <=? US16_MAX) eqn:El; [|discriminate]. apply N.leb_le in El.
    apply IH in H. destruct H as (Hall & Ht & Hle & Ho).
    cbn [map sumN snd fill]. repeat split.
    + constructor; [|exact Hall]. unfold entry_ok; cbn [fst snd]. auto.
    + lia.
    + intros _. destruct tl; [cbn [map sumN] in Ht; lia|apply Hle; discriminate].
    + exact Ho.
Qed.

Lemma recipients_loop_ok : forall l i out total,
  Forall entry_ok l -> total + sumN (map snd l) <= US16_MAX ->
  recipients_loop l i out total = Some (fill out i l, total + sumN (map snd l)).
Proof.
  induction l as [|[k s] tl IH]; intros i out total Hall Hsum; cbn [recipients_loop map sumN snd fill] in *.
  - rewrite N.add_0_r. reflexivity.
  - inversion Hall as [|? ? (Hk & Hz & Hs) Htl]; subst. cbn [fst snd] in *.
    apply N.eqb_neq in Hk. rewrite Hk.
    unfold us16_new. rewrite us_new_ok by exact Hs.
    apply N.eqb_neq in Hz. rewrite Hz.
    unfold us16_checked_add. rewrite us_checked_add_spec by (unfold US16_MAX, two16 in *; lia).
    assert (total + s <= US16_MAX) as Hl by lia. apply N.leb_le in Hl. rewrite Hl.
    rewrite IH by (try assumption; lia). f_equal. f_equal. lia.
Qed.

Lemma empty_table_repeat : empty_table = [] ++ repeat default_slot 8.
Proof. reflexivity. Qed.

(* C16: which lists are accepted, and what is then stored *)
Theorem recipients_new_spec l t :
  recipients_new l = Some t <->
  (1 <= length l <= 8)%nat /\ Forall (fun e => fst e <> 0) l /\ Forall (fun e => snd e <> 0) l /\
  sumN (map snd l) = US16_MAX /\ t = l ++ repeat default_slot (8 - length l).
Proof.
  unfold recipients_new, MAX_RECIPIENTS. split.
  - destruct (8 <? length l)%nat eqn:El; [discriminate|]. apply Nat.ltb_ge in El.
    destruct (recipients_loop l 0 empty_table 0) as [[o tot]|] eqn:E; [|discriminate].
    destruct (tot =? US16_MAX) eqn:Et; [|discriminate]. apply N.eqb_eq in Et. intros H; injection H as <-.
    apply recipients_loop_some in E. destruct E as (Hall & Htot & _ & Ho).
    rewrite N.add_0_l in Htot.
    assert (l <> []) as Hne by (intro; subst l; cbn [map sumN] in Htot; unfold US16_MAX in *; lia).
    repeat split.
    + destruct l; [congruence|cbn [length]; lia].
    + exact El.
    + eapply Forall_impl; [|exact Hall]. unfold entry_ok. tauto.
    + eapply Forall_impl; [|exact Hall]. unfold entry_ok. tauto.
    + lia.
    + rewrite Ho, empty_table_repeat. change 0%nat with (length (@nil (rkey * N))) at 1.
      rewrite fill_spec by exact El. reflexivity.
  - intros ((H1 & H8) & Hk & Hz & Hsum & ->).
    assert ((8 <? length l)%nat = false) as El by (apply Nat.ltb_ge; exact H8). rewrite El.
    assert (Forall entry_ok l) as Hall.
    { apply Forall_forall. intros e He. rewrite Forall_forall in Hk, Hz. unfold entry_ok. repeat split; auto.
      apply in_split in He. destruct He as (l1 & l2 & ->).
      rewrite map_app, sumN_app in Hsum. cbn [map sumN] in Hsum. lia. }
    rewrite recipients_loop_ok by (try assumption; lia).
    rewrite N.add_0_l. apply N.eqb_eq in Hsum. rewrite Hsum.
    rewrite empty_table_repeat. change 0%nat with (length (@nil (rkey * N))) at 1.
    rewrite fill_spec by exact H8. reflexivity.
Qed.

(* every accepted share is itself at most 100% (enforced by UnitShare16::new; also implied by the total) *)
Theorem recipients_new_shares_le l t : recipients_new l = Some t -> Forall (fun e => snd e <= US16_MAX) l.
Proof.
  intros H. apply recipients_new_spec in H. destruct H as (_ & _ & _ & Hsum & _).
  apply Forall_forall. intros e He. apply in_split in He. destruct He as (l1 & l2 & ->).
  rewrite map_app, sumN_app in Hsum. cbn [map sumN] in Hsum. lia.
Qed.

Lemma active_repeat_default k : active (repeat default_slot k) = [].
Proof. unfold active. induction k; cbn [repeat filter default_slot fst]; [reflexivity|]. rewrite N.eqb_refl. cbn [negb]. exact IHk. Qed.

Lemma active_app_default l k : Forall (fun e : rkey * N => fst e <> 0) l -> active (l ++ repeat default_slot k) = l.
Proof.
  intros H. unfold active. rewrite filter_app. fold (active (repeat default_slot k)). rewrite active_repeat_default, app_nil_r.
  induction H as [|e tl He Htl IH]; cbn [filter]; [reflexivity|].
  apply N.eqb_neq in He. rewrite He. cbn [negb]. rewrite IH. reflexivity.
Qed.

(* the distribution loop then iterates exactly the accepted list, in order, duplicates kept *)
Theorem recipients_new_active l t : recipients_new l = Some t -> active t = l /\ length t = 8%nat.
Proof.
  intros H. apply recipients_new_spec in H. destruct H as ((H1 & H8) & Hk & _ & _ & ->). split.
  - apply active_app_default. exact Hk.
  - rewrite app_length, repeat_length. lia.
Qed.

Lemma forallb_Forall {A} (f : A -> bool) (P : A -> Prop) l : (forall a, f a = true <-> P a) -> (forallb f l = true <-> Forall P l).
Proof. intros Hf. rewrite forallb_forall, Forall_forall. split; intros H a Ha; apply Hf; auto. Qed.

Theorem recipients_new_accepts_iff l : (exists t, recipients_new l = Some t) <-> recipients_valid l = true.
Proof.
  unfold recipients_valid, MAX_RECIPIENTS.
  rewrite !andb_true_iff, Nat.leb_le, Nat.leb_le, N.eqb_eq.
  rewrite (forallb_Forall _ (fun e : rkey * N => fst e <> 0)) by (intro a; rewrite negb_true_iff, N.eqb_neq; tauto).
  rewrite (forallb_Forall _ (fun e : rkey * N => snd e <> 0)) by (intro a; rewrite negb_true_iff, N.eqb_neq; tauto).
  split.
  - intros [t H]. apply recipients_new_spec in H. tauto.
  - intros ((((H1 & H8) & Hk) & Hz) & Hs). eexists. apply recipients_new_spec. repeat split; eauto.
Qed.

(* a stored table is always either empty or valid; a rejected update leaves the previous table intact *)
Definition table_valid (t : table) : Prop :=
  let a := active t in
  (1 <= length a <= 8)%nat /\ Forall (fun e => fst e <> 0 /\ snd e <> 0 /\ snd e <= US16_MAX) a /\
  sumN (map snd a) = US16_MAX /\ t = a ++ repeat default_slot (8 - length a).

Lemma recipients_new_table_valid l t : recipients_new l = Some t -> table_valid t.
Proof.
  intros H. pose proof (recipients_new_active l t H) as [Ha _]. pose proof (recipients_new_shares_le l t H) as Hle.
  apply recipients_new_spec in H. destruct H as (Hlen & Hk & Hz & Hs & Ht).
  unfold table_valid. rewrite Ha. repeat split; try tauto.
  apply Forall_forall. intros e He. rewrite Forall_forall in Hk, Hz, Hle. auto.
Qed.

Theorem table_update_spec old l :
  match recipients_new l with
  | Some t => table_update old l = (t, true) /\ table_valid t /\ active t = l
  | None => table_update old l = (old, false)
  end.
Proof.
  unfold table_update. destruct (recipients_new l) as [t|] eqn:E; [|reflexivity].
  split; [reflexivity|split; [eapply recipients_new_table_valid; exact E|apply (recipients_new_active l t E)]].
Qed.

Theorem table_empty_or_valid ups : forall t, (t = empty_table \/ table_valid t) ->
  table_run t ups = empty_table \/ table_valid (table_run t ups).
Proof.
  induction ups as [|l tl IH]; intros t Ht; cbn [table_run]; [exact Ht|].
  apply IH. pose proof (table_update_spec t l) as H.
  destruct (recipients_new l) as [t'|]; [destruct H as (-> & Hv & _)|rewrite H]; cbn [fst]; auto.
Qed.

Example active_empty_table : active empty_table = [].
Proof. reflexivity. Qed.

Example recipients_nonvacuous :
  recipients_new [(5, 1250); (5, 1250); (7, 7500)] = Some [(5, 1250); (5, 1250); (7, 7500); (0, 0); (0, 0); (0, 0); (0, 0); (0, 0)] /\
  recipients_new [(5, 10001)] = None /\ recipients_new [(5, 5000); (0, 5000)] = None /\ recipients_new [] = None /\
  recipients_new [(1, 1250); (2, 1250); (3, 1250); (4, 1250); (5, 1250); (6, 1250); (7, 1250); (8, 1249); (9, 1)] = None.
Proof. vm_compute. repeat split; reflexivity. Qed.

(* a stored valid table makes the distribution total and exact: the hypotheses of the clauses above hold for active t *)
Theorem valid_table_distributes t : table_valid t ->
  active t <> [] /\ Forall (fun e => snd e <= US16_MAX) (active t) /\ sumN (map snd (active t)) <= US16_MAX.
Proof.
  intros (Hlen & Hall & Hs & _). repeat split.
  - destruct (active t); [cbn [length] in Hlen; lia|discriminate].
  - eapply Forall_impl; [|exact Hall]. tauto.
  - lia.
Qed.

(* ---------------------------------------------------------------- the monitor accepts what the model computes *)
Lemma distribute_full_unfold us ebr cbr total recips :
  distribute_amounts us ebr cbr total recips =
  match distribute_amounts_full us ebr cbr total recips with Some (b, _, a) => Some (b, a) | None => None end.
Proof. reflexivity. Qed.

(* ---------------------------------------------------------------- the monitor accepts whatever the model predicts *)
Lemma optN_eqb_eq a b : optN_eqb a b = true -> a = b.
Proof. destruct a, b; cbn; intros H; try discriminate; [apply N.eqb_eq in H; subst|]; reflexivity. Qed.
Lemma optN_eqb_refl a : optN_eqb a a = true.
Proof. destruct a; cbn; [apply N.eqb_refl|reflexivity]. Qed.
Lemma pairN_eqb_eq a b : pairN_eqb a b = true -> a = b.
Proof. destruct a, b. unfold pairN_eqb; cbn [fst snd]. rewrite andb_true_iff, !N.eqb_eq. intros [-> ->]. reflexivity. Qed.
Lemma pairN_eqb_refl a : pairN_eqb a a = true.
Proof. unfold pairN_eqb. rewrite !N.eqb_refl. reflexivity. Qed.
Lemma listN_eqb_eq : forall a b, listN_eqb a b = true -> a = b.
Proof. induction a as [|x a IH]; destruct b as [|y b]; cbn [listN_eqb]; intros H; try discriminate; [reflexivity|].
  apply andb_true_iff in H. destruct H as [H1 H2]. apply N.eqb_eq in H1. subst. f_equal. apply IH. exact H2. Qed.
Lemma listN_eqb_refl a : listN_eqb a a = true.
Proof. induction a; cbn [listN_eqb]; [reflexivity|]. rewrite N.eqb_refl. exact IHa. Qed.
Lemma listNN_eqb_eq : forall a b, listNN_eqb a b = true -> a = b.
Proof. induction a as [|x a IH]; destruct b as [|y b]; cbn [listNN_eqb]; intros H; try discriminate; [reflexivity|].
  apply andb_true_iff in H. destruct H as [H1 H2]. apply pairN_eqb_eq in H1. subst. f_equal. apply IH. exact H2. Qed.
Lemma listNN_eqb_refl a : listNN_eqb a a = true.
Proof. induction a; cbn [listNN_eqb]; [reflexivity|]. rewrite pairN_eqb_refl. exact IHa. Qed.
Lemma opt_eqb_eq {A} (eq : A -> A -> bool) a b : (forall x y, eq x y = true -> x = y) -> opt_eqb eq a b = true -> a = b.
Proof. intros Heq. destruct a, b; cbn; intros H; try discriminate; [apply Heq in H; subst|]; reflexivity. Qed.

Definition case_in_range (c : shcase) : Prop :=
  match c with
  | CMul _ _ _ x _ => x < two64
  | CGetSet _ rem _ e2 _ _ _ => rem < two32 /\ e2 <= US32_MAX
  | _ => True
  end.

Lemma w_max_range w : 0 < w_max w /\ w_max w < two64 /\ 2 * w_max w < w_mod w.
Proof. destruct w; vm_compute; repeat split; reflexivity. Qed.

Lemma mon_mul w raw s x : x < two64 ->
  mon_shares (CMul w raw s x (if raw then us_mul_scalar (w_max w) s x
                              else match us_new (w_max w) s with Some v => us_mul_scalar (w_max w) v x | None => None end)) = None.
Proof.
  intros Hx. destruct (w_max_range w) as (Hm0 & Hm64 & _). cbn [mon_shares].
  destruct (s <=? w_max w) eqn:Es.
  - apply N.leb_le in Es. destruct (mul_scalar_spec (w_max w) s x Hm0 Hm64 Es Hx) as (E & Hle & _).
    rewrite us_new_ok by exact Es. rewrite E. destruct raw; unfold clause; rewrite optN_eqb_refl;
      apply N.leb_le in Hle; rewrite Hle; reflexivity.
  - destruct raw; [reflexivity|]. unfold us_new. rewrite Es. reflexivity.
Qed.

Lemma mon_arith w a b :
  mon_shares (CArith w a b (us_checked_add (w_mod w) (w_max w) a b) (us_checked_sub a b)
                           (us_saturating_add (w_mod w) (w_max w) a b) (us_saturating_sub a b)) = None.
Proof.
  destruct (w_max_range w) as (Hm0 & Hm64 & Hw). cbn [mon_shares].
  destruct ((a <=? w_max w) && (b <=? w_max w)) eqn:E; [|reflexivity].
  apply andb_true_iff in E. destruct E as [Ha Hb]. apply N.leb_le in Ha, Hb.
  rewrite us_checked_add_spec by assumption.
  unfold us_checked_sub, checked_sub, us_saturating_add, us_saturating_sub, sat_add, sat_sub, clause.
  assert (a + b <? w_mod w = true) as Hlt by (apply N.ltb_lt; lia). rewrite Hlt.
  rewrite !optN_eqb_refl, !N.eqb_refl. reflexivity.
Qed.

Lemma mon_pack us block ebr :
  mon_shares (CPack us block ebr (match reward_share_new 0 us block ebr with
             | Some r => Some (rs_unit_share r, rs_remaining r, rs_is_blocked r, rs_economic_burn_rate r)
             | None => None end)) = None.
Proof.
  cbn [mon_shares]. destruct ((us <=? US32_MAX) && (ebr <=? US32_MAX)) eqn:E.
  - pose proof E as E'. apply andb_true_iff in E'. destruct E' as [Hu He]. apply N.leb_le in Hu, He.
    destruct (pack_unpack 0 us block ebr Hu He) as (r & Hr & _ & H1 & _ & H2 & H3 & _ & H4 & _).
    rewrite Hr, H1, H2, H3, H4. unfold clause. change (2 ^ 31) with 2147483648.
    rewrite ?N.eqb_refl, ?eqb_reflx, ?E. reflexivity.
  - destruct (reward_share_new 0 us block ebr) as [r|] eqn:Hr; [|reflexivity].
    assert (us <= US32_MAX /\ ebr <= US32_MAX) as [Hu He] by (apply (pack_accepts_iff 0 us block ebr); eauto).
    apply N.leb_le in Hu, He. rewrite Hu, He in E. discriminate.
Qed.

(* stored u32 values: the flag is bit 31, the rate the low 30 bits, bit 30 is unused *)
Lemma testbit31_u32 rem : rem < two32 -> N.testbit rem 31 = (2147483648 <=? rem).
Proof.
  intros H. pose proof (N.testbit_spec' rem 31) as T. change (2 ^ 31) with 2147483648 in T.
  unfold two32 in H. destruct (N.testbit rem 31); cbn [N.b2n] in T; symmetry.
  - apply N.leb_le. lia.
  - apply N.leb_gt. lia.
Qed.

Lemma land_flag_u32 rem : rem < two32 -> N.land rem FLAG_IS_BLOCKED_MASK = if 2147483648 <=? rem then FLAG_IS_BLOCKED_MASK else 0.
Proof.
  intros H. rewrite <- (testbit31_u32 rem H). bits. destruct (31 =? n) eqn:E.
  - apply N.eqb_eq in E. subst n. destruct (N.testbit rem 31); [rewrite flag_bits|rewrite N.bits_0]; reflexivity.
  - rewrite andb_false_r. destruct (N.testbit rem 31); [rewrite flag_bits, E|rewrite N.bits_0]; reflexivity.
Qed.

Lemma is_blocked_u32 r : rs_remaining r < two32 -> rs_is_blocked r = (2147483648 <=? rs_remaining r).
Proof.
  intros H. unfold rs_is_blocked. rewrite land_flag_u32 by exact H.
  destruct (2147483648 <=? rs_remaining r); reflexivity.
Qed.

Lemma ldiff_flag_u32 rem : rem < two32 -> N.ldiff rem FLAG_IS_BLOCKED_MASK = rem mod 2147483648.
Proof.
  intros H. change 2147483648 with (2 ^ 31). bits. destruct (n <? 31) eqn:E.
  - apply N.ltb_lt in E. rewrite N.mod_pow2_bits_low by exact E.
    assert ((31 =? n) = false) as -> by (apply N.eqb_neq; lia). apply andb_true_r.
  - apply N.ltb_ge in E. rewrite N.mod_pow2_bits_high by exact E.
    destruct (31 =? n) eqn:E2; [apply andb_false_r|]. apply N.eqb_neq in E2.
    rewrite (small_bits rem 32 n) by (exact H || lia). reflexivity.
Qed.

Lemma lor_flag_u32 rem : rem < two32 -> N.lor rem FLAG_IS_BLOCKED_MASK = rem mod 2147483648 + 2147483648.
Proof.
  intros H. assert (N.lor rem FLAG_IS_BLOCKED_MASK = N.lor (N.ldiff rem FLAG_IS_BLOCKED_MASK) FLAG_IS_BLOCKED_MASK) as ->.
  { bits. destruct (N.testbit rem n), (31 =? n); reflexivity. }
  rewrite ldiff_flag_u32 by exact H. apply (lor_flag_add (rem mod 2147483648)).
  change (2 ^ 31) with 2147483648. apply N.mod_lt. lia.
Qed.

Lemma set_ebr_arith rem e : e < 2 ^ 30 ->
  N.lor (N.ldiff rem ECONOMIC_BURN_RATE_MASK) e = rem / 1073741824 * 1073741824 + e.
Proof.
  intros He. rewrite ebr_mask_ones, N.ldiff_ones_r, N.shiftr_div_pow2, N.shiftl_mul_pow2.
  change (2 ^ 30) with 1073741824 in *. set (h := rem / 1073741824).
  assert (N.land (h * 1073741824) e = 0) as H0.
  { change 1073741824 with (2 ^ 30). rewrite <- N.shiftl_mul_pow2. bits. destruct (n <? 30) eqn:E.
    - apply N.ltb_lt in E. rewrite N.shiftl_spec_low by exact E. reflexivity.
    - apply N.ltb_ge in E. rewrite (small_bits e 30 n) by assumption. apply andb_false_r. }
  rewrite N.add_nocarry_lxor by exact H0. symmetry. apply N.lxor_lor. exact H0.
Qed.

Lemma mon_getset us rem b2 e2 : rem < two32 -> e2 <= US32_MAX ->
  let r := {| rs_key := 0; rs_unit_share := us; rs_remaining := rem |} in
  let r1 := rs_set_is_blocked r b2 in
  let r2 := rs_set_economic_burn_rate r1 e2 in
  mon_shares (CGetSet us rem b2 e2
     (match rs_checked_unit_share r with Some _ => true | None => false end, rs_is_blocked r,
      rs_economic_burn_rate r, match rs_checked_economic_burn_rate r with Some _ => true | None => false end)
     (rs_remaining r1) (rs_remaining r2)) = None.
Proof.
  intros Hrem He2 r r1 r2. pose proof us32_max_lt_pow30 as HM. assert (e2 < 2 ^ 30) as He30 by lia.
  cbn [mon_shares]. unfold clause.
  (* 131 *)
  unfold rs_checked_unit_share, rs_checked_economic_burn_rate, us32_new, us_new. cbn [rs_unit_share r].
  destruct (us <=? US32_MAX) eqn:Eu; cbn [eqb first_clause];
  (* 132 *)
  (rewrite (is_blocked_u32 r Hrem); cbn [rs_remaining r]; rewrite eqb_reflx; cbn [first_clause];
  (* 133 *)
  unfold rs_economic_burn_rate; cbn [rs_remaining r]; rewrite ebr_mask_ones, N.land_ones; change (2 ^ 30) with 1073741824;
  rewrite N.eqb_refl; cbn [first_clause];
  (* 134 *)
  destruct (rem mod 1073741824 <=? US32_MAX); cbn [eqb first_clause];
  (* 135 *)
  (assert (rs_remaining r1 = rem mod 2147483648 + (if b2 then 2147483648 else 0)) as H1
     by (unfold r1, rs_set_is_blocked; cbn [rs_remaining r]; destruct b2;
         [apply lor_flag_u32; exact Hrem|rewrite ldiff_flag_u32 by exact Hrem; lia]);
   assert (rem mod 2147483648 < 2147483648) as Hlo by (apply N.mod_lt; lia);
   assert (rs_remaining r1 mod 2147483648 = rem mod 2147483648) as H1m
     by (rewrite H1; destruct b2;
         [replace (rem mod 2147483648 + 2147483648) with (rem mod 2147483648 + 1 * 2147483648) by lia; rewrite N.mod_add by lia|rewrite N.add_0_r];
         apply N.mod_small; exact Hlo);
   assert ((2147483648 <=? rs_remaining r1) = b2) as H1b
     by (rewrite H1; destruct b2; [apply N.leb_le; lia|apply N.leb_gt; lia]);
   rewrite H1m, H1b, N.eqb_refl, eqb_reflx; cbn [andb first_clause];
  (* 136 *)
   assert (rs_remaining r2 = rs_remaining r1 / 1073741824 * 1073741824 + e2) as H2
     by (unfold r2, rs_set_economic_burn_rate; cbn [rs_remaining]; apply set_ebr_arith; exact He30);
   change (2 ^ 30) with 1073741824 in He30;
   assert (rs_remaining r2 / 1073741824 = rs_remaining r1 / 1073741824) as H2d
     by (rewrite H2, N.div_add_l by lia; rewrite (N.div_small e2) by exact He30; lia);
   assert (rs_remaining r2 mod 1073741824 = e2) as H2m
     by (rewrite H2, N.add_comm, N.mod_add by lia; apply N.mod_small; exact He30);
   rewrite H2d, H2m, !N.eqb_refl; reflexivity)).
Qed.

Lemma recipients_valid_facts l : recipients_valid l = true ->
  l <> [] /\ Forall (fun e => snd e <= US16_MAX) l /\ sumN (map snd l) = US16_MAX.
Proof.
  intros V. apply recipients_new_accepts_iff in V. destruct V as [t Ht].
  pose proof (recipients_new_shares_le l t Ht) as Hle.
  apply recipients_new_spec in Ht. destruct Ht as ((H1 & _) & _ & _ & Hs & _).
  repeat split; try assumption. destruct l; [cbn [length] in H1; lia|discriminate].
Qed.

Lemma mon_split us rem cbr p c slots :
  match model_split us rem cbr p c slots with
  | PSplit s a g _ => mon_shares (CSplit us rem cbr p c slots s a g) = None
  | _ => True
  end.
Proof.
  unfold model_split. cbn [mon_shares]. fold (active slots).
  set (ebr := rem mod 1073741824).
  destruct ((us <=? US32_MAX) && (ebr <=? US32_MAX) && (cbr <=? US32_MAX) && (p + c <? two64)) eqn:E; [|reflexivity].
  apply andb_true_iff in E. destruct E as [E Ht]. apply andb_true_iff in E. destruct E as [E Hc].
  apply andb_true_iff in E. destruct E as [Hu He]. apply N.leb_le in Hu, He, Hc. pose proof Ht as Ht'. apply N.ltb_lt in Ht'.
  unfold total_collected_2z, checked_add. rewrite Ht.
  set (r := {| rs_key := 0; rs_unit_share := us; rs_remaining := rem |}).
  assert (rs_economic_burn_rate r = ebr) as Hebr
    by (unfold rs_economic_burn_rate, r; cbn [rs_remaining]; rewrite ebr_mask_ones, N.land_ones; reflexivity).
  pose proof (split_spec_raw cbr (p + c) r) as S. rewrite Hebr in S. cbn [rs_unit_share r] in S.
  destruct (S Hu He Hc Ht') as (Hsplit & Hrb & Hshare). clear S. rewrite Hsplit.
  set (share := floor_share US32_MAX us (p + c)) in *.
  set (rb := floor_share US32_MAX (N.max cbr ebr) share) in *.
  unfold clause. assert (rb <=? rb = true) as -> by (apply N.leb_le; lia).
  assert (rb + (share - rb) =? share = true) as -> by (apply N.eqb_eq; lia).
  destruct (recipients_valid (active slots)) eqn:V; [|reflexivity].
  destruct (recipients_valid_facts _ V) as (Hne & Hall & Hsum).
  pose proof (amounts_of_sum_le (share - rb) (active slots) ltac:(lia)) as Hle.
  rewrite (transfer_loop_spec (share - rb) (active slots) 0) by (try assumption; lia).
  rewrite N.add_0_l. destruct (active slots) as [|e tl] eqn:Ea; [congruence|].
  set (am := amounts_of (share - rb) (e :: tl)) in *.
  assert (wsub64 (share - rb) (sumN am) = share - rb - sumN am) as -> by (unfold wsub64; apply wsub_small; lia).
  assert (wadd64 rb (share - rb - sumN am) = rb + (share - rb - sumN am)) as -> by (unfold wadd64; apply wadd_small; lia).
  fold (amounts_of (share - rb) (e :: tl)). fold am.
  rewrite listN_eqb_refl, N.eqb_refl.
  assert (sumN am <=? share - rb = true) as -> by (apply N.leb_le; exact Hle).
  assert (rb + (share - rb - sumN am) + sumN am =? share = true) as -> by (apply N.eqb_eq; lia).
  assert (rb <=? rb + (share - rb - sumN am) = true) as -> by (apply N.leb_le; lia).
  reflexivity.
Qed.

Lemma mon_recip l :
  mon_shares (CRecip l (match recipients_new l with Some t => Some (t, active t) | None => None end)) = None.
Proof.
  cbn [mon_shares]. destruct (recipients_new l) as [t|] eqn:E; unfold clause.
  - assert (recipients_valid l = true) as -> by (apply recipients_new_accepts_iff; eauto).
    destruct (recipients_new_active l t E) as [-> _].
    apply recipients_new_spec in E. destruct E as (_ & _ & _ & _ & ->).
    unfold MAX_RECIPIENTS, default_slot. rewrite !listNN_eqb_refl. reflexivity.
  - destruct (recipients_valid l) eqn:V; [|reflexivity].
    apply recipients_new_accepts_iff in V. destruct V as [t Ht]. congruence.
Qed.

(* Whenever the model predicts an observation exactly, the property monitor accepts that observation: every clause the
   monitor checks on the implementation's results is a theorem of the model. *)
Theorem monitor_sound c : case_in_range c -> corr_shares c = None -> mon_shares c = None.
Proof.
  intros R Hc. unfold corr_shares in Hc. destruct (agrees c (predict c)) eqn:A; [clear Hc|discriminate].
  destruct c; cbn [predict agrees case_in_range] in *.
  - apply optN_eqb_eq in A. subst res. apply mon_mul. exact R.
  - apply andb_true_iff in A. destruct A as [A A4]. apply andb_true_iff in A. destruct A as [A A3].
    apply andb_true_iff in A. destruct A as [A1 A2].
    apply optN_eqb_eq in A1, A2. apply N.eqb_eq in A3, A4. subst. apply mon_arith.
  - apply opt_eqb_eq in A.
    + subst res. apply mon_pack.
    + intros [[[u m] bl] e] [[[u' m'] bl'] e'] H.
      apply andb_true_iff in H. destruct H as [H H4]. apply andb_true_iff in H. destruct H as [H H3].
      apply andb_true_iff in H. destruct H as [H1 H2].
      apply N.eqb_eq in H1, H2, H4. apply eqb_prop in H3. subst. reflexivity.
  - destruct obs as [[[a b] e] d]. destruct R as [R1 R2].
    apply andb_true_iff in A. destruct A as [A A6]. apply andb_true_iff in A. destruct A as [A A5].
    apply andb_true_iff in A. destruct A as [A A4]. apply andb_true_iff in A. destruct A as [A A3].
    apply andb_true_iff in A. destruct A as [A1 A2].
    apply eqb_prop in A1, A2, A4. apply N.eqb_eq in A3, A5, A6. subst.
    apply (mon_getset us rem b2 e2 R1 R2).
  - pose proof (mon_split us rem cbr prepaid converted slots) as M.
    destruct (model_split us rem cbr prepaid converted slots) as [| | | |s a g ok|]; try discriminate.
    apply andb_true_iff in A. destruct A as [A _]. apply andb_true_iff in A. destruct A as [A A3].
    apply andb_true_iff in A. destruct A as [A1 A2].
    apply opt_eqb_eq in A1; [|exact pairN_eqb_eq]. apply opt_eqb_eq in A2; [|exact listN_eqb_eq].
    apply opt_eqb_eq in A3; [|exact pairN_eqb_eq]. subst. exact M.
  - apply opt_eqb_eq in A.
    + subst res. apply mon_recip.
    + intros [x1 x2] [y1 y2] H. cbn [fst snd] in H. apply andb_true_iff in H. destruct H as [H1 H2].
      apply listNN_eqb_eq in H1, H2. subst. reflexivity.
Qed.

(* observation: the stored u32 has an unused bit (30): two different stored values read back as the same
   (economic_burn_rate, is_blocked) pair; RewardShare::new never sets it (pack_unpack: remaining = ebr + 2^31*flag) *)
Example unpack_ignores_bit30 :
  let r1 := {| rs_key := 0; rs_unit_share := 1; rs_remaining := 5 |} in
  let r2 := {| rs_key := 0; rs_unit_share := 1; rs_remaining := 5 + 2 ^ 30 |} in
  rs_economic_burn_rate r1 = rs_economic_burn_rate r2 /\ rs_is_blocked r1 = rs_is_blocked r2 /\ r1 <> r2.
Proof. vm_compute. repeat split; try reflexivity. intro H; discriminate H. Qed.
