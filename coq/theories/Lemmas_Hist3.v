(* Invariants over arbitrary histories, part 3: C06 — "at every point lamports(journal) >= rent minimum + tracked SOL
   balance".  Index at the end of the file. *)
From DZ Require Import Base Keys Merkle BurnRate Shares Swap_Ring State World SwapDeq RD Passport Swap Exec
  Lemmas_Merkle Lemmas_RdGuards Lemmas_Canon Lemmas_RdSpecs5 Lemmas_Hist.

(* ------------------------------------------------------------------------------------------------------------------ *)
(* 1. the invariant: the clause of the property is inductive as it stands                                              *)

Definition Inv_C06 (W : world) : Prop :=
  forall k a j, a = get W k -> owner a = KRd -> data a = DJournal j -> rent (alen a) + j_total_sol j <= lamports a.

Definition good06 (a : acct) : Prop :=
  owner a = KRd -> match data a with DJournal j => rent (alen a) + j_total_sol j <= lamports a | _ => True end.
Definition Inv06 (W : world) : Prop := forall k, good06 (get W k).

Theorem Inv06_C06 W : Inv06 W <-> Inv_C06 W.
Proof.
  split.
  - intros HI k a j -> Ho Hd. specialize (HI k Ho). rewrite Hd in HI. exact HI.
  - intros H k Ho. destruct (data (get W k)) eqn:Hd; try exact I. eapply H; eauto.
Qed.

(* ------------------------------------------------------------------------------------------------------------------ *)
(* 2. generic preservation                                                                                            *)

Lemma good06_nonrd a : owner a <> KRd -> good06 a.
Proof. intros H Ho. contradiction. Qed.
Lemma good06_nj a : journalb (data a) = false -> good06 a.
Proof. intros H _. destruct (data a); try exact I; discriminate H. Qed.
Lemma good06_set_nj a d : journalb d = false -> good06 (a <| data := d |>).
Proof. intros H. apply good06_nj. exact H. Qed.
Lemma good06_qa a a' : qa a a' -> good06 a -> good06 a'.
Proof.
  intros [H1 H2] G Ho'. destruct (journalb (data a')) eqn:Ej; [|apply good06_nj; assumption].
  assert (Et : typedb (data a') = true) by (destruct (data a'); try discriminate Ej; reflexivity).
  destruct (H2 (conj Ho' Et)) as [Ho Ht]. destruct (H1 (conj Ho Ht)) as [E L].
  unfold hdr in E. injection E as _ Ea Ed. specialize (G Ho). rewrite Ed, Ea. destruct (data a); try exact I. lia.
Qed.
Lemma Inv06_quiet W W' : quiet W W' -> Inv06 W -> Inv06 W'.
Proof. intros HQ HI k. eapply good06_qa; [apply HQ|apply HI]. Qed.
Lemma Inv06_put W k a : Inv06 W -> good06 a -> Inv06 (put W k a).
Proof. intros HI G k'. rewrite Lemmas_RdSpecs.get_put. destruct (key_eqb k k'); [exact G|apply HI]. Qed.
Lemma Inv06_purge W : Inv06 W -> Inv06 (purge W).
Proof. intros HI k. rewrite get_purge. destruct (_ =? 0); [apply good06_nonrd; discriminate|apply HI]. Qed.
Lemma good06_lam a n : good06 a -> (owner a = KRd -> typedb (data a) = true -> lamports a <= n) -> good06 (a <| lamports := n |>).
Proof.
  intros G H. apply (good06_qa a); [|exact G]. split; [|apply tk_hdr; reflexivity].
  intros [Ho Ht]. split; [reflexivity|]. cbn. auto.
Qed.
Lemma Inv06_pointwise (W' : world) (F : key -> acct) : (forall k, get W' k = F k) -> (forall k, good06 (F k)) -> Inv06 W'.
Proof. intros Hg HF k. rewrite Hg. apply HF. Qed.
Ltac pointwise06 Hg := eapply Inv06_pointwise; [exact Hg|]; cbv beta.
(* a journal rewritten with the same tracked balance *)
Lemma good06_journal_same W k j j' : Inv06 W -> owner (get W k) = KRd -> data (get W k) = DJournal j ->
  j_total_sol j' = j_total_sol j -> good06 (get W k <| data := DJournal j' |>).
Proof. intros HI Ho Hd E _. cbn. specialize (HI k Ho). rewrite Hd in HI. rewrite E. exact HI. Qed.
Lemma grow_other_06 W k payer amt : Inv06 W -> owner (get W payer) = KSystem \/ amt = 0 ->
  good06 ((get W k) <| lamports := lamports (get W k) - (if key_eqb payer k then amt else 0) + 0 |>).
Proof.
  intros HI Hs. apply good06_lam; [apply HI|]. intros Ho _.
  destruct (key_eqb_spec payer k) as [->|]; [destruct Hs as [Hs| ->]; [congruence|lia]|lia].
Qed.

(* ------------------------------------------------------------------------------------------------------------------ *)
(* 3. the seventeen processors that write typed data                                                                  *)

Ltac nj := first [ apply good06_set_nj; reflexivity | intros _; exact I ].

Lemma rd_initialize_program_06 cx W W' : rd_initialize_program cx W = Ok W' -> Inv06 W -> Inv06 W'.
Proof.
  intros H HI. apply rd_initialize_program_eff in H as (W1 & Q & _ & _ & ->).
  apply Inv06_put; [eapply Inv06_quiet; eassumption|nj].
Qed.
(* the journal is created rent-exempt with a zero balance *)
Lemma rd_initialize_journal_06 cx W W' : rd_initialize_journal cx W = Ok W' -> Inv06 W -> Inv06 W'.
Proof.
  intros H HI. apply rd_initialize_journal_eff in H as (W1 & Q & Hh & Hl & ->).
  apply Inv06_put; [eapply Inv06_quiet; eassumption|]. intros _. unfold hdr in Hh. injection Hh as _ Ha _.
  cbn. rewrite Ha. lia.
Qed.
Lemma rd_set_admin_06 cx W k W' : rd_set_admin cx W k = Ok W' -> Inv06 W -> Inv06 W'.
Proof.
  intros H HI. apply rd_set_admin_guards in H as (m0 & m1 & m2 & rest & a & c & _ & _ & _ & _ & _ & _ & _ & ->).
  apply Inv06_put; [exact HI|nj].
Qed.
Lemma rd_migrate_06 cx W W' : rd_migrate cx W = Ok W' -> Inv06 W -> Inv06 W'.
Proof.
  intros H HI. apply rd_migrate_guards in H as (m0 & m1 & m2 & rest & a & c & _ & _ & _ & _ & _ & _ & _ & ->).
  apply Inv06_put; [exact HI|nj].
Qed.
Lemma rd_configure_program_06 cx W s W' : rd_configure_program cx W s = Ok W' -> Inv06 W -> Inv06 W'.
Proof.
  intros H HI. apply rd_configure_program_guards in H as (m0 & m1 & rest & c & c' & _ & _ & _ & _ & _ & _ & ->).
  apply Inv06_put; [exact HI|nj].
Qed.
Lemma rd_initialize_swap_destination_06 cx W W' : rd_initialize_swap_destination cx W = Ok W' -> Inv06 W -> Inv06 W'.
Proof.
  intros H HI. apply rd_initialize_swap_destination_eff in H as (ck & c & Ho & Hd & Q).
  eapply Inv06_quiet; [exact Q|]. apply Inv06_put; [exact HI|nj].
Qed.
Lemma rd_configure_debt_06 cx W n debt root W' : rd_configure_debt cx W n debt root = Ok W' -> Inv06 W -> Inv06 W'.
Proof.
  intros H HI. apply rd_configure_debt_guards in H as (m0 & m1 & m2 & rest & c & d & tail & _ & _ & _ & _ & _ & _ & _ & _ & _ & ->).
  apply Inv06_put; [exact HI|nj].
Qed.
Lemma rd_configure_rewards_06 cx W n root W' : rd_configure_rewards cx W n root = Ok W' -> Inv06 W -> Inv06 W'.
Proof.
  intros H HI. apply rd_configure_rewards_guards in H as (m0 & m1 & m2 & rest & c & d & tail & _ & _ & _ & _ & _ & _ & _ & _ & _ & ->).
  apply Inv06_put; [exact HI|nj].
Qed.
Lemma rd_initialize_distribution_06 cx W W' : rd_initialize_distribution cx W = Ok W' -> Inv06 W -> Inv06 W'.
Proof.
  intros H HI. apply rd_initialize_distribution_eff in H as (ck & c & c' & W2 & W4 & d & Ho & Hd & Hrel & Q1 & Hh & Hl & Hfr & Q4 & Hg).
  assert (I2 : Inv06 W2) by (eapply Inv06_quiet; [exact Q1|]; apply Inv06_put; [exact HI|nj]).
  assert (I4 : Inv06 W4) by (eapply Inv06_quiet; [exact Q4|]; apply Inv06_put; [exact I2|nj]).
  pointwise06 Hg. intros k. destruct (key_eqb _ k); [nj|apply I4].
Qed.
Lemma rd_finalize_debt_06 cx W W' : rd_finalize_debt cx W = Ok W' -> Inv06 W -> Inv06 W'.
Proof.
  intros H HI. apply rd_finalize_debt_spec in H as (c & dk & d & tail & F).
  destruct (N.eq_dec (d_total_debt d - d_uncollectible d) 0) as [Ez|Enz].
  - pointwise06 (fd_zero _ _ _ _ _ _ _ F Ez). intros k. destruct (key_eqb dk k); [nj|apply HI].
  - destruct (fd_nonzero _ _ _ _ _ _ _ F Enz) as (payer & amt & ms & G).
    pointwise06 (gf_effect _ _ _ _ _ _ _ _ _ _ _ G). intros k. destruct (key_eqb_spec dk k) as [<-|Hne].
    + apply good06_nj. reflexivity.
    + apply grow_other_06; [exact HI|]. exact (gf_payer_system _ _ _ _ _ _ _ _ _ _ _ G).
Qed.
Lemma rd_finalize_rewards_06 cx W W' : rd_finalize_rewards cx W = Ok W' -> Inv06 W -> Inv06 W'.
Proof.
  intros H HI. apply rd_finalize_rewards_spec in H as (c & dk & d & tail & payer & amt & F).
  destruct (finalize_rewards_grow _ _ _ _ _ _ _ _ _ F) as (ms & G).
  pointwise06 (gf_effect _ _ _ _ _ _ _ _ _ _ _ G). intros k. destruct (key_eqb_spec dk k) as [<-|Hne].
  - apply good06_nj. reflexivity.
  - apply grow_other_06; [exact HI|]. exact (gf_payer_system _ _ _ _ _ _ _ _ _ _ _ G).
Qed.
Lemma rd_enable_write_off_06 cx W W' : rd_enable_write_off cx W = Ok W' -> Inv06 W -> Inv06 W'.
Proof.
  intros H HI. apply rd_enable_write_off_spec in H as (c & dk & d & tail & payer & amt & F).
  pointwise06 (ew_effect _ _ _ _ _ _ _ _ _ F). intros k. destruct (key_eqb_spec dk k) as [<-|Hne].
  - apply good06_nj. reflexivity.
  - apply grow_other_06; [exact HI|]. exact (ew_payer_system _ _ _ _ _ _ _ _ _ F).
Qed.
Lemma rd_distribute_rewards_06 cx W us ebr p W' : rd_distribute_rewards cx W us ebr p = Ok W' -> Inv06 W -> Inv06 W'.
Proof.
  intros H HI. apply rd_distribute_rewards_eff in H as (dk & d & tail & relayer & tr & bu & tail' & Ho & Hd & _ & _ & _ & Hg & Htok).
  intros k. destruct (key_eq_dec (owner (get W k)) KToken) as [Et|Et].
  { apply good06_nonrd. rewrite (Htok k Et). discriminate. }
  rewrite (Hg k Et). destruct (key_eqb_spec dk k) as [<-|Hne].
  - apply good06_nj. reflexivity.
  - apply good06_lam; [apply HI|]. intros _ _. lia.
Qed.
Lemma rd_write_off_06 cx W amount p W' : rd_write_off cx W amount p = Ok W' -> Inv06 W -> Inv06 W'.
Proof.
  intros H HI. apply rd_write_off_spec in H as (c & dk & d & tail & pk & dp & idx & tail1 & tail2 & tk & t & ttail & F).
  pointwise06 (wo_effect _ _ _ _ _ _ _ _ _ _ _ _ _ _ _ _ _ F). intros k.
  destruct (key_eqb k pk); [nj|]. destruct (key_eqb k tk); [nj|]. destruct (key_eqb k dk); [nj|apply HI].
Qed.

(* pay: the journal receives `amount` lamports and tracks (at most: u64 wrap) `amount` more *)
Lemma rd_pay_debt_06 cx W amount p W' : rd_pay_debt cx W amount p = Ok W' -> Inv06 W -> Inv06 W'.
Proof.
  intros H HI. apply rd_pay_debt_spec in H as (c & dk & d & tail & pk & dp & jk & j & idx & tail' & F).
  pointwise06 (pd_effect _ _ _ _ _ _ _ _ _ _ _ _ _ _ _ F). intros k.
  destruct (key_eqb k pk).
  { apply good06_nj. cbn. rewrite (pd_deposit_data _ _ _ _ _ _ _ _ _ _ _ _ _ _ _ F). reflexivity. }
  destruct (key_eqb k jk).
  { intros _. cbn. pose proof (HI jk (pd_journal_owner _ _ _ _ _ _ _ _ _ _ _ _ _ _ _ F)) as G.
    rewrite (pd_journal_data _ _ _ _ _ _ _ _ _ _ _ _ _ _ _ F) in G. pose proof (wadd64_le (j_total_sol j) amount). lia. }
  destruct (key_eqb k dk); [nj|apply HI].
Qed.
(* withdraw: both the lamports and the tracked balance drop by `amount <= tracked balance` *)
Lemma rd_withdraw_sol_06 cx W amount W' : rd_withdraw_sol cx W amount = Ok W' -> Inv06 W -> Inv06 W'.
Proof.
  intros H HI. apply rd_withdraw_sol_spec in H as (c & jk & j & dest & z & F).
  pointwise06 (ws_effect _ _ _ _ _ _ _ _ _ F). intros k. destruct (key_eqb_spec jk k) as [<-|Hne].
  - intros _. cbn. pose proof (HI jk (ws_journal_owner _ _ _ _ _ _ _ _ _ F)) as G.
    rewrite (ws_journal_data _ _ _ _ _ _ _ _ _ F) in G. pose proof (ws_amount_tracked _ _ _ _ _ _ _ _ _ F).
    destruct (key_eqb dest jk); lia.
  - apply good06_lam; [apply HI|]. intros _ _. lia.
Qed.
(* sweep: the tracked SOL balance is untouched (the swapped-SOL pool and the pointer change) *)
Lemma rd_sweep_06 cx W W' : rd_sweep cx W = Ok W' -> Inv06 W -> Inv06 W'.
Proof.
  intros H HI. apply rd_sweep_full_spec in H as (c & dk & d & tail & jk & j & rest & C & Hz & Hnz).
  pose proof (sc_journal_owner _ _ _ _ _ _ _ _ _ C) as Ho. pose proof (sc_journal_data _ _ _ _ _ _ _ _ _ C) as Hd.
  destruct (N.eq_dec (d_total_debt d - d_uncollectible d) 0) as [Ez|Enz].
  - destruct (Hz Ez) as (_ & Hg). pointwise06 Hg. intros k.
    destruct (key_eqb k jk); [eapply good06_journal_same; eauto|]. destruct (key_eqb k dk); [nj|apply HI].
  - destruct (Hnz Enz) as (z & cfg & st & fills & W2 & W3 & s & t & F).
    destruct (sf_W2 _ _ _ _ _ _ _ _ _ _ _ _ _ _ _ _ _ _ F) as (_ & Hg2).
    assert (I2 : Inv06 W2).
    { pointwise06 Hg2. intros k. destruct (key_eqb k jk); [eapply good06_journal_same; eauto|].
      destruct (key_eqb k dk); [nj|apply HI]. }
    destruct (sf_cpi _ _ _ _ _ _ _ _ _ _ _ _ _ _ _ _ _ _ F) as (n & Hcpi). apply swap_dequeue_cpi_quiet in Hcpi.
    pose proof (Inv06_quiet _ _ Hcpi I2) as I3.
    assert (X : owner (get W3 jk) = KRd /\ data (get W3 jk) = DJournal (sw_journal1 j (d_total_debt d - d_uncollectible d))).
    { destruct (quiet_at _ _ jk Hcpi) as (A & _ & B & _).
      - rewrite Hg2, key_eqb_refl. exact Ho.
      - rewrite Hg2, key_eqb_refl. reflexivity.
      - rewrite Hg2, key_eqb_refl in B. auto. }
    destruct X as (Ho3 & Hd3).
    pointwise06 (sf_effect _ _ _ _ _ _ _ _ _ _ _ _ _ _ _ _ _ _ F). intros k.
    destruct (key_eqb k jk); [eapply good06_journal_same; eauto|].
    destruct (key_eqb k dk); [nj|].
    destruct (key_eqb dk KRdSwapAuth); [apply I3|].
    destruct (key_eqb k (KTok2z KRdSwapAuth)); [nj|].
    destruct (key_eqb k (KTok2z dk)); [nj|apply I3].
Qed.

(* ------------------------------------------------------------------------------------------------------------------ *)
(* 4. every instruction, transaction, history                                                                         *)

Definition rd_ok06 (ix : rd_ix) : Prop := True.
Theorem rd_process_06 cx W ix W' : cx_prog cx = KRd -> rd_ok06 ix -> rd_process cx W ix = Ok W' -> Inv06 W -> Inv06 W'.
Proof.
  intros _ _. destruct ix; cbn [rd_process].
  - apply rd_initialize_program_06.
  - apply rd_migrate_06.
  - apply rd_set_admin_06.
  - apply rd_configure_program_06.
  - apply rd_initialize_journal_06.
  - apply rd_initialize_distribution_06.
  - apply rd_configure_debt_06.
  - apply rd_finalize_debt_06.
  - apply rd_configure_rewards_06.
  - apply rd_finalize_rewards_06.
  - apply rd_distribute_rewards_06.
  - intros H. apply Inv06_quiet. eapply rd_initialize_contributor_quiet; exact H.
  - intros H. apply Inv06_quiet. eapply rd_set_rewards_manager_quiet; exact H.
  - intros H. apply Inv06_quiet. eapply rd_configure_contributor_quiet; exact H.
  - intros H. apply Inv06_quiet. eapply rd_verify_root_quiet; exact H.
  - intros H. apply Inv06_quiet. eapply rd_initialize_deposit_quiet; exact H.
  - apply rd_pay_debt_06.
  - apply rd_enable_write_off_06.
  - apply rd_write_off_06.
  - apply rd_initialize_swap_destination_06.
  - apply rd_sweep_06.
  - apply rd_withdraw_sol_06.
Qed.

Lemma ix_ok06 d : ix_ok rd_ok06 d.
Proof. induction d; cbn; auto; exact I. Qed.
Lemma tx_ok06 t : tx_ok rd_ok06 t.
Proof. apply Forall_forall. intros i _. apply ix_ok06. Qed.
Lemma op_ok06 o : op_args_ok rd_ok06 o.
Proof. destruct o; cbn; try exact I. apply tx_ok06. Qed.

Theorem inv_C06_data d prog ms h sib W W' : exec_data prog d ms h sib W = Ok W' -> Inv06 W -> Inv06 W'.
Proof. apply (exec_data_inv Inv06 rd_ok06 Inv06_quiet rd_process_06 (fun _ => I)). apply ix_ok06. Qed.
(* EVERY transaction keeps the invariant; no side hypothesis *)
Theorem inv_C06_tx W t W' ok : Inv_C06 W -> exec_tx W t = (W', ok) -> Inv_C06 W'.
Proof.
  intros HI H. apply Inv06_C06. apply Inv06_C06 in HI.
  exact (exec_tx_inv Inv06 rd_ok06 Inv06_quiet rd_process_06 (fun _ => I) Inv06_purge W t W' ok (tx_ok06 t) H HI).
Qed.
Theorem inv_C06_op W o :
  honest_op o -> (forall p o_, o = OCreateAta p o_ -> ~ tk (get W p)) -> Inv_C06 W -> Inv_C06 (fst (exec_op W o)).
Proof.
  intros Ho Hp HI. apply Inv06_C06. apply Inv06_C06 in HI.
  apply (exec_op_inv Inv06 rd_ok06 Inv06_quiet rd_process_06 (fun _ => I) Inv06_purge); try assumption. apply op_ok06.
Qed.
Theorem inv_C06_history ops W :
  Forall honest_op ops -> Forall wallet_pays ops -> typed_canonical W -> Inv_C06 W ->
  Inv_C06 (fold_left (fun W o => fst (exec_op W o)) ops W).
Proof.
  intros Hh Hw HT HI. apply Inv06_C06. apply Inv06_C06 in HI.
  apply (history_inv Inv06 rd_ok06 Inv06_quiet rd_process_06 (fun _ => I) Inv06_purge); try assumption.
  apply Forall_forall. intros o _. apply op_ok06.
Qed.
Theorem inv_C06_init :
  Inv_C06 world0 /\ forall W, (forall k, owner (get W k) = KRd -> data (get W k) = DEmpty) -> Inv_C06 W.
Proof.
  split.
  - apply Inv06_C06. intros k. rewrite get_world0. apply good06_nonrd. discriminate.
  - intros W H. apply Inv06_C06. intros k Ho. rewrite (H k Ho). exact I.
Qed.
Corollary C06_reachable ops :
  Forall honest_op ops -> Forall wallet_pays ops -> Inv_C06 (fold_left (fun W o => fst (exec_op W o)) ops world0).
Proof. intros. apply inv_C06_history; try assumption; [apply typed_canonical_world0|exact (proj1 inv_C06_init)]. Qed.

(* ------------------------------------------------------------------------------------------------------------------ *)
(* 5. example                                                                                                         *)

Module Ex06.
Import CanonEx.
Definition debts06 : list leafdata := [LDebt (KUser 50) 500].
(* Lemmas_Canon's bootstrap history (journal, distribution 0, deposit of validator KUser 50), then: the debt of epoch 0
   configured and finalized, the validator's deposit funded by a System transfer, the debt paid *)
Definition ops06 : list op := ex_ops ++ [
  OSetClock 1000;
  otx [KUser 2] [rdi (RConfigureDebt 1 500 (tree_root PRE_DEBT debts06)) [ro KRdConfig; sg (KUser 2); wr (KRdDist 0)]];
  otx [KUser 2; KUser 100] [rdi RFinalizeDebt [ro KRdConfig; sg (KUser 2); wr (KRdDist 0); sw (KUser 100); ro KSystem]];
  otx [KUser 100] [{| i_prog := KSystem; i_data := IxSysTransfer 700; i_metas := [sw (KUser 100); wr (KRdDeposit (KUser 50))] |}];
  otx [KUser 100] [rdi (RPayDebt 500 (proof_for PRE_DEBT debts06 0))
                       [ro KRdConfig; wr (KRdDist 0); wr (KRdDeposit (KUser 50)); wr KRdJournal]]
].
Definition W06 : world := run_ops ex_fix ops06.
End Ex06.
Import CanonEx Ex06.

Lemma ops06_side : Forall honest_op ops06 /\ Forall wallet_pays ops06.
Proof.
  unfold ops06, ex_ops. cbn [app]. split; repeat (first [apply Forall_cons | apply Forall_nil]); cbn; try exact I; eauto.
Qed.
(* a literal reachable world whose journal tracks a positive SOL balance; the bound is tight *)
Example inv_C06_nonvacuous :
  all_ok ex_fix ops06 = true /\ Inv_C06 W06 /\
  exists j, owner (get W06 KRdJournal) = KRd /\ data (get W06 KRdJournal) = DJournal j /\ j_total_sol j = 500 /\
    lamports (get W06 KRdJournal) = rent (alen (get W06 KRdJournal)) + 500.
Proof.
  split; [vm_compute; reflexivity|]. destruct ops06_side as (Hh & Hw). split.
  - apply inv_C06_history; try assumption.
    + apply typed_canonical_untyped. apply untyped_world_check. vm_compute. reflexivity.
    + apply (proj2 inv_C06_init). intros k Ho.
      assert (U : untyped_world ex_fix) by (apply untyped_world_check; vm_compute; reflexivity). apply U. left. exact Ho.
  - vm_compute. eexists. repeat split.
Qed.

(* ==================================================================================================================
   INDEX (Lemmas_Hist3.v, C06; all closed under the global context)
   definitions
     Inv_C06 W     forall k a j, a = get W k -> owner a = KRd -> data a = DJournal j -> rent (alen a) + j_total_sol j <= lamports a
     good06 a, Inv06 W (pointwise form);   Inv06_C06 : Inv06 W <-> Inv_C06 W      (the clause is inductive as it stands)
   per processor              rd_<name>_06 : rd_<name> .. = Ok W' -> Inv06 W -> Inv06 W'  (17 typed ones);   rd_process_06
                              pay: lamports + amount, tracked + amount (u64 wrap only lowers it: wadd64_le);
                              withdraw: both - amount, amount <= tracked;  sweep / all others: tracked balance untouched, lamports >=
   inv_C06_data               exec_data prog d ms h sib W = Ok W' -> Inv06 W -> Inv06 W'
   inv_C06_tx                 Inv_C06 W -> exec_tx W t = (W', ok) -> Inv_C06 W'                 (no side hypothesis, no lamports bound)
   inv_C06_op                 honest_op o -> (o = OCreateAta p _ -> ~ tk (get W p)) -> Inv_C06 W -> Inv_C06 (fst (exec_op W o))
   inv_C06_history            Forall honest_op ops -> Forall wallet_pays ops -> typed_canonical W -> Inv_C06 W ->
                              Inv_C06 (fold_left (fun W o => fst (exec_op W o)) ops W)
   inv_C06_init               Inv_C06 world0 /\ (forall W, no KRd-owned account holds data -> Inv_C06 W);   C06_reachable
   inv_C06_nonvacuous         literal history (bootstrap, debt 500 configured + finalized, deposit funded, debt paid): journal tracks
                              500 and holds exactly rent + 500
   ================================================================================================================== *)
