(* Invariants over ARBITRARY histories, part 1: the shared machinery.
   - `quiet W W'`: the world relation "no typed revenue-distribution state account (ProgramConfig, Journal, Distribution
     owned by KRd) was touched except for receiving lamports, and none appeared".  Reflexive, transitive.
   - every runtime primitive / recipe, the System and Token instructions, all six passport processors, the mock swap
     program and five revenue-distribution processors are quiet;
   - effect lemmas (relative to `quiet`) for the revenue-distribution processors for which Lemmas_RdGuards / Lemmas_RdSpecs
     give no pointwise effect: the four initialisers that write typed data, and distribute-rewards without side conditions;
   - Section Lift: any world predicate closed under `quiet`, `purge` and `rd_process` (for instructions satisfying a
     predicate `rd_ok` on their arguments) is an invariant of exec_data / exec_ixs / exec_tx / exec_op / histories.
   Parts 2-4 (Lemmas_Hist2 = C11, Lemmas_Hist3 = C06, Lemmas_Hist4 = C05) instantiate it.  Index at the end. *)
From DZ Require Import Base Keys Merkle BurnRate Shares Swap_Ring State World SwapDeq RD Passport Swap Exec
  Lemmas_Merkle Lemmas_RdGuards Lemmas_Canon Lemmas_RdSpecs5.

(* ------------------------------------------------------------------------------------------------------------------ *)
(* 1. the relation                                                                                                    *)

Definition typedb (d : adata) : bool := match d with DConfig _ | DDist _ _ | DJournal _ => true | _ => false end.
(* a typed revenue-distribution state account *)
Definition tk (a : acct) : Prop := owner a = KRd /\ typedb (data a) = true.
Definition qa (a a' : acct) : Prop := (tk a -> hdr a' = hdr a /\ lamports a <= lamports a') /\ (tk a' -> tk a).
Definition quiet (W W' : world) : Prop := forall k, qa (get W k) (get W' k).

Definition journalb (d : adata) : bool := match d with DJournal _ => true | _ => false end.
Lemma wadd64_le a b : wadd64 a b <= a + b.
Proof. unfold wadd64, wadd. apply N.mod_le. discriminate. Qed.

Lemma tk_hdr a b : hdr a = hdr b -> tk a -> tk b.
Proof. unfold hdr, tk. intros H. injection H as Ho _ Hd. rewrite Ho, Hd. auto. Qed.
Lemma qa_refl a : qa a a.
Proof. split; [intros _; split; [reflexivity|lia]|auto]. Qed.
Lemma qa_trans a b c : qa a b -> qa b c -> qa a c.
Proof.
  intros [H1 H1'] [H2 H2']. split.
  - intros Ha. destruct (H1 Ha) as [E1 L1]. destruct (H2 (tk_hdr _ _ (eq_sym E1) Ha)) as [E2 L2]. split; [congruence|lia].
  - auto.
Qed.
Lemma qa_same a a' : hdr a' = hdr a -> lamports a <= lamports a' -> qa a a'.
Proof. intros H L. split; [auto|]. apply tk_hdr. exact H. Qed.
Lemma qa_untk a a' : ~ tk a -> ~ tk a' -> qa a a'.
Proof. intros H H'. split; intros X; contradiction. Qed.
Lemma quiet_refl W : quiet W W.
Proof. intros k. apply qa_refl. Qed.
Lemma quiet_trans W1 W2 W3 : quiet W1 W2 -> quiet W2 W3 -> quiet W1 W3.
Proof. intros H1 H2 k. eapply qa_trans; [apply H1|apply H2]. Qed.
Lemma quiet_ext W W' : (forall k, get W' k = get W k) -> quiet W W'.
Proof. intros H k. rewrite H. apply qa_refl. Qed.

Lemma not_tk_owner a : owner a <> KRd -> ~ tk a.
Proof. intros H [Ho _]. contradiction. Qed.
Lemma not_tk_data a : typedb (data a) = false -> ~ tk a.
Proof. intros H [_ Ht]. congruence. Qed.
Lemma not_tk_empty : ~ tk empty_acct.
Proof. apply not_tk_data. reflexivity. Qed.
Lemma tk_lamports a n : tk (a <| lamports := n |>) <-> tk a.
Proof. reflexivity. Qed.
Lemma tk_alen a n : tk (a <| alen := n |>) <-> tk a.
Proof. reflexivity. Qed.

(* one account replaced *)
Lemma quiet_put W k a : qa (get W k) a -> quiet W (put W k a).
Proof.
  intros H k'. rewrite Lemmas_RdSpecs.get_put. destruct (key_eqb_spec k k') as [<-|Hne]; [exact H|apply qa_refl].
Qed.
(* the pointwise form in which the primitive specs of Lemmas_RdSpecs come *)
Lemma quiet_pointwise1 W W' k a :
  (forall k', get W' k' = if key_eqb k k' then a else get W k') -> qa (get W k) a -> quiet W W'.
Proof. intros Hg H k'. rewrite Hg. destruct (key_eqb_spec k k') as [<-|Hne]; [exact H|apply qa_refl]. Qed.

(* what `quiet` says about one typed account *)
Lemma quiet_at W W' k : quiet W W' -> owner (get W k) = KRd -> typedb (data (get W k)) = true ->
  owner (get W' k) = KRd /\ alen (get W' k) = alen (get W k) /\ data (get W' k) = data (get W k) /\
  lamports (get W k) <= lamports (get W' k).
Proof.
  intros HQ Ho Ht. destruct (HQ k) as [H _]. destruct (H (conj Ho Ht)) as [E L].
  unfold hdr in E. injection E as E1 E2 E3. repeat split; congruence || assumption.
Qed.
Lemma quiet_back W W' k : quiet W W' -> owner (get W' k) = KRd -> typedb (data (get W' k)) = true ->
  owner (get W k) = KRd /\ alen (get W' k) = alen (get W k) /\ data (get W' k) = data (get W k) /\
  lamports (get W k) <= lamports (get W' k).
Proof.
  intros HQ Ho Ht. destruct (HQ k) as [_ H]. destruct (H (conj Ho Ht)) as [Ho' Ht'].
  destruct (quiet_at _ _ _ HQ Ho' Ht') as (_ & A & B & C). auto.
Qed.

(* ------------------------------------------------------------------------------------------------------------------ *)
(* 2. runtime primitives, in "transitive" form: quiet W0 W -> prim W = Ok W' -> quiet W0 W'                           *)

Lemma credit_q W0 cx W k amt W' : credit cx W k amt = Ok W' -> quiet W0 W -> quiet W0 W'.
Proof.
  intros H HQ. eapply quiet_trans; [exact HQ|]. apply credit_spec in H as (_ & _ & Hg).
  eapply quiet_pointwise1; [exact Hg|]. apply qa_same; [reflexivity|cbn; lia].
Qed.
Lemma debit_q W0 cx W k amt W' :
  debit cx W k amt = Ok W' -> quiet W0 W -> (amt <> 0 -> ~ tk (get W k)) -> quiet W0 W'.
Proof.
  intros H HQ Hs. eapply quiet_trans; [exact HQ|]. apply debit_spec in H as (_ & _ & _ & Hg).
  eapply quiet_pointwise1; [exact Hg|]. destruct (N.eq_dec amt 0) as [->|Hne].
  - apply qa_same; [reflexivity|cbn; lia].
  - apply qa_untk; [auto|]. rewrite tk_lamports. auto.
Qed.
Lemma write_data_q W0 cx W k d W' :
  write_data cx W k d = Ok W' -> quiet W0 W -> ~ tk (get W k) -> (owner (get W k) = KRd -> typedb d = false) -> quiet W0 W'.
Proof.
  intros H HQ Hs Hd. eapply quiet_trans; [exact HQ|]. apply write_data_spec in H as (_ & _ & _ & Hg).
  eapply quiet_pointwise1; [exact Hg|]. apply qa_untk; [exact Hs|]. intros [Ho Ht]. cbn in Ho, Ht. rewrite (Hd Ho) in Ht. discriminate.
Qed.
Lemma try_initialize_q W0 cx W k len d W' :
  try_initialize cx W k len d = Ok W' -> quiet W0 W -> (owner (get W k) = KRd -> typedb d = false) -> quiet W0 W'.
Proof.
  intros H HQ Hd. eapply quiet_trans; [exact HQ|]. apply try_initialize_ok in H as (_ & He & _ & _ & ->).
  apply quiet_put. apply qa_untk; [apply not_tk_data; rewrite He; reflexivity|].
  intros [Ho Ht]. cbn in Ho, Ht. rewrite (Hd Ho) in Ht. discriminate.
Qed.
Lemma resize_q W0 cx W k n W' : resize cx W k n = Ok W' -> quiet W0 W -> ~ tk (get W k) -> quiet W0 W'.
Proof.
  intros H HQ Hs. eapply quiet_trans; [exact HQ|]. apply resize_spec in H as (_ & _ & _ & _ & Hg).
  eapply quiet_pointwise1; [exact Hg|]. apply qa_untk; [exact Hs|]. rewrite tk_alen. exact Hs.
Qed.

(* System program *)
Lemma sys_transfer_core_quiet W ms from to amt W' : sys_transfer_core W ms from to amt = Ok W' -> quiet W W'.
Proof.
  intros H. apply sys_transfer_core_spec in H as (_ & _ & _ & Ho & _ & Hg). intros k. rewrite Hg.
  split.
  - intros [Hk _]. split; [reflexivity|]. cbn. destruct (key_eqb_spec from k) as [->|_]; [|lia].
    destruct Ho as [Ho| ->]; [congruence|lia].
  - apply tk_hdr. reflexivity.
Qed.
Lemma sys_transfer_core_q W0 W ms from to amt W' : sys_transfer_core W ms from to amt = Ok W' -> quiet W0 W -> quiet W0 W'.
Proof. intros H HQ. eapply quiet_trans; [exact HQ|]. eapply sys_transfer_core_quiet; eassumption. Qed.
Lemma sys_transfer_q W0 cx W from to amt pdas W' : sys_transfer cx W from to amt pdas = Ok W' -> quiet W0 W -> quiet W0 W'.
Proof. unfold sys_transfer. intros H. rg_inv H. eapply sys_transfer_core_q; eassumption. Qed.
Lemma sys_create_account_core_q W0 W ms from to lam space own W' :
  sys_create_account_core W ms from to lam space own = Ok W' -> quiet W0 W -> quiet W0 W'.
Proof.
  unfold sys_create_account_core. intros H HQ. repeat rg_inv H. rg_norm.
  eapply sys_transfer_core_q; [exact H|]. eapply quiet_trans; [exact HQ|]. apply quiet_put.
  apply qa_untk; [apply not_tk_owner; congruence|apply not_tk_data; reflexivity].
Qed.

(* try_create_account: the target is a system-owned account; it ends up with zeroed data *)
Lemma create_account_q W0 cx W payer new len own add W' :
  create_account cx W payer new len own add = Ok W' -> quiet W0 W -> quiet W0 W'.
Proof.
  intros H HQ. eapply quiet_trans; [exact HQ|]. clear HQ W0. unfold create_account in H.
  destruct (lamports (get W new) =? 0).
  - unfold sys_create_account in H. rg_inv H. eapply sys_create_account_core_q; [exact H|apply quiet_refl].
  - apply bind_ok in H as (W1 & E1 & H). apply bind_ok in H as (W2 & E2 & H).
    assert (Q1 : quiet W W1 /\ data (get W1 new) = DEmpty /\ owner (get W1 new) = KSystem).
    { unfold sys_allocate in E1. rg_inv E1. unfold sys_allocate_core in E1. repeat rg_inv E1. rg_norm. subst W1.
      rewrite Lemmas_RdSpecs.get_put_same. split; [|split; [reflexivity|assumption]]. apply quiet_put.
      apply qa_untk; [apply not_tk_owner; congruence|apply not_tk_data; reflexivity]. }
    destruct Q1 as (Q1 & Hd1 & Ho1).
    assert (Q2 : quiet W1 W2).
    { unfold sys_assign in E2. rg_inv E2. unfold sys_assign_core in E2.
      destruct (key_eqb (owner (get W1 new)) own); [rg_norm; subst; apply quiet_refl|].
      repeat rg_inv E2. rg_norm. subst W2. apply quiet_put.
      apply qa_untk; [apply not_tk_owner; congruence|apply not_tk_data; cbn; rewrite Hd1; reflexivity]. }
    eapply quiet_trans; [exact Q1|]. eapply quiet_trans; [exact Q2|].
    destruct (_ =? 0) in H; [rg_norm; subst; apply quiet_refl|]. eapply sys_transfer_q; [exact H|apply quiet_refl].
Qed.

(* lamports: a recipe that only moves lamports out of System-owned accounts *)
Definition pays (W W' : world) : Prop :=
  forall k, owner (get W k) <> KSystem -> lamports (get W k) <= lamports (get W' k).
Lemma sys_transfer_core_pays W ms from to amt W' : sys_transfer_core W ms from to amt = Ok W' -> pays W W'.
Proof.
  intros H. apply sys_transfer_core_spec in H as (_ & _ & _ & Ho & _ & Hg). intros k Hk. rewrite Hg. cbn.
  destruct (key_eqb_spec from k) as [->|_]; [|lia]. destruct Ho as [Ho| ->]; [congruence|lia].
Qed.
Lemma create_account_ok_lam cx W payer new len own add W' :
  create_account cx W payer new len own add = Ok W' ->
  (forall k, k <> new -> owner (get W k) <> KSystem -> lamports (get W k) <= lamports (get W' k)) /\
  (own <> KSystem -> sat_add two64 add (rent len) <= lamports (get W' new)).
Proof.
  unfold create_account. intros H. destruct (lamports (get W new) =? 0) eqn:Ecur.
  - apply N.eqb_eq in Ecur. unfold sys_create_account in H. rg_inv H. unfold sys_create_account_core in H. repeat rg_inv H. rg_norm.
    apply sys_transfer_core_spec in H as (_ & _ & _ & Hos & _ & Hg). split.
    + intros k Hk Ho. rewrite Hg, Lemmas_RdSpecs.get_put_other by congruence. cbn.
      destruct (key_eqb_spec payer k) as [->|_]; [|lia].
      rewrite Lemmas_RdSpecs.get_put_other in Hos by congruence. destruct Hos as [Hos| ->]; [congruence|lia].
    + intros Hown. rewrite Hg, Lemmas_RdSpecs.get_put_same. cbn. rewrite key_eqb_refl.
      destruct (key_eqb_spec payer new) as [->|_]; [|lia].
      rewrite Lemmas_RdSpecs.get_put_same in Hos. cbn in Hos. destruct Hos as [Hos|Hz]; [congruence|lia].
  - apply N.eqb_neq in Ecur. apply bind_ok in H as (W1 & E1 & H). apply bind_ok in H as (W2 & E2 & H).
    assert (A1 : (forall k, lamports (get W1 k) = lamports (get W k)) /\ (forall k, k <> new -> get W1 k = get W k)).
    { unfold sys_allocate in E1. rg_inv E1. unfold sys_allocate_core in E1. repeat rg_inv E1. rg_norm. subst W1. split.
      - intros k. rewrite Lemmas_RdSpecs.get_put. destruct (key_eqb_spec new k) as [->|]; reflexivity.
      - intros k Hk. apply Lemmas_RdSpecs.get_put_other. congruence. }
    assert (A2 : (forall k, lamports (get W2 k) = lamports (get W1 k)) /\ (forall k, k <> new -> get W2 k = get W1 k) /\
                 (own <> KSystem -> owner (get W2 new) = own)).
    { unfold sys_assign in E2. rg_inv E2. unfold sys_assign_core in E2.
      destruct (key_eqb (owner (get W1 new)) own) eqn:Eo; [rg_norm; subst; auto|].
      repeat rg_inv E2. rg_norm. subst W2. split; [|split].
      - intros k. rewrite Lemmas_RdSpecs.get_put. destruct (key_eqb_spec new k) as [->|]; reflexivity.
      - intros k Hk. apply Lemmas_RdSpecs.get_put_other. congruence.
      - intros _. rewrite Lemmas_RdSpecs.get_put_same. reflexivity. }
    destruct A1 as (L1 & F1), A2 as (L2 & F2 & O2).
    destruct (sat_add two64 add (rent len) - lamports (get W new) =? 0) eqn:Ed.
    + apply N.eqb_eq in Ed. rg_norm. subst W'. split.
      * intros k _ _. rewrite L2, L1. lia.
      * intros _. rewrite L2, L1. lia.
    + apply N.eqb_neq in Ed. apply sys_transfer_spec in H as (_ & _ & _ & _ & _ & _ & Hos & _ & Hg). split.
      * intros k Hk Ho. rewrite Hg. cbn. rewrite L2, L1. destruct (key_eqb_spec payer k) as [->|_]; [|lia].
        rewrite F2, F1 in Hos by assumption. destruct Hos as [Hos|Hz]; [congruence|lia].
      * intros Hown. rewrite Hg. cbn. rewrite key_eqb_refl, L2, L1. destruct (key_eqb_spec payer new) as [->|_]; [|lia].
        rewrite (O2 Hown) in Hos. destruct Hos as [Hos|Hz]; [congruence|lia].
Qed.

(* SPL Token: only Token-owned accounts change, and only their data *)
Definition tokonly (W W' : world) : Prop :=
  forall k, (owner (get W k) <> KToken -> get W' k = get W k) /\
            lamports (get W' k) = lamports (get W k) /\ owner (get W' k) = owner (get W k) /\ alen (get W' k) = alen (get W k).
Lemma tokonly_refl W : tokonly W W.
Proof. intros k. auto. Qed.
Lemma tokonly_trans W1 W2 W3 : tokonly W1 W2 -> tokonly W2 W3 -> tokonly W1 W3.
Proof.
  intros H1 H2 k. destruct (H1 k) as (A1 & B1 & C1 & D1), (H2 k) as (A2 & B2 & C2 & D2).
  split; [|split; [|split]; congruence]. intros Ho. rewrite A2 by congruence. auto.
Qed.
Lemma tokonly_quiet W W' : tokonly W W' -> quiet W W'.
Proof.
  intros H k. destruct (H k) as (A & B & C & D). destruct (key_eq_dec (owner (get W k)) KToken) as [E|E].
  - apply qa_untk; apply not_tk_owner; congruence.
  - rewrite (A E). apply qa_refl.
Qed.
Lemma tok_transfer_core_tokonly W ms src dst auth amt chk W' :
  tok_transfer_core W ms src dst auth amt chk = Ok W' -> tokonly W W'.
Proof.
  intros H. apply tok_transfer_core_spec in H as (s & d & Hs & Hd & _ & _ & _ & _ & _ & _ & Hsame & Hdiff).
  apply as_token_ok in Hs as (_ & Hso). apply as_token_ok in Hd as (_ & Hdo).
  destruct (key_eq_dec src dst) as [E|E]; [intros k; rewrite (Hsame E); auto|].
  destruct (Hdiff E) as (_ & Hg). intros k. rewrite Hg.
  destruct (key_eqb_spec src k) as [<-|]; [cbn; split; [congruence|auto]|].
  destruct (key_eqb_spec dst k) as [<-|]; [cbn; split; [congruence|auto]|]. auto.
Qed.
Lemma tok_transfer_tokonly cx W src dst auth amt pdas W' : tok_transfer cx W src dst auth amt pdas = Ok W' -> tokonly W W'.
Proof. unfold tok_transfer. intros H. rg_inv H. eapply tok_transfer_core_tokonly; eassumption. Qed.
Lemma tok_transfer_checked_tokonly cx W src mint dst auth amt dec pdas W' :
  tok_transfer_checked cx W src mint dst auth amt dec pdas = Ok W' -> tokonly W W'.
Proof. unfold tok_transfer_checked. intros H. rg_inv H. eapply tok_transfer_core_tokonly; eassumption. Qed.
Lemma tok_burn_core_tokonly W ms acc mint auth amt W' : tok_burn_core W ms acc mint auth amt = Ok W' -> tokonly W W'.
Proof.
  intros H. apply tok_burn_core_spec in H as (s & m & Hs & Hm & _ & _ & _ & _ & _ & _ & Hg).
  apply as_token_ok in Hs as (_ & Hso). apply as_mint_ok in Hm as (_ & Hmo). intros k. rewrite Hg.
  destruct (key_eqb_spec acc k) as [<-|]; [cbn; split; [congruence|auto]|].
  destruct (key_eqb_spec mint k) as [<-|]; [cbn; split; [congruence|auto]|]. auto.
Qed.
Lemma tok_burn_tokonly cx W acc mint auth amt pdas W' : tok_burn cx W acc mint auth amt pdas = Ok W' -> tokonly W W'.
Proof. unfold tok_burn. intros H. rg_inv H. eapply tok_burn_core_tokonly; eassumption. Qed.
Lemma tok_init_account3_tokonly cx W acc mint own W' : tok_init_account3 cx W acc mint own = Ok W' -> tokonly W W'.
Proof.
  unfold tok_init_account3. intros H. repeat rg_inv H. rg_norm. subst W'. intros k.
  rewrite Lemmas_RdSpecs.get_put. destruct (key_eqb_spec acc k) as [<-|]; [cbn; split; [congruence|auto]|]. auto.
Qed.

Lemma tok_transfer_q W0 cx W src dst auth amt pdas W' : tok_transfer cx W src dst auth amt pdas = Ok W' -> quiet W0 W -> quiet W0 W'.
Proof. intros H HQ. eapply quiet_trans; [exact HQ|]. apply tokonly_quiet. eapply tok_transfer_tokonly; eassumption. Qed.
Lemma tok_transfer_checked_q W0 cx W src mint dst auth amt dec pdas W' :
  tok_transfer_checked cx W src mint dst auth amt dec pdas = Ok W' -> quiet W0 W -> quiet W0 W'.
Proof. intros H HQ. eapply quiet_trans; [exact HQ|]. apply tokonly_quiet. eapply tok_transfer_checked_tokonly; eassumption. Qed.
Lemma tok_burn_q W0 cx W acc mint auth amt pdas W' : tok_burn cx W acc mint auth amt pdas = Ok W' -> quiet W0 W -> quiet W0 W'.
Proof. intros H HQ. eapply quiet_trans; [exact HQ|]. apply tokonly_quiet. eapply tok_burn_tokonly; eassumption. Qed.
Lemma create_token_account_q W0 cx W payer new mint town W' :
  create_token_account cx W payer new mint town = Ok W' -> quiet W0 W -> quiet W0 W'.
Proof.
  unfold create_token_account. intros H HQ. rg_inv H. eapply quiet_trans; [eapply create_account_q; eassumption|].
  apply tokonly_quiet. eapply tok_init_account3_tokonly; eassumption.
Qed.
(* accounts other than the new token account: header kept, program-owned ones do not lose lamports *)
Lemma create_token_account_other cx W payer new mint town W' k :
  create_token_account cx W payer new mint town = Ok W' -> k <> new ->
  hdr (get W' k) = hdr (get W k) /\ (owner (get W k) <> KSystem -> lamports (get W k) <= lamports (get W' k)).
Proof.
  intros H Hk. pose proof (create_token_account_ok _ _ _ _ _ _ _ H) as (_ & _ & _ & _ & _ & _ & _ & Hf).
  split; [apply Hf; exact Hk|]. unfold create_token_account in H. rg_inv H.
  apply create_account_ok_lam in E as (L & _). apply tok_init_account3_tokonly in H. destruct (H k) as (_ & B & _).
  intros Ho. rewrite B. apply L; assumption.
Qed.

Lemma distribute_loop_tokonly cx recips : forall W ms remaining src auth pdas acc W' tot ms',
  distribute_loop cx W ms recips remaining src auth pdas acc = Ok (W', tot, ms') -> tokonly W W'.
Proof.
  induction recips as [|[rk share] tl IH]; intros W ms remaining src auth pdas acc W' tot ms' H; cbn [distribute_loop] in H.
  - injection H as <- _ _. apply tokonly_refl.
  - repeat rg_inv H. eapply tokonly_trans; [eapply tok_transfer_tokonly; eassumption|]. eapply IH; eassumption.
Qed.

(* the DequeueFills CPI *)
Lemma sw_dequeue_fills_quiet cx W sol W' rep : sw_dequeue_fills cx W sol = Ok (W', rep) -> quiet W W'.
Proof.
  intros H. apply sw_dequeue_fills_spec in H as (mc & ms & mf & mj & rest & _ & _ & _ & _ & _ & Ho & r & r' & z & _ & _ & _ & _ & Hg).
  eapply quiet_pointwise1; [exact Hg|]. apply qa_untk; apply not_tk_owner; cbn; congruence.
Qed.
Lemma swap_dequeue_cpi_quiet cx W swap cfg st fills jk sol pdas W' rep :
  swap_dequeue_cpi cx W swap cfg st fills jk sol pdas = Ok (W', rep) -> quiet W W'.
Proof.
  intros H. destruct (swap_dequeue_cpi_programs _ _ _ _ _ _ _ _ _ _ _ H) as [->|[n ->]].
  - unfold swap_dequeue_cpi in H. rg_inv H. eapply sw_dequeue_fills_quiet; eassumption.
  - apply swap_dequeue_cpi_rogue_spec in H. subst. apply quiet_refl.
Qed.
Lemma swap_dequeue_cpi_q W0 cx W swap cfg st fills jk sol pdas W' rep :
  swap_dequeue_cpi cx W swap cfg st fills jk sol pdas = Ok (W', rep) -> quiet W0 W -> quiet W0 W'.
Proof. intros H HQ. eapply quiet_trans; [exact HQ|]. eapply swap_dequeue_cpi_quiet; eassumption. Qed.

(* ------------------------------------------------------------------------------------------------------------------ *)
(* 3. stepping tactic for `quiet`; processors that never touch a typed revenue-distribution account                    *)

Lemma sw_zc_fills_ok ms W k r tl :
  sw_zc_fills ms W = Ok (k, r, tl) ->
  exists m, ms = m :: tl /\ k = mkey m /\ owner (get W k) = KSwapMock /\ data (get W k) = DFills r.
Proof.
  unfold sw_zc_fills. intros H. repeat rg_inv H. rg_norm. subst.
  apply Lemmas_RdGuards.next_account_ok in E as (-> & _ & _ & Ho). eexists; repeat split; eauto.
Qed.

Ltac q_side :=
  first
  [ assumption
  | reflexivity
  | match goal with
    | Hd : data (get ?W ?k) = _ |- ~ tk (get ?W ?k) => apply not_tk_data; rewrite Hd; reflexivity
    | Ho : owner (get ?W ?k) = _ |- ~ tk (get ?W ?k) => apply not_tk_owner; rewrite Ho; discriminate
    | |- _ -> typedb _ = false => intros _; reflexivity
    | |- _ -> ~ tk _ => intros _; q_side
    end ].

Ltac q_read E :=
  first
  [ apply rd_verified_ok in E; destruct E as (?m & ?a & _ & -> & _ & ?Ho & ?Hd & _ & _)
  | apply rd_zc_config_ok in E; destruct E as (?m & _ & -> & _ & ?Ho & ?Hd)
  | apply rd_zc_dist_ok in E; destruct E as (?m & _ & -> & _ & ?Ho & ?Hd)
  | apply rd_zc_journal_ok in E; destruct E as (?m & _ & -> & _ & ?Ho & ?Hd)
  | apply rd_zc_deposit_ok in E; destruct E as (?m & _ & -> & _ & ?Ho & ?Hd)
  | apply rd_zc_contrib_ok in E; destruct E as (?m & _ & -> & _ & ?Ho & ?Hd)
  | apply pp_verified_ok in E; destruct E as (?m & ?a & _ & -> & -> & _ & ?Ho & ?Hd & _)
  | apply pp_zc_config_ok in E; destruct E as (?m & _ & -> & ?Ho & ?Hd)
  | apply pp_zc_request_ok in E; destruct E as (?m & _ & -> & ?Ho & ?Hd)
  | apply sw_zc_fills_ok in E; destruct E as (?m & _ & -> & ?Ho & ?Hd) ].

Ltac q_prim E :=
  first
  [ eapply credit_q in E; [|eassumption]
  | eapply debit_q in E; [|eassumption|q_side]
  | (unfold set_lamports_to_zero in E; eapply debit_q in E; [|eassumption|q_side])
  | eapply write_data_q in E; [|eassumption|q_side|q_side]
  | eapply try_initialize_q in E; [|eassumption|q_side]
  | eapply create_account_q in E; [|eassumption]
  | eapply create_token_account_q in E; [|eassumption]
  | eapply sys_transfer_q in E; [|eassumption]
  | eapply tok_transfer_q in E; [|eassumption]
  | eapply tok_transfer_checked_q in E; [|eassumption]
  | eapply tok_burn_q in E; [|eassumption]
  | eapply swap_dequeue_cpi_q in E; [|eassumption] ].
Ltac q_char E := first [ q_read E | q_prim E | idtac ].
Ltac q_step H :=
  cbv zeta in H;
  lazymatch type of H with
  | bind ?m _ = Ok _ =>
      let E := fresh "E" in destruct m eqn:E; cbn [bind] in H; [|discriminate H];
      repeat lazymatch type of H with (let '(_, _) := ?p in _) = Ok _ => destruct p end;
      q_char E
  | (if ?b then _ else _) = Ok _ => destruct b eqn:?
  | match ?x with _ => _ end = Ok _ => destruct x eqn:?; try discriminate H
  end.
Ltac q_final H :=
  first [ eassumption
        | injection H as <-; eassumption
        | q_prim H; exact H ].
Ltac q_go H := repeat q_step H; q_final H.
(* start: `H : proc cx W .. = Ok W'`, goal `quiet W W'` *)
Ltac q_start W := pose proof (quiet_refl W).

(* passport *)
Lemma pp_initialize_program_quiet cx W W' : pp_initialize_program cx W = Ok W' -> quiet W W'.
Proof. unfold pp_initialize_program. intros H. q_start W. q_go H. Qed.
Lemma pp_set_admin_quiet cx W k W' : pp_set_admin cx W k = Ok W' -> quiet W W'.
Proof. unfold pp_set_admin. intros H. q_start W. q_go H. Qed.
Lemma pp_configure_program_quiet cx W s W' : pp_configure_program cx W s = Ok W' -> quiet W W'.
Proof. unfold pp_configure_program. intros H. q_start W. q_go H. Qed.
Lemma pp_request_access_quiet cx W m W' : pp_request_access cx W m = Ok W' -> quiet W W'.
Proof. unfold pp_request_access. intros H. q_start W. q_go H. Qed.
Lemma pp_grant_access_quiet cx W W' : pp_grant_access cx W = Ok W' -> quiet W W'.
Proof. unfold pp_grant_access. intros H. q_start W. q_go H. Qed.
Lemma pp_deny_access_quiet cx W W' : pp_deny_access cx W = Ok W' -> quiet W W'.
Proof. unfold pp_deny_access. intros H. q_start W. q_go H. Qed.
Theorem pp_process_quiet cx W ix W' : pp_process cx W ix = Ok W' -> quiet W W'.
Proof.
  destruct ix; cbn [pp_process].
  - apply pp_initialize_program_quiet.
  - apply pp_set_admin_quiet.
  - apply pp_configure_program_quiet.
  - apply pp_request_access_quiet.
  - apply pp_grant_access_quiet.
  - apply pp_deny_access_quiet.
Qed.

(* mock swap: registry initialisation and the stand-alone DequeueFills *)
Lemma sw_initialize_quiet cx W W' : sw_initialize cx W = Ok W' -> quiet W W'.
Proof. unfold sw_initialize. intros H. q_start W. q_go H. Qed.

(* revenue distribution: the five processors that write only contributor / deposit records *)
Lemma rd_initialize_contributor_quiet cx W svc W' : rd_initialize_contributor cx W svc = Ok W' -> quiet W W'.
Proof. unfold rd_initialize_contributor. intros H. q_start W. q_go H. Qed.
Lemma rd_set_rewards_manager_quiet cx W k W' : rd_set_rewards_manager cx W k = Ok W' -> quiet W W'.
Proof. unfold rd_set_rewards_manager. intros H. q_start W. q_go H. Qed.
Lemma rd_configure_contributor_quiet cx W s W' : rd_configure_contributor cx W s = Ok W' -> quiet W W'.
Proof. unfold rd_configure_contributor. intros H. q_start W. q_go H. Qed.
Lemma rd_verify_root_quiet cx W kind p W' : rd_verify_root cx W kind p = Ok W' -> quiet W W'.
Proof. unfold rd_verify_root. intros H. q_start W. q_go H. Qed.
Lemma rd_initialize_deposit_quiet cx W node W' : rd_initialize_deposit cx W node = Ok W' -> quiet W W'.
Proof. unfold rd_initialize_deposit. intros H. q_start W. q_go H. Qed.

(* ------------------------------------------------------------------------------------------------------------------ *)
(* 4. effect lemmas, relative to `quiet`, for the initialisers that write typed data                                  *)

Lemma create_then_token cx W payer new len W1 payer2 tk mint town W2 :
  create_account cx W payer new len KRd 0 = Ok W1 -> create_token_account cx W1 payer2 tk mint town = Ok W2 ->
  tk <> new -> rent len < two64 ->
  quiet W W2 /\ hdr (get W2 new) = (KRd, len, DEmpty) /\ rent len <= lamports (get W2 new).
Proof.
  intros E1 E2 Hne Hr.
  pose proof (create_account_ok _ _ _ _ _ _ _ _ E1) as (_ & _ & _ & _ & Hn & _).
  pose proof (create_account_ok_lam _ _ _ _ _ _ _ _ E1) as (_ & Hl). specialize (Hl ltac:(discriminate)).
  unfold sat_add in Hl. replace (0 + rent len <? two64) with true in Hl by (symmetry; apply N.ltb_lt; lia).
  destruct (create_token_account_other _ _ _ _ _ _ _ new E2 ltac:(congruence)) as (Hh & Hlam).
  split; [|split].
  - eapply create_token_account_q; [exact E2|]. eapply create_account_q; [exact E1|apply quiet_refl].
  - rewrite Hh. exact Hn.
  - etransitivity; [|apply Hlam]. { lia. } unfold hdr in Hn. injection Hn as Hn _ _. rewrite Hn. discriminate.
Qed.

Lemma rent_config_alloc : rent LEN_CONFIG_ALLOC < two64. Proof. reflexivity. Qed.
Lemma rent_dist : rent LEN_DIST < two64. Proof. reflexivity. Qed.

Lemma rd_initialize_program_eff cx W W' : rd_initialize_program cx W = Ok W' ->
  exists W1, quiet W W1 /\ hdr (get W1 KRdConfig) = (KRd, LEN_CONFIG_ALLOC, DEmpty) /\
    rent LEN_CONFIG_ALLOC <= lamports (get W1 KRdConfig) /\
    W' = put W1 KRdConfig ((get W1 KRdConfig) <| data := DConfig (rd_config_default <| c_paused := true |>) |>).
Proof.
  unfold rd_initialize_program. intros H. repeat rg_inv H. rg_norm.
  match goal with E : next_2z_token_pda _ _ _ = Ok _ |- _ => apply Lemmas_RdGuards.next_2z_token_pda_ok in E as (? & _ & _ & ->) end.
  match goal with E1 : create_account _ _ _ _ _ _ _ = Ok _, E2 : create_token_account _ _ _ _ _ _ = Ok _ |- _ =>
    destruct (create_then_token _ _ _ _ _ _ _ _ _ _ _ E1 E2 ltac:(discriminate) rent_config_alloc) as (Q & Hh & Hl) end.
  apply try_initialize_ok in H as (_ & _ & _ & _ & ->). eauto.
Qed.
Lemma rd_initialize_journal_eff cx W W' : rd_initialize_journal cx W = Ok W' ->
  exists W1, quiet W W1 /\ hdr (get W1 KRdJournal) = (KRd, LEN_CONFIG_ALLOC, DEmpty) /\
    rent LEN_CONFIG_ALLOC <= lamports (get W1 KRdJournal) /\
    W' = put W1 KRdJournal ((get W1 KRdJournal) <| data := DJournal journal_default |>).
Proof.
  unfold rd_initialize_journal. intros H. repeat rg_inv H. rg_norm.
  match goal with E : next_2z_token_pda _ _ _ = Ok _ |- _ => apply Lemmas_RdGuards.next_2z_token_pda_ok in E as (? & _ & _ & ->) end.
  match goal with E1 : create_account _ _ _ _ _ _ _ = Ok _, E2 : create_token_account _ _ _ _ _ _ = Ok _ |- _ =>
    destruct (create_then_token _ _ _ _ _ _ _ _ _ _ _ E1 E2 ltac:(discriminate) rent_config_alloc) as (Q & Hh & Hl) end.
  apply try_initialize_ok in H as (_ & _ & _ & _ & ->). eauto.
Qed.

(* swap destination: only the two "bump cached" flags of the config change *)
Lemma rd_initialize_swap_destination_eff cx W W' : rd_initialize_swap_destination cx W = Ok W' ->
  exists ck c, owner (get W ck) = KRd /\ data (get W ck) = DConfig c /\
    quiet (put W ck ((get W ck) <| data := DConfig (c <| c_has_swap_auth_bump := true |> <| c_has_swap_dest_bump := true |>) |>)) W'.
Proof.
  unfold rd_initialize_swap_destination. intros H. repeat rg_inv H. rg_norm.
  apply rd_zc_config_ok in E as (mc & _ & -> & _ & Ho & Hd).
  match goal with E : write_data _ _ _ _ = Ok _ |- _ => apply write_data_ok in E as (_ & _ & ->) end.
  lazymatch type of Hd with _ = DConfig ?c => exists (mkey mc), c end. split; [exact Ho|]. split; [exact Hd|].
  eapply create_token_account_q; [exact H|apply quiet_refl].
Qed.

(* a freshly initialised distribution: everything but the snapshot fields and the prepaid amount is the default *)
Definition fresh_dist (d : dist) (e relay : N) : Prop :=
  d = dist_default <| d_epoch := e |> <| d_cbr := d_cbr d |> <| d_fees := d_fees d |> <| d_relay := relay |>
                   <| d_calc_allowed_ts := d_calc_allowed_ts d |> <| d_prepaid_2z := d_prepaid_2z d |>.
Lemma set_prepaid_id d : d <| d_prepaid_2z := d_prepaid_2z d |> = d.
Proof. destruct d; reflexivity. Qed.

Lemma init_dist_tail cx W ata tk jk dk d W' :
  match data (get W ata) with
  | DToken t =>
      if t_amount t =? 0 then Ok W else
      W1 <- tok_transfer cx W ata tk jk (t_amount t) [KRdJournal] ;;
      put_dist cx W1 dk (d <| d_prepaid_2z := wadd64 0 (t_amount t) |>) []
  | _ => Ok W
  end = Ok W' ->
  data (get W dk) = DDist d [] ->
  exists W4 z, quiet W W4 /\
    forall k, get W' k = if key_eqb dk k then (get W4 dk) <| data := DDist (d <| d_prepaid_2z := z |>) [] |> else get W4 k.
Proof.
  intros H Hd.
  assert (Hid : forall k, get W k = if key_eqb dk k then (get W dk) <| data := DDist (d <| d_prepaid_2z := d_prepaid_2z d |>) [] |> else get W k).
  { intros k. destruct (key_eqb_spec dk k) as [<-|]; [|reflexivity]. rewrite set_prepaid_id, set_data_id by exact Hd. reflexivity. }
  destruct (data (get W ata)) as [| | | | | | | | |t| | | |]; try (injection H as <-; exists W, (d_prepaid_2z d); split; [apply quiet_refl|exact Hid]).
  destruct (t_amount t =? 0); [injection H as <-; exists W, (d_prepaid_2z d); split; [apply quiet_refl|exact Hid]|].
  apply bind_ok in H as (W1 & E & H). apply put_dist_spec in H as (_ & _ & _ & Hg).
  exists W1, (wadd64 0 (t_amount t)). split; [eapply tok_transfer_q; [exact E|apply quiet_refl]|exact Hg].
Qed.

Ltac inv_until_data H :=
  repeat (lazymatch type of H with
          | match data _ with _ => _ end = Ok _ => fail
          | _ => rg_inv H; cbv zeta in H
          end).

Lemma rd_initialize_distribution_eff cx W W' : rd_initialize_distribution cx W = Ok W' ->
  exists ck c c' W2 W4 d,
    owner (get W ck) = KRd /\ data (get W ck) = DConfig c /\ c_relay c' = c_relay c /\
    quiet (put W ck ((get W ck) <| data := DConfig c' |>)) W2 /\
    hdr (get W2 (KRdDist (c_next_epoch c))) = (KRd, LEN_DIST, DEmpty) /\
    rent LEN_DIST <= lamports (get W2 (KRdDist (c_next_epoch c))) /\
    fresh_dist d (c_next_epoch c) (c_relay c) /\
    quiet (put W2 (KRdDist (c_next_epoch c))
               ((get W2 (KRdDist (c_next_epoch c))) <| data := DDist (d <| d_prepaid_2z := 0 |>) [] |>)) W4 /\
    forall k, get W' k = if key_eqb (KRdDist (c_next_epoch c)) k
                         then (get W4 (KRdDist (c_next_epoch c))) <| data := DDist d [] |> else get W4 k.
Proof.
  unfold rd_initialize_distribution. intros H. cbv zeta in H.
  inv_until_data H.
  match goal with E : rd_verified _ _ _ _ = Ok _ |- _ => apply rd_verified_ok in E as (mc & ma & _ & -> & _ & Ho & Hd & _ & _) end.
  match goal with E : write_data _ _ _ _ = Ok _ |- _ => apply write_data_ok in E as (_ & _ & ->) end.
  match goal with E : next_2z_token_pda _ (KRdDist _) _ = Ok _ |- _ => apply Lemmas_RdGuards.next_2z_token_pda_ok in E as (? & _ & _ & ->) end.
  match goal with E1 : create_account _ _ _ _ _ _ _ = Ok _, E2 : create_token_account _ _ _ _ _ _ = Ok _ |- _ =>
    destruct (create_then_token _ _ _ _ _ _ _ _ _ _ _ E1 E2 ltac:(discriminate) rent_dist) as (Q & Hh & Hl) end.
  match goal with E : try_initialize _ _ _ _ _ = Ok _ |- _ => apply try_initialize_ok in E as (_ & _ & _ & _ & ->) end.
  apply init_dist_tail in H; [|rewrite Lemmas_RdSpecs.get_put_same; reflexivity].
  destruct H as (W4 & z & Q4 & Hg).
  lazymatch type of Hd with _ = DConfig ?c =>
    lazymatch type of Q with quiet (put _ _ (_ <| data := DConfig ?c' |>)) ?W2 =>
      lazymatch type of Q4 with quiet (put _ _ (_ <| data := DDist ?d0 [] |>)) _ =>
        exists (mkey mc), c, c', W2, W4, (d0 <| d_prepaid_2z := z |>) end end end.
  split; [exact Ho|]. split; [exact Hd|]. split; [reflexivity|]. split; [exact Q|]. split; [exact Hh|]. split; [exact Hl|].
  split; [reflexivity|]. split; [exact Q4|exact Hg].
Qed.

(* distribute-rewards without the side conditions of Lemmas_RdSpecs5: what happens to every account that is not a
   Token account (the 2Z custody, the mint and the recipients' ATAs only change their token data) *)
Lemma rd_distribute_rewards_eff cx W us ebr p W' : rd_distribute_rewards cx W us ebr p = Ok W' ->
  exists dk d tail relayer transferred burn tail',
    owner (get W dk) = KRd /\ data (get W dk) = DDist d tail /\
    d_distributed_count d < d_total_contributors d /\ d_swept d = true /\
    d_relay d <= lamports (get W dk) + (if key_eqb relayer dk then d_relay d else 0) /\
    (forall k, owner (get W k) <> KToken -> get W' k =
        (if key_eqb dk k then (get W dk) <| data := DDist (dr_dist d transferred burn) tail' |> else get W k)
          <| lamports := lamports (get W k) + (if key_eqb relayer k then d_relay d else 0)
                                            - (if key_eqb dk k then d_relay d else 0) |>) /\
    (forall k, owner (get W k) = KToken -> owner (get W' k) = KToken).
Proof.
  unfold rd_distribute_rewards. intros H. repeat (rg_inv H; cbv zeta in H). rg_norm.
  match goal with E : rd_zc_dist _ _ _ = Ok _ |- _ => apply rd_zc_dist_ok in E as (md & _ & -> & _ & Ho & Hd) end.
  match goal with E : distribute_loop _ _ _ _ _ _ _ _ _ = Ok _ |- _ => apply distribute_loop_tokonly in E; rename E into T1 end.
  match goal with E : put_dist _ _ _ _ _ = Ok _ |- _ => apply put_dist_spec in E as (_ & _ & _ & G2) end.
  match goal with E : tok_burn _ _ _ _ _ _ _ = Ok _ |- _ => apply tok_burn_tokonly in E; rename E into T3 end.
  match goal with E : credit _ _ _ _ = Ok _ |- _ => apply credit_spec in E as (_ & _ & G4) end.
  apply debit_spec in H as (_ & Hle & _ & G5).
  change (d_relay (_ <| d_distributed_count := _ |>)) with (d_relay d) in *.
  set (dk := mkey md) in *.
  assert (Hdk : owner (get W dk) <> KToken) by (rewrite Ho; discriminate).
  assert (F : forall q, owner (get W q) <> KToken ->
            get a13 q = if key_eqb dk q then (get W dk) <| data := DDist (dr_dist d n (wadd64 a10 (wsub64 (wsub64 a9 a10) n))) a3 |> else get W q).
  { intros q Hk. destruct (T3 q) as (A3 & _). destruct (T1 q) as (A1 & _ & O1 & _). destruct (T1 dk) as (A1d & _).
    rewrite A3.
    - rewrite G2. destruct (key_eqb dk q); [rewrite (A1d Hdk); reflexivity|apply A1; exact Hk].
    - rewrite G2. destruct (key_eqb_spec dk q) as [<-|]; [cbn; rewrite (A1d Hdk); exact Hdk|congruence]. }
  exists dk, d, l1, (mkey m), n, (wadd64 a10 (wsub64 (wsub64 a9 a10) n)), a3.
  split; [exact Ho|]. split; [exact Hd|]. split; [lia|]. split; [assumption|]. split.
  { rewrite G4 in Hle. rewrite (F dk Hdk), key_eqb_refl in Hle.
    destruct (key_eqb_spec (mkey m) dk) as [Er|Er].
    - assert (Hm : owner (get W (mkey m)) <> KToken) by (rewrite Er; exact Hdk).
      rewrite (F _ Hm), Er, key_eqb_refl in Hle. cbn in Hle. lia.
    - cbn in Hle. lia. }
  split.
  - intros q Hk. rewrite G5, !G4.
    destruct (key_eqb_spec dk q) as [<-|Hne].
    + rewrite (F dk Hdk), key_eqb_refl.
      destruct (key_eqb_spec (mkey m) dk) as [Er|Er].
      * assert (Hm : owner (get W (mkey m)) <> KToken) by (rewrite Er; exact Hdk).
        rewrite (F _ Hm), Er, key_eqb_refl. apply acct_ext; reflexivity.
      * apply acct_ext; cbn; try reflexivity. lia.
    + destruct (key_eqb_spec (mkey m) q) as [Er|Er].
      * rewrite <- Er in Hk. rewrite (F _ Hk), Er, (key_eqb_neq dk q) by assumption. apply acct_ext; cbn; try reflexivity. lia.
      * rewrite (F _ Hk), (key_eqb_neq dk q) by assumption. apply acct_ext; cbn; try reflexivity. lia.
  - intros q Hk. rewrite G5, !G4.
    assert (O13 : forall q', owner (get a13 q') = owner (get W q')).
    { intros q'. destruct (T3 q') as (_ & _ & O3 & _). rewrite O3, G2.
      destruct (T1 dk) as (_ & _ & O1 & _). destruct (T1 q') as (_ & _ & O1' & _).
      destruct (key_eqb_spec dk q') as [E'|]; cbn; congruence. }
    destruct (key_eqb_spec dk q) as [Eq1|Eq1]; [exfalso; apply Hdk; rewrite Eq1; exact Hk|].
    destruct (key_eqb_spec (mkey m) q) as [Eq2|Eq2]; cbn; rewrite O13, ?Eq2; exact Hk.
Qed.

(* ------------------------------------------------------------------------------------------------------------------ *)
(* 5. lifting: a world predicate closed under `quiet`, `purge` and the revenue-distribution processors (for the        *)
(*    instructions whose arguments satisfy `rd_ok`) is kept by every instruction, transaction, operation and history   *)

Lemma owner_set_data a d : owner (a <| data := d |>) = owner a. Proof. reflexivity. Qed.
Lemma owner_set_lamports a n : owner (a <| lamports := n |>) = owner a. Proof. reflexivity. Qed.
Lemma typed_canonical_user W n : typed_canonical W -> ~ tk (get W (KUser n)).
Proof.
  intros HT [Ho Ht]. specialize (HT (KUser n)). unfold canon_key_of in HT. rewrite Ho in HT. cbn [key_eqb] in HT.
  destruct (data (get W (KUser n))); try discriminate Ht; specialize (HT _ eq_refl); discriminate HT.
Qed.

(* OCreateAta debits `payer` without any check (the real ATA program makes the payer sign a System transfer): a history
   is only meaningful when the payer is a wallet *)
Definition wallet_pays (o : op) : Prop := match o with OCreateAta p _ => exists n, p = KUser n | _ => True end.

Section Lift.
  Variable Inv : world -> Prop.
  Variable rd_ok : rd_ix -> Prop.
  Hypothesis Inv_quiet : forall W W', quiet W W' -> Inv W -> Inv W'.
  Hypothesis Inv_rd : forall cx W ix W', cx_prog cx = KRd -> rd_ok ix -> rd_process cx W ix = Ok W' -> Inv W -> Inv W'.
  Hypothesis rd_ok_withdraw : forall amt, rd_ok (RWithdrawSol amt).
  Hypothesis Inv_purge : forall W, Inv W -> Inv (purge W).

  Fixpoint ix_ok (d : ixdata) : Prop :=
    match d with IxRd i => rd_ok i | IxRogueCpi inner => ix_ok inner | _ => True end.
  Definition tx_ok (t : tx) : Prop := Forall (fun i => ix_ok (i_data i)) (tx_ixs t).
  Definition op_args_ok (o : op) : Prop := match o with OTx t => tx_ok t | _ => True end.

  Lemma withdraw_sol_cpi_inv cx W cfg auth jk dest sol sib W' :
    withdraw_sol_cpi cx W cfg auth jk dest sol sib = Ok W' -> Inv W -> Inv W'.
  Proof.
    unfold withdraw_sol_cpi. intros H HI. rg_inv H.
    eapply (Inv_rd _ W (RWithdrawSol sol)); [|apply rd_ok_withdraw|exact H|exact HI]. reflexivity.
  Qed.
  Lemma sw_buy_sol_inv cx W z sol W' : sw_buy_sol cx W z sol = Ok W' -> Inv W -> Inv W'.
  Proof.
    unfold sw_buy_sol. intros H HI. q_start W. repeat q_step H.
    eapply withdraw_sol_cpi_inv; [exact H|]. eapply Inv_quiet; eassumption.
  Qed.
  Lemma sw_process_inv cx W ix W' : sw_process cx W ix = Ok W' -> Inv W -> Inv W'.
  Proof.
    destruct ix; cbn [sw_process]; intros H HI.
    - eapply Inv_quiet; [eapply sw_initialize_quiet; exact H|exact HI].
    - eapply sw_buy_sol_inv; eassumption.
    - rg_inv H. rg_inv H. injection H as <-. eapply Inv_quiet; [eapply sw_dequeue_fills_quiet; eassumption|exact HI].
  Qed.

  Theorem exec_data_inv d : forall prog ms h sib W W',
    ix_ok d -> exec_data prog d ms h sib W = Ok W' -> Inv W -> Inv W'.
  Proof.
    induction d as [i|i|i|amt|lam space o|amt|amt dec|amt|inner IH|z sol|]; intros prog ms h sib W W' Hok H HI;
      cbn [exec_data] in H; apply bind_ok in H as (W1 & E & H); apply bind_ok in H as (u & _ & H); injection H as <-.
    - destruct prog; try discriminate E. eapply Inv_quiet; [eapply pp_process_quiet; exact E|exact HI].
    - destruct prog; try discriminate E. eapply Inv_rd; [|exact Hok|exact E|exact HI]. reflexivity.
    - destruct prog; try discriminate E. eapply sw_process_inv; eassumption.
    - destruct prog; try discriminate E. rg_inv E. eapply Inv_quiet; [eapply sys_transfer_core_quiet; exact E|exact HI].
    - destruct prog; try discriminate E. rg_inv E.
      eapply Inv_quiet; [eapply sys_create_account_core_q; [exact E|apply quiet_refl]|exact HI].
    - destruct prog; try discriminate E. rg_inv E.
      eapply Inv_quiet; [apply tokonly_quiet; eapply tok_transfer_core_tokonly; exact E|exact HI].
    - destruct prog; try discriminate E. rg_inv E.
      eapply Inv_quiet; [apply tokonly_quiet; eapply tok_transfer_core_tokonly; exact E|exact HI].
    - destruct prog; try discriminate E. rg_inv E.
      eapply Inv_quiet; [apply tokonly_quiet; eapply tok_burn_core_tokonly; exact E|exact HI].
    - destruct prog; try discriminate E. destruct ms as [|callee rest]; [discriminate E|].
      rg_inv E. eapply IH; [exact Hok|exact E|exact HI].
    - destruct prog; try discriminate E. rg_inv E.
      match type of E with (if ?b then _ else _) = Ok _ => destruct b end.
      + rg_inv E.
        eapply withdraw_sol_cpi_inv; [exact E|].
        eapply Inv_quiet; [apply tokonly_quiet; eapply tok_transfer_checked_tokonly; eassumption|exact HI].
      + revert E. destruct (nthk ms 8); intros E; try discriminate E. rg_inv E.
        eapply withdraw_sol_cpi_inv; [exact E|exact HI].
    - destruct prog; injection E as <-; exact HI.
  Qed.

  Lemma exec_ixs_inv t ixs : forall prev W W',
    Forall (fun i => ix_ok (i_data i)) ixs -> exec_ixs t ixs prev W = Ok W' -> Inv W -> Inv W'.
  Proof.
    induction ixs as [|i tl IH]; intros prev W W' Hok H HI; cbn [exec_ixs] in H.
    - injection H as <-. exact HI.
    - inversion Hok as [|? ? Hi Htl]; subst. apply bind_ok in H as (W1 & E & H).
      eapply IH; [exact Htl|exact H|]. eapply exec_data_inv; eassumption.
  Qed.

  (* Step: every transaction whose revenue-distribution instructions carry admissible arguments keeps the invariant *)
  Theorem exec_tx_inv W t W' ok : tx_ok t -> exec_tx W t = (W', ok) -> Inv W -> Inv W'.
  Proof.
    unfold exec_tx. intros Hok H HI. destruct (negb (tx_wf t)); [injection H as <- _; exact HI|].
    destruct (exec_ixs t (tx_ixs t) None W) as [W1|e] eqn:E; [|injection H as <- _; exact HI].
    destruct (rent_ok t W W1); injection H as <- _; [|exact HI].
    apply Inv_purge. eapply exec_ixs_inv; eassumption.
  Qed.

  (* operations; the payer of OCreateAta must not be a typed revenue-distribution account *)
  Theorem exec_op_inv W o :
    honest_op o -> op_args_ok o -> (forall p o_, o = OCreateAta p o_ -> ~ tk (get W p)) -> Inv W -> Inv (fst (exec_op W o)).
  Proof.
    intros Ho Ha Hp HI. destruct o as [t|ts|k lam|k a|k amt|payer o_]; cbn [exec_op].
    - destruct (exec_tx W t) as [W' ok] eqn:E. cbn [fst]. eapply exec_tx_inv; eassumption.
    - cbn [fst]. eapply Inv_quiet; [|exact HI]. apply quiet_ext. reflexivity.
    - cbn [fst]. eapply Inv_quiet; [|exact HI]. apply quiet_put. apply qa_same; [reflexivity|cbn; lia].
    - destruct Ho.
    - destruct (as_token W k) as [t|] eqn:Et; [|exact HI]. destruct (as_mint W KMint) as [m|] eqn:Em; [|exact HI]. cbn [fst].
      apply as_token_ok in Et as (_ & Hto). apply as_mint_ok in Em as (_ & Hmo).
      eapply Inv_quiet; [|exact HI]. apply (quiet_trans _ (put_token W k (t <| t_amount := t_amount t + amt |>))).
      + unfold put_token. apply quiet_put. apply qa_untk; apply not_tk_owner; proj_simpl; rewrite Hto; discriminate.
      + apply quiet_put. apply qa_untk; apply not_tk_owner; proj_simpl; rewrite get_put_token;
          destruct (key_eqb k KMint); proj_simpl; rewrite ?Hto, ?Hmo; discriminate.
    - destruct (_ && _) eqn:Ec; [|exact HI]. cbn [fst]. apply andb_true_iff in Ec as (Ec & _). apply andb_true_iff in Ec as (_ & Eo).
      apply key_eqb_eq in Eo. eapply Inv_quiet; [|exact HI].
      apply (quiet_trans _ (put W payer (get W payer <| lamports := lamports (get W payer) - (rent LEN_TOKEN - lamports (get W (KAta o_ KMint))) |>))).
      + apply quiet_put. apply qa_untk; [exact (Hp _ _ eq_refl)|]. rewrite tk_lamports. exact (Hp _ _ eq_refl).
      + apply quiet_put. apply qa_untk; apply not_tk_owner; [|cbn [owner]; discriminate].
        rewrite Lemmas_RdSpecs.get_put. destruct (key_eqb_spec payer (KAta o_ KMint)) as [Eq|];
          proj_simpl; rewrite ?Eq, Eo; discriminate.
  Qed.

  (* histories: every operation but OForge; wallets pay for ATAs; typed_canonical is threaded along (Lemmas_Canon) *)
  Theorem history_inv ops : forall W,
    Forall honest_op ops -> Forall wallet_pays ops -> Forall op_args_ok ops -> typed_canonical W -> Inv W ->
    Inv (fold_left (fun W o => fst (exec_op W o)) ops W).
  Proof.
    induction ops as [|o tl IH]; intros W Hh Hw Ha HT HI; cbn [fold_left]; [exact HI|].
    inversion Hh as [|? ? Ho Hh']; inversion Hw as [|? ? Hwo Hw']; inversion Ha as [|? ? Hao Ha']; subst.
    apply IH; try assumption.
    - apply exec_op_tc; assumption.
    - apply exec_op_inv; try assumption. intros p o_ ->. destruct Hwo as (n & ->). apply typed_canonical_user. exact HT.
  Qed.
End Lift.

(* ==================================================================================================================
   INDEX (Lemmas_Hist.v; all closed under the global context).  Imports Lemmas_RdGuards, Lemmas_Canon, Lemmas_RdSpecs5
   (the RdSpecs names `get_put`, `next_account_ok`, `rd_zc_*_ok`, `as_token_ok`, ... shadow the RdGuards ones).
   definitions
     typedb d                 d is DConfig / DDist / DJournal;        journalb d   d is DJournal
     tk a                     owner a = KRd /\ typedb (data a) = true   (a typed revenue-distribution state account)
     qa a a'                  (tk a -> hdr a' = hdr a /\ lamports a <= lamports a') /\ (tk a' -> tk a)
     quiet W W'               forall k, qa (get W k) (get W' k)        reflexive (quiet_refl), transitive (quiet_trans)
     tokonly W W'             only Token-owned accounts change, and only their data (=> quiet: tokonly_quiet)
     pays W W'                accounts not owned by System do not lose lamports
     wallet_pays o            OCreateAta p _ -> p = KUser _            (the operation debits p unchecked)
     fresh_dist d e relay     d = dist_default with epoch e, relay fee, and its own cbr / fees / calc-ts / prepaid
   quiet, basic               qa_refl, qa_trans, qa_same, qa_untk, quiet_ext, quiet_put, quiet_pointwise1, quiet_at, quiet_back,
                              not_tk_owner, not_tk_data, not_tk_empty, tk_hdr, wadd64_le
   primitives ("transitive" form  prim W = Ok W' -> quiet W0 W -> [side] -> quiet W0 W')
     credit_q, debit_q (amt <> 0 -> ~ tk target), write_data_q (~ tk target; owner KRd -> new data untyped),
     try_initialize_q, resize_q, sys_transfer_core_quiet/_q, sys_transfer_q, sys_create_account_core_q, create_account_q,
     tok_transfer(_checked)_q, tok_burn_q, create_token_account_q, swap_dequeue_cpi_quiet/_q, sw_dequeue_fills_quiet
     tok_transfer_core_tokonly, tok_transfer(_checked)_tokonly, tok_burn(_core)_tokonly, tok_init_account3_tokonly,
     distribute_loop_tokonly
     create_account_ok_lam    other non-System accounts keep their lamports; the new account holds >= sat_add add (rent len)
     create_token_account_other, create_then_token, sys_transfer_core_pays
   tactics                    q_start, q_step, q_go (mirror Lemmas_Canon's tc_go for `quiet`), q_side, q_read, q_prim
   quiet processors           pp_<name>_quiet (6), pp_process_quiet, sw_initialize_quiet, rd_initialize_contributor_quiet,
                              rd_set_rewards_manager_quiet, rd_configure_contributor_quiet, rd_verify_root_quiet,
                              rd_initialize_deposit_quiet
   effects relative to quiet  rd_initialize_program_eff / rd_initialize_journal_eff
                                 exists W1, quiet W W1, hdr (get W1 K) = (KRd, LEN_CONFIG_ALLOC, DEmpty), rent <= lamports, W' = put W1 K (typed init)
                              rd_initialize_swap_destination_eff     config flags written, then quiet
                              rd_initialize_distribution_eff         config written (same relay), quiet, dist account fresh (KRd, LEN_DIST,
                                                                      DEmpty, >= rent), DDist d [] with fresh_dist d, quiet, prepaid set
                              rd_distribute_rewards_eff              no side conditions: non-Token accounts pointwise (dist: dr_dist,
                                                                      -relay; relayer +relay), Token accounts stay Token accounts
   Section Lift (Inv, rd_ok; hypotheses Inv_quiet, Inv_rd (cx_prog = KRd, rd_ok ix), rd_ok_withdraw, Inv_purge)
     ix_ok / tx_ok / op_args_ok   rd_ok lifted through IxRogueCpi, instructions of a transaction, OTx
     exec_data_inv            ix_ok d -> exec_data prog d ms h sib W = Ok W' -> Inv W -> Inv W'
     exec_ixs_inv, exec_tx_inv (tx_ok t -> exec_tx W t = (W', ok) -> Inv W -> Inv W')
     exec_op_inv              honest_op o -> op_args_ok o -> (o = OCreateAta p _ -> ~ tk (get W p)) -> Inv W -> Inv (fst (exec_op W o))
     history_inv              Forall honest_op, wallet_pays, op_args_ok ops -> typed_canonical W -> Inv W -> Inv (fold_left .. ops W)
   typed_canonical_user       typed_canonical W -> ~ tk (get W (KUser n))
   ================================================================================================================== *)
