(* Typed account contents of the three programs, SPL Token, and the loader's program-data account.
   Padding and storage gaps are not modelled (they are never read or written). Executable definitions only. *)
From DZ Require Import Base Keys Merkle BurnRate Swap_Ring.
From RecordUpdate Require Export RecordUpdate.

(* SolanaValidatorFeeParameters: four ValidatorFee (u16 ≤ 10 000) and fixed_sol_amount (u32) *)
Record fee_params := { fp_base : N; fp_priority : N; fp_inflation : N; fp_jito : N; fp_fixed : N }.
Definition fee_default : fee_params := {| fp_base := 0; fp_priority := 0; fp_inflation := 0; fp_jito := 0; fp_fixed := 0 |}.
Definition fee_eqb (a b : fee_params) : bool :=
  N.eqb (fp_base a) (fp_base b) && N.eqb (fp_priority a) (fp_priority b) && N.eqb (fp_inflation a) (fp_inflation b) &&
  N.eqb (fp_jito a) (fp_jito b) && N.eqb (fp_fixed a) (fp_fixed b).

(* revenue-distribution ProgramConfig.  Bump-seed fields are modelled as "cached (canonical) or not": the processors
   only ever store the canonical bump returned by find_program_address; a zero byte means "not set". *)
Record rd_config := {
  c_paused : bool; c_migrated : bool;
  c_next_epoch : N;                        (* next_completed_dz_epoch *)
  c_has_swap_auth_bump : bool;             (* swap_authority_bump_seed <> 0 *)
  c_has_swap_dest_bump : bool;             (* swap_destination_2z_bump_seed <> 0 *)
  c_has_withdraw_bump : bool;              (* withdraw_sol_authority_bump_seed <> 0 *)
  c_admin : key; c_debt_accountant : key; c_rewards_accountant : key; c_contributor_manager : key;
  c_swap_program : key;                    (* sol_2z_swap_program_id *)
  c_calc_grace_min : N;                    (* calculation_grace_period_minutes (u16) *)
  c_init_grace_min : N;                    (* initialization_grace_period_minutes (u16) *)
  c_min_epochs : N;                        (* minimum_epoch_duration_to_finalize_rewards (u8) *)
  c_burn : params;                         (* community_burn_rate_parameters *)
  c_fees : fee_params;
  c_relay : N;                             (* relay_parameters.distribute_rewards_lamports (u32) *)
  c_last_init_ts : N;                      (* last_initialized_distribution_timestamp (u32) *)
  c_writeoff_activation : N                (* debt_write_off_feature_activation_epoch *)
}.
#[export] Instance eta_rd_config : Settable _ := settable! Build_rd_config
  <c_paused; c_migrated; c_next_epoch; c_has_swap_auth_bump; c_has_swap_dest_bump; c_has_withdraw_bump; c_admin;
   c_debt_accountant; c_rewards_accountant; c_contributor_manager; c_swap_program; c_calc_grace_min; c_init_grace_min;
   c_min_epochs; c_burn; c_fees; c_relay; c_last_init_ts; c_writeoff_activation>.
Definition rd_config_default : rd_config := {|
  c_paused := false; c_migrated := false; c_next_epoch := 0; c_has_swap_auth_bump := false; c_has_swap_dest_bump := false;
  c_has_withdraw_bump := false; c_admin := default_key; c_debt_accountant := default_key;
  c_rewards_accountant := default_key; c_contributor_manager := default_key; c_swap_program := default_key;
  c_calc_grace_min := 0; c_init_grace_min := 0; c_min_epochs := 0; c_burn := br_default; c_fees := fee_default;
  c_relay := 0; c_last_init_ts := 0; c_writeoff_activation := 0 |}.

Record journal := {
  j_total_sol : N;             (* total_sol_balance *)
  j_total_2z : N;              (* total_2z_balance (never written) *)
  j_swap_dest_balance : N;     (* swap_2z_destination_balance *)
  j_swapped_sol : N;           (* swapped_sol_amount *)
  j_next_sweep : N;            (* next_dz_epoch_to_sweep_tokens *)
  j_lifetime_2z : N            (* lifetime_swapped_2z_amount (u128) *)
}.
#[export] Instance eta_journal : Settable _ := settable! Build_journal
  <j_total_sol; j_total_2z; j_swap_dest_balance; j_swapped_sol; j_next_sweep; j_lifetime_2z>.
Definition journal_default : journal :=
  {| j_total_sol := 0; j_total_2z := 0; j_swap_dest_balance := 0; j_swapped_sol := 0; j_next_sweep := 0; j_lifetime_2z := 0 |}.

Record dist := {
  d_epoch : N;
  d_debt_final : bool; d_rewards_final : bool; d_swept : bool; d_writeoff_enabled : bool;
  d_cbr : N;                   (* community_burn_rate *)
  d_fees : fee_params;
  d_debt_root : hash; d_total_validators : N; d_payments_count : N; d_total_debt : N; d_collected_sol : N;
  d_rewards_root : hash; d_total_contributors : N; d_distributed_count : N;
  d_prepaid_2z : N;            (* collected_prepaid_2z_payments *)
  d_swept_2z : N;              (* collected_2z_converted_from_sol *)
  d_uncollectible : N;
  d_debt_start : N; d_debt_end : N;          (* processed_solana_validator_debt_{start,end}_index *)
  d_rew_start : N; d_rew_end : N;            (* processed_rewards_{start,end}_index *)
  d_relay : N;                 (* distribute_rewards_relay_lamports *)
  d_calc_allowed_ts : N;       (* calculation_allowed_timestamp *)
  d_distributed_2z : N; d_burned_2z : N;
  d_wo_start : N; d_wo_end : N;              (* processed_solana_validator_debt_write_off_{start,end}_index *)
  d_writeoff_count : N
}.
#[export] Instance eta_dist : Settable _ := settable! Build_dist
  <d_epoch; d_debt_final; d_rewards_final; d_swept; d_writeoff_enabled; d_cbr; d_fees; d_debt_root; d_total_validators;
   d_payments_count; d_total_debt; d_collected_sol; d_rewards_root; d_total_contributors; d_distributed_count;
   d_prepaid_2z; d_swept_2z; d_uncollectible; d_debt_start; d_debt_end; d_rew_start; d_rew_end; d_relay;
   d_calc_allowed_ts; d_distributed_2z; d_burned_2z; d_wo_start; d_wo_end; d_writeoff_count>.
Definition dist_default : dist := {|
  d_epoch := 0; d_debt_final := false; d_rewards_final := false; d_swept := false; d_writeoff_enabled := false;
  d_cbr := 0; d_fees := fee_default; d_debt_root := null_hash; d_total_validators := 0; d_payments_count := 0;
  d_total_debt := 0; d_collected_sol := 0; d_rewards_root := null_hash; d_total_contributors := 0;
  d_distributed_count := 0; d_prepaid_2z := 0; d_swept_2z := 0; d_uncollectible := 0; d_debt_start := 0;
  d_debt_end := 0; d_rew_start := 0; d_rew_end := 0; d_relay := 0; d_calc_allowed_ts := 0; d_distributed_2z := 0;
  d_burned_2z := 0; d_wo_start := 0; d_wo_end := 0; d_writeoff_count := 0 |}.

Record deposit := { dp_node : key; dp_written_off : N }.
#[export] Instance eta_deposit : Settable _ := settable! Build_deposit <dp_node; dp_written_off>.

(* ContributorRewards; the recipient table is kept as its list of active (non-zero-key) entries in slot order *)
Record contrib := { cr_manager : key; cr_service : key; cr_blocked : bool; cr_recipients : list (key * N) }.
#[export] Instance eta_contrib : Settable _ := settable! Build_contrib <cr_manager; cr_service; cr_blocked; cr_recipients>.

(* passport *)
Record pp_config := {
  pc_paused : bool; pc_request_paused : bool; pc_admin : key; pc_sentinel : key;
  pc_deposit : N; pc_fee : N; pc_backup_limit : N }.
#[export] Instance eta_pp_config : Settable _ := settable! Build_pp_config
  <pc_paused; pc_request_paused; pc_admin; pc_sentinel; pc_deposit; pc_fee; pc_backup_limit>.
Definition pp_config_default : pp_config :=
  {| pc_paused := false; pc_request_paused := false; pc_admin := default_key; pc_sentinel := default_key;
     pc_deposit := 0; pc_fee := 0; pc_backup_limit := 0 |}.
(* AccessMode: the ed25519 signature bytes are opaque (sig : N) *)
Record attestation := { at_validator : key; at_service : key; at_sig : N }.
Inductive access_mode :=
| AMValidator (a : attestation)
| AMValidatorWithBackups (a : attestation) (backups : list key).
Record access_request := { ar_service : key; ar_beneficiary : key; ar_fee : N; ar_mode : access_mode }.

(* SPL Token (only what the programs rely on: initialized accounts without delegate / freeze / native) *)
Record token_acct := { t_mint : key; t_owner : key; t_amount : N }.
#[export] Instance eta_token : Settable _ := settable! Build_token_acct <t_mint; t_owner; t_amount>.
Record mint_acct := { m_supply : N; m_decimals : N }.
#[export] Instance eta_mint : Settable _ := settable! Build_mint_acct <m_supply; m_decimals>.

(* return data as a caller decodes it: exactly three u64 (24 bytes) or anything else (by length) *)
Inductive retdata := RTriple (a b c : N) | RMalformed (len : N).

Inductive adata :=
| DEmpty                                   (* no data / all-zero data of the recorded length *)
| DConfig (c : rd_config)
| DJournal (j : journal)
| DDist (d : dist) (tail : list N)         (* remaining_data: one N < 256 per byte *)
| DDeposit (d : deposit)
| DContrib (c : contrib)
| DPpConfig (c : pp_config)
| DAccessReq (r : access_request)
| DFills (r : ring)
| DToken (t : token_acct)
| DMint (m : mint_acct)
| DProgData (authority : option key)       (* UpgradeableLoaderState::ProgramData *)
| DScript (r : option retdata)             (* harness-only scripted swap program: the reply it will give *)
| DRaw (tag : N).                          (* anything else: look-alikes with a foreign discriminator, garbage *)

(* data lengths (DISCRIMINATOR_LEN + size_of::<T>()); checked against the crates through Generated.v in Lemmas *)
Definition LEN_CONFIG_ALLOC : N := 10240.  (* MAX_PERMITTED_DATA_INCREASE: config and journal are created at this size *)
Definition LEN_DIST : N := 456.
Definition LEN_DEPOSIT : N := 104.
Definition LEN_CONTRIB : N := 608.
Definition LEN_PP_CONFIG : N := 352.
Definition LEN_ACCESS_REQ : N := 4176.
Definition LEN_FILLS : N := 144.
Definition LEN_TOKEN : N := 165.
Definition LEN_MINT : N := 82.
Definition MAX_REALLOC : N := 10240.
Definition ACCESS_MODE_MAX : N := 4096.    (* REQUEST_ACCESS_MAX_DATA_SIZE *)

Record acct := { lamports : N; owner : key; alen : N; data : adata }.
#[export] Instance eta_acct : Settable _ := settable! Build_acct <lamports; owner; alen; data>.
Definition empty_acct : acct := {| lamports := 0; owner := KSystem; alen := 0; data := DEmpty |}.

(* Rent::default().minimum_balance(len) = (128 + len) * 3480 * 2 *)
Definition rent (len : N) : N := (128 + len) * 6960.
