From DZ Require Import Base Keys Merkle.

Lemma leafdata_eqb_eq a b : leafdata_eqb a b = true -> a = b.
Proof. destruct a, b; cbn; try discriminate; intros H;
  repeat (apply andb_true_iff in H; destruct H as [H ?]);
  repeat match goal with H : N.eqb _ _ = true |- _ => apply N.eqb_eq in H | H : key_eqb _ _ = true |- _ => apply key_eqb_eq in H end;
  subst; reflexivity. Qed.
Lemma leafdata_eqb_refl a : leafdata_eqb a a = true.
Proof. destruct a; cbn; rewrite ?key_eqb_refl, ?N.eqb_refl; reflexivity. Qed.
Lemma hash_eqb_eq a : forall b, hash_eqb a b = true -> a = b.
Proof. induction a; intros b' H; destruct b'; cbn in H; try discriminate H;
  repeat (apply andb_true_iff in H; destruct H as [H ?]);
  repeat match goal with
  | H : N.eqb _ _ = true |- _ => apply N.eqb_eq in H
  | H : leafdata_eqb _ _ = true |- _ => apply leafdata_eqb_eq in H
  | IH : forall b0, hash_eqb ?a b0 = true -> ?a = b0, H : hash_eqb ?a _ = true |- _ => apply IH in H
  end; subst; try reflexivity.
  destruct idx, idx0; cbn in H; try discriminate; [apply N.eqb_eq in H; subst|]; reflexivity. Qed.
Lemma hash_eqb_refl a : hash_eqb a a = true.
Proof. induction a; cbn; rewrite ?N.eqb_refl, ?leafdata_eqb_refl, ?IHa, ?IHa1, ?IHa2; try reflexivity.
  destruct idx; cbn; rewrite ?N.eqb_refl; reflexivity. Qed.
Lemma hash_eqb_spec a b : reflect (a = b) (hash_eqb a b).
Proof. destruct (hash_eqb a b) eqn:E; constructor; [apply hash_eqb_eq; assumption|].
  intros ->. rewrite hash_eqb_refl in E. discriminate. Qed.

(* h is reachable from t through HNode children only *)
Inductive below : hash -> hash -> Prop :=
| below_refl h : below h h
| below_l h l r : below h l -> below h (HNode l r)
| below_r h l r : below h r -> below h (HNode l r).
Definition is_leaf (h : hash) := match h with HLeaf _ _ => True | _ => False end.

Lemma below_trans a b c : below a b -> below b c -> below a c.
Proof. intros Hab Hbc. induction Hbc; auto using below_l, below_r. Qed.

Lemma fold_below p : forall h, below h (fold_sibs p h).
Proof.
  induction p as [|[s sd] p IH]; intros h; cbn.
  - constructor.
  - destruct sd.
    + eapply below_trans; [|apply (IH (HNode s h))]. apply below_r; constructor.
    + eapply below_trans; [|apply (IH (HNode h s))]. apply below_l; constructor.
Qed.

Lemma below_level_up_from : forall l pos h x,
  is_leaf h -> In x (level_up_from pos l) -> below h x -> exists y, In y l /\ below h y.
Proof.
  fix IH 1. intros l pos h x Hl Hin Hb.
  destruct l as [|a [|b tl]]; cbn in Hin.
  - contradiction.
  - destruct Hin as [<-|[]]. inversion Hb; subst.
    + destruct Hl.
    + exists a; split; [left; auto|auto].
    + match goal with H : below _ (HDummy _ _) |- _ => inversion H; subst end. destruct Hl.
  - destruct Hin as [<-|Hin].
    + inversion Hb; subst.
      * destruct Hl.
      * exists a; split; [left; auto|auto].
      * exists b; split; [right; left; auto|auto].
    + destruct (IH tl (pos+2) h x Hl Hin Hb) as [y [Hy Hby]].
      exists y; split; [right; right; auto|auto].
Qed.

Lemma root_fuel_below : forall fuel l r h,
  is_leaf h -> root_fuel fuel l = Some r -> below h r -> exists y, In y l /\ below h y.
Proof.
  induction fuel as [|f IH]; intros l r h Hl Hr Hb.
  - destruct l as [|a [|b tl]]; cbn in Hr; try discriminate.
    inversion Hr; subst. exists r; split; [left; auto|auto].
  - destruct l as [|a [|b tl]]; try discriminate.
    + cbn in Hr. inversion Hr; subst. exists r; split; [left; auto|auto].
    + cbn [root_fuel] in Hr.
      destruct (IH _ _ _ Hl Hr Hb) as [x [Hx Hbx]].
      eapply below_level_up_from; eauto.
Qed.

Lemma in_indexed_from pre : forall L i y, In y (indexed_from pre i L) ->
  exists k d, y = HLeaf (Some (i + N.of_nat k)) (HData pre d) /\ nth_error L k = Some d.
Proof.
  induction L as [|d tl IH]; intros i y Hin; cbn in Hin; [contradiction|].
  destruct Hin as [<-|Hin].
  - exists 0%nat, d. split; [f_equal; f_equal; lia | reflexivity].
  - destruct (IH _ _ Hin) as [k [d' [-> Hn]]].
    exists (S k), d'. split; [f_equal; f_equal; lia | exact Hn].
Qed.

Lemma below_leaf_eq h y : is_leaf h -> is_leaf y -> below h y -> h = y.
Proof. intros Hh Hy Hb. inversion Hb; subst; auto; destruct Hy. Qed.

(* Soundness: a proof that folds (with ANY sibling list and ANY claimed index, prefix and leaf data) to the root of the
   indexed tree over L proves that L's entry at that index is exactly that data, for trees of every size. *)
Theorem merkle_sound : forall pre L sibs i d r,
  root_of (indexed_leaves pre L) = Some r ->
  fold_sibs sibs (HLeaf (Some i) (HData pre d)) = r ->
  nth_error L (N.to_nat i) = Some d.
Proof.
  intros pre L p i d r Hr Hf.
  pose proof (fold_below p (HLeaf (Some i) (HData pre d))) as Hb. rewrite Hf in Hb.
  unfold root_of in Hr.
  destruct (root_fuel_below _ _ _ (HLeaf (Some i) (HData pre d)) I Hr Hb) as [y [Hy Hby]].
  destruct (in_indexed_from _ _ _ _ Hy) as [k [d' [-> Hn]]].
  apply below_leaf_eq in Hby; [|exact I|exact I].
  inversion Hby; subst. rewrite N.add_0_l, Nnat.Nat2N.id. exact Hn.
Qed.

(* cross-tree / cross-kind / unindexed / re-prefixed variants, all from the same argument *)
Theorem merkle_sound_any_leaf : forall pre L sibs idx pre' d r,
  root_of (indexed_leaves pre L) = Some r ->
  fold_sibs sibs (HLeaf idx (HData pre' d)) = r ->
  exists i, idx = Some i /\ pre' = pre /\ nth_error L (N.to_nat i) = Some d.
Proof.
  intros pre L p idx pre' d r Hr Hf.
  pose proof (fold_below p (HLeaf idx (HData pre' d))) as Hb. rewrite Hf in Hb.
  unfold root_of in Hr.
  destruct (root_fuel_below _ _ _ (HLeaf idx (HData pre' d)) I Hr Hb) as [y [Hy Hby]].
  destruct (in_indexed_from _ _ _ _ Hy) as [k [d' [-> Hn]]].
  apply below_leaf_eq in Hby; [|exact I|exact I].
  inversion Hby; subst. eexists; split; [reflexivity|split; [reflexivity|]]. rewrite N.add_0_l, Nnat.Nat2N.id. exact Hn.
Qed.

Theorem tree_root_sound : forall pre L p d,
  L <> [] -> root_from_leaf p pre d = tree_root pre L ->
  exists i, leaf_index p = Some i /\ nth_error L (N.to_nat i) = Some d.
Proof.
  intros pre L p d HL H. unfold tree_root in H.
  destruct (root_of (indexed_leaves pre L)) as [r|] eqn:Hr.
  - destruct (merkle_sound_any_leaf pre L (siblings p) (leaf_index p) pre d r Hr H) as (i & Hi & _ & Hn). eauto.
  - exfalso. unfold root_of in Hr.
    assert (forall fuel l, (length l <= fuel)%nat -> l <> [] -> root_fuel fuel l <> None) as Hne.
    { clear. induction fuel as [|f IH]; intros l Hlen Hl.
      - destruct l; [congruence|cbn in Hlen; lia].
      - destruct l as [|a [|b tl]]; [congruence|cbn; congruence|]. cbn [root_fuel]. apply IH.
        + assert (forall l pos, (2 * length (level_up_from pos l) <= length l + 1)%nat) as Hlu.
          { clear. fix IH 1. intros l pos. destruct l as [|a [|b tl]]; cbn [level_up_from length]; [lia|lia|].
            specialize (IH tl (pos + 2)). lia. }
          specialize (Hlu (a :: b :: tl) 0). unfold level_up. cbn [length] in *. lia.
        + unfold level_up. cbn. discriminate. }
    apply (Hne (length (indexed_leaves pre L)) (indexed_leaves pre L)); [lia| |exact Hr].
    destruct L; [congruence|cbn; discriminate].
Qed.

(* the null hash is never the root of a non-empty tree and never a fold result of a leaf *)
Lemma fold_sibs_not_opaque sibs h n : (forall m, h <> HOpaque m) -> fold_sibs sibs h <> HOpaque n.
Proof. revert h. induction sibs as [|[s sd] tl IH]; intros h Hh; cbn; [apply Hh|].
  destruct sd; apply IH; intros m; discriminate. Qed.
Lemma root_from_leaf_not_null p pre d : root_from_leaf p pre d <> null_hash.
Proof. unfold root_from_leaf, null_hash. apply fold_sibs_not_opaque. intros m; discriminate. Qed.

Example merkle_nonvacuous :
  let L := [LDebt (KUser 1) 5; LDebt (KUser 2) 7; LDebt (KUser 3) 0] in
  root_from_leaf (proof_for PRE_DEBT L 2) PRE_DEBT (LDebt (KUser 3) 0) = tree_root PRE_DEBT L /\
  root_from_leaf (proof_for PRE_DEBT L 1) PRE_DEBT (LDebt (KUser 2) 7) = tree_root PRE_DEBT L /\
  root_from_leaf (proof_for PRE_DEBT L 0) PRE_DEBT (LDebt (KUser 1) 5) = tree_root PRE_DEBT L.
Proof. vm_compute. repeat split. Qed.
