(* C20 — the mock swap program's fills registry is a lossless FIFO of capacity 8.  Property theorems only. *)
From DZ Require Import Base Generated Swap_Ring Lemmas_C20.

(* For every operation sequence (any length, any amounts, any interleaving) the registry as coded returns exactly
   what a list queue of capacity 8 returns: a buy is refused iff 8 fills are outstanding, a dequeue succeeds iff the
   oldest outstanding fill has the requested SOL amount and then returns that fill's 2Z amount. *)
Theorem C20_ring_refines_queue : forall ops, run ring_step ring_init ops = run queue_step [] ops.
Proof. exact ring_refines_queue_all. Qed.
Check C20_ring_refines_queue : forall ops, run ring_step ring_init ops = run queue_step [] ops.
Print Assumptions C20_ring_refines_queue.

Theorem C20_buy_refused_iff_full : forall q sol z, snd (queue_step q (SBuy sol z)) = RFail <-> length q = 8%nat.
Proof. exact queue_buy_refused_iff_full. Qed.
Check C20_buy_refused_iff_full : forall q sol z, snd (queue_step q (SBuy sol z)) = RFail <-> length q = 8%nat.
Print Assumptions C20_buy_refused_iff_full.

Theorem C20_buy_appends : forall q sol z, length q <> 8%nat ->
  queue_step q (SBuy sol z) = (q ++ [{| sol_in := sol; z_out := z |}], ROk).
Proof. exact queue_buy_appends. Qed.
Check C20_buy_appends : forall q sol z, length q <> 8%nat ->
  queue_step q (SBuy sol z) = (q ++ [{| sol_in := sol; z_out := z |}], ROk).
Print Assumptions C20_buy_appends.

Theorem C20_dequeue_oldest : forall q sol, queue_step q (SDeq sol) =
  match q with
  | f :: tl => if N.eqb (sol_in f) sol then (tl, ROkRet sol (z_out f) 1%N) else (q, RFail)
  | [] => (q, RFail) end.
Proof. exact queue_deq_oldest. Qed.
Check C20_dequeue_oldest : forall q sol, queue_step q (SDeq sol) =
  match q with
  | f :: tl => if N.eqb (sol_in f) sol then (tl, ROkRet sol (z_out f) 1%N) else (q, RFail)
  | [] => (q, RFail) end.
Print Assumptions C20_dequeue_oldest.

(* the executable monitor used on implementation traces accepts every trace of the model *)
Theorem C20_monitor_accepts_model : forall ops, mon_C20 (zip_trace ops (run ring_step ring_init ops)) = None.
Proof. exact mon_C20_accepts_model. Qed.
Check C20_monitor_accepts_model : forall ops, mon_C20 (zip_trace ops (run ring_step ring_init ops)) = None.
Print Assumptions C20_monitor_accepts_model.

(* historical record: the registry as pinned (slot = fills_count) is refuted by this history *)
Theorem C20_pinned_refuted :
  run ring_step_pinned ring_init c20_witness <> run queue_step [] c20_witness /\
  run ring_step_pinned ring_init c20_witness = [ROk; ROk; ROkRet 1 10 1; ROk; RFail; ROkRet 3 30 1]%N /\
  run queue_step [] c20_witness = [ROk; ROk; ROkRet 1 10 1; ROk; ROkRet 2 20 1; ROkRet 3 30 1]%N.
Proof. exact ring_pinned_refuted. Qed.
Print Assumptions C20_pinned_refuted.

(* the capacity and registry layout the model assumes are the crate's current ones *)
Theorem C20_capacity_is_crate_constant : CAP = N.to_nat G_FILLS_CAPACITY /\ G_FILLS_REGISTRY_SIZE = (8 + 16 * G_FILLS_CAPACITY)%N.
Proof. exact cap_is_generated. Qed.
Check C20_capacity_is_crate_constant : CAP = N.to_nat G_FILLS_CAPACITY /\ G_FILLS_REGISTRY_SIZE = (8 + 16 * G_FILLS_CAPACITY)%N.
Print Assumptions C20_capacity_is_crate_constant.
