(* Invariants over arbitrary histories, part 4: C05 — "distributions are swept strictly in epoch order and at most once
   each": the journal's sweep pointer never decreases, and every swept distribution lies strictly below it.
   Index at the end of the file. *)
From DZ Require Import Base Keys Merkle BurnRate Shares Swap_Ring State World SwapDeq RD Passport Swap Exec
  Lemmas_Merkle Lemmas_RdGuards Lemmas_Canon Lemmas_RdSpecs5 Lemmas_Hist.

(* ------------------------------------------------------------------------------------------------------------------ *)
(* 1. the invariant                                                                                                   *)

(* the clause of the property, for ANY distribution account and ANY journal account (no canonicity assumed).  The
   program advances the pointer with a saturating add, so "epoch < pointer" is stated as "epoch + 1 <= pointer" in the
   same saturating arithmetic; the two coincide unless the pointer sits at u64::MAX (see swept_below_pointer). *)
Definition Inv_C05 (W : world) : Prop :=
  forall dk jk d t j, owner (get W dk) = KRd -> data (get W dk) = DDist d t -> owner (get W jk) = KRd -> data (get W jk) = DJournal j ->
    d_swept d = true -> sat_add two64 (d_epoch d) 1 <= j_next_sweep j.

(* what is inductive, for a window n = (lo, hi): swept distributions lie below lo, every journal's pointer is in
   [lo, hi] (and a u64), journals live at KRdJournal only and are never drained (the C06 bound, so `purge` cannot remove
   the journal), and once something was swept (lo > 0) the journal exists.  Every instruction but sweep keeps the window;
   sweep moves it to (epoch + 1, hi + 1).  With lo = hi = the current pointer this says that the pointer changes only in
   a sweep and then by exactly one. *)
Definition good05 (n : N * N) (k : key) (a : acct) : Prop :=
  (owner a = KRd ->
   match data a with
   | DDist d _ => d_swept d = true -> sat_add two64 (d_epoch d) 1 <= fst n
   | DJournal j => k = KRdJournal /\ (fst n <= j_next_sweep j /\ j_next_sweep j <= snd n) /\ j_next_sweep j < two64 /\
                   rent (alen a) + j_total_sol j <= lamports a
   | _ => True
   end) /\
  (k = KRdJournal -> 0 < fst n -> owner a = KRd /\ exists j, data a = DJournal j).
Definition I05 (n : N * N) (W : world) : Prop := forall k, good05 n k (get W k).
Definition Inv05 (W : world) : Prop := exists n, I05 n W.
(* the same with a lower bound on the window: used to read off the monotonicity of the pointer *)
Definition Inv05_from (n0 : N) (W : world) : Prop := exists n, n0 <= fst n /\ I05 n W.

Theorem Inv05_C05 W : Inv05 W -> Inv_C05 W.
Proof.
  intros (n & HI) dk jk d t j Hod Hdd Hoj Hdj Hs.
  destruct (HI dk) as (Gd & _). specialize (Gd Hod). rewrite Hdd in Gd. specialize (Gd Hs).
  destruct (HI jk) as (Gj & _). specialize (Gj Hoj). rewrite Hdj in Gj. destruct Gj as (_ & (Gj & _) & _).
  eapply N.le_trans; eassumption.
Qed.
(* strict form, away from the saturation point *)
Theorem swept_below_pointer W dk jk d t j :
  Inv_C05 W -> owner (get W dk) = KRd -> data (get W dk) = DDist d t -> owner (get W jk) = KRd -> data (get W jk) = DJournal j ->
  d_swept d = true -> j_next_sweep j < u64_max -> d_epoch d < j_next_sweep j.
Proof.
  intros H Hod Hdd Hoj Hdj Hs Hlt. specialize (H dk jk d t j Hod Hdd Hoj Hdj Hs).
  apply sat_add_le_plain in H; [lia|exact Hlt].
Qed.
(* there is one journal, at the derived address *)
Theorem Inv05_journal_key W k j : Inv05 W -> owner (get W k) = KRd -> data (get W k) = DJournal j -> k = KRdJournal.
Proof. intros (n & HI) Ho Hd. destruct (HI k) as (G & _). specialize (G Ho). rewrite Hd in G. tauto. Qed.

(* ------------------------------------------------------------------------------------------------------------------ *)
(* 2. generic preservation                                                                                            *)

Definition distjb (d : adata) : bool := match d with DDist _ _ | DJournal _ => true | _ => false end.

Lemma rent_pos len : 0 < rent len.
Proof. unfold rent. lia. Qed.

Lemma good05_qa n k a a' : qa a a' -> good05 n k a -> good05 n k a'.
Proof.
  intros [H1 H2] [G1 G2]. split.
  - intros Ho'. destruct (distjb (data a')) eqn:Ej; [|destruct (data a'); try exact I; discriminate Ej].
    assert (Et : typedb (data a') = true) by (destruct (data a'); try discriminate Ej; reflexivity).
    destruct (H2 (conj Ho' Et)) as [Ho Ht]. destruct (H1 (conj Ho Ht)) as [E L].
    unfold hdr in E. injection E as _ Ea Ed. specialize (G1 Ho). rewrite Ed, Ea. destruct (data a); try exact I; try exact G1.
    destruct G1 as (A & (B1 & B2) & C & D). repeat split; try assumption. lia.
  - intros Hk Hn. destruct (G2 Hk Hn) as (Ho & j & Hd).
    assert (Ht : typedb (data a) = true) by (rewrite Hd; reflexivity).
    destruct (H1 (conj Ho Ht)) as [E _]. unfold hdr in E. injection E as Eo _ Ed.
    split; [congruence|]. exists j. congruence.
Qed.
Lemma I05_quiet n W W' : quiet W W' -> I05 n W -> I05 n W'.
Proof. intros HQ HI k. eapply good05_qa; [apply HQ|apply HI]. Qed.
Lemma I05_put n W k a : I05 n W -> good05 n k a -> I05 n (put W k a).
Proof. intros HI G k'. rewrite Lemmas_RdSpecs.get_put. destruct (key_eqb_spec k k') as [<-|]; [exact G|apply HI]. Qed.
Lemma I05_purge n W : I05 n W -> I05 n (purge W).
Proof.
  intros HI k. rewrite get_purge. destruct (N.eqb_spec (lamports (get W k)) 0) as [Ez|]; [|apply HI]. split.
  - intros Ho. discriminate Ho.
  - intros Hk Hn. exfalso. destruct (HI k) as (G1 & G2). destruct (G2 Hk Hn) as (Ho & j & Hd).
    specialize (G1 Ho). rewrite Hd in G1. pose proof (rent_pos (alen (get W k))). lia.
Qed.
Lemma I05_pointwise n (W' : world) (F : key -> acct) : (forall k, get W' k = F k) -> (forall k, good05 n k (F k)) -> I05 n W'.
Proof. intros Hg HF k. rewrite Hg. apply HF. Qed.
Ltac pointwise05 Hg := eapply I05_pointwise; [exact Hg|]; cbv beta.

(* lamports may rise on any account and fall on accounts that are not journals *)
Lemma good05_lam n k a m : good05 n k a -> (owner a = KRd -> journalb (data a) = true -> lamports a <= m) ->
  good05 n k (a <| lamports := m |>).
Proof.
  intros [G1 G2] H. split; [|exact G2]. intros Ho. cbn in Ho. specialize (G1 Ho).
  change (data (a <| lamports := m |>)) with (data a). destruct (data a) eqn:Hd; try exact I; try exact G1.
  destruct G1 as (A & (B1 & B2) & C & D). repeat split; try assumption. cbn. specialize (H Ho eq_refl). lia.
Qed.
Lemma good05_alen n k a m : good05 n k a -> journalb (data a) = false -> good05 n k (a <| alen := m |>).
Proof.
  intros [G1 G2] H. split; [|exact G2]. intros Ho. cbn in Ho. specialize (G1 Ho).
  change (data (a <| alen := m |>)) with (data a). destruct (data a); try exact I; try exact G1. discriminate H.
Qed.
(* new data that is neither a distribution nor a journal, over data that is not a journal *)
Lemma good05_set_plain n k a d : good05 n k a -> journalb (data a) = false -> distjb d = false -> good05 n k (a <| data := d |>).
Proof.
  intros [G1 G2] Hj Hd. split.
  - intros _. cbn. destruct d; try exact I; discriminate Hd.
  - intros Hk Hn. destruct (G2 Hk Hn) as (_ & j & E). rewrite E in Hj. discriminate Hj.
Qed.
(* a distribution written over data that is not a journal: fine if it is unswept or replaces a distribution of the same
   epoch that was swept already *)
Lemma good05_set_dist n k a d' t' :
  good05 n k a -> journalb (data a) = false ->
  (d_swept d' = true -> owner a = KRd -> exists d t, data a = DDist d t /\ d_swept d = true /\ d_epoch d' = d_epoch d) ->
  good05 n k (a <| data := DDist d' t' |>).
Proof.
  intros [G1 G2] Hj Hs. split.
  - intros Ho. cbn in Ho |- *. intros Hsw. destruct (Hs Hsw Ho) as (d & t & Hd & Hsd & He).
    specialize (G1 Ho). rewrite Hd in G1. rewrite He. auto.
  - intros Hk Hn. destruct (G2 Hk Hn) as (_ & j & E). rewrite E in Hj. discriminate Hj.
Qed.
Definition same05 (d d' : dist) : Prop := d_swept d' = d_swept d /\ d_epoch d' = d_epoch d.
Lemma good05_dist_same n W k d t d' t' : I05 n W -> data (get W k) = DDist d t -> same05 d d' ->
  good05 n k (get W k <| data := DDist d' t' |>).
Proof.
  intros HI Hd (S1 & S2). apply good05_set_dist; [apply HI|rewrite Hd; reflexivity|].
  intros Hs _. exists d, t. rewrite <- S1. auto.
Qed.
Ltac same05_tac := unfold same05; split; reflexivity.
(* a journal rewritten with the same pointer and tracked balance *)
Lemma good05_journal_same n W k j j' : I05 n W -> owner (get W k) = KRd -> data (get W k) = DJournal j ->
  j_next_sweep j' = j_next_sweep j -> j_total_sol j' = j_total_sol j -> good05 n k (get W k <| data := DJournal j' |>).
Proof.
  intros HI Ho Hd E1 E2. destruct (HI k) as (G1 & G2). specialize (G1 Ho). rewrite Hd in G1. split.
  - intros _. cbn. rewrite E1, E2. exact G1.
  - intros _ _. split; [exact Ho|]. eexists. reflexivity.
Qed.
Lemma grow_other_05 n W k payer amt : I05 n W -> owner (get W payer) = KSystem \/ amt = 0 ->
  good05 n k ((get W k) <| lamports := lamports (get W k) - (if key_eqb payer k then amt else 0) + 0 |>).
Proof.
  intros HI Hs. apply good05_lam; [apply HI|]. intros Ho _.
  destruct (key_eqb_spec payer k) as [->|]; [destruct Hs as [Hs| ->]; [congruence|lia]|lia].
Qed.
(* raising the threshold: fine on every account but the journal *)
Lemma good05_mono n n' k a : fst n <= fst n' -> k <> KRdJournal -> good05 n k a -> good05 n' k a.
Proof.
  intros Hle Hk [G1 G2]. split; [|intros E; contradiction]. intros Ho. specialize (G1 Ho).
  destruct (data a); try exact I.
  - destruct G1 as (E & _). contradiction.
  - intros Hs. specialize (G1 Hs). lia.
Qed.
Lemma sat_add_lt a : sat_add two64 a 1 < two64.
Proof. unfold sat_add, two64. destruct (N.ltb_spec (a + 1) 18446744073709551616); lia. Qed.
Lemma sat_add_mono a b : a <= b -> sat_add two64 a 1 <= sat_add two64 b 1.
Proof. unfold sat_add, two64. destruct (N.ltb_spec (a + 1) 18446744073709551616), (N.ltb_spec (b + 1) 18446744073709551616); lia. Qed.
Lemma sat_add_ge a : a < two64 -> a <= sat_add two64 a 1.
Proof. unfold sat_add, two64. destruct (N.ltb_spec (a + 1) 18446744073709551616); lia. Qed.

(* ------------------------------------------------------------------------------------------------------------------ *)
(* 3. the processors that write typed data: all keep the threshold, except sweep which raises it                      *)

Ltac plain05 HI :=
  first [ apply good05_set_plain; [apply HI| |reflexivity];
          match goal with Hd : data (get ?W ?k) = _ |- journalb (data (get ?W ?k)) = false => rewrite Hd; reflexivity end ].

Lemma hdr_empty_nj a o l : hdr a = (o, l, DEmpty) -> journalb (data a) = false.
Proof. unfold hdr. intros H. injection H as _ _ ->. reflexivity. Qed.

Lemma rd_initialize_program_05 n cx W W' : rd_initialize_program cx W = Ok W' -> I05 n W -> I05 n W'.
Proof.
  intros H HI. apply rd_initialize_program_eff in H as (W1 & Q & Hh & _ & ->). pose proof (I05_quiet _ _ _ Q HI) as I1.
  apply I05_put; [exact I1|]. apply good05_set_plain; [apply I1|eapply hdr_empty_nj; exact Hh|reflexivity].
Qed.
Lemma rd_set_admin_05 n cx W k W' : rd_set_admin cx W k = Ok W' -> I05 n W -> I05 n W'.
Proof.
  intros H HI. apply rd_set_admin_guards in H as (m0 & m1 & m2 & rest & a & c & _ & _ & _ & _ & _ & _ & (Ho & Hd) & ->).
  apply I05_put; [exact HI|plain05 HI].
Qed.
Lemma rd_migrate_05 n cx W W' : rd_migrate cx W = Ok W' -> I05 n W -> I05 n W'.
Proof.
  intros H HI. apply rd_migrate_guards in H as (m0 & m1 & m2 & rest & a & c & _ & _ & _ & _ & _ & _ & (Ho & Hd) & ->).
  apply I05_put; [exact HI|plain05 HI].
Qed.
Lemma rd_configure_program_05 n cx W s W' : rd_configure_program cx W s = Ok W' -> I05 n W -> I05 n W'.
Proof.
  intros H HI. apply rd_configure_program_guards in H as (m0 & m1 & rest & c & c' & _ & _ & (Ho & Hd) & _ & _ & _ & ->).
  apply I05_put; [exact HI|plain05 HI].
Qed.
Lemma rd_initialize_swap_destination_05 n cx W W' : rd_initialize_swap_destination cx W = Ok W' -> I05 n W -> I05 n W'.
Proof.
  intros H HI. apply rd_initialize_swap_destination_eff in H as (ck & c & Ho & Hd & Q).
  eapply I05_quiet; [exact Q|]. apply I05_put; [exact HI|plain05 HI].
Qed.

(* the journal is created with pointer 0: possible only while nothing was swept (otherwise the journal exists already) *)
Lemma rd_initialize_journal_05 n cx W W' : rd_initialize_journal cx W = Ok W' -> I05 n W -> I05 n W'.
Proof.
  intros H HI. apply rd_initialize_journal_eff in H as (W1 & Q & Hh & Hl & ->). pose proof (I05_quiet _ _ _ Q HI) as I1.
  unfold hdr in Hh. injection Hh as Ho Ha Hd.
  assert (Hn : fst n = 0).
  { destruct (N.eq_dec (fst n) 0) as [E|E]; [exact E|]. destruct (I1 KRdJournal) as (_ & G2).
    destruct (G2 eq_refl ltac:(lia)) as (_ & j & Hj). congruence. }
  apply I05_put; [exact I1|]. split.
  - intros _. cbn [data RecordSet.set]. change (data (_ <| data := DJournal journal_default |>)) with (DJournal journal_default).
    cbv beta iota. cbn [alen lamports RecordSet.set j_next_sweep j_total_sol journal_default]. proj_simpl. rewrite Ha.
    split; [reflexivity|]. split; [lia|]. split; [reflexivity|lia].
  - intros _ Hlt. lia.
Qed.

Lemma rd_configure_debt_05 n cx W nv debt root W' : rd_configure_debt cx W nv debt root = Ok W' -> I05 n W -> I05 n W'.
Proof.
  intros H HI. apply rd_configure_debt_guards in H as (m0 & m1 & m2 & rest & c & d & tail & _ & _ & _ & _ & _ & _ & (Ho & Hd) & _ & _ & ->).
  apply I05_put; [exact HI|]. eapply good05_dist_same; eauto. same05_tac.
Qed.
Lemma rd_configure_rewards_05 n cx W nc root W' : rd_configure_rewards cx W nc root = Ok W' -> I05 n W -> I05 n W'.
Proof.
  intros H HI. apply rd_configure_rewards_guards in H as (m0 & m1 & m2 & rest & c & d & tail & _ & _ & _ & _ & _ & _ & (Ho & Hd) & _ & _ & ->).
  apply I05_put; [exact HI|]. eapply good05_dist_same; eauto. same05_tac.
Qed.

Lemma rd_initialize_distribution_05 n cx W W' : rd_initialize_distribution cx W = Ok W' -> I05 n W -> I05 n W'.
Proof.
  intros H HI. apply rd_initialize_distribution_eff in H as (ck & c & c' & W2 & W4 & d & Ho & Hd & Hrel & Q1 & Hh & Hl & Hfr & Q4 & Hg).
  set (dk := KRdDist (c_next_epoch c)) in *.
  assert (I2 : I05 n W2) by (eapply I05_quiet; [exact Q1|]; apply I05_put; [exact HI|plain05 HI]).
  assert (Hsw : d_swept d = false) by (rewrite Hfr; reflexivity).
  assert (I4 : I05 n W4).
  { eapply I05_quiet; [exact Q4|]. apply I05_put; [exact I2|].
    apply good05_set_dist; [apply I2|eapply hdr_empty_nj; exact Hh|]. cbn. rewrite Hsw. discriminate. }
  pointwise05 Hg. intros k. destruct (key_eqb_spec dk k) as [<-|]; [|apply I4].
  destruct (quiet_at _ _ dk Q4) as (_ & _ & B & _).
  { rewrite Lemmas_RdSpecs.get_put_same. unfold hdr in Hh. injection Hh as Ho2 _ _. exact Ho2. }
  { rewrite Lemmas_RdSpecs.get_put_same. reflexivity. }
  rewrite Lemmas_RdSpecs.get_put_same in B. cbn [data RecordSet.set] in B.
  eapply good05_dist_same; [exact I4|exact B|]. same05_tac.
Qed.

Lemma grown_05 n W dk d tail d' extra L : I05 n W -> data (get W dk) = DDist d tail -> same05 d d' ->
  good05 n dk ((grown (get W dk) d' tail extra) <| lamports := L |>).
Proof.
  intros HI Hd S. unfold grown.
  assert (G : good05 n dk ((get W dk) <| data := DDist d' (tail ++ zeros extra) |>)) by (eapply good05_dist_same; eauto).
  destruct G as (G1 & G2). split; [|exact G2]. exact G1.
Qed.

Lemma rd_finalize_debt_05 n cx W W' : rd_finalize_debt cx W = Ok W' -> I05 n W -> I05 n W'.
Proof.
  intros H HI. apply rd_finalize_debt_spec in H as (c & dk & d & tail & F). pose proof (fd_dist_data _ _ _ _ _ _ _ F) as Hd.
  destruct (N.eq_dec (d_total_debt d - d_uncollectible d) 0) as [Ez|Enz].
  - pointwise05 (fd_zero _ _ _ _ _ _ _ F Ez). intros k. destruct (key_eqb_spec dk k) as [<-|]; [|apply HI].
    eapply good05_dist_same; eauto. same05_tac.
  - destruct (fd_nonzero _ _ _ _ _ _ _ F Enz) as (payer & amt & ms & G).
    pointwise05 (gf_effect _ _ _ _ _ _ _ _ _ _ _ G). intros k. destruct (key_eqb_spec dk k) as [<-|Hne].
    + eapply grown_05; eauto. same05_tac.
    + apply grow_other_05; [exact HI|]. exact (gf_payer_system _ _ _ _ _ _ _ _ _ _ _ G).
Qed.
Lemma rd_finalize_rewards_05 n cx W W' : rd_finalize_rewards cx W = Ok W' -> I05 n W -> I05 n W'.
Proof.
  intros H HI. apply rd_finalize_rewards_spec in H as (c & dk & d & tail & payer & amt & F).
  pose proof (fr_dist_data _ _ _ _ _ _ _ _ _ F) as Hd. destruct (finalize_rewards_grow _ _ _ _ _ _ _ _ _ F) as (ms & G).
  pointwise05 (gf_effect _ _ _ _ _ _ _ _ _ _ _ G). intros k. destruct (key_eqb_spec dk k) as [<-|Hne].
  - eapply grown_05; eauto. same05_tac.
  - apply grow_other_05; [exact HI|]. exact (gf_payer_system _ _ _ _ _ _ _ _ _ _ _ G).
Qed.
Lemma rd_enable_write_off_05 n cx W W' : rd_enable_write_off cx W = Ok W' -> I05 n W -> I05 n W'.
Proof.
  intros H HI. apply rd_enable_write_off_spec in H as (c & dk & d & tail & payer & amt & F).
  pose proof (ew_dist_data _ _ _ _ _ _ _ _ _ F) as Hd.
  pointwise05 (ew_effect _ _ _ _ _ _ _ _ _ F). intros k. destruct (key_eqb_spec dk k) as [<-|Hne].
  - eapply grown_05; eauto. same05_tac.
  - apply grow_other_05; [exact HI|]. exact (ew_payer_system _ _ _ _ _ _ _ _ _ F).
Qed.
Lemma rd_distribute_rewards_05 n cx W us ebr p W' : rd_distribute_rewards cx W us ebr p = Ok W' -> I05 n W -> I05 n W'.
Proof.
  intros H HI. apply rd_distribute_rewards_eff in H as (dk & d & tail & relayer & tr & bu & tail' & Ho & Hd & _ & _ & _ & Hg & Htok).
  intros k. destruct (key_eq_dec (owner (get W k)) KToken) as [Et|Et].
  { destruct (HI k) as (G1 & G2). split.
    - intros Ho'. rewrite (Htok k Et) in Ho'. discriminate.
    - intros Hk Hn. destruct (G2 Hk Hn) as (Ho' & _). congruence. }
  rewrite (Hg k Et). destruct (key_eqb_spec dk k) as [<-|Hne].
  - apply good05_lam; [eapply good05_dist_same; eauto; same05_tac|]. intros _ Hj. discriminate Hj.
  - apply good05_lam; [apply HI|]. intros _ _. lia.
Qed.
Lemma rd_write_off_05 n cx W amount p W' : rd_write_off cx W amount p = Ok W' -> I05 n W -> I05 n W'.
Proof.
  intros H HI. apply rd_write_off_spec in H as (c & dk & d & tail & pk & dp & idx & tail1 & tail2 & tk & t & ttail & F).
  pose proof (wo_dist_data _ _ _ _ _ _ _ _ _ _ _ _ _ _ _ _ _ F) as Hd.
  pose proof (wo_deposit_data _ _ _ _ _ _ _ _ _ _ _ _ _ _ _ _ _ F) as Hp.
  pointwise05 (wo_effect _ _ _ _ _ _ _ _ _ _ _ _ _ _ _ _ _ F). intros k.
  destruct (key_eqb_spec k pk) as [->|]; [plain05 HI|].
  destruct (key_eqb_spec k tk) as [->|].
  { pose proof (wo_target_read _ _ _ _ _ _ _ _ _ _ _ _ _ _ _ _ _ F) as Ht.
    destruct (key_eqb_spec tk dk) as [->|Hne].
    - destruct Ht as (-> & ->). eapply good05_dist_same; eauto. same05_tac.
    - eapply good05_dist_same; eauto. same05_tac. }
  destruct (key_eqb_spec k dk) as [->|]; [|apply HI].
  eapply good05_dist_same; eauto. same05_tac.
Qed.

(* pay / withdraw: the pointer is untouched; the C06 bound is kept (Lemmas_Hist3 has the stand-alone statement) *)
Lemma rd_pay_debt_05 n cx W amount p W' : rd_pay_debt cx W amount p = Ok W' -> I05 n W -> I05 n W'.
Proof.
  intros H HI. apply rd_pay_debt_spec in H as (c & dk & d & tail & pk & dp & jk & j & idx & tail' & F).
  pose proof (pd_deposit_data _ _ _ _ _ _ _ _ _ _ _ _ _ _ _ F) as Hp. pose proof (pd_dist_data _ _ _ _ _ _ _ _ _ _ _ _ _ _ _ F) as Hd.
  pose proof (pd_journal_owner _ _ _ _ _ _ _ _ _ _ _ _ _ _ _ F) as Hoj. pose proof (pd_journal_data _ _ _ _ _ _ _ _ _ _ _ _ _ _ _ F) as Hdj.
  pointwise05 (pd_effect _ _ _ _ _ _ _ _ _ _ _ _ _ _ _ F). intros k.
  destruct (key_eqb_spec k pk) as [->|].
  { apply good05_lam; [apply HI|]. intros _ Hj. rewrite Hp in Hj. discriminate Hj. }
  destruct (key_eqb_spec k jk) as [->|].
  { destruct (HI jk) as (G1 & G2). specialize (G1 Hoj). rewrite Hdj in G1. destruct G1 as (A & (B1 & B2) & C & D). split.
    - intros _. cbn. pose proof (wadd64_le (j_total_sol j) amount). repeat split; try assumption. lia.
    - intros _ _. split; [exact Hoj|]. eexists. reflexivity. }
  destruct (key_eqb_spec k dk) as [->|]; [|apply HI].
  eapply good05_dist_same; eauto. same05_tac.
Qed.
Lemma rd_withdraw_sol_05 n cx W amount W' : rd_withdraw_sol cx W amount = Ok W' -> I05 n W -> I05 n W'.
Proof.
  intros H HI. apply rd_withdraw_sol_spec in H as (c & jk & j & dest & z & F).
  pose proof (ws_journal_owner _ _ _ _ _ _ _ _ _ F) as Hoj. pose proof (ws_journal_data _ _ _ _ _ _ _ _ _ F) as Hdj.
  pointwise05 (ws_effect _ _ _ _ _ _ _ _ _ F). intros k. destruct (key_eqb_spec jk k) as [<-|Hne].
  - destruct (HI jk) as (G1 & G2). specialize (G1 Hoj). rewrite Hdj in G1. destruct G1 as (A & (B1 & B2) & C & D). split.
    + intros _. cbn. pose proof (ws_amount_tracked _ _ _ _ _ _ _ _ _ F). repeat split; try assumption.
      destruct (key_eqb dest jk); lia.
    + intros _ _. split; [exact Hoj|]. eexists. reflexivity.
  - apply good05_lam; [apply HI|]. intros _ _. lia.
Qed.

(* sweep: the distribution whose epoch equals the pointer is flagged and the pointer moves past it *)
Lemma sweep_mark n W jk dk d tail j j1 k :
  I05 n W -> owner (get W dk) = KRd -> data (get W dk) = DDist d tail -> owner (get W jk) = KRd -> data (get W jk) = DJournal j ->
  jk <> dk -> j_next_sweep j = d_epoch d ->
  j_next_sweep j1 = sat_add two64 (j_next_sweep j) 1 -> j_total_sol j1 = j_total_sol j ->
  (fst n <= d_epoch d /\ d_epoch d <= snd n /\ d_epoch d < two64) /\
  good05 (sat_add two64 (d_epoch d) 1, sat_add two64 (snd n) 1) k
    (if key_eqb k jk then (get W jk) <| data := DJournal j1 |>
     else if key_eqb k dk then (get W dk) <| data := DDist (sw_dist1 d) tail |> else get W k).
Proof.
  intros HI Hod Hdd Hoj Hdj Hne Hord E1 E2.
  destruct (HI jk) as (G1 & _). specialize (G1 Hoj). rewrite Hdj in G1. destruct G1 as (Ek & (B1 & B2) & C & D).
  rewrite <- Hord. pose proof (sat_add_ge _ C) as Hge. split; [lia|].
  destruct (key_eqb_spec k jk) as [->|Hkj].
  - split.
    + intros _. cbn. rewrite E1, E2. split; [exact Ek|]. split; [split; [lia|apply sat_add_mono; exact B2]|].
      split; [apply sat_add_lt|exact D].
    + intros _ _. split; [exact Hoj|]. eexists. reflexivity.
  - destruct (key_eqb_spec k dk) as [->|Hkd].
    + split.
      * intros _. cbn. intros _. rewrite Hord. lia.
      * intros E. congruence.
    + apply (good05_mono n); [cbn; lia|congruence|apply HI].
Qed.

Lemma rd_sweep_05 n cx W W' : rd_sweep cx W = Ok W' -> I05 n W ->
  exists e, fst n <= e /\ e <= snd n /\ e < two64 /\ I05 (sat_add two64 e 1, sat_add two64 (snd n) 1) W'.
Proof.
  intros H HI. apply rd_sweep_full_spec in H as (c & dk & d & tail & jk & j & rest & C & Hz & Hnz).
  pose proof (sc_dist_owner _ _ _ _ _ _ _ _ _ C) as Hod. pose proof (sc_dist_data _ _ _ _ _ _ _ _ _ C) as Hdd.
  pose proof (sc_journal_owner _ _ _ _ _ _ _ _ _ C) as Hoj. pose proof (sc_journal_data _ _ _ _ _ _ _ _ _ C) as Hdj.
  pose proof (sc_distinct _ _ _ _ _ _ _ _ _ C) as Hne. pose proof (sc_in_order _ _ _ _ _ _ _ _ _ C) as Hord.
  exists (d_epoch d).
  destruct (N.eq_dec (d_total_debt d - d_uncollectible d) 0) as [Ez|Enz].
  - destruct (Hz Ez) as (_ & Hg).
    destruct (proj1 (sweep_mark n W jk dk d tail j (sw_journal0 j) dk HI Hod Hdd Hoj Hdj Hne Hord eq_refl eq_refl)) as (X1 & X2 & X3).
    repeat (split; [assumption|]). pointwise05 Hg. intros k. exact (proj2 (sweep_mark n W jk dk d tail j (sw_journal0 j) k HI Hod Hdd Hoj Hdj Hne Hord eq_refl eq_refl)).
  - destruct (Hnz Enz) as (z & cfg & st & fills & W2 & W3 & s & t & F).
    set (debt := d_total_debt d - d_uncollectible d) in *.
    destruct (proj1 (sweep_mark n W jk dk d tail j (sw_journal1 j debt) dk HI Hod Hdd Hoj Hdj Hne Hord eq_refl eq_refl)) as (X1 & X2 & X3).
    repeat (split; [assumption|]).
    destruct (sf_W2 _ _ _ _ _ _ _ _ _ _ _ _ _ _ _ _ _ _ F) as (_ & Hg2).
    assert (I2 : I05 (sat_add two64 (d_epoch d) 1, sat_add two64 (snd n) 1) W2).
    { pointwise05 Hg2. intros k.
      exact (proj2 (sweep_mark n W jk dk d tail j (sw_journal1 j debt) k HI Hod Hdd Hoj Hdj Hne Hord eq_refl eq_refl)). }
    destruct (sf_cpi _ _ _ _ _ _ _ _ _ _ _ _ _ _ _ _ _ _ F) as (nn & Hcpi). apply swap_dequeue_cpi_quiet in Hcpi.
    pose proof (I05_quiet _ _ _ Hcpi I2) as I3.
    assert (Xj : owner (get W3 jk) = KRd /\ data (get W3 jk) = DJournal (sw_journal1 j debt)).
    { destruct (quiet_at _ _ jk Hcpi) as (A & _ & B & _).
      - rewrite Hg2, key_eqb_refl. exact Hoj.
      - rewrite Hg2, key_eqb_refl. reflexivity.
      - rewrite Hg2, key_eqb_refl in B. auto. }
    assert (Xd : data (get W3 dk) = DDist (sw_dist1 d) tail).
    { destruct (quiet_at _ _ dk Hcpi) as (_ & _ & B & _).
      - rewrite Hg2, (key_eqb_neq dk jk), key_eqb_refl by congruence. exact Hod.
      - rewrite Hg2, (key_eqb_neq dk jk), key_eqb_refl by congruence. reflexivity.
      - rewrite Hg2, (key_eqb_neq dk jk), key_eqb_refl in B by congruence. exact B. }
    destruct Xj as (Ho3 & Hd3).
    pose proof (sf_src _ _ _ _ _ _ _ _ _ _ _ _ _ _ _ _ _ _ F) as Hs. pose proof (sf_dst _ _ _ _ _ _ _ _ _ _ _ _ _ _ _ _ _ _ F) as Ht.
    apply as_token_ok in Hs as (Hs & _). apply as_token_ok in Ht as (Ht & _).
    pointwise05 (sf_effect _ _ _ _ _ _ _ _ _ _ _ _ _ _ _ _ _ _ F). intros k.
    destruct (key_eqb_spec k jk) as [->|]; [eapply good05_journal_same; eauto|].
    destruct (key_eqb_spec k dk) as [->|]; [eapply good05_dist_same; eauto; same05_tac|].
    destruct (key_eqb dk KRdSwapAuth); [apply I3|].
    destruct (key_eqb_spec k (KTok2z KRdSwapAuth)) as [->|]; [plain05 I3|].
    destruct (key_eqb_spec k (KTok2z dk)) as [->|]; [plain05 I3|apply I3].
Qed.

(* ------------------------------------------------------------------------------------------------------------------ *)
(* 4. every instruction, transaction, history                                                                         *)

Definition rd_ok05 (ix : rd_ix) : Prop := True.
(* every instruction but sweep keeps the window; sweep moves it up by one *)
Theorem rd_process_05 n cx W ix W' : rd_process cx W ix = Ok W' -> I05 n W ->
  match ix with
  | RSweep => exists e, fst n <= e /\ e <= snd n /\ e < two64 /\ I05 (sat_add two64 e 1, sat_add two64 (snd n) 1) W'
  | _ => I05 n W'
  end.
Proof.
  destruct ix; cbn [rd_process]; intros H HI.
  - eapply rd_initialize_program_05; eassumption.
  - eapply rd_migrate_05; eassumption.
  - eapply rd_set_admin_05; eassumption.
  - eapply rd_configure_program_05; eassumption.
  - eapply rd_initialize_journal_05; eassumption.
  - eapply rd_initialize_distribution_05; eassumption.
  - eapply rd_configure_debt_05; eassumption.
  - eapply rd_finalize_debt_05; eassumption.
  - eapply rd_configure_rewards_05; eassumption.
  - eapply rd_finalize_rewards_05; eassumption.
  - eapply rd_distribute_rewards_05; eassumption.
  - eapply I05_quiet; [eapply rd_initialize_contributor_quiet; exact H|exact HI].
  - eapply I05_quiet; [eapply rd_set_rewards_manager_quiet; exact H|exact HI].
  - eapply I05_quiet; [eapply rd_configure_contributor_quiet; exact H|exact HI].
  - eapply I05_quiet; [eapply rd_verify_root_quiet; exact H|exact HI].
  - eapply I05_quiet; [eapply rd_initialize_deposit_quiet; exact H|exact HI].
  - eapply rd_pay_debt_05; eassumption.
  - eapply rd_enable_write_off_05; eassumption.
  - eapply rd_write_off_05; eassumption.
  - eapply rd_initialize_swap_destination_05; eassumption.
  - eapply rd_sweep_05; eassumption.
  - eapply rd_withdraw_sol_05; eassumption.
Qed.

Lemma Inv05_from_quiet n0 W W' : quiet W W' -> Inv05_from n0 W -> Inv05_from n0 W'.
Proof. intros Q (n & Hn & HI). exists n. split; [exact Hn|eapply I05_quiet; eassumption]. Qed.
Lemma Inv05_from_rd n0 cx W ix W' :
  cx_prog cx = KRd -> rd_ok05 ix -> rd_process cx W ix = Ok W' -> Inv05_from n0 W -> Inv05_from n0 W'.
Proof.
  intros _ _ H (n & Hn & HI). pose proof (rd_process_05 _ _ _ _ _ H HI) as P.
  destruct ix; try (exists n; split; [exact Hn|exact P]).
  destruct P as (e & E1 & E2 & E3 & HI'). eexists. split; [|exact HI']. cbn [fst]. pose proof (sat_add_ge _ E3). lia.
Qed.
Lemma Inv05_from_purge n0 W : Inv05_from n0 W -> Inv05_from n0 (purge W).
Proof. intros (n & Hn & HI). exists n. split; [exact Hn|apply I05_purge; exact HI]. Qed.

Lemma ix_ok05 d : ix_ok rd_ok05 d.
Proof. induction d; cbn; auto; exact I. Qed.
Lemma tx_ok05 t : tx_ok rd_ok05 t.
Proof. apply Forall_forall. intros i _. apply ix_ok05. Qed.
Lemma op_ok05 o : op_args_ok rd_ok05 o.
Proof. destruct o; cbn; try exact I. apply tx_ok05. Qed.

Lemma Inv05_from_0 W : Inv05 W <-> Inv05_from 0 W.
Proof. split; [intros (n & H); exists n; split; [lia|exact H]|intros (n & _ & H); exists n; exact H]. Qed.

(* EVERY transaction keeps the invariant (with any lower bound on the threshold); no side hypothesis *)
Theorem inv_C05_tx_from n0 W t W' ok : Inv05_from n0 W -> exec_tx W t = (W', ok) -> Inv05_from n0 W'.
Proof.
  intros HI H.
  exact (exec_tx_inv (Inv05_from n0) rd_ok05 (Inv05_from_quiet n0) (Inv05_from_rd n0) (fun _ => I) (Inv05_from_purge n0)
           W t W' ok (tx_ok05 t) H HI).
Qed.
Theorem inv_C05_tx W t W' ok : Inv05 W -> exec_tx W t = (W', ok) -> Inv05 W'.
Proof. intros HI H. apply Inv05_from_0. eapply inv_C05_tx_from; [apply Inv05_from_0; exact HI|exact H]. Qed.
Corollary C05_tx W t W' ok : Inv05 W -> exec_tx W t = (W', ok) -> Inv_C05 W'.
Proof. intros HI H. apply Inv05_C05. eapply inv_C05_tx; eassumption. Qed.

Theorem inv_C05_history_from n0 ops W :
  Forall honest_op ops -> Forall wallet_pays ops -> typed_canonical W -> Inv05_from n0 W ->
  Inv05_from n0 (fold_left (fun W o => fst (exec_op W o)) ops W).
Proof.
  intros Hh Hw HT HI.
  apply (history_inv (Inv05_from n0) rd_ok05 (Inv05_from_quiet n0) (Inv05_from_rd n0) (fun _ => I) (Inv05_from_purge n0)); try assumption.
  apply Forall_forall. intros o _. apply op_ok05.
Qed.
Theorem inv_C05_history ops W :
  Forall honest_op ops -> Forall wallet_pays ops -> typed_canonical W -> Inv05 W ->
  Inv05 (fold_left (fun W o => fst (exec_op W o)) ops W).
Proof. intros Hh Hw HT HI. apply Inv05_from_0. apply inv_C05_history_from; try assumption. apply Inv05_from_0. exact HI. Qed.
Corollary C05_history ops W :
  Forall honest_op ops -> Forall wallet_pays ops -> typed_canonical W -> Inv05 W ->
  Inv_C05 (fold_left (fun W o => fst (exec_op W o)) ops W).
Proof. intros. apply Inv05_C05. apply inv_C05_history; assumption. Qed.

Theorem inv_C05_init :
  Inv05 world0 /\ forall W, (forall k, owner (get W k) = KRd -> data (get W k) = DEmpty) -> Inv05 W.
Proof.
  split.
  - exists (0, 0). intros k. rewrite get_world0. split; [intros Ho; discriminate Ho|intros _ Hn; cbn in Hn; lia].
  - intros W H. exists (0, 0). intros k. split; [intros Ho; rewrite (H k Ho); exact I|intros _ Hn; cbn in Hn; lia].
Qed.
Corollary C05_reachable ops :
  Forall honest_op ops -> Forall wallet_pays ops -> Inv_C05 (fold_left (fun W o => fst (exec_op W o)) ops world0).
Proof. intros. apply C05_history; try assumption; [apply typed_canonical_world0|exact (proj1 inv_C05_init)]. Qed.

(* ------------------------------------------------------------------------------------------------------------------ *)
(* 5. the pointer: monotone across transactions and histories; moved only by sweep, by exactly one                     *)

(* in a world satisfying the invariant the window can be narrowed to the journal's current pointer *)
Lemma I05_window n W k j : I05 n W -> owner (get W k) = KRd -> data (get W k) = DJournal j ->
  I05 (j_next_sweep j, j_next_sweep j) W.
Proof.
  intros HI Ho Hd. destruct (HI k) as (G & _). specialize (G Ho). rewrite Hd in G. destruct G as (-> & (B1 & B2) & C & D).
  intros k'. destruct (HI k') as (G1 & G2). split.
  - intros Ho'. specialize (G1 Ho'). destruct (data (get W k')) eqn:Hd'; try exact I.
    + destruct G1 as (-> & _ & C' & D'). rewrite Hd in Hd'. injection Hd' as <-. cbn [fst snd]. repeat split; try assumption; lia.
    + intros Hs. specialize (G1 Hs). cbn [fst]. lia.
  - intros -> _. split; [exact Ho|]. eexists. exact Hd.
Qed.

Theorem pointer_step cx W ix W' k j k' j' :
  Inv05 W -> rd_process cx W ix = Ok W' ->
  owner (get W k) = KRd -> data (get W k) = DJournal j -> owner (get W' k') = KRd -> data (get W' k') = DJournal j' ->
  j_next_sweep j' = match ix with RSweep => sat_add two64 (j_next_sweep j) 1 | _ => j_next_sweep j end.
Proof.
  intros (n & HI) H Ho Hd Ho' Hd'. pose proof (I05_window _ _ _ _ HI Ho Hd) as Hw.
  pose proof (rd_process_05 _ _ _ _ _ H Hw) as P.
  assert (X : forall lo hi, I05 (lo, hi) W' -> lo <= j_next_sweep j' /\ j_next_sweep j' <= hi).
  { intros lo hi HI'. destruct (HI' k') as (G & _). specialize (G Ho'). rewrite Hd' in G. cbn [fst snd] in G. tauto. }
  destruct ix; try (apply X in P; lia).
  destruct P as (e & E1 & E2 & E3 & HI'). cbn [fst snd] in *. assert (e = j_next_sweep j) as -> by lia. apply X in HI'. lia.
Qed.

Theorem pointer_monotone_tx W t W' ok k j k' j' :
  Inv05 W -> exec_tx W t = (W', ok) ->
  owner (get W k) = KRd -> data (get W k) = DJournal j -> owner (get W' k') = KRd -> data (get W' k') = DJournal j' ->
  j_next_sweep j <= j_next_sweep j'.
Proof.
  intros (n & HI) H Ho Hd Ho' Hd'. pose proof (I05_window _ _ _ _ HI Ho Hd) as Hw.
  destruct (inv_C05_tx_from (j_next_sweep j) W t W' ok) as (n' & Hn' & HI'); [eexists; split; [|exact Hw]; cbn; lia|exact H|].
  destruct (HI' k') as (G & _). specialize (G Ho'). rewrite Hd' in G. lia.
Qed.
Theorem pointer_monotone_history ops W k j k' j' :
  Forall honest_op ops -> Forall wallet_pays ops -> typed_canonical W -> Inv05 W ->
  owner (get W k) = KRd -> data (get W k) = DJournal j ->
  let W' := fold_left (fun W o => fst (exec_op W o)) ops W in
  owner (get W' k') = KRd -> data (get W' k') = DJournal j' -> j_next_sweep j <= j_next_sweep j'.
Proof.
  intros Hh Hw HT (n & HI) Ho Hd W' Ho' Hd'. subst W'. pose proof (I05_window _ _ _ _ HI Ho Hd) as Hwin.
  destruct (inv_C05_history_from (j_next_sweep j) ops W Hh Hw HT) as (n' & Hn' & HI'); [eexists; split; [|exact Hwin]; cbn; lia|].
  destruct (HI' k') as (G & _). specialize (G Ho'). rewrite Hd' in G. lia.
Qed.

(* a sweep succeeds only on an unswept distribution whose epoch IS the pointer *)
Theorem sweep_needs_pointer cx W W' : rd_sweep cx W = Ok W' ->
  exists dk d t jk j, owner (get W dk) = KRd /\ data (get W dk) = DDist d t /\ owner (get W jk) = KRd /\ data (get W jk) = DJournal j /\
    d_swept d = false /\ d_rewards_final d = true /\ j_next_sweep j = d_epoch d.
Proof.
  intros H. apply rd_sweep_full_spec in H as (c & dk & d & tail & jk & j & rest & C & _).
  exists dk, d, tail, jk, j. repeat split.
  - exact (sc_dist_owner _ _ _ _ _ _ _ _ _ C).
  - exact (sc_dist_data _ _ _ _ _ _ _ _ _ C).
  - exact (sc_journal_owner _ _ _ _ _ _ _ _ _ C).
  - exact (sc_journal_data _ _ _ _ _ _ _ _ _ C).
  - exact (sc_unswept _ _ _ _ _ _ _ _ _ C).
  - exact (sc_rewards_final _ _ _ _ _ _ _ _ _ C).
  - exact (sc_in_order _ _ _ _ _ _ _ _ _ C).
Qed.
(* at most once per epoch: once some distribution of epoch e is swept, no sweep of a distribution of epoch e succeeds
   (whatever account it names), as long as the pointer has not saturated *)
Theorem swept_epoch_not_resweepable cx W W' dk0 d0 t0 :
  Inv05 W -> owner (get W dk0) = KRd -> data (get W dk0) = DDist d0 t0 -> d_swept d0 = true ->
  rd_sweep cx W = Ok W' ->
  exists dk d t jk j, owner (get W dk) = KRd /\ data (get W dk) = DDist d t /\ owner (get W jk) = KRd /\ data (get W jk) = DJournal j /\
    j_next_sweep j = d_epoch d /\ (j_next_sweep j < u64_max -> d_epoch d0 < d_epoch d).
Proof.
  intros HI Ho0 Hd0 Hs0 H. destruct (sweep_needs_pointer _ _ _ H) as (dk & d & t & jk & j & Ho & Hd & Hoj & Hdj & _ & _ & Hord).
  exists dk, d, t, jk, j. repeat split; try assumption. intros Hlt. rewrite <- Hord.
  eapply swept_below_pointer; [apply Inv05_C05; exact HI|exact Ho0|exact Hd0|exact Hoj|exact Hdj|exact Hs0|exact Hlt].
Qed.

(* ------------------------------------------------------------------------------------------------------------------ *)
(* 6. example                                                                                                         *)

Module Ex05.
Import CanonEx.
(* Lemmas_Canon's bootstrap, rewards accountant and minimum epochs, debt (none) and rewards finalized, then the sweep of
   epoch 0 (no collectible debt: no swap CPI) *)
Definition ops05 : list op := ex_ops ++ [
  otx [KUser 1] [rdi (RConfigureProgram (RSRewardsAccountant (KUser 3))) m_cfg;
                 rdi (RConfigureProgram (RSMinEpochs 1)) m_cfg];
  OSetClock 1000;
  otx [KUser 2; KUser 100] [rdi RFinalizeDebt [ro KRdConfig; sg (KUser 2); wr (KRdDist 0); sw (KUser 100); ro KSystem]];
  otx [KUser 3] [rdi (RConfigureRewards 2 null_hash) [ro KRdConfig; sg (KUser 3); wr (KRdDist 0)]];
  otx [KUser 100] [rdi RFinalizeRewards [ro KRdConfig; wr (KRdDist 0); sw (KUser 100); ro KSystem]];
  otx [KUser 100] [rdi RSweep [ro KRdConfig; wr (KRdDist 0); wr KRdJournal]]
].
Definition W05 : world := run_ops ex_fix ops05.
Definition resweep : op := otx [KUser 100] [rdi RSweep [ro KRdConfig; wr (KRdDist 0); wr KRdJournal]].
End Ex05.
Import CanonEx Ex05.

Lemma ops05_side : Forall honest_op ops05 /\ Forall wallet_pays ops05.
Proof.
  unfold ops05, ex_ops. cbn [app]. split; repeat (first [apply Forall_cons | apply Forall_nil]); cbn; try exact I; eauto.
Qed.
(* a literal reachable world with a swept distribution (epoch 0) and the pointer at 1; sweeping it again fails *)
Example inv_C05_nonvacuous :
  all_ok ex_fix ops05 = true /\ Inv05 W05 /\ Inv_C05 W05 /\
  (exists d t j, owner (get W05 (KRdDist 0)) = KRd /\ data (get W05 (KRdDist 0)) = DDist d t /\ d_swept d = true /\ d_epoch d = 0 /\
                 owner (get W05 KRdJournal) = KRd /\ data (get W05 KRdJournal) = DJournal j /\ j_next_sweep j = 1) /\
  snd (exec_op W05 resweep) = false.
Proof.
  split; [vm_compute; reflexivity|]. destruct ops05_side as (Hh & Hw).
  assert (U : untyped_world ex_fix) by (apply untyped_world_check; vm_compute; reflexivity).
  assert (HI : Inv05 W05).
  { apply inv_C05_history; try assumption; [apply typed_canonical_untyped; exact U|].
    apply (proj2 inv_C05_init). intros k Ho. apply U. left. exact Ho. }
  split; [exact HI|]. split; [apply Inv05_C05; exact HI|]. split; [|vm_compute; reflexivity].
  vm_compute. do 3 eexists. repeat split.
Qed.

(* Why the clause is stated with the saturating successor: the program advances the pointer with saturating_add, so at
   u64::MAX (unreachable in practice: 2^64 epochs) a sweep flags the distribution of epoch u64::MAX and leaves the
   pointer where it is; "swept => epoch < pointer" would fail there, "swept => epoch + 1 <= pointer" (saturating) holds. *)
Example sweep_pointer_saturation :
  let d := dist_default <| d_epoch := u64_max |> <| d_debt_final := true |> <| d_rewards_final := true |> in
  let j := journal_default <| j_next_sweep := u64_max |> in
  let W := ex_world [(KRdConfig, ex_acct (rent LEN_CONFIG_ALLOC) LEN_CONFIG_ALLOC (DConfig ex_cfg));
                     (KRdDist u64_max, ex_acct (rent LEN_DIST) LEN_DIST (DDist d []));
                     (KRdJournal, ex_acct (rent LEN_CONFIG_ALLOC) LEN_CONFIG_ALLOC (DJournal j))] in
  let cx := ex_cx KRd [mk KRdConfig false false; mk (KRdDist u64_max) false true; mk KRdJournal false true] in
  exists W', rd_sweep cx W = Ok W' /\
    data (get W' (KRdDist u64_max)) = DDist (d <| d_swept := true |>) [] /\
    data (get W' KRdJournal) = DJournal j /\
    sat_add two64 (d_epoch d) 1 = j_next_sweep j /\ ~ d_epoch d < j_next_sweep j.
Proof. eexists. split; [vm_compute; reflexivity|]. vm_compute. repeat split. intros H; discriminate H. Qed.

(* ==================================================================================================================
   INDEX (Lemmas_Hist4.v, C05; all closed under the global context)
   definitions
     Inv_C05 W     forall dk jk d t j, KRd-owned DDist d t at dk -> KRd-owned DJournal j at jk -> d_swept d = true ->
                   sat_add two64 (d_epoch d) 1 <= j_next_sweep j          (any accounts; no canonicity assumed)
     good05 (lo, hi) k a      dist: swept -> sat_add two64 epoch 1 <= lo;  journal: k = KRdJournal, lo <= pointer <= hi, pointer < 2^64,
                              rent + tracked <= lamports;  k = KRdJournal, 0 < lo -> the account is a KRd-owned journal
     I05 n W := forall k, good05 n k (get W k);   Inv05 W := exists n, I05 n W;   Inv05_from n0 W := exists n, n0 <= fst n /\ I05 n W
   Inv05_C05                  Inv05 W -> Inv_C05 W
   swept_below_pointer        Inv_C05 W -> .. -> d_swept d = true -> j_next_sweep j < u64_max -> d_epoch d < j_next_sweep j
   Inv05_journal_key          Inv05 W -> a KRd-owned journal lives at KRdJournal
   per processor              rd_<name>_05 : .. = Ok W' -> I05 n W -> I05 n W'   (all but sweep);
                              rd_sweep_05 : exists e, fst n <= e <= snd n, e < 2^64, I05 (sat_add two64 e 1, sat_add two64 (snd n) 1) W'
                              rd_process_05 (both, by instruction)
   inv_C05_tx                 Inv05 W -> exec_tx W t = (W', ok) -> Inv05 W'     (no side hypothesis);  inv_C05_tx_from n0;  C05_tx
   inv_C05_history            Forall honest_op ops -> Forall wallet_pays ops -> typed_canonical W -> Inv05 W -> Inv05 (fold_left .. ops W)
                              inv_C05_history_from n0;  C05_history (.. -> Inv_C05 ..);  inv_C05_init;  C05_reachable
   pointer_step               Inv05 W -> rd_process cx W ix = Ok W' -> journal j in W, journal j' in W' ->
                              j_next_sweep j' = (if ix = RSweep then sat_add two64 (j_next_sweep j) 1 else j_next_sweep j)
   pointer_monotone_tx / _history   the pointer never decreases across a transaction / an honest history
   sweep_needs_pointer        rd_sweep cx W = Ok W' -> the named distribution is unswept, rewards-final and d_epoch d = j_next_sweep j
   swept_epoch_not_resweepable   Inv05 W, a swept distribution of epoch e0 -> any successful sweep names an epoch > e0 (pointer < u64_max)
   inv_C05_nonvacuous         literal history ending with the sweep of epoch 0: swept, pointer = 1, a second sweep fails
   sweep_pointer_saturation   at pointer = u64::MAX a sweep leaves the pointer in place: the strict "epoch < pointer" fails there, the
                              saturating form holds (the reason for the form of Inv_C05)
   ================================================================================================================== *)
