(* C19 — the instruction wire formats of the three programs, byte for byte.  Executable definitions only.
     programs/revenue-distribution/src/instruction/mod.rs   RevenueDistributionInstructionData + nested configuration enums
     programs/revenue-distribution/src/types.rs             SolanaValidatorDebt, RewardShare, DoubleZeroEpoch, EpochDuration
     programs/passport/src/instruction/mod.rs               PassportInstructionData, ProgramConfiguration, AccessMode
     mock/swap-sol-2z/src/instruction.rs                    MockSwapSol2zInstructionData
     svm-hash 0.2 src/merkle/mod.rs                         MerkleProof { siblings : Vec<MerkleSibling>, leaf_index : Option<u32> }
   Every enum has three separate pieces, as the Rust has: an encoder written out arm by arm (the hand-written
   `serialize`), a decoder that reads the tag and takes the first matching arm of a table (the hand-written
   `deserialize_reader` / the derive), and the well-formedness of a value (field ranges of the Rust types).
   Selectors, program ids and derived-enum tags are the crates' own (Generated.v).  Pubkeys, hashes and fixed
   arrays are byte lists of the stated length. *)
From DZ Require Import Base Generated Codec.

Definition c_key : codec bytes := c_arr 32.    (* solana_pubkey::Pubkey *)
Definition c_hash : codec bytes := c_arr 32.   (* solana_hash::Hash *)

(* ================================================================ svm-hash: MerkleProof *)
Inductive leaf_side := SideLeft | SideRight.
Record merkle_sibling := Sib { sib_hash : bytes; sib_side : leaf_side }.
Record merkle_proof := MProof { siblings : list merkle_sibling; leaf_index : option N }.

Definition wf_side (_ : leaf_side) : Prop := True.
Definition enc_side (s : leaf_side) : bytes := match s with SideLeft => [G_SIDE_TAG_LEFT] | SideRight => [G_SIDE_TAG_RIGHT] end.
Definition alts_side : list (bytes * codec leaf_side) :=
  [ ([G_SIDE_TAG_LEFT], c_const SideLeft); ([G_SIDE_TAG_RIGHT], c_const SideRight) ].
Definition c_side : codec leaf_side := c_union 1 alts_side wf_side enc_side.

Definition c_sibling : codec merkle_sibling :=
  c_map (fun '(h, s) => Sib h s) (fun x => (sib_hash x, sib_side x)) (c_pair c_hash c_side).
Definition c_proof : codec merkle_proof :=
  c_map (fun '(l, i) => MProof l i) (fun x => (siblings x, leaf_index x)) (c_pair (c_vec c_sibling) (c_option c_u32)).

(* ================================================================ revenue distribution: nested payloads *)
Inductive rd_flag := RdIsPaused (b : bool).
Inductive rd_feature := RdFeatSolanaValidatorDebtWriteOff.
Inductive rd_pcfg :=
| RpFlag (f : rd_flag)
| RpDebtAccountant (k : bytes)
| RpRewardsAccountant (k : bytes)
| RpContributorManager (k : bytes)
| RpPlaceholderKey (k : bytes)
| RpSol2zSwapProgram (k : bytes)
| RpSolanaValidatorFeeParameters (base_block priority_block inflation jito_tips fixed_sol : N) (unused : bytes)
| RpCalculationGracePeriodMinutes (m : N)
| RpCommunityBurnRateParameters (limit to_increasing to_limit : N) (initial_rate : option N)
| RpPlaceholderRelayLamports (n : N)
| RpDistributeRewardsRelayLamports (n : N)
| RpMinimumEpochDurationToFinalizeRewards (n : N)
| RpDistributionInitializationGracePeriodMinutes (m : N)
| RpFeatureActivation (f : rd_feature) (activation_epoch : N).
Inductive cr_cfg := CrRecipients (l : list (bytes * N)) | CrIsSetRewardsManagerBlocked (b : bool).
Record validator_debt := VDebt { node_id : bytes; debt_amount : N }.
Record reward_share := RShare { contributor_key : bytes; unit_share : N; remaining_bytes : bytes }.
Inductive root_kind := KindDebt (d : validator_debt) | KindShare (s : reward_share).

(* ProgramFlagConfiguration *)
Definition wf_rd_flag (f : rd_flag) : Prop := match f with RdIsPaused b => wf c_bool b end.
Definition enc_rd_flag (f : rd_flag) : bytes := match f with RdIsPaused b => [G_RD_FLAG_TAG_IS_PAUSED] ++ enc c_bool b end.
Definition alts_rd_flag : list (bytes * codec rd_flag) :=
  [ ([G_RD_FLAG_TAG_IS_PAUSED], c_map RdIsPaused (fun f => match f with RdIsPaused b => b end) c_bool) ].
Definition c_rd_flag : codec rd_flag := c_union 1 alts_rd_flag wf_rd_flag enc_rd_flag.

(* ProgramFeatureConfiguration *)
Definition wf_rd_feature (_ : rd_feature) : Prop := True.
Definition enc_rd_feature (f : rd_feature) : bytes :=
  match f with RdFeatSolanaValidatorDebtWriteOff => [G_RD_FEATURE_TAG_SOLANA_VALIDATOR_DEBT_WRITE_OFF] end.
Definition alts_rd_feature : list (bytes * codec rd_feature) :=
  [ ([G_RD_FEATURE_TAG_SOLANA_VALIDATOR_DEBT_WRITE_OFF], c_const RdFeatSolanaValidatorDebtWriteOff) ].
Definition c_rd_feature : codec rd_feature := c_union 1 alts_rd_feature wf_rd_feature enc_rd_feature.

(* ProgramConfiguration (revenue distribution) *)
Definition c_fee_params := c_pair c_u16 (c_pair c_u16 (c_pair c_u16 (c_pair c_u16 (c_pair c_u32 (c_arr 28))))).
Definition c_cbr_params := c_pair c_u32 (c_pair c_u32 (c_pair c_u32 (c_option c_u32))).
Definition c_feature_activation := c_pair c_rd_feature c_u64.

Definition wf_rd_pcfg (c : rd_pcfg) : Prop :=
  match c with
  | RpFlag f => wf c_rd_flag f
  | RpDebtAccountant k | RpRewardsAccountant k | RpContributorManager k | RpPlaceholderKey k | RpSol2zSwapProgram k => wf c_key k
  | RpSolanaValidatorFeeParameters a b c d e u => wf c_fee_params (a, (b, (c, (d, (e, u)))))
  | RpCalculationGracePeriodMinutes m => wf c_u16 m
  | RpCommunityBurnRateParameters l i t r => wf c_cbr_params (l, (i, (t, r)))
  | RpPlaceholderRelayLamports n => wf c_u32 n
  | RpDistributeRewardsRelayLamports n => wf c_u32 n
  | RpMinimumEpochDurationToFinalizeRewards n => wf c_u8 n
  | RpDistributionInitializationGracePeriodMinutes m => wf c_u16 m
  | RpFeatureActivation f e => wf c_feature_activation (f, e)
  end.
Definition enc_rd_pcfg (c : rd_pcfg) : bytes :=
  match c with
  | RpFlag f => [G_RD_PC_TAG_FLAG] ++ enc c_rd_flag f
  | RpDebtAccountant k => [G_RD_PC_TAG_DEBT_ACCOUNTANT] ++ enc c_key k
  | RpRewardsAccountant k => [G_RD_PC_TAG_REWARDS_ACCOUNTANT] ++ enc c_key k
  | RpContributorManager k => [G_RD_PC_TAG_CONTRIBUTOR_MANAGER] ++ enc c_key k
  | RpPlaceholderKey k => [G_RD_PC_TAG_PLACEHOLDER_KEY] ++ enc c_key k
  | RpSol2zSwapProgram k => [G_RD_PC_TAG_SOL_2Z_SWAP_PROGRAM] ++ enc c_key k
  | RpSolanaValidatorFeeParameters a b c d e u =>
      [G_RD_PC_TAG_SOLANA_VALIDATOR_FEE_PARAMETERS] ++ enc c_u16 a ++ enc c_u16 b ++ enc c_u16 c ++ enc c_u16 d ++ enc c_u32 e ++ enc (c_arr 28) u
  | RpCalculationGracePeriodMinutes m => [G_RD_PC_TAG_CALCULATION_GRACE_PERIOD_MINUTES] ++ enc c_u16 m
  | RpCommunityBurnRateParameters l i t r =>
      [G_RD_PC_TAG_COMMUNITY_BURN_RATE_PARAMETERS] ++ enc c_u32 l ++ enc c_u32 i ++ enc c_u32 t ++ enc (c_option c_u32) r
  | RpPlaceholderRelayLamports n => [G_RD_PC_TAG_PLACEHOLDER_RELAY_LAMPORTS] ++ enc c_u32 n
  | RpDistributeRewardsRelayLamports n => [G_RD_PC_TAG_DISTRIBUTE_REWARDS_RELAY_LAMPORTS] ++ enc c_u32 n
  | RpMinimumEpochDurationToFinalizeRewards n => [G_RD_PC_TAG_MINIMUM_EPOCH_DURATION_TO_FINALIZE_REWARDS] ++ enc c_u8 n
  | RpDistributionInitializationGracePeriodMinutes m => [G_RD_PC_TAG_DISTRIBUTION_INITIALIZATION_GRACE_PERIOD_MINUTES] ++ enc c_u16 m
  | RpFeatureActivation f e => [G_RD_PC_TAG_FEATURE_ACTIVATION] ++ enc c_rd_feature f ++ enc c_u64 e
  end.
Definition dflt_flag := RdIsPaused false.
Definition alts_rd_pcfg : list (bytes * codec rd_pcfg) :=
  [ ([G_RD_PC_TAG_FLAG], c_map RpFlag (fun c => match c with RpFlag f => f | _ => dflt_flag end) c_rd_flag);
    ([G_RD_PC_TAG_DEBT_ACCOUNTANT], c_map RpDebtAccountant (fun c => match c with RpDebtAccountant k => k | _ => [] end) c_key);
    ([G_RD_PC_TAG_REWARDS_ACCOUNTANT], c_map RpRewardsAccountant (fun c => match c with RpRewardsAccountant k => k | _ => [] end) c_key);
    ([G_RD_PC_TAG_CONTRIBUTOR_MANAGER], c_map RpContributorManager (fun c => match c with RpContributorManager k => k | _ => [] end) c_key);
    ([G_RD_PC_TAG_PLACEHOLDER_KEY], c_map RpPlaceholderKey (fun c => match c with RpPlaceholderKey k => k | _ => [] end) c_key);
    ([G_RD_PC_TAG_SOL_2Z_SWAP_PROGRAM], c_map RpSol2zSwapProgram (fun c => match c with RpSol2zSwapProgram k => k | _ => [] end) c_key);
    ([G_RD_PC_TAG_SOLANA_VALIDATOR_FEE_PARAMETERS],
       c_map (fun '(a, (b, (c, (d, (e, u))))) => RpSolanaValidatorFeeParameters a b c d e u)
             (fun c => match c with RpSolanaValidatorFeeParameters a b c d e u => (a, (b, (c, (d, (e, u))))) | _ => (0, (0, (0, (0, (0, []))))) end)
             c_fee_params);
    ([G_RD_PC_TAG_CALCULATION_GRACE_PERIOD_MINUTES],
       c_map RpCalculationGracePeriodMinutes (fun c => match c with RpCalculationGracePeriodMinutes m => m | _ => 0 end) c_u16);
    ([G_RD_PC_TAG_COMMUNITY_BURN_RATE_PARAMETERS],
       c_map (fun '(l, (i, (t, r))) => RpCommunityBurnRateParameters l i t r)
             (fun c => match c with RpCommunityBurnRateParameters l i t r => (l, (i, (t, r))) | _ => (0, (0, (0, None))) end)
             c_cbr_params);
    ([G_RD_PC_TAG_PLACEHOLDER_RELAY_LAMPORTS],
       c_map RpPlaceholderRelayLamports (fun c => match c with RpPlaceholderRelayLamports n => n | _ => 0 end) c_u32);
    ([G_RD_PC_TAG_DISTRIBUTE_REWARDS_RELAY_LAMPORTS],
       c_map RpDistributeRewardsRelayLamports (fun c => match c with RpDistributeRewardsRelayLamports n => n | _ => 0 end) c_u32);
    ([G_RD_PC_TAG_MINIMUM_EPOCH_DURATION_TO_FINALIZE_REWARDS],
       c_map RpMinimumEpochDurationToFinalizeRewards (fun c => match c with RpMinimumEpochDurationToFinalizeRewards n => n | _ => 0 end) c_u8);
    ([G_RD_PC_TAG_DISTRIBUTION_INITIALIZATION_GRACE_PERIOD_MINUTES],
       c_map RpDistributionInitializationGracePeriodMinutes (fun c => match c with RpDistributionInitializationGracePeriodMinutes m => m | _ => 0 end) c_u16);
    ([G_RD_PC_TAG_FEATURE_ACTIVATION],
       c_map (fun '(f, e) => RpFeatureActivation f e)
             (fun c => match c with RpFeatureActivation f e => (f, e) | _ => (RdFeatSolanaValidatorDebtWriteOff, 0) end)
             c_feature_activation) ].
Definition c_rd_pcfg : codec rd_pcfg := c_union 1 alts_rd_pcfg wf_rd_pcfg enc_rd_pcfg.

(* ContributorRewardsConfiguration *)
Definition c_recipient := c_pair c_key c_u16.
Definition wf_cr_cfg (c : cr_cfg) : Prop :=
  match c with CrRecipients l => wf (c_vec c_recipient) l | CrIsSetRewardsManagerBlocked b => wf c_bool b end.
Definition enc_cr_cfg (c : cr_cfg) : bytes :=
  match c with
  | CrRecipients l => [G_RD_CR_TAG_RECIPIENTS] ++ enc (c_vec c_recipient) l
  | CrIsSetRewardsManagerBlocked b => [G_RD_CR_TAG_IS_SET_REWARDS_MANAGER_BLOCKED] ++ enc c_bool b
  end.
Definition alts_cr_cfg : list (bytes * codec cr_cfg) :=
  [ ([G_RD_CR_TAG_RECIPIENTS], c_map CrRecipients (fun c => match c with CrRecipients l => l | _ => [] end) (c_vec c_recipient));
    ([G_RD_CR_TAG_IS_SET_REWARDS_MANAGER_BLOCKED],
       c_map CrIsSetRewardsManagerBlocked (fun c => match c with CrIsSetRewardsManagerBlocked b => b | _ => false end) c_bool) ].
Definition c_cr_cfg : codec cr_cfg := c_union 1 alts_cr_cfg wf_cr_cfg enc_cr_cfg.

(* SolanaValidatorDebt, RewardShare, DistributionMerkleRootKind *)
Definition c_debt : codec validator_debt :=
  c_map (fun '(k, a) => VDebt k a) (fun d => (node_id d, debt_amount d)) (c_pair c_key c_u64).
Definition c_share : codec reward_share :=
  c_map (fun '(k, (u, r)) => RShare k u r) (fun s => (contributor_key s, (unit_share s, remaining_bytes s))) (c_pair c_key (c_pair c_u32 (c_arr 4))).
Definition wf_root_kind (k : root_kind) : Prop := match k with KindDebt d => wf c_debt d | KindShare s => wf c_share s end.
Definition enc_root_kind (k : root_kind) : bytes :=
  match k with
  | KindDebt d => [G_RD_KIND_TAG_SOLANA_VALIDATOR_DEBT] ++ enc c_debt d
  | KindShare s => [G_RD_KIND_TAG_REWARD_SHARE] ++ enc c_share s
  end.
Definition dflt_debt := VDebt [] 0.
Definition dflt_share := RShare [] 0 [].
Definition alts_root_kind : list (bytes * codec root_kind) :=
  [ ([G_RD_KIND_TAG_SOLANA_VALIDATOR_DEBT], c_map KindDebt (fun k => match k with KindDebt d => d | _ => dflt_debt end) c_debt);
    ([G_RD_KIND_TAG_REWARD_SHARE], c_map KindShare (fun k => match k with KindShare s => s | _ => dflt_share end) c_share) ].
Definition c_root_kind : codec root_kind := c_union 1 alts_root_kind wf_root_kind enc_root_kind.

(* ================================================================ RevenueDistributionInstructionData *)
Inductive rd_ix :=
| RdInitializeProgram
| RdMigrateProgramAccounts
| RdSetAdmin (admin_key : bytes)
| RdConfigureProgram (setting : rd_pcfg)
| RdInitializeJournal
| RdInitializeDistribution
| RdConfigureDistributionDebt (total_validators total_debt : N) (merkle_root : bytes)
| RdFinalizeDistributionDebt
| RdConfigureDistributionRewards (total_contributors : N) (merkle_root : bytes)
| RdFinalizeDistributionRewards
| RdDistributeRewards (unit_share economic_burn_rate : N) (proof : merkle_proof)
| RdInitializeContributorRewards (service_key : bytes)
| RdSetRewardsManager (rewards_manager_key : bytes)
| RdConfigureContributorRewards (setting : cr_cfg)
| RdVerifyDistributionMerkleRoot (kind : root_kind) (proof : merkle_proof)
| RdInitializeSolanaValidatorDeposit (node_id : bytes)
| RdPaySolanaValidatorDebt (amount : N) (proof : merkle_proof)
| RdEnableSolanaValidatorDebtWriteOff
| RdWriteOffSolanaValidatorDebt (amount : N) (proof : merkle_proof)
| RdInitializeSwapDestination
| RdSweepDistributionTokens
| RdWithdrawSol (amount : N).

Definition c_cfg_debt := c_pair c_u32 (c_pair c_u64 c_hash).
Definition c_cfg_rewards := c_pair c_u32 c_hash.
Definition c_distribute := c_pair c_u32 (c_pair c_u32 c_proof).
Definition c_verify := c_pair c_root_kind c_proof.
Definition c_amount_proof := c_pair c_u64 c_proof.

Definition wf_rd (x : rd_ix) : Prop :=
  match x with
  | RdInitializeProgram | RdMigrateProgramAccounts | RdInitializeJournal | RdInitializeDistribution
  | RdFinalizeDistributionDebt | RdFinalizeDistributionRewards | RdEnableSolanaValidatorDebtWriteOff
  | RdInitializeSwapDestination | RdSweepDistributionTokens => True
  | RdSetAdmin k | RdInitializeContributorRewards k | RdSetRewardsManager k | RdInitializeSolanaValidatorDeposit k => wf c_key k
  | RdConfigureProgram c => wf c_rd_pcfg c
  | RdConfigureDistributionDebt v d r => wf c_cfg_debt (v, (d, r))
  | RdConfigureDistributionRewards n r => wf c_cfg_rewards (n, r)
  | RdDistributeRewards u e p => wf c_distribute (u, (e, p))
  | RdConfigureContributorRewards c => wf c_cr_cfg c
  | RdVerifyDistributionMerkleRoot k p => wf c_verify (k, p)
  | RdPaySolanaValidatorDebt a p | RdWriteOffSolanaValidatorDebt a p => wf c_amount_proof (a, p)
  | RdWithdrawSol a => wf c_u64 a
  end.

(* impl BorshSerialize for RevenueDistributionInstructionData *)
Definition encode_rd (x : rd_ix) : bytes :=
  match x with
  | RdInitializeProgram => G_RD_SEL_INITIALIZE_PROGRAM
  | RdMigrateProgramAccounts => G_RD_SEL_MIGRATE_PROGRAM_ACCOUNTS
  | RdSetAdmin k => G_RD_SEL_SET_ADMIN ++ enc c_key k
  | RdConfigureProgram c => G_RD_SEL_CONFIGURE_PROGRAM ++ enc c_rd_pcfg c
  | RdInitializeJournal => G_RD_SEL_INITIALIZE_JOURNAL
  | RdInitializeDistribution => G_RD_SEL_INITIALIZE_DISTRIBUTION
  | RdConfigureDistributionDebt v d r => G_RD_SEL_CONFIGURE_DISTRIBUTION_DEBT ++ enc c_u32 v ++ enc c_u64 d ++ enc c_hash r
  | RdFinalizeDistributionDebt => G_RD_SEL_FINALIZE_DISTRIBUTION_DEBT
  | RdConfigureDistributionRewards n r => G_RD_SEL_CONFIGURE_DISTRIBUTION_REWARDS ++ enc c_u32 n ++ enc c_hash r
  | RdFinalizeDistributionRewards => G_RD_SEL_FINALIZE_DISTRIBUTION_REWARDS
  | RdDistributeRewards u e p => G_RD_SEL_DISTRIBUTE_REWARDS ++ enc c_u32 u ++ enc c_u32 e ++ enc c_proof p
  | RdInitializeContributorRewards k => G_RD_SEL_INITIALIZE_CONTRIBUTOR_REWARDS ++ enc c_key k
  | RdSetRewardsManager k => G_RD_SEL_SET_REWARDS_MANAGER ++ enc c_key k
  | RdConfigureContributorRewards c => G_RD_SEL_CONFIGURE_CONTRIBUTOR_REWARDS ++ enc c_cr_cfg c
  | RdVerifyDistributionMerkleRoot k p => G_RD_SEL_VERIFY_DISTRIBUTION_MERKLE_ROOT ++ enc c_root_kind k ++ enc c_proof p
  | RdInitializeSolanaValidatorDeposit k => G_RD_SEL_INITIALIZE_SOLANA_VALIDATOR_DEPOSIT ++ enc c_key k
  | RdPaySolanaValidatorDebt a p => G_RD_SEL_PAY_SOLANA_VALIDATOR_DEBT ++ enc c_u64 a ++ enc c_proof p
  | RdEnableSolanaValidatorDebtWriteOff => G_RD_SEL_ENABLE_SOLANA_VALIDATOR_DEBT_WRITE_OFF
  | RdWriteOffSolanaValidatorDebt a p => G_RD_SEL_WRITE_OFF_SOLANA_VALIDATOR_DEBT ++ enc c_u64 a ++ enc c_proof p
  | RdInitializeSwapDestination => G_RD_SEL_INITIALIZE_SWAP_DESTINATION
  | RdSweepDistributionTokens => G_RD_SEL_SWEEP_DISTRIBUTION_TOKENS_V1
  | RdWithdrawSol a => G_RD_SEL_WITHDRAW_SOL ++ enc c_u64 a
  end.

(* impl BorshDeserialize for RevenueDistributionInstructionData: the arms in the order of the Rust match *)
Definition dflt_proof := MProof [] None.
Definition dflt_kind := KindDebt dflt_debt.
Definition alts_rd : list (bytes * codec rd_ix) :=
  [ (G_RD_SEL_INITIALIZE_PROGRAM, c_const RdInitializeProgram);
    (G_RD_SEL_MIGRATE_PROGRAM_ACCOUNTS, c_const RdMigrateProgramAccounts);
    (G_RD_SEL_SET_ADMIN, c_map RdSetAdmin (fun x => match x with RdSetAdmin k => k | _ => [] end) c_key);
    (G_RD_SEL_CONFIGURE_PROGRAM, c_map RdConfigureProgram (fun x => match x with RdConfigureProgram c => c | _ => RpFlag dflt_flag end) c_rd_pcfg);
    (G_RD_SEL_INITIALIZE_JOURNAL, c_const RdInitializeJournal);
    (G_RD_SEL_INITIALIZE_DISTRIBUTION, c_const RdInitializeDistribution);
    (G_RD_SEL_CONFIGURE_DISTRIBUTION_DEBT,
       c_map (fun '(v, (d, r)) => RdConfigureDistributionDebt v d r)
             (fun x => match x with RdConfigureDistributionDebt v d r => (v, (d, r)) | _ => (0, (0, [])) end) c_cfg_debt);
    (G_RD_SEL_FINALIZE_DISTRIBUTION_DEBT, c_const RdFinalizeDistributionDebt);
    (G_RD_SEL_CONFIGURE_DISTRIBUTION_REWARDS,
       c_map (fun '(n, r) => RdConfigureDistributionRewards n r)
             (fun x => match x with RdConfigureDistributionRewards n r => (n, r) | _ => (0, []) end) c_cfg_rewards);
    (G_RD_SEL_FINALIZE_DISTRIBUTION_REWARDS, c_const RdFinalizeDistributionRewards);
    (G_RD_SEL_DISTRIBUTE_REWARDS,
       c_map (fun '(u, (e, p)) => RdDistributeRewards u e p)
             (fun x => match x with RdDistributeRewards u e p => (u, (e, p)) | _ => (0, (0, dflt_proof)) end) c_distribute);
    (G_RD_SEL_INITIALIZE_CONTRIBUTOR_REWARDS,
       c_map RdInitializeContributorRewards (fun x => match x with RdInitializeContributorRewards k => k | _ => [] end) c_key);
    (G_RD_SEL_SET_REWARDS_MANAGER, c_map RdSetRewardsManager (fun x => match x with RdSetRewardsManager k => k | _ => [] end) c_key);
    (G_RD_SEL_CONFIGURE_CONTRIBUTOR_REWARDS,
       c_map RdConfigureContributorRewards (fun x => match x with RdConfigureContributorRewards c => c | _ => CrRecipients [] end) c_cr_cfg);
    (G_RD_SEL_VERIFY_DISTRIBUTION_MERKLE_ROOT,
       c_map (fun '(k, p) => RdVerifyDistributionMerkleRoot k p)
             (fun x => match x with RdVerifyDistributionMerkleRoot k p => (k, p) | _ => (dflt_kind, dflt_proof) end) c_verify);
    (G_RD_SEL_INITIALIZE_SOLANA_VALIDATOR_DEPOSIT,
       c_map RdInitializeSolanaValidatorDeposit (fun x => match x with RdInitializeSolanaValidatorDeposit k => k | _ => [] end) c_key);
    (G_RD_SEL_PAY_SOLANA_VALIDATOR_DEBT,
       c_map (fun '(a, p) => RdPaySolanaValidatorDebt a p)
             (fun x => match x with RdPaySolanaValidatorDebt a p => (a, p) | _ => (0, dflt_proof) end) c_amount_proof);
    (G_RD_SEL_ENABLE_SOLANA_VALIDATOR_DEBT_WRITE_OFF, c_const RdEnableSolanaValidatorDebtWriteOff);
    (G_RD_SEL_WRITE_OFF_SOLANA_VALIDATOR_DEBT,
       c_map (fun '(a, p) => RdWriteOffSolanaValidatorDebt a p)
             (fun x => match x with RdWriteOffSolanaValidatorDebt a p => (a, p) | _ => (0, dflt_proof) end) c_amount_proof);
    (G_RD_SEL_INITIALIZE_SWAP_DESTINATION, c_const RdInitializeSwapDestination);
    (G_RD_SEL_SWEEP_DISTRIBUTION_TOKENS_V1, c_const RdSweepDistributionTokens);
    (G_RD_SEL_WITHDRAW_SOL, c_map RdWithdrawSol (fun x => match x with RdWithdrawSol a => a | _ => 0 end) c_u64) ].
Definition SEL_LEN : nat := 8.   (* DISCRIMINATOR_LEN; pinned to Generated.v in Props_C19 *)
Definition decode_rd : bytes -> option (rd_ix * bytes) := dec_union SEL_LEN alts_rd.
Definition c_rd : codec rd_ix := c_union SEL_LEN alts_rd wf_rd encode_rd.

(* ================================================================ passport *)
Inductive pp_flag := PfIsPaused (b : bool) | PfIsRequestAccessPaused (b : bool).
Inductive pp_pcfg :=
| PcFlag (f : pp_flag)
| PcDoubleZeroLedgerSentinel (k : bytes)
| PcAccessRequestDeposit (request_deposit_lamports request_fee_lamports : N)
| PcSolanaValidatorBackupIdsLimit (n : N).
Record attestation := Att { validator_id : bytes; att_service_key : bytes; ed25519_signature : bytes }.
Inductive access_mode :=
| AmSolanaValidator (a : attestation)
| AmSolanaValidatorWithBackupIds (a : attestation) (backup_ids : list bytes).
Inductive pp_ix :=
| PpInitializeProgram
| PpSetAdmin (admin_key : bytes)
| PpConfigureProgram (setting : pp_pcfg)
| PpRequestAccess (mode : access_mode)
| PpGrantAccess
| PpDenyAccess.

Definition wf_pp_flag (f : pp_flag) : Prop := match f with PfIsPaused b | PfIsRequestAccessPaused b => wf c_bool b end.
Definition enc_pp_flag (f : pp_flag) : bytes :=
  match f with
  | PfIsPaused b => [G_PP_FLAG_TAG_IS_PAUSED] ++ enc c_bool b
  | PfIsRequestAccessPaused b => [G_PP_FLAG_TAG_IS_REQUEST_ACCESS_PAUSED] ++ enc c_bool b
  end.
Definition alts_pp_flag : list (bytes * codec pp_flag) :=
  [ ([G_PP_FLAG_TAG_IS_PAUSED], c_map PfIsPaused (fun f => match f with PfIsPaused b => b | _ => false end) c_bool);
    ([G_PP_FLAG_TAG_IS_REQUEST_ACCESS_PAUSED],
       c_map PfIsRequestAccessPaused (fun f => match f with PfIsRequestAccessPaused b => b | _ => false end) c_bool) ].
Definition c_pp_flag : codec pp_flag := c_union 1 alts_pp_flag wf_pp_flag enc_pp_flag.

Definition c_deposit := c_pair c_u64 c_u64.
Definition wf_pp_pcfg (c : pp_pcfg) : Prop :=
  match c with
  | PcFlag f => wf c_pp_flag f
  | PcDoubleZeroLedgerSentinel k => wf c_key k
  | PcAccessRequestDeposit d f => wf c_deposit (d, f)
  | PcSolanaValidatorBackupIdsLimit n => wf c_u16 n
  end.
Definition enc_pp_pcfg (c : pp_pcfg) : bytes :=
  match c with
  | PcFlag f => [G_PP_PC_TAG_FLAG] ++ enc c_pp_flag f
  | PcDoubleZeroLedgerSentinel k => [G_PP_PC_TAG_DOUBLE_ZERO_LEDGER_SENTINEL] ++ enc c_key k
  | PcAccessRequestDeposit d f => [G_PP_PC_TAG_ACCESS_REQUEST_DEPOSIT] ++ enc c_u64 d ++ enc c_u64 f
  | PcSolanaValidatorBackupIdsLimit n => [G_PP_PC_TAG_SOLANA_VALIDATOR_BACKUP_IDS_LIMIT] ++ enc c_u16 n
  end.
Definition alts_pp_pcfg : list (bytes * codec pp_pcfg) :=
  [ ([G_PP_PC_TAG_FLAG], c_map PcFlag (fun c => match c with PcFlag f => f | _ => PfIsPaused false end) c_pp_flag);
    ([G_PP_PC_TAG_DOUBLE_ZERO_LEDGER_SENTINEL],
       c_map PcDoubleZeroLedgerSentinel (fun c => match c with PcDoubleZeroLedgerSentinel k => k | _ => [] end) c_key);
    ([G_PP_PC_TAG_ACCESS_REQUEST_DEPOSIT],
       c_map (fun '(d, f) => PcAccessRequestDeposit d f) (fun c => match c with PcAccessRequestDeposit d f => (d, f) | _ => (0, 0) end) c_deposit);
    ([G_PP_PC_TAG_SOLANA_VALIDATOR_BACKUP_IDS_LIMIT],
       c_map PcSolanaValidatorBackupIdsLimit (fun c => match c with PcSolanaValidatorBackupIdsLimit n => n | _ => 0 end) c_u16) ].
Definition c_pp_pcfg : codec pp_pcfg := c_union 1 alts_pp_pcfg wf_pp_pcfg enc_pp_pcfg.

Definition c_att : codec attestation :=
  c_map (fun '(v, (s, g)) => Att v s g) (fun a => (validator_id a, (att_service_key a, ed25519_signature a)))
        (c_pair c_key (c_pair c_key (c_arr 64))).
Definition c_att_ids := c_pair c_att (c_vec c_key).
Definition wf_access_mode (m : access_mode) : Prop :=
  match m with AmSolanaValidator a => wf c_att a | AmSolanaValidatorWithBackupIds a ids => wf c_att_ids (a, ids) end.
Definition enc_access_mode (m : access_mode) : bytes :=
  match m with
  | AmSolanaValidator a => [G_PP_AM_TAG_SOLANA_VALIDATOR] ++ enc c_att a
  | AmSolanaValidatorWithBackupIds a ids => [G_PP_AM_TAG_SOLANA_VALIDATOR_WITH_BACKUP_IDS] ++ enc c_att a ++ enc (c_vec c_key) ids
  end.
Definition dflt_att := Att [] [] [].
Definition alts_access_mode : list (bytes * codec access_mode) :=
  [ ([G_PP_AM_TAG_SOLANA_VALIDATOR], c_map AmSolanaValidator (fun m => match m with AmSolanaValidator a => a | _ => dflt_att end) c_att);
    ([G_PP_AM_TAG_SOLANA_VALIDATOR_WITH_BACKUP_IDS],
       c_map (fun '(a, ids) => AmSolanaValidatorWithBackupIds a ids)
             (fun m => match m with AmSolanaValidatorWithBackupIds a ids => (a, ids) | _ => (dflt_att, []) end) c_att_ids) ].
Definition c_access_mode : codec access_mode := c_union 1 alts_access_mode wf_access_mode enc_access_mode.

Definition wf_pp (x : pp_ix) : Prop :=
  match x with
  | PpInitializeProgram | PpGrantAccess | PpDenyAccess => True
  | PpSetAdmin k => wf c_key k
  | PpConfigureProgram c => wf c_pp_pcfg c
  | PpRequestAccess m => wf c_access_mode m
  end.
Definition encode_pp (x : pp_ix) : bytes :=
  match x with
  | PpInitializeProgram => G_PP_SEL_INITIALIZE_PROGRAM
  | PpSetAdmin k => G_PP_SEL_SET_ADMIN ++ enc c_key k
  | PpConfigureProgram c => G_PP_SEL_CONFIGURE_PROGRAM ++ enc c_pp_pcfg c
  | PpRequestAccess m => G_PP_SEL_REQUEST_ACCESS ++ enc c_access_mode m
  | PpGrantAccess => G_PP_SEL_GRANT_ACCESS
  | PpDenyAccess => G_PP_SEL_DENY_ACCESS
  end.
Definition alts_pp : list (bytes * codec pp_ix) :=
  [ (G_PP_SEL_INITIALIZE_PROGRAM, c_const PpInitializeProgram);
    (G_PP_SEL_SET_ADMIN, c_map PpSetAdmin (fun x => match x with PpSetAdmin k => k | _ => [] end) c_key);
    (G_PP_SEL_CONFIGURE_PROGRAM,
       c_map PpConfigureProgram (fun x => match x with PpConfigureProgram c => c | _ => PcFlag (PfIsPaused false) end) c_pp_pcfg);
    (G_PP_SEL_REQUEST_ACCESS,
       c_map PpRequestAccess (fun x => match x with PpRequestAccess m => m | _ => AmSolanaValidator dflt_att end) c_access_mode);
    (G_PP_SEL_GRANT_ACCESS, c_const PpGrantAccess);
    (G_PP_SEL_DENY_ACCESS, c_const PpDenyAccess) ].
Definition decode_pp : bytes -> option (pp_ix * bytes) := dec_union SEL_LEN alts_pp.
Definition c_pp : codec pp_ix := c_union SEL_LEN alts_pp wf_pp encode_pp.

(* ================================================================ mock swap *)
Inductive sw_ix := SwInitializeFillsRegistry | SwBuySol (amount_2z_in amount_sol_out : N) | SwDequeueFills (max_sol_amount : N).
Definition c_buy := c_pair c_u64 c_u64.
Definition wf_sw (x : sw_ix) : Prop :=
  match x with SwInitializeFillsRegistry => True | SwBuySol a b => wf c_buy (a, b) | SwDequeueFills a => wf c_u64 a end.
Definition encode_sw (x : sw_ix) : bytes :=
  match x with
  | SwInitializeFillsRegistry => G_SW_SEL_INITIALIZE_FILLS_TRACKER
  | SwBuySol a b => G_SW_SEL_BUY_SOL ++ enc c_u64 a ++ enc c_u64 b
  | SwDequeueFills a => G_SW_SEL_DEQUEUE_FILLS ++ enc c_u64 a
  end.
Definition alts_sw : list (bytes * codec sw_ix) :=
  [ (G_SW_SEL_INITIALIZE_FILLS_TRACKER, c_const SwInitializeFillsRegistry);
    (G_SW_SEL_BUY_SOL, c_map (fun '(a, b) => SwBuySol a b) (fun x => match x with SwBuySol a b => (a, b) | _ => (0, 0) end) c_buy);
    (G_SW_SEL_DEQUEUE_FILLS, c_map SwDequeueFills (fun x => match x with SwDequeueFills a => a | _ => 0 end) c_u64) ].
Definition decode_sw : bytes -> option (sw_ix * bytes) := dec_union SEL_LEN alts_sw.
Definition c_sw : codec sw_ix := c_union SEL_LEN alts_sw wf_sw encode_sw.

Definition selectors_rd : list bytes := map fst alts_rd.
Definition selectors_pp : list bytes := map fst alts_pp.
Definition selectors_sw : list bytes := map fst alts_sw.

(* ================================================================ try_from_slice and the head of try_process_instruction *)
Definition try_from_slice {T} (decode : bytes -> option (T * bytes)) (bs : bytes) : option T :=
  match decode bs with Some (x, []) => Some x | _ => None end.
Definition try_from_slice_rd := try_from_slice decode_rd.
Definition try_from_slice_pp := try_from_slice decode_pp.
Definition try_from_slice_sw := try_from_slice decode_sw.

(* if program_id != &ID { return Err(IncorrectProgramId) }
   let ix_data = BorshDeserialize::try_from_slice(data).map_err(|_| InvalidInstructionData)?;
   -- no account is mentioned: the prefix is a function of the program id and the data alone *)
Definition process_prefix {T} (id : bytes) (tfs : bytes -> option T) (pid data : bytes) : result T :=
  if negb (bytes_eqb pid id) then Err EIncorrectProgramId
  else match tfs data with None => Err EInvalidInstructionData | Some ix => Ok ix end.
Definition process_prefix_rd := process_prefix G_RD_ID try_from_slice_rd.
Definition process_prefix_pp := process_prefix G_PP_ID try_from_slice_pp.
Definition process_prefix_sw := process_prefix G_SW_ID try_from_slice_sw.

(* Argument checks that four revenue-distribution handlers make BEFORE they look at an account
   (`try_leaf_index(&proof)?`: the proof must carry a leaf index, else InvalidInstructionData).  Needed only to
   predict the error class of well-formed instructions in the correspondence; no other handler of the three
   programs refuses its arguments before reading accounts (transaction-level call). *)
Definition handler_precheck_rd (x : rd_ix) : result unit :=
  match x with
  | RdDistributeRewards _ _ p | RdVerifyDistributionMerkleRoot _ p | RdPaySolanaValidatorDebt _ p | RdWriteOffSolanaValidatorDebt _ p =>
      match leaf_index p with Some _ => Ok tt | None => Err EInvalidInstructionData end
  | _ => Ok tt
  end.

(* ================================================================ correspondence and monitor (cases written by `dzh direct-wire`) *)
Inductive ixv := VRd (x : rd_ix) | VPp (x : pp_ix) | VSw (x : sw_ix).
Inductive rclass := RInvalidData | RIncorrectProgramId | RDispatched.
Inductive edit := ESame | ETrunc (n : N) | EAppend (ext : bytes) | EFlip (i x : N) | ERaw (bs : bytes).
(* one byte string given to the real code: the edit that produced it from the valid encoding, its length and byte sum
   (so that the two sides provably talk about the same string), the real try_from_slice result, whether re-encoding
   that result with the real serialiser gave the input back, and the class of the real processor's answer *)
Record obs := Obs { o_edit : edit; o_len : N; o_sum : N; o_dec : option ixv; o_canon : bool; o_class : rclass }.
Record wcase := WCase { w_val : ixv; w_bytes : bytes; w_pid : bytes; w_pid_class : rclass; w_obs : list obs }.

Fixpoint flip_at (i : nat) (x : N) (bs : bytes) : bytes :=
  match bs, i with
  | [], _ => []
  | b :: tl, O => N.lxor b x :: tl
  | b :: tl, S j => b :: flip_at j x tl
  end.
Definition apply_edit (e : edit) (bs : bytes) : bytes :=
  match e with
  | ESame => bs
  | ETrunc n => firstn (N.to_nat n) bs
  | EAppend ext => bs ++ ext
  | EFlip i x => flip_at (N.to_nat i) x bs
  | ERaw r => r
  end.

(* decidable equality of values, field by field *)
Fixpoint list_eqb {A} (eqb : A -> A -> bool) (a b : list A) : bool :=
  match a, b with
  | [], [] => true
  | x :: a', y :: b' => eqb x y && list_eqb eqb a' b'
  | _, _ => false
  end.
Definition option_eqb {A} (eqb : A -> A -> bool) (a b : option A) : bool :=
  match a, b with Some x, Some y => eqb x y | None, None => true | _, _ => false end.
Definition side_eqb (a b : leaf_side) : bool := match a, b with SideLeft, SideLeft | SideRight, SideRight => true | _, _ => false end.
Definition sibling_eqb (a b : merkle_sibling) : bool := bytes_eqb (sib_hash a) (sib_hash b) && side_eqb (sib_side a) (sib_side b).
Definition proof_eqb (a b : merkle_proof) : bool :=
  list_eqb sibling_eqb (siblings a) (siblings b) && option_eqb N.eqb (leaf_index a) (leaf_index b).
Definition rd_pcfg_eqb (a b : rd_pcfg) : bool :=
  match a, b with
  | RpFlag (RdIsPaused x), RpFlag (RdIsPaused y) => Bool.eqb x y
  | RpDebtAccountant x, RpDebtAccountant y | RpRewardsAccountant x, RpRewardsAccountant y
  | RpContributorManager x, RpContributorManager y | RpPlaceholderKey x, RpPlaceholderKey y
  | RpSol2zSwapProgram x, RpSol2zSwapProgram y => bytes_eqb x y
  | RpSolanaValidatorFeeParameters a1 a2 a3 a4 a5 a6, RpSolanaValidatorFeeParameters b1 b2 b3 b4 b5 b6 =>
      N.eqb a1 b1 && N.eqb a2 b2 && N.eqb a3 b3 && N.eqb a4 b4 && N.eqb a5 b5 && bytes_eqb a6 b6
  | RpCalculationGracePeriodMinutes x, RpCalculationGracePeriodMinutes y
  | RpPlaceholderRelayLamports x, RpPlaceholderRelayLamports y
  | RpDistributeRewardsRelayLamports x, RpDistributeRewardsRelayLamports y
  | RpMinimumEpochDurationToFinalizeRewards x, RpMinimumEpochDurationToFinalizeRewards y
  | RpDistributionInitializationGracePeriodMinutes x, RpDistributionInitializationGracePeriodMinutes y => N.eqb x y
  | RpCommunityBurnRateParameters a1 a2 a3 a4, RpCommunityBurnRateParameters b1 b2 b3 b4 =>
      N.eqb a1 b1 && N.eqb a2 b2 && N.eqb a3 b3 && option_eqb N.eqb a4 b4
  | RpFeatureActivation RdFeatSolanaValidatorDebtWriteOff x, RpFeatureActivation RdFeatSolanaValidatorDebtWriteOff y => N.eqb x y
  | _, _ => false
  end.
Definition cr_cfg_eqb (a b : cr_cfg) : bool :=
  match a, b with
  | CrRecipients x, CrRecipients y => list_eqb (fun p q => bytes_eqb (fst p) (fst q) && N.eqb (snd p) (snd q)) x y
  | CrIsSetRewardsManagerBlocked x, CrIsSetRewardsManagerBlocked y => Bool.eqb x y
  | _, _ => false
  end.
Definition root_kind_eqb (a b : root_kind) : bool :=
  match a, b with
  | KindDebt x, KindDebt y => bytes_eqb (node_id x) (node_id y) && N.eqb (debt_amount x) (debt_amount y)
  | KindShare x, KindShare y =>
      bytes_eqb (contributor_key x) (contributor_key y) && N.eqb (unit_share x) (unit_share y) && bytes_eqb (remaining_bytes x) (remaining_bytes y)
  | _, _ => false
  end.
Definition rd_ix_eqb (a b : rd_ix) : bool :=
  match a, b with
  | RdInitializeProgram, RdInitializeProgram | RdMigrateProgramAccounts, RdMigrateProgramAccounts
  | RdInitializeJournal, RdInitializeJournal | RdInitializeDistribution, RdInitializeDistribution
  | RdFinalizeDistributionDebt, RdFinalizeDistributionDebt | RdFinalizeDistributionRewards, RdFinalizeDistributionRewards
  | RdEnableSolanaValidatorDebtWriteOff, RdEnableSolanaValidatorDebtWriteOff
  | RdInitializeSwapDestination, RdInitializeSwapDestination | RdSweepDistributionTokens, RdSweepDistributionTokens => true
  | RdSetAdmin x, RdSetAdmin y | RdInitializeContributorRewards x, RdInitializeContributorRewards y
  | RdSetRewardsManager x, RdSetRewardsManager y | RdInitializeSolanaValidatorDeposit x, RdInitializeSolanaValidatorDeposit y => bytes_eqb x y
  | RdConfigureProgram x, RdConfigureProgram y => rd_pcfg_eqb x y
  | RdConfigureDistributionDebt a1 a2 a3, RdConfigureDistributionDebt b1 b2 b3 => N.eqb a1 b1 && N.eqb a2 b2 && bytes_eqb a3 b3
  | RdConfigureDistributionRewards a1 a2, RdConfigureDistributionRewards b1 b2 => N.eqb a1 b1 && bytes_eqb a2 b2
  | RdDistributeRewards a1 a2 a3, RdDistributeRewards b1 b2 b3 => N.eqb a1 b1 && N.eqb a2 b2 && proof_eqb a3 b3
  | RdConfigureContributorRewards x, RdConfigureContributorRewards y => cr_cfg_eqb x y
  | RdVerifyDistributionMerkleRoot a1 a2, RdVerifyDistributionMerkleRoot b1 b2 => root_kind_eqb a1 b1 && proof_eqb a2 b2
  | RdPaySolanaValidatorDebt a1 a2, RdPaySolanaValidatorDebt b1 b2
  | RdWriteOffSolanaValidatorDebt a1 a2, RdWriteOffSolanaValidatorDebt b1 b2 => N.eqb a1 b1 && proof_eqb a2 b2
  | RdWithdrawSol x, RdWithdrawSol y => N.eqb x y
  | _, _ => false
  end.
Definition att_eqb (a b : attestation) : bool :=
  bytes_eqb (validator_id a) (validator_id b) && bytes_eqb (att_service_key a) (att_service_key b) && bytes_eqb (ed25519_signature a) (ed25519_signature b).
Definition pp_ix_eqb (a b : pp_ix) : bool :=
  match a, b with
  | PpInitializeProgram, PpInitializeProgram | PpGrantAccess, PpGrantAccess | PpDenyAccess, PpDenyAccess => true
  | PpSetAdmin x, PpSetAdmin y => bytes_eqb x y
  | PpConfigureProgram (PcFlag (PfIsPaused x)), PpConfigureProgram (PcFlag (PfIsPaused y))
  | PpConfigureProgram (PcFlag (PfIsRequestAccessPaused x)), PpConfigureProgram (PcFlag (PfIsRequestAccessPaused y)) => Bool.eqb x y
  | PpConfigureProgram (PcDoubleZeroLedgerSentinel x), PpConfigureProgram (PcDoubleZeroLedgerSentinel y) => bytes_eqb x y
  | PpConfigureProgram (PcAccessRequestDeposit a1 a2), PpConfigureProgram (PcAccessRequestDeposit b1 b2) => N.eqb a1 b1 && N.eqb a2 b2
  | PpConfigureProgram (PcSolanaValidatorBackupIdsLimit x), PpConfigureProgram (PcSolanaValidatorBackupIdsLimit y) => N.eqb x y
  | PpRequestAccess (AmSolanaValidator x), PpRequestAccess (AmSolanaValidator y) => att_eqb x y
  | PpRequestAccess (AmSolanaValidatorWithBackupIds x xs), PpRequestAccess (AmSolanaValidatorWithBackupIds y ys) =>
      att_eqb x y && list_eqb bytes_eqb xs ys
  | _, _ => false
  end.
Definition sw_ix_eqb (a b : sw_ix) : bool :=
  match a, b with
  | SwInitializeFillsRegistry, SwInitializeFillsRegistry => true
  | SwBuySol a1 a2, SwBuySol b1 b2 => N.eqb a1 b1 && N.eqb a2 b2
  | SwDequeueFills x, SwDequeueFills y => N.eqb x y
  | _, _ => false
  end.
Definition ixv_eqb (a b : ixv) : bool :=
  match a, b with
  | VRd x, VRd y => rd_ix_eqb x y
  | VPp x, VPp y => pp_ix_eqb x y
  | VSw x, VSw y => sw_ix_eqb x y
  | _, _ => false
  end.
Definition rclass_eqb (a b : rclass) : bool :=
  match a, b with
  | RInvalidData, RInvalidData | RIncorrectProgramId, RIncorrectProgramId | RDispatched, RDispatched => true
  | _, _ => false
  end.

(* the model on a value / byte string of the program that `like` belongs to *)
Definition encode_v (v : ixv) : bytes :=
  match v with VRd x => encode_rd x | VPp x => encode_pp x | VSw x => encode_sw x end.
Definition try_from_slice_v (like : ixv) (bs : bytes) : option ixv :=
  match like with
  | VRd _ => option_map VRd (try_from_slice_rd bs)
  | VPp _ => option_map VPp (try_from_slice_pp bs)
  | VSw _ => option_map VSw (try_from_slice_sw bs)
  end.
Definition class_of {T} (r : result T) : rclass :=
  match r with
  | Ok _ => RDispatched
  | Err EInvalidInstructionData => RInvalidData
  | Err EIncorrectProgramId => RIncorrectProgramId
  | Err _ => RDispatched
  end.
Definition process_class (like : ixv) (pid data : bytes) : rclass :=
  match like with
  | VRd _ => class_of (ix <- process_prefix_rd pid data ;; handler_precheck_rd ix)
  | VPp _ => class_of (process_prefix_pp pid data)
  | VSw _ => class_of (process_prefix_sw pid data)
  end.
Definition own_id (like : ixv) : bytes := match like with VRd _ => G_RD_ID | VPp _ => G_PP_ID | VSw _ => G_SW_ID end.
Definition selectors_of (like : ixv) : list bytes :=
  match like with VRd _ => selectors_rd | VPp _ => selectors_pp | VSw _ => selectors_sw end.

(* first disagreement as (index of the observation + 1, or 0 for the case header; what): None = the case checks.
   what: 1 model encoding <> real bytes, 2 try_from_slice differs, 3 error class differs, 4 the edit produced another
   byte string than the harness's (length / byte sum), 5 class under the foreign program id differs *)
Fixpoint first_bad {A} (f : A -> option N) (l : list A) (i : N) : option (N * N) :=
  match l with
  | [] => None
  | a :: tl => match f a with Some w => Some (i, w) | None => first_bad f tl (i + 1) end
  end.
Definition corr_obs (c : wcase) (o : obs) : option N :=
  let bs := apply_edit (o_edit o) (w_bytes c) in
  if negb (N.eqb (N.of_nat (length bs)) (o_len o) && N.eqb (sumN bs) (o_sum o)) then Some 4
  else if negb (option_eqb ixv_eqb (try_from_slice_v (w_val c) bs) (o_dec o)) then Some 2
  else if negb (rclass_eqb (process_class (w_val c) (own_id (w_val c)) bs) (o_class o)) then Some 3
  else None.
Definition corr_C19 (c : wcase) : option (N * N) :=
  if negb (bytes_eqb (encode_v (w_val c)) (w_bytes c)) then Some (0, 1)
  else if negb (rclass_eqb (process_class (w_val c) (w_pid c) (w_bytes c)) (w_pid_class c)) then Some (0, 5)
  else first_bad (corr_obs c) (w_obs c) 1.

(* the property read on the implementation's answers alone.  what:
   11 the real decoder does not return the value that was encoded (decode . encode <> id)
   12 a proper prefix or a proper extension of a valid encoding was not refused (parse or error class)
   13 a byte string that does not parse was not answered InvalidInstructionData (or the foreign id was reported instead)
   14 a byte string parsed although its first 8 bytes are no selector of the program, or it is shorter than a selector
   15 a byte string parsed to a value whose real re-encoding is a different byte string (not canonical)
   16 the foreign program id was not answered IncorrectProgramId *)
Definition mon_obs (c : wcase) (o : obs) : option N :=
  let bs := apply_edit (o_edit o) (w_bytes c) in
  let parsed := match o_dec o with Some _ => true | None => false end in
  let refused := negb parsed && rclass_eqb (o_class o) RInvalidData in
  let proper_cut := match o_edit o with
                    | ETrunc n => n <? N.of_nat (length (w_bytes c))
                    | EAppend ext => negb (Nat.eqb (length ext) 0)
                    | _ => false end in
  let is_same := match o_edit o with ESame => true | _ => false end in
  if is_same && negb (option_eqb ixv_eqb (o_dec o) (Some (w_val c))) then Some 11
  else if proper_cut && negb refused then Some 12
  else if negb parsed && negb (rclass_eqb (o_class o) RInvalidData) then Some 13
  else if rclass_eqb (o_class o) RIncorrectProgramId then Some 13
  else if parsed && negb (memb (firstn SEL_LEN bs) (selectors_of (w_val c)) && (SEL_LEN <=? length bs)%nat) then Some 14
  else if parsed && negb (o_canon o) then Some 15
  else None.
Definition mon_C19 (c : wcase) : option (N * N) :=
  if negb (bytes_eqb (w_pid c) (own_id (w_val c))) && negb (rclass_eqb (w_pid_class c) RIncorrectProgramId) then Some (0, 16)
  else first_bad (mon_obs c) (w_obs c) 1.

(* what the model itself would report for a value and a list of edits: the case the harness would print if the
   implementation behaved exactly as Wire.v says.  Props_C19 proves that monitor and correspondence accept it. *)
Definition wf_v (v : ixv) : Prop := match v with VRd x => wf_rd x | VPp x => wf_pp x | VSw x => wf_sw x end.
Definition model_obs (v : ixv) (e : edit) : obs :=
  let bs := apply_edit e (encode_v v) in
  let d := try_from_slice_v v bs in
  Obs e (N.of_nat (length bs)) (sumN bs) d
      (match d with Some y => bytes_eqb (encode_v y) bs | None => false end)
      (process_class v (own_id v) bs).
Definition model_case (v : ixv) (pid : bytes) (es : list edit) : wcase :=
  WCase v (encode_v v) pid (process_class v pid (encode_v v)) (map (model_obs v) es).
