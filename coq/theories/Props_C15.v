(* C15 (snapshot part) — each distribution permanently keeps the epoch, the validator fee parameters, the relay fee, the
   community burn rate and the earliest calculation time it was created with: no later instruction of any program (hence
   no later configuration change) alters them.  Property theorems only (proofs in Lemmas_Inv*.v). *)
From DZ Require Import Base Keys Merkle State World RD Exec Lemmas_Inv Lemmas_Inv2 Lemmas_Inv3.

Theorem C15_snapshot_immutable : forall W t W' ok k d tl d' tl',
  exec_tx W t = (W', ok) -> dist_at W k = Some (d, tl) -> dist_at W' k = Some (d', tl') ->
  d_epoch d' = d_epoch d /\ d_fees d' = d_fees d /\ d_relay d' = d_relay d /\ d_cbr d' = d_cbr d /\
  d_calc_allowed_ts d' = d_calc_allowed_ts d.
Proof. exact snapshot_immutable. Qed.
Check C15_snapshot_immutable : forall W t W' ok k d tl d' tl',
  exec_tx W t = (W', ok) -> dist_at W k = Some (d, tl) -> dist_at W' k = Some (d', tl') ->
  d_epoch d' = d_epoch d /\ d_fees d' = d_fees d /\ d_relay d' = d_relay d /\ d_cbr d' = d_cbr d /\
  d_calc_allowed_ts d' = d_calc_allowed_ts d.
Print Assumptions C15_snapshot_immutable.

(* any honest history from any world, while account k stays a distribution *)
Theorem C15_snapshot_immutable_run : forall ops W k d d' tl tl', Forall honest_op ops -> alive W ops k ->
  dist_at W k = Some (d, tl) -> dist_at (run W ops) k = Some (d', tl') ->
  d_epoch d' = d_epoch d /\ d_fees d' = d_fees d /\ d_relay d' = d_relay d /\ d_cbr d' = d_cbr d /\
  d_calc_allowed_ts d' = d_calc_allowed_ts d.
Proof. exact snapshot_immutable_run. Qed.
Check C15_snapshot_immutable_run : forall ops W k d d' tl tl', Forall honest_op ops ->
  (forall n, dist_at (fold_left (fun W o => fst (exec_op W o)) (firstn n ops) W) k <> None) ->
  dist_at W k = Some (d, tl) -> dist_at (fold_left (fun W o => fst (exec_op W o)) ops W) k = Some (d', tl') ->
  d_epoch d' = d_epoch d /\ d_fees d' = d_fees d /\ d_relay d' = d_relay d /\ d_cbr d' = d_cbr d /\
  d_calc_allowed_ts d' = d_calc_allowed_ts d.
Print Assumptions C15_snapshot_immutable_run.

Theorem C15_nonvacuous :
  Forall honest_op ex_ops /\ alive ex_W ex_ops (KRdDist 7) /\
  exists d' tl', dist_at (run ex_W ex_ops) (KRdDist 7) = Some (d', tl') /\
    d_debt_final ex_dist = false /\ d_debt_final d' = true /\ d_total_validators d' = 3 /\ d_epoch d' = 7.
Proof. exact run_monoL_nonvacuous. Qed.
Check C15_nonvacuous :
  Forall honest_op ex_ops /\ alive ex_W ex_ops (KRdDist 7) /\
  exists d' tl', dist_at (run ex_W ex_ops) (KRdDist 7) = Some (d', tl') /\
    d_debt_final ex_dist = false /\ d_debt_final d' = true /\ d_total_validators d' = 3 /\ d_epoch d' = 7.
Print Assumptions C15_nonvacuous.
