(* C15 (snapshot part) — each distribution permanently keeps the epoch, the validator fee parameters, the relay fee, the
   community burn rate and the earliest calculation time it was created with: no later instruction of any program (hence
   no later configuration change) alters them.  Property theorems only (proofs in Lemmas_Inv*.v). *)
From DZ Require Import Base Keys Merkle State World RD Exec Lemmas_Inv Lemmas_Inv2 Lemmas_Inv3.

Theorem C15_snapshot_immutable : forall W t W' ok k d tl d' tl',
  exec_tx W t = (W', ok) -> dist_at W k = Some (d, tl) -> dist_at W' k = Some (d', tl') ->
  d_epoch d' = d_epoch d /\ d_fees d' = d_fees d /\ d_relay d' = d_relay d /\ d_cbr d' = d_cbr d /\
  d_calc_allowed_ts d' = d_calc_allowed_ts d.
Proof. exact snapshot_immutable. Qed.
Check C15_snapshot_immutable : forall W t W' ok k d tl d' tl',
  exec_tx W t = (W', ok) -> dist_at W k = Some (d, tl) -> dist_at W' k = Some (d', tl') ->
  d_epoch d' = d_epoch d /\ d_fees d' = d_fees d /\ d_relay d' = d_relay d /\ d_cbr d' = d_cbr d /\
  d_calc_allowed_ts d' = d_calc_allowed_ts d.
Print Assumptions C15_snapshot_immutable.

(* any honest history from any world, while account k stays a distribution *)
Theorem C15_snapshot_immutable_run : forall ops W k d d' tl tl', Forall honest_op ops -> alive W ops k ->
  dist_at W k = Some (d, tl) -> dist_at (run W ops) k = Some (d', tl') ->
  d_epoch d' = d_epoch d /\ d_fees d' = d_fees d /\ d_relay d' = d_relay d /\ d_cbr d' = d_cbr d /\
  d_calc_allowed_ts d' = d_calc_allowed_ts d.
Proof. exact snapshot_immutable_run. Qed.
Check C15_snapshot_immutable_run : forall ops W k d d' tl tl', Forall honest_op ops ->
  (forall n, dist_at (fold_left (fun W o => fst (exec_op W o)) (firstn n ops) W) k <> None) ->
  dist_at W k = Some (d, tl) -> dist_at (fold_left (fun W o => fst (exec_op W o)) ops W) k = Some (d', tl') ->
  d_epoch d' = d_epoch d /\ d_fees d' = d_fees d /\ d_relay d' = d_relay d /\ d_cbr d' = d_cbr d /\
  d_calc_allowed_ts d' = d_calc_allowed_ts d.
Print Assumptions C15_snapshot_immutable_run.

Theorem C15_nonvacuous :
  Forall honest_op ex_ops /\ alive ex_W ex_ops (KRdDist 7) /\
  exists d' tl', dist_at (run ex_W ex_ops) (KRdDist 7) = Some (d', tl') /\
    d_debt_final ex_dist = false /\ d_debt_final d' = true /\ d_total_validators d' = 3 /\ d_epoch d' = 7.
Proof. exact run_monoL_nonvacuous. Qed.
Check C15_nonvacuous :
  Forall honest_op ex_ops /\ alive ex_W ex_ops (KRdDist 7) /\
  exists d' tl', dist_at (run ex_W ex_ops) (KRdDist 7) = Some (d', tl') /\
    d_debt_final ex_dist = false /\ d_debt_final d' = true /\ d_total_validators d' = 3 /\ d_epoch d' = 7.
Print Assumptions C15_nonvacuous.

From DZ Require Import Base Keys Merkle BurnRate Shares Swap_Ring State World SwapDeq RD Passport Swap Exec Lemmas_RdGuards Lemmas_RdGuards2.

(* creation succeeds only for the debt accountant, unpaused, after the initialization grace period, with every snapshotted parameter configured, at exactly the address of epoch next_epoch and its custody, both still unused *)
Theorem C15_creation_guards :
  forall (cx : ctx) (W W' : world),
         rd_initialize_distribution cx W = Ok W' ->
         exists
           (m0 m1 m2 m3 m4 m5 m6 m7 m8 m9 : meta) (rest : list meta) (c : rd_config) 
         (j : journal) (rate : N) (burn' : params),
           cx_metas cx = m0 :: m1 :: m2 :: m3 :: m4 :: m5 :: m6 :: m7 :: m8 :: m9 :: rest /\
           mwritable m0 = true /\
           rd_acct W (mkey m0) (DConfig c) /\
           msigner m1 = true /\
           mkey m1 = c_debt_accountant c /\
           c_paused c = false /\
           c_init_grace_min c <> 0 /\
           c_last_init_ts c + c_init_grace_min c * 60 <= now W /\
           now W < two32 /\
           c_calc_grace_min c <> 0 /\
           fees_configured (c_fees c) = true /\
           br_compute (c_burn c) = Some (rate, burn') /\
           c_relay c <> 0 /\
           mkey m3 = KRdDist (c_next_epoch c) /\
           mkey m4 = KTok2z (KRdDist (c_next_epoch c)) /\
           mkey m5 = KMint /\
           mkey m6 = KToken /\
           fresh_acct W (KRdDist (c_next_epoch c)) /\
           fresh_acct W (KTok2z (KRdDist (c_next_epoch c))) /\
           token_mint W KMint /\
           mwritable m7 = true /\
           rd_acct W (mkey m7) (DJournal j) /\ mkey m8 = KTok2z (mkey m7) /\ mkey m9 = KAta (mkey m7) KMint.
Proof. exact rd_initialize_distribution_guards. Qed.
Check C15_creation_guards :
  forall (cx : ctx) (W W' : world),
         rd_initialize_distribution cx W = Ok W' ->
         exists
           (m0 m1 m2 m3 m4 m5 m6 m7 m8 m9 : meta) (rest : list meta) (c : rd_config) 
         (j : journal) (rate : N) (burn' : params),
           cx_metas cx = m0 :: m1 :: m2 :: m3 :: m4 :: m5 :: m6 :: m7 :: m8 :: m9 :: rest /\
           mwritable m0 = true /\
           rd_acct W (mkey m0) (DConfig c) /\
           msigner m1 = true /\
           mkey m1 = c_debt_accountant c /\
           c_paused c = false /\
           c_init_grace_min c <> 0 /\
           c_last_init_ts c + c_init_grace_min c * 60 <= now W /\
           now W < two32 /\
           c_calc_grace_min c <> 0 /\
           fees_configured (c_fees c) = true /\
           br_compute (c_burn c) = Some (rate, burn') /\
           c_relay c <> 0 /\
           mkey m3 = KRdDist (c_next_epoch c) /\
           mkey m4 = KTok2z (KRdDist (c_next_epoch c)) /\
           mkey m5 = KMint /\
           mkey m6 = KToken /\
           fresh_acct W (KRdDist (c_next_epoch c)) /\
           fresh_acct W (KTok2z (KRdDist (c_next_epoch c))) /\
           token_mint W KMint /\
           mwritable m7 = true /\
           rd_acct W (mkey m7) (DJournal j) /\ mkey m8 = KTok2z (mkey m7) /\ mkey m9 = KAta (mkey m7) KMint.
Print Assumptions C15_creation_guards.

From DZ Require Import Lemmas_Hist Lemmas_C15 Lemmas_C15b Lemmas_C15c.

(* the exact effect of a successful creation: snapshot of epoch, fees, relay fee, burn rate and earliest calculation time; config counters; the 2Z waiting in the journal's ATA moved in full and recorded as collected; frame *)
Theorem C15_creation_spec :
  forall (cx : World.ctx) (W W' : World.world),
         RD.rd_initialize_distribution cx W = Base.Ok W' ->
         exists
           (m0 m1 m2 m3 m4 m5 m6 m7 m8 m9 : World.meta) (rest : list World.meta) 
         (c : State.rd_config) (rate : BinNums.N) (burn' : BurnRate.params),
           World.cx_metas cx = (m0 :: m1 :: m2 :: m3 :: m4 :: m5 :: m6 :: m7 :: m8 :: m9 :: rest)%list /\
           init_dist_facts W W' (World.mkey m0) c rate burn' (World.mkey m2) (World.mkey m7).
Proof. exact rd_initialize_distribution_spec. Qed.
Check C15_creation_spec :
  forall (cx : World.ctx) (W W' : World.world),
         RD.rd_initialize_distribution cx W = Base.Ok W' ->
         exists
           (m0 m1 m2 m3 m4 m5 m6 m7 m8 m9 : World.meta) (rest : list World.meta) 
         (c : State.rd_config) (rate : BinNums.N) (burn' : BurnRate.params),
           World.cx_metas cx = (m0 :: m1 :: m2 :: m3 :: m4 :: m5 :: m6 :: m7 :: m8 :: m9 :: rest)%list /\
           init_dist_facts W W' (World.mkey m0) c rate burn' (World.mkey m2) (World.mkey m7).
Print Assumptions C15_creation_spec.

Theorem C15_new_dist_fields :
  forall (c : State.rd_config) (nw rate amt : BinNums.N),
         let d := new_dist c nw rate amt in
         State.d_epoch d = State.c_next_epoch c /\
         State.d_fees d = State.c_fees c /\
         State.d_relay d = State.c_relay c /\
         State.d_cbr d = rate /\
         State.d_calc_allowed_ts d =
         BinNat.N.add nw
           (BinNat.N.mul (State.c_calc_grace_min c)
              (BinNums.Npos (BinNums.xO (BinNums.xO (BinNums.xI (BinNums.xI (BinNums.xI BinNums.xH))))))) /\
         State.d_debt_final d = false /\
         State.d_rewards_final d = false /\
         State.d_swept d = false /\
         State.d_writeoff_enabled d = false /\
         State.d_prepaid_2z d = amt /\
         d =
         RecordSet.set State.d_prepaid_2z (fun _ : BinNums.N => State.d_prepaid_2z d)
           (RecordSet.set State.d_calc_allowed_ts (fun _ : BinNums.N => State.d_calc_allowed_ts d)
              (RecordSet.set State.d_cbr (fun _ : BinNums.N => State.d_cbr d)
                 (RecordSet.set State.d_relay (fun _ : BinNums.N => State.d_relay d)
                    (RecordSet.set State.d_fees (fun _ : State.fee_params => State.d_fees d)
                       (RecordSet.set State.d_epoch (fun _ : BinNums.N => State.d_epoch d) State.dist_default))))).
Proof. exact new_dist_fields. Qed.
Check C15_new_dist_fields :
  forall (c : State.rd_config) (nw rate amt : BinNums.N),
         let d := new_dist c nw rate amt in
         State.d_epoch d = State.c_next_epoch c /\
         State.d_fees d = State.c_fees c /\
         State.d_relay d = State.c_relay c /\
         State.d_cbr d = rate /\
         State.d_calc_allowed_ts d =
         BinNat.N.add nw
           (BinNat.N.mul (State.c_calc_grace_min c)
              (BinNums.Npos (BinNums.xO (BinNums.xO (BinNums.xI (BinNums.xI (BinNums.xI BinNums.xH))))))) /\
         State.d_debt_final d = false /\
         State.d_rewards_final d = false /\
         State.d_swept d = false /\
         State.d_writeoff_enabled d = false /\
         State.d_prepaid_2z d = amt /\
         d =
         RecordSet.set State.d_prepaid_2z (fun _ : BinNums.N => State.d_prepaid_2z d)
           (RecordSet.set State.d_calc_allowed_ts (fun _ : BinNums.N => State.d_calc_allowed_ts d)
              (RecordSet.set State.d_cbr (fun _ : BinNums.N => State.d_cbr d)
                 (RecordSet.set State.d_relay (fun _ : BinNums.N => State.d_relay d)
                    (RecordSet.set State.d_fees (fun _ : State.fee_params => State.d_fees d)
                       (RecordSet.set State.d_epoch (fun _ : BinNums.N => State.d_epoch d) State.dist_default))))).
Print Assumptions C15_new_dist_fields.

Theorem C15_new_config_fields :
  forall (c : State.rd_config) (nw : BinNums.N) (burn' : BurnRate.params),
         let c' := new_config c nw burn' in
         State.c_last_init_ts c' = nw /\
         State.c_burn c' = burn' /\
         State.c_next_epoch c' = Base.sat_add Base.two64 (State.c_next_epoch c) (BinNums.Npos BinNums.xH) /\
         c' =
         RecordSet.set State.c_next_epoch (fun _ : BinNums.N => State.c_next_epoch c')
           (RecordSet.set State.c_burn (fun _ : BurnRate.params => State.c_burn c')
              (RecordSet.set State.c_last_init_ts (fun _ : BinNums.N => State.c_last_init_ts c') c)).
Proof. exact new_config_fields. Qed.
Check C15_new_config_fields :
  forall (c : State.rd_config) (nw : BinNums.N) (burn' : BurnRate.params),
         let c' := new_config c nw burn' in
         State.c_last_init_ts c' = nw /\
         State.c_burn c' = burn' /\
         State.c_next_epoch c' = Base.sat_add Base.two64 (State.c_next_epoch c) (BinNums.Npos BinNums.xH) /\
         c' =
         RecordSet.set State.c_next_epoch (fun _ : BinNums.N => State.c_next_epoch c')
           (RecordSet.set State.c_burn (fun _ : BurnRate.params => State.c_burn c')
              (RecordSet.set State.c_last_init_ts (fun _ : BinNums.N => State.c_last_init_ts c') c)).
Print Assumptions C15_new_config_fields.

Theorem C15_creation_creates_dist :
  forall (cx : World.ctx) (W W' : World.world),
         RD.rd_initialize_distribution cx W = Base.Ok W' ->
         exists
           (m0 m1 m2 m3 m4 m5 m6 m7 m8 m9 : World.meta) (rest : list World.meta) 
         (c : State.rd_config) (rate : BinNums.N) (burn' : BurnRate.params),
           World.cx_metas cx = (m0 :: m1 :: m2 :: m3 :: m4 :: m5 :: m6 :: m7 :: m8 :: m9 :: rest)%list /\
           Lemmas_RdGuards.rd_acct W (World.mkey m0) (State.DConfig c) /\
           BurnRate.br_compute (State.c_burn c) = Some (rate, burn') /\
           Lemmas_Inv.dist_at W (Keys.KRdDist (State.c_next_epoch c)) = None /\
           Lemmas_Inv.dist_at W' (Keys.KRdDist (State.c_next_epoch c)) =
           Some (new_dist c (World.now W) rate (tok_amount W (Keys.KAta (World.mkey m7) Keys.KMint)), nil) /\
           Lemmas_RdGuards.rd_acct W' (World.mkey m0) (State.DConfig (new_config c (World.now W) burn')).
Proof. exact rd_initialize_distribution_creates_dist. Qed.
Check C15_creation_creates_dist :
  forall (cx : World.ctx) (W W' : World.world),
         RD.rd_initialize_distribution cx W = Base.Ok W' ->
         exists
           (m0 m1 m2 m3 m4 m5 m6 m7 m8 m9 : World.meta) (rest : list World.meta) 
         (c : State.rd_config) (rate : BinNums.N) (burn' : BurnRate.params),
           World.cx_metas cx = (m0 :: m1 :: m2 :: m3 :: m4 :: m5 :: m6 :: m7 :: m8 :: m9 :: rest)%list /\
           Lemmas_RdGuards.rd_acct W (World.mkey m0) (State.DConfig c) /\
           BurnRate.br_compute (State.c_burn c) = Some (rate, burn') /\
           Lemmas_Inv.dist_at W (Keys.KRdDist (State.c_next_epoch c)) = None /\
           Lemmas_Inv.dist_at W' (Keys.KRdDist (State.c_next_epoch c)) =
           Some (new_dist c (World.now W) rate (tok_amount W (Keys.KAta (World.mkey m7) Keys.KMint)), nil) /\
           Lemmas_RdGuards.rd_acct W' (World.mkey m0) (State.DConfig (new_config c (World.now W) burn')).
Print Assumptions C15_creation_creates_dist.

Theorem C15_epochs_below_next_inv :
  forall W : World.world, Inv15 W -> Inv_C15 W.
Proof. exact Inv15_C15. Qed.
Check C15_epochs_below_next_inv :
  forall W : World.world, Inv15 W -> Inv_C15 W.
Print Assumptions C15_epochs_below_next_inv.

Theorem C15_epochs_below_next :
  forall (W : World.world) (dk ck : Keys.key) (d : State.dist) (t : list BinNums.N)
           (c : State.rd_config),
         Inv_C15 W ->
         State.owner (World.get W dk) = Keys.KRd ->
         State.data (World.get W dk) = State.DDist d t ->
         State.owner (World.get W ck) = Keys.KRd ->
         State.data (World.get W ck) = State.DConfig c ->
         BinNat.N.lt (State.c_next_epoch c) Base.u64_max ->
         BinNat.N.lt (State.d_epoch d) (State.c_next_epoch c).
Proof. exact epochs_below_next. Qed.
Check C15_epochs_below_next :
  forall (W : World.world) (dk ck : Keys.key) (d : State.dist) (t : list BinNums.N)
           (c : State.rd_config),
         Inv_C15 W ->
         State.owner (World.get W dk) = Keys.KRd ->
         State.data (World.get W dk) = State.DDist d t ->
         State.owner (World.get W ck) = Keys.KRd ->
         State.data (World.get W ck) = State.DConfig c ->
         BinNat.N.lt (State.c_next_epoch c) Base.u64_max ->
         BinNat.N.lt (State.d_epoch d) (State.c_next_epoch c).
Print Assumptions C15_epochs_below_next.

Theorem C15_config_only_at_its_address :
  forall (W : World.world) (k : Keys.key) (c : State.rd_config),
         Inv15 W ->
         State.owner (World.get W k) = Keys.KRd ->
         State.data (World.get W k) = State.DConfig c -> k = Keys.KRdConfig.
Proof. exact Inv15_config_key. Qed.
Check C15_config_only_at_its_address :
  forall (W : World.world) (k : Keys.key) (c : State.rd_config),
         Inv15 W ->
         State.owner (World.get W k) = Keys.KRd ->
         State.data (World.get W k) = State.DConfig c -> k = Keys.KRdConfig.
Print Assumptions C15_config_only_at_its_address.

Theorem C15_dist_only_at_its_address :
  forall (W : World.world) (k : Keys.key) (d : State.dist) (t : list BinNums.N),
         Inv15 W ->
         State.owner (World.get W k) = Keys.KRd ->
         State.data (World.get W k) = State.DDist d t -> k = Keys.KRdDist (State.d_epoch d).
Proof. exact Inv15_dist_key. Qed.
Check C15_dist_only_at_its_address :
  forall (W : World.world) (k : Keys.key) (d : State.dist) (t : list BinNums.N),
         Inv15 W ->
         State.owner (World.get W k) = Keys.KRd ->
         State.data (World.get W k) = State.DDist d t -> k = Keys.KRdDist (State.d_epoch d).
Print Assumptions C15_dist_only_at_its_address.

(* exactly one distribution per epoch in every reachable state *)
Theorem C15_one_distribution_per_epoch :
  forall (W : World.world) (k1 : Keys.key) (d1 : State.dist) (t1 : list BinNums.N) 
           (k2 : Keys.key) (d2 : State.dist) (t2 : list BinNums.N),
         Inv15 W ->
         State.owner (World.get W k1) = Keys.KRd ->
         State.data (World.get W k1) = State.DDist d1 t1 ->
         State.owner (World.get W k2) = Keys.KRd ->
         State.data (World.get W k2) = State.DDist d2 t2 -> State.d_epoch d1 = State.d_epoch d2 -> k1 = k2.
Proof. exact one_distribution_per_epoch. Qed.
Check C15_one_distribution_per_epoch :
  forall (W : World.world) (k1 : Keys.key) (d1 : State.dist) (t1 : list BinNums.N) 
           (k2 : Keys.key) (d2 : State.dist) (t2 : list BinNums.N),
         Inv15 W ->
         State.owner (World.get W k1) = Keys.KRd ->
         State.data (World.get W k1) = State.DDist d1 t1 ->
         State.owner (World.get W k2) = Keys.KRd ->
         State.data (World.get W k2) = State.DDist d2 t2 -> State.d_epoch d1 = State.d_epoch d2 -> k1 = k2.
Print Assumptions C15_one_distribution_per_epoch.

Theorem C15_next_epoch_not_created_yet :
  forall (W : World.world) (ck : Keys.key) (c : State.rd_config) (k : Keys.key) 
           (d : State.dist) (t : list BinNums.N),
         Inv15 W ->
         State.owner (World.get W ck) = Keys.KRd ->
         State.data (World.get W ck) = State.DConfig c ->
         BinNat.N.lt (State.c_next_epoch c) Base.u64_max ->
         State.owner (World.get W k) = Keys.KRd ->
         State.data (World.get W k) = State.DDist d t -> State.d_epoch d <> State.c_next_epoch c.
Proof. exact next_epoch_not_created_yet. Qed.
Check C15_next_epoch_not_created_yet :
  forall (W : World.world) (ck : Keys.key) (c : State.rd_config) (k : Keys.key) 
           (d : State.dist) (t : list BinNums.N),
         Inv15 W ->
         State.owner (World.get W ck) = Keys.KRd ->
         State.data (World.get W ck) = State.DConfig c ->
         BinNat.N.lt (State.c_next_epoch c) Base.u64_max ->
         State.owner (World.get W k) = Keys.KRd ->
         State.data (World.get W k) = State.DDist d t -> State.d_epoch d <> State.c_next_epoch c.
Print Assumptions C15_next_epoch_not_created_yet.

(* preserved by EVERY transaction of any program and signer *)
Theorem C15_inv_tx :
  forall (W : World.world) (t : Exec.tx) (W' : World.world) (ok : bool),
         Inv15 W -> Exec.exec_tx W t = (W', ok) -> Inv15 W'.
Proof. exact inv_C15_tx. Qed.
Check C15_inv_tx :
  forall (W : World.world) (t : Exec.tx) (W' : World.world) (ok : bool),
         Inv15 W -> Exec.exec_tx W t = (W', ok) -> Inv15 W'.
Print Assumptions C15_inv_tx.

Theorem C15_inv_op :
  forall (W : World.world) (o : Exec.op),
         Lemmas_Canon.honest_op o ->
         (forall p o_ : Keys.key, o = Exec.OCreateAta p o_ -> ~ tk (World.get W p)) ->
         Inv15 W -> Inv15 (fst (Exec.exec_op W o)).
Proof. exact inv_C15_op. Qed.
Check C15_inv_op :
  forall (W : World.world) (o : Exec.op),
         Lemmas_Canon.honest_op o ->
         (forall p o_ : Keys.key, o = Exec.OCreateAta p o_ -> ~ tk (World.get W p)) ->
         Inv15 W -> Inv15 (fst (Exec.exec_op W o)).
Print Assumptions C15_inv_op.

Theorem C15_inv_history :
  forall (ops : list Exec.op) (W : World.world),
         List.Forall Lemmas_Canon.honest_op ops ->
         List.Forall wallet_pays ops ->
         Lemmas_Canon.typed_canonical W ->
         Inv15 W ->
         Inv15 (List.fold_left (fun (W0 : World.world) (o : Exec.op) => fst (Exec.exec_op W0 o)) ops W).
Proof. exact inv_C15_history. Qed.
Check C15_inv_history :
  forall (ops : list Exec.op) (W : World.world),
         List.Forall Lemmas_Canon.honest_op ops ->
         List.Forall wallet_pays ops ->
         Lemmas_Canon.typed_canonical W ->
         Inv15 W ->
         Inv15 (List.fold_left (fun (W0 : World.world) (o : Exec.op) => fst (Exec.exec_op W0 o)) ops W).
Print Assumptions C15_inv_history.

Theorem C15_inv_init :
  Inv15 Exec.world0 /\
         (forall W : World.world,
          (forall k : Keys.key,
           State.owner (World.get W k) = Keys.KRd -> State.data (World.get W k) = State.DEmpty) -> 
          Inv15 W).
Proof. exact inv_C15_init. Qed.
Check C15_inv_init :
  Inv15 Exec.world0 /\
         (forall W : World.world,
          (forall k : Keys.key,
           State.owner (World.get W k) = Keys.KRd -> State.data (World.get W k) = State.DEmpty) -> 
          Inv15 W).
Print Assumptions C15_inv_init.

Theorem C15_inv_reachable :
  forall ops : list Exec.op,
         List.Forall Lemmas_Canon.honest_op ops ->
         List.Forall wallet_pays ops ->
         Inv_C15
           (List.fold_left (fun (W : World.world) (o : Exec.op) => fst (Exec.exec_op W o)) ops Exec.world0).
Proof. exact C15_reachable. Qed.
Check C15_inv_reachable :
  forall ops : list Exec.op,
         List.Forall Lemmas_Canon.honest_op ops ->
         List.Forall wallet_pays ops ->
         Inv_C15
           (List.fold_left (fun (W : World.world) (o : Exec.op) => fst (Exec.exec_op W o)) ops Exec.world0).
Print Assumptions C15_inv_reachable.

Theorem C15_counter_step :
  forall (cx : World.ctx) (W : World.world) (ix : RD.rd_ix) (W' : World.world) 
           (k : Keys.key) (c : State.rd_config),
         Inv15 W ->
         RD.rd_process cx W ix = Base.Ok W' ->
         State.owner (World.get W k) = Keys.KRd ->
         State.data (World.get W k) = State.DConfig c ->
         exists c' : State.rd_config,
           State.owner (World.get W' Keys.KRdConfig) = Keys.KRd /\
           State.data (World.get W' Keys.KRdConfig) = State.DConfig c' /\
           State.c_next_epoch c' =
           match ix with
           | RD.RInitializeDistribution =>
               Base.sat_add Base.two64 (State.c_next_epoch c) (BinNums.Npos BinNums.xH)
           | _ => State.c_next_epoch c
           end /\
           State.c_last_init_ts c' =
           match ix with
           | RD.RInitializeDistribution => World.now W
           | _ => State.c_last_init_ts c
           end /\
           match ix with
           | RD.RInitializeDistribution =>
               State.c_init_grace_min c <> BinNums.N0 /\
               BinNat.N.le
                 (BinNat.N.add (State.c_last_init_ts c)
                    (BinNat.N.mul (State.c_init_grace_min c)
                       (BinNums.Npos
                          (BinNums.xO (BinNums.xO (BinNums.xI (BinNums.xI (BinNums.xI BinNums.xH))))))))
                 (World.now W)
           | _ => True
           end.
Proof. exact counter_step. Qed.
Check C15_counter_step :
  forall (cx : World.ctx) (W : World.world) (ix : RD.rd_ix) (W' : World.world) 
           (k : Keys.key) (c : State.rd_config),
         Inv15 W ->
         RD.rd_process cx W ix = Base.Ok W' ->
         State.owner (World.get W k) = Keys.KRd ->
         State.data (World.get W k) = State.DConfig c ->
         exists c' : State.rd_config,
           State.owner (World.get W' Keys.KRdConfig) = Keys.KRd /\
           State.data (World.get W' Keys.KRdConfig) = State.DConfig c' /\
           State.c_next_epoch c' =
           match ix with
           | RD.RInitializeDistribution =>
               Base.sat_add Base.two64 (State.c_next_epoch c) (BinNums.Npos BinNums.xH)
           | _ => State.c_next_epoch c
           end /\
           State.c_last_init_ts c' =
           match ix with
           | RD.RInitializeDistribution => World.now W
           | _ => State.c_last_init_ts c
           end /\
           match ix with
           | RD.RInitializeDistribution =>
               State.c_init_grace_min c <> BinNums.N0 /\
               BinNat.N.le
                 (BinNat.N.add (State.c_last_init_ts c)
                    (BinNat.N.mul (State.c_init_grace_min c)
                       (BinNums.Npos
                          (BinNums.xO (BinNums.xO (BinNums.xI (BinNums.xI (BinNums.xI BinNums.xH))))))))
                 (World.now W)
           | _ => True
           end.
Print Assumptions C15_counter_step.

Theorem C15_counter_monotone_tx :
  forall (W : World.world) (t : Exec.tx) (W' : World.world) (ok : bool) (k : Keys.key)
           (c : State.rd_config),
         Inv15 W ->
         Exec.exec_tx W t = (W', ok) ->
         State.owner (World.get W k) = Keys.KRd ->
         State.data (World.get W k) = State.DConfig c ->
         exists c' : State.rd_config,
           State.owner (World.get W' Keys.KRdConfig) = Keys.KRd /\
           State.data (World.get W' Keys.KRdConfig) = State.DConfig c' /\
           BinNat.N.le (State.c_next_epoch c) (State.c_next_epoch c').
Proof. exact counter_monotone_tx. Qed.
Check C15_counter_monotone_tx :
  forall (W : World.world) (t : Exec.tx) (W' : World.world) (ok : bool) (k : Keys.key)
           (c : State.rd_config),
         Inv15 W ->
         Exec.exec_tx W t = (W', ok) ->
         State.owner (World.get W k) = Keys.KRd ->
         State.data (World.get W k) = State.DConfig c ->
         exists c' : State.rd_config,
           State.owner (World.get W' Keys.KRdConfig) = Keys.KRd /\
           State.data (World.get W' Keys.KRdConfig) = State.DConfig c' /\
           BinNat.N.le (State.c_next_epoch c) (State.c_next_epoch c').
Print Assumptions C15_counter_monotone_tx.

Theorem C15_counter_monotone_history :
  forall (ops : list Exec.op) (W : World.world) (k : Keys.key) (c : State.rd_config),
         List.Forall Lemmas_Canon.honest_op ops ->
         List.Forall wallet_pays ops ->
         Lemmas_Canon.typed_canonical W ->
         Inv15 W ->
         State.owner (World.get W k) = Keys.KRd ->
         State.data (World.get W k) = State.DConfig c ->
         let W' := List.fold_left (fun (W0 : World.world) (o : Exec.op) => fst (Exec.exec_op W0 o)) ops W in
         exists c' : State.rd_config,
           State.owner (World.get W' Keys.KRdConfig) = Keys.KRd /\
           State.data (World.get W' Keys.KRdConfig) = State.DConfig c' /\
           BinNat.N.le (State.c_next_epoch c) (State.c_next_epoch c').
Proof. exact counter_monotone_history. Qed.
Check C15_counter_monotone_history :
  forall (ops : list Exec.op) (W : World.world) (k : Keys.key) (c : State.rd_config),
         List.Forall Lemmas_Canon.honest_op ops ->
         List.Forall wallet_pays ops ->
         Lemmas_Canon.typed_canonical W ->
         Inv15 W ->
         State.owner (World.get W k) = Keys.KRd ->
         State.data (World.get W k) = State.DConfig c ->
         let W' := List.fold_left (fun (W0 : World.world) (o : Exec.op) => fst (Exec.exec_op W0 o)) ops W in
         exists c' : State.rd_config,
           State.owner (World.get W' Keys.KRdConfig) = Keys.KRd /\
           State.data (World.get W' Keys.KRdConfig) = State.DConfig c' /\
           BinNat.N.le (State.c_next_epoch c) (State.c_next_epoch c').
Print Assumptions C15_counter_monotone_history.

(* per instruction of any program: the epoch counter and the creation timestamp stay, or move by exactly one creation (consecutive numbering, pacing by the grace period in force) *)
Theorem C15_exec_data_counter :
  forall (d : Exec.ixdata) (prog : Keys.key) (ms : list World.meta) (h : BinNums.N)
           (sib : option World.sibling) (W W' : World.world) (k : Keys.key) (c : State.rd_config),
         Inv15 W ->
         Exec.exec_data prog d ms h sib W = Base.Ok W' ->
         State.owner (World.get W k) = Keys.KRd ->
         State.data (World.get W k) = State.DConfig c ->
         exists c' : State.rd_config,
           State.owner (World.get W' Keys.KRdConfig) = Keys.KRd /\
           State.data (World.get W' Keys.KRdConfig) = State.DConfig c' /\
           (counter_kept W W' c c' \/ counter_bumped W W' c c').
Proof. exact exec_data_counter. Qed.
Check C15_exec_data_counter :
  forall (d : Exec.ixdata) (prog : Keys.key) (ms : list World.meta) (h : BinNums.N)
           (sib : option World.sibling) (W W' : World.world) (k : Keys.key) (c : State.rd_config),
         Inv15 W ->
         Exec.exec_data prog d ms h sib W = Base.Ok W' ->
         State.owner (World.get W k) = Keys.KRd ->
         State.data (World.get W k) = State.DConfig c ->
         exists c' : State.rd_config,
           State.owner (World.get W' Keys.KRdConfig) = Keys.KRd /\
           State.data (World.get W' Keys.KRdConfig) = State.DConfig c' /\
           (counter_kept W W' c c' \/ counter_bumped W W' c c').
Print Assumptions C15_exec_data_counter.

Theorem C15_tx_counter :
  forall (W : World.world) (t : Exec.tx) (W' : World.world) (ok : bool) (k : Keys.key)
           (c : State.rd_config),
         Inv15 W ->
         Exec.exec_tx W t = (W', ok) ->
         State.owner (World.get W k) = Keys.KRd ->
         State.data (World.get W k) = State.DConfig c ->
         exists c' : State.rd_config,
           State.owner (World.get W' Keys.KRdConfig) = Keys.KRd /\
           State.data (World.get W' Keys.KRdConfig) = State.DConfig c' /\
           (counter_kept W W' c c' \/ tx_bumped W W' c c').
Proof. exact tx_counter. Qed.
Check C15_tx_counter :
  forall (W : World.world) (t : Exec.tx) (W' : World.world) (ok : bool) (k : Keys.key)
           (c : State.rd_config),
         Inv15 W ->
         Exec.exec_tx W t = (W', ok) ->
         State.owner (World.get W k) = Keys.KRd ->
         State.data (World.get W k) = State.DConfig c ->
         exists c' : State.rd_config,
           State.owner (World.get W' Keys.KRdConfig) = Keys.KRd /\
           State.data (World.get W' Keys.KRdConfig) = State.DConfig c' /\
           (counter_kept W W' c c' \/ tx_bumped W W' c c').
Print Assumptions C15_tx_counter.

Theorem C15_new_distribution_is_next :
  forall (W : World.world) (t : Exec.tx) (W' : World.world) (ok : bool) (k : Keys.key)
           (c : State.rd_config) (kd : Keys.key) (d : State.dist) (tl : list BinNums.N),
         Inv15 W ->
         Exec.exec_tx W t = (W', ok) ->
         State.owner (World.get W k) = Keys.KRd ->
         State.data (World.get W k) = State.DConfig c ->
         Lemmas_Inv.dist_at W kd = None ->
         Lemmas_Inv.dist_at W' kd = Some (d, tl) ->
         kd = Keys.KRdDist (State.c_next_epoch c) /\
         State.d_epoch d = State.c_next_epoch c /\
         (exists c' : State.rd_config,
            State.owner (World.get W' Keys.KRdConfig) = Keys.KRd /\
            State.data (World.get W' Keys.KRdConfig) = State.DConfig c' /\
            State.c_next_epoch c' = Base.sat_add Base.two64 (State.c_next_epoch c) (BinNums.Npos BinNums.xH) /\
            State.c_last_init_ts c' = World.now W /\
            (exists g : BinNums.N,
               g <> BinNums.N0 /\
               BinNat.N.le
                 (BinNat.N.add (State.c_last_init_ts c)
                    (BinNat.N.mul g
                       (BinNums.Npos
                          (BinNums.xO (BinNums.xO (BinNums.xI (BinNums.xI (BinNums.xI BinNums.xH))))))))
                 (World.now W))).
Proof. exact new_distribution_is_next. Qed.
Check C15_new_distribution_is_next :
  forall (W : World.world) (t : Exec.tx) (W' : World.world) (ok : bool) (k : Keys.key)
           (c : State.rd_config) (kd : Keys.key) (d : State.dist) (tl : list BinNums.N),
         Inv15 W ->
         Exec.exec_tx W t = (W', ok) ->
         State.owner (World.get W k) = Keys.KRd ->
         State.data (World.get W k) = State.DConfig c ->
         Lemmas_Inv.dist_at W kd = None ->
         Lemmas_Inv.dist_at W' kd = Some (d, tl) ->
         kd = Keys.KRdDist (State.c_next_epoch c) /\
         State.d_epoch d = State.c_next_epoch c /\
         (exists c' : State.rd_config,
            State.owner (World.get W' Keys.KRdConfig) = Keys.KRd /\
            State.data (World.get W' Keys.KRdConfig) = State.DConfig c' /\
            State.c_next_epoch c' = Base.sat_add Base.two64 (State.c_next_epoch c) (BinNums.Npos BinNums.xH) /\
            State.c_last_init_ts c' = World.now W /\
            (exists g : BinNums.N,
               g <> BinNums.N0 /\
               BinNat.N.le
                 (BinNat.N.add (State.c_last_init_ts c)
                    (BinNat.N.mul g
                       (BinNums.Npos
                          (BinNums.xO (BinNums.xO (BinNums.xI (BinNums.xI (BinNums.xI BinNums.xH))))))))
                 (World.now W))).
Print Assumptions C15_new_distribution_is_next.

Theorem C15_counter_starts_at_zero :
  forall (cx : World.ctx) (W W' : World.world),
         RD.rd_initialize_program cx W = Base.Ok W' ->
         exists c : State.rd_config,
           State.owner (World.get W' Keys.KRdConfig) = Keys.KRd /\
           State.data (World.get W' Keys.KRdConfig) = State.DConfig c /\
           State.c_next_epoch c = BinNums.N0 /\ State.c_last_init_ts c = BinNums.N0.
Proof. exact counter_starts_at_zero. Qed.
Check C15_counter_starts_at_zero :
  forall (cx : World.ctx) (W W' : World.world),
         RD.rd_initialize_program cx W = Base.Ok W' ->
         exists c : State.rd_config,
           State.owner (World.get W' Keys.KRdConfig) = Keys.KRd /\
           State.data (World.get W' Keys.KRdConfig) = State.DConfig c /\
           State.c_next_epoch c = BinNums.N0 /\ State.c_last_init_ts c = BinNums.N0.
Print Assumptions C15_counter_starts_at_zero.

Theorem C15_creation_spec_nonvacuous :
  let c := the_config W_pre in
         let rate := fst (the_burn c) in
         let burn' := snd (the_burn c) in
         let W' := W_proc in
         Lemmas_Canon.CanonEx.all_ok Lemmas_Canon.CanonEx.ex_fix ops_pre = true /\
         RD.rd_initialize_distribution cx_init1 W_pre = Base.Ok W' /\
         World.now W_pre =
         BinNums.Npos
           (BinNums.xO
              (BinNums.xO (BinNums.xO (BinNums.xI (BinNums.xO (BinNums.xO (BinNums.xI BinNums.xH))))))) /\
         State.c_next_epoch c = BinNums.Npos BinNums.xH /\
         State.c_last_init_ts c =
         BinNums.Npos
           (BinNums.xO (BinNums.xO (BinNums.xI (BinNums.xO (BinNums.xO (BinNums.xI BinNums.xH)))))) /\
         State.c_init_grace_min c = BinNums.Npos BinNums.xH /\
         State.c_calc_grace_min c = BinNums.Npos BinNums.xH /\
         BurnRate.br_compute (State.c_burn c) = Some (rate, burn') /\
         tok_amount W_pre jata =
         BinNums.Npos
           (BinNums.xI
              (BinNums.xI
                 (BinNums.xO
                    (BinNums.xI (BinNums.xO (BinNums.xI (BinNums.xO (BinNums.xO (BinNums.xO BinNums.xH))))))))) /\
         State.data (World.get W' (Keys.KRdDist (BinNums.Npos BinNums.xH))) =
         State.DDist
           (new_dist c
              (BinNums.Npos
                 (BinNums.xO
                    (BinNums.xO (BinNums.xO (BinNums.xI (BinNums.xO (BinNums.xO (BinNums.xI BinNums.xH))))))))
              rate
              (BinNums.Npos
                 (BinNums.xI
                    (BinNums.xI
                       (BinNums.xO
                          (BinNums.xI
                             (BinNums.xO (BinNums.xI (BinNums.xO (BinNums.xO (BinNums.xO BinNums.xH)))))))))))
           nil /\
         State.owner (World.get W' (Keys.KRdDist (BinNums.Npos BinNums.xH))) = Keys.KRd /\
         State.d_epoch (the_dist W' (BinNums.Npos BinNums.xH)) = BinNums.Npos BinNums.xH /\
         State.d_fees (the_dist W' (BinNums.Npos BinNums.xH)) = State.c_fees c /\
         State.d_relay (the_dist W' (BinNums.Npos BinNums.xH)) =
         BinNums.Npos
           (BinNums.xO
              (BinNums.xO
                 (BinNums.xO
                    (BinNums.xO
                       (BinNums.xI
                          (BinNums.xO
                             (BinNums.xO
                                (BinNums.xO
                                   (BinNums.xI (BinNums.xI (BinNums.xI (BinNums.xO (BinNums.xO BinNums.xH))))))))))))) /\
         State.d_cbr (the_dist W' (BinNums.Npos BinNums.xH)) = rate /\
         State.d_calc_allowed_ts (the_dist W' (BinNums.Npos BinNums.xH)) =
         BinNums.Npos
           (BinNums.xO
              (BinNums.xO
                 (BinNums.xI (BinNums.xO (BinNums.xO (BinNums.xO (BinNums.xO (BinNums.xO BinNums.xH)))))))) /\
         State.d_prepaid_2z (the_dist W' (BinNums.Npos BinNums.xH)) =
         BinNums.Npos
           (BinNums.xI
              (BinNums.xI
                 (BinNums.xO
                    (BinNums.xI (BinNums.xO (BinNums.xI (BinNums.xO (BinNums.xO (BinNums.xO BinNums.xH))))))))) /\
         State.data (World.get W' Keys.KRdConfig) =
         State.DConfig
           (new_config c
              (BinNums.Npos
                 (BinNums.xO
                    (BinNums.xO (BinNums.xO (BinNums.xI (BinNums.xO (BinNums.xO (BinNums.xI BinNums.xH))))))))
              burn') /\
         State.c_next_epoch (the_config W') = BinNums.Npos (BinNums.xO BinNums.xH) /\
         State.c_last_init_ts (the_config W') =
         BinNums.Npos
           (BinNums.xO
              (BinNums.xO (BinNums.xO (BinNums.xI (BinNums.xO (BinNums.xO (BinNums.xI BinNums.xH))))))) /\
         State.data (World.get W' (Keys.KTok2z (Keys.KRdDist (BinNums.Npos BinNums.xH)))) =
         State.DToken
           {|
             State.t_mint := Keys.KMint;
             State.t_owner := Keys.KRdDist (BinNums.Npos BinNums.xH);
             State.t_amount :=
               BinNums.Npos
                 (BinNums.xI
                    (BinNums.xI
                       (BinNums.xO
                          (BinNums.xI
                             (BinNums.xO (BinNums.xI (BinNums.xO (BinNums.xO (BinNums.xO BinNums.xH)))))))))
           |} /\
         tok_amount W' jata = BinNums.N0 /\
         World.get W' (Keys.KRdDist BinNums.N0) = World.get W_pre (Keys.KRdDist BinNums.N0) /\
         World.get W' Keys.KRdJournal = World.get W_pre Keys.KRdJournal /\
         World.get W' Keys.KMint = World.get W_pre Keys.KMint.
Proof. exact rd_initialize_distribution_spec_nonvacuous. Qed.
Check C15_creation_spec_nonvacuous :
  let c := the_config W_pre in
         let rate := fst (the_burn c) in
         let burn' := snd (the_burn c) in
         let W' := W_proc in
         Lemmas_Canon.CanonEx.all_ok Lemmas_Canon.CanonEx.ex_fix ops_pre = true /\
         RD.rd_initialize_distribution cx_init1 W_pre = Base.Ok W' /\
         World.now W_pre =
         BinNums.Npos
           (BinNums.xO
              (BinNums.xO (BinNums.xO (BinNums.xI (BinNums.xO (BinNums.xO (BinNums.xI BinNums.xH))))))) /\
         State.c_next_epoch c = BinNums.Npos BinNums.xH /\
         State.c_last_init_ts c =
         BinNums.Npos
           (BinNums.xO (BinNums.xO (BinNums.xI (BinNums.xO (BinNums.xO (BinNums.xI BinNums.xH)))))) /\
         State.c_init_grace_min c = BinNums.Npos BinNums.xH /\
         State.c_calc_grace_min c = BinNums.Npos BinNums.xH /\
         BurnRate.br_compute (State.c_burn c) = Some (rate, burn') /\
         tok_amount W_pre jata =
         BinNums.Npos
           (BinNums.xI
              (BinNums.xI
                 (BinNums.xO
                    (BinNums.xI (BinNums.xO (BinNums.xI (BinNums.xO (BinNums.xO (BinNums.xO BinNums.xH))))))))) /\
         State.data (World.get W' (Keys.KRdDist (BinNums.Npos BinNums.xH))) =
         State.DDist
           (new_dist c
              (BinNums.Npos
                 (BinNums.xO
                    (BinNums.xO (BinNums.xO (BinNums.xI (BinNums.xO (BinNums.xO (BinNums.xI BinNums.xH))))))))
              rate
              (BinNums.Npos
                 (BinNums.xI
                    (BinNums.xI
                       (BinNums.xO
                          (BinNums.xI
                             (BinNums.xO (BinNums.xI (BinNums.xO (BinNums.xO (BinNums.xO BinNums.xH)))))))))))
           nil /\
         State.owner (World.get W' (Keys.KRdDist (BinNums.Npos BinNums.xH))) = Keys.KRd /\
         State.d_epoch (the_dist W' (BinNums.Npos BinNums.xH)) = BinNums.Npos BinNums.xH /\
         State.d_fees (the_dist W' (BinNums.Npos BinNums.xH)) = State.c_fees c /\
         State.d_relay (the_dist W' (BinNums.Npos BinNums.xH)) =
         BinNums.Npos
           (BinNums.xO
              (BinNums.xO
                 (BinNums.xO
                    (BinNums.xO
                       (BinNums.xI
                          (BinNums.xO
                             (BinNums.xO
                                (BinNums.xO
                                   (BinNums.xI (BinNums.xI (BinNums.xI (BinNums.xO (BinNums.xO BinNums.xH))))))))))))) /\
         State.d_cbr (the_dist W' (BinNums.Npos BinNums.xH)) = rate /\
         State.d_calc_allowed_ts (the_dist W' (BinNums.Npos BinNums.xH)) =
         BinNums.Npos
           (BinNums.xO
              (BinNums.xO
                 (BinNums.xI (BinNums.xO (BinNums.xO (BinNums.xO (BinNums.xO (BinNums.xO BinNums.xH)))))))) /\
         State.d_prepaid_2z (the_dist W' (BinNums.Npos BinNums.xH)) =
         BinNums.Npos
           (BinNums.xI
              (BinNums.xI
                 (BinNums.xO
                    (BinNums.xI (BinNums.xO (BinNums.xI (BinNums.xO (BinNums.xO (BinNums.xO BinNums.xH))))))))) /\
         State.data (World.get W' Keys.KRdConfig) =
         State.DConfig
           (new_config c
              (BinNums.Npos
                 (BinNums.xO
                    (BinNums.xO (BinNums.xO (BinNums.xI (BinNums.xO (BinNums.xO (BinNums.xI BinNums.xH))))))))
              burn') /\
         State.c_next_epoch (the_config W') = BinNums.Npos (BinNums.xO BinNums.xH) /\
         State.c_last_init_ts (the_config W') =
         BinNums.Npos
           (BinNums.xO
              (BinNums.xO (BinNums.xO (BinNums.xI (BinNums.xO (BinNums.xO (BinNums.xI BinNums.xH))))))) /\
         State.data (World.get W' (Keys.KTok2z (Keys.KRdDist (BinNums.Npos BinNums.xH)))) =
         State.DToken
           {|
             State.t_mint := Keys.KMint;
             State.t_owner := Keys.KRdDist (BinNums.Npos BinNums.xH);
             State.t_amount :=
               BinNums.Npos
                 (BinNums.xI
                    (BinNums.xI
                       (BinNums.xO
                          (BinNums.xI
                             (BinNums.xO (BinNums.xI (BinNums.xO (BinNums.xO (BinNums.xO BinNums.xH)))))))))
           |} /\
         tok_amount W' jata = BinNums.N0 /\
         World.get W' (Keys.KRdDist BinNums.N0) = World.get W_pre (Keys.KRdDist BinNums.N0) /\
         World.get W' Keys.KRdJournal = World.get W_pre Keys.KRdJournal /\
         World.get W' Keys.KMint = World.get W_pre Keys.KMint.
Print Assumptions C15_creation_spec_nonvacuous.

Theorem C15_inv_nonvacuous :
  Lemmas_Canon.CanonEx.all_ok Lemmas_Canon.CanonEx.ex_fix
           (ops_pre ++ create (BinNums.Npos BinNums.xH) :: nil) = true /\
         Inv15 W_pre /\
         Inv15 W_post /\
         Inv_C15 W_post /\
         I15
           {|
             w_lo := BinNums.Npos (BinNums.xO BinNums.xH);
             w_hi := BinNums.Npos (BinNums.xO BinNums.xH);
             w_tlo :=
               BinNums.Npos
                 (BinNums.xO
                    (BinNums.xO (BinNums.xO (BinNums.xI (BinNums.xO (BinNums.xO (BinNums.xI BinNums.xH)))))));
             w_thi :=
               BinNums.Npos
                 (BinNums.xO
                    (BinNums.xO (BinNums.xO (BinNums.xI (BinNums.xO (BinNums.xO (BinNums.xI BinNums.xH)))))));
             w_ex := true
           |} W_post /\
         State.d_epoch (the_dist W_post BinNums.N0) = BinNums.N0 /\
         State.d_epoch (the_dist W_post (BinNums.Npos BinNums.xH)) = BinNums.Npos BinNums.xH /\
         State.c_next_epoch (the_config W_post) = BinNums.Npos (BinNums.xO BinNums.xH) /\
         Lemmas_Inv.dist_at W_pre (Keys.KRdDist (BinNums.Npos BinNums.xH)) = None /\
         Lemmas_Inv.dist_at W_post (Keys.KRdDist (BinNums.Npos BinNums.xH)) =
         Some (the_dist W_post (BinNums.Npos BinNums.xH), nil).
Proof. exact inv_C15_nonvacuous. Qed.
Check C15_inv_nonvacuous :
  Lemmas_Canon.CanonEx.all_ok Lemmas_Canon.CanonEx.ex_fix
           (ops_pre ++ create (BinNums.Npos BinNums.xH) :: nil) = true /\
         Inv15 W_pre /\
         Inv15 W_post /\
         Inv_C15 W_post /\
         I15
           {|
             w_lo := BinNums.Npos (BinNums.xO BinNums.xH);
             w_hi := BinNums.Npos (BinNums.xO BinNums.xH);
             w_tlo :=
               BinNums.Npos
                 (BinNums.xO
                    (BinNums.xO (BinNums.xO (BinNums.xI (BinNums.xO (BinNums.xO (BinNums.xI BinNums.xH)))))));
             w_thi :=
               BinNums.Npos
                 (BinNums.xO
                    (BinNums.xO (BinNums.xO (BinNums.xI (BinNums.xO (BinNums.xO (BinNums.xI BinNums.xH)))))));
             w_ex := true
           |} W_post /\
         State.d_epoch (the_dist W_post BinNums.N0) = BinNums.N0 /\
         State.d_epoch (the_dist W_post (BinNums.Npos BinNums.xH)) = BinNums.Npos BinNums.xH /\
         State.c_next_epoch (the_config W_post) = BinNums.Npos (BinNums.xO BinNums.xH) /\
         Lemmas_Inv.dist_at W_pre (Keys.KRdDist (BinNums.Npos BinNums.xH)) = None /\
         Lemmas_Inv.dist_at W_post (Keys.KRdDist (BinNums.Npos BinNums.xH)) =
         Some (the_dist W_post (BinNums.Npos BinNums.xH), nil).
Print Assumptions C15_inv_nonvacuous.

Theorem C15_tx_counter_nonvacuous :
  exists (t : Exec.tx) (W' : World.world),
           create (BinNums.Npos BinNums.xH) = Exec.OTx t /\
           Exec.exec_tx W_pre t = (W', true) /\
           tx_bumped W_pre W' (the_config W_pre) (the_config W') /\
           BinNat.N.le
             (BinNat.N.add (State.c_last_init_ts (the_config W_pre))
                (BinNat.N.mul (State.c_init_grace_min (the_config W_pre))
                   (BinNums.Npos (BinNums.xO (BinNums.xO (BinNums.xI (BinNums.xI (BinNums.xI BinNums.xH))))))))
             (World.now W_pre).
Proof. exact tx_counter_nonvacuous. Qed.
Check C15_tx_counter_nonvacuous :
  exists (t : Exec.tx) (W' : World.world),
           create (BinNums.Npos BinNums.xH) = Exec.OTx t /\
           Exec.exec_tx W_pre t = (W', true) /\
           tx_bumped W_pre W' (the_config W_pre) (the_config W') /\
           BinNat.N.le
             (BinNat.N.add (State.c_last_init_ts (the_config W_pre))
                (BinNat.N.mul (State.c_init_grace_min (the_config W_pre))
                   (BinNums.Npos (BinNums.xO (BinNums.xO (BinNums.xI (BinNums.xI (BinNums.xI BinNums.xH))))))))
             (World.now W_pre).
Print Assumptions C15_tx_counter_nonvacuous.

Theorem C15_creation_too_early_refused :
  snd
           (Exec.exec_op
              (fst
                 (Exec.exec_op W_pre
                    (Exec.OSetClock
                       (BinNums.Npos
                          (BinNums.xI
                             (BinNums.xI
                                (BinNums.xI (BinNums.xI (BinNums.xI (BinNums.xO (BinNums.xO BinNums.xH)))))))))))
              (create (BinNums.Npos BinNums.xH))) = false /\
         snd
           (Exec.exec_op
              (fst
                 (Exec.exec_op W_pre
                    (Exec.OSetClock
                       (BinNums.Npos
                          (BinNums.xO
                             (BinNums.xO
                                (BinNums.xO (BinNums.xO (BinNums.xO (BinNums.xI (BinNums.xO BinNums.xH)))))))))))
              (create (BinNums.Npos BinNums.xH))) = true /\
         snd
           (Exec.exec_op W_pre
              (Lemmas_Canon.CanonEx.otx
                 (Keys.KUser (BinNums.Npos (BinNums.xO BinNums.xH))
                  :: Keys.KUser
                       (BinNums.Npos
                          (BinNums.xO
                             (BinNums.xO (BinNums.xI (BinNums.xO (BinNums.xO (BinNums.xI BinNums.xH)))))))
                     :: nil)
                 (Lemmas_Canon.CanonEx.rdi RD.RInitializeDistribution (m_init (BinNums.Npos BinNums.xH))
                  :: Lemmas_Canon.CanonEx.rdi RD.RInitializeDistribution
                       (m_init (BinNums.Npos (BinNums.xO BinNums.xH))) :: nil))) = false /\
         snd (Exec.exec_op W_post (create (BinNums.Npos BinNums.xH))) = false /\
         snd (Exec.exec_op W_post (create (BinNums.Npos (BinNums.xO BinNums.xH)))) = false /\
         snd
           (Exec.exec_op
              (fst
                 (Exec.exec_op W_post
                    (Exec.OSetClock
                       (BinNums.Npos
                          (BinNums.xO
                             (BinNums.xO
                                (BinNums.xI
                                   (BinNums.xO (BinNums.xO (BinNums.xO (BinNums.xO (BinNums.xO BinNums.xH))))))))))))
              (create (BinNums.Npos (BinNums.xO BinNums.xH)))) = true.
Proof. exact creation_too_early_refused. Qed.
Check C15_creation_too_early_refused :
  snd
           (Exec.exec_op
              (fst
                 (Exec.exec_op W_pre
                    (Exec.OSetClock
                       (BinNums.Npos
                          (BinNums.xI
                             (BinNums.xI
                                (BinNums.xI (BinNums.xI (BinNums.xI (BinNums.xO (BinNums.xO BinNums.xH)))))))))))
              (create (BinNums.Npos BinNums.xH))) = false /\
         snd
           (Exec.exec_op
              (fst
                 (Exec.exec_op W_pre
                    (Exec.OSetClock
                       (BinNums.Npos
                          (BinNums.xO
                             (BinNums.xO
                                (BinNums.xO (BinNums.xO (BinNums.xO (BinNums.xI (BinNums.xO BinNums.xH)))))))))))
              (create (BinNums.Npos BinNums.xH))) = true /\
         snd
           (Exec.exec_op W_pre
              (Lemmas_Canon.CanonEx.otx
                 (Keys.KUser (BinNums.Npos (BinNums.xO BinNums.xH))
                  :: Keys.KUser
                       (BinNums.Npos
                          (BinNums.xO
                             (BinNums.xO (BinNums.xI (BinNums.xO (BinNums.xO (BinNums.xI BinNums.xH)))))))
                     :: nil)
                 (Lemmas_Canon.CanonEx.rdi RD.RInitializeDistribution (m_init (BinNums.Npos BinNums.xH))
                  :: Lemmas_Canon.CanonEx.rdi RD.RInitializeDistribution
                       (m_init (BinNums.Npos (BinNums.xO BinNums.xH))) :: nil))) = false /\
         snd (Exec.exec_op W_post (create (BinNums.Npos BinNums.xH))) = false /\
         snd (Exec.exec_op W_post (create (BinNums.Npos (BinNums.xO BinNums.xH)))) = false /\
         snd
           (Exec.exec_op
              (fst
                 (Exec.exec_op W_post
                    (Exec.OSetClock
                       (BinNums.Npos
                          (BinNums.xO
                             (BinNums.xO
                                (BinNums.xI
                                   (BinNums.xO (BinNums.xO (BinNums.xO (BinNums.xO (BinNums.xO BinNums.xH))))))))))))
              (create (BinNums.Npos (BinNums.xO BinNums.xH)))) = true.
Print Assumptions C15_creation_too_early_refused.

Theorem C15_strict_form_refuted_at_u64_max :
  ~
         (forall (W : World.world) (dk ck : Keys.key) (d : State.dist) (t : list BinNums.N)
            (c : State.rd_config),
          Inv15 W ->
          State.owner (World.get W dk) = Keys.KRd ->
          State.data (World.get W dk) = State.DDist d t ->
          State.owner (World.get W ck) = Keys.KRd ->
          State.data (World.get W ck) = State.DConfig c ->
          BinNat.N.lt (State.d_epoch d) (State.c_next_epoch c)).
Proof. exact epochs_strictly_below_next_refuted. Qed.
Check C15_strict_form_refuted_at_u64_max :
  ~
         (forall (W : World.world) (dk ck : Keys.key) (d : State.dist) (t : list BinNums.N)
            (c : State.rd_config),
          Inv15 W ->
          State.owner (World.get W dk) = Keys.KRd ->
          State.data (World.get W dk) = State.DDist d t ->
          State.owner (World.get W ck) = Keys.KRd ->
          State.data (World.get W ck) = State.DConfig c ->
          BinNat.N.lt (State.d_epoch d) (State.c_next_epoch c)).
Print Assumptions C15_strict_form_refuted_at_u64_max.
