(* C15 (snapshot part) — each distribution permanently keeps the epoch, the validator fee parameters, the relay fee, the
   community burn rate and the earliest calculation time it was created with: no later instruction of any program (hence
   no later configuration change) alters them.  Property theorems only (proofs in Lemmas_Inv*.v). *)
From DZ Require Import Base Keys Merkle State World RD Exec Lemmas_Inv Lemmas_Inv2 Lemmas_Inv3.

Theorem C15_snapshot_immutable : forall W t W' ok k d tl d' tl',
  exec_tx W t = (W', ok) -> dist_at W k = Some (d, tl) -> dist_at W' k = Some (d', tl') ->
  d_epoch d' = d_epoch d /\ d_fees d' = d_fees d /\ d_relay d' = d_relay d /\ d_cbr d' = d_cbr d /\
  d_calc_allowed_ts d' = d_calc_allowed_ts d.
Proof. exact snapshot_immutable. Qed.
Check C15_snapshot_immutable : forall W t W' ok k d tl d' tl',
  exec_tx W t = (W', ok) -> dist_at W k = Some (d, tl) -> dist_at W' k = Some (d', tl') ->
  d_epoch d' = d_epoch d /\ d_fees d' = d_fees d /\ d_relay d' = d_relay d /\ d_cbr d' = d_cbr d /\
  d_calc_allowed_ts d' = d_calc_allowed_ts d.
Print Assumptions C15_snapshot_immutable.

(* any honest history from any world, while account k stays a distribution *)
Theorem C15_snapshot_immutable_run : forall ops W k d d' tl tl', Forall honest_op ops -> alive W ops k ->
  dist_at W k = Some (d, tl) -> dist_at (run W ops) k = Some (d', tl') ->
  d_epoch d' = d_epoch d /\ d_fees d' = d_fees d /\ d_relay d' = d_relay d /\ d_cbr d' = d_cbr d /\
  d_calc_allowed_ts d' = d_calc_allowed_ts d.
Proof. exact snapshot_immutable_run. Qed.
Check C15_snapshot_immutable_run : forall ops W k d d' tl tl', Forall honest_op ops ->
  (forall n, dist_at (fold_left (fun W o => fst (exec_op W o)) (firstn n ops) W) k <> None) ->
  dist_at W k = Some (d, tl) -> dist_at (fold_left (fun W o => fst (exec_op W o)) ops W) k = Some (d', tl') ->
  d_epoch d' = d_epoch d /\ d_fees d' = d_fees d /\ d_relay d' = d_relay d /\ d_cbr d' = d_cbr d /\
  d_calc_allowed_ts d' = d_calc_allowed_ts d.
Print Assumptions C15_snapshot_immutable_run.

Theorem C15_nonvacuous :
  Forall honest_op ex_ops /\ alive ex_W ex_ops (KRdDist 7) /\
  exists d' tl', dist_at (run ex_W ex_ops) (KRdDist 7) = Some (d', tl') /\
    d_debt_final ex_dist = false /\ d_debt_final d' = true /\ d_total_validators d' = 3 /\ d_epoch d' = 7.
Proof. exact run_monoL_nonvacuous. Qed.
Check C15_nonvacuous :
  Forall honest_op ex_ops /\ alive ex_W ex_ops (KRdDist 7) /\
  exists d' tl', dist_at (run ex_W ex_ops) (KRdDist 7) = Some (d', tl') /\
    d_debt_final ex_dist = false /\ d_debt_final d' = true /\ d_total_validators d' = 3 /\ d_epoch d' = 7.
Print Assumptions C15_nonvacuous.

From DZ Require Import Base Keys Merkle BurnRate Shares Swap_Ring State World SwapDeq RD Passport Swap Exec Lemmas_RdGuards Lemmas_RdGuards2.

(* creation succeeds only for the debt accountant, unpaused, after the initialization grace period, with every snapshotted parameter configured, at exactly the address of epoch next_epoch and its custody, both still unused *)
Theorem C15_creation_guards :
  forall (cx : ctx) (W W' : world),
         rd_initialize_distribution cx W = Ok W' ->
         exists
           (m0 m1 m2 m3 m4 m5 m6 m7 m8 m9 : meta) (rest : list meta) (c : rd_config) 
         (j : journal) (rate : N) (burn' : params),
           cx_metas cx = m0 :: m1 :: m2 :: m3 :: m4 :: m5 :: m6 :: m7 :: m8 :: m9 :: rest /\
           mwritable m0 = true /\
           rd_acct W (mkey m0) (DConfig c) /\
           msigner m1 = true /\
           mkey m1 = c_debt_accountant c /\
           c_paused c = false /\
           c_init_grace_min c <> 0 /\
           c_last_init_ts c + c_init_grace_min c * 60 <= now W /\
           now W < two32 /\
           c_calc_grace_min c <> 0 /\
           fees_configured (c_fees c) = true /\
           br_compute (c_burn c) = Some (rate, burn') /\
           c_relay c <> 0 /\
           mkey m3 = KRdDist (c_next_epoch c) /\
           mkey m4 = KTok2z (KRdDist (c_next_epoch c)) /\
           mkey m5 = KMint /\
           mkey m6 = KToken /\
           fresh_acct W (KRdDist (c_next_epoch c)) /\
           fresh_acct W (KTok2z (KRdDist (c_next_epoch c))) /\
           token_mint W KMint /\
           mwritable m7 = true /\
           rd_acct W (mkey m7) (DJournal j) /\ mkey m8 = KTok2z (mkey m7) /\ mkey m9 = KAta (mkey m7) KMint.
Proof. exact rd_initialize_distribution_guards. Qed.
Check C15_creation_guards :
  forall (cx : ctx) (W W' : world),
         rd_initialize_distribution cx W = Ok W' ->
         exists
           (m0 m1 m2 m3 m4 m5 m6 m7 m8 m9 : meta) (rest : list meta) (c : rd_config) 
         (j : journal) (rate : N) (burn' : params),
           cx_metas cx = m0 :: m1 :: m2 :: m3 :: m4 :: m5 :: m6 :: m7 :: m8 :: m9 :: rest /\
           mwritable m0 = true /\
           rd_acct W (mkey m0) (DConfig c) /\
           msigner m1 = true /\
           mkey m1 = c_debt_accountant c /\
           c_paused c = false /\
           c_init_grace_min c <> 0 /\
           c_last_init_ts c + c_init_grace_min c * 60 <= now W /\
           now W < two32 /\
           c_calc_grace_min c <> 0 /\
           fees_configured (c_fees c) = true /\
           br_compute (c_burn c) = Some (rate, burn') /\
           c_relay c <> 0 /\
           mkey m3 = KRdDist (c_next_epoch c) /\
           mkey m4 = KTok2z (KRdDist (c_next_epoch c)) /\
           mkey m5 = KMint /\
           mkey m6 = KToken /\
           fresh_acct W (KRdDist (c_next_epoch c)) /\
           fresh_acct W (KTok2z (KRdDist (c_next_epoch c))) /\
           token_mint W KMint /\
           mwritable m7 = true /\
           rd_acct W (mkey m7) (DJournal j) /\ mkey m8 = KTok2z (mkey m7) /\ mkey m9 = KAta (mkey m7) KMint.
Print Assumptions C15_creation_guards.
