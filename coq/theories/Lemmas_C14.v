From DZ Require Import Base Generated BurnRate.
Local Open Scope N_scope.
Global Arguments N.min : simpl never.
Global Arguments N.max : simpl never.

(* tie to the crate's constants (Generated.v is rewritten from the compiled crate on every run) *)
Lemma br_constants : BR_MAX = 1000000000 /\ G_CBR_PARAMS_SIZE = 6 * 4 /\ BR_MAX < two32.
Proof. repeat split; reflexivity. Qed.

(* never unfold sat_add / sat_mul / checked_add inside hypotheses (Qed then spends minutes in conversion): use these *)
Lemma sat_add_small m a b : a + b < m -> sat_add m a b = a + b.
Proof. intros H. unfold sat_add. apply N.ltb_lt in H. rewrite H. reflexivity. Qed.
Lemma sat_mul_small m a b : a * b < m -> sat_mul m a b = a * b.
Proof. intros H. unfold sat_mul. apply N.ltb_lt in H. rewrite H. reflexivity. Qed.
Lemma checked_add_small m a b : a + b < m -> checked_add m a b = Some (a + b).
Proof. intros H. unfold checked_add. apply N.ltb_lt in H. rewrite H. reflexivity. Qed.
Lemma epoch_succ_pos e : epoch_succ e <> 0.
Proof. unfold epoch_succ, sat_add, two64. destruct (e + 1 <? _); lia. Qed.

Ltac unf := unfold sat_sub, BR_MAX, G_UNIT_SHARE32_MAX, two32, two64 in *.
Ltac pcbn := cbn [limit to_inc to_lim num den next] in *.

(* ------------------------------------------------------------------ well-formed parameter blocks *)
Definition pending (p : params) : N := to_lim p - N.max (to_inc p) 1.

Record wf (p : params) : Prop := {
  wf_next : 0 < next p <= limit p;
  wf_limit : limit p <= BR_MAX;
  wf_order : to_inc p <= to_lim p;
  wf_lim32 : to_lim p < two32;
  wf_den : 1 <= den p < two32;
  wf_num : num p <= BR_MAX;
  wf_budget : next p + pending p * (num p / den p) <= limit p     (* the remaining ramp fits under the limit *)
}.

Lemma div_budget k n : k * (n / (k + 1)) <= n.
Proof. pose proof (N.div_mod' n (k + 1)). nia. Qed.

Lemma update_wf p nl ni nlim p' : 0 < next p -> nl <= BR_MAX -> ni < two32 -> nlim < two32 ->
  br_update p nl ni nlim = Some p' -> wf p'.
Proof.
  unfold br_update. intros Hn Hl Hi Hlm H.
  destruct (nl <? next p) eqn:E1; [discriminate|].
  destruct (ni =? 0) eqn:E2; [discriminate|].
  destruct (nlim <? ni) eqn:E3; [discriminate|]. inversion H; subst; clear H.
  assert (sat_add two32 (sat_sub nlim ni) 1 = nlim - ni + 1) as Hden by (apply sat_add_small; unf; lia).
  constructor; pcbn; rewrite ?Hden; clear Hden; unf; try lia.
  unfold pending; pcbn. assert (N.max ni 1 = ni) as -> by lia.
  pose proof (div_budget (nlim - ni) (nl - next p)) as Hq.
  set (q := (nl - next p) / (nlim - ni + 1)) in *. nia.
Qed.

Lemma new_wf i l ni nlim p : l <= BR_MAX -> ni < two32 -> nlim < two32 -> br_new i l ni nlim = Some p -> wf p.
Proof.
  unfold br_new. intros Hl Hi Hlm H. destruct (i =? 0) eqn:E; [discriminate|].
  eapply update_wf; [|exact Hl|exact Hi|exact Hlm|exact H]. pcbn. lia.
Qed.

Lemma update_next p nl ni nlim p' : br_update p nl ni nlim = Some p' ->
  next p' = next p /\ limit p' = nl /\ to_inc p' = ni /\ to_lim p' = nlim.
Proof.
  unfold br_update. intros H.
  destruct (nl <? next p); [discriminate|]. destruct (ni =? 0); [discriminate|].
  destruct (nlim <? ni); [discriminate|]. inversion H; subst; pcbn. auto.
Qed.

(* exact acceptance condition, as coded *)
Lemma update_accepts_iff p nl ni nlim :
  (exists p', br_update p nl ni nlim = Some p') <-> (next p <= nl /\ ni <> 0 /\ ni <= nlim).
Proof.
  unfold br_update.
  destruct (nl <? next p) eqn:E1; [split; [intros [? H]; discriminate|lia]|].
  destruct (ni =? 0) eqn:E2; [split; [intros [? H]; discriminate|lia]|].
  destruct (nlim <? ni) eqn:E3; [split; [intros [? H]; discriminate|lia]|].
  split; [lia|eauto].
Qed.

Lemma new_accepts_iff i l ni nlim :
  (exists p, br_new i l ni nlim = Some p) <-> (i <> 0 /\ i <= l /\ ni <> 0 /\ ni <= nlim).
Proof.
  unfold br_new. destruct (i =? 0) eqn:E.
  - split; [intros [? H]; discriminate|lia].
  - rewrite update_accepts_iff. pcbn. lia.
Qed.

Lemma new_fields i l ni nlim p : br_new i l ni nlim = Some p ->
  p = mkP l ni nlim (l - i) (sat_add two32 (nlim - ni) 1) i.
Proof.
  unfold br_new, br_update. destruct (i =? 0); [discriminate|]. pcbn.
  destruct (l <? i); [discriminate|]. destruct (ni =? 0); [discriminate|].
  destruct (nlim <? ni); [discriminate|]. intros H; inversion H; reflexivity.
Qed.

Lemma quot_add a d n : d <> 0 -> (a * d + n) / d = a + n / d.
Proof. intros. replace (a * d + n) with (n + a * d) by lia. rewrite N.div_add by lia. lia. Qed.

Ltac ssub := unfold pending in *; pcbn; unf.

(* checked_compute never fails on a well-formed block, returns the cached next rate, and keeps the block well formed *)
Lemma compute_spec p : wf p ->
  exists p', br_compute p = Some (next p, p') /\ next p <= next p' /\ limit p' = limit p /\ wf p'.
Proof.
  intros W. pose proof W as [Hn Hl Ho H32 Hd Hnum Hb]. unfold br_compute.
  destruct (next p =? 0) eqn:E0; [lia|].
  destruct (sat_sub (to_lim p) 1 =? 0) eqn:E1.
  { eexists; split; [reflexivity|]. pcbn. split; [lia|]. split; [reflexivity|].
    constructor; pcbn; try (unf; lia).
    ssub. replace (to_lim p - 1 - N.max (to_inc p - 1) 1) with 0 by lia. lia. }
  destruct (sat_sub (to_inc p) 1 =? 0) eqn:E2.
  - assert (next p * den p < 4611686018427387904) as Hprod by (unf; nia).
    rewrite (sat_mul_small two64 (next p) (den p)) by (unf; lia).
    rewrite (checked_add_small two64 (next p * den p) (num p)) by (unf; lia).
    destruct (den p =? 0) eqn:E4; [lia|].
    rewrite quot_add by lia.
    assert (pending p >= 1) as Hp1 by (clear Hb; ssub; lia).
    set (st := num p / den p) in *.
    assert (pending p * st = st + (pending p - 1) * st) as Hsplit by nia.
    assert (next p + st <= limit p) as Hfit by nia.
    destruct (BR_MAX <? next p + st) eqn:E5; [unf; lia|].
    eexists; split; [reflexivity|]. pcbn. split; [lia|]. split; [reflexivity|].
    constructor; pcbn; try (unf; lia).
    assert (pending (mkP (limit p) (sat_sub (to_inc p) 1) (sat_sub (to_lim p) 1) (num p) (den p)
                         (N.min (next p + st) (limit p))) = pending p - 1) as ->
        by (clear Hb Hsplit Hfit; ssub; lia).
    fold st. lia.
  - eexists; split; [reflexivity|]. pcbn. split; [lia|]. split; [reflexivity|].
    constructor; pcbn; try (unf; lia).
    assert (pending (mkP (limit p) (sat_sub (to_inc p) 1) (sat_sub (to_lim p) 1) (num p) (den p) (next p)) = pending p) as ->
        by (clear Hb; ssub; lia).
    lia.
Qed.

Lemma compute_never_fails p : wf p -> br_compute p <> None.
Proof. intros W. destruct (compute_spec p W) as (p' & H & _). rewrite H. discriminate. Qed.

Lemma compute_returns_next p r p' : wf p -> br_compute p = Some (r, p') -> r = next p.
Proof. intros W H. destruct (compute_spec p W) as (q & Hq & _). rewrite Hq in H. inversion H; reflexivity. Qed.

Lemma compute_wf p r p' : wf p -> br_compute p = Some (r, p') -> wf p' /\ r <= next p' /\ next p' <= limit p' /\ limit p' = limit p.
Proof.
  intros W H. destruct (compute_spec p W) as (q & Hq & Hle & Hlim & Wq). rewrite Hq in H. inversion H; subst.
  split; [exact Wq|]. split; [exact Hle|]. split; [apply Wq|exact Hlim].
Qed.

(* a block that never received an initial rate: compute fails, updates keep the rate at zero *)
Lemma compute_unset p : next p = 0 -> br_compute p = None.
Proof. intros H. unfold br_compute. rewrite H. reflexivity. Qed.

(* ------------------------------------------------------------------ the processor arm *)
Definition op_ok (o : bop) : Prop := bop_okb o = true.

Lemma configure_rejected_unchanged s l ti tl i :
  configure_burn_rate (fst s) (snd s) l ti tl i = None -> br_step s (BUpdate l ti tl i) = (s, RRej).
Proof. destruct s as [e p]. cbn [fst snd br_step]. intros ->. reflexivity. Qed.

Lemma step_failed_unchanged s o : snd (br_step s o) = RRej \/ snd (br_step s o) = RFail -> fst (br_step s o) = s.
Proof.
  destruct s as [e p], o as [|l ti tl i]; cbn [br_step].
  - destruct (br_compute p) as [[r p']|]; cbn [fst snd]; [intros [H|H]; discriminate|reflexivity].
  - destruct (configure_burn_rate e p l ti tl i); cbn [fst snd]; [intros [H|H]; discriminate|reflexivity].
Qed.

(* an initial rate is taken only while no distribution exists *)
Lemma initial_rate_only_at_epoch_0 e p l ti tl r p' :
  configure_burn_rate e p l ti tl (Some r) = Some p' -> e = 0 /\ br_new r l ti tl = Some p' /\ next p' = r /\ r <> 0.
Proof.
  unfold configure_burn_rate. destruct (BR_MAX <? l); [discriminate|].
  destruct (e =? 0) eqn:E; cbn [negb]; [|discriminate].
  destruct (BR_MAX <? r); [discriminate|]. intros H. split; [lia|]. split; [exact H|].
  pose proof (new_fields _ _ _ _ _ H) as ->. pcbn. split; [reflexivity|].
  unfold br_new in H. destruct (r =? 0) eqn:E0; [discriminate|lia].
Qed.

Lemma configure_accepts_iff e p l ti tl i :
  (exists p', configure_burn_rate e p l ti tl i = Some p') <->
  (l <= BR_MAX /\ ti <> 0 /\ ti <= tl /\
   match i with Some r => e = 0 /\ r <> 0 /\ r <= l | None => next p <= l end).
Proof.
  unfold configure_burn_rate. destruct (BR_MAX <? l) eqn:E1.
  { split; [intros [? H]; discriminate|lia]. }
  destruct i as [r|].
  - destruct (e =? 0) eqn:E2; cbn [negb]; [|split; [intros [? H]; discriminate|lia]].
    destruct (BR_MAX <? r) eqn:E3; [split; [intros [? H]; discriminate|lia]|].
    rewrite new_accepts_iff. lia.
  - rewrite update_accepts_iff. lia.
Qed.

Lemma configure_wf e p l ti tl i p' : wf p \/ next p = 0 -> op_ok (BUpdate l ti tl i) ->
  configure_burn_rate e p l ti tl i = Some p' ->
  (wf p' /\ (i = None -> next p' = next p)) \/ (next p' = 0 /\ next p = 0 /\ i = None).
Proof.
  intros Hp Hok H. unfold op_ok in Hok; cbn [bop_okb] in Hok.
  unfold configure_burn_rate in H. destruct (BR_MAX <? l) eqn:E1; [discriminate|].
  destruct i as [r|].
  - destruct (negb (e =? 0)); [discriminate|]. destruct (BR_MAX <? r); [discriminate|].
    left. split; [|discriminate]. eapply new_wf; eauto; unf; lia.
  - destruct (update_next _ _ _ _ _ H) as (Hn & _).
    destruct Hp as [W|Hz].
    + left. split; [|auto]. eapply update_wf; eauto; [apply W|unf; lia..].
    + right. rewrite Hn. auto.
Qed.

(* ------------------------------------------------------------------ rates over arbitrary interleavings *)
Fixpoint nondec_from (lo : N) (l : list N) : Prop :=
  match l with [] => True | x :: tl => lo <= x /\ nondec_from x tl end.

Lemma nondec_from_weaken lo lo' l : lo' <= lo -> nondec_from lo l -> nondec_from lo' l.
Proof. destruct l; cbn; [auto|]. intros ? [? ?]. split; [lia|auto]. Qed.

(* state invariant of the processor-level machine *)
Definition pre (p : params) : Prop := wf p \/ next p = 0.

Lemma pre_default : pre br_default.
Proof. right. reflexivity. Qed.

Lemma run_cons {S} (step : S -> bop -> S * bres) s o ops :
  run step s (o :: ops) = snd (step s o) :: run step (fst (step s o)) ops.
Proof. cbn [run]. destruct (step s o); reflexivity. Qed.

(* lo is a floor for every rate still to come: 0 before the first distribution, else <= the cached next rate *)
Lemma rates_nondecreasing_gen ops : forall e p lo, pre p -> Forall op_ok ops ->
  (lo = 0 \/ (e <> 0 /\ lo <= next p)) ->
  nondec_from lo (rates (run br_step (e, p) ops)).
Proof.
  induction ops as [|o ops IH]; intros e p lo Hp Hok Hlo; [exact I|].
  inversion Hok as [|? ? Ho Hops]; subst. rewrite run_cons.
  destruct o as [|l ti tl i]; cbn [br_step].
  - destruct Hp as [W|Hz].
    + destruct (compute_spec p W) as (p' & Hc & Hle & Hlim & W'). rewrite Hc. cbn [fst snd rates].
      split; [destruct Hlo; lia|].
      apply IH; [left; exact W'|exact Hops|].
      right. split; [apply epoch_succ_pos|exact Hle].
    + rewrite (compute_unset p Hz). cbn [fst snd rates]. apply IH; auto. right; exact Hz.
  - destruct (configure_burn_rate e p l ti tl i) as [p'|] eqn:Hc; cbn [fst snd rates].
    + destruct (configure_wf e p l ti tl i p' Hp Ho Hc) as [[W' Hn]|(Hz' & Hz & Hi)].
      * apply IH; [left; exact W'|exact Hops|].
        destruct i as [r|].
        -- destruct (initial_rate_only_at_epoch_0 _ _ _ _ _ _ _ Hc) as (He & _).
           destruct Hlo as [?|[? ?]]; [left; assumption|contradiction].
        -- rewrite (Hn eq_refl). exact Hlo.
      * apply IH; [right; exact Hz'|exact Hops|]. destruct Hlo as [?|[? ?]]; [left; assumption|right; split; [assumption|lia]].
    + apply IH; assumption.
Qed.

Theorem rates_nondecreasing ops e p : pre p -> Forall op_ok ops ->
  nondec_from 0 (rates (run br_step (e, p) ops)).
Proof. intros. apply rates_nondecreasing_gen; auto. Qed.

(* each assigned rate together with the limit in force when it was assigned *)
Fixpoint rate_limits (s : mstate) (ops : list bop) : list (N * N) :=
  match ops with
  | [] => []
  | o :: tl => let '(s', r) := br_step s o in
               match r with RRate x => (x, limit (snd s)) :: rate_limits s' tl | _ => rate_limits s' tl end
  end.

Lemma rate_limits_rates ops : forall s, map fst (rate_limits s ops) = rates (run br_step s ops).
Proof.
  induction ops as [|o ops IH]; intros s; [reflexivity|]. cbn [rate_limits run].
  destruct (br_step s o) as [s' r]. destruct r; cbn [rates map fst]; rewrite ?IH; reflexivity.
Qed.

Theorem rates_le_limit ops : forall e p, pre p -> Forall op_ok ops ->
  Forall (fun rl => fst rl <= snd rl /\ snd rl <= BR_MAX) (rate_limits (e, p) ops).
Proof.
  induction ops as [|o ops IH]; intros e p Hp Hok; [constructor|].
  inversion Hok as [|? ? Ho Hops]; subst. cbn [rate_limits].
  destruct o as [|l ti tl i]; cbn [br_step].
  - destruct Hp as [W|Hz].
    + destruct (compute_spec p W) as (p' & Hc & Hle & Hlim & W'). rewrite Hc. cbn [snd].
      constructor; [cbn [fst snd]; split; [apply W|apply W]|]. apply IH; [left; exact W'|exact Hops].
    + rewrite (compute_unset p Hz). apply IH; [right; exact Hz|exact Hops].
  - destruct (configure_burn_rate e p l ti tl i) as [p'|] eqn:Hc.
    + apply IH; [|exact Hops].
      destruct (configure_wf e p l ti tl i p' Hp Ho Hc) as [[W' _]|(Hz' & _)]; [left|right]; assumption.
    + apply IH; assumption.
Qed.

(* the limit in force is at most 100% in every reachable state (after any operation sequence) *)
Fixpoint run_state {S} (step : S -> bop -> S * bres) (s : S) (ops : list bop) : S :=
  match ops with [] => s | o :: tl => run_state step (fst (step s o)) tl end.

Lemma pre_preserved ops : forall e p, pre p -> Forall op_ok ops -> pre (snd (run_state br_step (e, p) ops)).
Proof.
  induction ops as [|o ops IH]; intros e p Hp Hok; [exact Hp|].
  inversion Hok as [|? ? Ho Hops]; subst. cbn [run_state].
  destruct o as [|l ti tl i]; cbn [br_step].
  - destruct Hp as [W|Hz].
    + destruct (compute_spec p W) as (p' & Hc & _ & _ & W'). rewrite Hc. apply IH; [left; exact W'|exact Hops].
    + rewrite (compute_unset p Hz). apply IH; [right; exact Hz|exact Hops].
  - destruct (configure_burn_rate e p l ti tl i) as [p'|] eqn:Hc; cbn [fst].
    + apply IH; [|exact Hops].
      destruct (configure_wf e p l ti tl i p' Hp Ho Hc) as [[W' _]|(Hz' & _)]; [left|right]; assumption.
    + apply IH; assumption.
Qed.

Lemma configure_limit e p l ti tl i p' : configure_burn_rate e p l ti tl i = Some p' -> limit p' = l /\ l <= BR_MAX.
Proof.
  unfold configure_burn_rate. destruct (BR_MAX <? l) eqn:E; [discriminate|]. intros H. split; [|lia].
  destruct i as [r|].
  - destruct (negb (e =? 0)); [discriminate|]. destruct (BR_MAX <? r); [discriminate|].
    rewrite (new_fields _ _ _ _ _ H). reflexivity.
  - apply update_next in H. apply H.
Qed.

Theorem limit_le_max ops : forall e p, limit p <= BR_MAX -> limit (snd (run_state br_step (e, p) ops)) <= BR_MAX.
Proof.
  induction ops as [|o ops IH]; intros e p Hl; [exact Hl|]. cbn [run_state].
  destruct o as [|l ti tl i]; cbn [br_step].
  - destruct (br_compute p) as [[r p']|] eqn:Hc; cbn [fst]; [|apply IH; exact Hl].
    apply IH. unfold br_compute in Hc. destruct (next p =? 0); [discriminate|].
    destruct (sat_sub (to_lim p) 1 =? 0); [inversion Hc; subst; exact Hl|].
    destruct (sat_sub (to_inc p) 1 =? 0); [|inversion Hc; subst; exact Hl].
    destruct (checked_add _ _ _); [|discriminate]. destruct (den p =? 0); [discriminate|].
    destruct (BR_MAX <? _); [discriminate|]. inversion Hc; subst; exact Hl.
  - destruct (configure_burn_rate e p l ti tl i) as [p'|] eqn:Hc; cbn [fst]; [|apply IH; exact Hl].
    apply IH. destruct (configure_limit _ _ _ _ _ _ _ Hc) as [-> ?]. assumption.
Qed.

(* ------------------------------------------------------------------ refinement of the closed-form specification *)
Definition cfg_ok (c : cfg) : Prop :=
  0 < c_r0 c /\ c_r0 c <= c_lim c /\ c_lim c <= BR_MAX /\ 1 <= c_ti c /\ c_ti c <= c_tl c /\ c_tl c < two32.

Definition rel (p : params) (c : cfg) : Prop :=
  cfg_ok c /\ limit p = c_lim c /\ to_inc p = c_ti c - c_k c /\ to_lim p = c_tl c - c_k c /\
  num p = c_lim c - c_r0 c /\ den p = c_tl c - c_ti c + 1 /\ next p = ramp c.

Lemma ramp_cases c : cfg_ok c ->
  (c_k c < c_ti c /\ ramp c = c_r0 c) \/
  (c_ti c <= c_k c < c_tl c /\ ramp c = c_r0 c + (c_k c - c_ti c + 1) * c_step c) \/
  (c_tl c <= c_k c /\ ramp c = c_lim c).
Proof.
  intros _. unfold ramp. destruct (c_k c <? c_ti c) eqn:E1; [left; lia|].
  destruct (c_k c <? c_tl c) eqn:E2; [right; left; lia|right; right; lia].
Qed.

(* a ramp of a steps never passes the limit *)
Lemma ramp_budget c a : cfg_ok c -> a <= c_tl c - c_ti c -> c_r0 c + a * c_step c <= c_lim c.
Proof.
  intros (H0 & H1 & H2 & H3 & H4 & H5) Ha. unfold c_step.
  pose proof (div_budget (c_tl c - c_ti c) (c_lim c - c_r0 c)).
  set (S := (c_lim c - c_r0 c) / (c_tl c - c_ti c + 1)) in *. nia.
Qed.

Lemma ramp_bounds c : cfg_ok c -> c_r0 c <= ramp c <= c_lim c.
Proof.
  intros H. pose proof H as (H0 & H1 & H2 & H3 & H4 & H5).
  destruct (ramp_cases c H) as [[? ->]|[[? ->]|[? ->]]]; try lia.
  assert (c_k c - c_ti c + 1 <= c_tl c - c_ti c) as Ha by lia.
  pose proof (ramp_budget c (c_k c - c_ti c + 1) H Ha). split; [|assumption].
  apply N.le_add_r.
Qed.

Lemma ramp_mono c : cfg_ok c -> ramp c <= ramp (bump c).
Proof.
  intros H. pose proof H as (H0 & H1 & H2 & H3 & H4 & H5).
  assert (cfg_ok (bump c)) as Hb by exact H.
  destruct (ramp_cases c H) as [[Hk ->]|[[Hk ->]|[Hk ->]]].
  - pose proof (ramp_bounds (bump c) Hb). cbn [bump c_r0] in *. lia.
  - destruct (ramp_cases (bump c) Hb) as [[Hk' ->]|[[Hk' ->]|[Hk' ->]]]; cbn [bump c_r0 c_lim c_ti c_tl c_k] in *; try lia.
    + unfold c_step; cbn [c_r0 c_lim c_ti c_tl]. fold (c_step c).
      apply N.add_le_mono_l, N.mul_le_mono_r. lia.
    + assert (c_k c - c_ti c + 1 <= c_tl c - c_ti c) as Ha by lia.
      pose proof (ramp_budget c (c_k c - c_ti c + 1) H Ha). lia.
  - destruct (ramp_cases (bump c) Hb) as [[Hk' ->]|[[Hk' ->]|[Hk' ->]]]; cbn [bump c_r0 c_lim c_ti c_tl c_k] in *; lia.
Qed.

Lemma compute_rel p c : rel p c -> exists p', br_compute p = Some (ramp c, p') /\ rel p' (bump c).
Proof.
  intros (Hok & Hl & Hti & Htl & Hnum & Hden & Hnext).
  pose proof Hok as (H0 & H1 & H2 & H3 & H4 & H5).
  pose proof (ramp_bounds c Hok) as Hrb.
  unfold br_compute. destruct (next p =? 0) eqn:E0; [lia|]. rewrite Hnext.
  assert (cfg_ok (bump c)) as Hokb by exact Hok.
  destruct (sat_sub (to_lim p) 1 =? 0) eqn:E1.
  { eexists; split; [reflexivity|]. unfold rel; pcbn. split; [exact Hokb|].
    cbn [bump c_r0 c_lim c_ti c_tl c_k]. unf.
    split; [lia|]. split; [lia|]. split; [lia|]. split; [lia|]. split; [lia|].
    destruct (ramp_cases (bump c) Hokb) as [[Hk ?]|[[Hk ?]|[Hk ->]]]; cbn [bump c_r0 c_lim c_ti c_tl c_k] in *; lia. }
  destruct (sat_sub (to_inc p) 1 =? 0) eqn:E2.
  - (* the ramp: k + 1 >= ti, k + 1 < tl *)
    assert (c_ti c <= c_k c + 1 /\ c_k c + 1 < c_tl c) as [Hk1 Hk2] by (unf; lia).
    assert (ramp c * den p < 4611686018427387904) as Hprod by (unf; nia).
    assert (num p <= 1000000000) as Hnb by (unf; lia).
    rewrite (sat_mul_small two64 (ramp c) (den p)) by (unf; lia).
    rewrite (checked_add_small two64 (ramp c * den p) (num p)) by (unf; lia).
    destruct (den p =? 0) eqn:E4; [lia|]. rewrite quot_add by lia.
    assert (num p / den p = c_step c) as Hst by (unfold c_step; rewrite Hnum, Hden; reflexivity).
    rewrite Hst.
    assert (ramp c + c_step c = ramp (bump c) /\ ramp (bump c) <= c_lim c) as [Hnew Hfit].
    { pose proof (ramp_bounds (bump c) Hokb) as Hbb. cbn [bump c_lim] in Hbb. split; [|lia].
      destruct (ramp_cases (bump c) Hokb) as [[Hk ?]|[[Hk Hr']|[Hk ?]]]; cbn [bump c_r0 c_lim c_ti c_tl c_k] in *; try lia.
      rewrite Hr'. unfold c_step at 2; cbn [c_r0 c_lim c_ti c_tl]. fold (c_step c).
      destruct (ramp_cases c Hok) as [[Hkk ->]|[[Hkk ->]|[Hkk ?]]]; [|nia|lia].
      assert (c_k c + 1 - c_ti c = 0) as -> by lia. lia. }
    rewrite Hnew.
    destruct (BR_MAX <? ramp (bump c)) eqn:E5; [unf; lia|].
    eexists; split; [reflexivity|]. unfold rel; pcbn. split; [exact Hokb|].
    cbn [bump c_r0 c_lim c_ti c_tl c_k]. unf.
    split; [lia|]. split; [lia|]. split; [lia|]. split; [lia|]. split; [lia|].
    cbn [bump c_lim] in Hfit. lia.
  - (* still static: k + 1 < ti *)
    eexists; split; [reflexivity|]. unfold rel; pcbn. split; [exact Hokb|].
    cbn [bump c_r0 c_lim c_ti c_tl c_k]. unf.
    split; [lia|]. split; [lia|]. split; [lia|]. split; [lia|]. split; [lia|].
    destruct (ramp_cases c Hok) as [[Hk ->]|[[Hk ?]|[Hk ?]]]; [|lia|lia].
    destruct (ramp_cases (bump c) Hokb) as [[Hk' ->]|[[Hk' ?]|[Hk' ?]]]; cbn [bump c_r0 c_lim c_ti c_tl c_k] in *; lia.
Qed.

Lemma ramp_k0 r l ti tl : 1 <= ti -> ramp (mkC r l ti tl 0) = r.
Proof. intros. unfold ramp; cbn [c_k c_ti c_r0]. destruct (0 <? ti) eqn:E; [reflexivity|lia]. Qed.

Lemma update_rel p r l ti tl p' : next p = r -> cfg_ok (mkC r l ti tl 0) ->
  br_update p l ti tl = Some p' -> rel p' (mkC r l ti tl 0).
Proof.
  intros Hn Hok H. pose proof Hok as (H0 & H1 & H2 & H3 & H4 & H5). cbn [c_r0 c_lim c_ti c_tl c_k] in *.
  unfold br_update in H. destruct (l <? next p); [discriminate|]. destruct (ti =? 0); [discriminate|].
  destruct (tl <? ti); [discriminate|]. inversion H; subst; clear H.
  unfold rel; pcbn. cbn [c_r0 c_lim c_ti c_tl c_k]. rewrite ramp_k0 by lia.
  split; [exact Hok|]. rewrite sat_add_small by (unf; lia). unf. lia.
Qed.

Lemma args_ok_spec f l ti tl : args_ok f l ti tl = true <-> (f <= l /\ l <= BR_MAX /\ ti <> 0 /\ ti <= tl).
Proof. unfold args_ok. rewrite !andb_true_iff, negb_true_iff, !N.leb_le, N.eqb_neq. tauto. Qed.

Definition sim (s : mstate) (t : sstate) : Prop :=
  fst s = fst t /\ match snd t with Some c => rel (snd s) c | None => next (snd s) = 0 end.

(* one step: same observable result, simulation preserved *)
Lemma step_sim s t o : sim s t -> op_ok o ->
  snd (br_step s o) = snd (spec_step t o) /\ sim (fst (br_step s o)) (fst (spec_step t o)).
Proof.
  destruct s as [e p], t as [e' c]. intros [He Hc] Hok. cbn [fst snd] in He, Hc. subst e'.
  unfold op_ok in Hok. destruct o as [|l ti tl i]; cbn [br_step spec_step].
  - destruct c as [c|].
    + destruct (compute_rel p c Hc) as (p' & -> & Hr). cbn [fst snd]. split; [reflexivity|]. split; [reflexivity|exact Hr].
    + rewrite (compute_unset p Hc). cbn [fst snd]. split; [reflexivity|]. split; [reflexivity|exact Hc].
  - cbn [bop_okb] in Hok. rewrite !andb_true_iff, !N.ltb_lt in Hok. destruct Hok as [[[Hl Hti] Htl] Hi].
    destruct i as [r|].
    + rewrite N.ltb_lt in Hi.
      destruct ((e =? 0) && negb (r =? 0) && args_ok r l ti tl) eqn:Ea.
      * rewrite !andb_true_iff, negb_true_iff, args_ok_spec, N.eqb_eq, N.eqb_neq in Ea.
        destruct Ea as [[He Hr] (A1 & A2 & A3 & A4)].
        destruct (proj2 (configure_accepts_iff e p l ti tl (Some r))) as [p' Hp']; [lia|].
        rewrite Hp'. cbn [fst snd]. split; [reflexivity|]. split; [reflexivity|].
        destruct (initial_rate_only_at_epoch_0 _ _ _ _ _ _ _ Hp') as (_ & Hnew & _).
        unfold br_new in Hnew. destruct (r =? 0); [discriminate|].
        eapply update_rel; [reflexivity| |exact Hnew].
        unfold cfg_ok; cbn [c_r0 c_lim c_ti c_tl]. lia.
      * destruct (configure_burn_rate e p l ti tl (Some r)) as [p'|] eqn:Hp'.
        -- exfalso. destruct (proj1 (configure_accepts_iff e p l ti tl (Some r)) (ex_intro _ p' Hp')) as (B1 & B2 & B3 & B4 & B5 & B6).
           assert ((e =? 0) && negb (r =? 0) && args_ok r l ti tl = true); [|congruence].
           rewrite !andb_true_iff, negb_true_iff, args_ok_spec, N.eqb_eq, N.eqb_neq. lia.
        -- cbn [fst snd]. split; [reflexivity|]. split; [reflexivity|exact Hc].
    + destruct (args_ok (spec_next c) l ti tl) eqn:Ea.
      * rewrite args_ok_spec in Ea. destruct Ea as (A1 & A2 & A3 & A4).
        assert (next p = spec_next c) as Hnx by (destruct c as [c|]; [apply Hc|exact Hc]).
        destruct (proj2 (configure_accepts_iff e p l ti tl None)) as [p' Hp']; [lia|].
        rewrite Hp'. cbn [fst snd]. split; [reflexivity|]. split; [reflexivity|].
        unfold configure_burn_rate in Hp'. destruct (BR_MAX <? l); [discriminate|].
        destruct c as [c|]; cbn [spec_next] in *.
        -- eapply update_rel; [exact Hnx| |exact Hp'].
           destruct Hc as (Hok & _). pose proof (ramp_bounds c Hok). destruct Hok as (K0 & K1 & K2 & K3 & K4 & K5).
           unfold cfg_ok; cbn [c_r0 c_lim c_ti c_tl]. lia.
        -- destruct (update_next _ _ _ _ _ Hp') as (-> & _). exact Hc.
      * destruct (configure_burn_rate e p l ti tl None) as [p'|] eqn:Hp'.
        -- exfalso. destruct (proj1 (configure_accepts_iff e p l ti tl None) (ex_intro _ p' Hp')) as (B1 & B2 & B3 & B4).
           assert (next p = spec_next c) as Hnx by (destruct c as [c|]; [apply Hc|exact Hc]).
           assert (args_ok (spec_next c) l ti tl = true); [|congruence].
           rewrite args_ok_spec. lia.
        -- cbn [fst snd]. split; [reflexivity|]. split; [reflexivity|exact Hc].
Qed.
